(* The hand-written model of the trigger decision (Model/ServiceTrigger.v) agrees with what the
   translator reads off the source on this run (Generated/ServiceTriggerFuns.v is rewritten from
   the repository by harness/cmd/translate/gen_servicetriggerfuns.go on every check of C02).

   The proofs first rewrite the model's comparisons into the translator's vocabulary (x >? y is
   y <? x, x >=? y is y <=? x, the casts are the generated casts) and then split on every atom,
   so a reordering of tests that leaves the decision unchanged does not break them, while a
   changed comparison operator, a dropped test or a different cast does. *)
From Coq Require Import List NArith ZArith Bool Lia.
From Verif Require Import Lib.Bytes Lib.Assoc Lib.Sorting Model.ServiceTrigger Generated.ServiceTriggerFuns.
Import ListNotations.
Open Scope Z_scope.

(* Decide a goal between boolean expressions over Z comparisons: destruct every comparison atom
   with its specification, simplify the boolean structure, close the contradictory cases with
   lia.  `a < b` written as `negb (b <=? a)`, a test moved, an if/return chain turned into one
   returned expression all end in the same cases. *)
Ltac split_atoms :=
  repeat match goal with
         | |- context [Z.eqb ?a ?b] => destruct (Z.eqb_spec a b)
         | |- context [Z.ltb ?a ?b] => destruct (Z.ltb_spec a b)
         | |- context [Z.leb ?a ?b] => destruct (Z.leb_spec a b)
         end;
  cbn [negb andb orb Bool.eqb]; try reflexivity; try (exfalso; lia).

(* ------------------------------------------------------------------------------------- *)
(* casts *)

Lemma gen_to_int64_is x : gen_to_int64 x = to_i64 x.
Proof. reflexivity. Qed.

Lemma gen_to_int32_is x : gen_to_int32 x = to_i32 x.
Proof. reflexivity. Qed.

Lemma to_i64_range x : - 2^63 <= to_i64 x < 2^63.
Proof.
  unfold to_i64. pose proof (Z.mod_pos_bound x (2^64) ltac:(lia)) as H.
  destruct (x mod 2^64 <? 2^63) eqn:E; [apply Z.ltb_lt in E|apply Z.ltb_ge in E]; lia.
Qed.

Lemma to_i64_fix x : - 2^63 <= x < 2^63 -> to_i64 x = x.
Proof.
  intros H. unfold to_i64.
  destruct (Z_lt_dec x 0) as [Hn|Hn].
  - replace (x mod 2^64) with (x + 2^64) by (apply Z.mod_unique with (q := -1); lia).
    destruct (x + 2^64 <? 2^63) eqn:E; [apply Z.ltb_lt in E; lia|lia].
  - rewrite Z.mod_small by lia. destruct (x <? 2^63) eqn:E; [reflexivity|apply Z.ltb_ge in E; lia].
Qed.

Lemma to_i64_idem x : to_i64 (to_i64 x) = to_i64 x.
Proof. apply to_i64_fix. apply to_i64_range. Qed.

(* ------------------------------------------------------------------------------------- *)
(* shouldTriggerDecryption *)

Lemma should_trigger_agrees c d r number time :
  should_trigger c d r number time =
  match resolve_decryptable_eon c d (ir_eon r) with
  | Some e => gen_should_trigger true (eo_activation e) (to_i64 number) (ir_timestamp r) time
  | None => gen_should_trigger false 0 (to_i64 number) (ir_timestamp r) time
  end.
Proof.
  unfold should_trigger, gen_should_trigger.
  destruct (resolve_decryptable_eon c d (ir_eon r)) as [e|]; [|reflexivity].
  rewrite Z.gtb_ltb, Z.geb_leb. change gen_to_int64 with to_i64. cbn [negb].
  split_atoms.
Qed.

(* ------------------------------------------------------------------------------------- *)
(* resolveDecryptableEon *)

Definition found {A} (o : option A) : bool := match o with Some _ => true | None => false end.
Definition config_found (c : config) (d : database) (idx : Z) : bool :=
  match get_keyper_index d idx (me c) with KINoConfig => false | _ => true end.
Definition is_keyper (c : config) (d : database) (idx : Z) : bool :=
  match get_keyper_index d idx (me c) with KIMember _ => true | _ => false end.
Definition dkg_success_of (d : database) (idx : Z) : bool :=
  match dkg_for_config d idx with Some k => dk_success k | None => false end.

Lemma resolve_agrees c d idx :
  resolve_decryptable_eon c d idx =
  if gen_resolve_decryptable (found (latest_eon d idx)) (config_found c d idx) (is_keyper c d idx)
                             (found (dkg_for_config d idx)) (dkg_success_of d idx)
  then latest_eon d idx else None.
Proof.
  unfold resolve_decryptable_eon, gen_resolve_decryptable, found, config_found, is_keyper, dkg_success_of.
  destruct (latest_eon d idx) as [e|], (get_keyper_index d idx (me c)), (dkg_for_config d idx) as [k|];
    try destruct (dk_success k); reflexivity.
Qed.

(* the queries inside it *)
Lemma latest_eon_step best e rest idx :
  latest_eon_from best (e :: rest) idx =
  if gen_q_latest_eon_where (eo_cfg e) idx
  then match best with
       | Some b => if gen_q_latest_eon_before (eo_eon e) (eo_eon b)
                   then latest_eon_from (Some e) rest idx else latest_eon_from best rest idx
       | None => latest_eon_from (Some e) rest idx
       end
  else latest_eon_from best rest idx.
Proof.
  simpl. unfold gen_q_latest_eon_where, gen_q_latest_eon_before.
  destruct best as [b|]; split_atoms.
Qed.

Lemma get_dkg_agrees d eon :
  get_dkg d eon = find (fun k => gen_q_dkg_result_where (dk_eon k) eon) (dkgs d).
Proof. reflexivity. Qed.

Lemma get_keyper_index_agrees d idx addr :
  get_keyper_index d idx addr =
  match find (fun c => gen_q_batch_config_where (cf_index c) (gen_batch_config_param idx)) (cfgs d) with
  | None => KINoConfig
  | Some c => match index_of (cf_keypers c) addr 0 with Some i => KIMember i | None => KINotMember end
  end.
Proof. reflexivity. Qed.

(* ------------------------------------------------------------------------------------- *)
(* prepareTimeBasedTriggers *)

Lemma select_rows_fold {A} (f : A -> bool) rows : forall acc,
  fold_left (fun acc x => let t := f x in let acc := if t then acc ++ [x] else acc in acc) rows acc
  = acc ++ filter f rows.
Proof.
  induction rows as [|x rest IH]; intros acc; simpl; [rewrite app_nil_r; reflexivity|].
  rewrite IH. destruct (f x); [rewrite <- app_assoc; reflexivity|reflexivity].
Qed.

Lemma select_rows_agrees {A} (f : A -> bool) rows : gen_select_rows f rows = filter f rows.
Proof. unfold gen_select_rows. rewrite select_rows_fold. reflexivity. Qed.

Lemma window_lo_agrees latest :
  gen_window_p1 (gen_last_triggered latest) = match latest with Some l => to_i64 l | None => 0 end.
Proof.
  unfold gen_window_p1, gen_last_triggered. destruct latest as [l|].
  - change (gen_to_int64 (gen_to_int64 l)) with (to_i64 (to_i64 l)). apply to_i64_idem.
  - reflexivity.
Qed.

Lemma prepare_time_based_agrees c d latest number time enum :
  prepare_time_based c d latest number time enum =
  if gen_early_return latest time then (latest, [])
  else
    let rows := window_rows d (gen_window_p1 (gen_last_triggered latest)) (gen_window_p2 time) in
    let chosen := gen_select_rows (fun r => should_trigger c d r number time) rows in
    let groups := time_groups c d chosen in
    (gen_new_latest time, emit_time groups (enum (map fst groups))).
Proof.
  unfold prepare_time_based, gen_early_return. cbv zeta.
  rewrite window_lo_agrees, select_rows_agrees.
  change (gen_window_p2 time) with (to_i64 time). unfold gen_new_latest.
  destruct latest as [l|]; split_atoms.
Qed.

(* the window query *)
Lemma window_where_agrees r lo hi :
  (lo <=? ir_timestamp r) && (ir_timestamp r <=? hi) && negb (ir_decrypted r)
  = gen_q_window_where (ir_timestamp r) (ir_decrypted r) lo hi.
Proof.
  unfold gen_q_window_where. destruct (ir_decrypted r); split_atoms.
Qed.

Fixpoint insert_by {A} (before : A -> A -> bool) (x : A) (l : list A) : list A :=
  match l with
  | [] => [x]
  | y :: rest => if before y x then y :: insert_by before x rest else x :: l
  end.
Definition sort_by {A} (before : A -> A -> bool) (l : list A) : list A := fold_right (insert_by before) [] l.

Lemma ts_sort_agrees l :
  ts_sort l = sort_by (fun a b => gen_q_window_before (ir_timestamp a) (ir_timestamp b)) l.
Proof.
  induction l as [|x rest IH]; simpl; [reflexivity|]. rewrite IH.
  generalize (sort_by (fun a b => gen_q_window_before (ir_timestamp a) (ir_timestamp b)) rest).
  intros s. induction s as [|y s' IHs]; simpl; [reflexivity|]. rewrite IHs. reflexivity.
Qed.

Lemma window_rows_agrees d lo hi :
  window_rows d lo hi =
  sort_by (fun a b => gen_q_window_before (ir_timestamp a) (ir_timestamp b))
          (filter (fun r => gen_q_window_where (ir_timestamp r) (ir_decrypted r) lo hi) (irs d)).
Proof.
  unfold window_rows. rewrite ts_sort_agrees.
  rewrite (filter_ext _ (fun r => gen_q_window_where (ir_timestamp r) (ir_decrypted r) lo hi)); [reflexivity|].
  intros r. apply window_where_agrees.
Qed.

(* sortIdentityPreimages *)
Lemma identity_less_agrees a b : gen_identity_less a b = bytes_ltb a b.
Proof. reflexivity. Qed.

(* ------------------------------------------------------------------------------------- *)
(* the trigger processor *)

Lemma active_triggers_agrees d start :
  active_triggers d start =
  filter (fun e => gen_q_active_where (et_expiration e) (et_decrypted e)
                     (existsb (ft_match (et_eon e) (et_identity e)) (fts d)) start) (ets d).
Proof.
  unfold active_triggers. apply filter_ext. intros e. unfold gen_q_active_where.
  destruct (et_decrypted e), (existsb _ (fts d)); split_atoms.
Qed.

Lemma active_param_agrees start : 0 <= start < 2^63 -> gen_active_param start = start.
Proof. intros H. unfold gen_active_param. change (gen_to_int64 start) with (to_i64 start). apply to_i64_fix. lia. Qed.

(* the model keeps a log iff the source does not skip it (expiration_block_number is a
   non-negative int64: CHECK constraint of the table) *)
Lemma log_expiry_agrees lblk expi :
  0 <= expi < 2^63 -> (lblk <=? expi) = negb (gen_log_expired lblk expi).
Proof.
  intros H. unfold gen_log_expired. rewrite ?(Z.mod_small expi 18446744073709551616) by lia.
  split_atoms.
Qed.

Lemma log_hits_agrees start end_ e leon lid lblk :
  0 <= et_expiration e < 2^63 ->
  log_hits start end_ e (leon, lid, lblk) =
  et_match leon lid e && (start <=? lblk) && (lblk <=? end_) && negb (gen_log_expired lblk (et_expiration e)).
Proof. intros H. unfold log_hits. rewrite (log_expiry_agrees _ _ H). reflexivity. Qed.

(* ------------------------------------------------------------------------------------- *)
(* the key share handler's eon lookup *)

Lemma eon_for_block_step best e rest blk :
  eon_for_block_from best (e :: rest) blk =
  if gen_q_eon_for_block_where (eo_activation e) blk
  then match best with
       | Some b => if gen_q_eon_for_block_before (eo_activation e) (eo_activation b) (eo_height e) (eo_height b)
                   then eon_for_block_from (Some e) rest blk else eon_for_block_from best rest blk
       | None => eon_for_block_from (Some e) rest blk
       end
  else eon_for_block_from best rest blk.
Proof.
  simpl. unfold gen_q_eon_for_block_where, gen_q_eon_for_block_before.
  destruct best as [b|]; split_atoms.
Qed.

(* ------------------------------------------------------------------------------------- *)
(* all of it, as stated in Properties/C02.v *)

Theorem translated_trigger_decision_agrees :
  (forall c d r number time,
     should_trigger c d r number time =
     match resolve_decryptable_eon c d (ir_eon r) with
     | Some e => gen_should_trigger true (eo_activation e) (to_i64 number) (ir_timestamp r) time
     | None => gen_should_trigger false 0 (to_i64 number) (ir_timestamp r) time
     end) /\
  (forall c d idx,
     resolve_decryptable_eon c d idx =
     if gen_resolve_decryptable (found (latest_eon d idx)) (config_found c d idx) (is_keyper c d idx)
                                (found (dkg_for_config d idx)) (dkg_success_of d idx)
     then latest_eon d idx else None) /\
  (forall c d latest number time enum,
     prepare_time_based c d latest number time enum =
     if gen_early_return latest time then (latest, [])
     else
       let rows := window_rows d (gen_window_p1 (gen_last_triggered latest)) (gen_window_p2 time) in
       let chosen := gen_select_rows (fun r => should_trigger c d r number time) rows in
       let groups := time_groups c d chosen in
       (gen_new_latest time, emit_time groups (enum (map fst groups)))) /\
  (forall d lo hi,
     window_rows d lo hi =
     sort_by (fun a b => gen_q_window_before (ir_timestamp a) (ir_timestamp b))
             (filter (fun r => gen_q_window_where (ir_timestamp r) (ir_decrypted r) lo hi) (irs d))) /\
  (forall d start,
     active_triggers d start =
     filter (fun e => gen_q_active_where (et_expiration e) (et_decrypted e)
                        (existsb (ft_match (et_eon e) (et_identity e)) (fts d)) start) (ets d)) /\
  (forall start end_ e leon lid lblk, 0 <= et_expiration e < 2^63 ->
     log_hits start end_ e (leon, lid, lblk) =
     et_match leon lid e && (start <=? lblk) && (lblk <=? end_) && negb (gen_log_expired lblk (et_expiration e))) /\
  (forall start, 0 <= start < 2^63 -> gen_active_param start = start) /\
  (forall best e rest idx,
     latest_eon_from best (e :: rest) idx =
     if gen_q_latest_eon_where (eo_cfg e) idx
     then match best with
          | Some b => if gen_q_latest_eon_before (eo_eon e) (eo_eon b)
                      then latest_eon_from (Some e) rest idx else latest_eon_from best rest idx
          | None => latest_eon_from (Some e) rest idx
          end
     else latest_eon_from best rest idx) /\
  (forall best e rest blk,
     eon_for_block_from best (e :: rest) blk =
     if gen_q_eon_for_block_where (eo_activation e) blk
     then match best with
          | Some b => if gen_q_eon_for_block_before (eo_activation e) (eo_activation b) (eo_height e) (eo_height b)
                      then eon_for_block_from (Some e) rest blk else eon_for_block_from best rest blk
          | None => eon_for_block_from (Some e) rest blk
          end
     else eon_for_block_from best rest blk) /\
  (forall d eon, get_dkg d eon = find (fun k => gen_q_dkg_result_where (dk_eon k) eon) (dkgs d)) /\
  (forall d idx addr,
     get_keyper_index d idx addr =
     match find (fun c => gen_q_batch_config_where (cf_index c) (gen_batch_config_param idx)) (cfgs d) with
     | None => KINoConfig
     | Some c => match index_of (cf_keypers c) addr 0 with Some i => KIMember i | None => KINotMember end
     end) /\
  (forall a b, gen_identity_less a b = bytes_ltb a b).
Proof.
  exact (conj should_trigger_agrees (conj resolve_agrees (conj prepare_time_based_agrees
        (conj window_rows_agrees (conj active_triggers_agrees (conj log_hits_agrees
        (conj active_param_agrees (conj latest_eon_step (conj eon_for_block_step
        (conj get_dkg_agrees (conj get_keyper_index_agrees identity_less_agrees))))))))))).
Qed.
