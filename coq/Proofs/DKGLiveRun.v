(* Liveness over block sequences (C07_honest_run_succeeds): a keyper that holds an instance in
   the dealing phase, on a chain that carries every dealer's commitment and the evaluation meant
   for this keyper in dealing-phase blocks, and no accusation or apology for the eon, stores a
   successful result row when the block at which the eon is finalised has been processed.

   Part 1: the instance survives every block ([live]); accusations and apologies stay empty on a
   quiet chain; what the last phase transition stores.
   Part 2: during the dealing phase every slot content comes from an event of the chain and every
   admissible event fills its slot ([deal]); with uniqueness this gives [dealt_ok].
   Part 3: composition over the run. *)
From Coq Require Import List NArith ZArith Bool Lia.
From Verif Require Import Lib.Bytes Model.DKGPure Model.DKGDriver Proofs.DKGPure Proofs.DKGChain
  Proofs.DKGLive Proofs.OutboxEvolve.
Import ListNotations.
Open Scope Z_scope.

Section LiveRun.
Variables C E P : Type.
Variable commit_of : P -> C.
Variable eval_of : P -> nat -> E.
Variable verify : nat -> E -> C -> bool.
Variable deg_ok : N -> C -> bool.
Variable valid_eval : E -> bool.
Variable me : addr.
Variable L : Z.
Hypothesis Lpos : 0 < L.
Variable enum : list (N * @active C E P) -> list (N * @active C E P).
Hypothesis Henum : enum_keys_ok C E P enum.
Variable poly_for : N -> P.

Notation pure := (@DKGPure.pure C E P).
Notation active := (@active C E P).
Notation sm := (@sm C E P).
Notation db := (db C E P).
Notation st := (st C E P).
Notation dev := (dev C E).
Notation ent := (ent C E P).
Notation res := (res C E P).
Notation eon_row := (eon_row C E P).
Notation keepsA := (keepsA C E P).
Notation keepsP := (keepsP C E P).
Notation handle_event := (handle_event C E P commit_of eval_of verify deg_ok valid_eval me L poly_for).
Notation handle_events := (handle_events C E P commit_of eval_of verify deg_ok valid_eval me L poly_for).
Notation handle_block := (handle_block C E P commit_of eval_of verify deg_ok valid_eval me L enum poly_for).
Notation shift_phases := (shift_phases C E P commit_of eval_of verify valid_eval L enum poly_for).
Notation evolves := (evolves C E P commit_of eval_of).
Notation prim := (prim C E P commit_of eval_of).
Notation run_blocks := (run_blocks C E P commit_of eval_of verify deg_ok valid_eval me L enum poly_for).

Variable e : N.          (* the eon *)

(* ---- what no primitive update undoes ---- *)
Lemma prim_keep x y : prim x y ->
  sm_sync (snd y) = sm_sync (snd x) /\ (forall r, res x e = Some r -> res y e = Some r) /\ (eon_row x e -> eon_row y e).
Proof.
  unfold DKGLive.res, DKGLive.eon_row.
  destruct 1; simpl; try (split; [reflexivity|split; [intros r0 Hr; exact Hr|intros Hr; exact Hr]]).
  - subst l. split; [reflexivity|]. split; [|intros Hr; exact Hr]. intros r0 Hr.
    rewrite (nget_app_none _ _ _ _ H0). destruct (N.eqb eon e) eqn:Ek; [apply N.eqb_eq in Ek; subst; congruence|exact Hr].
  - subst l. split; [reflexivity|]. split; [intros r0 Hr; exact Hr|]. intros Hr.
    rewrite (nget_app_none _ _ _ _ H0). destruct (N.eqb eon e); [discriminate|exact Hr].
  - subst l. split; [reflexivity|]. split; [intros r0 Hr; exact Hr|]. intros Hr.
    rewrite (nget_app_none _ _ _ _ H0). destruct (N.eqb eon e); [discriminate|exact Hr].
Qed.

Lemma evolves_keep x y : evolves x y ->
  sm_sync (snd y) = sm_sync (snd x) /\ (forall r, res x e = Some r -> res y e = Some r) /\ (eon_row x e -> eon_row y e).
Proof.
  induction 1 as [|x y z Hp _ IH]; [repeat split; auto|].
  destruct (prim_keep _ _ Hp) as [A [B D]]. destruct IH as [A' [B' D']].
  split; [congruence|]. split; [intros r0 Hr; apply B', B, Hr|intros Hr; apply D', D, Hr].
Qed.

(* ---- the block transaction taken apart ---- *)
Lemma block_split (x : st) blk lch x' :
  handle_block x blk lch = TOk x' -> sm_sync (snd x) = true ->
  exists x2 x3,
    shift_phases (upd_db_sync C E P (fst x) (fst blk) lch blk, snd x) (fst blk) = TOk x2 /\
    handle_events x2 (fst blk) (snd blk) = TOk x3 /\
    x' = save C E P enum (send_poly_evals C E P (fst x3), snd x3).
Proof.
  destruct x as [d s]. simpl. intros Hrun Hs. unfold DKGDriver.handle_block, load in Hrun. rewrite Hs in Hrun. simpl in Hrun.
  destruct (negb _); [discriminate|].
  destruct (shift_phases _ _) as [x2| |] eqn:Hsh; simpl in Hrun; try discriminate.
  destruct (handle_events _ _ _) as [x3| |] eqn:He; simpl in Hrun; try discriminate.
  injection Hrun as <-. exists x2, x3. repeat split; assumption.
Qed.

Definition cleaned (a : active) : active := mkActive (a_pure a) (a_start a) false (a_keypers a).

Lemma finish_frame (x3 : st) :
  let x' := save C E P enum (send_poly_evals C E P (fst x3), snd x3) in
  ent x' e = option_map cleaned (ent x3 e) /\ res x' e = res x3 e /\ (eon_row x3 e -> eon_row x' e) /\
  sm_sync (snd x') = sm_sync (snd x3).
Proof.
  destruct x3 as [d s]. unfold DKGLive.ent, DKGLive.res, DKGLive.eon_row, save. simpl.
  destruct (send_poly_evals_frame C E P d) as [_ [A2 [A3 _]]].
  destruct (save_all_frame C E P (enum (sm_dkg s)) (send_poly_evals C E P d)) as [_ [B2 B3]].
  rewrite nget_clean, B2, B3, A2, A3. repeat split. intros H; exact H.
Qed.

Lemma keepsA_cleaned a : keepsA a (cleaned a).
Proof. constructor; simpl; [apply keepsP_refl|reflexivity|reflexivity]. Qed.

(* ---- the instance on a quiet chain ---- *)
Definition quiet (evs : list dev) : Prop :=
  forall ev, In ev evs -> (forall s acc, ev <> DAccusation s e acc) /\ (forall s acc vs, ev <> DApology s e acc vs).

Record live (a0 : active) (ph : phase) (x : st) (a : active) : Prop := {
  lv_ent : ent x e = Some a; lv_row : eon_row x e; lv_res : res x e = None;
  lv_sync : sm_sync (snd x) = true;
  lv_keeps : keepsA a0 a; lv_phase : p_phase (a_pure a) = ph;
  lv_accs : p_accs (a_pure a) = []; lv_apos : p_apos (a_pure a) = []
}.

Lemma event_live a0 ph x a h ev x' :
  handle_event x h ev = TOk x' -> live a0 ph x a -> quiet [ev] ->
  exists a', live a0 ph x' a' /\ keepsA a a'.
Proof.
  intros Hrun [He Hrow Hres Hsync Hk Hph Hacc Hapo] Hq.
  destruct (event_keeps C E P commit_of eval_of verify deg_ok valid_eval me L poly_for _ _ _ _ _ _ Hrun He Hrow)
    as [a' [He' [Hk' [Hph' [Hrow' [Hres' [Hacc' Hapo']]]]]]].
  destruct (Hq ev (or_introl eq_refl)) as [Q1 Q2].
  exists a'. split; [|exact Hk'].
  constructor; try assumption.
  - congruence.
  - destruct (evolves_keep _ _ (handle_event_evolves C E P commit_of eval_of verify deg_ok valid_eval me L poly_for _ _ _ _ Hrun)) as [A _]. congruence.
  - eapply keepsA_trans; eassumption.
  - congruence.
  - rewrite (Hacc' Q1). exact Hacc.
  - rewrite (Hapo' Q2). exact Hapo.
Qed.

Lemma quiet_cons ev evs : quiet (ev :: evs) -> quiet [ev] /\ quiet evs.
Proof.
  intros H. split; intros ev' Hin; apply H; [destruct Hin as [<-|[]]; left; reflexivity|right; exact Hin].
Qed.

Lemma events_live a0 ph h evs : forall x a x',
  handle_events x h evs = TOk x' -> live a0 ph x a -> quiet evs ->
  exists a', live a0 ph x' a' /\ keepsA a a'.
Proof.
  induction evs as [|ev r IH]; intros x a x' Hrun Hl Hq.
  - simpl in Hrun. injection Hrun as <-. exists a. split; [exact Hl|apply keepsA_refl].
  - simpl in Hrun. destruct (handle_event x h ev) as [x1| |] eqn:H1; simpl in Hrun; try discriminate.
    destruct (quiet_cons _ _ Hq) as [Q1 Q2].
    destruct (event_live _ _ _ _ _ _ _ H1 Hl Q1) as [a1 [Hl1 K1]].
    destruct (IH _ _ _ Hrun Hl1 Q2) as [a2 [Hl2 K2]].
    exists a2. split; [exact Hl2|eapply keepsA_trans; eassumption].
Qed.

Lemma live_cleaned a0 ph x3 a :
  live a0 ph x3 a -> live a0 ph (save C E P enum (send_poly_evals C E P (fst x3), snd x3)) (cleaned a).
Proof.
  intros [He Hrow Hres Hsync Hk Hph Hacc Hapo].
  pose proof (finish_frame x3) as F. cbv zeta in F. destruct F as [F1 [F2 [F3 F4]]].
  constructor.
  - rewrite F1, He. reflexivity.
  - apply F3. exact Hrow.
  - rewrite F2. exact Hres.
  - rewrite F4. exact Hsync.
  - eapply keepsA_trans; [exact Hk|apply keepsA_cleaned].
  - exact Hph.
  - exact Hacc.
  - exact Hapo.
Qed.

(* the stored outcome of the last transition *)
Definition final_row (a : active) (x : st) : Prop :=
  exists pf, res x e = Some (mkRes C E (is_result C E (compute_result C E P verify pf)) (compute_result C E P verify pf)) /\
             keepsP (a_pure a) pf /\ p_phase pf = Finalized /\ p_accs pf = [] /\ p_apos pf = [].

Lemma block_live a0 ph x a blk lch x' :
  handle_block x blk lch = TOk x' -> live a0 ph x a -> quiet (snd blk) ->
  let tg := phase_at L (fst blk) (a_start a) in
  (phase_ltb ph tg = false -> exists a', live a0 ph x' a' /\ keepsA a a') /\
  (phase_ltb ph tg = true -> tg <> Finalized -> exists a', live a0 tg x' a' /\ keepsA a a') /\
  (phase_ltb ph tg = true -> tg = Finalized -> final_row a x').
Proof.
  intros Hrun Hl Hq tg.
  destruct (block_split _ _ _ _ Hrun (lv_sync _ _ _ _ Hl)) as [x2 [x3 [Hsh [Hev ->]]]].
  destruct Hl as [He Hrow Hres Hsync Hk Hph Hacc Hapo].
  set (x1 := (upd_db_sync C E P (fst x) (fst blk) lch blk, snd x)) in *.
  assert (He1 : ent x1 e = Some a) by exact He.
  pose proof (shift_phases_post C E P commit_of eval_of verify valid_eval L enum Henum poly_for _ _ _ _ _ Hsh He1) as [Heons Hcases].
  assert (Hsync2 : sm_sync (snd x2) = true).
  { unfold DKGDriver.shift_phases in Hsh.
    destruct (evolves_keep _ _ (shift_all_evolves C E P commit_of eval_of verify valid_eval L poly_for _ _ _ _ Hsh)) as [A _].
    rewrite A. exact Hsync. }
  assert (Hrow2 : eon_row x2 e) by (unfold DKGLive.eon_row; rewrite Heons; exact Hrow).
  assert (Hres1 : res x1 e = None) by exact Hres.
  fold (DKGChain.tgt C E P L (fst blk) a) in tg. rewrite Hph in Hcases.
  destruct Hcases as [[Hnl [He2 Hres2]]|[[Hlt [Hnf [a2 [He2 [Hres2 [Hk2 [Hph2 [Hacc2 Hapo2]]]]]]]]|[Hlt [Hfin [He2 [pf [ok [Hres2 [Hok [Hkp [Hpf [Hacc2 Hapo2]]]]]]]]]]]].
  - (* no transition *)
    assert (Hl2 : live a0 ph x2 a) by (constructor; try assumption; congruence).
    destruct (events_live _ _ _ _ _ _ _ Hev Hl2 Hq) as [a3 [Hl3 K3]].
    split; [|split; intros Hc; unfold tg in Hc; congruence].
    intros _. exists (cleaned a3). split; [apply live_cleaned; exact Hl3|eapply keepsA_trans; [exact K3|apply keepsA_cleaned]].
  - assert (Hl2 : live a0 tg x2 a2).
    { constructor; try assumption; try congruence. eapply keepsA_trans; eassumption. }
    destruct (events_live _ _ _ _ _ _ _ Hev Hl2 Hq) as [a3 [Hl3 K3]].
    split; [intros Hc; unfold tg in Hc; congruence|]. split; [|intros _ Hc; unfold tg in Hc; contradiction].
    intros _ _. exists (cleaned a3). split; [apply live_cleaned; exact Hl3|].
    eapply keepsA_trans; [exact Hk2|]. eapply keepsA_trans; [exact K3|apply keepsA_cleaned].
  - split; [intros Hc; unfold tg in Hc; congruence|]. split; [intros _ Hc; unfold tg in Hc; contradiction|].
    intros _ _. exists pf. subst ok.
    pose proof (finish_frame x3) as F. cbv zeta in F. destruct F as [_ [F2 _]]. rewrite F2.
    destruct (evolves_keep _ _ (handle_events_evolves C E P commit_of eval_of verify deg_ok valid_eval me L poly_for _ _ _ _ Hev)) as [_ [B _]].
    split; [apply B; exact Hres2|]. split; [exact Hkp|]. split; [exact Hpf|]. split; congruence.
Qed.

(* a block leaves a result row alone, whatever the cache is *)
Lemma block_res x blk lch x' r :
  handle_block x blk lch = TOk x' -> res x e = Some r -> res x' e = Some r.
Proof.
  destruct x as [d s]. intros Hrun Hr. unfold DKGDriver.handle_block in Hrun.
  destruct (load C E P d s) as [s1| |]; simpl in Hrun; try discriminate.
  destruct (negb _); [discriminate|].
  destruct (shift_phases _ _) as [x2| |] eqn:Hsh; simpl in Hrun; try discriminate.
  destruct (handle_events _ _ _) as [x3| |] eqn:He; simpl in Hrun; try discriminate.
  injection Hrun as <-.
  change (res (save C E P enum (send_poly_evals C E P (fst x3), snd x3)) e = Some r).
  pose proof (finish_frame x3) as F. cbv zeta in F. destruct F as [_ [F2 _]]. rewrite F2.
  destruct (evolves_keep _ _ (handle_events_evolves C E P commit_of eval_of verify deg_ok valid_eval me L poly_for _ _ _ _ He)) as [_ [B _]].
  apply B. unfold DKGDriver.shift_phases in Hsh.
  destruct (evolves_keep _ _ (shift_all_evolves C E P commit_of eval_of verify valid_eval L poly_for _ _ _ _ Hsh)) as [_ [B' _]].
  apply B'. exact Hr.
Qed.

(* ---- Part 2: the dealing phase ---- *)
Variable ks : list addr.   (* the keypers of the eon *)
Variable S : Z.            (* the height at which the eon started *)
Variable t : N.            (* the threshold *)
Variable i : nat.          (* this keyper's index *)
Variable allev : list dev. (* the events of the chain *)

Definition src_c (a : active) : Prop :=
  forall j c, nth_opt (p_commits (a_pure a)) j = Some c ->
    exists s, In (DCommit s e c) allev /\ find_index ks s 0 = Some j.
Definition src_v (a : active) : Prop :=
  forall j v, nth_opt (p_evals (a_pure a)) j = Some v ->
    j = i \/ exists s rs vs mi, In (DEval s e rs vs) allev /\ find_index ks s 0 = Some j /\
                               find_index rs me 0 = Some mi /\ nth_error vs mi = Some (Some v).

Record deal (seen : list dev) (a : active) : Prop := {
  dl_start : a_start a = S; dl_ks : a_keypers a = ks; dl_eon : p_eon (a_pure a) = e; dl_t : p_t (a_pure a) = t;
  dl_me : p_me (a_pure a) = i; dl_idx : find_index ks me 0 = Some i;
  dl_srcc : src_c a; dl_srcv : src_v a;
  dl_lndc : forall s c j, In (DCommit s e c) seen -> find_index ks s 0 = Some j -> deg_ok t c = true ->
              nth_opt (p_commits (a_pure a)) j <> None;
  dl_lndv : forall s rs vs j mi v, In (DEval s e rs vs) seen -> bytes_eqb s me = false ->
              find_index ks s 0 = Some j -> find_index rs me 0 = Some mi -> nth_error vs mi = Some (Some v) ->
              valid_eval v = true -> nth_opt (p_evals (a_pure a)) j <> None
}.

Lemma mono_ne {A} (l l' : list (option A)) j : slots_mono l l' -> nth_opt l j <> None -> nth_opt l' j <> None.
Proof. intros Hm Hn. destruct (nth_opt l j) as [y|] eqn:Hy; [|contradiction]. rewrite (Hm _ _ Hy). discriminate. Qed.

Lemma event_deal a0 x a h ev x' seen :
  handle_event x h ev = TOk x' -> live a0 Dealing x a -> deal seen a -> In ev allev -> quiet [ev] ->
  exists a', live a0 Dealing x' a' /\ keepsA a a' /\ deal (seen ++ [ev]) a'.
Proof.
  intros Hrun Hl Hd Hin Hq.
  destruct (event_live _ _ _ _ _ _ _ Hrun Hl Hq) as [a' [Hl' Hk]].
  destruct (event_slots C E P commit_of eval_of verify deg_ok valid_eval me L poly_for _ _ _ _ _ _ _ Hrun
              (lv_ent _ _ _ _ Hl) (lv_ent _ _ _ _ Hl') (lv_row _ _ _ _ Hl)) as [S1 [S2 [S3 S4]]].
  destruct Hd as [D1 D2 D3 D4 D5 D6 D7 D8 D9 D10]. destruct Hk as [[K1 K2 K3 K4 K5 K6 K7] K8 K9].
  exists a'. split; [exact Hl'|]. split; [constructor; [constructor|..]; assumption|].
  constructor; try congruence.
  - intros j c Hj. destruct (S1 j c Hj) as [H|[s [-> Hidx]]]; [apply D7; exact H|].
    exists s. split; [exact Hin|]. rewrite <- D2. exact Hidx.
  - intros j v Hj. destruct (S2 j v Hj) as [H|[s [rs [vs [mi [-> [Hidx [Hm Hn]]]]]]]]; [apply D8; exact H|].
    right. exists s, rs, vs, mi. split; [exact Hin|]. split; [rewrite <- D2; exact Hidx|]. split; assumption.
  - intros s c j Hs Hidx Hdeg. apply in_app_or in Hs. destruct Hs as [Hs|[Heq|[]]].
    + eapply mono_ne; [exact K5|]. eapply D9; eassumption.
    + eapply S3; [exact Heq|rewrite D2; exact Hidx|exact D3| |rewrite D4; exact Hdeg].
      rewrite (lv_phase _ _ _ _ Hl). reflexivity.
  - intros s rs vs j mi v Hs Hsm Hidx Hm Hn Hv. apply in_app_or in Hs. destruct Hs as [Hs|[Heq|[]]].
    + eapply mono_ne; [exact K6|]. eapply D10; eassumption.
    + eapply S4; [exact Heq|exact Hsm|rewrite D2; exact Hidx|rewrite D2, D5; exact D6|exact Hm|exact Hn|exact D3| |exact Hv].
      rewrite (lv_phase _ _ _ _ Hl). reflexivity.
Qed.

Lemma events_deal a0 h evs : forall x a x' seen,
  handle_events x h evs = TOk x' -> live a0 Dealing x a -> deal seen a -> incl evs allev -> quiet evs ->
  exists a', live a0 Dealing x' a' /\ keepsA a a' /\ deal (seen ++ evs) a'.
Proof.
  induction evs as [|ev r IH]; intros x a x' seen Hrun Hl Hd Hin Hq.
  - simpl in Hrun. injection Hrun as <-. exists a. rewrite app_nil_r. split; [exact Hl|]. split; [apply keepsA_refl|exact Hd].
  - simpl in Hrun. destruct (handle_event x h ev) as [x1| |] eqn:H1; simpl in Hrun; try discriminate.
    destruct (quiet_cons _ _ Hq) as [Q1 Q2].
    destruct (event_deal _ _ _ _ _ _ _ H1 Hl Hd (Hin ev (or_introl eq_refl)) Q1) as [a1 [Hl1 [K1 Hd1]]].
    destruct (IH _ _ _ _ Hrun Hl1 Hd1) as [a2 [Hl2 [K2 Hd2]]]; [intros y Hy; apply Hin; right; exact Hy|exact Q2|].
    exists a2. split; [exact Hl2|]. split; [eapply keepsA_trans; eassumption|].
    replace (seen ++ ev :: r) with ((seen ++ [ev]) ++ r) by (rewrite <- app_assoc; reflexivity). exact Hd2.
Qed.

Lemma deal_cleaned seen a : deal seen a -> deal seen (cleaned a).
Proof. intros [D1 D2 D3 D4 D5 D6 D7 D8 D9 D10]. constructor; assumption. Qed.

Lemma pa_dealing h : S <= h < S + L -> phase_at L h S = Dealing.
Proof.
  intros Hh. unfold phase_at.
  destruct (Z.ltb_spec h (S + 0 * L)); [lia|]. destruct (Z.ltb_spec h (S + 1 * L)); [reflexivity|lia].
Qed.

Lemma pa_mono h : (phase_num (phase_at L h S) <= phase_num (phase_at L (h + 1) S))%nat.
Proof.
  unfold phase_at.
  destruct (Z.ltb_spec h (S + 0 * L)), (Z.ltb_spec h (S + 1 * L)), (Z.ltb_spec h (S + 2 * L)), (Z.ltb_spec h (S + 3 * L)),
    (Z.ltb_spec (h + 1) (S + 0 * L)), (Z.ltb_spec (h + 1) (S + 1 * L)), (Z.ltb_spec (h + 1) (S + 2 * L)), (Z.ltb_spec (h + 1) (S + 3 * L));
    simpl; lia.
Qed.

Lemma pa_final h : phase_at L h S = Finalized <-> S + 3 * L <= h.
Proof.
  unfold phase_at.
  destruct (Z.ltb_spec h (S + 0 * L)), (Z.ltb_spec h (S + 1 * L)), (Z.ltb_spec h (S + 2 * L)), (Z.ltb_spec h (S + 3 * L));
    split; intros Hx; try discriminate; try reflexivity; lia.
Qed.

(* ---- the event that starts the eon creates such an instance ---- *)
Lemma find_index_lt l a : forall k j, find_index l a k = Some j -> (k <= j < k + length l)%nat.
Proof.
  induction l as [|y r IH]; simpl; intros k j; [discriminate|].
  destruct (bytes_eqb y a); [intros [= <-]; lia|]. intros H. apply IH in H. lia.
Qed.

Lemma nth_opt_repeat_none {A} n j : nth_opt (repeat (@None A) n) j = None.
Proof. unfold nth_opt. revert j. induction n as [|n IH]; intros [|j]; simpl; auto. Qed.

Lemma shift_loop_off f (x : st) h eon (a : active) :
  p_phase (a_pure a) = Off -> phase_at L h (a_start a) = Dealing ->
  shift_loop C E P commit_of eval_of verify valid_eval L poly_for (Datatypes.S f) x h eon a =
  bind (start1 C E P commit_of eval_of valid_eval poly_for x eon a)
       (fun xa => shift_loop C E P commit_of eval_of verify valid_eval L poly_for f (fst xa) h eon (snd xa)).
Proof. intros H1 H2. simpl. rewrite H1, H2. reflexivity. Qed.

Lemma fresh_instance x act idx cfg x' :
  handle_event x S (DEonStarted e act idx) = TOk x' ->
  sm_sync (snd x) = true -> sm_iskeyper (snd x) = true ->
  nget (db_cfgs C E P (fst x)) idx = Some cfg -> cf_keypers cfg = ks -> cf_threshold cfg = t ->
  find_index ks me 0 = Some i -> res x e = None ->
  exists a, live a Dealing x' a /\ deal [] a /\
            nth_opt (p_evals (a_pure a)) i = Some (eval_of (poly_for e) i) /\ p_n (a_pure a) = length ks.
Proof.
  destruct x as [d s]. simpl. intros Hrun Hsync Hk Hcfg Hks Ht Hidx Hres.
  destruct (9223372036854775807 <? Z.of_N act); [discriminate|].
  destruct (nget (db_eons C E P d) e) eqn:Heon; [discriminate|].
  rewrite Hk in Hrun. simpl in Hrun. rewrite Hcfg, Hks, Hidx in Hrun.
  destruct (phase_eqb _ Off); [discriminate|].
  match type of Hrun with DKGDriver.shift_phase _ _ _ _ _ _ _ _ _ ?xx _ _ ?aa = _ => set (x1 := xx) in *; set (a := aa) in * end.
  assert (Hg : ent x1 e = Some a) by (unfold DKGLive.ent, x1; simpl; apply nget_nins_same).
  unfold DKGDriver.shift_phase in Hrun.
  rewrite (shift_loop_off 4 x1 S e a eq_refl) in Hrun by (apply pa_dealing; lia).
  destruct (DKGDriver.start1 C E P commit_of eval_of valid_eval poly_for x1 e a) as [[x2 a1]| |] eqn:Hs; try discriminate.
  cbn [bind fst snd] in Hrun.
  pose proof (start1_ok C E P commit_of eval_of valid_eval poly_for _ _ _ _ _ Hs) as [Hfr [Hg1 [Hres1 [Hst [Hkp [Hx [_ Hto]]]]]]].
  destruct (start1_keep C E P commit_of eval_of valid_eval poly_for _ _ _ _ _ Hs) as [Hka [_ [_ Hownv]]].
  rewrite (shift_loop_done C E P commit_of eval_of verify valid_eval L poly_for) in Hrun.
  2:{ unfold DKGChain.tgt. rewrite Hst, Hto. simpl. rewrite (pa_dealing S) by lia. reflexivity. }
  injection Hrun as <-.
  destruct Hx as [X1 [X2 [X3 [X4 [X5 X6]]]]]. destruct Hfr as [F1 [F2 [F3 [F4 [F5 [F6 F7]]]]]].
  destruct (find_index_lt _ _ _ _ Hidx) as [_ Hlt]. simpl in Hlt.
  assert (Hme1 : p_me (a_pure a1) = i) by (rewrite (kp_me _ _ _ _ _ (ka_pure _ _ _ _ _ Hka)); reflexivity).
  exists a1. split; [|split; [|split]].
  - constructor.
    + exact Hg1.
    + unfold DKGLive.eon_row. rewrite F2. unfold x1. simpl. rewrite (nget_app_none _ _ _ _ Heon), N.eqb_refl. discriminate.
    + unfold DKGLive.res in *. rewrite Hres1. exact Hres.
    + rewrite F4. exact Hsync.
    + apply keepsA_refl.
    + exact Hto.
    + rewrite X2. reflexivity.
    + rewrite X3. reflexivity.
  - constructor.
    + rewrite Hst. reflexivity.
    + rewrite Hkp. reflexivity.
    + rewrite X4. reflexivity.
    + rewrite X6. simpl. exact Ht.
    + exact Hme1.
    + exact Hidx.
    + intros j c Hj. rewrite X1 in Hj. simpl in Hj. rewrite nth_opt_repeat_none in Hj. discriminate.
    + intros j v Hj. destruct (Nat.eq_dec j i) as [->|Hne]; [left; reflexivity|].
      rewrite (start1_other C E P commit_of eval_of valid_eval poly_for _ _ _ _ _ j Hs) in Hj by exact Hne.
      simpl in Hj. rewrite nth_opt_repeat_none in Hj. discriminate.
    + intros s0 c j [].
    + intros s0 rs vs j mi v [].
  - apply Hownv. simpl. exact Hlt.
  - rewrite X5. reflexivity.
Qed.

Lemma block_deal a0 x a blk lch x' seen :
  handle_block x blk lch = TOk x' -> live a0 Dealing x a -> deal seen a ->
  S <= fst blk < S + L -> incl (snd blk) allev -> quiet (snd blk) ->
  exists a', live a0 Dealing x' a' /\ keepsA a a' /\ deal (seen ++ snd blk) a'.
Proof.
  intros Hrun Hl Hd Hh Hin Hq.
  destruct (block_split _ _ _ _ Hrun (lv_sync _ _ _ _ Hl)) as [x2 [x3 [Hsh [Hev ->]]]].
  destruct Hl as [He Hrow Hres Hsync Hk Hph Hacc Hapo].
  set (x1 := (upd_db_sync C E P (fst x) (fst blk) lch blk, snd x)) in *.
  assert (He1 : ent x1 e = Some a) by exact He.
  pose proof (shift_phases_post C E P commit_of eval_of verify valid_eval L enum Henum poly_for _ _ _ _ _ Hsh He1) as [Heons Hcases].
  assert (Hsync2 : sm_sync (snd x2) = true).
  { unfold DKGDriver.shift_phases in Hsh.
    destruct (evolves_keep _ _ (shift_all_evolves C E P commit_of eval_of verify valid_eval L poly_for _ _ _ _ Hsh)) as [A _].
    rewrite A. exact Hsync. }
  assert (Hrow2 : eon_row x2 e) by (unfold DKGLive.eon_row; rewrite Heons; exact Hrow).
  assert (Hres1 : res x1 e = None) by exact Hres.
  assert (Htg : DKGChain.tgt C E P L (fst blk) a = Dealing) by (unfold DKGChain.tgt; rewrite (dl_start _ _ Hd); apply pa_dealing; exact Hh).
  rewrite Hph, Htg in Hcases.
  destruct Hcases as [[_ [He2 Hres2]]|[[Hlt _]|[Hlt _]]]; try discriminate.
  assert (Hl2 : live a0 Dealing x2 a) by (constructor; try assumption; congruence).
  destruct (events_deal _ _ _ _ _ _ _ Hev Hl2 Hd Hin Hq) as [a3 [Hl3 [K3 Hd3]]].
  exists (cleaned a3). split; [apply live_cleaned; exact Hl3|]. split; [eapply keepsA_trans; [exact K3|apply keepsA_cleaned]|].
  apply deal_cleaned. exact Hd3.
Qed.

Lemma live_step a0 x a h blk lch x' :
  handle_block x blk lch = TOk x' -> live a0 (phase_at L h S) x a -> a_start a = S -> fst blk = h + 1 -> quiet (snd blk) ->
  (h + 1 < S + 3 * L -> exists a', live a0 (phase_at L (h + 1) S) x' a' /\ keepsA a a') /\
  (S + 3 * L <= h + 1 -> h < S + 3 * L -> final_row a x').
Proof.
  intros Hrun Hl Hst Hf Hq.
  pose proof (block_live _ _ _ _ _ _ _ Hrun Hl Hq) as Hb. cbv zeta in Hb. rewrite Hst, Hf in Hb.
  destruct Hb as [A [B D]].
  pose proof (pa_mono h) as Hm.
  destruct (phase_ltb (phase_at L h S) (phase_at L (h + 1) S)) eqn:Hlt.
  - split.
    + intros Hh. apply B; [reflexivity|]. intros Hc. apply pa_final in Hc. lia.
    + intros Hh _. apply D; [reflexivity|]. apply pa_final. exact Hh.
  - assert (Heq : phase_at L h S = phase_at L (h + 1) S).
    { apply phase_num_inj. apply phase_ltb_false in Hlt. lia. }
    split.
    + intros _. rewrite <- Heq. apply A. reflexivity.
    + intros H1 H2. exfalso. assert (Hc : phase_at L h S = Finalized) by (rewrite Heq; apply pa_final; exact H1).
      apply pa_final in Hc. lia.
Qed.

(* ---- Part 3: the run ---- *)
Variable a0 : active.
Variable x0 : st.
Variable h0 : Z.
Variable lch : Z -> Z.
Variable blocks : list (Z * list dev).
Variable xf : st.
Variable cj : nat -> C.    (* the commitment of dealer j *)
Variable vj : nat -> E.    (* the evaluation of dealer j for this keyper *)

Hypothesis Hallev : incl (concat (map snd blocks)) allev.
Hypothesis Hlive0 : live a0 Dealing x0 a0.
Hypothesis Hdeal0 : deal [] a0.
Hypothesis Hown : nth_opt (p_evals (a_pure a0)) i = Some (vj i).
Hypothesis Hn : p_n (a_pure a0) = length ks.
Hypothesis Htn : (t <= N.of_nat (length ks))%N.
Hypothesis Hh0 : S <= h0 < S + L.
Hypothesis Hheights : forall k b, nth_error blocks k = Some b -> fst b = h0 + 1 + Z.of_nat k.
Hypothesis Hlong : S + 3 * L <= h0 + Z.of_nat (length blocks).
Hypothesis Hrun : run_blocks lch x0 blocks = Some xf.
Hypothesis Hquiet : quiet allev.
(* two commitments / evaluations on the chain that are attributed to the same dealer are equal *)
Hypothesis Uc : forall s s' c c', In (DCommit s e c) allev -> In (DCommit s' e c') allev ->
  find_index ks s 0 = find_index ks s' 0 -> find_index ks s 0 <> None -> c = c'.
Hypothesis Uv : forall s rs vs mi v s' rs' vs' mi' v',
  In (DEval s e rs vs) allev -> find_index rs me 0 = Some mi -> nth_error vs mi = Some (Some v) ->
  In (DEval s' e rs' vs') allev -> find_index rs' me 0 = Some mi' -> nth_error vs' mi' = Some (Some v') ->
  find_index ks s 0 = find_index ks s' 0 -> find_index ks s 0 <> None -> v = v'.
(* every dealer's commitment, and its evaluation for this keyper, is in a block of the dealing phase *)
Hypothesis Lc : forall j, (j < length ks)%nat -> exists k b s,
  nth_error blocks k = Some b /\ h0 + 1 + Z.of_nat k < S + L /\ In (DCommit s e (cj j)) (snd b) /\
  find_index ks s 0 = Some j /\ deg_ok t (cj j) = true.
Hypothesis Lv : forall j, (j < length ks)%nat -> j <> i -> exists k b s rs vs mi,
  nth_error blocks k = Some b /\ h0 + 1 + Z.of_nat k < S + L /\ In (DEval s e rs vs) (snd b) /\
  bytes_eqb s me = false /\ find_index ks s 0 = Some j /\ find_index rs me 0 = Some mi /\
  nth_error vs mi = Some (Some (vj j)) /\ valid_eval (vj j) = true.
Hypothesis Hver : forall j, (j < length ks)%nat -> verify i (vj j) (cj j) = true.

Lemma in_allev k b ev : nth_error blocks k = Some b -> In ev (snd b) -> In ev allev.
Proof.
  intros Hk Hin. apply Hallev. apply in_concat. exists (snd b). split; [|exact Hin].
  apply in_map. eapply nth_error_In. exact Hk.
Qed.

Lemma dealt_ok_keeps (p p' : pure) : keepsP p p' -> dealt_ok C E P verify p -> dealt_ok C E P verify p'.
Proof.
  intros [K1 K2 K3 K4 K5 K6 K7] Hd j Hj. rewrite K2 in Hj. destruct (Hd j Hj) as [c [v [Hc [Hv Hver']]]].
  exists c, v. split; [apply K5; exact Hc|]. split; [apply K6; exact Hv|]. rewrite K1. exact Hver'.
Qed.

(* at the end of the dealing phase every slot holds the dealer's value *)
Lemma deal_complete pre rest a :
  blocks = pre ++ rest -> S + L <= h0 + Z.of_nat (length pre) + 1 ->
  live a0 Dealing x0 a0 -> keepsA a0 a -> deal (concat (map snd pre)) a ->
  dealt_ok C E P verify (a_pure a).
Proof.
  intros Hsplit Hend _ Hk Hd j Hj.
  destruct Hk as [[K1 K2 K3 K4 K5 K6 K7] K8 K9]. rewrite K2, Hn in Hj.
  assert (Hpre : forall k b ev, nth_error blocks k = Some b -> h0 + 1 + Z.of_nat k < S + L -> In ev (snd b) ->
                   In ev (concat (map snd pre))).
  { intros k b ev Hk Hlt Hin. assert (Hkl : (k < length pre)%nat) by lia.
    rewrite Hsplit, nth_error_app1 in Hk by exact Hkl. apply in_concat. exists (snd b). split; [|exact Hin].
    apply in_map. eapply nth_error_In. exact Hk. }
  (* the commitment *)
  destruct (Lc j Hj) as [k [b [s [Hk [Hlt [Hin [Hidx Hdeg]]]]]]].
  pose proof (dl_lndc _ _ Hd s (cj j) j (Hpre _ _ _ Hk Hlt Hin) Hidx Hdeg) as Hne.
  destruct (nth_opt (p_commits (a_pure a)) j) as [c|] eqn:Hc; [|contradiction].
  destruct (dl_srcc _ _ Hd j c Hc) as [s' [Hin' Hidx']].
  assert (Hcc : cj j = c).
  { eapply (Uc s s'); [eapply in_allev; eassumption|exact Hin'|congruence|congruence]. }
  subst c.
  (* the evaluation *)
  destruct (Nat.eq_dec j i) as [->|Hji].
  - exists (cj i), (vj i). split; [reflexivity|]. split; [apply K6; exact Hown|].
    rewrite (dl_me _ _ Hd). apply Hver. exact Hj.
  - destruct (Lv j Hj Hji) as [k2 [b2 [s2 [rs [vs [mi [Hk2 [Hlt2 [Hin2 [Hsm [Hidx2 [Hm [Hnv Hval]]]]]]]]]]]]].
    pose proof (dl_lndv _ _ Hd s2 rs vs j mi (vj j) (Hpre _ _ _ Hk2 Hlt2 Hin2) Hsm Hidx2 Hm Hnv Hval) as Hne2.
    destruct (nth_opt (p_evals (a_pure a)) j) as [v|] eqn:Hv; [|contradiction].
    destruct (dl_srcv _ _ Hd j v Hv) as [Hc2|[s3 [rs3 [vs3 [mi3 [Hin3 [Hidx3 [Hm3 Hn3]]]]]]]]; [contradiction|].
    assert (Hvv : vj j = v).
    { eapply (Uv s2 rs vs mi (vj j) s3 rs3 vs3 mi3 v); try eassumption; [eapply in_allev; eassumption|congruence|congruence]. }
    subst v. exists (cj j), (vj j). split; [reflexivity|]. split; [reflexivity|].
    rewrite (dl_me _ _ Hd). apply Hver. exact Hj.
Qed.

Definition success (x : st) : Prop := exists cs vs, res x e = Some (mkRes C E true (CResult cs vs)).

Lemma final_success a x : keepsA a0 a -> dealt_ok C E P verify (a_pure a) -> final_row a x -> success x.
Proof.
  intros Hk Hd [pf [Hres [Hkp [Hpf [Hacc Hapo]]]]].
  assert (Hd' : dealt_ok C E P verify pf) by (eapply dealt_ok_keeps; eassumption).
  assert (Hs : succeeds C E P verify pf = true).
  { apply honest_instance_succeeds; try assumption.
    destruct Hk as [[K1 K2 K3 K4 _ _ _] _ _]. destruct Hkp as [P1 P2 P3 P4 _ _ _].
    rewrite P3, P2, K3, K2, Hn, (dl_t _ _ Hdeal0). exact Htn. }
  unfold succeeds in Hs. destruct (compute_result C E P verify pf) as [| | |cs vs] eqn:Hc; try discriminate.
  exists cs, vs. exact Hres.
Qed.

Lemma quiet_block k b : nth_error blocks k = Some b -> quiet (snd b).
Proof. intros Hk ev Hin. apply Hquiet. eapply in_allev; eassumption. Qed.

Lemma run_live rest : forall pre x,
  blocks = pre ++ rest -> run_blocks lch x rest = Some xf ->
  let h := h0 + Z.of_nat (length pre) in
  ((h < S + L /\ exists a, live a0 Dealing x a /\ keepsA a0 a /\ deal (concat (map snd pre)) a) \/
   (S + L <= h < S + 3 * L /\ exists a, live a0 (phase_at L h S) x a /\ keepsA a0 a /\ dealt_ok C E P verify (a_pure a)) \/
   (S + 3 * L <= h /\ success x)) ->
  success xf.
Proof.
  induction rest as [|b r IH]; intros pre x Hsplit Hr h Hinv.
  - simpl in Hr. injection Hr as <-.
    assert (Hlen : length blocks = length pre) by (rewrite Hsplit, app_nil_r; reflexivity).
    destruct Hinv as [[Hh _]|[[Hh _]|[_ Hs]]]; [unfold h in Hh; lia|unfold h in Hh; lia|exact Hs].
  - simpl in Hr. destruct (handle_block x b (lch (fst b))) as [x1| |] eqn:Hb; try discriminate.
    assert (Hk : nth_error blocks (length pre) = Some b).
    { rewrite Hsplit, nth_error_app2 by lia. rewrite Nat.sub_diag. reflexivity. }
    assert (Hfb : fst b = h + 1) by (rewrite (Hheights _ _ Hk); unfold h; lia).
    assert (Hsplit' : blocks = (pre ++ [b]) ++ r) by (rewrite <- app_assoc; exact Hsplit).
    assert (Hh' : h0 + Z.of_nat (length (pre ++ [b])) = h + 1) by (rewrite app_length; simpl; unfold h; lia).
    apply (IH (pre ++ [b]) x1 Hsplit' Hr). cbv zeta. rewrite Hh'.
    pose proof (quiet_block _ _ Hk) as Hq.
    assert (Hstart0 : a_start a0 = S) by exact (dl_start _ _ Hdeal0).
    destruct Hinv as [[Hh [a [Hl [Hka Hd]]]]|[[Hh [a [Hl [Hka Hd]]]]|[Hh Hs]]].
    + (* dealing *)
      assert (HhS : S <= h) by (unfold h; lia).
      destruct (Z.lt_ge_cases (h + 1) (S + L)) as [Hin|Hout].
      * left. split; [exact Hin|].
        destruct (block_deal _ _ _ _ _ _ _ Hb Hl Hd) as [a' [Hl' [Hk' Hd']]]; [lia| |exact Hq|].
        { intros ev Hev. eapply in_allev; eassumption. }
        exists a'. split; [exact Hl'|]. split; [eapply keepsA_trans; eassumption|].
        rewrite map_app, concat_app. simpl. rewrite app_nil_r. exact Hd'.
      * assert (Hdo : dealt_ok C E P verify (a_pure a)).
        { eapply (deal_complete pre (b :: r)); eassumption. }
        assert (Hl2 : live a0 (phase_at L h S) x a) by (rewrite pa_dealing by lia; exact Hl).
        destruct (live_step _ _ _ _ _ _ _ Hb Hl2 (dl_start _ _ Hd) Hfb Hq) as [A B].
        destruct (Z.lt_ge_cases (h + 1) (S + 3 * L)) as [Hin3|Hout3].
        -- right. left. split; [lia|]. destruct (A Hin3) as [a' [Hl' Hk']].
           exists a'. split; [exact Hl'|]. split; [eapply keepsA_trans; eassumption|].
           eapply dealt_ok_keeps; [exact (ka_pure _ _ _ _ _ Hk')|exact Hdo].
        -- right. right. split; [exact Hout3|]. eapply final_success; [exact Hka|exact Hdo|]. apply B; lia.
    + assert (Hst : a_start a = S) by (rewrite (ka_start _ _ _ _ _ Hka); exact Hstart0).
      destruct (live_step _ _ _ _ _ _ _ Hb Hl Hst Hfb Hq) as [A B].
      destruct (Z.lt_ge_cases (h + 1) (S + 3 * L)) as [Hin3|Hout3].
      * right. left. split; [lia|]. destruct (A Hin3) as [a' [Hl' Hk']].
        exists a'. split; [exact Hl'|]. split; [eapply keepsA_trans; eassumption|].
        eapply dealt_ok_keeps; [exact (ka_pure _ _ _ _ _ Hk')|exact Hd].
      * right. right. split; [exact Hout3|]. eapply final_success; [exact Hka|exact Hd|]. apply B; lia.
    + right. right. split; [lia|]. destruct Hs as [cs [vs Hs]]. exists cs, vs. eapply block_res; eassumption.
Qed.

Theorem honest_run_succeeds : success xf.
Proof.
  apply (run_live blocks [] x0 eq_refl Hrun). cbv zeta. simpl. rewrite Z.add_0_r.
  left. split; [lia|]. exists a0. split; [exact Hlive0|]. split; [apply keepsA_refl|exact Hdeal0].
Qed.

End LiveRun.
