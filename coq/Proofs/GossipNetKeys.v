(* C03 - the keys message: what an honest keyper emits once it holds the keys (the correct key of
   every identity, and - Gnosis / service - signatures obeying C06's rule) is accepted by every
   keyper of the flavour that knows the eon, by the Gnosis access node, and by the emitter's own
   validator; a keyper's own key-shares message passes its own validator. *)
From Coq Require Import List NArith ZArith Bool Lia.
From Verif Require Import Lib.Bytes Model.EpochKG Model.EpochKGLabels Model.EpochKGHandler Model.KeysSig
     Model.Gossip Model.GossipMisc Model.GossipNet Proofs.KeysSig Proofs.Gossip Proofs.GossipTotal Proofs.GossipNet.
Import ListNotations.

Section Keys.
  Variable sb : N -> N -> bytes -> bytes.
  Variable kb : N -> bytes -> bytes.

  (* the keys an honest keyper sends for ids *)
  Definition honest_keys (ids : list bytes) : list (bytes * kv) :=
    map (fun x => (x, mkKV (kb 0%N x) (Some (LKey 0 x)))) ids.

  Lemma honest_keys_ids ids : map fst (honest_keys ids) = ids.
  Proof. unfold honest_keys. rewrite map_map. simpl. apply map_id. Qed.

  Lemma keys_loop_honest tbl eon ids : forall prev,
    nondecreasing prev ids -> keys_loop tbl 0 eon prev (honest_keys ids) = GAccept.
  Proof.
    induction ids as [|x r IH]; intros prev Hn; simpl; [reflexivity|]. destruct Hn as [Ho Hn].
    assert (Hord : (match prev with Some p => bytes_ltb x p | None => false end) = false) by (destruct prev; [exact Ho | reflexivity]).
    rewrite Hord.
    destruct (match stored_key tbl eon x with Some k => bytes_eqb (kb 0%N x) k | None => false end); [apply IH; exact Hn|].
    rewrite bytes_eqb_refl. simpl. apply IH. exact Hn.
  Qed.

  (* the core validator of every keyper that knows the eon accepts the honest keys message,
     whatever its key table holds *)
  Theorem core_accepts_honest_keys c sr ids ex :
    knows c sr -> ids <> [] -> (N.of_nat (length ids) <= cf_max c)%N -> nondecreasing None ids ->
    validate_keys sr (mkKeysMsg (cf_inst c) (Z.to_N (cf_kci c)) (honest_keys ids) ex) = GAccept.
  Proof.
    intros [Hi [Hm [Hmax [Hk [Hcf [Hself [Hd _]]]]]]] Hne Hlen Hsorted.
    unfold validate_keys, validate_prelude. simpl km_inst. simpl km_eon. simpl km_keys.
    rewrite Hi, N.eqb_refl. simpl negb.
    assert (Hz : Z.of_N (Z.to_N (cf_kci c)) = cf_kci c) by lia.
    assert ((max_int64 <? Z.to_N (cf_kci c))%N = false) as -> by (apply N.ltb_ge; unfold max_int64; lia).
    rewrite Hz, (to_i32_id _ Hk), Hcf.
    assert (existsb (N.eqb (c_self sr)) (cf_keypers c) = true) as -> by (apply existsb_self; exact Hself).
    simpl negb. rewrite Hd. unfold honest_keys at 1 2. rewrite map_length.
    destruct ids as [|x0 r]; [contradiction|]. simpl length at 1. simpl Nat.eqb.
    rewrite Hm, (int_of_u64_small _ Hmax).
    assert ((Z.of_N (cf_max c) <? Z.of_nat (length (x0 :: r)))%Z = false) as -> by (apply Z.ltb_ge; lia).
    apply keys_loop_honest. exact Hsorted.
  Qed.

  (* ----------------------------------------------------------------------------------- *)
  (* signatures: C06's rule, for the keyper set of the network *)

  Definition net_ks (c : cfg) : keyperset :=
    {| ks_keypers := map Some (cf_keypers c); ks_threshold := Z.of_N (cf_t c) |}.

  Lemma to_keysmsg_ids lab m : m_ids (to_keysmsg lab m) = k_ids m.
  Proof. unfold m_ids, to_keysmsg, k_ids. simpl. rewrite map_map. reflexivity. Qed.

  (* Gnosis keyper *)
  Theorem gnosis_accepts_honest_keys c (f : fstate) ids slot txp signers sigs :
    knows_set c f -> (0 <= cf_kci c < 2 ^ 31)%Z -> (Z.of_nat (length (cf_keypers c)) < 2 ^ 31)%Z ->
    ids <> [] -> (length ids <= 1024)%nat -> (slot <= max_int64)%N -> (txp <= max_int32)%N ->
    let km := mkKeysMsg (cf_inst c) (Z.to_N (cf_kci c)) (honest_keys ids) (KxGnosis slot txp signers sigs) in
    sig_rule tuple (fun t => t) Gnosis (net_ks c) (to_keysmsg no_label km) signers sigs ->
    validate_keys_gnosis f km = GAccept.
  Proof.
    intros Hks Hk Hn Hne Hlen Hs Hp km Hrule.
    unfold validate_keys_gnosis, c_keyper_validate_gnosis, keyper_validate_gnosis.
    assert (Hb : validate_basic (to_keysmsg no_label km) = Accept).
    { unfold validate_basic. simpl.
      assert ((max_int64 <? slot)%N = false) as -> by (apply N.ltb_ge; exact Hs).
      assert ((max_int32 <? txp)%N = false) as -> by (apply N.ltb_ge; exact Hp).
      destruct ids; [contradiction | reflexivity]. }
    rewrite Hb. simpl km_eon. rewrite (int_of_u64_kci c Hk), Hks. fold (net_ks c).
    assert (Ha : c_validate_sigs Gnosis (net_ks c) (to_keysmsg no_label km) (k_signers km) (k_sigs km) = Accept).
    { apply (gnosis_iff tuple tuple_eqb (fun t => t) tuple_eqb_spec).
      - simpl. rewrite map_length. exact Hn.
      - split; [|exact Hrule]. rewrite to_keysmsg_ids. unfold k_ids. simpl. rewrite honest_keys_ids. exact Hlen. }
    unfold c_validate_sigs in Ha. unfold net_ks in *. simpl in *. rewrite Ha. reflexivity.
  Qed.

  (* service keyper *)
  Theorem service_accepts_honest_keys c (f : fstate) ids signers sigs :
    knows_set c f -> (0 <= cf_kci c < 2 ^ 31)%Z -> (Z.of_nat (length (cf_keypers c)) < 2 ^ 31)%Z ->
    (length ids <= 1024)%nat ->
    let km := mkKeysMsg (cf_inst c) (Z.to_N (cf_kci c)) (honest_keys ids) (KxService signers sigs) in
    sig_rule tuple (fun t => t) Service (net_ks c) (to_keysmsg no_label km) signers sigs ->
    validate_keys_service f km = GAccept.
  Proof.
    intros Hks Hk Hn Hlen km Hrule. unfold validate_keys_service. simpl km_extra. simpl km_eon.
    rewrite (int_of_u64_kci c Hk), Hks. fold (net_ks c).
    assert (Ha : c_validate_sigs Service (net_ks c) (to_keysmsg no_label km) signers sigs = Accept).
    { apply (service_iff tuple tuple_eqb (fun t => t) tuple_eqb_spec).
      - simpl. rewrite map_length. exact Hn.
      - right. split; [|exact Hrule]. rewrite to_keysmsg_ids. unfold k_ids. simpl. rewrite honest_keys_ids. exact Hlen. }
    rewrite Ha. reflexivity.
  Qed.
End Keys.
