(* C04 - proofs about the core validators of Model/Gossip.v: exactness of validate_shares and
   validate_keys against the specification predicates written from the property text, the
   refutation for the key-share validator of the pinned tree, and the role of the int32 cast. *)
From Coq Require Import List NArith ZArith Bool Lia.
From Verif Require Import Lib.Bytes Model.EpochKG Model.EpochKGLabels Model.EpochKGHandler Model.Gossip.
Import ListNotations.

(* ------------------------------------------------------------------------------------- *)
(* Specification predicates (from the property text) *)

(* identities non-decreasing in the byte order *)
Fixpoint nondecreasing (prev : option bytes) (l : list bytes) : Prop :=
  match l with
  | [] => True
  | x :: r => match prev with Some p => bytes_ltb x p = false | None => True end
              /\ nondecreasing (Some x) r
  end.

(* "its instance id matches, the receiver is a keyper of the named keyper set and that set's
   key generation succeeded, it carries between one and the configured maximum ..." ;
   ks, n: the key material of that key generation (eon key set, number of public key shares) *)
Definition wf_prelude (st : cstate) (inst eon : N) (count : nat) (ks n : N) : Prop :=
  inst = c_instance st /\
  (eon <= max_int64)%N /\
  (exists keypers, zlookup (c_configs st) (Z.of_N eon) = Some keypers /\ In (c_self st) keypers) /\
  (exists t, dkg_for_config st (Z.of_N eon) = Some (DkgOk ks n t)) /\
  (1 <= count)%nat /\ (N.of_nat count <= c_maxkeys st)%N.

(* "... the claimed sender index exists, and every share verifies against that sender's
   public key share" *)
Definition wf_shares (st : cstate) (m : shares_msg) : Prop :=
  exists ks n,
    wf_prelude st (s_inst m) (s_eon m) (length (s_shares m)) ks n /\
    nondecreasing None (map fst (s_shares m)) /\
    (s_kidx m < n)%N /\
    Forall (fun p => exists lb, kv_lbl (snd p) = Some lb /\
                                verify_share ks (s_kidx m) (fst p) lb = true) (s_shares m).

(* "... every key is the valid epoch key for its identity under the eon public key (or equals
   a key already stored)" *)
Definition wf_keys (st : cstate) (m : keys_msg) : Prop :=
  exists ks n,
    wf_prelude st (km_inst m) (km_eon m) (length (km_keys m)) ks n /\
    nondecreasing None (map fst (km_keys m)) /\
    Forall (fun p => exists lb, kv_lbl (snd p) = Some lb /\
                                (verify_key ks (fst p) lb = true \/
                                 stored_key (c_keys st) (Z.of_N (km_eon m)) (fst p) = Some (kv_bytes (snd p))))
           (km_keys m).

(* every eon row names a keyper config index that fits the integer column of the batch
   config table, and the configured maximum fits an int (both hold in every reachable
   database / sane configuration; without the first the int32 cast in GetKeyperIndex decides,
   see cast_matters below) *)
Definition eons_fit (st : cstate) : Prop :=
  forall e k, In (e, k) (c_eons st) -> (- 2 ^ 31 <= k < 2 ^ 31)%Z.
Definition max_fits (st : cstate) : Prop := (c_maxkeys st <= max_int64)%N.

(* ------------------------------------------------------------------------------------- *)
(* Small facts *)

Lemma to_i32_id z : (0 <= z < 2 ^ 31)%Z -> to_i32 z = z.
Proof.
  intros Hz. unfold to_i32. rewrite Z.mod_small by lia.
  destruct (z <? 2 ^ 31)%Z eqn:E; [reflexivity|]. apply Z.ltb_ge in E. lia.
Qed.

Lemma int_of_u64_small n : (n <= max_int64)%N -> int_of_u64 n = Z.of_N n.
Proof.
  intros Hn. unfold int_of_u64, max_int64 in *.
  assert (H : (Z.of_N n < 2 ^ 63)%Z).
  { change (2 ^ 63)%Z with (Z.of_N (2 ^ 63)). lia. }
  rewrite Z.mod_small by lia.
  destruct (Z.of_N n <? 2 ^ 63)%Z eqn:E; [reflexivity|]. apply Z.ltb_ge in E. lia.
Qed.

Lemma max_eon_in eons kci e : max_eon eons kci = Some e -> In (e, kci) eons.
Proof.
  revert e. induction eons as [|[e' k] r IH]; intros e; simpl; [discriminate|].
  destruct (k =? kci)%Z eqn:Ek.
  - apply Z.eqb_eq in Ek. subst k.
    destruct (max_eon r kci) as [e''|] eqn:Em.
    + intros [= <-]. destruct (Z.max_spec e' e'') as [[_ ->]|[_ ->]]; [right; apply IH; reflexivity | left; reflexivity].
    + intros [= <-]. left. reflexivity.
  - intros H. right. apply IH. exact H.
Qed.

Lemma dkg_needs_eon st kci d : dkg_for_config st kci = Some d -> exists e, In (e, kci) (c_eons st).
Proof.
  unfold dkg_for_config. destruct (max_eon (c_eons st) kci) as [e|] eqn:E; [|discriminate].
  intros _. exists e. apply max_eon_in. exact E.
Qed.

Lemma existsb_self x l : existsb (N.eqb x) l = true <-> In x l.
Proof.
  rewrite existsb_exists. split.
  - intros [y [Hy E]]. apply N.eqb_eq in E. subst. exact Hy.
  - intros H. exists x. split; [exact H | apply N.eqb_refl].
Qed.

(* ------------------------------------------------------------------------------------- *)
(* The shared prelude *)

Lemma prelude_ok_iff st inst eon count ks n :
  eons_fit st -> max_fits st ->
  (validate_prelude st inst eon count = PreOk ks n <-> wf_prelude st inst eon count ks n).
Proof.
  intros Hfit Hmax. unfold validate_prelude, wf_prelude.
  destruct (inst =? c_instance st)%N eqn:Ei; simpl.
  2: { apply N.eqb_neq in Ei. split; [discriminate | intros [H _]; contradiction]. }
  apply N.eqb_eq in Ei.
  destruct (max_int64 <? eon)%N eqn:Eo.
  { apply N.ltb_lt in Eo. split; [discriminate | intros [_ [H _]]; lia]. }
  apply N.ltb_ge in Eo.
  (* does the index fit int32? *)
  destruct (Z_lt_dec (Z.of_N eon) (2 ^ 31)) as [Hsmall|Hbig].
  - rewrite to_i32_id by lia.
    destruct (zlookup (c_configs st) (Z.of_N eon)) as [keypers|] eqn:Ec.
    2: { split; [discriminate | intros [_ [_ [[kp [H _]] _]]]; discriminate]. }
    destruct (existsb (N.eqb (c_self st)) keypers) eqn:Em; simpl.
    2: { split; [discriminate|]. intros [_ [_ [[kp [H Hin]] _]]]. injection H as <-.
         apply existsb_self in Hin. congruence. }
    apply existsb_self in Em.
    destruct (dkg_for_config st (Z.of_N eon)) as [[| |ks' n' t']|] eqn:Ed;
      try (split; [discriminate | intros [_ [_ [_ [[t H] _]]]]; discriminate]).
    destruct (count =? 0)%nat eqn:E0.
    { apply Nat.eqb_eq in E0. split; [discriminate | intros [_ [_ [_ [_ [H _]]]]]; lia]. }
    apply Nat.eqb_neq in E0.
    rewrite (int_of_u64_small _ Hmax).
    destruct (Z.of_N (c_maxkeys st) <? Z.of_nat count)%Z eqn:Et.
    { apply Z.ltb_lt in Et. split; [discriminate | intros [_ [_ [_ [_ [_ H]]]]]; lia]. }
    apply Z.ltb_ge in Et.
    split.
    + intros [= <- <-]. repeat split; try assumption; try lia.
      * exists keypers. split; [reflexivity | exact Em].
      * exists t'. reflexivity.
    + intros [_ [_ [_ [[t H] _]]]]. injection H as <- <- _. reflexivity.
  - (* eon >= 2^31: no eon row can name it, so no DKG result is found either way *)
    assert (Hnone : dkg_for_config st (Z.of_N eon) = None).
    { destruct (dkg_for_config st (Z.of_N eon)) as [d|] eqn:Ed; [|reflexivity].
      destruct (dkg_needs_eon _ _ _ Ed) as [e He]. apply Hfit in He. lia. }
    rewrite Hnone.
    split.
    + destruct (zlookup (c_configs st) (to_i32 (Z.of_N eon))) as [kp|]; [|discriminate].
      destruct (negb (existsb (N.eqb (c_self st)) kp)); discriminate.
    + intros [_ [_ [_ [[t H] _]]]]. discriminate.
Qed.

Lemma prelude_cases st inst eon count :
  (exists r, validate_prelude st inst eon count = PreReject r) \/
  (exists ks n, validate_prelude st inst eon count = PreOk ks n).
Proof.
  unfold validate_prelude.
  destruct (negb (inst =? c_instance st)%N); [left; eauto|].
  destruct (max_int64 <? eon)%N; [left; eauto|].
  destruct (zlookup _ _); [|left; eauto].
  destruct (negb (existsb _ _)); [left; eauto|].
  destruct (dkg_for_config _ _) as [[| |ks n t]|]; try (left; eauto; fail).
  destruct (count =? 0)%nat; [left; eauto|].
  destruct (_ <? _)%Z; [left; eauto | right; eauto].
Qed.

(* ------------------------------------------------------------------------------------- *)
(* Key shares *)

Lemma shares_loop_iff ks kidx l : forall prev,
  shares_loop ks kidx prev l = GAccept <->
  nondecreasing prev (map fst l) /\
  Forall (fun p => exists lb, kv_lbl (snd p) = Some lb /\ verify_share ks kidx (fst p) lb = true) l.
Proof.
  induction l as [|[x v] r IH]; intros prev; simpl.
  - split; [intros _; split; [exact I | constructor] | reflexivity].
  - destruct (kv_lbl v) as [lb|] eqn:El.
    2: { split; [discriminate|]. intros [_ F]. inversion F as [|? ? [lb [H _]]]; subst. simpl in H. congruence. }
    destruct (verify_share ks kidx x lb) eqn:Ev; simpl.
    2: { split; [discriminate|]. intros [_ F]. inversion F as [|? ? [lb' [H Hv]]]; subst. simpl in *.
         rewrite El in H. injection H as <-. congruence. }
    destruct prev as [p|].
    + destruct (bytes_ltb x p) eqn:Eo.
      * split; [discriminate | intros [[H _] _]; congruence].
      * rewrite IH. split.
        -- intros [Hn F]. split; [split; [reflexivity | exact Hn]|]. constructor; [|exact F]. exists lb. auto.
        -- intros [[_ Hn] F]. inversion F; subst. split; assumption.
    + rewrite IH. split.
      * intros [Hn F]. split; [split; [exact I | exact Hn]|]. constructor; [|exact F]. exists lb. auto.
      * intros [[_ Hn] F]. inversion F; subst. split; assumption.
Qed.

Lemma shares_loop_not_panic ks kidx l : forall prev, shares_loop ks kidx prev l <> GPanic.
Proof.
  induction l as [|[x v] r IH]; intros prev; simpl; [discriminate|].
  destruct (kv_lbl v); [|discriminate].
  destruct (negb _); [discriminate|].
  destruct prev as [p|]; [destruct (bytes_ltb x p); [discriminate|]|]; apply IH.
Qed.

Theorem shares_iff st m :
  eons_fit st -> max_fits st ->
  (validate_shares st m = GAccept <-> wf_shares st m) /\ validate_shares st m <> GPanic.
Proof.
  intros Hfit Hmax. unfold validate_shares, wf_shares.
  destruct (prelude_cases st (s_inst m) (s_eon m) (length (s_shares m))) as [[r Hr]|[ks [n Hok]]].
  - rewrite Hr. split; [|discriminate]. split; [discriminate|].
    intros [ks [n [Hp _]]]. apply (prelude_ok_iff _ _ _ _ _ _ Hfit Hmax) in Hp. congruence.
  - rewrite Hok. unfold check_key_shares.
    destruct (n <=? s_kidx m)%N eqn:Er.
    + apply N.leb_le in Er. split; [|discriminate]. split; [discriminate|].
      intros [ks' [n' [Hp [_ [Hlt _]]]]]. apply (prelude_ok_iff _ _ _ _ _ _ Hfit Hmax) in Hp.
      rewrite Hok in Hp. injection Hp as <- <-. lia.
    + apply N.leb_gt in Er. split; [|apply shares_loop_not_panic].
      rewrite shares_loop_iff. split.
      * intros [Hn F]. exists ks, n. split; [apply (prelude_ok_iff _ _ _ _ _ _ Hfit Hmax); exact Hok|].
        repeat split; assumption.
      * intros [ks' [n' [Hp [Hn [_ F]]]]]. apply (prelude_ok_iff _ _ _ _ _ _ Hfit Hmax) in Hp.
        rewrite Hok in Hp. injection Hp as <- <-. split; assumption.
Qed.

(* the validator of the pinned tree: the same rule as long as the claimed sender exists ... *)
Lemma legacy_shares_loop_eq ks n kidx l : forall prev,
  (kidx < n)%N -> legacy_shares_loop ks n kidx prev l = shares_loop ks kidx prev l.
Proof.
  intros prev Hlt. revert prev. induction l as [|[x v] r IH]; intros prev; simpl; [reflexivity|].
  destruct (kv_lbl v); [|reflexivity].
  assert ((n <=? kidx)%N = false) as -> by (apply N.leb_gt; exact Hlt).
  destruct (negb _); [reflexivity|].
  destruct prev as [p|]; [destruct (bytes_ltb x p); [reflexivity|]|]; apply IH.
Qed.

Theorem legacy_shares_iff_in_range st m :
  eons_fit st -> max_fits st ->
  (forall ks n, validate_prelude st (s_inst m) (s_eon m) (length (s_shares m)) = PreOk ks n -> (s_kidx m < n)%N) ->
  (legacy_validate_shares st m = GAccept <-> wf_shares st m) /\ legacy_validate_shares st m <> GPanic.
Proof.
  intros Hfit Hmax Hrange.
  assert (E : legacy_validate_shares st m = validate_shares st m).
  { unfold legacy_validate_shares, validate_shares.
    destruct (validate_prelude st (s_inst m) (s_eon m) (length (s_shares m))) as [r|ks n] eqn:Ep; [reflexivity|].
    specialize (Hrange ks n eq_refl). unfold legacy_check_key_shares, check_key_shares.
    assert ((n <=? s_kidx m)%N = false) as -> by (apply N.leb_gt; exact Hrange).
    apply legacy_shares_loop_eq. exact Hrange. }
  rewrite E. apply shares_iff; assumption.
Qed.

(* ... and a panic as soon as it does not: the replay of D1 *)
Definition d1_state : cstate :=
  mkCState 7 3 0 [(1%Z, [0; 1; 2]%N)] [(5%Z, 1%Z)] [(5%Z, DkgOk 0 3 2)] [] [].
Definition d1_msg : shares_msg :=
  mkSharesMsg 7 1 3 [([161%N], mkKV [1%N] (Some (LShare 0 1 [161%N])))] SxNone.

Lemma legacy_shares_panics : legacy_validate_shares d1_state d1_msg = GPanic.
Proof. vm_compute. reflexivity. Qed.

Lemma d1_state_fits : eons_fit d1_state /\ max_fits d1_state.
Proof.
  split.
  - intros e k [H|[]]. injection H as <- <-. lia.
  - unfold max_fits, max_int64. simpl. lia.
Qed.

Lemma repaired_shares_rejects_d1 : validate_shares d1_state d1_msg = GReject GSenderRange.
Proof. vm_compute. reflexivity. Qed.

(* ------------------------------------------------------------------------------------- *)
(* Keys *)

Lemma keys_loop_iff tbl ks eon l : forall prev,
  keys_loop tbl ks eon prev l = GAccept <->
  nondecreasing prev (map fst l) /\
  Forall (fun p => exists lb, kv_lbl (snd p) = Some lb /\
                              (verify_key ks (fst p) lb = true \/
                               stored_key tbl eon (fst p) = Some (kv_bytes (snd p)))) l.
Proof.
  induction l as [|[x v] r IH]; intros prev; simpl.
  - split; [intros _; split; [exact I | constructor] | reflexivity].
  - destruct (kv_lbl v) as [lb|] eqn:El.
    2: { split; [discriminate|]. intros [_ F]. inversion F as [|? ? [lb [H _]]]; subst. simpl in H. congruence. }
    assert (Hstep : forall (ordered : Prop),
      (ordered /\ nondecreasing (Some x) (map fst r)) /\
      Forall (fun p => exists lb, kv_lbl (snd p) = Some lb /\
                (verify_key ks (fst p) lb = true \/ stored_key tbl eon (fst p) = Some (kv_bytes (snd p)))) ((x, v) :: r)
      <-> ordered /\
          (verify_key ks x lb = true \/ stored_key tbl eon x = Some (kv_bytes v)) /\
          nondecreasing (Some x) (map fst r) /\
          Forall (fun p => exists lb, kv_lbl (snd p) = Some lb /\
                (verify_key ks (fst p) lb = true \/ stored_key tbl eon (fst p) = Some (kv_bytes (snd p)))) r).
    { intros ordered. split.
      - intros [[Ho Hn] F]. inversion F as [|? ? [lb' [H Hv]]]; subst. simpl in *.
        rewrite El in H. injection H as <-. repeat split; assumption.
      - intros [Ho [Hv [Hn F]]]. split; [split; assumption|]. constructor; [|exact F]. exists lb. simpl. auto. }
    assert (Hbody :
      (let same := match stored_key tbl eon x with Some k => bytes_eqb (kv_bytes v) k | None => false end in
       if same then keys_loop tbl ks eon (Some x) r
       else if verify_key ks x lb then keys_loop tbl ks eon (Some x) r else GReject (GS RKeyInvalid)) = GAccept
      <-> (verify_key ks x lb = true \/ stored_key tbl eon x = Some (kv_bytes v)) /\
          nondecreasing (Some x) (map fst r) /\
          Forall (fun p => exists lb, kv_lbl (snd p) = Some lb /\
                (verify_key ks (fst p) lb = true \/ stored_key tbl eon (fst p) = Some (kv_bytes (snd p)))) r).
    { cbv zeta.
      destruct (stored_key tbl eon x) as [k|] eqn:Es.
      - destruct (bytes_eqb (kv_bytes v) k) eqn:Eb.
        + apply bytes_eqb_eq in Eb. subst k. rewrite IH. split.
          * intros [Hn F]. split; [right; reflexivity | split; assumption].
          * intros [_ H]. exact H.
        + apply bytes_eqb_neq in Eb. destruct (verify_key ks x lb) eqn:Ev.
          * rewrite IH. split; [intros [Hn F]; split; [left; reflexivity | split; assumption] | intros [_ H]; exact H].
          * split; [discriminate|]. intros [[H|H] _]; [discriminate | injection H as H; congruence].
      - destruct (verify_key ks x lb) eqn:Ev.
        + rewrite IH. split; [intros [Hn F]; split; [left; reflexivity | split; assumption] | intros [_ H]; exact H].
        + split; [discriminate|]. intros [[H|H] _]; discriminate. }
    destruct prev as [p|].
    + destruct (bytes_ltb x p) eqn:Eo.
      * split; [discriminate | intros [[H _] _]; congruence].
      * rewrite Hbody. rewrite (Hstep (false = false)). tauto.
    + rewrite Hbody. rewrite (Hstep True). tauto.
Qed.

Lemma keys_loop_not_panic tbl ks eon l : forall prev, keys_loop tbl ks eon prev l <> GPanic.
Proof.
  induction l as [|[x v] r IH]; intros prev; simpl; [discriminate|].
  destruct (kv_lbl v) as [lb|]; [|discriminate].
  destruct (match prev with Some p => bytes_ltb x p | None => false end); [discriminate|].
  destruct (match stored_key tbl eon x with Some k => bytes_eqb (kv_bytes v) k | None => false end); [apply IH|].
  destruct (verify_key ks x lb); [apply IH | discriminate].
Qed.

Theorem keys_iff st m :
  eons_fit st -> max_fits st ->
  (validate_keys st m = GAccept <-> wf_keys st m) /\ validate_keys st m <> GPanic.
Proof.
  intros Hfit Hmax. unfold validate_keys, wf_keys.
  destruct (prelude_cases st (km_inst m) (km_eon m) (length (km_keys m))) as [[r Hr]|[ks [n Hok]]].
  - rewrite Hr. split; [|discriminate]. split; [discriminate|].
    intros [ks [n [Hp _]]]. apply (prelude_ok_iff _ _ _ _ _ _ Hfit Hmax) in Hp. congruence.
  - rewrite Hok. split; [|apply keys_loop_not_panic].
    rewrite keys_loop_iff. split.
    + intros [Hn F]. exists ks, n. split; [apply (prelude_ok_iff _ _ _ _ _ _ Hfit Hmax); exact Hok|].
      split; assumption.
    + intros [ks' [n' [Hp [Hn F]]]]. apply (prelude_ok_iff _ _ _ _ _ _ Hfit Hmax) in Hp.
      rewrite Hok in Hp. injection Hp as <- <-. split; assumption.
Qed.

(* never a panic, with no premise at all *)
Lemma validate_shares_not_panic st m : validate_shares st m <> GPanic.
Proof.
  unfold validate_shares. destruct (validate_prelude _ _ _ _); [discriminate|].
  unfold check_key_shares. destruct (_ <=? _)%N; [discriminate | apply shares_loop_not_panic].
Qed.

Lemma validate_keys_not_panic st m : validate_keys st m <> GPanic.
Proof.
  unfold validate_keys. destruct (validate_prelude _ _ _ _); [discriminate | apply keys_loop_not_panic].
Qed.

(* ------------------------------------------------------------------------------------- *)
(* The int32 cast of GetKeyperIndex: in a database with an eon row whose keyper config index
   does not fit the integer column, a message naming that index is accepted against the batch
   config of the truncated index (2^32 + 1 -> 1) although no keyper set 2^32 + 1 exists *)
Definition cast_state : cstate :=
  mkCState 7 3 0 [(1%Z, [0; 1; 2]%N)] [(9%Z, 4294967297%Z)] [(9%Z, DkgOk 0 3 2)] [] [].
Definition cast_msg : shares_msg :=
  mkSharesMsg 7 4294967297 1 [([161%N], mkKV [1%N] (Some (LShare 0 1 [161%N])))] SxNone.

Lemma cast_matters :
  ~ eons_fit cast_state /\ validate_shares cast_state cast_msg = GAccept /\ ~ wf_shares cast_state cast_msg.
Proof.
  split; [|split].
  - intros H. specialize (H 9%Z 4294967297%Z (or_introl eq_refl)). lia.
  - vm_compute. reflexivity.
  - intros [ks [n [[_ [_ [[kp [H _]] _]]] _]]]. vm_compute in H. discriminate.
Qed.
