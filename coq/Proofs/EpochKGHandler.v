(* Proofs about Model/EpochKGHandler.v: the handler's re-aggregation from the share table
   does not depend on the order in which SelectDecryptionKeyShares returns the rows. *)
From Coq Require Import List NArith ZArith Bool Lia Permutation.
From Verif Require Import Lib.Bytes Lib.Assoc Model.EpochKG Model.EpochKGHandler Proofs.EpochKG.
Import ListNotations.
Open Scope N_scope.

Section HandlerProofs.
  Variable V R : Type.
  Variable verify : N -> bytes -> V -> bool.
  Variable combine : list (N * V) -> V.
  Variable decode : R -> option V.

  Notation share_row := (share_row R).
  Notation oracle := (oracle R).
  Notation handle_share := (handle_share V verify combine).
  Notation run := (run V verify combine).
  Notation run_from := (run_from V verify combine).
  Notation aggregate_rows := (aggregate_rows V R verify combine decode).
  Notation aggregate_loop := (aggregate_loop V R verify combine decode).
  Notation handle_message := (handle_message V R verify combine decode).

  (* ---- vocabulary ---- *)

  (* the shares the aggregation feeds to EpochKG for a list of rows (undecodable rows are skipped) *)
  Definition row_share (r : share_row) : list (share V) :=
    match decode (r_share r) with
    | Some v => [mkShare (r_ident r) (u64_of_i64 (r_kidx r)) v]
    | None => []
    end.
  Definition shares_of (rows : list share_row) : list (share V) := flat_map row_share rows.

  Definition perm_oracle (o : oracle) : Prop := forall i rows, Permutation (o i rows) rows.

  Definition rows_below (n : N) (rows : list share_row) : Prop :=
    Forall (fun r => u64_of_i64 (r_kidx r) < n) rows.

  (* combine does not depend on which t valid shares it is given (discharged for the exponent
     model in Proofs/EpochKGAlgebra.v) *)
  Definition subset_independent (n t : N) : Prop :=
    forall x A B, good_shares verify n t x A -> good_shares verify n t x B -> combine A = combine B.

  (* key the handler derives for x from the table (rows taken in table order) *)
  Definition table_shares (tbl : list share_row) (eon : Z) (x : bytes) : list (share V) :=
    shares_of (select_shares tbl eon x).
  Definition enough (t : N) (tbl : list share_row) (eon : Z) (x : bytes) : bool :=
    t <=? N.of_nat (length (dv verify x (table_shares tbl eon x))).
  Definition table_key (t : N) (tbl : list share_row) (eon : Z) (x : bytes) : V :=
    combine (firstn (N.to_nat t) (dv verify x (table_shares tbl eon x))).

  (* ---- aggregation = a library run ---- *)

  Lemma handle_share_no_panic n t st sh : sh_sender sh < n -> snd (handle_share n t st sh) <> Panic.
  Proof.
    intros Hs. unfold handle_share, add_share.
    destruct (amem (keys st) (sh_ident sh)); [discriminate|].
    assert (n <=? sh_sender sh = false) as -> by (apply N.leb_gt; exact Hs).
    destruct (negb (verify (sh_sender sh) (sh_ident sh) (sh_val sh))); [discriminate|].
    destruct (existsb _ _); [discriminate|].
    destruct (negb _); simpl; [discriminate|].
    destruct (compute_epoch_secret_key _ _ _ _); discriminate.
  Qed.

  Lemma aggregate_rows_run n t rows : forall st,
    rows_below n rows -> aggregate_rows n t st rows = Some (run_from n t st (shares_of rows)).
  Proof.
    induction rows as [|r rows IH]; intros st Hb; [reflexivity|].
    inversion Hb as [|? ? Hr Hb']; subst. simpl. unfold row_share.
    destruct (decode (r_share r)) as [v|]; simpl; [|apply IH; exact Hb'].
    pose proof (handle_share_no_panic n t st (mkShare (r_ident r) (u64_of_i64 (r_kidx r)) v) Hr) as Hnp.
    unfold step. destruct (handle_share n t st _) as [st' o]. simpl in *.
    destruct o; try (apply IH; exact Hb'). contradiction.
  Qed.

  Lemma shares_of_perm rows rows' : Permutation rows rows' -> Permutation (shares_of rows) (shares_of rows').
  Proof. intros H. unfold shares_of. apply Permutation_flat_map. exact H. Qed.

  Lemma shares_of_below n rows : rows_below n rows -> senders_below n (shares_of rows).
  Proof.
    unfold rows_below, senders_below, shares_of. induction rows as [|r rows IH]; intros H; simpl; [constructor|].
    inversion H as [|? ? Hr Hb]; subst. apply Forall_app. split; [|apply IH; exact Hb].
    unfold row_share. destruct (decode (r_share r)); constructor; [exact Hr|constructor].
  Qed.

  Lemma shares_of_ident x rows :
    Forall (fun r => r_ident r = x) rows -> Forall (fun sh => sh_ident sh = x) (shares_of rows).
  Proof.
    unfold shares_of. induction rows as [|r rows IH]; intros H; simpl; [constructor|].
    inversion H as [|? ? Hr Hb]; subst. apply Forall_app. split; [|apply IH; exact Hb].
    unfold row_share. destruct (decode (r_share r)); constructor; [reflexivity|constructor].
  Qed.

  Lemma select_shares_ident (tbl : list share_row) eon x : Forall (fun r => r_ident r = x) (select_shares tbl eon x).
  Proof.
    apply Forall_forall. intros r Hin. unfold select_shares in Hin. apply filter_In in Hin.
    destruct Hin as [_ H]. apply andb_true_iff in H. destruct H as [_ H]. apply bytes_eqb_eq. exact H.
  Qed.

  Lemma select_shares_below n (tbl : list share_row) eon x : rows_below n tbl -> rows_below n (select_shares tbl eon x).
  Proof.
    unfold rows_below. rewrite !Forall_forall. intros H r Hin. apply H.
    unfold select_shares in Hin. apply filter_In in Hin. tauto.
  Qed.

  (* ---- a run over shares of one identity has at most that identity pending ---- *)

  Lemma dv_other_empty x x' (l : list (share V)) :
    Forall (fun sh => sh_ident sh = x) l -> x' <> x -> dv verify x' l = [].
  Proof.
    intros Hall Hne. unfold dv.
    assert (forall A, fold_left (dv_step V verify x') l A = A) as H.
    { induction l as [|sh l IH]; intros A; [reflexivity|]. simpl.
      inversion Hall as [|? ? Hx Hall']; subst.
      assert (dv_step V verify x' A sh = A) as ->.
      { unfold dv_step, valid_for.
        assert (bytes_eqb (sh_ident sh) x' = false) as -> by (apply bytes_eqb_neq; congruence).
        reflexivity. }
      apply IH. exact Hall'. }
    apply H.
  Qed.

  Lemma nodup_all_equal {A} (x : A) (ks : list A) :
    NoDup ks -> (forall k, In k ks -> k = x) -> (length ks <= 1)%nat.
  Proof.
    intros Hnd Hall. destruct ks as [|a [|b ks]]; simpl; try lia.
    exfalso. inversion Hnd as [|? ? Hn _]; subst. apply Hn.
    rewrite (Hall a) by (left; reflexivity). rewrite (Hall b) by (right; left; reflexivity).
    left. reflexivity.
  Qed.

  Lemma single_ident_no_key n t x l :
    1 <= t -> senders_below n l -> Forall (fun sh => sh_ident sh = x) l ->
    key_of (run n t l) x = None ->
    (N.of_nat (length (pending (run n t l))) <? t) = true.
  Proof.
    intros Ht Hb Hall Hk. destruct (inv_run V verify combine n t l Ht Hb) as [Hnd Hinv].
    set (st := run n t l) in *.
    assert (Hkeys : forall k, In k (map fst (pending st)) -> k = x).
    { intros k Hin. destruct (bytes_eqb k x) eqn:E; [apply bytes_eqb_eq; exact E|].
      apply bytes_eqb_neq in E. exfalso.
      pose proof (Hinv k) as Hi. rewrite (dv_other_empty x k l Hall E) in Hi.
      unfold inv_at in Hi. simpl in Hi.
      assert (0 <? t = true) as E0 by (apply N.ltb_lt; lia). rewrite E0 in Hi.
      destruct Hi as [_ Hi]. apply aget_none_notin in Hi. contradiction. }
    pose proof (nodup_all_equal x _ Hnd Hkeys) as Hlen. rewrite map_length in Hlen.
    apply N.ltb_lt.
    destruct (pending st) as [|[k D'] rest] eqn:Ep; cbn [length map fst] in *; [lia|].
    destruct rest; cbn [length] in Hlen; [|lia].
    assert (k = x) as -> by (apply Hkeys; left; reflexivity).
    pose proof (Hinv x) as Hi. unfold inv_at in Hi.
    destruct (N.of_nat (length (dv verify x l)) <? t) eqn:E.
    - destruct Hi as [_ Hi]. rewrite Ep in Hi. simpl in Hi. rewrite bytes_eqb_refl in Hi.
      apply N.ltb_lt in E. destruct (dv verify x l) eqn:Ed; [discriminate|]. cbn [length] in E. cbn [length]. lia.
    - destruct Hi as [Hi _]. congruence.
  Qed.

  (* ---- the aggregation loop, for every permuting oracle ---- *)

  Lemma aggregate_loop_spec (o : oracle) n t tbl eon :
    1 <= t -> perm_oracle o -> rows_below n tbl -> subset_independent n t ->
    forall shares i acc,
      aggregate_loop o n t tbl eon i shares acc =
      if forallb (fun s => enough t tbl eon (fst s)) shares
      then LDone (acc ++ map (fun s : bytes * R => (fst s, table_key t tbl eon (fst s))) shares)
      else LNone.
  Proof.
    intros Ht Ho Hb Hsub. induction shares as [|[x raw] shares IH]; intros i acc; simpl.
    - rewrite app_nil_r. reflexivity.
    - set (sel := select_shares tbl eon x).
      assert (Hperm : Permutation (o i sel) sel) by apply Ho.
      assert (Hbsel : rows_below n sel) by (apply select_shares_below; exact Hb).
      assert (Hbo : rows_below n (o i sel)).
      { unfold rows_below. eapply Permutation_Forall; [apply Permutation_sym; exact Hperm|exact Hbsel]. }
      rewrite (aggregate_rows_run n t (o i sel) init Hbo). fold (run n t (shares_of (o i sel))).
      set (lo := shares_of (o i sel)). set (lt := shares_of sel).
      assert (Hpl : Permutation lo lt) by (apply shares_of_perm; exact Hperm).
      assert (Hblo : senders_below n lo) by (apply shares_of_below; exact Hbo).
      assert (Hblt : senders_below n lt) by (apply shares_of_below; exact Hbsel).
      unfold enough at 1. fold sel. unfold table_shares at 1. fold sel. fold lt.
      destruct (t <=? N.of_nat (length (dv verify x lt))) eqn:E.
      + apply N.leb_le in E.
        assert (Elo : t <= N.of_nat (length (dv verify x lo))).
        { rewrite (dv_length_perm V verify x lo lt Hpl). exact E. }
        destruct (key_iff_threshold V verify combine n t lo x Ht Hblo) as [[_ Hex] _].
        destruct (Hex (proj2 (has_valid_from_dv V verify x lo t) Elo)) as [k Hk].
        rewrite Hk.
        destruct (key_is_combine_of_first_t V verify combine n t lo x k Ht Hblo Hk) as [Hkc Hgood].
        assert (k = table_key t tbl eon x) as ->.
        { rewrite Hkc. unfold table_key, table_shares. fold sel. fold lt.
          apply (Hsub x); [exact Hgood|]. apply dv_good; assumption. }
        simpl. rewrite IH. rewrite <- app_assoc. reflexivity.
      + apply N.leb_gt in E.
        assert (Hno : ~ has_valid_from verify x lo t).
        { rewrite has_valid_from_dv. rewrite (dv_length_perm V verify x lo lt Hpl). lia. }
        destruct (key_iff_threshold V verify combine n t lo x Ht Hblo) as [_ Hnone].
        rewrite (Hnone Hno). simpl.
        assert (Hid : Forall (fun sh => sh_ident sh = x) lo).
        { apply shares_of_ident. eapply Permutation_Forall; [apply Permutation_sym; exact Hperm|].
          apply select_shares_ident. }
        rewrite (single_ident_no_key n t x lo Ht Hblo Hid (Hnone Hno)). reflexivity.
  Qed.

  (* ---- the handler ---- *)

  (* what the theorem needs of the stored rows: every share row (after the message's own rows
     were inserted) carries a keyper index of the set, and the threshold is at least 1 *)
  Definition stored_shares_wf (d : db V R) (m : msg R) : Prop :=
    forall n t, dkg_lookup (dkg_tbl d) (i64_of_u64 (m_eon m)) = Some (DkgResult n t) ->
      1 <= t /\ rows_below n (insert_share_rows d m).

  (* the message gets as far as the aggregation loop *)
  Definition reaches_aggregation (d : db V R) (m : msg R) (n t : N) : Prop :=
    (Z.of_N (m_eon m) >? max_int64)%Z = false /\
    forallb (fun s => exists_key (key_tbl d) (i64_of_u64 (m_eon m)) (fst s)) (m_shares m) = false /\
    dkg_lookup (dkg_tbl d) (i64_of_u64 (m_eon m)) = Some (DkgResult n t).

  Theorem handler_any_row_order (o1 o2 : oracle) d m :
    (forall n t, dkg_lookup (dkg_tbl d) (i64_of_u64 (m_eon m)) = Some (DkgResult n t) -> subset_independent n t) ->
    perm_oracle o1 -> perm_oracle o2 -> stored_shares_wf d m ->
    handle_message o1 d m = handle_message o2 d m /\
    forall n t, reaches_aggregation d m n t ->
      let tbl := insert_share_rows d m in
      let eon := i64_of_u64 (m_eon m) in
      ((forall x, In x (map fst (m_shares m)) -> has_valid_from verify x (table_shares tbl eon x) t) ->
         exists ks, snd (handle_message o1 d m) = HKeys ks /\
                    map fst ks = map fst (m_shares m) /\
                    Forall (fun xk => exists A, good_shares verify n t (fst xk) A /\ snd xk = combine A) ks) /\
      ((exists x, In x (map fst (m_shares m)) /\ ~ has_valid_from verify x (table_shares tbl eon x) t) ->
         snd (handle_message o1 d m) = HNone).
  Proof.
    intros Hsub' Ho1 Ho2 Hwf. split.
    - unfold handle_message.
      destruct (Z.of_N (m_eon m) >? max_int64)%Z; [reflexivity|].
      destruct (forallb _ _); [reflexivity|].
      destruct (dkg_lookup (dkg_tbl d) (i64_of_u64 (m_eon m))) as [[| |n t]|] eqn:Ed; try reflexivity.
      destruct (Hwf n t Ed) as [Ht Hb]. pose proof (Hsub' n t eq_refl) as Hsub.
      rewrite (aggregate_loop_spec o1 n t _ _ Ht Ho1 Hb Hsub).
      rewrite (aggregate_loop_spec o2 n t _ _ Ht Ho2 Hb Hsub). reflexivity.
    - intros n t [He [Hk Hd]] tbl eon.
      destruct (Hwf n t Hd) as [Ht Hb]. pose proof (Hsub' n t Hd) as Hsub.
      unfold handle_message. rewrite He, Hk, Hd.
      rewrite (aggregate_loop_spec o1 n t _ _ Ht Ho1 Hb Hsub). fold tbl. fold eon. simpl app.
      split.
      + intros Hall.
        assert (forallb (fun s : bytes * R => enough t tbl eon (fst s)) (m_shares m) = true) as ->.
        { apply forallb_forall. intros s Hs. unfold enough. apply N.leb_le.
          apply has_valid_from_dv. apply Hall. apply in_map. exact Hs. }
        eexists. split; [reflexivity|]. split.
        * rewrite map_map. reflexivity.
        * apply Forall_forall. intros [x k] Hin. apply in_map_iff in Hin.
          destruct Hin as [s [Heq Hs]]. injection Heq as <- <-. simpl.
          exists (firstn (N.to_nat t) (dv verify (fst s) (table_shares tbl eon (fst s)))).
          split; [|reflexivity].
          apply dv_good.
          -- apply shares_of_below. apply select_shares_below. exact Hb.
          -- apply has_valid_from_dv. apply Hall. apply in_map. exact Hs.
      + intros [x [Hin Hno]].
        assert (forallb (fun s : bytes * R => enough t tbl eon (fst s)) (m_shares m) = false) as ->; [|reflexivity].
        apply not_true_is_false. intros Hc. rewrite forallb_forall in Hc.
        apply in_map_iff in Hin. destruct Hin as [s [<- Hs]].
        apply Hno. apply has_valid_from_dv. apply N.leb_le. apply (Hc s Hs).
  Qed.
End HandlerProofs.

Arguments shares_of {V R}.
Arguments perm_oracle {R}.
Arguments rows_below {R}.
Arguments subset_independent {V}.
Arguments table_shares {V R}.
Arguments stored_shares_wf {V R}.
Arguments reaches_aggregation {V R}.
