(* Proofs about Model/EonPK.v (C20). *)
From Coq Require Import String List NArith ZArith Bool Lia Permutation.
From Verif Require Import Lib.Bytes Model.EonPK.
Import ListNotations.
Open Scope list_scope.
Open Scope Z_scope.

(* ---------------------------------------------------------------------------------------- *)
(* tables: lookups, growth *)

Lemma find_app_some {A} (f : A -> bool) l l' x : find f l = Some x -> find f (l ++ l') = Some x.
Proof.
  induction l as [|a l IH]; simpl; [discriminate|].
  destruct (f a); auto.
Qed.

Lemma find_eon_key es e er : find_eon es e = Some er -> er_eon er = e.
Proof. intros H. apply find_some in H. destruct H as [_ H]. apply Z.eqb_eq in H. exact H. Qed.

Lemma find_cfg_key cs k cr : find_cfg cs k = Some cr -> cr_kci cr = k.
Proof. intros H. apply find_some in H. destruct H as [_ H]. apply Z.eqb_eq in H. exact H. Qed.

(* the tables only grow, and a key that is present keeps its row *)
Definition ext (d d' : db) : Prop :=
  (forall e er, find_eon (eons d) e = Some er -> find_eon (eons d') e = Some er) /\
  (forall k cr, find_cfg (cfgs d) k = Some cr -> find_cfg (cfgs d') k = Some cr).

Lemma ext_refl d : ext d d.
Proof. split; auto. Qed.

Lemma db_after_ext d o : ext d (db_after d o).
Proof.
  destruct o as [kci ks|e act kci|key e|enum answers|]; simpl; [| | | |apply ext_refl].
  - unfold insert_cfg. destruct (find_cfg (cfgs d) kci); simpl; [apply ext_refl|].
    split; simpl; auto. intros k cr H. apply find_app_some. exact H.
  - unfold insert_eon. destruct (find_eon (eons d) e); simpl; [apply ext_refl|].
    split; simpl; auto. intros k cr H. apply find_app_some. exact H.
  - unfold insert_outgoing. destruct (pending_eon (outgoing d) e); simpl; [apply ext_refl|].
    split; simpl; auto.
  - split; simpl; auto.
Qed.

Lemma step_gen_db loopf h d o : fst (step_gen loopf h d o) = db_after d o.
Proof.
  destruct o as [kci ks|e act kci|key e|enum answers|]; simpl.
  - destruct (insert_cfg d kci ks); reflexivity.
  - destruct (insert_eon d e act kci); reflexivity.
  - destruct (insert_outgoing d key e); reflexivity.
  - destruct (loopf h (flat_map (join_row (eons d) (cfgs d)) enum) answers); reflexivity.
  - reflexivity.
Qed.

Lemma good_row_ext h d d' o :
  ext d d' -> good_row h (eons d) (cfgs d) o -> good_row h (eons d') (cfgs d') o.
Proof.
  intros [He Hc] (er & cr & H1 & H2 & H3).
  exists er, cr. split; [apply He; exact H1|]. split; [apply Hc; exact H2|]. exact H3.
Qed.

Lemma stamp_good h es cs o :
  good_row h es cs o ->
  exists er cr, find_eon es (or_eon o) = Some er /\ find_cfg cs (er_kci er) = Some cr /\
                stamp h es cs o = [mkPK (or_key o) (er_act er) (er_kci er) (or_eon o)].
Proof.
  intros (er & cr & H1 & H2 & H3 & _). exists er, cr. split; [exact H1|]. split; [exact H2|].
  unfold stamp. rewrite H1, H2, H3. reflexivity.
Qed.

Lemma stamp_ext h d d' o :
  ext d d' -> good_row h (eons d) (cfgs d) o ->
  stamp h (eons d') (cfgs d') o = stamp h (eons d) (cfgs d) o.
Proof.
  intros E G. pose proof (good_row_ext _ _ _ _ E G) as G'.
  destruct (stamp_good _ _ _ _ G) as (er & cr & H1 & H2 & S).
  destruct E as [He Hc]. unfold stamp at 1.
  rewrite (He _ _ H1), (Hc _ _ H2).
  destruct G as (er0 & cr0 & G1 & G2 & G3 & _).
  rewrite H1 in G1. inversion G1; subst er0. rewrite H2 in G2. inversion G2; subst cr0.
  rewrite G3. symmetry. exact S.
Qed.

Lemma stamp_all_ext h d d' l :
  ext d d' -> Forall (good_row h (eons d) (cfgs d)) l ->
  stamp_all h (eons d') (cfgs d') l = stamp_all h (eons d) (cfgs d) l.
Proof.
  intros E F. unfold stamp_all. induction F as [|o l G F IH]; simpl; [reflexivity|].
  rewrite IH, (stamp_ext _ _ _ _ E G). reflexivity.
Qed.

Lemma Forall_good_ext h d d' l :
  ext d d' -> Forall (good_row h (eons d) (cfgs d)) l -> Forall (good_row h (eons d') (cfgs d')) l.
Proof. intros E F. eapply Forall_impl; [|exact F]. intros o. apply good_row_ext. exact E. Qed.

Lemma stamp_all_app h es cs a b :
  stamp_all h es cs (a ++ b) = stamp_all h es cs a ++ stamp_all h es cs b.
Proof. apply flat_map_app. Qed.

(* the history's own account of eons and sets is the content of the tables *)
Lemma tables_run loopf h ops : forall d d0,
  eons d = eons d0 -> cfgs d = cfgs d0 ->
  eons (fst (run_gen loopf h d ops)) = eons (fold_left learn ops d0) /\
  cfgs (fst (run_gen loopf h d ops)) = cfgs (fold_left learn ops d0).
Proof.
  induction ops as [|o r IH]; intros d d0 He Hc; simpl; [auto|].
  destruct (step_gen loopf h d o) as [d1 out] eqn:S.
  destruct (run_gen loopf h d1 r) as [d2 outs] eqn:R. simpl.
  assert (d1 = db_after d o) as -> by (rewrite <- (step_gen_db loopf h d o), S; reflexivity).
  specialize (IH (db_after d o) (learn d0 o)). rewrite R in IH. simpl in IH. apply IH.
  - destruct o as [kci ks|e act kci|key e|enum answers|]; simpl; auto.
    + unfold insert_cfg. rewrite Hc. destruct (find_cfg (cfgs d0) kci); simpl; auto.
    + unfold insert_eon. rewrite He. destruct (find_eon (eons d0) e); simpl; congruence.
    + unfold insert_outgoing. destruct (pending_eon (outgoing d) e); simpl; auto.
  - destruct o as [kci ks|e act kci|key e|enum answers|]; simpl; auto.
    + unfold insert_cfg. rewrite Hc. destruct (find_cfg (cfgs d0) kci); simpl; congruence.
    + unfold insert_eon. rewrite He. destruct (find_eon (eons d0) e); simpl; auto.
    + unfold insert_outgoing. destruct (pending_eon (outgoing d) e); simpl; auto.
Qed.

(* ---------------------------------------------------------------------------------------- *)
(* a good row is returned by the query and passes the membership test and the casts *)

Lemma good_prepare h es cs o :
  good_row h es cs o ->
  exists j pk, join_row es cs o = [j] /\ prepare h j = inl pk /\ stamp h es cs o = [pk] /\
               pk_eon pk = or_eon o.
Proof.
  intros (er & cr & H1 & H2 & H3 & G1 & G2 & G3).
  exists (mkJ (or_key o) (or_eon o) (er_act er) (cr_keypers cr) (cr_kci cr)).
  exists (mkPK (or_key o) (er_act er) (er_kci er) (or_eon o)).
  pose proof (find_cfg_key _ _ _ H2) as K.
  split; [unfold join_row; rewrite H1, H2; reflexivity|].
  split.
  - unfold prepare, safe_cast. simpl. rewrite H3. simpl. rewrite K.
    destruct (er_act er <? 0) eqn:E1; [apply Z.ltb_lt in E1; lia|].
    destruct (er_kci er <? 0) eqn:E2; [apply Z.ltb_lt in E2; lia|].
    destruct (or_eon o <? 0) eqn:E3; [apply Z.ltb_lt in E3; lia|]. reflexivity.
  - split; [|reflexivity]. unfold stamp. rewrite H1, H2, H3. reflexivity.
Qed.

Lemma next_answer_true answers :
  forallb (fun a => a) answers = true ->
  exists ans', next_answer answers = (true, ans') /\ forallb (fun a => a) ans' = true.
Proof.
  destruct answers as [|a r]; simpl; intros H.
  - exists []. auto.
  - apply andb_prop in H. destruct H as [-> H]. exists r. auto.
Qed.

Lemma handle_rows_cons h r rest answers :
  handle_rows h (r :: rest) answers =
  let '(cs, ans', e) := handle_row h r answers in
  match e with
  | ENone => let (cs2, e2) := handle_rows h rest ans' in (cs ++ cs2, e2)
  | _ => (cs, e)
  end.
Proof. reflexivity. Qed.

Lemma handle_row_accept h j pk answers :
  prepare h j = inl pk -> forallb (fun a => a) answers = true ->
  exists ans', handle_row h j answers = (calls_ok h pk, ans', ENone) /\
               forallb (fun a => a) ans' = true.
Proof.
  intros P A. unfold handle_row, calls_ok. rewrite P.
  destruct (h_bcast h); destruct (h_cb h).
  - destruct (next_answer_true _ A) as (a1 & -> & A1).
    destruct (next_answer_true _ A1) as (a2 & -> & A2). exists a2. auto.
  - destruct (next_answer_true _ A) as (a1 & -> & A1). exists a1. auto.
  - destruct (next_answer_true _ A) as (a1 & -> & A1). exists a1. auto.
  - exists answers. auto.
Qed.

Lemma handle_rows_accept h es cs enum : forall answers,
  Forall (good_row h es cs) enum -> forallb (fun a => a) answers = true ->
  handle_rows h (flat_map (join_row es cs) enum) answers =
  (flat_map (calls_ok h) (stamp_all h es cs enum), ENone).
Proof.
  induction enum as [|o r IH]; intros answers F A; [reflexivity|].
  inversion F as [|? ? G F']; subst.
  destruct (good_prepare _ _ _ _ G) as (j & pk & J & P & S & _).
  cbn [flat_map]. rewrite J. cbn [app]. rewrite handle_rows_cons.
  destruct (handle_row_accept _ _ _ _ P A) as (ans' & -> & A').
  rewrite (IH ans' F' A'). unfold stamp_all. cbn [flat_map]. rewrite S. reflexivity.
Qed.

Lemma accepted_by_app m a b : accepted_by m (a ++ b) = accepted_by m a ++ accepted_by m b.
Proof. apply flat_map_app. Qed.

Lemma accepted_calls_ok_bcast h pks :
  accepted_by MBroadcast (flat_map (calls_ok h) pks) = if h_bcast h then pks else [].
Proof.
  induction pks as [|pk r IH]; simpl; [destruct (h_bcast h); reflexivity|].
  rewrite accepted_by_app, IH. unfold calls_ok.
  destruct (h_bcast h); destruct (h_cb h); reflexivity.
Qed.

Lemma accepted_calls_ok_cb h pks :
  accepted_by MCallback (flat_map (calls_ok h) pks) = if h_cb h then pks else [].
Proof.
  induction pks as [|pk r IH]; simpl; [destruct (h_cb h); reflexivity|].
  rewrite accepted_by_app, IH. unfold calls_ok.
  destruct (h_bcast h); destruct (h_cb h); reflexivity.
Qed.

Definition call_inst_ok (h : hcfg) (ca : call * bool) : Prop :=
  match fst ca with CBroadcast i _ => i = h_instance h | CCallback _ => True end.

Lemma calls_ok_inst h pks : Forall (call_inst_ok h) (flat_map (calls_ok h) pks).
Proof.
  induction pks as [|pk r IH]; simpl; [constructor|].
  apply Forall_app. split; [|exact IH]. unfold calls_ok.
  destruct (h_bcast h); destruct (h_cb h); simpl; repeat constructor.
Qed.

(* ---------------------------------------------------------------------------------------- *)
(* the invariant of accepting, well-formed histories *)

Record inv (h : hcfg) (d : db) (G : list out_row) (outs : list outcome) : Prop := mkInv {
  inv_gen : Forall (good_row h (eons d) (cfgs d)) G;
  inv_pend : Forall (good_row h (eons d) (cfgs d)) (outgoing d);
  inv_b : h_bcast h = true ->
          Permutation (handed_to MBroadcast outs ++ pending_pks h d) (stamp_all h (eons d) (cfgs d) G);
  inv_c : h_cb h = true ->
          Permutation (handed_to MCallback outs ++ pending_pks h d) (stamp_all h (eons d) (cfgs d) G);
  inv_err : Forall (fun e => e = ENone) (tick_errors outs);
  inv_inst : Forall (call_inst_ok h) (calls_of outs)
}.

Lemma handed_to_snoc m outs out :
  handed_to m (outs ++ [out]) =
  handed_to m outs ++ accepted_by m (match out with OTick cs _ => cs | _ => [] end).
Proof.
  unfold handed_to, calls_of. rewrite flat_map_app, accepted_by_app. simpl.
  rewrite app_nil_r. reflexivity.
Qed.

Lemma tick_errors_snoc outs out :
  tick_errors (outs ++ [out]) = tick_errors outs ++ (match out with OTick _ e => [e] | _ => [] end).
Proof. unfold tick_errors. rewrite flat_map_app. simpl. rewrite app_nil_r. reflexivity. Qed.

Lemma calls_of_snoc outs out :
  calls_of (outs ++ [out]) = calls_of outs ++ (match out with OTick cs _ => cs | _ => [] end).
Proof. unfold calls_of. rewrite flat_map_app. simpl. rewrite app_nil_r. reflexivity. Qed.

(* an operation that hands nothing over and leaves the pending rows alone *)
Lemma inv_quiet h d d' G outs out :
  inv h d G outs -> ext d d' -> outgoing d' = outgoing d ->
  (match out with OTick _ _ => False | _ => True end) ->
  inv h d' G (outs ++ [out]).
Proof.
  intros I E O Q. destruct I as [Ig Ip Ib Ic Ie Ii].
  assert (pending_pks h d' = pending_pks h d) as PP.
  { unfold pending_pks. rewrite O. apply stamp_all_ext; assumption. }
  constructor.
  - eapply Forall_good_ext; eassumption.
  - rewrite O. eapply Forall_good_ext; eassumption.
  - intros B. rewrite handed_to_snoc, PP, (stamp_all_ext _ _ _ _ E Ig).
    destruct out; try contradiction; simpl; rewrite app_nil_r; auto.
  - intros B. rewrite handed_to_snoc, PP, (stamp_all_ext _ _ _ _ E Ig).
    destruct out; try contradiction; simpl; rewrite app_nil_r; auto.
  - rewrite tick_errors_snoc. destruct out; try contradiction; rewrite app_nil_r; exact Ie.
  - rewrite calls_of_snoc. destruct out; try contradiction; rewrite app_nil_r; exact Ii.
Qed.

Lemma inv_step h d G outs o :
  inv h d G outs -> wf_op h d o ->
  (forall enum answers, o = OpTick enum answers -> forallb (fun a => a) answers = true) ->
  inv h (db_after d o) (G ++ generated [o]) (outs ++ [snd (step h d o)]).
Proof.
  intros I W A.
  destruct o as [kci ks|e act kci|key e|enum answers|].
  - (* a keyper set becomes known *)
    simpl generated. rewrite app_nil_r. apply inv_quiet with (d := d); auto.
    + apply db_after_ext.
    + simpl. unfold insert_cfg. destruct (find_cfg (cfgs d) kci); reflexivity.
    + unfold step. simpl. destruct (insert_cfg d kci ks). exact Logic.I.
  - (* an eon starts *)
    simpl generated. rewrite app_nil_r. apply inv_quiet with (d := d); auto.
    + apply db_after_ext.
    + simpl. unfold insert_eon. destruct (find_eon (eons d) e); reflexivity.
    + unfold step. simpl. destruct (insert_eon d e act kci). exact Logic.I.
  - (* a key generation is recorded *)
    destruct W as [Gd Pn]. destruct I as [Ig Ip Ib Ic Ie Ii].
    unfold step. simpl. unfold insert_outgoing. rewrite Pn. simpl.
    assert (pending_pks h (mkDb (outgoing d ++ [mkOut key e]) (eons d) (cfgs d))
            = pending_pks h d ++ stamp h (eons d) (cfgs d) (mkOut key e)) as PP.
    { unfold pending_pks. simpl. rewrite stamp_all_app. unfold stamp_all at 2. simpl.
      rewrite app_nil_r. reflexivity. }
    assert (stamp_all h (eons d) (cfgs d) (G ++ [mkOut key e])
            = stamp_all h (eons d) (cfgs d) G ++ stamp h (eons d) (cfgs d) (mkOut key e)) as SG.
    { rewrite stamp_all_app. unfold stamp_all at 2. simpl. rewrite app_nil_r. reflexivity. }
    constructor; simpl.
    + apply Forall_app. split; [exact Ig|]. constructor; [exact Gd|constructor].
    + apply Forall_app. split; [exact Ip|]. constructor; [exact Gd|constructor].
    + intros B. rewrite handed_to_snoc, PP, SG. simpl. rewrite app_nil_r, app_assoc.
      apply Permutation_app_tail. auto.
    + intros B. rewrite handed_to_snoc, PP, SG. simpl. rewrite app_nil_r, app_assoc.
      apply Permutation_app_tail. auto.
    + rewrite tick_errors_snoc. rewrite app_nil_r. exact Ie.
    + rewrite calls_of_snoc. rewrite app_nil_r. exact Ii.
  - (* a polling tick *)
    simpl in W. destruct I as [Ig Ip Ib Ic Ie Ii].
    assert (Forall (good_row h (eons d) (cfgs d)) enum) as Fe.
    { apply Forall_forall. intros x Hx. rewrite Forall_forall in Ip. apply Ip.
      eapply Permutation_in; eassumption. }
    assert (Permutation (stamp_all h (eons d) (cfgs d) enum) (pending_pks h d)) as PS.
    { unfold pending_pks, stamp_all. apply Permutation_flat_map. exact W. }
    unfold step. simpl.
    rewrite (handle_rows_accept h (eons d) (cfgs d) enum answers Fe (A _ _ eq_refl)).
    simpl generated. rewrite app_nil_r.
    constructor; simpl.
    + exact Ig.
    + constructor.
    + intros B. rewrite handed_to_snoc. simpl. rewrite accepted_calls_ok_bcast, B.
      unfold pending_pks at 1. simpl. unfold stamp_all at 2. simpl. rewrite app_nil_r.
      eapply Permutation_trans; [|apply Ib; exact B].
      apply Permutation_app_head. exact PS.
    + intros C. rewrite handed_to_snoc. simpl. rewrite accepted_calls_ok_cb, C.
      unfold pending_pks at 1. simpl. unfold stamp_all at 2. simpl. rewrite app_nil_r.
      eapply Permutation_trans; [|apply Ic; exact C].
      apply Permutation_app_head. exact PS.
    + rewrite tick_errors_snoc. apply Forall_app. split; [exact Ie|]. repeat constructor.
    + rewrite calls_of_snoc. apply Forall_app. split; [exact Ii|]. apply calls_ok_inst.
  - (* the query fails *)
    simpl generated. rewrite app_nil_r.
    apply inv_quiet with (d := d); [exact I|apply ext_refl|reflexivity|exact Logic.I].
Qed.

Lemma run_gen_cons loopf h d o r :
  run_gen loopf h d (o :: r) =
  (fst (run_gen loopf h (db_after d o) r),
   snd (step_gen loopf h d o) :: snd (run_gen loopf h (db_after d o) r)).
Proof.
  simpl. rewrite <- (step_gen_db loopf h d o).
  destruct (step_gen loopf h d o) as [d1 out]. simpl.
  destruct (run_gen loopf h d1 r). reflexivity.
Qed.

Lemma run_inv h ops : forall d G outs,
  inv h d G outs -> wf_from h d ops -> accepting ops ->
  inv h (fst (run h d ops)) (G ++ generated ops) (outs ++ snd (run h d ops)).
Proof.
  induction ops as [|o r IH]; intros d G outs I W A.
  - simpl. rewrite !app_nil_r. exact I.
  - destruct W as [Wo Wr]. unfold run. rewrite run_gen_cons. simpl fst. simpl snd.
    assert (generated (o :: r) = generated [o] ++ generated r) as ->.
    { unfold generated. simpl. rewrite app_nil_r. reflexivity. }
    rewrite app_assoc.
    change (outs ++ snd (step_gen handle_rows h d o) :: snd (run_gen handle_rows h (db_after d o) r))
      with (outs ++ [snd (step h d o)] ++ snd (run h (db_after d o) r)).
    rewrite app_assoc. apply IH.
    + apply inv_step; auto. intros enum answers ->. apply (A enum answers). left. reflexivity.
    + exact Wr.
    + intros enum answers Hin. apply (A enum answers). right. exact Hin.
Qed.

Lemma inv_empty h : inv h empty_db [] [].
Proof. constructor; simpl; try constructor; intros; apply Permutation_refl. Qed.

Lemma run_gen_snoc_db loopf h ops o : forall d,
  fst (run_gen loopf h d (ops ++ [o])) = db_after (fst (run_gen loopf h d ops)) o.
Proof.
  induction ops as [|a r IH]; intros d.
  - simpl app. rewrite run_gen_cons. reflexivity.
  - simpl app. rewrite !run_gen_cons. simpl. apply IH.
Qed.

(* C20_each_exactly_once *)
Theorem each_exactly_once : forall h ops,
  wf_from h empty_db ops -> accepting ops ->
  let d := fst (run h empty_db ops) in
  let outs := snd (run h empty_db ops) in
  Forall (fun e => e = ENone) (tick_errors outs) /\
  (h_bcast h = true -> Permutation (handed_to MBroadcast outs ++ pending_pks h d) (expected h ops)) /\
  (h_cb h = true -> Permutation (handed_to MCallback outs ++ pending_pks h d) (expected h ops)) /\
  (forall ops' enum answers, ops = ops' ++ [OpTick enum answers] -> pending_pks h d = []) /\
  (forall i pk a, In (CBroadcast i pk, a) (calls_of outs) -> i = h_instance h).
Proof.
  intros h ops W A d outs.
  pose proof (run_inv h ops empty_db [] [] (inv_empty h) W A) as I. simpl in I.
  fold d in I. fold outs in I. destruct I as [Ig Ip Ib Ic Ie Ii].
  assert (expected h ops = stamp_all h (eons d) (cfgs d) (generated ops)) as EX.
  { destruct (tables_run handle_rows h ops empty_db empty_db eq_refl eq_refl) as [E1 E2].
    unfold expected, tables_of, d, run. rewrite E1, E2. reflexivity. }
  rewrite EX. repeat split; auto.
  - intros ops' enum answers ->. unfold d, run. rewrite run_gen_snoc_db. reflexivity.
  - intros i pk a Hin. rewrite Forall_forall in Ii. apply (Ii _ Hin).
Qed.

(* ---------------------------------------------------------------------------------------- *)
(* one tick against mechanisms that may refuse *)

Definition err_of_call (c : call) : err :=
  match c with CBroadcast _ _ => EBroadcast | CCallback _ => ECallback end.

(* what a tick did with the keys [pks] it polled (in the order of the poll): either every
   configured mechanism accepted every key, or some call for a key [r] was refused - then the
   keys before [r] went through, [r] was refused, the error of that call is returned, and no
   key behind [r] was handed to anything *)
Definition tick_shape (h : hcfg) (pks : list pubkey) (calls : list (call * bool)) (e : err) : Prop :=
  (e = ENone /\ calls = flat_map (calls_ok h) pks) \/
  (exists done r rest pre c,
      pks = done ++ r :: rest /\
      calls = flat_map (calls_ok h) done ++ pre ++ [(c, false)] /\
      call_pk c = r /\
      Forall (fun ca => call_pk (fst ca) = r /\ snd ca = true) pre /\
      e = err_of_call c).

Lemma handle_row_good h j pk answers :
  prepare h j = inl pk ->
  exists ans',
    handle_row h j answers = (calls_ok h pk, ans', ENone) \/
    (exists pre c, handle_row h j answers = (pre ++ [(c, false)], ans', err_of_call c) /\
                   call_pk c = pk /\
                   Forall (fun ca => call_pk (fst ca) = pk /\ snd ca = true) pre).
Proof.
  intros P. unfold handle_row, calls_ok. rewrite P.
  destruct (h_bcast h); destruct (h_cb h).
  - destruct (next_answer answers) as [a1 ans1].
    destruct a1.
    + destruct (next_answer ans1) as [a2 ans2]. exists ans2. destruct a2.
      * left. reflexivity.
      * right. exists [(CBroadcast (h_instance h) pk, true)], (CCallback pk).
        split; [reflexivity|]. split; [reflexivity|]. repeat constructor.
    + exists ans1. right. exists [], (CBroadcast (h_instance h) pk).
      split; [reflexivity|]. split; [reflexivity|]. constructor.
  - destruct (next_answer answers) as [a1 ans1]. exists ans1. destruct a1.
    + left. reflexivity.
    + right. exists [], (CBroadcast (h_instance h) pk).
      split; [reflexivity|]. split; [reflexivity|]. constructor.
  - destruct (next_answer answers) as [a1 ans1]. exists ans1. destruct a1.
    + left. reflexivity.
    + right. exists [], (CCallback pk).
      split; [reflexivity|]. split; [reflexivity|]. constructor.
  - exists answers. left. reflexivity.
Qed.

Lemma handle_rows_good h es cs enum : forall answers,
  Forall (good_row h es cs) enum ->
  tick_shape h (stamp_all h es cs enum)
             (fst (handle_rows h (flat_map (join_row es cs) enum) answers))
             (snd (handle_rows h (flat_map (join_row es cs) enum) answers)).
Proof.
  induction enum as [|o r IH]; intros answers F.
  - left. split; reflexivity.
  - inversion F as [|? ? G F']; subst.
    destruct (good_prepare _ _ _ _ G) as (j & pk & J & P & S & _).
    assert (stamp_all h es cs (o :: r) = pk :: stamp_all h es cs r) as SA.
    { unfold stamp_all. cbn [flat_map]. rewrite S. reflexivity. }
    rewrite SA. cbn [flat_map]. rewrite J. cbn [app]. rewrite handle_rows_cons.
    destruct (handle_row_good h j pk answers P) as (ans' & [-> | (pre & c & -> & Cp & Fp)]).
    + specialize (IH ans' F').
      destruct (handle_rows h (flat_map (join_row es cs) r) ans') as [cs2 e2]. simpl in *.
      destruct IH as [[-> ->] | (done & x & rest & pre & c & E1 & E2 & E3 & E4 & E5)].
      * left. split; reflexivity.
      * right. exists (pk :: done), x, rest, pre, c. rewrite E1, E2. simpl.
        rewrite <- app_assoc. auto.
    + right. exists [], pk, (stamp_all h es cs r), pre, c.
      destruct c; simpl; auto.
Qed.

Lemma stamp_all_eons h es cs l :
  Forall (good_row h es cs) l -> map pk_eon (stamp_all h es cs l) = map or_eon l.
Proof.
  intros F. induction F as [|o l G F IH]; [reflexivity|].
  destruct (good_prepare _ _ _ _ G) as (j & pk & _ & _ & S & E).
  unfold stamp_all in *. cbn [flat_map]. rewrite S. simpl. rewrite IH, E. reflexivity.
Qed.

Lemma calls_ok_pks h done y :
  In y (map (fun ca : call * bool => call_pk (fst ca)) (flat_map (calls_ok h) done)) -> In y done.
Proof.
  induction done as [|pk r IH]; simpl; [auto|].
  rewrite map_app, in_app_iff. intros [H|H]; [left|right; auto].
  unfold calls_ok in H. destruct (h_bcast h); destruct (h_cb h); simpl in H; intuition.
Qed.

Lemma nodup_app_disjoint {A} (a b : list A) x : NoDup (a ++ b) -> In x a -> In x b -> False.
Proof.
  induction a as [|y a IH]; simpl; intros N Ha Hb; [contradiction|].
  inversion N as [|? ? Ny Na]; subst. destruct Ha as [->|Ha].
  - apply Ny. apply in_or_app. right. exact Hb.
  - apply IH; assumption.
Qed.

(* C20_failure_is_not_silent_partial *)
Theorem failure_is_not_silent : forall h d enum answers,
  wf_db h d -> Permutation enum (outgoing d) ->
  exists calls e,
    step h d (OpTick enum answers) = (mkDb [] (eons d) (cfgs d), OTick calls e) /\
    let pks := stamp_all h (eons d) (cfgs d) enum in
    Permutation pks (pending_pks h d) /\
    ((e = ENone /\ calls = flat_map (calls_ok h) pks) \/
     (exists done r rest pre c,
         pks = done ++ r :: rest /\
         calls = flat_map (calls_ok h) done ++ pre ++ [(c, false)] /\
         call_pk c = r /\
         Forall (fun ca => call_pk (fst ca) = r /\ snd ca = true) pre /\
         e = err_of_call c /\ e <> ENone /\
         (forall x, In x rest -> ~ In x (map (fun ca => call_pk (fst ca)) calls)))).
Proof.
  intros h d enum answers [Fg Nd] P.
  assert (Forall (good_row h (eons d) (cfgs d)) enum) as Fe.
  { apply Forall_forall. intros x Hx. rewrite Forall_forall in Fg. apply Fg.
    eapply Permutation_in; eassumption. }
  pose proof (handle_rows_good h (eons d) (cfgs d) enum answers Fe) as T.
  unfold step. simpl.
  destruct (handle_rows h (flat_map (join_row (eons d) (cfgs d)) enum) answers) as [calls e].
  simpl in T. exists calls, e. split; [reflexivity|]. split.
  { unfold pending_pks, stamp_all. apply Permutation_flat_map. exact P. }
  destruct T as [T | (done & r & rest & pre & c & E1 & E2 & E3 & E4 & E5)]; [left; exact T|].
  right. exists done, r, rest, pre, c. repeat split; auto.
  - rewrite E5. destruct c; discriminate.
  - (* the keys behind the refused one were not handed to anything *)
    intros x Hx Hin.
    assert (NoDup (done ++ r :: rest)) as ND.
    { rewrite <- E1. apply (NoDup_map_inv pk_eon). rewrite (stamp_all_eons _ _ _ _ Fe).
      eapply Permutation_NoDup; [|exact Nd]. apply Permutation_map. apply Permutation_sym. exact P. }
    pose proof (NoDup_remove_2 _ _ _ ND) as NR.
    rewrite E2, !map_app, !in_app_iff in Hin. destruct Hin as [Hin | [Hin | Hin]].
    + apply calls_ok_pks in Hin.
      apply (nodup_app_disjoint _ _ _ ND Hin). right. exact Hx.
    + rewrite Forall_forall in E4. apply in_map_iff in Hin. destruct Hin as (ca & Eq & Hca).
      destruct (E4 _ Hca) as [Er _]. rewrite Er in Eq. subst x.
      apply NR. apply in_or_app. right. exact Hx.
    + simpl in Hin. destruct Hin as [Eq|[]]. rewrite E3 in Eq. subst x.
      apply NR. apply in_or_app. right. exact Hx.
Qed.

(* ---------------------------------------------------------------------------------------- *)
(* the loop of the pinned tree *)

Lemma legacy_agrees_small h rows answers :
  (length rows <= 1)%nat -> h_bcast h && h_cb h = false ->
  legacy_handle_rows h rows answers = handle_rows h rows answers.
Proof.
  intros L M. destruct rows as [|r [|r2 rest]]; [reflexivity| |simpl in L; lia].
  simpl. unfold handle_row. destruct (prepare h r) as [pk|e]; [|destruct e; reflexivity].
  destruct (h_bcast h); destruct (h_cb h); try discriminate.
  - destruct (next_answer answers) as [a ans]. destruct a; reflexivity.
  - destruct (next_answer answers) as [a ans]. destruct a; reflexivity.
  - reflexivity.
Qed.

Lemma join_length es cs enum : (length (flat_map (join_row es cs) enum) <= length enum)%nat.
Proof.
  induction enum as [|o r IH]; simpl; [lia|].
  rewrite app_length. unfold join_row at 1.
  destruct (find_eon es (or_eon o)) as [er|]; [|simpl; lia].
  destruct (find_cfg cs (er_kci er)); simpl; lia.
Qed.

(* at most one key is polled per tick *)
Definition small_ticks (ops : list op) : Prop :=
  forall enum answers, In (OpTick enum answers) ops -> (length enum <= 1)%nat.

Lemma legacy_run_small h ops : forall d,
  small_ticks ops -> h_bcast h && h_cb h = false ->
  legacy_run h d ops = run h d ops.
Proof.
  induction ops as [|o r IH]; intros d S M; [reflexivity|].
  unfold legacy_run, run in *. rewrite !run_gen_cons.
  rewrite IH; auto.
  - f_equal. f_equal. destruct o as [kci ks|e act kci|key e|enum answers|]; try reflexivity.
    simpl. rewrite legacy_agrees_small; auto.
    eapply Nat.le_trans; [apply join_length|]. apply (S enum answers). left. reflexivity.
  - intros enum answers Hin. apply (S enum answers). right. exact Hin.
Qed.

(* the pinned tree's loop is right as long as no two key generations finish within one
   polling interval and only one mechanism is configured *)
Theorem legacy_each_exactly_once_single : forall h ops,
  wf_from h empty_db ops -> accepting ops -> small_ticks ops -> h_bcast h && h_cb h = false ->
  let d := fst (legacy_run h empty_db ops) in
  let outs := snd (legacy_run h empty_db ops) in
  Forall (fun e => e = ENone) (tick_errors outs) /\
  (h_bcast h = true -> Permutation (handed_to MBroadcast outs ++ pending_pks h d) (expected h ops)) /\
  (h_cb h = true -> Permutation (handed_to MCallback outs ++ pending_pks h d) (expected h ops)) /\
  (forall ops' enum answers, ops = ops' ++ [OpTick enum answers] -> pending_pks h d = []).
Proof.
  intros h ops W A S M. rewrite (legacy_run_small h ops empty_db S M).
  destruct (each_exactly_once h ops W A) as (H1 & H2 & H3 & H4 & _). auto.
Qed.

(* D13: two key generations finish before one tick *)
Definition good_rowb (h : hcfg) (es : list eon_row) (cs : list cfg_row) (o : out_row) : bool :=
  match find_eon es (or_eon o) with
  | Some er =>
      match find_cfg cs (er_kci er) with
      | Some cr => is_member (h_self h) (cr_keypers cr) && (0 <=? or_eon o) && (0 <=? er_act er)
                   && (0 <=? er_kci er)
      | None => false
      end
  | None => false
  end.

Lemma good_rowb_sound h es cs o : good_rowb h es cs o = true -> good_row h es cs o.
Proof.
  unfold good_rowb, good_row. destruct (find_eon es (or_eon o)) as [er|] eqn:E1; [|discriminate].
  destruct (find_cfg cs (er_kci er)) as [cr|] eqn:E2; [|discriminate].
  intros H. apply andb_prop in H. destruct H as [H H3]. apply andb_prop in H. destruct H as [H H2].
  apply andb_prop in H. destruct H as [H0 H1].
  apply Z.leb_le in H1, H2, H3.
  exists er, cr. split; [reflexivity|]. split; [exact E2|]. split; [exact H0|]. lia.
Qed.

Definition d13_h : hcfg := mkH (hx "aa"%string) 42 true false.
Definition d13_ops : list op :=
  [OpCfg 0 [hx "aa"%string; hx "bb"%string]; OpEon 1 100 0; OpEon 2 200 0;
   OpGen (hx "10"%string) 1; OpGen (hx "11"%string) 2;
   OpTick [mkOut (hx "10"%string) 1; mkOut (hx "11"%string) 2] []].

Lemma d13_wf : wf_from d13_h empty_db d13_ops.
Proof.
  cbn. repeat split; try apply Permutation_refl; apply good_rowb_sound; reflexivity.
Qed.

Lemma d13_accepting : accepting d13_ops.
Proof.
  intros enum answers Hin. simpl in Hin.
  repeat (destruct Hin as [Hin|Hin]; [try discriminate; inversion Hin; reflexivity|]). contradiction.
Qed.

(* C20_each_exactly_once_refuted *)
Theorem legacy_each_exactly_once_refuted :
  exists h ops,
    wf_from h empty_db ops /\ accepting ops /\ h_bcast h = true /\ h_cb h = false /\
    (exists ops' enum answers, ops = ops' ++ [OpTick enum answers]) /\
    tick_errors (snd (legacy_run h empty_db ops)) = [ENone] /\
    outgoing (fst (legacy_run h empty_db ops)) = [] /\
    ~ Permutation (handed_to MBroadcast (snd (legacy_run h empty_db ops))
                   ++ pending_pks h (fst (legacy_run h empty_db ops)))
                  (expected h ops).
Proof.
  exists d13_h, d13_ops. split; [exact d13_wf|]. split; [exact d13_accepting|].
  split; [reflexivity|]. split; [reflexivity|].
  split; [eexists; eexists; eexists; unfold d13_ops;
          change [OpCfg 0 [hx "aa"%string; hx "bb"%string]; OpEon 1 100 0; OpEon 2 200 0; OpGen (hx "10"%string) 1; OpGen (hx "11"%string) 2;
                  OpTick [mkOut (hx "10"%string) 1; mkOut (hx "11"%string) 2] []]
            with ([OpCfg 0 [hx "aa"%string; hx "bb"%string]; OpEon 1 100 0; OpEon 2 200 0; OpGen (hx "10"%string) 1; OpGen (hx "11"%string) 2]
                  ++ [OpTick [mkOut (hx "10"%string) 1; mkOut (hx "11"%string) 2] []]); reflexivity|].
  split; [vm_compute; reflexivity|]. split; [vm_compute; reflexivity|].
  intros P. apply Permutation_length in P. vm_compute in P. discriminate.
Qed.

(* ---------------------------------------------------------------------------------------- *)
(* nothing else is ever handed over: any history, any rows, any answers *)

Lemma ext_trans a b c : ext a b -> ext b c -> ext a c.
Proof. intros [E1 C1] [E2 C2]. split; intros; auto. Qed.

Lemma run_ext loopf h ops : forall d, ext d (fst (run_gen loopf h d ops)).
Proof.
  induction ops as [|o r IH]; intros d; [apply ext_refl|].
  rewrite run_gen_cons. simpl. eapply ext_trans; [apply db_after_ext|apply IH].
Qed.

Lemma stamp_in_ext h d d' o pk :
  ext d d' -> In pk (stamp h (eons d) (cfgs d) o) -> In pk (stamp h (eons d') (cfgs d') o).
Proof.
  intros [He Hc]. unfold stamp.
  destruct (find_eon (eons d) (or_eon o)) as [er|] eqn:E1; [|contradiction].
  destruct (find_cfg (cfgs d) (er_kci er)) as [cr|] eqn:E2; [|contradiction].
  rewrite (He _ _ E1), (Hc _ _ E2). auto.
Qed.

Lemma handle_row_calls h j answers c a :
  In (c, a) (fst (fst (handle_row h j answers))) -> prepare h j = inl (call_pk c).
Proof.
  unfold handle_row. destruct (prepare h j) as [pk|e]; [|simpl; contradiction].
  destruct (h_bcast h); destruct (h_cb h).
  - destruct (next_answer answers) as [a1 ans1]. destruct a1.
    + destruct (next_answer ans1) as [a2 ans2]. simpl.
      intros [H|[H|[]]]; inversion H; reflexivity.
    + simpl. intros [H|[]]; inversion H; reflexivity.
  - destruct (next_answer answers) as [a1 ans1]. destruct a1; simpl; intros [H|[]]; inversion H; reflexivity.
  - destruct (next_answer answers) as [a1 ans1]. simpl. intros [H|[]]; inversion H; reflexivity.
  - simpl. contradiction.
Qed.

Lemma handle_rows_calls h rows : forall answers c a,
  In (c, a) (fst (handle_rows h rows answers)) ->
  exists j, In j rows /\ prepare h j = inl (call_pk c).
Proof.
  induction rows as [|j r IH]; intros answers c a Hin; [simpl in Hin; contradiction|].
  rewrite handle_rows_cons in Hin.
  pose proof (handle_row_calls h j answers c a) as HR.
  destruct (handle_row h j answers) as [[cs ans'] e]. simpl in HR.
  assert (In (c, a) cs \/ exists j', In j' r /\ prepare h j' = inl (call_pk c)) as [H|(j' & H1 & H2)].
  { destruct e; try (left; exact Hin).
    specialize (IH ans' c a). destruct (handle_rows h r ans') as [cs2 e2]. simpl in *.
    apply in_app_or in Hin. destruct Hin as [H|H]; [left; exact H|right; apply IH; exact H]. }
  - exists j. split; [left; reflexivity|apply HR; exact H].
  - exists j'. split; [right; exact H1|exact H2].
Qed.

Lemma prepare_join_stamp h es cs o j pk :
  In j (join_row es cs o) -> prepare h j = inl pk -> In pk (stamp h es cs o).
Proof.
  unfold join_row, stamp.
  destruct (find_eon es (or_eon o)) as [er|]; [|contradiction].
  destruct (find_cfg cs (er_kci er)) as [cr|] eqn:E2; [|contradiction].
  intros [<-|[]]. unfold prepare, safe_cast. simpl.
  destruct (is_member (h_self h) (cr_keypers cr)); simpl; [|discriminate].
  destruct (er_act er <? 0); [discriminate|].
  destruct (cr_kci cr <? 0); [discriminate|].
  destruct (or_eon o <? 0); [discriminate|].
  intros H. inversion H. rewrite (find_cfg_key _ _ _ E2). left. reflexivity.
Qed.

Lemma nothing_else_gen h ops : forall d G c a,
  incl (outgoing d) G -> ticks_enumerate d ops ->
  In (c, a) (calls_of (snd (run h d ops))) ->
  exists o, In o (G ++ generated ops) /\
            In (call_pk c) (stamp h (eons (fst (run h d ops))) (cfgs (fst (run h d ops))) o).
Proof.
  induction ops as [|o r IH]; intros d G c a I T Hin; [simpl in Hin; contradiction|].
  destruct T as [To Tr]. unfold run in *. rewrite run_gen_cons in *. simpl fst. simpl snd in Hin.
  assert (generated (o :: r) = generated [o] ++ generated r) as ->.
  { unfold generated. simpl. rewrite app_nil_r. reflexivity. }
  rewrite app_assoc.
  unfold calls_of in Hin. simpl in Hin. apply in_app_or in Hin. destruct Hin as [Hin|Hin].
  - (* handed over by this operation: it is a tick *)
    destruct o as [kci ks|e act kci|key e|enum answers|]; simpl in Hin;
      try (destruct (insert_cfg d kci ks)); try (destruct (insert_eon d e act kci));
      try (destruct (insert_outgoing d key e)); try contradiction.
    pose proof (handle_rows_calls h (flat_map (join_row (eons d) (cfgs d)) enum) answers c a) as HC.
    destruct (handle_rows h (flat_map (join_row (eons d) (cfgs d)) enum) answers) as [cs e].
    simpl in Hin, HC. destruct (HC Hin) as (j & Hj & Pj).
    apply in_flat_map in Hj. destruct Hj as (o & Ho & Hjo).
    exists o. split.
    + apply in_or_app. left. simpl. rewrite app_nil_r. apply I.
      eapply Permutation_in; eassumption.
    + apply stamp_in_ext with (d := d).
      * eapply ext_trans; [apply (db_after_ext d (OpTick enum answers))|apply run_ext].
      * eapply prepare_join_stamp; eassumption.
  - (* handed over later *)
    apply (IH (db_after d o) (G ++ generated [o]) c a); auto.
    destruct o as [kci ks|e act kci|key e|enum answers|]; simpl.
    + unfold insert_cfg. destruct (find_cfg (cfgs d) kci); simpl; rewrite app_nil_r; exact I.
    + unfold insert_eon. destruct (find_eon (eons d) e); simpl; rewrite app_nil_r; exact I.
    + unfold insert_outgoing. destruct (pending_eon (outgoing d) e); simpl.
      * apply incl_appl. exact I.
      * apply incl_app; [apply incl_appl; exact I|apply incl_appr; apply incl_refl].
    + intros x [].
    + rewrite app_nil_r. exact I.
Qed.

(* C20_nothing_else_is_handed *)
Theorem nothing_else_is_handed : forall h ops c a,
  ticks_enumerate empty_db ops ->
  In (c, a) (calls_of (snd (run h empty_db ops))) ->
  In (call_pk c) (expected h ops).
Proof.
  intros h ops c a T Hin.
  destruct (nothing_else_gen h ops empty_db [] c a (incl_refl _) T Hin) as (o & Ho & Hs).
  simpl in Ho.
  destruct (tables_run handle_rows h ops empty_db empty_db eq_refl eq_refl) as [E1 E2].
  unfold expected, tables_of, stamp_all. unfold run in Hs. rewrite E1, E2 in Hs.
  apply in_flat_map. exists o. split; assumption.
Qed.

(* ---------------------------------------------------------------------------------------- *)
(* the producer model composes with the handler theorems *)

Lemma run_gen_app_db loopf h a : forall d b,
  fst (run_gen loopf h d (a ++ b)) = fst (run_gen loopf h (fst (run_gen loopf h d a)) b).
Proof.
  induction a as [|o r IH]; intros d b; [reflexivity|].
  simpl app. rewrite !run_gen_cons. simpl fst. apply IH.
Qed.

Lemma run_cfgs_db h cs : forall d,
  fst (run h d (map (fun c => OpCfg (cr_kci c) (cr_keypers c)) cs)) =
  fold_left (fun d c => fst (insert_cfg d (cr_kci c) (cr_keypers c))) cs d.
Proof.
  induction cs as [|c r IH]; intros d; [reflexivity|].
  unfold run in *. simpl map. rewrite run_gen_cons. simpl. apply IH.
Qed.

Lemma run_eons_db h es : forall d,
  fst (run h d (map (fun e => OpEon (er_eon e) (er_act e) (er_kci e)) es)) =
  fold_left (fun d e => fst (insert_eon d (er_eon e) (er_act e) (er_kci e))) es d.
Proof.
  induction es as [|e r IH]; intros d; [reflexivity|].
  unfold run in *. simpl map. rewrite run_gen_cons. simpl. apply IH.
Qed.

Lemma run_finalize_db h rs : forall d,
  fst (run h d (flat_map (fun r => if r_success r then [OpGen (r_key r) (r_eon r)] else []) rs)) =
  finalize_all d rs.
Proof.
  induction rs as [|r rest IH]; intros d; [reflexivity|].
  unfold run, finalize_all in *. cbn [flat_map fold_left]. unfold finalize_one at 2.
  destruct (r_success r); simpl app.
  - rewrite run_gen_cons. simpl fst. apply IH.
  - apply IH.
Qed.

(* one Sync of the producer model is the run of its operations *)
Lemma sync_blocks_is_run h d nc ne rs :
  sync_blocks d nc ne rs = fst (run h d (ops_of_sync nc ne rs)).
Proof.
  unfold sync_blocks, ops_of_sync, run. rewrite !run_gen_app_db.
  fold (run h). rewrite run_cfgs_db, run_eons_db, run_finalize_db. reflexivity.
Qed.

Lemma generated_app a b : generated (a ++ b) = generated a ++ generated b.
Proof. apply flat_map_app. Qed.

Lemma generated_sync nc ne rs : generated (ops_of_sync nc ne rs) = successes rs.
Proof.
  unfold ops_of_sync. rewrite !generated_app.
  assert (generated (map (fun c => OpCfg (cr_kci c) (cr_keypers c)) nc) = []) as ->.
  { induction nc; simpl; auto. }
  assert (generated (map (fun e => OpEon (er_eon e) (er_act e) (er_kci e)) ne) = []) as ->.
  { induction ne; simpl; auto. }
  simpl. unfold successes, generated. induction rs as [|r rest IH]; [reflexivity|].
  cbn [flat_map]. destruct (r_success r).
  - change (flat_map (fun o : op => match o with OpGen key e => [mkOut key e] | _ => [] end)
              ([OpGen (r_key r) (r_eon r)] ++ flat_map (fun r0 : dkg_outcome => if r_success r0 then [OpGen (r_key r0) (r_eon r0)] else []) rest))
      with (mkOut (r_key r) (r_eon r) ::
            flat_map (fun o : op => match o with OpGen key e => [mkOut key e] | _ => [] end)
              (flat_map (fun r0 : dkg_outcome => if r_success r0 then [OpGen (r_key r0) (r_eon r0)] else []) rest)).
    rewrite IH. reflexivity.
  - simpl app. exact IH.
Qed.

Lemma generated_pops ps : generated (ops_of_pops ps) = all_successes ps.
Proof.
  unfold ops_of_pops, all_successes. induction ps as [|p r IH]; [reflexivity|].
  cbn [flat_map]. rewrite generated_app, IH. destruct p; simpl; [|reflexivity|reflexivity].
  rewrite generated_sync. reflexivity.
Qed.

(* C20_from_the_key_generation_on *)
Theorem from_the_key_generation_on : forall h ps,
  wf_from h empty_db (ops_of_pops ps) -> accepting (ops_of_pops ps) ->
  let d := fst (run h empty_db (ops_of_pops ps)) in
  let outs := snd (run h empty_db (ops_of_pops ps)) in
  let tbl := tables_of (ops_of_pops ps) in
  let successful := stamp_all h (eons tbl) (cfgs tbl) (all_successes ps) in
  Forall (fun e => e = ENone) (tick_errors outs) /\
  (h_bcast h = true -> Permutation (handed_to MBroadcast outs ++ pending_pks h d) successful) /\
  (h_cb h = true -> Permutation (handed_to MCallback outs ++ pending_pks h d) successful) /\
  (forall ps' enum answers, ps = ps' ++ [PTick enum answers] -> pending_pks h d = []).
Proof.
  intros h ps W A d outs tbl successful.
  destruct (each_exactly_once h (ops_of_pops ps) W A) as (H1 & H2 & H3 & H4 & _).
  unfold successful, tbl. rewrite <- generated_pops. fold (expected h (ops_of_pops ps)).
  repeat split; auto.
  intros ps' enum answers ->. apply (H4 (ops_of_pops ps') enum answers).
  unfold ops_of_pops. rewrite flat_map_app. simpl. reflexivity.
Qed.
