(* C08_single_commitment over executions: for every operation list (any crash schedule) all
   polynomial commitments of one eon that shuttermint has received or that are queued are equal,
   and the polynomial stored for the eon - in the cache and in the puredkg table - is the one
   committed to.  The invariant is checked per primitive update (Proofs/OutboxEvolve.v) inside a
   block transaction ([tinv]) and bridged over Load and Save with cache coherence
   (Proofs/OutboxCoh.v) to an invariant of the database alone ([binv]). *)
From Coq Require Import List NArith ZArith Bool Lia Sorted.
From Verif Require Import Lib.Bytes Model.DKGPure Model.DKGDriver Model.Outbox
     Proofs.DKGChain Proofs.OutboxEvolve Proofs.OutboxCoh Proofs.Outbox Proofs.OutboxRun.
Import ListNotations.
Open Scope Z_scope.

Section Msgs.
Variables C E P : Type.
Variable commit_of : P -> C.
Variable eval_of : P -> nat -> E.
Variable verify : nat -> E -> C -> bool.
Variable deg_ok : N -> C -> bool.
Variable valid_eval : E -> bool.
Variable me : addr.
Variable L : Z.
Variable enum : list (N * @active C E P) -> list (N * @active C E P).
Variable delta : Z.
Hypothesis Henum : enum_entries_ok C E P enum.

Notation pure := (@DKGPure.pure C E P).
Notation active := (@active C E P).
Notation sm := (@sm C E P).
Notation db := (db C E P).
Notation st := (st C E P).
Notation msg := (msg C E).
Notation world := (@world C E P).
Notation op := (@op C E P).
Notation prim := (prim C E P commit_of eval_of).
Notation evolves := (evolves C E P commit_of eval_of).
Notation coh := (coh C E P).
Notation all_clean := (all_clean C E P).
Notation step := (step C E P commit_of eval_of verify deg_ok valid_eval me L enum delta).
Notation run := (run C E P commit_of eval_of verify deg_ok valid_eval me L enum delta).
Notation handle_block := (handle_block C E P commit_of eval_of verify deg_ok valid_eval me L enum).

Definition logT := list (N * msg * resp).

Definition qmsgs (d : db) : list msg := map (fun r => snd (snd r)) (db_outbox _ _ _ d).
Definition lmsgs (lg : logT) : list msg := map (fun e => snd (fst e)) lg.
Definition allmsgs (lg : logT) (d : db) : list msg := lmsgs lg ++ qmsgs d.

(* a commitment for the eon that shuttermint has received or that is queued *)
Definition committed (lg : logT) (d : db) (eon : N) (c : C) : Prop := In (MCommit eon c) (allmsgs lg d).

(* the part that only mentions the database and the log *)
Record binv (lg : logT) (d : db) : Prop := {
  b_eon : forall eon c, committed lg d eon c -> nget (db_eons _ _ _ d) eon <> None;
  b_one : forall eon c1 c2, committed lg d eon c1 -> committed lg d eon c2 -> c1 = c2;
  b_poly : forall eon pu p c, nget (db_pure _ _ _ d) eon = Some pu -> p_poly pu = Some p ->
                              committed lg d eon c -> c = commit_of p;
  b_off : forall eon pu c, nget (db_pure _ _ _ d) eon = Some pu -> p_phase pu = Off -> ~ committed lg d eon c
}.

(* inside a block transaction: the same for the cache entries *)
Record tinv (lg : logT) (x : st) : Prop := {
  t_eon : forall eon c, committed lg (fst x) eon c -> nget (db_eons _ _ _ (fst x)) eon <> None;
  t_one : forall eon c1 c2, committed lg (fst x) eon c1 -> committed lg (fst x) eon c2 -> c1 = c2;
  t_poly : forall eon a p c, nget (sm_dkg (snd x)) eon = Some a -> p_poly (a_pure a) = Some p ->
                             committed lg (fst x) eon c -> c = commit_of p;
  t_off : forall eon a c, nget (sm_dkg (snd x)) eon = Some a -> p_phase (a_pure a) = Off -> ~ committed lg (fst x) eon c
}.

(* ---- how the primitive updates change the set of commitments ---- *)
Lemma committed_sched lg (d : db) desc (m : msg) eon c :
  committed lg (schedule C E P d desc m) eon c <-> committed lg d eon c \/ m = MCommit eon c.
Proof.
  unfold committed, allmsgs, qmsgs. simpl. rewrite map_app. simpl. rewrite !in_app_iff. simpl.
  split; [intros [H|[H|[H|[]]]]; auto|intros [[H|H]|H]; auto].
Qed.

Lemma committed_filter lg (d : db) f eon c :
  committed lg (upd_db_outbox C E P d (filter f (db_outbox _ _ _ d)) (db_nextid _ _ _ d)) eon c -> committed lg d eon c.
Proof.
  unfold committed, allmsgs, qmsgs. simpl. rewrite !in_app_iff. intros [H|H]; [left; exact H|right].
  apply in_map_iff in H. destruct H as [r [H1 H2]]. apply in_map_iff. exists r. split; [exact H1|].
  apply filter_In in H2. tauto.
Qed.

Lemma plain_not_commit (m : msg) eon c : plain C E m -> m <> MCommit eon c.
Proof. intros Hp ->. exact Hp. Qed.

Lemma phase_leb_off p q : phase_leb p q = true -> q = Off -> p = Off.
Proof. intros H ->. destruct p; simpl in H; try discriminate; reflexivity. Qed.

(* a primitive that leaves the outbox, the eons and the cache alone *)
Lemma tinv_frame lg (d d' : db) (s : sm) :
  db_outbox _ _ _ d' = db_outbox _ _ _ d -> db_eons _ _ _ d' = db_eons _ _ _ d ->
  tinv lg (d, s) -> tinv lg (d', s).
Proof.
  intros Ho He [A B Cc D]. unfold committed, allmsgs, qmsgs in *. simpl in *.
  constructor; simpl; unfold committed, allmsgs, qmsgs; rewrite ?Ho, ?He; assumption.
Qed.

Lemma tinv_sched_other lg (d : db) (s : sm) desc (m : msg) :
  (forall eon c, m <> MCommit eon c) -> tinv lg (d, s) -> tinv lg (schedule C E P d desc m, s).
Proof.
  intros Hm [A B Cc D]. simpl in *.
  assert (Hc : forall eon c, committed lg (schedule C E P d desc m) eon c -> committed lg d eon c).
  { intros eon c H. apply committed_sched in H. destruct H as [H|H]; [exact H|]. exfalso. exact (Hm _ _ H). }
  constructor; simpl.
  - intros eon c H. apply (A eon c). apply Hc. exact H.
  - intros eon c1 c2 H1 H2. apply (B eon); apply Hc; assumption.
  - intros eon a p c Hg Hp H. eapply Cc; [exact Hg|exact Hp|]. apply Hc. exact H.
  - intros eon a c Hg Hp H. eapply D; [exact Hg|exact Hp|]. apply Hc. exact H.
Qed.

Lemma prim_tinv lg x y : prim x y -> coh x -> tinv lg x -> tinv lg y.
Proof.
  destruct 1; intros Hcoh Ht.
  - apply tinv_sched_other; [|exact Ht]. intros eon c. apply plain_not_commit. assumption.
  - (* dealing starts for the eon *)
    destruct Ht as [A B Cc D]. simpl in *.
    assert (Hfresh : forall c, ~ committed lg d eon c) by (intros c; eapply D; eassumption).
    assert (Heon : nget (db_eons C E P d) eon <> None).
    { destruct (c_rows _ _ _ _ Hcoh _ _ H) as [er [cr [He _]]]. simpl in He. rewrite He. discriminate. }
    constructor; simpl.
    + intros k c Hk. apply committed_sched in Hk. destruct Hk as [Hk|Hk]; [apply (A k c Hk)|].
      injection Hk as -> _. exact Heon.
    + intros k c1 c2 H3 H4. apply committed_sched in H3. apply committed_sched in H4.
      destruct H3 as [H3|H3], H4 as [H4|H4].
      * eapply B; eassumption.
      * injection H4 as -> _. exfalso. exact (Hfresh _ H3).
      * injection H3 as -> _. exfalso. exact (Hfresh _ H4).
      * injection H3 as _ <-. injection H4 as _ <-. reflexivity.
    + intros k a0 p c Hg Hp Hk. apply committed_sched in Hk.
      destruct (N.eq_dec eon k) as [<-|Hne].
      * rewrite nget_nins_same in Hg. injection Hg as <-. simpl in Hp. rewrite H2 in Hp. injection Hp as <-.
        destruct Hk as [Hk|Hk]; [exfalso; exact (Hfresh _ Hk)|]. injection Hk as <-. reflexivity.
      * rewrite nget_nins_other in Hg by exact Hne.
        destruct Hk as [Hk|Hk]; [eapply Cc; eassumption|]. injection Hk as Hk _. congruence.
    + intros k a0 c Hg Hp Hk. apply committed_sched in Hk.
      destruct (N.eq_dec eon k) as [<-|Hne].
      * rewrite nget_nins_same in Hg. injection Hg as <-. simpl in Hp. congruence.
      * rewrite nget_nins_other in Hg by exact Hne.
        destruct Hk as [Hk|Hk]; [eapply D; eassumption|]. injection Hk as Hk _. congruence.
  - apply tinv_sched_other; [|exact Ht]. intros eon0 c. discriminate.
  - apply tinv_sched_other; [|exact Ht]. intros eon0 c. discriminate.
  - (* result vote + result row *)
    eapply tinv_frame with (d := schedule C E P d None (MResult eon (rs_success C E r))); [reflexivity|reflexivity|].
    apply tinv_sched_other; [|exact Ht]. intros eon0 c. discriminate.
  - (* rows leave the outbox *)
    destruct Ht as [A B Cc D]. simpl in *. constructor; simpl.
    + intros k c Hk. apply (A k c). eapply committed_filter. exact Hk.
    + intros k c1 c2 H1 H2. apply (B k); eapply committed_filter; eassumption.
    + intros k a p c Hg Hp Hk. eapply Cc; [exact Hg|exact Hp|]. eapply committed_filter. exact Hk.
    + intros k a c Hg Hp Hk. eapply D; [exact Hg|exact Hp|]. eapply committed_filter. exact Hk.
  - eapply tinv_frame; [| |exact Ht]; reflexivity.
  - eapply tinv_frame; [| |exact Ht]; reflexivity.
  - eapply tinv_frame; [| |exact Ht]; reflexivity.
  - eapply tinv_frame; [| |exact Ht]; reflexivity.
  - eapply tinv_frame; [| |exact Ht]; reflexivity.
  - eapply tinv_frame; [| |exact Ht]; reflexivity.
  - (* a new eon without instance *)
    destruct Ht as [A B Cc D]. subst l. constructor; simpl in *; try assumption.
    intros k c Hk. specialize (A k c Hk). rewrite (nget_app_none _ _ _ _ H0).
    destruct (N.eqb eon k); [discriminate|exact A].
  - (* a new eon with its instance *)
    destruct Ht as [A B Cc D]. subst l. simpl in *.
    assert (Hfresh : forall c, ~ committed lg d eon c).
    { intros c Hk. apply (A eon c Hk). exact H0. }
    constructor; simpl.
    + intros k c Hk. specialize (A k c Hk). rewrite (nget_app_none _ _ _ _ H0).
      destruct (N.eqb eon k); [discriminate|exact A].
    + exact B.
    + intros k a0 p c Hg Hp Hk. destruct (N.eq_dec eon k) as [<-|Hne].
      * exfalso. exact (Hfresh _ Hk).
      * rewrite nget_nins_other in Hg by exact Hne. eapply Cc; eassumption.
    + intros k a0 c Hg Hp Hk. destruct (N.eq_dec eon k) as [<-|Hne].
      * exact (Hfresh _ Hk).
      * rewrite nget_nins_other in Hg by exact Hne. eapply D; eassumption.
  - destruct Ht as [A B Cc D]. constructor; simpl in *; assumption.
  - (* an entry is updated: same polynomial, the phase does not go back *)
    destruct Ht as [A B Cc D]. simpl in *. constructor; simpl; try assumption.
    + intros k a0 p c Hg Hp Hk. destruct (N.eq_dec eon k) as [<-|Hne].
      * rewrite nget_nins_same in Hg. injection Hg as <-. simpl in Hp. rewrite H0 in Hp. eapply Cc; eassumption.
      * rewrite nget_nins_other in Hg by exact Hne. eapply Cc; eassumption.
    + intros k a0 c Hg Hp Hk. destruct (N.eq_dec eon k) as [<-|Hne].
      * rewrite nget_nins_same in Hg. injection Hg as <-. simpl in Hp.
        eapply D; [exact H|eapply phase_leb_off; eassumption|exact Hk].
      * rewrite nget_nins_other in Hg by exact Hne. eapply D; eassumption.
  - (* finalisation *)
    destruct Ht as [A B Cc D]. simpl in *. constructor; simpl; try assumption.
    + intros k a0 p c Hg Hp Hk. destruct (N.eq_dec eon k) as [<-|Hne]; [rewrite nget_ndel_same in Hg; discriminate|].
      rewrite nget_ndel_other in Hg by exact Hne. eapply Cc; eassumption.
    + intros k a0 c Hg Hp Hk. destruct (N.eq_dec eon k) as [<-|Hne]; [rewrite nget_ndel_same in Hg; discriminate|].
      rewrite nget_ndel_other in Hg by exact Hne. eapply D; eassumption.
Qed.

Lemma evolves_tinv lg x y : evolves x y -> coh x -> tinv lg x -> tinv lg y.
Proof.
  induction 1; intros Hc Ht; [exact Ht|].
  apply IHevolves; [eapply prim_coh; eassumption|eapply prim_tinv; eassumption].
Qed.

(* ---- Load and Save ---- *)
Lemma binv_tinv_clean lg (d : db) (s : sm) :
  coh (d, s) -> all_clean s -> binv lg d -> tinv lg (d, s).
Proof.
  intros [Hc Ha Hr Hs] Hcl [A B Cc D]. simpl in *. constructor; simpl; try assumption.
  - intros eon a p c Hg Hp Hk. eapply Cc; [apply Hc; [exact Hg|exact (Hcl _ _ Hg)]|exact Hp|exact Hk].
  - intros eon a c Hg Hp Hk. eapply D; [apply Hc; [exact Hg|exact (Hcl _ _ Hg)]|exact Hp|exact Hk].
Qed.

Lemma tinv_binv_clean lg (d : db) (s : sm) :
  coh (d, s) -> all_clean s -> tinv lg (d, s) -> binv lg d.
Proof.
  intros [Hc Ha Hr Hs] Hcl [A B Cc D]. simpl in *. constructor; try assumption.
  - intros eon pu p c Hg Hp Hk. destruct (nget (sm_dkg s) eon) as [a|] eqn:Q.
    + pose proof (Hc _ _ Q (Hcl _ _ Q)) as Hx. rewrite Hg in Hx. injection Hx as ->. eapply Cc; eassumption.
    + rewrite (Ha _ Q) in Hg. discriminate.
  - intros eon pu c Hg Hp Hk. destruct (nget (sm_dkg s) eon) as [a|] eqn:Q.
    + pose proof (Hc _ _ Q (Hcl _ _ Q)) as Hx. rewrite Hg in Hx. injection Hx as ->. eapply D; eassumption.
    + rewrite (Ha _ Q) in Hg. discriminate.
Qed.

Lemma save_all_outbox l : forall d : db,
  db_outbox _ _ _ (save_all C E P d l) = db_outbox _ _ _ d /\ db_eons _ _ _ (save_all C E P d l) = db_eons _ _ _ d.
Proof.
  induction l as [|[eon a] r IH]; simpl; intros d; [split; reflexivity|].
  destruct (a_dirty a); [|apply IH].
  destruct (IH (upd_db_pure C E P d (nset (db_pure C E P d) eon (a_pure a)))) as [A1 A2]. split; assumption.
Qed.

(* what a world satisfies between operations *)
Definition winv (w : world) : Prop :=
  binv (w_log w) (o_db (w_o w)) /\
  (sm_sync (w_sm w) = true -> coh (o_db (w_o w), w_sm w) /\ all_clean (w_sm w)).

Lemma handle_block_winv lg poly (d : db) (s : sm) blk lch d' s' :
  handle_block poly (d, s) blk lch = TOk (d', s') ->
  binv lg d -> (sm_sync s = true -> coh (d, s) /\ all_clean s) ->
  binv lg d'.
Proof.
  intros Hrun Hb Hg.
  destruct (handle_block_good C E P commit_of eval_of verify deg_ok valid_eval me L enum Henum poly (d, s) blk lch (d', s') Hrun Hg)
    as [Hc' [Hcl' _]].
  unfold DKGDriver.handle_block in Hrun.
  destruct (load C E P d s) as [s1| |] eqn:Hload; simpl in Hrun; try discriminate.
  assert (H1 : coh (d, s1) /\ all_clean s1).
  { destruct (sm_sync s) eqn:Hs.
    - unfold load in Hload. rewrite Hs in Hload. injection Hload as <-. apply Hg. reflexivity.
    - destruct (load_coh C E P d s s1 Hs Hload) as [A [B _]]. split; assumption. }
  destruct H1 as [Hc1 Hcl1].
  destruct (negb _); [discriminate|].
  destruct (shift_phases _ _ _ _ _ _ _ _ _ _ _ _) as [x2| |] eqn:Hsh; simpl in Hrun; try discriminate.
  destruct (handle_events _ _ _ _ _ _ _ _ _ _ _ _ _ _) as [x3| |] eqn:He; simpl in Hrun; try discriminate.
  injection Hrun as Hd' Hs'.
  unfold shift_phases in Hsh. apply shift_all_evolves in Hsh. apply handle_events_evolves in He.
  pose proof (send_poly_evals_evolves C E P commit_of eval_of (fst x3) (snd x3)) as Hp.
  set (d0 := upd_db_sync C E P d (fst blk) lch blk) in *.
  assert (Hc0 : coh (d0, s1)) by (eapply coh_frame; [| | |exact Hc1]; reflexivity).
  assert (Ht0 : tinv lg (d0, s1)).
  { eapply tinv_frame with (d := d); [reflexivity|reflexivity|]. apply binv_tinv_clean; assumption. }
  assert (Hall : evolves (d0, s1) (send_poly_evals C E P (fst x3), snd x3)).
  { eapply ev_trans; [exact Hsh|]. eapply ev_trans; [exact He|]. destruct x3; exact Hp. }
  pose proof (evolves_tinv lg _ _ Hall Hc0 Ht0) as Ht3.
  (* Save only writes puredkg *)
  destruct (save_all_outbox (enum (sm_dkg (snd x3))) (send_poly_evals C E P (fst x3))) as [So Se].
  assert (Ht4 : tinv lg (d', s')).
  { subst d' s'. destruct Ht3 as [A B Cc D]. unfold committed, allmsgs, qmsgs in *. simpl in *.
    constructor; simpl; unfold committed, allmsgs, qmsgs; rewrite ?So, ?Se.
    - exact A.
    - exact B.
    - intros eon a p c Hg0. rewrite nget_clean in Hg0. destruct (nget (sm_dkg (snd x3)) eon) as [a0|] eqn:Q; simpl in Hg0; [|discriminate].
      injection Hg0 as <-. simpl. apply (Cc eon a0 p c Q).
    - intros eon a c Hg0. rewrite nget_clean in Hg0. destruct (nget (sm_dkg (snd x3)) eon) as [a0|] eqn:Q; simpl in Hg0; [|discriminate].
      injection Hg0 as <-. simpl. apply (D eon a0 c Q). }
  eapply tinv_binv_clean; eassumption.
Qed.

Lemma binv_same_msgs lg lg' (d d' : db) :
  (forall m, In m (allmsgs lg' d') -> In m (allmsgs lg d)) ->
  db_eons _ _ _ d' = db_eons _ _ _ d -> db_pure _ _ _ d' = db_pure _ _ _ d ->
  binv lg d -> binv lg' d'.
Proof.
  intros Hm He Hp [A B Cc D]. unfold committed in *.
  constructor; unfold committed; rewrite ?He, ?Hp.
  - intros eon c H. apply (A eon c). apply Hm. exact H.
  - intros eon c1 c2 H1 H2. apply (B eon); apply Hm; assumption.
  - intros eon pu p c Hg Hpp H. eapply Cc; [exact Hg|exact Hpp|]. apply Hm. exact H.
  - intros eon pu c Hg Hpp H. eapply D; [exact Hg|exact Hpp|]. apply Hm. exact H.
Qed.

Lemma on_chain_msgs ksets o l1 o' :
  on_chain C E P me delta ksets o l1 = TOk o' ->
  (forall eon c, In (MCommit eon c) (qmsgs (o_db o')) -> In (MCommit eon c) (qmsgs (o_db o))).
Proof.
  assert (Hs : forall (d : db) desc (m : msg) eon c, (forall e0 c0, m <> MCommit e0 c0) ->
             In (MCommit eon c) (qmsgs (schedule C E P d desc m)) -> In (MCommit eon c) (qmsgs d)).
  { intros d desc m eon c Hm. unfold qmsgs. simpl. rewrite map_app, in_app_iff. simpl.
    intros [H|[H|[]]]; [exact H|]. exfalso. exact (Hm _ _ H). }
  unfold on_chain. destruct (keyper_set_changes _ _ _ _ _ _ _) as [o1| |] eqn:Hk; simpl; try discriminate.
  intros [= <-] eon c Hin.
  assert (H1 : In (MCommit eon c) (qmsgs (o_db o1))).
  { revert Hin. unfold block_seen. destruct (Nat.eqb _ 0); [tauto|]. simpl. apply Hs. intros; discriminate. }
  revert Hk H1. unfold keyper_set_changes. destruct (latest_cfg _) as [latest|]; [|intros [= <-]; tauto].
  destruct (zget ksets _) as [ks|]; [|intros [= <-]; tauto].
  destruct (invalid_set _ _ _); [intros [= <-]; tauto|].
  destruct (ks_act ks <? 0); [discriminate|].
  destruct (_ && _); intros [= <-]; [tauto|]. simpl. apply Hs. intros; discriminate.
Qed.

Lemma step_winv w o w' : step w o = Some w' -> winv w -> winv w'.
Proof.
  intros Hs [Hb Hg]. destruct o as [blk lch poly commit|ksets l1 commit|r|commit|]; unfold Outbox.step in Hs.
  - destruct commit.
    + destruct (handle_block poly (o_db (w_o w), w_sm w) blk lch) as [[d' s']| |] eqn:Hrun; try discriminate.
      injection Hs as <-. split; simpl.
      * eapply handle_block_winv; eassumption.
      * intros _. destruct (handle_block_good C E P commit_of eval_of verify deg_ok valid_eval me L enum Henum poly _ blk lch _ Hrun Hg)
          as [A [B _]]. split; assumption.
    + injection Hs as <-. split; simpl; [exact Hb|]. intros Hx. discriminate.
  - destruct commit; [|injection Hs as <-; split; assumption].
    destruct (on_chain _ _ _ _ _ _ _ _) as [o'| |] eqn:Ho; try discriminate. injection Hs as <-.
    destruct (on_chain_frame C E P me delta _ _ _ _ Ho) as [F1 [F2 F3]]. split; simpl.
    + destruct Hb as [A B Cc D].
      assert (Hm : forall eon c, committed (w_log w) (o_db o') eon c -> committed (w_log w) (o_db (w_o w)) eon c).
      { intros eon c. unfold committed, allmsgs. rewrite !in_app_iff. intros [H|H]; [left; exact H|right].
        eapply on_chain_msgs; eassumption. }
      constructor; rewrite ?F1, ?F2.
      * intros eon c H. apply (A eon c). apply Hm. exact H.
      * intros eon c1 c2 H1 H2. apply (B eon); apply Hm; assumption.
      * intros eon pu p c Hg0 Hp H. eapply Cc; [exact Hg0|exact Hp|]. apply Hm. exact H.
      * intros eon pu c Hg0 Hp H. eapply D; [exact Hg0|exact Hp|]. apply Hm. exact H.
    + intros Hx. destruct (Hg Hx) as [A B]. split; [|exact B]. eapply coh_frame; eassumption.
  - unfold head in Hs. destruct (db_outbox C E P (o_db (w_o w))) as [|[id [ds m]] rest] eqn:Hout; [injection Hs as <-; split; assumption|].
    assert (Hadd : forall a, winv (mkW (w_o w) (w_sm w) (w_log w ++ [(id, m, a)]))).
    { intros a. split; simpl; [|exact Hg].
      eapply binv_same_msgs; [|reflexivity|reflexivity|exact Hb].
      intros m0. unfold allmsgs, lmsgs, qmsgs. rewrite map_app. simpl. rewrite !in_app_iff. simpl.
      intros [[H|[H|[]]]|H]; [left; exact H| |right; exact H].
      right. rewrite Hout. simpl. left. exact H. }
    destruct r; injection Hs as <-; [apply Hadd|apply Hadd|split; assumption].
  - destruct commit; [|injection Hs as <-; split; assumption].
    unfold head in Hs. destruct (db_outbox C E P (o_db (w_o w))) as [|[id x] rest] eqn:Hout; injection Hs as <-; [split; assumption|].
    split; simpl.
    + eapply (binv_same_msgs (w_log w) (w_log w) (o_db (w_o w))); [|reflexivity|reflexivity|exact Hb].
      intros m0. unfold allmsgs, qmsgs, delete_id. simpl. rewrite !in_app_iff. intros [H|H]; [left; exact H|right].
      apply in_map_iff in H. destruct H as [r [H1 H2]]. apply in_map_iff. exists r. split; [exact H1|].
      apply filter_In in H2. tauto.
    + intros Hx. destruct (Hg Hx) as [A B]. split; [|exact B]. eapply coh_frame; [| | |exact A]; reflexivity.
  - injection Hs as <-. split; simpl; [exact Hb|]. intros Hx. discriminate.
Qed.

Lemma run_winv ops : forall w w', run w ops = Some w' -> winv w -> winv w'.
Proof.
  induction ops as [|o r IH]; simpl; intros w w' Hr Hi.
  - injection Hr as <-. exact Hi.
  - destruct (step w o) as [w1|] eqn:Hs; [|discriminate]. eapply IH; [exact Hr|]. eapply step_winv; eassumption.
Qed.

Lemma init_winv : winv (world_init C E P).
Proof.
  split; simpl; [|intros H; discriminate].
  constructor; unfold committed, allmsgs; simpl; intros; try contradiction; discriminate.
Qed.

(* C08_single_commitment *)
Theorem single_commitment ops w :
  run (world_init C E P) ops = Some w ->
  (forall eon c1 c2, committed (w_log w) (o_db (w_o w)) eon c1 -> committed (w_log w) (o_db (w_o w)) eon c2 -> c1 = c2) /\
  (forall eon pu p c, nget (db_pure _ _ _ (o_db (w_o w))) eon = Some pu -> p_poly pu = Some p ->
                      committed (w_log w) (o_db (w_o w)) eon c -> c = commit_of p) /\
  (forall eon a p c, sm_sync (w_sm w) = true -> nget (sm_dkg (w_sm w)) eon = Some a -> p_poly (a_pure a) = Some p ->
                     committed (w_log w) (o_db (w_o w)) eon c -> c = commit_of p).
Proof.
  intros Hr. destruct (run_winv _ _ _ Hr init_winv) as [Hb Hg]. split; [exact (b_one _ _ Hb)|]. split; [exact (b_poly _ _ Hb)|].
  intros eon a p c Hs Hk Hp Hc. destruct (Hg Hs) as [Hcoh Hcl].
  eapply (b_poly _ _ Hb); [|exact Hp|exact Hc]. apply (c_clean _ _ _ _ Hcoh); [exact Hk|exact (Hcl _ _ Hk)].
Qed.

End Msgs.
