(* C03 - honest messages are accepted: what ConstructDecryptionKeyShares followed by the
   flavour's middleware produces passes the combined validator of every keyper of the same
   flavour that knows the keyper set and holds the DKG result - the sender itself included. *)
From Coq Require Import List NArith ZArith Bool Lia.
From Verif Require Import Lib.Bytes Model.EpochKG Model.EpochKGLabels Model.EpochKGHandler Model.KeysSig
     Model.Gossip Model.GossipMisc Model.GossipNet Proofs.KeysSig Proofs.Gossip Proofs.GossipTotal.
Import ListNotations.

(* ------------------------------------------------------------------------------------- *)
(* The eon all keypers of the network agree on *)

Record cfg := mkCfg {
  cf_inst : N;              (* instance id *)
  cf_max : N;               (* MaxNumKeysPerMessage *)
  cf_kci : Z;               (* keyper config index = the `eon` field of the messages *)
  cf_eon : Z;               (* eons.eon of the (only) eon of that config *)
  cf_keypers : list N;      (* addresses of the keyper set *)
  cf_t : N                  (* threshold *)
}.

Definition cf_n (c : cfg) : N := N.of_nat (length (cf_keypers c)).

(* the node is configured for the instance, knows the batch config, is a member, and holds the
   successful DKG result (key set 0, one public key share per keyper) *)
Definition knows (c : cfg) (st : cstate) : Prop :=
  c_instance st = cf_inst c /\ c_maxkeys st = cf_max c /\ (cf_max c <= max_int64)%N /\
  (0 <= cf_kci c < 2 ^ 31)%Z /\
  zlookup (c_configs st) (cf_kci c) = Some (cf_keypers c) /\ In (c_self st) (cf_keypers c) /\
  dkg_for_config st (cf_kci c) = Some (DkgOk 0 (cf_n c) (cf_t c)) /\
  zlookup (c_dkg st) (cf_eon c) = Some (DkgOk 0 (cf_n c) (cf_t c)).

(* what the messages of an honest keyper with index i carry for the identities ids *)
Definition honest_shares (sb : N -> N -> bytes -> bytes) (i : N) (ids : list bytes) : list (bytes * kv) :=
  map (fun x => (x, mkKV (sb 0%N i x) (Some (LShare 0 i x)))) ids.

Section Honest.
  Variable sb : N -> N -> bytes -> bytes.

  Lemma index_of_spec a l : forall i k,
    index_of a l i = Some k -> (i <= k)%N /\ nth_error l (N.to_nat (k - i)) = Some a.
  Proof.
    induction l as [|b r IH]; intros i k; simpl; [discriminate|].
    destruct (b =? a)%N eqn:E.
    - intros [= <-]. apply N.eqb_eq in E. subst b. split; [lia|]. rewrite N.sub_diag. reflexivity.
    - intros H. apply IH in H. destruct H as [Hle Hn]. split; [lia|].
      replace (N.to_nat (k - i)) with (S (N.to_nat (k - (i + 1)))) by lia. exact Hn.
  Qed.

  Lemma index_of_in a l : In a l -> forall i, exists k, index_of a l i = Some k.
  Proof.
    induction l as [|b r IH]; intros Hin i; [destruct Hin|]. simpl.
    destruct (b =? a)%N eqn:E; [eexists; reflexivity|].
    destruct Hin as [->|Hin]; [rewrite N.eqb_refl in E; discriminate|]. apply IH. exact Hin.
  Qed.

  Lemma index_of_bound a l k : index_of a l 0 = Some k -> (k < N.of_nat (length l))%N /\ nth_error l (N.to_nat k) = Some a.
  Proof.
    intros H. apply index_of_spec in H. destruct H as [_ Hn]. rewrite N.sub_0_r in Hn.
    split; [|exact Hn]. assert (nth_error l (N.to_nat k) <> None) by congruence.
    apply nth_error_Some in H. lia.
  Qed.

  (* what a successful ConstructDecryptionKeyShares returns *)
  Lemma construct_facts c st ids st' m :
    knows c st -> construct sb st (cf_eon c) (cf_kci c) ids = Some (st', m) ->
    exists kidx,
      index_of (c_self st) (cf_keypers c) 0 = Some kidx /\
      m = mkSharesMsg (cf_inst c) (Z.to_N (cf_kci c)) kidx (honest_shares sb kidx ids) SxNone /\
      ids <> [] /\ (N.of_nat (length ids) <= cf_max c)%N /\
      st' = mkCState (c_instance st) (c_maxkeys st) (c_self st) (c_configs st) (c_eons st) (c_dkg st) (c_keys st)
                     (insert_own_shares (c_shares st) (cf_kci c) (Z.of_N kidx) (honest_shares sb kidx ids)).
  Proof.
    intros [Hi [Hm [Hmax [Hk [Hc [Hs [_ Hd]]]]]]] H. unfold construct in H.
    destruct ids as [|x0 ids0]; [discriminate|]. set (ids := x0 :: ids0) in *.
    rewrite Hm, (int_of_u64_small _ Hmax) in H.
    destruct (Z.of_N (cf_max c) <? Z.of_nat (length ids))%Z eqn:El; [discriminate|]. apply Z.ltb_ge in El.
    rewrite (to_i32_id _ Hk), Hc in H.
    destruct (index_of (c_self st) (cf_keypers c) 0) as [kidx|] eqn:Ei; [|discriminate].
    destruct (cf_kci c <? 0)%Z eqn:En; [apply Z.ltb_lt in En; lia|].
    destruct (forallb _ ids); [discriminate|].
    rewrite Hd in H. injection H as <- <-. exists kidx. rewrite Hi, Hm.
    repeat split; try reflexivity; try discriminate. lia.
  Qed.

  Lemma shares_loop_honest i ids : forall prev,
    nondecreasing prev ids -> shares_loop 0 i prev (honest_shares sb i ids) = GAccept.
  Proof.
    induction ids as [|x r IH]; intros prev Hn; simpl; [reflexivity|].
    rewrite !N.eqb_refl, bytes_eqb_refl. simpl. destruct Hn as [Ho Hn].
    destruct prev as [p|]; [rewrite Ho|]; apply IH; exact Hn.
  Qed.

  Lemma honest_shares_length i ids : length (honest_shares sb i ids) = length ids.
  Proof. apply map_length. Qed.

  Lemma honest_shares_ids i ids : map fst (honest_shares sb i ids) = ids.
  Proof. unfold honest_shares. rewrite map_map. simpl. apply map_id. Qed.

  (* the core validator of every keyper that knows the eon accepts the message, whatever else
     its tables hold *)
  Theorem core_accepts_honest_shares c ss sr ids ss' m :
    knows c ss -> knows c sr -> nondecreasing None ids ->
    construct sb ss (cf_eon c) (cf_kci c) ids = Some (ss', m) ->
    validate_shares sr m = GAccept.
  Proof.
    intros Hs Hr Hsorted Hc. destruct (construct_facts c ss ids ss' m Hs Hc) as [kidx [Hidx [-> [Hne [Hlen _]]]]].
    destruct Hr as [Hi [Hm [Hmax [Hk [Hcf [Hself [Hd _]]]]]]].
    destruct (index_of_bound _ _ _ Hidx) as [Hb _].
    unfold validate_shares, validate_prelude. simpl s_inst. simpl s_eon. simpl s_shares. simpl s_kidx.
    rewrite Hi, N.eqb_refl. simpl negb.
    assert (Hz : Z.of_N (Z.to_N (cf_kci c)) = cf_kci c) by lia.
    assert ((max_int64 <? Z.to_N (cf_kci c))%N = false) as ->.
    { apply N.ltb_ge. unfold max_int64. lia. }
    rewrite Hz, (to_i32_id _ Hk), Hcf.
    assert (existsb (N.eqb (c_self sr)) (cf_keypers c) = true) as -> by (apply existsb_self; exact Hself).
    simpl negb. rewrite Hd. rewrite honest_shares_length.
    destruct ids as [|x0 r]; [contradiction|]. simpl length at 1. simpl Nat.eqb.
    rewrite Hm, (int_of_u64_small _ Hmax).
    assert ((Z.of_N (cf_max c) <? Z.of_nat (length (x0 :: r)))%Z = false) as -> by (apply Z.ltb_ge; lia).
    unfold check_key_shares. simpl s_kidx. simpl s_shares.
    assert ((cf_n c <=? kidx)%N = false) as -> by (apply N.leb_gt; exact Hb).
    apply (shares_loop_honest kidx (x0 :: r) None). exact Hsorted.
  Qed.
End Honest.

(* ------------------------------------------------------------------------------------- *)
(* The flavours *)

(* the observer's keyper set table of a node lists the same addresses with the same threshold *)
Definition knows_set (c : cfg) (f : fstate) : Prop :=
  zlookup (f_ksets f) (cf_kci c) =
  Some {| ks_keypers := map Some (cf_keypers c); ks_threshold := Z.of_N (cf_t c) |}.

Lemma int_of_u64_kci c : (0 <= cf_kci c < 2 ^ 31)%Z -> int_of_u64 (Z.to_N (cf_kci c)) = cf_kci c.
Proof.
  intros H. rewrite int_of_u64_small; [lia|]. unfold max_int64. lia.
Qed.

Lemma check_signature_own t a :
  hashable t = true -> check_signature tuple tuple_eqb (fun t => t) t (SigBy a t) a = Some true.
Proof.
  intros Hh. unfold check_signature. rewrite Hh. simpl.
  assert (tuple_eqb t t = true) as -> by (apply tuple_eqb_spec; reflexivity).
  rewrite N.eqb_refl. reflexivity.
Qed.

(* the signature part shared by both flavour validators, for the sender's own signature *)
Lemma share_sig_accepts c f (m : shares_msg) kidx a t :
  knows_set c f -> (0 <= cf_kci c < 2 ^ 31)%Z -> s_eon m = Z.to_N (cf_kci c) -> s_kidx m = kidx ->
  (kidx < cf_n c)%N -> nth_error (cf_keypers c) (N.to_nat kidx) = Some a ->
  hashable t = true ->
  validate_share_sig f m t (SigBy a t) = GAccept.
Proof.
  intros Hks Hk He Hi Hb Hn Hh. unfold validate_share_sig. rewrite He, (int_of_u64_kci c Hk), Hks. simpl ks_keypers.
  rewrite map_length, Hi. unfold cf_n in Hb.
  assert ((N.of_nat (length (cf_keypers c)) <=? kidx)%N = false) as -> by (apply N.leb_gt; exact Hb).
  rewrite nth_error_map, Hn. simpl.
  assert ((1024 <? length (tuple_ids t))%nat = false) as ->.
  { unfold hashable in Hh. apply andb_true_iff in Hh. destruct Hh as [Hl _]. apply Nat.leb_le in Hl. apply Nat.ltb_ge. exact Hl. }
  rewrite (check_signature_own t a Hh). reflexivity.
Qed.

(* ------------------------------------------------------------------------------------- *)
(* The published message at a receiver of the same flavour *)

Definition keyper_flavour (fl : node) : Prop := fl = NCore \/ fl = NGnosis \/ fl = NService.

(* the identities fit the flavour's signature data: at most 1024, 52 (Gnosis) / 32 (service)
   bytes each; the Gnosis trigger row carries slot and tx pointer as non-negative int64 *)
Definition ids_fit (fl : node) (c : cfg) (slot txp : Z) (ids : list bytes) : Prop :=
  match fl with
  | NGnosis => hashable (TGnosis (cf_inst c) (Z.to_N (cf_kci c)) (Z.to_N slot) (Z.to_N txp) ids) = true /\
               (0 <= slot < 2 ^ 63)%Z /\ (0 <= txp < 2 ^ 63)%Z
  | NService => hashable (TService (cf_inst c) (Z.to_N (cf_kci c)) ids) = true
  | _ => True
  end.

Lemma u64_of_i64_nonneg z : (0 <= z < 2 ^ 63)%Z -> u64_of_i64 z = Z.to_N z.
Proof. intros H. unfold u64_of_i64. rewrite Z.mod_small by lia. reflexivity. Qed.

Lemma msg_validate_honest sb i ids inst eon ex :
  msg_validate (MShares (mkSharesMsg inst eon i (honest_shares sb i ids) ex)) = true.
Proof. simpl. apply forallb_forall. intros [x v] Hin. apply in_map_iff in Hin. destruct Hin as [y [E _]]. injection E as <- <-. reflexivity. Qed.

Lemma knows_construct sb c st ids st' m :
  knows c st -> construct sb st (cf_eon c) (cf_kci c) ids = Some (st', m) -> knows c st'.
Proof.
  intros Hk Hc. destruct (construct_facts sb c st ids st' m Hk Hc) as [kidx [_ [_ [_ [_ ->]]]]].
  destruct Hk as [H1 [H2 [H3 [H4 [H5 [H6 [H7 H8]]]]]]]. unfold knows, dkg_for_config in *. cbn [c_instance c_maxkeys c_self c_configs c_eons c_dkg]. tauto.
Qed.

Section Publish.
  Variable sb : N -> N -> bytes -> bytes.

  (* the message keyper [sender] hands to the p2p layer when it is triggered *)
  Definition trigger_message (sender : knode) (c : cfg) (slot txp : Z) (ids : list bytes) : option (knode * shares_msg) :=
    let nd0 := match kn_fl sender with
               | NGnosis => mkKNode (kn_fl sender) (kn_g sender) (kn_sigs sender)
                                    (upsert_trig (kn_trig sender) (cf_kci c) (slot, txp, ids))
               | _ => sender
               end in
    match construct sb (kn_core nd0) (cf_eon c) (cf_kci c) ids with
    | None => None
    | Some (c', m) =>
        match intercept_shares (set_core nd0 c') m with
        | (nd2, Some m') => Some (nd2, m')
        | (_, None) => None
        end
    end.

  Lemma ids_eqb_refl l : ids_eqb l l = true.
  Proof. induction l as [|x r IH]; simpl; [reflexivity|]. rewrite bytes_eqb_refl. exact IH. Qed.

  (* what the flavours add on the way out *)
  Lemma tm_core sender c slot txp ids nd2 m' :
    kn_fl sender = NCore -> trigger_message sender c slot txp ids = Some (nd2, m') ->
    exists c', construct sb (kn_core sender) (cf_eon c) (cf_kci c) ids = Some (c', m').
  Proof.
    intros Hf. unfold trigger_message. rewrite Hf.
    destruct (construct sb (kn_core sender) (cf_eon c) (cf_kci c) ids) as [[c' m]|]; [|discriminate].
    unfold intercept_shares. simpl kn_fl. rewrite Hf. intros [= _ <-]. exists c'. reflexivity.
  Qed.

  Lemma tm_service sender c slot txp ids nd2 m' :
    kn_fl sender = NService -> trigger_message sender c slot txp ids = Some (nd2, m') ->
    exists c' m, construct sb (kn_core sender) (cf_eon c) (cf_kci c) ids = Some (c', m) /\
      m' = mkSharesMsg (s_inst m) (s_eon m) (s_kidx m) (s_shares m)
             (SxService (SigBy (c_self c') (TService (c_instance c') (s_eon m) (sh_ids m)))).
  Proof.
    intros Hf. unfold trigger_message. rewrite Hf.
    destruct (construct sb (kn_core sender) (cf_eon c) (cf_kci c) ids) as [[c' m]|]; [|discriminate].
    unfold intercept_shares. simpl kn_fl. rewrite Hf. intros [= _ <-]. exists c', m. split; reflexivity.
  Qed.

  Lemma zlookup_upsert l k v : zlookup (upsert_trig l k v) k = Some v.
  Proof. unfold upsert_trig. simpl. rewrite Z.eqb_refl. reflexivity. Qed.

  Lemma tm_gnosis sender c slot txp ids nd2 m' :
    kn_fl sender = NGnosis -> (0 <= cf_kci c < 2 ^ 31)%Z ->
    trigger_message sender c slot txp ids = Some (nd2, m') ->
    exists c' m, construct sb (kn_core sender) (cf_eon c) (cf_kci c) ids = Some (c', m) /\
      (s_eon m = Z.to_N (cf_kci c) -> sh_ids m = ids ->
       m' = mkSharesMsg (s_inst m) (s_eon m) (s_kidx m) (s_shares m)
              (SxGnosis (u64_of_i64 slot) (u64_of_i64 txp)
                 (SigBy (c_self c') (TGnosis (c_instance c') (s_eon m) (u64_of_i64 slot) (u64_of_i64 txp) ids)))).
  Proof.
    intros Hf Hk. unfold trigger_message. rewrite Hf.
    change (kn_core (mkKNode NGnosis (kn_g sender) (kn_sigs sender) (upsert_trig (kn_trig sender) (cf_kci c) (slot, txp, ids))))
      with (kn_core sender).
    destruct (construct sb (kn_core sender) (cf_eon c) (cf_kci c) ids) as [[c' m]|]; [|discriminate].
    intros H. exists c', m. split; [reflexivity|]. intros He Hids.
    unfold intercept_shares in H. simpl kn_fl in H. simpl kn_trig in H.
    rewrite He, (int_of_u64_kci c Hk), zlookup_upsert, Hids, ids_eqb_refl in H. simpl in H.
    injection H as _ <-. rewrite He. reflexivity.
  Qed.

  Lemma unmarshal_honest m : msg_validate (MShares m) = true ->
    unmarshal_pubsub (WEnv envelope_version (PMsg (MShares m))) = Some (MShares m).
  Proof. intros H. unfold unmarshal_pubsub. rewrite bytes_eqb_refl, H. reflexivity. Qed.

  Theorem honest_shares_accepted fl c sender receiver slot txp ids nd2 m' :
    keyper_flavour fl -> kn_fl sender = fl -> kn_fl receiver = fl ->
    knows c (kn_core sender) -> knows c (kn_core receiver) ->
    (fl <> NCore -> knows_set c (g_f (kn_g receiver))) ->
    nondecreasing None ids -> ids_fit fl c slot txp ids ->
    trigger_message sender c slot txp ids = Some (nd2, m') ->
    validate_at receiver (MShares m') = VAccept.
  Proof.
    intros Hfl Hsf Hrf Hks Hkr Hset Hsorted Hfit Htm.
    assert (Hk : (0 <= cf_kci c < 2 ^ 31)%Z) by (destruct Hks as [_ [_ [_ [Hk _]]]]; exact Hk).
    (* the constructed message and what the core validator says *)
    assert (Hcons : exists c' m, construct sb (kn_core sender) (cf_eon c) (cf_kci c) ids = Some (c', m)).
    { destruct Hfl as [-> | [-> | ->]].
      - destruct (tm_core _ _ _ _ _ _ _ Hsf Htm) as [c' H]. eauto.
      - destruct (tm_gnosis _ _ _ _ _ _ _ Hsf Hk Htm) as [c' [m [H _]]]. eauto.
      - destruct (tm_service _ _ _ _ _ _ _ Hsf Htm) as [c' [m [H _]]]. eauto. }
    destruct Hcons as [c' [m Hc]].
    pose proof (core_accepts_honest_shares sb c (kn_core sender) (kn_core receiver) ids c' m Hks Hkr Hsorted Hc) as Hcoreacc.
    destruct (construct_facts sb c (kn_core sender) ids c' m Hks Hc) as [kidx [Hidx [Hm [Hne [Hlen Hc']]]]].
    destruct (index_of_bound _ _ _ Hidx) as [Hb Hnth].
    assert (Hinst : c_instance (kn_core sender) = cf_inst c) by (destruct Hks as [H _]; exact H).
    unfold validate_at. change (topic_of_msg (MShares m')) with TpShares.
    apply (combined_accept_iff (validators_for (kn_fl receiver) TpShares) (kn_g receiver) TpShares TpShares).
    { rewrite Hrf. destruct Hfl as [-> | [-> | ->]]; unfold validators_for, validators_of, registered, registered_with; simpl; discriminate. }
    { apply validators_of_topic. }
    split; [reflexivity|]. exists (MShares m'). rewrite Hrf.
    destruct Hfl as [-> | [-> | ->]].
    - (* core *)
      destruct (tm_core _ _ _ _ _ _ _ Hsf Htm) as [c'' H]. rewrite Hc in H. injection H as _ <-.
      split; [apply unmarshal_honest; rewrite Hm; apply msg_validate_honest|]. split; [reflexivity|].
      unfold validators_for, validators_of, registered, registered_with. simpl filter.
      repeat constructor. simpl. exact Hcoreacc.
    - (* Gnosis *)
      destruct (tm_gnosis _ _ _ _ _ _ _ Hsf Hk Htm) as [c'' [m2 [H Hm']]]. rewrite Hc in H. injection H as <- <-.
      assert (E1 : s_eon m = Z.to_N (cf_kci c)) by (rewrite Hm; reflexivity).
      assert (E2 : sh_ids m = ids) by (rewrite Hm; unfold sh_ids; simpl; apply honest_shares_ids).
      specialize (Hm' E1 E2). subst m'. destruct Hfit as [Hh [Hs Hp]].
      split; [apply unmarshal_honest; rewrite Hm; apply msg_validate_honest|]. split; [reflexivity|].
      unfold validators_for, validators_of, registered, registered_with. simpl filter.
      constructor; [|constructor; [|constructor]].
      + simpl. unfold validate_shares_gnosis. simpl s_extra.
        rewrite (u64_of_i64_nonneg _ Hs), (u64_of_i64_nonneg _ Hp).
        assert ((max_int64 <? Z.to_N slot)%N = false) as -> by (apply N.ltb_ge; unfold max_int64; lia).
        assert ((max_int64 <? Z.to_N txp)%N = false) as -> by (apply N.ltb_ge; unfold max_int64; lia).
        rewrite Hc'. simpl c_self. simpl c_instance. rewrite Hinst.
        unfold sh_ids. simpl s_shares. simpl s_inst. simpl s_eon. rewrite Hm. simpl s_shares. simpl s_inst. simpl s_eon.
        rewrite honest_shares_ids.
        apply (share_sig_accepts c (g_f (kn_g receiver)) _ kidx (c_self (kn_core sender))); try assumption; try reflexivity.
        apply Hset. discriminate.
      + simpl. unfold validate_shares. simpl s_inst. simpl s_eon. simpl s_shares. simpl s_kidx.
        exact Hcoreacc.
    - (* service *)
      destruct (tm_service _ _ _ _ _ _ _ Hsf Htm) as [c'' [m2 [H Hm']]]. rewrite Hc in H. injection H as <- <-.
      subst m'.
      split; [apply unmarshal_honest; rewrite Hm; apply msg_validate_honest|]. split; [reflexivity|].
      unfold validators_for, validators_of, registered, registered_with. simpl filter.
      constructor; [|constructor; [|constructor]].
      + simpl. unfold validate_shares_service. simpl s_extra.
        rewrite Hc'. simpl c_self. simpl c_instance. rewrite Hinst.
        unfold sh_ids. simpl s_shares. simpl s_inst. simpl s_eon. rewrite Hm. simpl s_shares. simpl s_inst. simpl s_eon.
        rewrite honest_shares_ids.
        apply (share_sig_accepts c (g_f (kn_g receiver)) _ kidx (c_self (kn_core sender))); try assumption; try reflexivity.
        apply Hset. discriminate.
      + simpl. unfold validate_shares. simpl s_inst. simpl s_eon. simpl s_shares. simpl s_kidx.
        exact Hcoreacc.
  Qed.
End Publish.

(* ------------------------------------------------------------------------------------- *)
(* libp2p validates a local publish with the node's own validator *)
Section OwnPublish.
  Variable sb : N -> N -> bytes -> bytes.

  Lemma fl_set_core_eq nd c' : kn_fl (set_core nd c') = kn_fl nd.
  Proof. reflexivity. Qed.

  Lemma trigger_message_post sender c slot txp ids nd2 m' :
    keyper_flavour (kn_fl sender) -> knows c (kn_core sender) ->
    trigger_message sb sender c slot txp ids = Some (nd2, m') ->
    kn_fl nd2 = kn_fl sender /\ knows c (kn_core nd2) /\ f_ksets (g_f (kn_g nd2)) = f_ksets (g_f (kn_g sender)).
  Proof.
    intros Hfl Hk Htm. unfold trigger_message in Htm.
    set (nd0 := match kn_fl sender with
                | NGnosis => mkKNode (kn_fl sender) (kn_g sender) (kn_sigs sender) (upsert_trig (kn_trig sender) (cf_kci c) (slot, txp, ids))
                | _ => sender end) in *.
    assert (H0 : kn_core nd0 = kn_core sender /\ kn_fl nd0 = kn_fl sender /\ kn_g nd0 = kn_g sender).
    { unfold nd0. destruct (kn_fl sender) eqn:E; repeat split; try reflexivity; try exact E. }
    destruct H0 as [H0 [H1 H2]]. rewrite H0 in Htm.
    destruct (construct sb (kn_core sender) (cf_eon c) (cf_kci c) ids) as [[c' m]|] eqn:Hc; [|discriminate].
    pose proof (knows_construct sb c _ ids c' m Hk Hc) as Hk'.
    unfold intercept_shares in Htm. rewrite fl_set_core_eq in Htm.
    rewrite H1 in Htm.
    destruct Hfl as [E | [E | E]]; rewrite E in Htm.
    - injection Htm as <- _. split; [exact H1|]. split; [exact Hk'|]. simpl. rewrite H2. reflexivity.
    - destruct (zlookup (kn_trig (set_core nd0 c')) (int_of_u64 (s_eon m))) as [[[sl tp] tids]|]; [|discriminate].
      destruct (negb _); [discriminate|]. injection Htm as <- _. split; [exact H1|]. split; [exact Hk'|]. simpl. rewrite H2. reflexivity.
    - injection Htm as <- _. split; [exact H1|]. split; [exact Hk'|]. simpl. rewrite H2. reflexivity.
  Qed.

  Theorem own_publish_passes c sender slot txp ids nd2 m' :
    keyper_flavour (kn_fl sender) -> knows c (kn_core sender) ->
    (kn_fl sender <> NCore -> knows_set c (g_f (kn_g sender))) ->
    nondecreasing None ids -> ids_fit (kn_fl sender) c slot txp ids ->
    trigger_message sb sender c slot txp ids = Some (nd2, m') ->
    validate_at nd2 (MShares m') = VAccept.
  Proof.
    intros Hfl Hk Hset Hsorted Hfit Htm.
    destruct (trigger_message_post sender c slot txp ids nd2 m' Hfl Hk Htm) as [H1 [H2 H3]].
    apply (honest_shares_accepted sb (kn_fl sender) c sender nd2 slot txp ids nd2 m'); try assumption; try reflexivity.
    intros Hne. unfold knows_set in *. rewrite H3. apply Hset. exact Hne.
  Qed.
End OwnPublish.
