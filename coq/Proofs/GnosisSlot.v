(* Proofs about Model.GnosisSlot: the selection of identities (the C19_selection theorems), the slot
   identity (C19_slot_identity_first), row order independence (C19_two_keypers_identical). The
   pointer bookkeeping over histories is in Proofs/GnosisSlotHistory.v. *)
From Coq Require Import List NArith ZArith Bool Lia Permutation Sorted.
From Verif Require Import Lib.Bytes Model.GnosisSlot Proofs.GnosisSlotSort.
Import ListNotations.
Open Scope Z_scope.

(* ---------- machine integers ---------------------------------------------------------- *)

Lemma u64_small x : 0 <= x < two64 -> u64 x = x.
Proof. intros H. unfold u64. apply Z.mod_small. exact H. Qed.

Lemma to_i64_small x : 0 <= x < two63 -> to_i64 x = x.
Proof.
  intros H. unfold to_i64. rewrite Z.mod_small by (unfold two63, two64 in *; lia).
  destruct (x <? two63) eqn:E; [reflexivity|]. apply Z.ltb_ge in E. lia.
Qed.

Lemma to_i64_range x : - two63 <= to_i64 x < two63.
Proof.
  unfold to_i64. pose proof (Z.mod_pos_bound x two64 ltac:(unfold two64; lia)) as Hb.
  destruct (x mod two64 <? two63) eqn:E.
  - apply Z.ltb_lt in E. unfold two63 in *. lia.
  - apply Z.ltb_ge in E. unfold two63, two64 in *. lia.
Qed.

(* ---------- ztake --------------------------------------------------------------------- *)

Lemma ztake_all {A} (n : Z) (l : list A) : Z.of_nat (length l) <= n -> ztake n l = l.
Proof.
  revert n. induction l as [|x t IH]; intros n H; simpl; [reflexivity|].
  simpl length in H. rewrite Nat2Z.inj_succ in H.
  destruct (n <=? 0) eqn:E; [apply Z.leb_le in E; lia|].
  f_equal. apply IH. lia.
Qed.

Lemma ztake_firstn {A} (n : Z) (l : list A) : ztake n l = firstn (Z.to_nat n) l.
Proof.
  revert n. induction l as [|x t IH]; intros n; simpl; [rewrite firstn_nil; reflexivity|].
  destruct (n <=? 0) eqn:E.
  - apply Z.leb_le in E. replace (Z.to_nat n) with 0%nat by lia. reflexivity.
  - apply Z.leb_gt in E. replace (Z.to_nat n) with (S (Z.to_nat (n - 1))) by lia.
    simpl. f_equal. apply IH.
Qed.

(* ---------- well-formed queues -------------------------------------------------------- *)

Definition qkey (r : qrow) : Z * Z := (q_index r, q_eon r).

(* the table's primary key (index, eon) and the range of the bigint column gas_limit with its
   CHECK (gas_limit >= 0) *)
Definition queue_wf (q : list qrow) : Prop :=
  NoDup (map qkey q) /\ Forall (fun r => 0 <= q_gas r < two63) q.

Definition idx_lt (a b : qrow) : Prop := q_index a < q_index b.

Lemma filter_perm {A} (f : A -> bool) l1 l2 : Permutation l1 l2 -> Permutation (filter f l1) (filter f l2).
Proof.
  induction 1 as [|x l l' _ IH|x y l|l l' l'' _ IH1 _ IH2]; simpl.
  - constructor.
  - destruct (f x); [apply perm_skip|]; exact IH.
  - destruct (f x), (f y); try apply Permutation_refl. apply perm_swap.
  - eapply Permutation_trans; eauto.
Qed.

Lemma nodup_map_filter {A B} (g : A -> B) (f : A -> bool) l :
  NoDup (map g l) -> NoDup (map g (filter f l)).
Proof.
  induction l as [|x t IH]; simpl; intros H; [constructor|].
  inversion H as [|? ? Hn Hd]; subst.
  destruct (f x); simpl; [|apply IH; exact Hd].
  constructor; [|apply IH; exact Hd].
  intros Hin. apply Hn. apply in_map_iff in Hin as [y [Hy Hin]]. apply filter_In in Hin as [Hin _].
  apply in_map_iff. exists y. split; assumption.
Qed.

(* rows of one eon have distinct indices *)
Lemma nodup_index_of_eon (l : list qrow) e :
  NoDup (map qkey l) -> Forall (fun r => q_eon r = e) l -> NoDup (map q_index l).
Proof.
  induction l as [|x t IH]; simpl; intros Hn Hf; [constructor|].
  inversion Hn as [|? ? Hx Hd]; subst. inversion Hf as [|? ? Hex Hft]; subst.
  constructor; [|apply IH; assumption].
  intros Hin. apply Hx. apply in_map_iff in Hin as [y [Hy Hin]].
  apply in_map_iff. exists y. split; [|exact Hin].
  rewrite Forall_forall in Hft. unfold qkey. rewrite Hy, (Hft _ Hin). reflexivity.
Qed.

Lemma window_rows_eon q e p lim :
  Forall (fun r => q_eon r = e) (filter (in_window e p lim) q).
Proof.
  apply Forall_forall. intros r Hin. apply filter_In in Hin as [_ H].
  unfold in_window in H. apply andb_true_iff in H as [H _]. apply andb_true_iff in H as [H _].
  apply Z.eqb_eq in H. exact H.
Qed.

Lemma in_window_iff e p lim r :
  in_window e p lim r = true <-> q_eon r = e /\ p <= q_index r < p + lim.
Proof.
  unfold in_window. rewrite !andb_true_iff, Z.eqb_eq, Z.leb_le, Z.ltb_lt. tauto.
Qed.

(* at most [lim] distinct integers lie in [p, p + lim) *)
Lemma interval_pigeonhole (l : list Z) p lim :
  0 <= lim -> NoDup l -> (forall x, In x l -> p <= x < p + lim) -> Z.of_nat (length l) <= lim.
Proof.
  intros Hlim Hnd Hin.
  assert (Hincl : incl l (map (fun i => p + Z.of_nat i) (seq 0 (Z.to_nat lim)))).
  { intros x Hx. specialize (Hin _ Hx). apply in_map_iff. exists (Z.to_nat (x - p)). split; [lia|].
    apply in_seq. lia. }
  pose proof (NoDup_incl_length Hnd Hincl) as H. rewrite map_length, seq_length in H. lia.
Qed.

(* ---------- the rows the query returns ------------------------------------------------- *)

Lemma idx_leb_total a b : idx_leb a b = true \/ idx_leb b a = true.
Proof. unfold idx_leb. destruct (Z.leb_spec (q_index a) (q_index b)); [left; reflexivity|right; apply Z.leb_le; lia]. Qed.

Lemma idx_leb_trans a b c : idx_leb a b = true -> idx_leb b c = true -> idx_leb a c = true.
Proof. unfold idx_leb. rewrite !Z.leb_le. lia. Qed.

Lemma idx_leb_antisym_on (l : list qrow) :
  NoDup (map q_index l) ->
  forall a b, In a l -> In b l -> idx_leb a b = true -> idx_leb b a = true -> a = b.
Proof.
  intros Hnd a b Ha Hb H1 H2. unfold idx_leb in *. apply Z.leb_le in H1, H2.
  assert (E : q_index a = q_index b) by lia.
  clear H1 H2. induction l as [|x t IH]; [contradiction|].
  simpl in Hnd. inversion Hnd as [|? ? Hx Hd]; subst.
  destruct Ha as [Ha|Ha], Hb as [Hb|Hb]; subst.
  - reflexivity.
  - exfalso. apply Hx. rewrite E. apply in_map. exact Hb.
  - exfalso. apply Hx. rewrite <- E. apply in_map. exact Ha.
  - apply IH; assumption.
Qed.

(* strongly sorted by <= with distinct keys is strictly ascending *)
Lemma strict_of_nodup (l : list qrow) :
  StronglySorted (lerel qrow idx_leb) l -> NoDup (map q_index l) -> StronglySorted idx_lt l.
Proof.
  induction l as [|x t IH]; intros Hs Hn; [constructor|].
  inversion Hs as [|? ? Hst Hf]; subst. simpl in Hn. inversion Hn as [|? ? Hx Hd]; subst.
  constructor; [apply IH; assumption|].
  rewrite Forall_forall in *. intros y Hy. specialize (Hf _ Hy). unfold lerel, idx_leb in Hf.
  apply Z.leb_le in Hf. unfold idx_lt.
  assert (q_index x <> q_index y) by (intros E; apply Hx; rewrite E; apply in_map; exact Hy). lia.
Qed.

(* what the query GetTransactionSubmittedEvents(eon, p, lim) returns: the rows of the eon with
   p <= index < p + lim, ascending by index *)
Definition window_rows (q : list qrow) (e p lim : Z) (cands : list qrow) : Prop :=
  StronglySorted idx_lt cands /\
  forall r, In r cands <-> In r q /\ q_eon r = e /\ p <= q_index r < p + lim.

Lemma select_events_spec q e p lim :
  queue_wf q -> 0 <= lim -> p + lim <= max_i64 ->
  exists cands, select_events q e p lim = Some cands /\ window_rows q e p lim cands.
Proof.
  intros [Hnd _] Hlim Hov. unfold select_events.
  destruct (p + lim >? max_i64) eqn:E; [apply Z.gtb_lt in E; lia|].
  set (w := filter (in_window e p lim) q).
  assert (Hwn : NoDup (map q_index w)).
  { apply (nodup_index_of_eon w e); [apply nodup_map_filter; exact Hnd|apply window_rows_eon]. }
  assert (Hsn : NoDup (map q_index (isort_by idx_leb w))).
  { eapply Permutation_NoDup; [|exact Hwn]. apply Permutation_map, Permutation_sym, isort_by_perm. }
  assert (Hlen : Z.of_nat (length (isort_by idx_leb w)) <= lim).
  { rewrite <- (map_length q_index). apply (interval_pigeonhole _ p); [exact Hlim|exact Hsn|].
    intros x Hx. apply in_map_iff in Hx as [r [<- Hr]].
    apply (Permutation_in _ (isort_by_perm _ idx_leb w)) in Hr.
    apply filter_In in Hr as [_ Hr]. apply in_window_iff in Hr. tauto. }
  rewrite ztake_all by exact Hlen.
  eexists. split; [reflexivity|]. split.
  - apply strict_of_nodup; [|exact Hsn].
    apply sorted_strongly; [exact idx_leb_trans|]. apply isort_by_sorted. exact idx_leb_total.
  - intros r. split.
    + intros Hr. apply (Permutation_in _ (isort_by_perm _ idx_leb w)) in Hr.
      apply filter_In in Hr as [Hq Hr]. apply in_window_iff in Hr. tauto.
    + intros [Hq Hr]. apply (Permutation_in _ (Permutation_sym (isort_by_perm _ idx_leb w))).
      apply filter_In. split; [exact Hq|]. apply in_window_iff. exact Hr.
Qed.

(* ---------- the selection loop against the property's selection ------------------------- *)

(* identity preimages of a list of rows; None if a sender does not decode *)
Fixpoint all_ids (l : list qrow) : option (list bytes) :=
  match l with
  | [] => Some []
  | r :: t => match event_identity r, all_ids t with
              | Some i, Some is => Some (i :: is)
              | _, _ => None
              end
  end.

(* the loop without the decoding *)
Fixpoint sel_rows (L acc : Z) (taken : bool) (evs : list qrow) : list qrow :=
  match evs with
  | [] => []
  | r :: t =>
      let acc' := u64 (acc + u64 (q_gas r)) in
      if (acc' >? L) && taken then [] else r :: sel_rows L acc' true t
  end.

Lemma sel_loop_rows L acc taken evs :
  sel_loop L acc taken evs = all_ids (sel_rows L acc taken evs).
Proof.
  revert acc taken. induction evs as [|r t IH]; intros acc taken; simpl; [reflexivity|].
  destruct ((u64 (acc + u64 (q_gas r)) >? L) && taken); simpl; [reflexivity|].
  rewrite IH. destruct (event_identity r); [|reflexivity].
  destruct (all_ids (sel_rows L (u64 (acc + u64 (q_gas r))) true t)); reflexivity.
Qed.

(* The property's selection on the candidate rows in queue order: the first row, then rows
   while the cumulative gas (including the row) stays within the limit L. *)
Fixpoint within (budget : Z) (l : list qrow) : list qrow :=
  match l with
  | [] => []
  | r :: t => if q_gas r <=? budget then r :: within (budget - q_gas r) t else []
  end.

Definition spec_select (L : Z) (l : list qrow) : list qrow :=
  match l with
  | [] => []
  | r :: t => r :: within (L - q_gas r) t
  end.

Definition sum_gas (l : list qrow) : Z := fold_right (fun r s => q_gas r + s) 0 l.

Definition gas_ok (l : list qrow) : Prop := Forall (fun r => 0 <= q_gas r < two63) l.

Lemma sum_gas_nonneg l : gas_ok l -> 0 <= sum_gas l.
Proof.
  induction 1 as [|r t Hr _ IH]; simpl; [lia|]. lia.
Qed.

Lemma sel_rows_within_nowrap L acc evs :
  gas_ok evs -> 0 <= acc -> acc + sum_gas evs < two64 ->
  sel_rows L acc true evs = within (L - acc) evs.
Proof.
  revert acc. induction evs as [|r t IH]; intros acc Hg Hacc Hsum; simpl; [reflexivity|].
  inversion Hg as [|? ? Hr Ht]; subst. simpl in Hsum.
  pose proof (sum_gas_nonneg _ Ht) as Hnn.
  rewrite (u64_small (q_gas r)) by (unfold two63, two64 in *; lia).
  rewrite (u64_small (acc + q_gas r)) by lia.
  rewrite andb_true_r.
  destruct (acc + q_gas r >? L) eqn:E.
  - apply Z.gtb_lt in E. destruct (q_gas r <=? L - acc) eqn:E2; [apply Z.leb_le in E2; lia|reflexivity].
  - destruct (q_gas r <=? L - acc) eqn:E2.
    + f_equal. rewrite IH by (try assumption; lia). f_equal. lia.
    + apply Z.leb_gt in E2. assert (H : (acc + q_gas r >? L) = true) by (apply Z.gtb_lt; lia). congruence.
Qed.

Lemma sel_rows_within_small L acc evs :
  gas_ok evs -> L < two63 -> 0 <= acc < two63 ->
  sel_rows L acc true evs = within (L - acc) evs.
Proof.
  revert acc. induction evs as [|r t IH]; intros acc Hg HL Hacc; simpl; [reflexivity|].
  inversion Hg as [|? ? Hr Ht]; subst.
  rewrite (u64_small (q_gas r)) by (unfold two63, two64 in *; lia).
  rewrite (u64_small (acc + q_gas r)) by (unfold two63, two64 in *; lia).
  rewrite andb_true_r.
  destruct (acc + q_gas r >? L) eqn:E.
  - apply Z.gtb_lt in E. destruct (q_gas r <=? L - acc) eqn:E2; [apply Z.leb_le in E2; lia|reflexivity].
  - assert (Hle : acc + q_gas r <= L).
    { destruct (Z.gtb_spec (acc + q_gas r) L); [discriminate|lia]. }
    destruct (q_gas r <=? L - acc) eqn:E2; [|apply Z.leb_gt in E2; lia].
    f_equal. rewrite IH by (try assumption; lia). f_equal. lia.
Qed.

(* hypothesis 1 of the property (the uint64 gas counter does not wrap), in either form *)
Definition no_wrap (L : Z) (cands : list qrow) : Prop := L < two63 \/ sum_gas cands < two64.

Lemma sel_rows_spec L evs :
  gas_ok evs -> no_wrap L evs -> sel_rows L 0 false evs = spec_select L evs.
Proof.
  intros Hg Hw. destruct evs as [|r t]; simpl; [reflexivity|].
  inversion Hg as [|? ? Hr Ht]; subst.
  rewrite (u64_small (q_gas r)) by (unfold two63, two64 in *; lia).
  rewrite ?(u64_small (q_gas r)) by (unfold two63, two64 in *; lia).
  rewrite andb_false_r. f_equal.
  destruct Hw as [HL|Hs].
  - apply sel_rows_within_small; [assumption|assumption|lia].
  - apply sel_rows_within_nowrap; [assumption|lia|exact Hs].
Qed.

(* what [spec_select] is, in the words of the property: a prefix of the candidates, non-empty
   if there is a candidate, whose cumulative gas stays within the limit unless it is the single
   forced transaction, and which cannot be extended by the next candidate *)
Lemma within_firstn b l : within b l = firstn (length (within b l)) l.
Proof.
  revert b. induction l as [|r t IH]; intros b; simpl; [reflexivity|].
  destruct (q_gas r <=? b); simpl; [f_equal; apply IH|reflexivity].
Qed.

Lemma within_sum b l : gas_ok l -> 0 <= b -> sum_gas (within b l) <= b.
Proof.
  revert b. induction l as [|r t IH]; intros b Hg Hb; simpl; [lia|].
  inversion Hg as [|? ? Hr Ht]; subst.
  destruct (q_gas r <=? b) eqn:E; simpl; [|lia].
  apply Z.leb_le in E. specialize (IH (b - q_gas r) Ht). lia.
Qed.

Lemma within_maximal b l :
  (length (within b l) < length l)%nat ->
  sum_gas (firstn (S (length (within b l))) l) > b.
Proof.
  revert b. induction l as [|r t IH]; intros b Hlt; simpl in *; [lia|].
  destruct (q_gas r <=? b) eqn:E; simpl in *.
  - apply Z.leb_le in E. specialize (IH (b - q_gas r)). 
    assert (H : (length (within (b - q_gas r) t) < length t)%nat) by lia.
    specialize (IH H). destruct t as [|r2 t2]; simpl in *; [lia|]. lia.
  - apply Z.leb_gt in E. destruct t; simpl; lia.
Qed.

Theorem spec_select_longest_prefix L l :
  gas_ok l -> 0 <= L ->
  let n := length (spec_select L l) in
  spec_select L l = firstn n l /\
  (l <> [] -> (1 <= n)%nat) /\
  (sum_gas (spec_select L l) <= L \/ n = 1%nat) /\
  ((n < length l)%nat -> sum_gas (firstn (S n) l) > L).
Proof.
  intros Hg HL. destruct l as [|r t]; simpl.
  - split; [reflexivity|]. split; [congruence|]. split; [left; lia|lia].
  - inversion Hg as [|? ? Hr Ht]; subst. repeat split.
    + f_equal. apply within_firstn.
    + intros _. lia.
    + destruct (Z.le_gt_cases (q_gas r) L) as [Hle|Hgt].
      * left. pose proof (within_sum (L - q_gas r) t Ht ltac:(lia)). lia.
      * right. destruct t as [|r2 t2]; simpl; [reflexivity|].
        inversion Ht as [|? ? Hr2 _]; subst.
        destruct (q_gas r2 <=? L - q_gas r) eqn:E; [apply Z.leb_le in E; lia|reflexivity].
    + intros Hlt. pose proof (within_maximal (L - q_gas r) t ltac:(lia)) as H.
      destruct t as [|r2 t2]; simpl in *; lia.
Qed.

(* ---------- C19_selection_within_window ------------------------------------------------- *)

(* a configuration under which getDecryptionIdentityPreimages neither panics (division by zero)
   nor refuses ("gas limit too big") *)
Definition cfg_ok (cfg : config) : Prop :=
  0 < cfg_min_gas cfg /\ 0 <= cfg_gas_limit cfg /\ row_limit cfg <= max_i32.

Lemma row_limit_nonneg cfg : 0 <= row_limit cfg.
Proof. unfold row_limit, u64. apply Z.mod_pos_bound. unfold two64. lia. Qed.

Lemma gas_ok_sub (q l : list qrow) : gas_ok q -> (forall r, In r l -> In r q) -> gas_ok l.
Proof.
  unfold gas_ok. rewrite !Forall_forall. intros H Hs r Hr. apply H, Hs, Hr.
Qed.

Theorem selection_within_window cfg q slot e p :
  queue_wf q -> cfg_ok cfg -> p + row_limit cfg <= max_i64 ->
  exists cands,
    window_rows q e p (row_limit cfg) cands /\
    (no_wrap (cfg_gas_limit cfg) cands ->
     match all_ids (spec_select (cfg_gas_limit cfg) cands) with
     | Some txids =>
         exists ids, identities cfg q slot e p = IdsOk ids /\ Sorted ble ids /\
                     Permutation ids (slot_identity slot :: txids)
     | None => identities cfg q slot e p = IdsErr ESender
     end).
Proof.
  intros Hq [Hmg [HL Hlim]] Hov.
  destruct (select_events_spec q e p (row_limit cfg) Hq (row_limit_nonneg cfg) Hov) as [cands [Hsel Hw]].
  exists cands. split; [exact Hw|]. intros Hnw.
  assert (Hg : gas_ok cands).
  { apply (gas_ok_sub q); [apply Hq|]. intros r Hr. apply Hw in Hr. tauto. }
  unfold identities, identities_unsorted.
  destruct (cfg_min_gas cfg =? 0) eqn:E0; [apply Z.eqb_eq in E0; lia|].
  destruct (row_limit cfg >? max_i32) eqn:E1; [apply Z.gtb_lt in E1; lia|].
  rewrite Hsel, sel_loop_rows, (sel_rows_spec _ _ Hg Hnw).
  destruct (all_ids (spec_select (cfg_gas_limit cfg) cands)) as [txids|]; [|reflexivity].
  eexists. split; [reflexivity|]. split; [apply sort_ids_sorted|apply sort_ids_perm].
Qed.

(* ---------- the slot identity comes first ---------------------------------------------- *)

Lemma bytes_cmp_zeros_prefix n (l x y : bytes) :
  length l = n -> l <> zeros n -> bytes_cmp (zeros n ++ x) (l ++ y) = Lt.
Proof.
  revert l. induction n as [|n IH]; intros l Hlen Hne.
  - destruct l; [exfalso; apply Hne; reflexivity|discriminate].
  - destruct l as [|b l]; [discriminate|]. simpl in Hlen. injection Hlen as Hlen.
    simpl. destruct b as [|pb]; simpl; [|reflexivity].
    apply IH; [exact Hlen|]. intros E. apply Hne. simpl. rewrite E. reflexivity.
Qed.

Lemma bytes_cmp_app_same (z x y : bytes) : bytes_cmp (z ++ x) (z ++ y) = bytes_cmp x y.
Proof.
  induction z as [|b z IH]; simpl; [reflexivity|]. rewrite N.compare_refl. exact IH.
Qed.

Lemma hex_pairs_length : forall s t, hex_pairs s = Some t -> length s = (2 * length t)%nat.
Proof.
  fix IH 1. intros [|a [|b r]] t; simpl; intros H.
  - injection H as <-. reflexivity.
  - discriminate.
  - destruct (hexdigit a); [|discriminate]. destruct (hexdigit b); [|discriminate].
    destruct (hex_pairs r) as [t'|] eqn:E; [|discriminate]. injection H as <-.
    apply IH in E. simpl. lia.
Qed.

Lemma decode_address_length s a : decode_address s = Some a -> length a = 20%nat.
Proof.
  unfold decode_address. destruct (Z.of_nat (length (strip_0x s)) =? 40) eqn:E; [|discriminate].
  intros H. apply hex_pairs_length in H. apply Z.eqb_eq in E. lia.
Qed.

(* The environment assumption of the property (hypothesis 2): the identity prefix has the 32
   bytes the sequencer contract emits, and the transaction is not the adversarial one whose
   prefix is all zero while its sender address has twelve leading zero bytes, i.e. is below
   2^64 as an integer (sender addresses are Keccak outputs). *)
Definition not_small_sender (r : qrow) : Prop :=
  length (q_prefix r) = 32%nat /\
  forall a, decode_address (q_sender r) = Some a -> q_prefix r <> zeros 32 \/ firstn 12 a <> zeros 12.

Lemma slot_identity_below r i slot :
  not_small_sender r -> event_identity r = Some i -> bytes_leb (slot_identity slot) i = true.
Proof.
  intros [Hlen Hns] Hi. unfold event_identity in Hi.
  destruct (decode_address (q_sender r)) as [a|] eqn:Ea; [|discriminate]. injection Hi as <-.
  pose proof (decode_address_length _ _ Ea) as Hla.
  unfold bytes_leb, slot_identity.
  destruct (Hns a eq_refl) as [Hp|Ha].
  - rewrite (bytes_cmp_zeros_prefix 32 (q_prefix r)); [reflexivity|exact Hlen|exact Hp].
  - destruct (bytes_eqb (q_prefix r) (zeros 32)) eqn:Ep.
    + apply bytes_eqb_eq in Ep. rewrite Ep, bytes_cmp_app_same.
      rewrite <- (firstn_skipn 12 a) at 1.
      rewrite (bytes_cmp_zeros_prefix 12 (firstn 12 a)); [reflexivity| |exact Ha].
      rewrite firstn_length. lia.
    + apply bytes_eqb_neq in Ep.
      rewrite (bytes_cmp_zeros_prefix 32 (q_prefix r)); [reflexivity|exact Hlen|exact Ep].
Qed.

Lemma all_ids_in l txids i :
  all_ids l = Some txids -> In i txids -> exists r, In r l /\ event_identity r = Some i.
Proof.
  revert txids. induction l as [|r t IH]; simpl; intros txids H Hin.
  - injection H as <-. contradiction.
  - destruct (event_identity r) as [j|] eqn:Ej; [|discriminate].
    destruct (all_ids t) as [js|]; [|discriminate]. injection H as <-.
    destruct Hin as [<-|Hin].
    + exists r. split; [left; reflexivity|exact Ej].
    + destruct (IH js eq_refl Hin) as [r' [Hr' He]]. exists r'. split; [right; exact Hr'|exact He].
Qed.

(* a sorted permutation of (x :: rest) starts with x when x is below every element of rest *)
Theorem sorted_head_is_least (x : bytes) (rest ids : list bytes) :
  Sorted ble ids -> Permutation ids (x :: rest) ->
  (forall i, In i rest -> bytes_leb x i = true) ->
  hd_error ids = Some x.
Proof.
  intros Hs Hp Hle. destruct ids as [|h t]; [apply Permutation_nil in Hp; discriminate|].
  simpl. f_equal.
  assert (Hh : In h (x :: rest)) by (eapply Permutation_in; [exact Hp|left; reflexivity]).
  assert (Hx : In x (h :: t)) by (eapply Permutation_in; [apply Permutation_sym; exact Hp|left; reflexivity]).
  destruct Hx as [Hx|Hx]; [exact Hx|].
  destruct Hh as [Hh|Hh]; [congruence|].
  apply bytes_leb_antisym.
  - apply (sorted_head_least bytes bytes_leb bytes_leb_trans h t x Hs Hx).
  - apply Hle. exact Hh.
Qed.

(* ---------- the window is invisible on a gap-free queue with gas limits >= the minimum --- *)

(* all rows of the eon from the pointer on, in queue order *)
Definition queue_from (q : list qrow) (e p : Z) (l : list qrow) : Prop :=
  StronglySorted idx_lt l /\ forall r, In r l <-> In r q /\ q_eon r = e /\ p <= q_index r.

(* no index gap from the pointer on: the i-th transaction from the pointer (counting from 0)
   has index p + i (it cannot be smaller; "at most" is what the proof needs) *)
Definition gap_free (p : Z) (l : list qrow) : Prop :=
  forall i r, nth_error l i = Some r -> q_index r <= p + Z.of_nat i.

Lemma rank_lower_bound (l : list qrow) : forall p i r,
  StronglySorted idx_lt l -> (forall x, In x l -> p <= q_index x) ->
  nth_error l i = Some r -> p + Z.of_nat i <= q_index r.
Proof.
  induction l as [|x t IH]; intros p i r Hs Hge Hn; [destruct i; discriminate|].
  inversion Hs as [|? ? Hst Hf]; subst. destruct i as [|j]; simpl in Hn.
  - injection Hn as <-. specialize (Hge x (or_introl eq_refl)). lia.
  - assert (H : p + 1 + Z.of_nat j <= q_index r).
    { apply IH; [exact Hst| |exact Hn]. intros y Hy. rewrite Forall_forall in Hf.
      specialize (Hf _ Hy). unfold idx_lt in Hf. specialize (Hge x (or_introl eq_refl)). lia. }
    lia.
Qed.

Lemma in_firstn_nth {A} (l : list A) : forall k r,
  In r (firstn k l) <-> exists i, (i < k)%nat /\ nth_error l i = Some r.
Proof.
  induction l as [|x t IH]; intros k r.
  - rewrite firstn_nil. split; [contradiction|]. intros [i [_ H]]. destruct i; discriminate.
  - destruct k as [|k]; simpl.
    + split; [contradiction|]. intros [i [H _]]. lia.
    + split.
      * intros [<-|H]; [exists 0%nat; split; [lia|reflexivity]|].
        apply IH in H as [i [Hi Hn]]. exists (S i). split; [lia|exact Hn].
      * intros [i [Hi Hn]]. destruct i as [|i]; simpl in Hn; [left; congruence|].
        right. apply IH. exists i. split; [lia|exact Hn].
Qed.

Lemma strongly_sorted_firstn {A} (R : A -> A -> Prop) (l : list A) : forall k,
  StronglySorted R l -> StronglySorted R (firstn k l).
Proof.
  induction l as [|x t IH]; intros k Hs; [rewrite firstn_nil; constructor|].
  destruct k as [|k]; simpl; [constructor|].
  inversion Hs as [|? ? Hst Hf]; subst. constructor; [apply IH; exact Hst|].
  rewrite Forall_forall in *. intros y Hy. apply Hf.
  rewrite <- (firstn_skipn k t). apply in_or_app. left. exact Hy.
Qed.

Lemma strict_sorted_same_elements (l1 : list qrow) : forall l2,
  StronglySorted idx_lt l1 -> StronglySorted idx_lt l2 ->
  (forall r, In r l1 <-> In r l2) -> l1 = l2.
Proof.
  induction l1 as [|a t1 IH]; intros l2 H1 H2 Hiff.
  - destruct l2 as [|b t2]; [reflexivity|]. exfalso. apply (Hiff b). left. reflexivity.
  - destruct l2 as [|b t2]; [exfalso; apply (Hiff a); left; reflexivity|].
    inversion H1 as [|? ? Hs1 Hf1]; subst. inversion H2 as [|? ? Hs2 Hf2]; subst.
    rewrite Forall_forall in Hf1, Hf2.
    assert (Hab : a = b).
    { destruct (proj1 (Hiff a) (or_introl eq_refl)) as [E|Ia]; [congruence|].
      destruct (proj2 (Hiff b) (or_introl eq_refl)) as [E|Ib]; [congruence|].
      specialize (Hf1 _ Ib). specialize (Hf2 _ Ia). unfold idx_lt in *. lia. }
    subst b. f_equal. apply IH; try assumption.
    intros r. split; intros Hr.
    + destruct (proj1 (Hiff r) (or_intror Hr)) as [E|H]; [|exact H].
      subst r. specialize (Hf1 _ Hr). unfold idx_lt in Hf1. lia.
    + destruct (proj2 (Hiff r) (or_intror Hr)) as [E|H]; [|exact H].
      subst r. specialize (Hf2 _ Hr). unfold idx_lt in Hf2. lia.
Qed.

Lemma within_firstn_comm b (l : list qrow) : forall k, within b (firstn k l) = firstn k (within b l).
Proof.
  revert b. induction l as [|r t IH]; intros b k; [destruct k; reflexivity|].
  destruct k as [|k]; simpl; [reflexivity|].
  destruct (q_gas r <=? b); simpl; [f_equal; apply IH|reflexivity].
Qed.

Lemma spec_select_firstn_comm L (l : list qrow) k :
  spec_select L (firstn k l) = firstn k (spec_select L l).
Proof.
  destruct l as [|r t]; [destruct k; reflexivity|].
  destruct k as [|k]; simpl; [reflexivity|]. f_equal. apply within_firstn_comm.
Qed.

Lemma sum_gas_lower mg (l : list qrow) :
  Forall (fun r => mg <= q_gas r) l -> mg * Z.of_nat (length l) <= sum_gas l.
Proof.
  induction 1 as [|r t Hr _ IH]; simpl length; simpl sum_gas; [lia|].
  rewrite Nat2Z.inj_succ. lia.
Qed.

Lemma sum_gas_firstn_le (l : list qrow) k : gas_ok l -> sum_gas (firstn k l) <= sum_gas l.
Proof.
  revert k. induction l as [|r t IH]; intros k Hg; [rewrite firstn_nil; lia|].
  inversion Hg as [|? ? Hr Ht]; subst. destruct k as [|k]; simpl.
  - pose proof (sum_gas_nonneg _ Ht). lia.
  - specialize (IH k Ht). lia.
Qed.

Lemma forall_firstn {A} (P : A -> Prop) (l : list A) k : Forall P l -> Forall P (firstn k l).
Proof.
  rewrite !Forall_forall. intros H x Hx. apply H.
  rewrite <- (firstn_skipn k l). apply in_or_app. left. exact Hx.
Qed.

(* on a gap-free queue the query window holds the first [lim] rows from the pointer *)
Lemma window_is_prefix q e p lim cands all :
  0 <= lim -> window_rows q e p lim cands -> queue_from q e p all -> gap_free p all ->
  cands = firstn (Z.to_nat lim) all.
Proof.
  intros Hlim [Hcs Hce] [Has Hae] Hgf.
  apply strict_sorted_same_elements; [exact Hcs|apply strongly_sorted_firstn; exact Has|].
  intros r. rewrite Hce, in_firstn_nth. split.
  - intros [Hq [He Hr]].
    assert (Hin : In r all) by (apply Hae; repeat split; try assumption; lia).
    apply In_nth_error in Hin as [i Hi]. exists i. split; [|exact Hi].
    pose proof (rank_lower_bound all p i r Has (fun x Hx => proj2 (proj2 (proj1 (Hae x) Hx))) Hi). lia.
  - intros [i [Hi Hn]]. pose proof (Hgf _ _ Hn) as Hle.
    assert (Hin : In r all) by (eapply nth_error_In; exact Hn).
    apply Hae in Hin as [Hq [He Hp]]. repeat split; try assumption. lia.
Qed.

(* with gas limits of at least the minimum, the property's selection has at most
   gaslimit / mingas + 1 rows *)
Lemma spec_select_length_bound L mg (l : list qrow) :
  gas_ok l -> 0 <= L -> 0 < mg -> Forall (fun r => mg <= q_gas r) l ->
  Z.of_nat (length (spec_select L l)) <= L / mg + 1.
Proof.
  intros Hg HL Hmg Hmin.
  destruct (spec_select_longest_prefix L l Hg HL) as [Hpre [_ [Hsum _]]].
  pose proof (Z.div_pos L mg HL Hmg) as Hd.
  destruct Hsum as [Hsum|H1]; [|lia].
  assert (Hm : Forall (fun r => mg <= q_gas r) (spec_select L l)).
  { rewrite Hpre. apply forall_firstn. exact Hmin. }
  pose proof (sum_gas_lower mg _ Hm) as Hlow.
  assert (Z.of_nat (length (spec_select L l)) <= L / mg).
  { apply Z.div_le_lower_bound; [exact Hmg|lia]. }
  lia.
Qed.

(* C19_selection_spec_partial: the property's wording (the queue from the pointer, no window),
   for queues without index gaps from the pointer whose gas limits are at least
   MinGasPerTransaction. *)
Theorem selection_synced_queue cfg q slot e p all :
  queue_wf q -> cfg_ok cfg -> cfg_gas_limit cfg / cfg_min_gas cfg + 1 < two64 ->
  p + row_limit cfg <= max_i64 ->
  queue_from q e p all -> gap_free p all ->
  Forall (fun r => cfg_min_gas cfg <= q_gas r) all ->
  no_wrap (cfg_gas_limit cfg) all ->
  match all_ids (spec_select (cfg_gas_limit cfg) all) with
  | Some txids =>
      exists ids, identities cfg q slot e p = IdsOk ids /\ Sorted ble ids /\
                  Permutation ids (slot_identity slot :: txids)
  | None => identities cfg q slot e p = IdsErr ESender
  end.
Proof.
  intros Hq Hcfg Hrl Hov Hall Hgf Hmin Hnw.
  destruct (selection_within_window cfg q slot e p Hq Hcfg Hov) as [cands [Hw Hsel]].
  destruct Hcfg as [Hmg [HL Hlim]].
  assert (Hgall : gas_ok all).
  { apply (gas_ok_sub q); [apply Hq|]. intros r Hr. apply Hall in Hr. tauto. }
  assert (Hrow : row_limit cfg = cfg_gas_limit cfg / cfg_min_gas cfg + 1).
  { unfold row_limit. apply u64_small. pose proof (Z.div_pos _ _ HL Hmg). lia. }
  pose proof (window_is_prefix q e p _ cands all (row_limit_nonneg cfg) Hw Hall Hgf) as Hc.
  assert (Hss : spec_select (cfg_gas_limit cfg) cands = spec_select (cfg_gas_limit cfg) all).
  { rewrite Hc, spec_select_firstn_comm. apply firstn_all2.
    pose proof (spec_select_length_bound _ _ all Hgall HL Hmg Hmin). lia. }
  rewrite <- Hss. apply Hsel.
  destruct Hnw as [H|H]; [left; exact H|right].
  rewrite Hc. pose proof (sum_gas_firstn_le all (Z.to_nat (row_limit cfg)) Hgall). lia.
Qed.

(* ---------- two keypers: independence of the physical row order and of the sort ---------- *)

Lemma fold_left_perm {A B} (f : A -> B -> A) :
  (forall a x y, f (f a x) y = f (f a y) x) ->
  forall l l', Permutation l l' -> forall a, fold_left f l a = fold_left f l' a.
Proof.
  intros Hc l l' Hp. induction Hp as [|x l l' _ IH|x y l|l l' l'' _ IH1 _ IH2]; intros a; simpl.
  - reflexivity.
  - apply IH.
  - rewrite Hc. reflexivity.
  - rewrite IH1. apply IH2.
Qed.

Lemma max_index_perm l l' : Permutation l l' -> max_index l = max_index l'.
Proof.
  intros Hp. unfold max_index. apply fold_left_perm; [|exact Hp].
  intros [z|] x y; f_equal; lia.
Qed.

Lemma queue_length_perm q1 q2 e : Permutation q1 q2 -> queue_length q1 e = queue_length q2 e.
Proof.
  intros Hp. unfold queue_length, eon_rows.
  rewrite (max_index_perm _ _ (filter_perm (fun r => q_eon r =? e) _ _ Hp)). reflexivity.
Qed.

Lemma select_events_perm q1 q2 e p lim :
  Permutation q1 q2 -> NoDup (map qkey q1) -> select_events q1 e p lim = select_events q2 e p lim.
Proof.
  intros Hp Hnd. unfold select_events. destruct (p + lim >? max_i64); [reflexivity|].
  f_equal. f_equal.
  apply (isort_by_perm_invariant qrow idx_leb idx_leb_total idx_leb_trans).
  - apply idx_leb_antisym_on. apply (nodup_index_of_eon _ e); [apply nodup_map_filter; exact Hnd|apply window_rows_eon].
  - apply filter_perm. exact Hp.
Qed.

Lemma identities_unsorted_perm cfg q1 q2 slot e p :
  Permutation q1 q2 -> NoDup (map qkey q1) ->
  identities_unsorted cfg q1 slot e p = identities_unsorted cfg q2 slot e p.
Proof.
  intros Hp Hnd. unfold identities_unsorted.
  rewrite (select_events_perm q1 q2 e p (row_limit cfg) Hp Hnd). reflexivity.
Qed.

Lemma identities_perm cfg q1 q2 slot e p :
  Permutation q1 q2 -> NoDup (map qkey q1) ->
  identities cfg q1 slot e p = identities cfg q2 slot e p.
Proof.
  intros Hp Hnd. unfold identities. rewrite (identities_unsorted_perm cfg q1 q2 slot e p Hp Hnd). reflexivity.
Qed.

(* the observable result of triggerDecryption is a function of (the queue as a set of rows, the
   pointer row, the eon of the block, slot, configuration) only *)
Theorem trigger_row_order_independent cfg st1 st2 slot block ks :
  Permutation (st_queue st1) (st_queue st2) ->
  NoDup (map qkey (st_queue st1)) ->
  eon_for_block (st_eons st1) block = eon_for_block (st_eons st2) block ->
  (forall e, get_ptr (st_ptrs st1) e = get_ptr (st_ptrs st2) e) ->
  snd (trigger_decryption cfg st1 slot block ks) = snd (trigger_decryption cfg st2 slot block ks).
Proof.
  intros Hp Hnd He Hptr. unfold trigger_decryption. rewrite He.
  destruct (eon_for_block (st_eons st2) block) as [er|]; [|reflexivity].
  unfold get_tx_pointer. rewrite (Hptr (e_kci er)).
  rewrite (queue_length_perm _ _ (e_kci er) Hp).
  assert (Hid : forall p, identities cfg (st_queue st1) slot ks p = identities cfg (st_queue st2) slot ks p).
  { intros p. apply identities_perm; assumption. }
  destruct (get_ptr (st_ptrs st2) (e_kci er)) as [r|].
  - destruct (outdated (to_i64 (cfg_max_age cfg)) r).
    + destruct (queue_length (st_queue st2) (e_kci er)) as [p|]; [|reflexivity].
      rewrite (Hid p). destruct (identities cfg (st_queue st2) slot ks p); try reflexivity.
      simpl. destruct (set_trigger (st_trigs st1) (e_kci er) (to_i64 slot) p (concat ids)) eqn:E1;
        destruct (set_trigger (st_trigs st2) (e_kci er) (to_i64 slot) p (concat ids)) eqn:E2;
        unfold set_trigger in E1, E2;
        destruct ((e_kci er <? 0) || (to_i64 slot <? 0) || (p <? 0)); try discriminate; reflexivity.
    + rewrite (Hid (p_value r)). destruct (identities cfg (st_queue st2) slot ks (p_value r)); try reflexivity.
      simpl. destruct (set_trigger (st_trigs st1) (e_kci er) (to_i64 slot) (p_value r) (concat ids)) eqn:E1;
        destruct (set_trigger (st_trigs st2) (e_kci er) (to_i64 slot) (p_value r) (concat ids)) eqn:E2;
        unfold set_trigger in E1, E2;
        destruct ((e_kci er <? 0) || (to_i64 slot <? 0) || (p_value r <? 0)); try discriminate; reflexivity.
  - rewrite (Hid 0). destruct (identities cfg (st_queue st2) slot ks 0); try reflexivity.
    simpl. destruct (set_trigger (st_trigs st1) (e_kci er) (to_i64 slot) 0 (concat ids)) eqn:E1;
      destruct (set_trigger (st_trigs st2) (e_kci er) (to_i64 slot) 0 (concat ids)) eqn:E2;
      unfold set_trigger in E1, E2;
      destruct ((e_kci er <? 0) || (to_i64 slot <? 0) || (0 <? 0)); try discriminate; reflexivity.
Qed.

(* ... and whatever (unstable, unspecified) sorting algorithm the two keypers run on the selected
   identities, they end up with the same list, the one of the model *)
Theorem any_sort_same cfg q1 q2 slot e p l1 l2 out1 out2 :
  Permutation q1 q2 -> NoDup (map qkey q1) ->
  identities_unsorted cfg q1 slot e p = IdsOk l1 ->
  identities_unsorted cfg q2 slot e p = IdsOk l2 ->
  Permutation out1 l1 -> Sorted ble out1 ->
  Permutation out2 l2 -> Sorted ble out2 ->
  out1 = out2 /\ identities cfg q1 slot e p = IdsOk out1.
Proof.
  intros Hp Hnd H1 H2 P1 S1 P2 S2.
  rewrite (identities_unsorted_perm cfg q1 q2 slot e p Hp Hnd) in H1.
  rewrite H1 in H2. injection H2 as <-.
  rewrite (sort_ids_unique l1 out1 P1 S1), (sort_ids_unique l1 out2 P2 S2).
  split; [reflexivity|].
  unfold identities. rewrite (identities_unsorted_perm cfg q1 q2 slot e p Hp Hnd), H1. reflexivity.
Qed.

(* ---------- C19_slot_identity_first ------------------------------------------------------ *)

Lemma window_rows_unique q e p lim c1 c2 :
  window_rows q e p lim c1 -> window_rows q e p lim c2 -> c1 = c2.
Proof.
  intros [S1 E1] [S2 E2]. apply strict_sorted_same_elements; [exact S1|exact S2|].
  intros r. rewrite E1, E2. tauto.
Qed.

Theorem slot_identity_first cfg q slot e p ids :
  queue_wf q -> cfg_ok cfg -> p + row_limit cfg <= max_i64 ->
  (forall cands, window_rows q e p (row_limit cfg) cands ->
     no_wrap (cfg_gas_limit cfg) cands /\
     forall r, In r (spec_select (cfg_gas_limit cfg) cands) -> not_small_sender r) ->
  identities cfg q slot e p = IdsOk ids ->
  hd_error ids = Some (slot_identity slot).
Proof.
  intros Hq Hcfg Hov Henv Hids.
  destruct (selection_within_window cfg q slot e p Hq Hcfg Hov) as [cands [Hw Hsel]].
  destruct (Henv cands Hw) as [Hnw Hns]. specialize (Hsel Hnw).
  destruct (all_ids (spec_select (cfg_gas_limit cfg) cands)) as [txids|] eqn:Ea.
  - destruct Hsel as [ids' [Hi [Hs Hp]]]. rewrite Hi in Hids. injection Hids as <-.
    apply (sorted_head_is_least _ txids); [exact Hs|exact Hp|].
    intros i Hi'. destruct (all_ids_in _ _ _ Ea Hi') as [r [Hr He]].
    apply (slot_identity_below r); [apply Hns; exact Hr|exact He].
  - rewrite Hsel in Hids. discriminate.
Qed.

(* ---------- the literal reading of the property is refuted by the query window ---------- *)

Definition ex_sender : bytes := repeat 49%N 40.      (* the text "1111...1", 40 hex digits *)
Definition ex_prefix : bytes := repeat 1%N 32.
Definition ex_row (i gas : Z) : qrow := mkQ i 0 ex_prefix ex_sender gas.
(* row limit 10 / 10 + 1 = 2 *)
Definition ex_cfg_small : config := mkCfg 10 10 3.
(* three queued transactions with gas limit 0 (below MinGasPerTransaction): all three fit into
   the encrypted gas limit *)
Definition ex_queue_cheap : list qrow := [ex_row 0 0; ex_row 1 0; ex_row 2 0].

Lemma ex_not_small i g : not_small_sender (ex_row i g).
Proof.
  split; [reflexivity|]. intros a _. left. discriminate.
Qed.

Theorem selection_literal_refuted :
  exists cfg q slot e p all txids ids,
    queue_wf q /\ cfg_ok cfg /\ p + row_limit cfg <= max_i64 /\
    queue_from q e p all /\ gap_free p all /\
    no_wrap (cfg_gas_limit cfg) all /\ Forall not_small_sender all /\
    all_ids (spec_select (cfg_gas_limit cfg) all) = Some txids /\
    identities cfg q slot e p = IdsOk ids /\
    ~ Permutation ids (slot_identity slot :: txids).
Proof.
  exists ex_cfg_small, ex_queue_cheap, 7, 0, 0, ex_queue_cheap.
  eexists. eexists.
  split.
  { split.
    - simpl. repeat constructor; simpl; intuition discriminate.
    - repeat constructor; unfold two63; simpl; lia. }
  split; [unfold cfg_ok; vm_compute; repeat split; discriminate|].
  split; [vm_compute; discriminate|].
  split.
  { split.
    - repeat constructor; unfold idx_lt; simpl; lia.
    - intros r. split.
      + intros Hr. split; [exact Hr|].
        simpl in Hr. destruct Hr as [<-|[<-|[<-|[]]]]; simpl; lia.
      + tauto. }
  split.
  { intros i r Hn. destruct i as [|[|[|i]]]; simpl in Hn; try (injection Hn as <-; simpl; lia).
    destruct i; discriminate. }
  split; [left; vm_compute; reflexivity|].
  split; [repeat (apply Forall_cons; [apply ex_not_small|]); apply Forall_nil|].
  split; [vm_compute; reflexivity|].
  split; [vm_compute; reflexivity|].
  intros Hp. apply Permutation_length in Hp. vm_compute in Hp. discriminate.
Qed.

(* ---------- concrete instances for the examples of Properties/C19.v --------------------- *)

(* limit 100, minimum 30 (query window 4 rows); five transactions of gas 40 at indices 0..4 *)
Definition xcfg : config := mkCfg 100 30 3.
Definition xq : list qrow := [ex_row 3 40; ex_row 0 40; ex_row 1 40; ex_row 4 40; ex_row 2 40].
Definition xall : list qrow := [ex_row 1 40; ex_row 2 40; ex_row 3 40; ex_row 4 40].
Definition xid : bytes := ex_prefix ++ repeat 17%N 20.
Definition xst : state :=
  mkState xq [] [] [] [mkE 0 0 0 0] [mkK 0 0 true 1] (Some (10, 5)) None.

Lemma xq_wf : queue_wf xq.
Proof.
  split.
  - simpl. repeat constructor; simpl; intuition discriminate.
  - repeat constructor; unfold two63; simpl; lia.
Qed.

Lemma xcfg_ok : cfg_ok xcfg.
Proof. unfold cfg_ok. vm_compute. repeat split; discriminate. Qed.

