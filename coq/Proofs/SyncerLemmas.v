(* Lemmas about views, ranges of blocks, rows and the upsert, used by Proofs/Syncer.v. *)
From Coq Require Import List NArith ZArith Bool Lia.
From Verif Require Import Lib.Bytes Model.Syncer.
Import ListNotations.
Open Scope Z_scope.

(* --------------------------------------------------------------------------------------- *)
(* generic list facts *)

Lemma flat_map_ext_in {A B} (f g : A -> list B) l :
  (forall a, In a l -> f a = g a) -> flat_map f l = flat_map g l.
Proof.
  induction l as [|a l IH]; simpl; intros H; [reflexivity|].
  rewrite (H a) by (left; reflexivity). rewrite IH; [reflexivity|]. intros b Hb. apply H. right. exact Hb.
Qed.

Lemma filter_all {A} (p : A -> bool) l : (forall a, In a l -> p a = true) -> filter p l = l.
Proof.
  induction l as [|a l IH]; simpl; intros H; [reflexivity|].
  rewrite (H a) by (left; reflexivity). f_equal. apply IH. intros b Hb. apply H. right. exact Hb.
Qed.

Lemma filter_none {A} (p : A -> bool) l : (forall a, In a l -> p a = false) -> filter p l = [].
Proof.
  induction l as [|a l IH]; simpl; intros H; [reflexivity|].
  rewrite (H a) by (left; reflexivity). apply IH. intros b Hb. apply H. right. exact Hb.
Qed.

Lemma filter_comm {A} (p q : A -> bool) l : filter p (filter q l) = filter q (filter p l).
Proof.
  induction l as [|a l IH]; simpl; [reflexivity|].
  destruct (q a) eqn:Hq, (p a) eqn:Hp; simpl; rewrite ?Hq, ?Hp, IH; reflexivity.
Qed.

Lemma NoDup_app_l {A} (a b : list A) : NoDup (a ++ b) -> NoDup a.
Proof.
  induction a as [|x a IH]; simpl; intros H; [constructor|].
  inversion H as [|? ? Hn Hd]; subst. constructor.
  - intros Hin. apply Hn. apply in_or_app. left. exact Hin.
  - apply IH. exact Hd.
Qed.

Lemma NoDup_app_r {A} (a b : list A) : NoDup (a ++ b) -> NoDup b.
Proof.
  induction a as [|x a IH]; simpl; intros H; [exact H|].
  inversion H; subst. apply IH. assumption.
Qed.

(* --------------------------------------------------------------------------------------- *)
(* zrange *)

Lemma zrange_n_app s a b : zrange_n s (a + b) = zrange_n s a ++ zrange_n (s + Z.of_nat a) b.
Proof.
  revert s. induction a as [|a IH]; intros s; simpl.
  - f_equal. lia.
  - f_equal. rewrite IH. f_equal. f_equal. lia.
Qed.

Lemma In_zrange_n n s k : In n (zrange_n s k) <-> s <= n < s + Z.of_nat k.
Proof.
  revert s. induction k as [|k IH]; intros s; simpl.
  - lia.
  - rewrite IH. lia.
Qed.

Lemma In_zrange n s e : In n (zrange s e) <-> s <= n <= e.
Proof. unfold zrange. rewrite In_zrange_n. lia. Qed.

Lemma zrange_empty s e : e < s -> zrange s e = [].
Proof. intros H. unfold zrange. replace (Z.to_nat (e - s + 1)) with O by lia. reflexivity. Qed.

Lemma zrange_app s m e : s <= m + 1 -> m <= e -> zrange s m ++ zrange (m + 1) e = zrange s e.
Proof.
  intros H1 H2. unfold zrange.
  replace (Z.to_nat (e - s + 1)) with (Z.to_nat (m - s + 1) + Z.to_nat (e - (m + 1) + 1))%nat by lia.
  rewrite zrange_n_app. f_equal. f_equal. lia.
Qed.

(* --------------------------------------------------------------------------------------- *)

Section Lemmas.
  Variable E : Type.
  Variable K : Type.
  Variable key : E -> K.
  Variable key_eqb : K -> K -> bool.
  Variable admissible : E -> bool.
  Variable merge : pev E -> pev E -> pev E.
  Hypothesis key_eqb_spec : forall a b, key_eqb a b = true <-> a = b.

  Notation view := (view E).
  Notation kf := (fun p : pev E => key (pe_ev p)).
  Notation rows_of := (rows_of admissible).
  Notation upsert := (upsert key key_eqb merge).

  (* ---- blocks, logs, rows *)

  Lemma block_at_Some_range (v : view) n b : block_at v n = Some b -> 0 <= n <= head_number v.
  Proof.
    unfold block_at, head_number. destruct (n <? 0) eqn:Hn; [discriminate|]. apply Z.ltb_ge in Hn.
    intros H. assert (Hl : (Z.to_nat n < length v)%nat) by (apply nth_error_Some; congruence). lia.
  Qed.

  Lemma block_at_in_range (v : view) n : 0 <= n <= head_number v -> exists b, block_at v n = Some b.
  Proof.
    unfold block_at, head_number. intros H. destruct (n <? 0) eqn:Hn; [apply Z.ltb_lt in Hn; lia|].
    destruct (nth_error v (Z.to_nat n)) eqn:Hb; [eauto|]. apply nth_error_None in Hb. lia.
  Qed.

  Lemma block_at_In (v : view) n b : block_at v n = Some b -> In b v.
  Proof. unfold block_at. destruct (n <? 0); [discriminate|]. apply nth_error_In. Qed.

  Lemma pevs_at_block (v : view) n p : In p (pevs_at v n) -> pe_block p = n.
  Proof.
    unfold pevs_at. destruct (block_at v n) as [b|]; [|intros []].
    unfold block_pevs. rewrite in_map_iff. intros (x & <- & _). reflexivity.
  Qed.

  Lemma pevs_at_beyond (v : view) n : head_number v < n -> pevs_at v n = [].
  Proof.
    intros H. unfold pevs_at. destruct (block_at v n) as [b|] eqn:Hb; [|reflexivity].
    apply block_at_Some_range in Hb. lia.
  Qed.

  Lemma logs_of_block (v : view) s e p : In p (logs_of v s e) -> s <= pe_block p <= e.
  Proof.
    unfold logs_of. rewrite in_flat_map. intros (n & Hn & Hp).
    apply In_zrange in Hn. apply pevs_at_block in Hp. lia.
  Qed.

  Lemma rows_of_block (v : view) s e p : In p (rows_of v s e) -> s <= pe_block p <= e.
  Proof. unfold Syncer.rows_of. rewrite filter_In. intros [H _]. eapply logs_of_block; eauto. Qed.

  Lemma logs_of_empty (v : view) s e : e < s -> logs_of v s e = [].
  Proof. intros H. unfold logs_of. rewrite zrange_empty by exact H. reflexivity. Qed.

  Lemma rows_of_empty (v : view) s e : e < s -> rows_of v s e = [].
  Proof. intros H. unfold Syncer.rows_of. rewrite logs_of_empty by exact H. reflexivity. Qed.

  Lemma logs_of_app (v : view) s m e : s <= m + 1 -> m <= e -> logs_of v s m ++ logs_of v (m + 1) e = logs_of v s e.
  Proof. intros H1 H2. unfold logs_of. rewrite <- flat_map_app. rewrite zrange_app by assumption. reflexivity. Qed.

  Lemma rows_of_app (v : view) s m e : s <= m + 1 -> m <= e -> rows_of v s m ++ rows_of v (m + 1) e = rows_of v s e.
  Proof. intros H1 H2. unfold Syncer.rows_of. rewrite <- filter_app. rewrite logs_of_app by assumption. reflexivity. Qed.

  Lemma logs_of_agree (v w : view) k s e : agree_upto v w k -> 0 <= s -> e <= k -> logs_of v s e = logs_of w s e.
  Proof.
    intros Ha Hs He. unfold logs_of. apply flat_map_ext_in. intros n Hn. apply In_zrange in Hn.
    unfold pevs_at. rewrite (Ha n) by lia. reflexivity.
  Qed.

  Lemma rows_of_agree (v w : view) k s e : agree_upto v w k -> 0 <= s -> e <= k -> rows_of v s e = rows_of w s e.
  Proof. intros. unfold Syncer.rows_of. erewrite logs_of_agree; eauto. Qed.

  Lemma agree_upto_sym (v w : view) k : agree_upto v w k -> agree_upto w v k.
  Proof. intros H n Hn. symmetry. apply H. exact Hn. Qed.

  Lemma agree_upto_le (v w : view) k k' : agree_upto v w k -> k' <= k -> agree_upto v w k'.
  Proof. intros H Hk n Hn. apply H. lia. Qed.

  Lemma agree_upto_refl (v : view) k : agree_upto v v k.
  Proof. intros n _. reflexivity. Qed.

  Lemma hash_at_agree (v w : view) k n : agree_upto v w k -> 0 <= n <= k -> hash_at v n = hash_at w n.
  Proof. intros H Hn. unfold hash_at. rewrite (H n Hn). reflexivity. Qed.

  (* rows below a quiet prefix *)
  Lemma rows_of_quiet (v : view) a s e : quiet_before admissible v a -> 0 <= s -> e <= a - 1 -> rows_of v s e = [].
  Proof.
    intros Hq Hs He. unfold quiet_before in Hq.
    destruct (Z_lt_ge_dec e s) as [Hlt|Hge]; [apply rows_of_empty; exact Hlt|].
    assert (H1 : rows_of v 0 e = []).
    { assert (Happ := rows_of_app v 0 e (a - 1)). rewrite Hq in Happ.
      destruct (rows_of v 0 e); [reflexivity|]. specialize (Happ ltac:(lia) ltac:(lia)). discriminate. }
    assert (Happ := rows_of_app v 0 (s - 1) e). replace (s - 1 + 1) with s in Happ by lia.
    specialize (Happ ltac:(lia) ltac:(lia)). rewrite H1 in Happ.
    destruct (rows_of v 0 (s - 1)); simpl in Happ; [exact Happ|discriminate].
  Qed.

  (* the rows from the sync start a up to s-1, extended by the range [s, b] *)
  Lemma rows_of_extend (v : view) a s b :
    quiet_before admissible v a -> 0 <= s -> s <= b + 1 ->
    rows_of v a (s - 1) ++ rows_of v s b = rows_of v a b.
  Proof.
    intros Hq Hs Hb. destruct (Z_le_gt_dec a s) as [Has|Has].
    - assert (H := rows_of_app v a (s - 1) b). replace (s - 1 + 1) with s in H by lia. apply H; lia.
    - rewrite (rows_of_empty v a (s - 1)) by lia. simpl.
      destruct (Z_le_gt_dec a (b + 1)) as [Hab|Hab].
      + assert (H := rows_of_app v s (a - 1) b). replace (a - 1 + 1) with a in H by lia.
        rewrite <- H by lia. rewrite (rows_of_quiet v a s (a - 1)) by (try assumption; lia). reflexivity.
      + rewrite (rows_of_quiet v a s b) by (try assumption; lia). rewrite rows_of_empty by lia. reflexivity.
  Qed.

  (* DELETE ... WHERE block_number >= to + 1 on the rows of [a, k] leaves the rows of [a, to] *)
  Lemma rows_of_rollback (v : view) a k to : to <= k ->
    filter (fun r : pev E => pe_block r <? to + 1) (rows_of v a k) = rows_of v a to.
  Proof.
    intros Hto. destruct (Z_le_gt_dec a (to + 1)) as [Ha|Ha].
    - rewrite <- (rows_of_app v a to k) by lia. rewrite filter_app.
      rewrite filter_all, filter_none; [apply app_nil_r| |].
      + intros p Hp. apply rows_of_block in Hp. apply Z.ltb_ge. lia.
      + intros p Hp. apply rows_of_block in Hp. apply Z.ltb_lt. lia.
    - rewrite (rows_of_empty v a to) by lia. apply filter_none.
      intros p Hp. apply rows_of_block in Hp. apply Z.ltb_ge. lia.
  Qed.

  (* keys of a stretch of a view with unique keys are unique *)
  Lemma keys_unique_stretch (v : view) a b :
    keys_unique key admissible v -> 0 <= a -> b <= head_number v -> NoDup (map kf (rows_of v a b)).
  Proof.
    intros Hu Ha Hb. unfold keys_unique in Hu.
    destruct (Z_lt_ge_dec b a) as [Hlt|Hge]; [rewrite rows_of_empty by exact Hlt; constructor|].
    rewrite <- (rows_of_app v 0 b (head_number v)) in Hu by lia.
    rewrite map_app in Hu. apply NoDup_app_l in Hu.
    assert (H := rows_of_app v 0 (a - 1) b). replace (a - 1 + 1) with a in H by lia.
    rewrite <- H in Hu by lia. rewrite map_app in Hu. apply NoDup_app_r in Hu. exact Hu.
  Qed.

  (* ---- upsert of fresh keys is an append *)

  Lemma upsert_fresh rows p : ~ In (kf p) (map kf rows) -> upsert rows p = rows ++ [p].
  Proof.
    induction rows as [|r rs IH]; simpl; intros Hn; [reflexivity|].
    destruct (key_eqb (key (pe_ev r)) (key (pe_ev p))) eqn:Heq.
    - apply key_eqb_spec in Heq. exfalso. apply Hn. left. exact Heq.
    - f_equal. apply IH. intros Hin. apply Hn. right. exact Hin.
  Qed.

  Lemma fold_upsert_fresh new : forall rows,
    NoDup (map kf (rows ++ new)) -> fold_left upsert new rows = rows ++ new.
  Proof.
    induction new as [|p new IH]; intros rows Hnd; simpl; [symmetry; apply app_nil_r|].
    assert (Hfresh : ~ In (kf p) (map kf rows)).
    { rewrite map_app in Hnd. simpl in Hnd. apply NoDup_remove_2 in Hnd.
      intros Hin. apply Hnd. apply in_or_app. left. exact Hin. }
    rewrite upsert_fresh by exact Hfresh.
    rewrite IH.
    - rewrite <- app_assoc. reflexivity.
    - rewrite <- app_assoc. simpl. exact Hnd.
  Qed.

End Lemmas.
