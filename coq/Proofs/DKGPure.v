(* Lemmas about Model/DKGPure.v: the public part of the state decides corruption and the
   qualified commitments; what ComputeResult guarantees about the evaluations it sums; the
   phase starters of an honestly dealt instance; characterisation of isCorrupt. *)
From Coq Require Import List NArith ZArith Bool Lia.
From Verif Require Import Model.DKGPure.
Import ListNotations.

Section PureProofs.
Variables C E P : Type.
Variable commit_of : P -> C.
Variable eval_of : P -> nat -> E.
Variable verify : nat -> E -> C -> bool.
Variable deg_ok : N -> C -> bool.
Variable valid_eval : E -> bool.

Notation pure := (@DKGPure.pure C E P).
Notation is_corrupt := (is_corrupt C E P verify).
Notation compute_result := (compute_result C E P verify).
Notation collect := (collect C E P verify).
Notation poly_eval := (poly_eval C E P).
Notation bad_dealing := (bad_dealing C E verify).

(* ---- corruption and the qualified vector are functions of the public part ---- *)

Lemma is_corrupt_pub (d1 d2 : pure) j : pub d1 = pub d2 -> is_corrupt d1 j = is_corrupt d2 j.
Proof.
  unfold pub. intros H. injection H as Hp Hc Ha Hq.
  unfold DKGPure.is_corrupt. rewrite Hc, Ha, Hq. reflexivity.
Qed.

(* the commitments ComputeResult uses: the dealer's commitment if it is not corrupt, else zero *)
Definition qualified (d : pure) : list (option C) :=
  map (fun j => if is_corrupt d j then None else nth_opt (p_commits d) j) (seq 0 (p_n d)).

Lemma qualified_pub (d1 d2 : pure) : pub d1 = pub d2 -> p_n d1 = p_n d2 -> qualified d1 = qualified d2.
Proof.
  intros H Hn. unfold qualified. rewrite Hn. apply map_ext. intros j.
  rewrite (is_corrupt_pub d1 d2 j H). unfold pub in H. injection H as _ Hc _ _. rewrite Hc. reflexivity.
Qed.

Lemma collect_commits (d : pure) l k cs vs :
  collect d l = inl (k, cs, vs) ->
  cs = map (fun j => if is_corrupt d j then None else nth_opt (p_commits d) j) l.
Proof.
  revert k cs vs. induction l as [|j l IH]; simpl; intros k cs vs H.
  - injection H as _ <- _. reflexivity.
  - destruct (is_corrupt d j) eqn:Hc.
    + destruct (collect d l) as [[[k' cs'] vs']|bad] eqn:Hr; [|discriminate].
      injection H as _ <- _. f_equal. eapply IH. reflexivity.
    + destruct (bad_dealing (p_me d) (poly_eval d j) (nth_opt (p_commits d) j)); [discriminate|].
      destruct (collect d l) as [[[k' cs'] vs']|bad] eqn:Hr; [|discriminate].
      injection H as _ <- _. f_equal. eapply IH. reflexivity.
Qed.

Lemma result_commits (d : pure) cs vs : compute_result d = CResult cs vs -> cs = qualified d.
Proof.
  unfold DKGPure.compute_result. destruct (phase_ltb (p_phase d) Finalized); [discriminate|].
  destruct (collect d (seq 0 (p_n d))) as [[[k cs'] vs']|bad] eqn:Hc; [|discriminate].
  destruct (N.ltb (N.of_nat k) (p_t d)); [discriminate|].
  intros H. injection H as <- <-. eapply collect_commits. exact Hc.
Qed.

(* two keypers with the same public state that both succeed use the same commitments *)
Lemma agreement_pure (d1 d2 : pure) cs1 vs1 cs2 vs2 :
  pub d1 = pub d2 -> p_n d1 = p_n d2 ->
  compute_result d1 = CResult cs1 vs1 -> compute_result d2 = CResult cs2 vs2 -> cs1 = cs2.
Proof.
  intros Hp Hn H1 H2. rewrite (result_commits _ _ _ H1), (result_commits _ _ _ H2).
  apply qualified_pub; assumption.
Qed.

(* ---- every evaluation that enters the secret share passed VerifyPolyEval against the very
   commitment that enters the public shares ---- *)

Inductive share_rel (me : nat) : list (option C) -> list (option E) -> Prop :=
| sr_nil : share_rel me [] []
| sr_zero cs vs : share_rel me cs vs -> share_rel me (None :: cs) (None :: vs)
| sr_qual c v cs vs : verify me v c = true -> share_rel me cs vs -> share_rel me (Some c :: cs) (Some v :: vs).

Lemma collect_share_rel (d : pure) l k cs vs :
  collect d l = inl (k, cs, vs) -> share_rel (p_me d) cs vs.
Proof.
  revert k cs vs. induction l as [|j l IH]; simpl; intros k cs vs H.
  - injection H as _ <- <-. constructor.
  - destruct (is_corrupt d j).
    + destruct (collect d l) as [[[k' cs'] vs']|bad] eqn:Hr; [|discriminate].
      injection H as _ <- <-. constructor. eapply IH. reflexivity.
    + destruct (poly_eval d j) as [v|] eqn:Hv; simpl in H; [|discriminate].
      destruct (nth_opt (p_commits d) j) as [c|] eqn:Hc; simpl in H; [|discriminate].
      destruct (verify (p_me d) v c) eqn:Hver; simpl in H; [|discriminate].
      destruct (collect d l) as [[[k' cs'] vs']|bad] eqn:Hr; [|discriminate].
      injection H as _ <- <-. constructor; [exact Hver|]. eapply IH. reflexivity.
Qed.

Lemma result_share_rel (d : pure) cs vs : compute_result d = CResult cs vs -> share_rel (p_me d) cs vs.
Proof.
  unfold DKGPure.compute_result. destruct (phase_ltb (p_phase d) Finalized); [discriminate|].
  destruct (collect d (seq 0 (p_n d))) as [[[k cs'] vs']|bad] eqn:Hc; [|discriminate].
  destruct (N.ltb (N.of_nat k) (p_t d)); [discriminate|].
  intros H. injection H as <- <-. eapply collect_share_rel. exact Hc.
Qed.

(* at least threshold dealers are qualified in a successful result *)
Definition count_some {A} (l : list (option A)) : nat := length (filter (fun o => match o with Some _ => true | None => false end) l).

Lemma collect_count (d : pure) l k cs vs : collect d l = inl (k, cs, vs) -> count_some cs = k.
Proof.
  revert k cs vs. induction l as [|j l IH]; simpl; intros k cs vs H.
  - injection H as <- <- _. reflexivity.
  - destruct (is_corrupt d j).
    + destruct (collect d l) as [[[k' cs'] vs']|bad] eqn:Hr; [|discriminate].
      injection H as <- <- _. unfold count_some. simpl. eapply IH. reflexivity.
    + destruct (bad_dealing (p_me d) (poly_eval d j) (nth_opt (p_commits d) j)) eqn:Hb; [discriminate|].
      destruct (collect d l) as [[[k' cs'] vs']|bad] eqn:Hr; [|discriminate].
      injection H as <- <- _.
      unfold DKGPure.bad_dealing in Hb.
      destruct (poly_eval d j); [|discriminate]. destruct (nth_opt (p_commits d) j); [|discriminate].
      unfold count_some. simpl. f_equal. eapply IH. reflexivity.
Qed.

Lemma result_threshold (d : pure) cs vs :
  compute_result d = CResult cs vs -> (p_t d <= N.of_nat (count_some cs))%N.
Proof.
  unfold DKGPure.compute_result. destruct (phase_ltb (p_phase d) Finalized); [discriminate|].
  destruct (collect d (seq 0 (p_n d))) as [[[k cs'] vs']|bad] eqn:Hc; [|discriminate].
  destruct (N.ltb (N.of_nat k) (p_t d)) eqn:Hlt; [discriminate|].
  intros H. injection H as <- <-. rewrite (collect_count _ _ _ _ _ Hc). apply N.ltb_ge in Hlt. exact Hlt.
Qed.

(* ---- isCorrupt, characterised ---- *)

Lemma existsb_false_iff {A} (f : A -> bool) l : existsb f l = false <-> forall x, In x l -> f x = false.
Proof.
  induction l as [|y l IH]; simpl.
  - split; [intros _ x []|reflexivity].
  - rewrite orb_false_iff, IH. split.
    + intros [H1 H2] x [<-|Hx]; [exact H1|apply H2; exact Hx].
    + intros H. split; [apply H; left; reflexivity|intros x Hx; apply H; right; exact Hx].
Qed.

Lemma is_corrupt_false_iff (d : pure) j :
  is_corrupt d j = false <->
  exists c, nth_opt (p_commits d) j = Some c /\
    (forall a b v, In ((a, b), v) (p_apos d) -> b = j -> verify a v c = true) /\
    (forall a b, In (a, b) (p_accs d) -> b = j -> apo_mem (a, b) (p_apos d) = true).
Proof.
  unfold DKGPure.is_corrupt. destruct (nth_opt (p_commits d) j) as [c|].
  - rewrite orb_false_iff, !existsb_false_iff. split.
    + intros [H1 H2]. exists c. split; [reflexivity|]. split.
      * intros a b v Hin Hb. specialize (H1 _ Hin). simpl in H1. subst b. rewrite Nat.eqb_refl in H1.
        simpl in H1. destruct (verify a v c); [reflexivity|discriminate].
      * intros a b Hin Hb. specialize (H2 _ Hin). simpl in H2. subst b. rewrite Nat.eqb_refl in H2.
        simpl in H2. destruct (apo_mem (a, j) (p_apos d)); [reflexivity|discriminate].
    + intros [c' [Hc [H1 H2]]]. injection Hc as <-. split.
      * intros [[a b] v] Hin. simpl. destruct (Nat.eqb b j) eqn:Hb; [|reflexivity].
        apply Nat.eqb_eq in Hb. rewrite (H1 a b v Hin Hb). reflexivity.
      * intros [a b] Hin. simpl. destruct (Nat.eqb b j) eqn:Hb; [|reflexivity].
        apply Nat.eqb_eq in Hb. rewrite (H2 a b Hin Hb). reflexivity.
  - split; [discriminate|]. intros [c [Hc _]]. discriminate.
Qed.

(* ---- an instance whose dealing went well: nobody to accuse, and it succeeds ---- *)

Definition dealt_ok (d : pure) : Prop :=
  forall j, j < p_n d -> exists c v, nth_opt (p_commits d) j = Some c /\ nth_opt (p_evals d) j = Some v /\
                                     verify (p_me d) v c = true.

Lemma filter_nil {A} (f : A -> bool) l : (forall x, In x l -> f x = false) -> filter f l = [].
Proof.
  induction l as [|x l IH]; simpl; intros H; [reflexivity|].
  rewrite (H x (or_introl eq_refl)). apply IH. intros y Hy. apply H. right. exact Hy.
Qed.

Lemma start_phase2_no_accusations (d : pure) :
  p_phase d = Dealing -> dealt_ok d ->
  start_phase2 C E P verify d = Some (set_phase d Accusing, []).
Proof.
  intros Hp Hd. unfold start_phase2, advance. rewrite Hp. simpl. f_equal. f_equal.
  apply filter_nil. intros j Hj. apply in_seq in Hj. destruct (Hd j) as [c [v [Hc [Hv Hver]]]]; [lia|].
  rewrite Hc, Hv. simpl. rewrite Hver. simpl. apply andb_false_r.
Qed.

Lemma collect_all_ok (d : pure) l :
  (forall j, In j l -> is_corrupt d j = false /\
     exists c v, nth_opt (p_commits d) j = Some c /\ poly_eval d j = Some v /\ verify (p_me d) v c = true) ->
  exists cs vs, collect d l = inl (length l, cs, vs).
Proof.
  induction l as [|j l IH]; simpl; intros H.
  - eauto.
  - destruct (H j (or_introl eq_refl)) as [Hc [c [v [Hcm [Hpe Hver]]]]].
    rewrite Hc, Hpe, Hcm. simpl. rewrite Hver. simpl.
    destruct IH as [cs [vs Hr]]. { intros k Hk. apply H. right. exact Hk. }
    rewrite Hr. eauto.
Qed.

Lemma honest_instance_succeeds (d : pure) :
  p_phase d = Finalized -> dealt_ok d -> p_accs d = [] -> p_apos d = [] -> (p_t d <= N.of_nat (p_n d))%N ->
  succeeds C E P verify d = true.
Proof.
  intros Hp Hd Ha Hq Ht. unfold succeeds, DKGPure.compute_result. rewrite Hp. simpl.
  destruct (collect_all_ok d (seq 0 (p_n d))) as [cs [vs Hr]].
  - intros j Hj. apply in_seq in Hj. destruct (Hd j) as [c [v [Hc [Hv Hver]]]]; [lia|]. split.
    + unfold DKGPure.is_corrupt. rewrite Hc, Ha, Hq. reflexivity.
    + exists c, v. split; [exact Hc|]. split; [|exact Hver].
      unfold DKGPure.poly_eval. rewrite Hq. simpl. exact Hv.
  - rewrite Hr. rewrite seq_length. destruct (N.ltb (N.of_nat (p_n d)) (p_t d)) eqn:Hlt; [|reflexivity].
    apply N.ltb_lt in Hlt. lia.
Qed.

End PureProofs.
