(* The three syncer instances of the C15 theorems, and the refutations that are kept:
   D8 (legacy flavour: syncRange swallowed the error of its transaction) and D9 (rollback to a
   block before the sync start). *)
From Coq Require Import List NArith ZArith Bool Lia String.
From Verif Require Import Lib.Bytes Model.Syncer Generated.SyncConsts
     Proofs.SyncerRanges Proofs.SyncerLemmas Proofs.Syncer.
Import ListNotations.
Open Scope string_scope.
Open Scope Z_scope.

Lemma ukey_eqb_spec a b : ukey_eqb a b = true <-> a = b.
Proof.
  destruct a, b; simpl; try (split; [discriminate|intros H; discriminate H]).
  - rewrite !andb_true_iff, !bytes_eqb_eq. split; [intros [-> ->]; reflexivity|intros [= -> ->]; auto].
  - rewrite !andb_true_iff, !bytes_eqb_eq, Z.eqb_eq.
    split; [intros [[[-> ->] ->] ->]; reflexivity|intros [= -> -> -> ->]; auto].
  - rewrite !andb_true_iff, !Z.eqb_eq. split; [intros [-> ->]; reflexivity|intros [= -> ->]; auto].
Qed.

(* --------------------------------------------------------------------------------------- *)
(* tools for concrete views *)

Lemma agree_upto_Forall {E} (v w : view E) k :
  Forall (fun n => block_at v n = block_at w n) (zrange 0 k) -> agree_upto v w k.
Proof. intros H n Hn. rewrite Forall_forall in H. apply H. apply In_zrange. exact Hn. Qed.

Lemma hash_determines_Forall {E} (v w : view E) :
  Forall (fun n => forall bv bw, block_at v n = Some bv -> block_at w n = Some bw ->
                                 bk_hash bv = bk_hash bw -> agree_upto v w n) (zrange 0 (head_number v)) ->
  hash_determines v w.
Proof.
  intros H n bv bw Hv Hw Hh. rewrite Forall_forall in H.
  apply (H n) with (bv := bv) (bw := bw); auto. apply In_zrange. eapply block_at_Some_range; eauto.
Qed.

Ltac concrete_agree := apply agree_upto_Forall; vm_compute; repeat constructor.
Ltac concrete_hash_determines :=
  apply hash_determines_Forall; vm_compute zrange; repeat constructor;
  intros bv bw Hv Hw Hh; vm_compute in Hv, Hw; inversion Hv; inversion Hw; subst; simpl in Hh;
  try discriminate Hh; concrete_agree.
Ltac concrete_nodup := vm_compute; repeat constructor; simpl; intuition discriminate.

(* --------------------------------------------------------------------------------------- *)
(* D8: with the legacy flavour (the transaction's error is swallowed) a failed transaction in
   an earlier range lets the later ranges commit: the position is canonical, an event is missing *)

Definition ev1 : uev := mkuev 1 (hx "aa") (hx "bb") 7 [] false 0 0 0.
Definition d8_view : view uev :=
  [ mkblk (hx "00") []; mkblk (hx "01") [(0, 0, ev1)]; mkblk (hx "02") []; mkblk (hx "03") [];
    mkblk (hx "04") []; mkblk (hx "05") [] ].
Definition d8_flavour (legacy : bool) : flavour := if legacy then legacy_registry_flavour 0 10 2 else registry_flavour 0 10 2 false.
Definition d8_history : list (sync_input uev) := [(d8_view, ([], [NoFault; NoFault; Fail]))].

Definition registry_grun := grun registry_key ukey_eqb registry_admissible registry_merge.
Definition registry_heads_ok := heads_ok registry_key ukey_eqb registry_admissible registry_merge.
Definition registry_universe_ok := universe_ok registry_key registry_admissible.

Lemma d8_universe legacy : registry_universe_ok (d8_flavour legacy) (map fst d8_history).
Proof.
  destruct legacy; (split;
  [ intros v [<-|[]]; split; [discriminate|]; split; [|split];
    [ intros b Hb; simpl in Hb; repeat (destruct Hb as [<-|Hb]; [discriminate|]); destruct Hb
    | unfold keys_unique; concrete_nodup
    | vm_compute; reflexivity ]
  | intros v w [<-|[]] [<-|[]]; intros n bv bw _ _ _; apply agree_upto_refl ]).
Qed.

Theorem exact_when_canonical_legacy_refuted :
  exists (history : list (sync_input uev)) v,
    let fl := d8_flavour true in
    fl_swallow fl = true /\
    In v (map fst history) /\
    registry_universe_ok fl (map fst history) /\
    registry_heads_ok fl ginit history /\
    exists k h b, st_status (g_st (registry_grun fl history)) = Some (k, h) /\
                  block_at v k = Some b /\ bk_hash b = h /\
                  st_rows (g_st (registry_grun fl history)) <> rows_of registry_admissible v (fl_first_start fl) k.
Proof.
  exists d8_history, d8_view. simpl. split; [reflexivity|]. split; [left; reflexivity|].
  split; [exact (d8_universe true)|].
  split; [split; exact I|].
  exists 5, (hx "05"), (mkblk (hx "05") []). split; [vm_compute; reflexivity|].
  split; [reflexivity|]. split; [reflexivity|]. vm_compute. discriminate.
Qed.

(* the same history on the repaired flavour stops at the failed range: nothing is stored and
   no position is recorded *)
Example d8_history_repaired :
  g_st (registry_grun (d8_flavour false) d8_history) = init_state.
Proof. vm_compute. reflexivity. Qed.

(* --------------------------------------------------------------------------------------- *)
(* D9 on the legacy flavour (the start of a sync is not clamped to the sync start, as before the fix
   commits fe0789c / 4702ec9 / efdc9c3): a reorganisation detected fewer than the assumed depth past
   the sync start rolls back to before the start; the resync stores an event older than the sync
   start.  Every hypothesis of the theorem holds. *)

Definition d9_a : view uev :=
  [ mkblk (hx "00") []; mkblk (hx "01") [(0, 0, ev1)]; mkblk (hx "02") []; mkblk (hx "a3") [] ].
Definition d9_b : view uev :=
  [ mkblk (hx "00") []; mkblk (hx "01") [(0, 0, ev1)]; mkblk (hx "02") []; mkblk (hx "b3") []; mkblk (hx "b4") [] ].
Definition d9_flavour : flavour := legacy_unclamped_registry_flavour 2 3 10.   (* before the D9 fix *)
Definition d9_repaired_flavour : flavour := registry_flavour 2 3 10 false.
Definition d9_history : list (sync_input uev) := [(d9_a, ([], [])); (d9_b, ([], []))].

Lemma d9_view_ok v : In v [d9_a; d9_b] -> view_ok registry_key registry_admissible d9_flavour v.
Proof.
  intros [<-|[<-|[]]]; (split; [discriminate|]; split; [|split]);
    try (intros b Hb; simpl in Hb; repeat (destruct Hb as [<-|Hb]; [discriminate|]); destruct Hb);
    try (unfold keys_unique; concrete_nodup); vm_compute; reflexivity.
Qed.

Lemma d9_universe : registry_universe_ok d9_flavour (map fst d9_history).
Proof.
  split; [exact d9_view_ok|].
  intros v w [<-|[<-|[]]] [<-|[<-|[]]]; concrete_hash_determines.
Qed.

Theorem exact_when_canonical_refuted :
  exists (history : list (sync_input uev)) v,
    let fl := d9_flavour in
    fl_swallow fl = false /\ fl_unclamped fl = true /\
    In v (map fst history) /\
    registry_universe_ok fl (map fst history) /\
    registry_heads_ok fl ginit history /\
    exists k h b, st_status (g_st (registry_grun fl history)) = Some (k, h) /\
                  block_at v k = Some b /\ bk_hash b = h /\
                  st_rows (g_st (registry_grun fl history)) <> rows_of registry_admissible v (fl_first_start fl) k.
Proof.
  exists d9_history, d9_b. simpl. split; [reflexivity|]. split; [reflexivity|]. split; [right; left; reflexivity|].
  split; [exact d9_universe|]. split.
  - split; [exact I|]. split; [|exact I].
    assert (Hg : gstep registry_key ukey_eqb registry_admissible registry_merge d9_flavour ginit (d9_a, ([], []))
                 = mkg (mkstate (Some (3, hx "a3")) []) d9_a) by (vm_compute; reflexivity).
    rewrite Hg. unfold head_ok. simpl. split; [concrete_agree|]. left. vm_compute. discriminate.
  - exists 4, (hx "b4"), (mkblk (hx "b4") []). split; [vm_compute; reflexivity|].
    split; [reflexivity|]. split; [reflexivity|]. vm_compute. discriminate.
Qed.

(* the same history on the repaired flavour: the resync starts at the sync start and the table is
   exact (empty: the only event is older than the sync start) *)
Example d9_history_repaired :
  st_status (g_st (registry_grun d9_repaired_flavour d9_history)) = Some (4, hx "b4") /\
  st_rows (g_st (registry_grun d9_repaired_flavour d9_history)) = rows_of registry_admissible d9_b 2 4.
Proof. vm_compute. split; reflexivity. Qed.
