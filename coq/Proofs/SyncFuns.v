(* The hand-written model functions of Model/Syncer.v equal the functions translated from the Go
   source (Generated/SyncFuns.v): GetSyncRanges for all inputs, the reorg-depth helpers for block
   numbers within int64. *)
From Coq Require Import List NArith ZArith Bool Lia.
From Verif Require Import Lib.Bytes Model.Syncer Generated.SyncConsts Generated.SyncFuns.
Import ListNotations.
Open Scope Z_scope.

Lemma gen_u64_is_u64 x : gen_u64 x = u64 x.
Proof. reflexivity. Qed.

Lemma gen_i64_small x : - 9223372036854775808 <= x < 9223372036854775808 -> gen_i64 x = x.
Proof.
  intros H. unfold gen_i64. cbv zeta.
  destruct (Z_lt_ge_dec x 0) as [Hn|Hp].
  - replace (x mod 18446744073709551616) with (x + 18446744073709551616).
    + destruct (x + 18446744073709551616 <? 9223372036854775808) eqn:E; [apply Z.ltb_lt in E; lia|lia].
    + apply Z.mod_unique with (q := -1); lia.
  - rewrite Z.mod_small by lia. destruct (x <? 9223372036854775808) eqn:E; [reflexivity|apply Z.ltb_ge in E; lia].
Qed.

Lemma gen_set_last_snd_snoc acc a b v : gen_set_last_snd (acc ++ [(a, b)]) v = Some (acc ++ [(a, v)]).
Proof. unfold gen_set_last_snd. rewrite rev_unit. simpl. rewrite rev_involutive. reflexivity. Qed.

(* Decide an equation between two nests of conditionals over integer comparisons by splitting on
   every comparison atom: insensitive to how the source arranges its guards (inverted conditions,
   swapped returns, inlined or named sub-conditions). *)
Ltac split_atoms :=
  repeat match goal with
         | |- context [Z.eqb ?a ?b] => destruct (Z.eqb_spec a b)
         | |- context [Z.ltb ?a ?b] => destruct (Z.ltb_spec a b)
         | |- context [Z.leb ?a ?b] => destruct (Z.leb_spec a b)
         | |- context [bytes_eqb ?a ?b] => destruct (bytes_eqb a b)
         end;
  cbn [negb andb orb]; try reflexivity; try (exfalso; lia).

(* GetSyncRanges: the generated loop (which accumulates the result) and the model loop agree for
   every fuel and every input, wrapping or not.  The proof compares results, not shapes: both sides
   are unfolded one iteration, the wraps are normalised, every comparison is split, and what remains
   are equations between lists (clipping the last pair by an index assignment or appending the
   clipped pair directly makes no difference). *)
Lemma gen_sync_ranges_loop_eq : forall fuel i acc s e r,
  gen_get_sync_ranges_loop fuel i acc s e r =
  match sync_ranges_loop fuel i e r with
  | RangesDone rs => GenRangesDone (acc ++ rs)
  | RangesOutOfFuel => GenRangesOutOfFuel
  end.
Proof.
  induction fuel as [|f IH]; intros i acc s e r; [reflexivity|].
  cbn [gen_get_sync_ranges_loop sync_ranges_loop]. cbv zeta.
  rewrite ?Z.gtb_ltb.
  unfold gen_u64, u64, two64. rewrite ?Zminus_mod_idemp_l.
  rewrite ?gen_set_last_snd_snoc.
  repeat match goal with
         | |- context [if ?c then _ else _] => destruct c eqn:?
         end;
    rewrite ?gen_set_last_snd_snoc, ?app_nil_r; try reflexivity; try congruence.
  all: rewrite IH; unfold u64, two64;
    match goal with |- context [sync_ranges_loop ?f ?i ?e ?r] => destruct (sync_ranges_loop f i e r) end;
    rewrite <- ?app_assoc; reflexivity.
Qed.

Theorem generated_sync_ranges : forall fuel s e r,
  gen_get_sync_ranges fuel s e r =
  match sync_ranges_loop fuel s e r with
  | RangesDone rs => GenRangesDone rs
  | RangesOutOfFuel => GenRangesOutOfFuel
  end.
Proof. intros. unfold gen_get_sync_ranges. rewrite gen_sync_ranges_loop_eq. reflexivity. Qed.

(* the reorg-depth helpers *)
Section Reorg.
  Variable E : Type.

  Lemma model_num_reorged_unfold (fl : flavour) k h (nd : node E) :
    num_reorged fl k h nd =
    if (n_number nd =? k + 1) && negb (bytes_eqb (n_parent nd) h)
    then (if k <? fl_depth fl then k else fl_depth fl) else 0.
  Proof. reflexivity. Qed.

  Lemma generated_reorg_depth (fl : flavour) k h (nd : node E) :
    0 <= k < 9223372036854775807 -> - 9223372036854775808 <= n_number nd < 9223372036854775808 ->
    - 9223372036854775808 <= fl_depth fl < 9223372036854775808 ->
    num_reorged fl k h nd = gen_multi_reorg_depth (n_number nd) k (bytes_eqb (n_parent nd) h) (Z.of_nat (length h)) (fl_depth fl).
  Proof.
    intros Hk Hn Hd. rewrite model_num_reorged_unfold. unfold gen_multi_reorg_depth. cbv zeta.
    repeat rewrite gen_i64_small by lia.
    split_atoms.
  Qed.

  Lemma generated_registry_num_reorged (fl : flavour) k h (nd : node E) :
    fl_depth fl = registry_assumed_reorg_depth ->
    0 <= k < 9223372036854775807 -> - 9223372036854775808 <= n_number nd < 9223372036854775808 ->
    num_reorged fl k h nd = gen_registry_num_reorged (n_number nd) k (bytes_eqb (n_parent nd) h) (Z.of_nat (length h)).
  Proof.
    intros Hfd Hk Hn. rewrite model_num_reorged_unfold, Hfd. unfold gen_registry_num_reorged, registry_assumed_reorg_depth. cbv zeta.
    repeat rewrite gen_i64_small by lia.
    split_atoms.
  Qed.

  Lemma generated_sequencer_num_reorged (fl : flavour) k h (nd : node E) :
    fl_depth fl = sequencer_assumed_reorg_depth ->
    0 <= k < 9223372036854775807 -> - 9223372036854775808 <= n_number nd < 9223372036854775808 ->
    num_reorged fl k h nd = gen_sequencer_num_reorged (n_number nd) k (bytes_eqb (n_parent nd) h) (Z.of_nat (length h)).
  Proof.
    intros Hfd Hk Hn. rewrite model_num_reorged_unfold, Hfd. unfold gen_sequencer_num_reorged, sequencer_assumed_reorg_depth. cbv zeta.
    repeat rewrite gen_i64_small by lia.
    split_atoms.
  Qed.
End Reorg.
