(* What an attribute text denotes, kind by kind, with every leniency of the decoders written
   out; and the proof that a decoder only ever returns the value its input denotes. *)
From Coq Require Import String Ascii List NArith ZArith Bool Lia.
From Verif Require Import Lib.Bytes Generated.EventSchema Model.Events Proofs.EventsCodec Proofs.Events.
Import ListNotations.
Open Scope N_scope.

(* [body] is an even number of hex digits, of either case, spelling the bytes [b] *)
Definition hex_text (body b : bytes) : Prop := hex_decode body = (b, true).

(* an element of an address list: 40 hex digits of either case, with or without 0x / 0X *)
Definition addr_item (p a : bytes) : Prop :=
  exists body, (p = body \/ p = 48 :: 120 :: body \/ p = 48 :: 88 :: body) /\
               length body = 40%nat /\ hex_text body a.

(* an element of a byte-sequence list: 0x or 0X followed by hex digits of either case *)
Definition bytes_item (p b : bytes) : Prop :=
  exists body, (p = 48 :: 120 :: body \/ p = 48 :: 88 :: body) /\ hex_text body b.

(* comma separated list; the empty text is the empty list *)
Definition list_text {A : Type} (item : bytes -> A -> Prop) (s : bytes) (l : list A) : Prop :=
  (s = [] /\ l = []) \/ (s <> [] /\ Forall2 item (split_on comma s) l).

Lemma is_hex_unhex c : is_hex_char c = true -> exists d, unhex c = Some d.
Proof.
  unfold is_hex_char, unhex. intros H.
  destruct ((48 <=? c) && (c <=? 57))%bool; [eauto|].
  destruct ((97 <=? c) && (c <=? 102))%bool; [eauto|].
  destruct ((65 <=? c) && (c <=? 70))%bool; [eauto|]. discriminate.
Qed.

Lemma hex_decode_all_hex : forall n s, length s = (2 * n)%nat -> forallb is_hex_char s = true ->
  exists b, hex_decode s = (b, true) /\ length b = n.
Proof.
  induction n as [|n IH]; intros s Hl Hh.
  - destruct s; [|discriminate]. exists []. split; reflexivity.
  - destruct s as [|p [|q r]]; try (simpl in Hl; lia).
    cbn [forallb] in Hh. apply andb_true_iff in Hh as [Hp Hh]. apply andb_true_iff in Hh as [Hq Hr].
    destruct (is_hex_unhex p Hp) as [a Ha]. destruct (is_hex_unhex q Hq) as [b Hb].
    destruct (IH r) as (t & Ht & Hlt); [simpl in Hl; lia|exact Hr|].
    exists ((a * 16 + b) :: t). cbn [hex_decode]. rewrite Ha, Hb, Ht. split; [reflexivity|simpl; lia].
Qed.

Lemma has0x_eq p :
  has0x p = match p with
            | a :: c :: _ => (a =? 48) && ((c =? 120) || (c =? 88))
            | _ => false
            end.
Proof.
  destruct p as [|a [|c r]]; [reflexivity| |];
    (destruct a as [|q]; [reflexivity|]); repeat (destruct q as [q|q|]; try reflexivity).
Qed.

Lemma has0x_shape p : has0x p = true ->
  exists rest, (p = 48 :: 120 :: rest \/ p = 48 :: 88 :: rest) /\ skipn 2 p = rest.
Proof.
  rewrite has0x_eq. destruct p as [|a [|c rest]]; try discriminate.
  intros H. apply andb_true_iff in H as [Ha Hc]. apply N.eqb_eq in Ha. subst a.
  apply orb_true_iff in Hc as [Hc|Hc]; apply N.eqb_eq in Hc; subst c; exists rest; auto.
Qed.

Lemma is_hex_address_item p : is_hex_address p = true -> addr_item p (hex_to_address p).
Proof.
  unfold is_hex_address, hex_to_address, from_hex. intros H.
  apply andb_true_iff in H as [H Hh]. apply andb_true_iff in H as [Hl _]. apply Nat.eqb_eq in Hl.
  destruct (hex_decode_all_hex 20 (strip0x p) Hl Hh) as (b & Hb & Hlb).
  rewrite Hl. change (Nat.odd 40) with false. cbv iota. rewrite Hb. simpl fst.
  rewrite bytes_to_address_id by exact Hlb.
  exists (strip0x p). split; [|split; [exact Hl|exact Hb]].
  unfold strip0x. destruct (has0x p) eqn:E; [|left; reflexivity].
  destruct (has0x_shape p E) as (rest & [->| ->] & <-); simpl; auto.
Qed.

Lemma hexutil_decode_item p b : hexutil_decode p = Some b -> bytes_item p b.
Proof.
  unfold hexutil_decode. destruct p as [|c r]; [discriminate|].
  destruct (has0x (c :: r)) eqn:E; [|discriminate].
  destruct (has0x_shape _ E) as (rest & Hp & Hs). rewrite Hs.
  unfold hex_decode_strict. destruct (hex_decode rest) as [t ok] eqn:Er. destruct ok; [|discriminate].
  intros H. injection H as <-. exists rest. split; [exact Hp|exact Er].
Qed.

Lemma Forall2_weaken {A B : Type} (R R' : A -> B -> Prop) l l' :
  (forall a b, R a b -> R' a b) -> Forall2 R l l' -> Forall2 R' l l'.
Proof. intros H. induction 1; constructor; auto. Qed.

Lemma decode_addresses_text s l : decode_addresses s = Some l -> list_text addr_item s l.
Proof.
  unfold decode_addresses. destruct s as [|c r].
  - intros H. injection H as <-. left. split; reflexivity.
  - intros H. right. split; [discriminate|]. apply map_opt_Forall2 in H.
    eapply Forall2_weaken; [|exact H]. intros p a Hp. cbv beta in Hp.
    destruct (is_hex_address p) eqn:E; [|discriminate]. injection Hp as <-.
    apply is_hex_address_item. exact E.
Qed.

Lemma decode_byteseq_text s l : decode_byteseq s = Some l -> list_text bytes_item s l.
Proof.
  unfold decode_byteseq. destruct s as [|c r].
  - intros H. injection H as <-. left. split; reflexivity.
  - intros H. right. split; [discriminate|]. apply map_opt_Forall2 in H.
    eapply Forall2_weaken; [|exact H]. intros p b Hp. apply hexutil_decode_item. exact Hp.
Qed.

Section Denotes.

Variable point : Type.
Variable key : Type.
Variable cs : bytes -> list bool.
Variable dec_pt : bytes -> option point.
Variable dec_key : bytes -> option key.

(* the value an attribute text denotes under the decoder of kind (c, v) *)
Definition denotes (c : codec) (v : via) (s : bytes) (x : value point key) : Prop :=
  match c, v, x with
  | CUint64, VDirect, VUint _ _ n =>
      (* non-empty, decimal digits only (leading zeros allowed), fits 64 bits *)
      s <> [] /\ forallb is_digit s = true /\ dec_value s 0 = n /\ n <= u64_max
  | CAddress, VDirect, VAddr _ _ a =>
      (* exactly the EIP-55 text of a 20-byte address *)
      s = address_hex cs a /\ addr_ok a
  | CAddresses, VDirect, VAddrs _ _ l => list_text addr_item s l
  | CByteSequence, VDirect, VBytesList _ _ l => list_text bytes_item s l
  | CByteSequence, VBigIntBytes, VBigInts _ _ l =>
      (* big-endian bytes, leading zero bytes allowed, empty = 0 *)
      exists bl, list_text bytes_item s bl /\ l = map of_be_bytes bl
  | CGammas, VDirect, VGammas _ _ g =>
      (* hex digits of either case without prefix; Gammas.Unmarshal accepts the bytes *)
      exists m, hex_text s m /\ unmarshal_gammas point dec_pt m = Some g
  | CECIESPublicKey, VDirect, VKey _ _ k =>
      (* unpadded base64url, CR/LF ignored, unused trailing bits ignored; UnmarshalPubkey
         accepts the bytes *)
      exists b, b64_decode s = Some b /\ dec_key b = Some k
  | _, _, _ => False
  end.

Lemma decode_value_denotes c v s x :
  decode_value point key cs dec_pt dec_key c v s = Ok x -> denotes c v s x.
Proof.
  destruct c, v; simpl; try discriminate; unfold lift_dec.
  - destruct (parse_uint s) as [n|] eqn:E; simpl; [|discriminate]. intros H. injection H as <-.
    apply parse_uint_spec in E. exact E.
  - destruct (decode_address cs s) as [a|] eqn:E; simpl; [|discriminate]. intros H. injection H as <-.
    apply decode_address_spec in E. exact E.
  - destruct (decode_addresses s) as [l|] eqn:E; simpl; [|discriminate]. intros H. injection H as <-.
    apply decode_addresses_text. exact E.
  - destruct (decode_byteseq s) as [l|] eqn:E; simpl; [|discriminate]. intros H. injection H as <-.
    apply decode_byteseq_text. exact E.
  - destruct (decode_byteseq s) as [l|] eqn:E; simpl; [|discriminate]. intros H. injection H as <-.
    exists l. split; [apply decode_byteseq_text; exact E|reflexivity].
  - unfold decode_gammas, hex_decode_strict. destruct (hex_decode s) as [m ok] eqn:Em.
    destruct ok; [|discriminate].
    destruct (unmarshal_gammas point dec_pt m) as [g|] eqn:Eg; simpl; [|discriminate].
    intros H. injection H as <-. exists m. split; [exact Em|exact Eg].
  - unfold decode_key. destruct (b64_decode s) as [b|] eqn:Eb; [|discriminate].
    destruct (dec_key b) as [k|] eqn:Ek; simpl; [|discriminate].
    intros H. injection H as <-. exists b. split; [reflexivity|exact Ek].
Qed.

(* an event denotes the attribute list of its type: the attributes named by the schema are
   present at their positions (further attributes are ignored) and every field the decoder
   fills is denoted by the text at its position *)
Definition event_denotes (d : dec_schema) (attrs : list attr) (fs : list (string * value point key)) : Prop :=
  Forall2 (fun (r : dec_read) (f : string * value point key) =>
             fst f = dr_field r /\
             exists a, nth_error attrs (dr_pos r) = Some a /\
                       denotes (dr_codec r) (dr_via r) (a_value a) (snd f))
          (de_reads d) fs.

Lemma decode_reads_denotes attrs : forall reads acc fs,
  decode_reads point key cs dec_pt dec_key attrs reads acc = Ok fs ->
  exists fl, fs = acc ++ fl /\
    Forall2 (fun (r : dec_read) (f : string * value point key) =>
               fst f = dr_field r /\
               exists a, nth_error attrs (dr_pos r) = Some a /\
                         denotes (dr_codec r) (dr_via r) (a_value a) (snd f)) reads fl.
Proof.
  induction reads as [|r reads IH]; intros acc fs H.
  - simpl in H. injection H as <-. exists []. rewrite app_nil_r. split; [reflexivity|constructor].
  - cbn [decode_reads] in H. destruct (nth_error attrs (dr_pos r)) as [a|] eqn:En; [|discriminate].
    destruct (decode_value point key cs dec_pt dec_key (dr_codec r) (dr_via r) (a_value a)) as [x| | |] eqn:Ex;
      try discriminate.
    destruct (IH _ _ H) as (fl & -> & Hfl). exists ((dr_field r, x) :: fl).
    rewrite <- app_assoc. split; [reflexivity|]. constructor; [|exact Hfl].
    split; [reflexivity|]. exists a. split; [exact En|]. apply decode_value_denotes. exact Ex.
Qed.

(* MakeEvent only succeeds on an event of a known type whose first attributes carry the
   expected names in order, and the result is built from values the texts denote *)
Theorem make_event_denotes ev h x :
  make_event point key cs dec_pt dec_key ev h = Ok x ->
  exists d fs,
    find_decoder (fst ev) = Some d /\
    (length (de_names d) <= length (snd ev))%nat /\
    (forall i n, nth_error (de_names d) i = Some n ->
                 exists a, nth_error (snd ev) i = Some a /\ a_key a = bs n) /\
    event_denotes d (snd ev) fs /\
    of_fields point key (de_struct d) h fs = Some x.
Proof.
  unfold make_event. destruct (find_decoder (fst ev)) as [d|] eqn:Ed; [|discriminate].
  unfold decode_with.
  destruct (expect_attributes (snd ev) (de_names d)) as [[]| | |] eqn:Ee; try discriminate.
  destruct (decode_reads point key cs dec_pt dec_key (snd ev) (de_reads d) []) as [fs| | |] eqn:Er;
    try discriminate.
  pose proof (find_decoder_ok _ _ Ed) as Hok. unfold dec_ok in Hok.
  apply andb_true_iff in Hok as [_ Hh]. rewrite Hh.
  destruct (of_fields point key (de_struct d) h fs) as [e|] eqn:Eo; [|discriminate].
  intros H. injection H as <-. exists d, fs. split; [reflexivity|].
  destruct (decode_reads_denotes _ _ _ _ Er) as (fl & Hfs & Hfl). simpl in Hfs. subst fl.
  (* expect_attributes *)
  unfold expect_attributes in Ee. destruct schema_agreement as (_ & _ & _ & Hg). rewrite Hg in Ee.
  cbn [andb] in Ee. destruct (Nat.ltb_spec (length (snd ev)) (length (de_names d))) as [Hlt|Hge]; [discriminate|].
  split; [exact Hge|]. split; [|split; [exact Hfl|exact Eo]].
  clear - Ee. revert Ee. generalize (de_names d) as names. generalize (snd ev) as attrs.
  intros attrs names.
  assert (G : forall k, expect_names attrs k names = Ok tt ->
              forall i n, nth_error names i = Some n ->
              exists a, nth_error attrs (k + i) = Some a /\ a_key a = bs n).
  { induction names as [|m r IH]; intros k H i n Hn; [destruct i; discriminate|].
    cbn [expect_names] in H. destruct (nth_error attrs k) as [a|] eqn:Ea; [|discriminate].
    destruct (bytes_eqb (a_key a) (bs m)) eqn:Eb; [|discriminate].
    destruct i as [|i].
    - simpl in Hn. injection Hn as <-. rewrite Nat.add_0_r. exists a. split; [exact Ea|].
      apply bytes_eqb_eq. exact Eb.
    - simpl in Hn. destruct (IH (S k) H i n Hn) as (a' & Ha' & Hk). exists a'.
      rewrite Nat.add_succ_r. simpl in Ha'. split; assumption. }
  intros H i n Hn. exact (G 0%nat H i n Hn).
Qed.

End Denotes.

(* ------------------------------------------------------------------------------------ *)
(* the statements Properties/C14.v quotes *)

Section Summary.

Variable point : Type.
Variable key : Type.
Variable cs : bytes -> list bool.
Variable enc_pt : point -> bytes.
Variable dec_pt : bytes -> option point.
Variable enc_key : key -> bytes.
Variable dec_key : bytes -> option key.
Hypothesis pt_roundtrip : forall p, dec_pt (enc_pt p) = Some p.
Hypothesis pt_length : forall p, length (enc_pt p) = pt_len.
Hypothesis pt_bytes : forall p, bytes_ok (enc_pt p).
Hypothesis key_roundtrip : forall k, dec_key (enc_key k) = Some k.
Hypothesis key_bytes : forall k, bytes_ok (enc_key k).

Lemma kind_roundtrip :
  (forall n, n <= u64_max -> parse_uint (format_uint n) = Some n) /\
  (forall a, addr_ok a -> decode_address cs (address_hex cs a) = Some a) /\
  (forall l, Forall addr_ok l -> decode_addresses (encode_addresses cs l) = Some l) /\
  (forall l, Forall bytes_ok l -> decode_byteseq (encode_byteseq l) = Some l) /\
  (forall l : list N,
     option_map (map of_be_bytes) (decode_byteseq (encode_byteseq (map be_bytes l))) = Some l) /\
  (forall g, decode_gammas point dec_pt (encode_gammas point enc_pt g) = Some g) /\
  (forall k, decode_key key dec_key (encode_key key enc_key k) = Some k) /\
  (forall c v x s,
     encode_value point key cs enc_pt enc_key c v x = Some s -> wf_value point key x ->
     decode_value point key cs dec_pt dec_key (dec_codec_of c) v s = Ok x).
Proof.
  split; [exact uint_roundtrip|]. split; [exact (address_roundtrip cs)|].
  split; [exact (addresses_roundtrip cs)|]. split; [exact byteseq_roundtrip|].
  split; [exact bigints_roundtrip|].
  split; [exact (gammas_roundtrip point enc_pt dec_pt pt_roundtrip pt_length pt_bytes)|].
  split; [exact (key_attr_roundtrip key enc_key dec_key key_roundtrip key_bytes)|].
  exact (value_roundtrip point key cs enc_pt dec_pt enc_key dec_key
           pt_roundtrip pt_length pt_bytes key_roundtrip key_bytes).
Qed.

Lemma no_misdecode ev h x :
  make_event point key cs dec_pt dec_key ev h = Ok x ->
  (* the decoded value is well formed, carries the height, and is stable under re-encoding *)
  (wf_event point key x /\ set_height point key x h = x /\
   exists a, make_abci_event point key cs enc_pt enc_key x = Ok a /\
             make_event point key cs dec_pt dec_key a h = Ok x) /\
  (* and it is what the attribute texts denote *)
  (exists d fs,
     find_decoder (fst ev) = Some d /\
     (length (de_names d) <= length (snd ev))%nat /\
     (forall i n, nth_error (de_names d) i = Some n ->
                  exists a, nth_error (snd ev) i = Some a /\ a_key a = bs n) /\
     event_denotes point key cs dec_pt dec_key d (snd ev) fs /\
     of_fields point key (de_struct d) h fs = Some x).
Proof.
  intros H. split.
  - exact (decoded_is_stable point key cs enc_pt dec_pt enc_key dec_key
             pt_roundtrip pt_length pt_bytes key_roundtrip key_bytes ev h x H).
  - exact (make_event_denotes point key cs dec_pt dec_key ev h x H).
Qed.

End Summary.
