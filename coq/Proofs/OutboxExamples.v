(* A concrete crashy run of the loop model (instance of Proofs/DKGExamples.v), used by the
   non-vacuity examples of Properties/C08.v: keyper A reads the eight blocks of DkgEx, sends
   and deletes its first message, crashes after block 3 (cache lost), sees block 4 commit with
   the reply lost, crashes again, and finishes. *)
From Coq Require Import List NArith ZArith Bool Lia Sorted.
From Verif Require Import Lib.Bytes Model.DKGPure Model.DKGDriver Model.Outbox
     Proofs.DKGChain Proofs.DKGExamples Proofs.OutboxEvolve Proofs.OutboxCoh Proofs.Outbox Proofs.OutboxRun.
Import ListNotations.
Open Scope Z_scope.

Module ObEx.
Import DkgEx.

Definition blk (h : nat) : Z * list (@dev C E) := nth h blocks (0, []).
Definition ob (h : nat) : @op C E P := OBlock (blk h) (Z.of_nat h + 2) (fun _ => 10%N) true.

Definition ops : list (@op C E P) :=
  [ ob 0; OOnChain [] 5 true; OSend (SAnswer ROk); ODelete true;
    ob 1; ob 2; OCrash;
    OBlock (blk 3) 5 (fun _ => 77%N) false;          (* an attempt that did not commit *)
    ob 3; OCrash;                                     (* committed, reply lost *)
    OSend SNotSent; OSend (SLost ROk); OCrash; OSend (SAnswer RSeen); ODelete true;
    ob 4; ob 5; ob 6; ob 7 ].

Definition run_ops (l : list (@op C E P)) :=
  Outbox.run C E P commit_of eval_of verify deg_ok valid_eval A L (fun m => m) 1000 (world_init C E P) l.

Lemma enum_id_entries : enum_entries_ok C E P (fun m => m).
Proof.
  intros m Hs k a. induction m as [|[k0 a0] r IH]; simpl.
  - split; [intros []|discriminate].
  - inversion Hs as [|? ? Hr Hall]; subst. destruct (N.eqb k0 k) eqn:Q.
    + apply N.eqb_eq in Q. subst k0. split.
      * intros [H|H]; [injection H as ->; reflexivity|].
        exfalso. rewrite Forall_forall in Hall. assert (Hin : In k (keys r)) by (apply in_map_iff; exists (k, a); auto).
        specialize (Hall _ Hin). lia.
      * intros [= ->]. left. reflexivity.
    + apply N.eqb_neq in Q. rewrite <- (IH Hr). split.
      * intros [H|H]; [injection H as -> _; contradiction|exact H].
      * intros H. right. exact H.
Qed.

(* the run exists; at its end the cache is synchronised, the keyper has applied eight blocks,
   shuttermint received the check-in once, then the block-seen report twice (the re-send after
   the lost reply), and the keyper holds a successful result for eon 1 *)
Lemma run_exists :
  exists w, run_ops ops = Some w /\ sm_sync (w_sm w) = true /\ db_sync _ _ _ (o_db (w_o w)) = 8 /\
            map (fun e => fst (fst e)) (w_log w) = [1%N; 2%N; 2%N] /\
            map (fun r => (fst r, rs_success _ _ (snd r))) (db_results _ _ _ (o_db (w_o w))) = [(1%N, true)].
Proof. vm_compute. eexists. repeat split. Qed.

Lemma ops_from_chain : Forall (from_chain C E P blocks) ops.
Proof. repeat (constructor; [simpl; try exact I; try (split; [reflexivity|lia])|]). constructor. Qed.

(* the surviving operations alone reach the same database and log *)
Lemma survivors_same :
  exists w w', run_ops ops = Some w /\ run_ops (filter (survives C E P) ops) = Some w' /\
               w_o w = w_o w' /\ w_log w = w_log w'.
Proof. vm_compute. do 2 eexists. repeat split. Qed.

Lemma canon_along : along C E P commit_of eval_of verify deg_ok valid_eval A L (fun m => m) 1000
                          (canon C E P) (world_init C E P) (filter (survives C E P) ops).
Proof. vm_compute. repeat split; intros; try reflexivity; try discriminate. Qed.

End ObEx.
