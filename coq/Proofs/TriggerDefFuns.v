(* The hand-written model of eventtrigger.go agrees with what the translator reads off the source
   (Generated/TriggerDefFuns.v is rewritten from the repository on every check of C17).
   Method: rewrite the model's N / nat comparisons into the translator's Z vocabulary, then split
   on every comparison atom, so that a reordering of tests that leaves the decision unchanged
   does not break a proof, while a changed comparison, constant or cast does. *)
From Coq Require Import List Arith NArith ZArith Bool Lia.
From Verif Require Import Lib.Bytes Lib.Rlp Model.TriggerDef Generated.TriggerDefFuns Proofs.TriggerDefMatch.
Import ListNotations.
Open Scope Z_scope.

(* ---- vocabulary ------------------------------------------------------------------------- *)

Lemma N_ltb_Z a b : (a <? b)%N = (Z.of_N a <? Z.of_N b).
Proof. destruct (N.ltb_spec a b), (Z.ltb_spec (Z.of_N a) (Z.of_N b)); try reflexivity; lia. Qed.
Lemma N_leb_Z a b : (a <=? b)%N = (Z.of_N a <=? Z.of_N b).
Proof. destruct (N.leb_spec a b), (Z.leb_spec (Z.of_N a) (Z.of_N b)); try reflexivity; lia. Qed.
Lemma N_eqb_Z a b : (a =? b)%N = (Z.of_N a =? Z.of_N b).
Proof. destruct (N.eqb_spec a b), (Z.eqb_spec (Z.of_N a) (Z.of_N b)); try reflexivity; lia. Qed.
Lemma Nat_eqb_Z a b : Nat.eqb a b = (Z.of_nat a =? Z.of_nat b).
Proof. destruct (Nat.eqb_spec a b), (Z.eqb_spec (Z.of_nat a) (Z.of_nat b)); try reflexivity; lia. Qed.

Ltac gen_consts := cbv [gen_word gen_version gen_op_uintlt gen_op_uintlte gen_op_uinteq gen_op_uintgt gen_op_uintgte gen_op_byteseq] in *.

(* split on every integer comparison in the goal, close by computation or arithmetic *)
Ltac atoms :=
  repeat match goal with
         | |- context [Z.eqb ?a ?b] => destruct (Z.eqb_spec a b)
         | |- context [Z.leb ?a ?b] => destruct (Z.leb_spec a b)
         | |- context [Z.ltb ?a ?b] => destruct (Z.ltb_spec a b)
         end;
  cbn [andb orb negb]; try reflexivity; try (exfalso; lia).

Lemma consts_agree :
  gen_word = 32 /\ Z.to_N gen_version = version /\
  gen_ops = [0; 1; 2; 3; 4; 5].
Proof. repeat split. Qed.

(* ---- decision tables --------------------------------------------------------------------- *)

Lemma op_valid_agrees op : gen_op_valid (Z.of_N op) = op_valid op.
Proof.
  unfold gen_op_valid, op_valid. rewrite N_leb_Z. gen_consts.
  pose proof (N2Z.is_nonneg op). set (z := Z.of_N op) in *. change (Z.of_N 5) with 5. atoms.
Qed.

Lemma num_int_args_agrees op : gen_num_int_args (Z.of_N op) = Z.of_nat (num_int_args op).
Proof.
  unfold gen_num_int_args, num_int_args. rewrite N_leb_Z. gen_consts.
  pose proof (N2Z.is_nonneg op). set (z := Z.of_N op) in *. change (Z.of_N 4) with 4. atoms.
Qed.

Lemma num_byte_args_agrees op : gen_num_byte_args (Z.of_N op) = Z.of_nat (num_byte_args op).
Proof.
  unfold gen_num_byte_args, num_byte_args. rewrite N_eqb_Z. gen_consts.
  pose proof (N2Z.is_nonneg op). set (z := Z.of_N op) in *. change (Z.of_N 5) with 5. atoms.
Qed.

Lemma is_topic_agrees p : gen_is_topic (Z.of_N (p_off p)) = is_topic p.
Proof. unfold gen_is_topic, is_topic. rewrite N_ltb_Z. reflexivity. Qed.

Lemma ref_validate_agrees p : gen_ref_validate (p_dyn p) (Z.of_N (p_off p)) = ref_validate p.
Proof.
  unfold gen_ref_validate, ref_validate. rewrite N_leb_Z, N_ltb_Z.
  pose proof (N2Z.is_nonneg (p_off p)). set (z := Z.of_N (p_off p)) in *.
  change (Z.of_N 4294967295) with 4294967295. change (Z.of_N 4) with 4.
  destruct (p_dyn p); atoms.
Qed.

Lemma validate_arg_nums_agrees op a b :
  gen_validate_arg_nums (Z.of_N op) (Z.of_nat a) (Z.of_nat b) =
  Nat.eqb a (num_int_args op) && Nat.eqb b (num_byte_args op).
Proof.
  unfold gen_validate_arg_nums. rewrite num_int_args_agrees, num_byte_args_agrees, !Nat_eqb_Z.
  destruct (Z.of_nat a =? _), (Z.of_nat b =? _); reflexivity.
Qed.

(* an integer argument as the translator sees it: (arg == nil, arg.Sign()) *)
Definition arg_view (a : option Z) : bool * Z :=
  match a with None => (true, 0) | Some z => (false, Z.sgn z) end.

Lemma validate_arg_values_agrees l :
  gen_validate_arg_values (map arg_view l) = forallb int_arg_ok l.
Proof.
  unfold gen_validate_arg_values.
  assert (E : forallb (fun a : bool * Z => if fst a then false else if snd a <? 0 then false else true)
                (map arg_view l) = forallb int_arg_ok l).
  { induction l as [|a l IH]; [reflexivity|]. cbn [map forallb]. rewrite IH. f_equal.
    destruct a as [[|z|z]|]; reflexivity. }
  rewrite E. destruct (forallb int_arg_ok l); reflexivity.
Qed.

Lemma vp_validate_agrees p :
  gen_vp_validate (Z.of_N (p_op p)) (Z.of_nat (length (p_ints p))) (Z.of_nat (length (p_bytes p)))
                  (map arg_view (p_ints p)) = vp_validate p.
Proof.
  unfold gen_vp_validate, vp_validate.
  rewrite op_valid_agrees, validate_arg_nums_agrees, validate_arg_values_agrees.
  destruct (op_valid _), (Nat.eqb _ _), (Nat.eqb _ _), (forallb _ _); reflexivity.
Qed.

(* len(ByteArgs[0]) is only evaluated when ValuePredicate.Validate passed and the op is BytesEq,
   that is when there is exactly one byte argument; hd [] covers the unreachable rest *)
Lemma lp_validate_agrees p :
  gen_lp_validate (p_dyn p) (Z.of_N (p_off p)) (Z.of_N (p_op p)) (vp_validate p)
                  (Z.of_nat (length (hd [] (p_bytes p)))) = lp_validate p.
Proof.
  unfold gen_lp_validate, lp_validate, is_topic_eq.
  rewrite ref_validate_agrees, is_topic_agrees, N_eqb_Z. gen_consts. change (Z.of_N 5) with 5.
  destruct (ref_validate p); [|reflexivity].
  destruct (vp_validate p) eqn:Ev; [|reflexivity]. cbn [negb andb].
  destruct (is_topic p); [|reflexivity]. cbn [andb].
  destruct (Z.eqb_spec (Z.of_N (p_op p)) 5) as [E|E]; [|reflexivity].
  destruct (vp_validate_shape p Ev) as [(Hle & _)|(_ & _ & b & Hb)]; [lia|].
  rewrite Hb. cbn [hd]. rewrite Nat_eqb_Z.
  destruct (Z.of_nat (length b) =? Z.of_nat 32) eqn:E2; change (Z.of_nat 32) with 32 in E2; rewrite E2; reflexivity.
Qed.

(* ---- the dispatch of ValuePredicate.Match ------------------------------------------------ *)

(* big.Int.Cmp *)
Definition cmp3 (x y : Z) : Z := match x ?= y with Lt => -1 | Eq => 0 | Gt => 1 end.

Lemma cmp3_lt x y : (cmp3 x y <? 0) = (x <? y).
Proof. unfold cmp3, Z.ltb. destruct (x ?= y); reflexivity. Qed.
Lemma cmp3_le x y : (cmp3 x y <=? 0) = (x <=? y).
Proof. unfold cmp3, Z.leb at 2. destruct (x ?= y); reflexivity. Qed.
Lemma cmp3_eq x y : (cmp3 x y =? 0) = (x =? y).
Proof.
  unfold cmp3. destruct (Z.compare_spec x y) as [->|H|H].
  - rewrite !Z.eqb_refl. reflexivity.
  - symmetry. apply Z.eqb_neq. lia.
  - symmetry. apply Z.eqb_neq. lia.
Qed.
Lemma cmp3_gt x y : (0 <? cmp3 x y) = (x >? y).
Proof. unfold cmp3, Z.gtb. destruct (x ?= y); reflexivity. Qed.
Lemma cmp3_ge x y : (0 <=? cmp3 x y) = (x >=? y).
Proof. unfold cmp3, Z.geb. destruct (x ?= y); reflexivity. Qed.

Lemma vp_match_agrees p v a b :
  ((p_op p <= 4)%N -> exists r, p_ints p = Some a :: r) ->
  (p_op p = 5%N -> exists r, p_bytes p = b :: r) ->
  vp_match p v = gen_vp_match (Z.of_N (p_op p)) (cmp3 (Z.of_N (be v)) a) (bytes_eqb v b).
Proof.
  destruct p as [dyn off op ints bs]. cbn [p_op p_ints p_bytes]. intros H1 H2.
  unfold vp_match, gen_vp_match. cbn [p_op p_ints p_bytes]. gen_consts.
  rewrite cmp3_lt, cmp3_le, cmp3_eq, cmp3_gt, cmp3_ge.
  destruct op as [|[[[q|q|]|[q|q|]|]|[[q|q|]|[q|q|]|]|]]; try reflexivity.
  all: first [ destruct (H2 eq_refl) as [r ->]; reflexivity
             | destruct (H1 ltac:(lia)) as [r ->]; reflexivity ].
Qed.

(* ---- which predicates the filter and the duplicate rule look at --------------------------- *)

Lemma filter_selects_agrees p :
  gen_filter_selects (Z.of_N (p_off p)) (Z.of_N (p_op p)) = is_topic p && (p_op p =? 5)%N.
Proof.
  unfold gen_filter_selects. rewrite is_topic_agrees, N_eqb_Z. gen_consts. change (Z.of_N 5) with 5.
  destruct (is_topic p), (Z.of_N (p_op p) =? 5); reflexivity.
Qed.

Lemma dup_check_selects_agrees p :
  gen_dup_check_selects (Z.of_N (p_off p)) (Z.of_N (p_op p)) = is_topic_eq p.
Proof.
  unfold gen_dup_check_selects, is_topic_eq. rewrite is_topic_agrees, N_eqb_Z. gen_consts. change (Z.of_N 5) with 5.
  destruct (is_topic p), (Z.of_N (p_op p) =? 5); reflexivity.
Qed.

(* ---- bounds arithmetic ---------------------------------------------------------------------- *)

Lemma skipn_repeat {A} (x : A) m k : skipn m (repeat x k) = repeat x (k - m).
Proof.
  revert m. induction k as [|k IH]; intros m; [destruct m; reflexivity|].
  destruct m; [reflexivity|]. cbn [repeat skipn]. rewrite IH. reflexivity.
Qed.

Lemma make_copy_agrees n src lo hi :
  gen_copy (gen_make n) src lo hi =
  if max_alloc <? n then VPanic
  else match slice src lo hi with
       | None => VPanic
       | Some s => VOk (copy_into (Z.to_nat n) s)
       end.
Proof.
  unfold gen_make. destruct (max_alloc <? n); [reflexivity|]. cbn [gen_copy].
  destruct (slice src lo hi) as [s|]; [|reflexivity].
  unfold copy_into. rewrite repeat_length, skipn_repeat. reflexivity.
Qed.

Lemma read_word_agrees data start : gen_read_word_as_uint64 data start = read_word_u64 data start.
Proof.
  unfold gen_read_word_as_uint64, read_word_u64, gen_word_of. gen_consts.
  destruct (zlen data <? 32), (u64 (zlen data - 32) <? start); reflexivity.
Qed.

Lemma get_offset_data_value_agrees p lg :
  gen_get_offset_data_value (Z.of_N (p_off p)) (l_data lg) = get_offset_data_value p lg.
Proof.
  unfold gen_get_offset_data_value, get_offset_data_value. gen_consts.
  rewrite read_word_agrees.
  destruct (read_word_u64 (l_data lg) _) as [lbo| |]; try reflexivity.
  rewrite read_word_agrees.
  destruct (read_word_u64 (l_data lg) lbo) as [len| |]; try reflexivity.
  destruct (u64 (zlen (l_data lg) - u64 (lbo + 32)) <? len); [reflexivity|].
  rewrite make_copy_agrees. reflexivity.
Qed.

Lemma u64_mul_idemp a b : u64 (u64 a * b) = u64 (a * b).
Proof. unfold u64. apply Z.mul_mod_idemp_l. discriminate. Qed.

Lemma get_value_agrees p lg :
  gen_get_value (p_dyn p) (Z.of_N (p_off p)) (l_topics lg) (l_data lg) = get_value p lg.
Proof.
  unfold gen_get_value, get_value, get_value_with. rewrite is_topic_agrees.
  destruct (is_topic p).
  - unfold gen_topic_bytes. rewrite <- Z_N_nat, N2Z.id.
    destruct (Z.leb_spec (Z.of_nat (length (l_topics lg))) (Z.of_N (p_off p))) as [H|H].
    + assert (E : nth_error (l_topics lg) (N.to_nat (p_off p)) = None) by (apply nth_error_None; lia).
      rewrite E. reflexivity.
    + destruct (nth_error (l_topics lg) (N.to_nat (p_off p))) eqn:E; [reflexivity|].
      apply nth_error_None in E. lia.
  - destruct (p_dyn p); [apply get_offset_data_value_agrees|].
    unfold get_static_value. gen_consts. rewrite !u64_mul_idemp.
    destruct (u64 ((Z.of_N (p_off p) - 4) * 32) <? zlen (l_data lg)); [|reflexivity].
    rewrite make_copy_agrees. reflexivity.
Qed.
