(* app/powermap.go as translated statement by statement on this run (Generated/PowermapFuns.v)
   computes what the hand-written model (Model/Powermap.v) computes, for every enumeration
   order of the ranged maps. The theorems of Proofs/Powermap.v and Proofs/AppVals.v about
   DiffPowermaps / ValidatorUpdates therefore speak about the code as it is now. *)
From Coq Require Import List NArith ZArith Bool Lia.
From Verif Require Import Lib.Bytes Lib.Assoc Lib.Sorting Model.Powermap Generated.PowermapFuns.
Import ListNotations.
Open Scope Z_scope.

Lemma fold_left_ext {A B} (f g : A -> B -> A) l a b :
  (forall x y, f x y = g x y) -> a = b -> fold_left f l a = fold_left g l b.
Proof. intros H E. subst b. revert a. induction l as [|y r IH]; intros a; simpl; [reflexivity|]. rewrite H. apply IH. Qed.

Lemma gen_validator_less_is_ltb a b : gen_validator_less a b = bytes_ltb a b.
Proof. unfold gen_validator_less, bytes_ltb. destruct (bytes_cmp a b); reflexivity. Qed.

Lemma gen_insert_is_kinsert x l : gen_insert x l = kinsert x l.
Proof.
  induction l as [|y r IH]; simpl; [reflexivity|].
  rewrite gen_validator_less_is_ltb, IH. reflexivity.
Qed.

Lemma gen_sort_is_ksort l : gen_sort_validators l = ksort l.
Proof.
  unfold gen_sort_validators. induction l as [|x r IH]; simpl; [reflexivity|].
  rewrite IH. apply gen_insert_is_kinsert.
Qed.

Lemma gen_diff_agrees oldpm newpm oe ne :
  gen_diff_powermaps oldpm newpm oe ne = diff_powermaps_enum oldpm newpm oe ne.
Proof.
  unfold gen_diff_powermaps, diff_powermaps_enum, diff_update, diff_remove. cbv zeta.
  apply fold_left_ext.
  - intros res [k p]. cbn [fst snd]. destruct (Z.eqb (pget0 oldpm k) p); reflexivity.
  - apply fold_left_ext; [|reflexivity]. intros res [k p]. cbn [fst snd].
    destruct (amem newpm k); reflexivity.
Qed.

(* the first loop ranges over the old map, the second over the new one *)
Lemma gen_diff_ranged_ok : gen_diff_ranged = [0%nat; 1%nat].
Proof. reflexivity. Qed.

Lemma fold_append_id (e acc : list (bytes * Z)) :
  fold_left (fun res kv => res ++ [(fst kv, snd kv)]) e acc = acc ++ e.
Proof.
  revert acc. induction e as [|[k p] r IH]; intros acc; simpl; [rewrite app_nil_r; reflexivity|].
  rewrite IH, <- app_assoc. reflexivity.
Qed.

Lemma gen_validator_updates_agrees pm e : gen_validator_updates pm e = validator_updates_enum e.
Proof.
  unfold gen_validator_updates, validator_updates_enum. cbv zeta.
  rewrite gen_sort_is_ksort, fold_append_id. reflexivity.
Qed.

(* what determinism needs from ValidatorUpdates, stated on the translated function: any two
   enumerations of one map (distinct keys) give the same update list *)
From Coq Require Import Permutation.
Lemma gen_validator_updates_order_free pm e1 e2 :
  NoDup (map fst e1) -> Permutation e1 e2 ->
  gen_validator_updates pm e1 = gen_validator_updates pm e2.
Proof.
  intros Hnd Hp. rewrite !gen_validator_updates_agrees. unfold validator_updates_enum.
  apply ksort_unique; assumption.
Qed.

(* ShutterApp.makePowermap and countCheckedInKeypers (app.go) as translated *)
From Verif Require Import Model.App Generated.AppConsts.
Lemma gen_make_powermap_agrees ids keypers : gen_make_powermap ids keypers = make_powermap ids keypers.
Proof.
  unfold gen_make_powermap, make_powermap. cbv zeta.
  apply fold_left_ext; [|reflexivity]. intros pm k. unfold amem.
  destruct (aget ids k); reflexivity.
Qed.

Lemma filter_len_le {A} (f : A -> bool) l : (List.length (filter f l) <= List.length l)%nat.
Proof. induction l as [|x r IH]; simpl; [lia|]. destruct (f x); simpl; lia. Qed.

Lemma gen_count_fold (ids : amap bytes) keypers acc :
  0 <= acc -> acc + Z.of_nat (List.length keypers) < 18446744073709551616 ->
  fold_left (fun n k => if amem ids k then (n + 1) mod 18446744073709551616 else n) keypers acc =
  acc + Z.of_nat (List.length (filter (fun k => amem ids k) keypers)).
Proof.
  revert acc. induction keypers as [|k r IH]; intros acc H0 Hb; cbn [fold_left filter List.length].
  - lia.
  - assert (Hf := filter_len_le (fun k => amem ids k) r).
    cbn [List.length] in Hb.
    destruct (amem ids k); cbn [List.length].
    + rewrite Z.mod_small by lia. rewrite IH by lia. lia.
    + rewrite IH by lia. lia.
Qed.

Lemma gen_count_checked_in_agrees (ids : amap bytes) keypers :
  Z.of_nat (List.length keypers) < 18446744073709551616 ->
  gen_count_checked_in ids keypers = Z.of_N (count_checked_in ids keypers).
Proof.
  intros Hb. unfold gen_count_checked_in, count_checked_in. cbv zeta.
  rewrite nat_N_Z, <- (Z.add_0_l (Z.of_nat _)).
  etransitivity; [|apply (gen_count_fold ids keypers 0); lia].
  apply fold_left_ext; [|reflexivity]. intros n k. destruct (amem ids k); reflexivity.
Qed.

(* ShutterApp.CurrentValidators as translated: the newest started config whose validators were
   updated decides, else the stored validators *)
Lemma gen_current_validators_agrees ids validators cs :
  gen_current_validators ids validators cs = current_validators ids validators cs.
Proof.
  unfold gen_current_validators, current_validators.
  induction (rev cs) as [|c r IH]; cbn [find current_validators_rev]; [reflexivity|].
  destruct (c_started c), (c_valupd c); cbn [andb]; try exact IH; apply gen_make_powermap_agrees.
Qed.
