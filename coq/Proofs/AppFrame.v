(* The frame of the entry points that must not change the replicated state.

   1. About the model: CheckTx changes nothing but the mempool bookkeeping (chk_members,
      chk_counts, chk_nonces), Commit resets it, and nothing else ever READS it: block execution
      (BeginBlock, DeliverTx, EndBlock, Commit) answers the same and leaves the same replicated
      state whatever CheckTx calls were interleaved (mempool_irrelevant, for every call sequence).
   2. About the source: Generated/AppFrame.v lists, from go/types, what CheckTx, Commit,
      PersistToDisk, Info, Query, BeginBlock, PrepareProposal and ProcessProposal can write
      (transitively inside the app package) and which package-level variables are written after
      initialisation. frame_tables_agree compares them with the frame the model gives these calls. *)
From Coq Require Import List NArith ZArith Bool String.
From Verif Require Import Lib.Bytes Lib.Assoc Model.Powermap Model.App Proofs.AppDet Generated.AppFrame.
Import ListNotations.

(* ---------------------------------------------------------------- the model's frame *)
Definition wc (s : state) (m : list addr) (c : amap Z) (n : list (addr * N)) : state := set_chk s m c n.

(* the replicated part: everything but the mempool bookkeeping *)
Definition eqc (a b : state) : Prop := wc a [] [] [] = wc b [] [] [].

Lemma eqc_refl a : eqc a a. Proof. reflexivity. Qed.
Lemma eqc_sym a b : eqc a b -> eqc b a. Proof. unfold eqc; congruence. Qed.
Lemma eqc_trans a b c : eqc a b -> eqc b c -> eqc a c. Proof. unfold eqc; congruence. Qed.
Lemma eqc_wc s m c n : eqc (wc s m c n) s. Proof. reflexivity. Qed.
Lemma eqc_is_wc a b : eqc a b -> b = wc a (chk_members b) (chk_counts b) (chk_nonces b).
Proof. destruct a, b; unfold eqc, wc, set_chk; simpl; intros [=]; subst; reflexivity. Qed.

Lemma check_tx_frame s t : eqc (fst (check_tx s t)) s.
Proof. unfold check_tx. branches; simpl; reflexivity. Qed.

Lemma commit_frame s : eqc (commit s) s.
Proof. reflexivity. Qed.

Lemma start_dkg_wc s cf m c n :
  start_dkg (wc s m c n) cf = (wc (fst (start_dkg s cf)) m c n, snd (start_dkg s cf)).
Proof. reflexivity. Qed.

Ltac finish_dkg :=
  repeat match goal with H : start_dkg _ _ = _ |- _ => revert H end;
  unfold start_dkg; simpl; intros;
  repeat match goal with H : (_, _) = (_, _) |- _ => inversion H; clear H; subst end;
  try reflexivity; try (eexists; reflexivity); try congruence.

Lemma batch_config_wc_some e s sender act ks t i m c n s' r :
  deliver_batch_config e s sender act ks t i = Some (s', r) ->
  exists m', deliver_batch_config e (wc s m c n) sender act ks t i = Some (wc s' m' c n, r).
Proof.
  unfold deliver_batch_config, check_config. simpl.
  branches; intros [= <- <-]; try discriminate; try (exists m; reflexivity).
  all: finish_dkg.
Qed.

Lemma batch_config_wc_none e s sender act ks t i m c n :
  deliver_batch_config e s sender act ks t i = None ->
  deliver_batch_config e (wc s m c n) sender act ks t i = None.
Proof.
  unfold deliver_batch_config, check_config. simpl.
  branches; intros H; try discriminate; try reflexivity.
  all: finish_dkg.
Qed.

Lemma check_in_wc s sender vk ek ok m c n :
  deliver_check_in (wc s m c n) sender vk ek ok =
  (wc (fst (deliver_check_in s sender vk ek ok)) m c n, snd (deliver_check_in s sender vk ek ok)).
Proof. unfold deliver_check_in, check_in_fork_active, is_keyper_any. simpl. branches; reflexivity. Qed.

Lemma block_seen_wc s sender bn m c n :
  deliver_block_seen (wc s m c n) sender bn =
  (wc (fst (deliver_block_seen s sender bn)) m c n, snd (deliver_block_seen s sender bn)).
Proof. unfold deliver_block_seen. simpl. branches; reflexivity. Qed.

Lemma dkg_result_wc_some e s sender succ eon m c n s' r :
  deliver_dkg_result e s sender succ eon = Some (s', r) ->
  deliver_dkg_result e (wc s m c n) sender succ eon = Some (wc s' m c n, r).
Proof.
  unfold deliver_dkg_result. simpl.
  branches; intros [= <- <-]; try discriminate; try reflexivity.
  all: finish_dkg.
Qed.

Lemma dkg_result_wc_none e s sender succ eon m c n :
  deliver_dkg_result e s sender succ eon = None ->
  deliver_dkg_result e (wc s m c n) sender succ eon = None.
Proof.
  unfold deliver_dkg_result. simpl.
  branches; intros H; try discriminate; try reflexivity.
  all: finish_dkg.
Qed.

Lemma poly_eval_wc s sender eon rs es m c n :
  handle_poly_eval (wc s m c n) sender eon rs es =
  (wc (fst (handle_poly_eval s sender eon rs es)) m c n, snd (handle_poly_eval s sender eon rs es)).
Proof. unfold handle_poly_eval. simpl. branches; reflexivity. Qed.

Lemma poly_commitment_wc s sender eon gs m c n :
  handle_poly_commitment (wc s m c n) sender eon gs =
  (wc (fst (handle_poly_commitment s sender eon gs)) m c n, snd (handle_poly_commitment s sender eon gs)).
Proof. unfold handle_poly_commitment. simpl. branches; reflexivity. Qed.

Lemma accusation_wc s sender eon a m c n :
  handle_accusation (wc s m c n) sender eon a =
  (wc (fst (handle_accusation s sender eon a)) m c n, snd (handle_accusation s sender eon a)).
Proof. unfold handle_accusation. simpl. branches; reflexivity. Qed.

Lemma apology_wc s sender eon a es m c n :
  handle_apology (wc s m c n) sender eon a es =
  (wc (fst (handle_apology s sender eon a es)) m c n, snd (handle_apology s sender eon a es)).
Proof. unfold handle_apology. simpl. branches; reflexivity. Qed.

(* one statement for all message kinds *)
Definition same_outcome (x y : option (state * resp)) : Prop :=
  match x, y with
  | Some (a, r), Some (b, r') => eqc a b /\ r = r'
  | None, None => True
  | _, _ => False
  end.

Lemma deliver_message_wc e s sender p m c n :
  same_outcome (deliver_message e s sender p) (deliver_message e (wc s m c n) sender p).
Proof.
  destruct p; cbn [deliver_message].
  - destruct (deliver_batch_config e s sender act keypers threshold idx) as [[s' r]|] eqn:H.
    + destruct (batch_config_wc_some _ _ _ _ _ _ _ m c n _ _ H) as [m' ->]. split; [apply eqc_sym, eqc_wc|reflexivity].
    + rewrite (batch_config_wc_none _ _ _ _ _ _ _ m c n H). exact I.
  - rewrite block_seen_wc. destruct (deliver_block_seen s sender bn). split; [apply eqc_sym, eqc_wc|reflexivity].
  - rewrite check_in_wc. destruct (deliver_check_in s sender valkey enckey enckey_ok). split; [apply eqc_sym, eqc_wc|reflexivity].
  - destruct (deliver_dkg_result e s sender success eon) as [[s' r]|] eqn:H.
    + rewrite (dkg_result_wc_some _ _ _ _ _ m c n _ _ H). split; [apply eqc_sym, eqc_wc|reflexivity].
    + rewrite (dkg_result_wc_none _ _ _ _ _ m c n H). exact I.
  - rewrite poly_eval_wc. destruct (handle_poly_eval s sender eon receivers evals). split; [apply eqc_sym, eqc_wc|reflexivity].
  - rewrite poly_commitment_wc. destruct (handle_poly_commitment s sender eon gammas). split; [apply eqc_sym, eqc_wc|reflexivity].
  - rewrite accusation_wc. destruct (handle_accusation s sender eon accused). split; [apply eqc_sym, eqc_wc|reflexivity].
  - rewrite apology_wc. destruct (handle_apology s sender eon accusers evals). split; [apply eqc_sym, eqc_wc|reflexivity].
  - split; [apply eqc_sym, eqc_wc|reflexivity].
Qed.

Lemma deliver_tx_wc e s t m c n :
  same_outcome (deliver_tx e s t) (deliver_tx e (wc s m c n) t).
Proof.
  destruct t as [|signer chain nonce p]; cbn [deliver_tx].
  - split; [apply eqc_sym, eqc_wc|reflexivity].
  - change (chain_id (wc s m c n)) with (chain_id s). change (nonces (wc s m c n)) with (nonces s).
    destruct (negb (bytes_eqb chain (chain_id s))); [split; [apply eqc_sym, eqc_wc|reflexivity]|].
    destruct (nonce_used (nonces s) signer nonce); [split; [apply eqc_sym, eqc_wc|reflexivity]|].
    change (set_nonces (wc s m c n) ((signer, nonce) :: nonces s))
      with (wc (set_nonces s ((signer, nonce) :: nonces s)) m c n).
    apply deliver_message_wc.
Qed.

Lemma end_block_configs_wc s m c n : forall cs prev,
  end_block_configs (wc s m c n) prev cs = end_block_configs s prev cs.
Proof.
  induction cs as [|x r IH]; intros prev; cbn [end_block_configs]; [reflexivity|].
  rewrite IH. reflexivity.
Qed.

Lemma end_block_wc e s h m c n :
  end_block e (wc s m c n) h = (wc (fst (end_block e s h)) m c n, snd (end_block e s h)).
Proof.
  unfold end_block. rewrite end_block_configs_wc.
  change (configs (wc s m c n)) with (configs s).
  destruct (end_block_configs s None (configs s)). reflexivity.
Qed.

Definition is_check (cl : call) : bool := match cl with CCheck _ => true | _ => false end.

(* a call other than CheckTx neither reads nor (beyond Commit's reset and the member list that
   a new configuration rewrites from the configurations) depends on the mempool bookkeeping *)
Lemma step_wc e s cl m c n : is_check cl = false ->
  eqc (fst (step e s cl)) (fst (step e (wc s m c n) cl)) /\
  snd (step e s cl) = snd (step e (wc s m c n) cl).
Proof.
  destruct cl as [h|t|t|h|]; cbn [is_check step]; intros Hc; try discriminate.
  - change (begin_block (wc s m c n) h) with (begin_block s h).
    destruct (begin_block s h); split; try reflexivity; apply eqc_sym, eqc_wc.
  - pose proof (deliver_tx_wc e s t m c n) as H. unfold same_outcome in H.
    destruct (deliver_tx e s t) as [[a [code evs]]|], (deliver_tx e (wc s m c n) t) as [[b [code' evs']]|];
      try contradiction; cbn [fst snd].
    + destruct H as [H1 [= -> ->]]. split; [exact H1|reflexivity].
    + split; [apply eqc_sym, eqc_wc|reflexivity].
  - rewrite end_block_wc. destruct (end_block e s h) as [a [ups evs]]. cbn [fst snd].
    split; [apply eqc_sym, eqc_wc|reflexivity].
  - split; reflexivity.
Qed.

Lemma step_eqc e a b cl : is_check cl = false -> eqc a b ->
  eqc (fst (step e a cl)) (fst (step e b cl)) /\ snd (step e a cl) = snd (step e b cl).
Proof. intros Hc H. rewrite (eqc_is_wc a b H). apply step_wc. exact Hc. Qed.

Lemma step_check e s t : eqc (fst (step e s (CCheck t))) s.
Proof. cbn [step]. pose proof (check_tx_frame s t) as H. destruct (check_tx s t). exact H. Qed.

Definition drop_checks (cs : list call) : list call := filter (fun cl => negb (is_check cl)) cs.

Fixpoint block_responses (cs : list call) (rs : list response) : list response :=
  match cs, rs with
  | cl :: cs', r :: rs' => if is_check cl then block_responses cs' rs' else r :: block_responses cs' rs'
  | _, _ => []
  end.

(* Whatever CheckTx calls a node answered in between (its own mempool traffic), the calls that
   execute blocks are answered alike and leave the same replicated state. *)
Theorem mempool_irrelevant e cs : forall a b, eqc a b ->
  eqc (fst (run e a cs)) (fst (run e b (drop_checks cs))) /\
  block_responses cs (snd (run e a cs)) = snd (run e b (drop_checks cs)).
Proof.
  induction cs as [|cl r IH]; intros a b Hab; [split; [exact Hab|reflexivity]|].
  cbn [run drop_checks filter]. fold (drop_checks r).
  destruct (is_check cl) eqn:Hc; cbn [negb].
  - destruct cl; try discriminate.
    pose proof (step_check e a t) as Hs.
    destruct (step e a (CCheck t)) as [a1 o] eqn:Hst. cbn [fst] in Hs.
    specialize (IH a1 b (eqc_trans _ _ _ Hs Hab)).
    destruct (run e a1 r) as [a2 os]. cbn [fst snd block_responses is_check] in *. exact IH.
  - destruct (step_eqc e a b cl Hc Hab) as [H1 H2].
    cbn [run].
    destruct (step e a cl) as [a1 o], (step e b cl) as [b1 o']. cbn [fst snd] in H1, H2. subst o'.
    specialize (IH a1 b1 H1).
    destruct (run e a1 r) as [a2 os], (run e b1 (drop_checks r)) as [b2 os'].
    cbn [fst snd block_responses] in *. rewrite Hc. destruct IH as [IH1 IH2]. split; [exact IH1|congruence].
Qed.

(* ---------------------------------------------------------------- the source's frame *)
Open Scope string_scope.

(* What the model lets these entry points change, in the source's vocabulary:
   CheckTx  - CheckTxState.TxCounts and the RandomNonces of CheckTxState's own NonceTracker
              (chk_counts, chk_nonces);
   Commit   - CheckTxState.Reset (both fields again) and the node-local save (LastSaved, the
              gob encoder reading the application);
   BeginBlock - nothing (it renders Configs[0] as an event);
   Info, Query, PrepareProposal, ProcessProposal - nothing. *)
Definition model_entry_writes : list (string * list string) := [
  ("BeginBlock", ["ext:shutterevents.MakeABCIEvent:*BatchConfig"]);
  ("CheckTx", ["CheckTxState.TxCounts"; "NonceTracker.RandomNonces"]);
  ("Commit", ["CheckTxState.NonceTracker"; "CheckTxState.TxCounts"; "ShutterApp.LastSaved"; "ext:gob.Encode:*ShutterApp"]);
  ("Info", []);
  ("PersistToDisk", ["ShutterApp.LastSaved"; "ext:gob.Encode:*ShutterApp"]);
  ("PrepareProposal", []);
  ("ProcessProposal", []);
  ("Query", [])
].

(* no package-level variable of the app package is written after initialisation *)
Definition never_written (t : list (string * list string)) : bool :=
  forallb (fun vw => match snd vw with
                     | [] => true
                     | ["init"] => true
                     | _ => false
                     end) t.

Lemma frame_tables_agree :
  gen_entry_writes = model_entry_writes /\ never_written gen_package_var_writes = true.
Proof. split; reflexivity. Qed.
