(* Insertion sort by a boolean order (Model.GnosisSlot.isort_by): permutation, sortedness under
   a total order, and uniqueness of the sorted permutation when the order is antisymmetric on
   the elements of the list (duplicates allowed). Instances: bytes under bytes_leb (Go's
   bytes.Compare), rows under an integer key with distinct keys. *)
From Coq Require Import List NArith ZArith Bool Lia Permutation Sorted Relations.
From Verif Require Import Lib.Bytes Model.GnosisSlot.
Import ListNotations.
Open Scope Z_scope.

Section ISortFacts.
  Variable A : Type.
  Variable leb : A -> A -> bool.

  Definition lerel (a b : A) : Prop := leb a b = true.

  Hypothesis leb_total : forall a b, leb a b = true \/ leb b a = true.
  Hypothesis leb_trans : forall a b c, leb a b = true -> leb b c = true -> leb a c = true.

  Lemma insert_by_perm x l : Permutation (insert_by leb x l) (x :: l).
  Proof.
    induction l as [|y t IH]; simpl; [apply Permutation_refl|].
    destruct (leb x y); [apply Permutation_refl|].
    eapply Permutation_trans; [apply perm_skip; exact IH|apply perm_swap].
  Qed.

  Lemma isort_by_perm l : Permutation (isort_by leb l) l.
  Proof.
    induction l as [|x t IH]; simpl; [constructor|].
    eapply Permutation_trans; [apply insert_by_perm|apply perm_skip; exact IH].
  Qed.

  Lemma insert_by_hdrel a x l :
    lerel a x -> HdRel lerel a l -> HdRel lerel a (insert_by leb x l).
  Proof.
    intros Hax Hl. destruct l as [|y t]; simpl; [constructor; exact Hax|].
    destruct (leb x y); constructor; [exact Hax|]. inversion Hl; assumption.
  Qed.

  Lemma insert_by_sorted x l : Sorted lerel l -> Sorted lerel (insert_by leb x l).
  Proof.
    induction l as [|y t IH]; simpl; intros Hs; [repeat constructor|].
    inversion Hs as [|? ? Hst Hhd]; subst.
    destruct (leb x y) eqn:E.
    - constructor; [exact Hs|constructor; exact E].
    - constructor; [apply IH; exact Hst|].
      apply insert_by_hdrel; [|exact Hhd].
      destruct (leb_total x y) as [H|H]; [congruence|exact H].
  Qed.

  Lemma isort_by_sorted l : Sorted lerel (isort_by leb l).
  Proof. induction l as [|x t IH]; simpl; [constructor|apply insert_by_sorted; exact IH]. Qed.

  Lemma lerel_transitive : Relations_1.Transitive lerel.
  Proof. intros a b c. apply leb_trans. Qed.

  Lemma sorted_strongly l : Sorted lerel l -> StronglySorted lerel l.
  Proof. apply Sorted_StronglySorted. exact lerel_transitive. Qed.

  (* a sorted permutation is unique when the order is antisymmetric on the list's elements *)
  Lemma strongly_sorted_perm_unique l1 l2 :
    (forall a b, In a l1 -> In b l1 -> leb a b = true -> leb b a = true -> a = b) ->
    StronglySorted lerel l1 -> StronglySorted lerel l2 -> Permutation l1 l2 -> l1 = l2.
  Proof.
    revert l2. induction l1 as [|a r1 IH]; intros l2 Hanti H1 H2 Hp.
    - apply Permutation_nil in Hp. congruence.
    - destruct l2 as [|b r2]; [apply Permutation_sym, Permutation_nil in Hp; discriminate|].
      inversion H1 as [|? ? Hs1 Hf1]; subst. inversion H2 as [|? ? Hs2 Hf2]; subst.
      assert (Ia : In a (b :: r2)) by (eapply Permutation_in; [exact Hp|left; reflexivity]).
      assert (Ib : In b (a :: r1)) by (eapply Permutation_in; [apply Permutation_sym; exact Hp|left; reflexivity]).
      assert (Hab : a = b).
      { destruct Ia as [Ia|Ia]; [congruence|]. destruct Ib as [Ib'|Ib']; [congruence|].
        rewrite Forall_forall in Hf1, Hf2.
        apply Hanti; [left; reflexivity|right; exact Ib'|apply Hf1; exact Ib'|apply Hf2; exact Ia]. }
      subst b. f_equal. apply IH; try assumption.
      + intros x y Hx Hy. apply Hanti; right; assumption.
      + eapply Permutation_cons_inv. exact Hp.
  Qed.

  Theorem sorted_perm_unique l out :
    (forall a b, In a l -> In b l -> leb a b = true -> leb b a = true -> a = b) ->
    Permutation out l -> Sorted lerel out -> out = isort_by leb l.
  Proof.
    intros Hanti Hp Hs.
    apply strongly_sorted_perm_unique.
    - intros a b Ha Hb. apply Hanti; eapply Permutation_in; eauto.
    - apply sorted_strongly; exact Hs.
    - apply sorted_strongly, isort_by_sorted.
    - eapply Permutation_trans; [exact Hp|apply Permutation_sym, isort_by_perm].
  Qed.

  Theorem isort_by_perm_invariant l1 l2 :
    (forall a b, In a l1 -> In b l1 -> leb a b = true -> leb b a = true -> a = b) ->
    Permutation l1 l2 -> isort_by leb l1 = isort_by leb l2.
  Proof.
    intros Hanti Hp. symmetry. apply sorted_perm_unique; [exact Hanti| |apply isort_by_sorted].
    eapply Permutation_trans; [apply isort_by_perm|apply Permutation_sym; exact Hp].
  Qed.

  (* the head of a sorted list is below every element *)
  Lemma sorted_head_least x l y :
    Sorted lerel (x :: l) -> In y l -> lerel x y.
  Proof.
    intros Hs Hin. apply sorted_strongly in Hs. inversion Hs as [|? ? _ Hf]; subst.
    rewrite Forall_forall in Hf. apply Hf; exact Hin.
  Qed.
End ISortFacts.

(* ---------- bytes under bytes_leb ------------------------------------------------------ *)

Lemma bytes_leb_total a b : bytes_leb a b = true \/ bytes_leb b a = true.
Proof.
  unfold bytes_leb. rewrite (bytes_cmp_antisym a b). destruct (bytes_cmp a b); simpl; auto.
Qed.

Lemma bytes_leb_refl a : bytes_leb a a = true.
Proof.
  unfold bytes_leb. replace (bytes_cmp a a) with Eq; [reflexivity|]. symmetry. apply bytes_cmp_eq. reflexivity.
Qed.

Lemma bytes_leb_antisym a b : bytes_leb a b = true -> bytes_leb b a = true -> a = b.
Proof.
  unfold bytes_leb. rewrite (bytes_cmp_antisym a b).
  destruct (bytes_cmp a b) eqn:E; simpl; try discriminate.
  intros _ _. apply bytes_cmp_eq. exact E.
Qed.

Lemma bytes_leb_trans a b c : bytes_leb a b = true -> bytes_leb b c = true -> bytes_leb a c = true.
Proof.
  unfold bytes_leb.
  destruct (bytes_cmp a b) eqn:E1; try discriminate; intros _;
    destruct (bytes_cmp b c) eqn:E2; try discriminate; intros _.
  - apply bytes_cmp_eq in E1. subst. rewrite E2. reflexivity.
  - apply bytes_cmp_eq in E1. subst. rewrite E2. reflexivity.
  - apply bytes_cmp_eq in E2. subst. rewrite E1. reflexivity.
  - rewrite (bytes_cmp_lt_trans _ _ _ E1 E2). reflexivity.
Qed.

Definition ble (a b : bytes) : Prop := bytes_leb a b = true.

Lemma sort_ids_perm l : Permutation (sort_ids l) l.
Proof. apply isort_by_perm. Qed.

Lemma sort_ids_sorted l : Sorted ble (sort_ids l).
Proof. apply (isort_by_sorted bytes bytes_leb bytes_leb_total). Qed.

(* Go's sort.Slice is not stable and its algorithm is unspecified: whatever sorted permutation
   it returns, it is this one *)
Theorem sort_ids_unique l out : Permutation out l -> Sorted ble out -> out = sort_ids l.
Proof.
  intros Hp Hs.
  apply (sorted_perm_unique bytes bytes_leb bytes_leb_total bytes_leb_trans); [|exact Hp|exact Hs].
  intros a b _ _. apply bytes_leb_antisym.
Qed.
