(* Proofs about the transaction pointer bookkeeping of Model.GnosisSlot: the pointer after a keys
   message (C19_pointer_after_keys), the start of the next request (C19_outdated_starts_at_
   queue_length) and the invariant over all histories (C19_history_invariant). *)
From Coq Require Import List NArith ZArith Bool Lia.
From Verif Require Import Lib.Bytes Model.GnosisSlot Proofs.GnosisSlot.
Import ListNotations.
Open Scope Z_scope.

(* ---------- the tx_pointer table ------------------------------------------------------- *)

Lemma get_ptr_eon l e r : get_ptr l e = Some r -> p_eon r = e.
Proof.
  induction l as [|x t IH]; simpl; [discriminate|].
  destruct (p_eon x =? e) eqn:E; [|exact IH].
  intros H. injection H as <-. apply Z.eqb_eq. exact E.
Qed.

Lemma get_set_same l e v a : get_ptr (set_ptr l e v a) e = Some (mkP e v a).
Proof.
  induction l as [|x t IH]; simpl.
  - rewrite Z.eqb_refl. reflexivity.
  - destruct (p_eon x =? e) eqn:E; simpl; [rewrite Z.eqb_refl; reflexivity|rewrite E; exact IH].
Qed.

Lemma get_set_other l e e' v a : e <> e' -> get_ptr (set_ptr l e v a) e' = get_ptr l e'.
Proof.
  intros Hne. induction l as [|x t IH]; simpl.
  - destruct (e =? e') eqn:E; [apply Z.eqb_eq in E; contradiction|reflexivity].
  - destruct (p_eon x =? e) eqn:E; simpl.
    + apply Z.eqb_eq in E. rewrite E.
      destruct (e =? e') eqn:E2; [apply Z.eqb_eq in E2; contradiction|reflexivity].
    + destruct (p_eon x =? e'); [reflexivity|exact IH].
Qed.

Lemma get_inc l e e' : get_ptr (map (inc_row e) l) e' = option_map (inc_row e) (get_ptr l e').
Proof.
  induction l as [|x t IH]; simpl; [reflexivity|].
  assert (Hk : p_eon (inc_row e x) = p_eon x) by (unfold inc_row; destruct (p_eon x =? e); reflexivity).
  rewrite Hk. destruct (p_eon x =? e'); [reflexivity|exact IH].
Qed.

Lemma get_reset l e :
  get_ptr (reset_ages l) e = option_map (fun r => mkP (p_eon r) (p_value r) None) (get_ptr l e).
Proof.
  unfold reset_ages. induction l as [|x t IH]; simpl; [reflexivity|].
  destruct (p_eon x =? e); [reflexivity|exact IH].
Qed.

(* ---------- C19_pointer_after_keys ------------------------------------------------------ *)

Lemma new_pointer_exact p k :
  0 <= p < two63 -> 0 <= p + k - 1 < two63 -> new_pointer p k = p + k - 1.
Proof.
  intros Hp Hr. unfold new_pointer. rewrite (to_i64_small p Hp). apply to_i64_small. exact Hr.
Qed.

(* what a keys message does to the pointer: [sets_pointer st o e p k] says that operation [o],
   executed in state [st], is a keys message that releases k identities at pointer p for eon e:
   a received message (HandleMessage), a message passed through the middleware with its extra
   data, or a self-produced message that the middleware completes from the trigger in flight
   (which needs a threshold of matching signatures) *)
Definition sets_pointer (st : state) (o : op) (e p k : Z) : Prop :=
  match o with
  | OpKeysRecv eon _ txp ids _ _ => to_i64 eon = e /\ txp = p /\ Z.of_nat (length ids) = k
  | OpKeysSent eon nkeys (Some (_, txp, _)) => to_i64 eon = e /\ txp = p /\ nkeys = k
  | OpKeysSent eon nkeys None =>
      to_i64 eon = e /\ nkeys = k /\
      exists tr ks, get_trig (st_trigs st) e = Some tr /\ t_ptr tr = p /\
                    kset_by_index (st_ksets st) e = Some ks /\ 0 <= k_threshold ks /\
                    k_threshold ks <= Z.of_nat (length (select_sigs (st_sigs st) e (t_slot tr) (t_ptr tr) (t_ids tr) (k_threshold ks)))
  | _ => False
  end.

Lemma st_ptrs_with_sigs st s : st_ptrs (with_sigs st s) = st_ptrs st.
Proof. reflexivity. Qed.
Lemma st_ptrs_with_ptrs st p : st_ptrs (with_ptrs st p) = p.
Proof. reflexivity. Qed.
Lemma st_ptrs_with_trigs st t : st_ptrs (with_trigs st t) = st_ptrs st.
Proof. reflexivity. Qed.

Lemma keys_received_ptrs st eon slot txp ids signers nsigs :
  st_ptrs (fst (keys_received st eon slot txp ids signers nsigs)) =
  set_ptr (st_ptrs st) (to_i64 eon) (new_pointer txp (Z.of_nat (length ids))) (Some 0).
Proof.
  unfold keys_received.
  destruct (insert_signer_sigs (st_sigs st) (to_i64 eon) (to_i64 slot) (to_i64 txp) (concat ids) signers 0 nsigs) as [sg r].
  destruct r; reflexivity.
Qed.

Theorem pointer_after_keys cfg st o e p k :
  sets_pointer st o e p k ->
  0 <= p < two63 -> 0 <= p + k - 1 < two63 ->
  get_ptr (st_ptrs (fst (step cfg st o))) e = Some (mkP e (p + k - 1) (Some 0)).
Proof.
  intros Hs Hp Hr. destruct o; simpl in Hs; try contradiction.
  - (* received *)
    destruct Hs as [He [Ht Hk]]. subst. simpl. rewrite keys_received_ptrs, get_set_same.
    rewrite new_pointer_exact by assumption. reflexivity.
  - (* through the middleware *)
    destruct extra as [[[sl tx] sg]|].
    + destruct Hs as [He [Ht Hk]]. subst. simpl. rewrite get_set_same.
      rewrite new_pointer_exact by assumption. reflexivity.
    + destruct Hs as [He [Hk [tr [ks [Htr [Hpt [Hks [Hth Hn]]]]]]]]. subst. simpl. unfold keys_sent.
      rewrite Htr, Hks.
      destruct (k_threshold ks <? 0) eqn:E1; [apply Z.ltb_lt in E1; lia|].
      destruct (Z.of_nat (length (select_sigs (st_sigs st) (to_i64 eon) (t_slot tr) (t_ptr tr) (t_ids tr) (k_threshold ks))) <? k_threshold ks) eqn:E2;
        [apply Z.ltb_lt in E2; lia|].
      simpl. rewrite get_set_same.
      rewrite (u64_small (t_ptr tr)) by (unfold two63, two64 in *; lia).
      rewrite new_pointer_exact by assumption. reflexivity.
Qed.

(* ---------- C19_outdated_starts_at_queue_length ----------------------------------------- *)

(* the next index of the eon's queue: 0 for an empty queue, else the largest index plus one *)
Lemma max_index_spec (l : list qrow) :
  match max_index l with
  | None => l = []
  | Some m => (exists r, In r l /\ q_index r = m) /\ forall r, In r l -> q_index r <= m
  end.
Proof.
  unfold max_index.
  assert (G : forall acc,
    match fold_left (fun m r => match m with None => Some (q_index r) | Some x => Some (Z.max x (q_index r)) end) l acc with
    | None => l = [] /\ acc = None
    | Some m => ((exists r, In r l /\ q_index r = m) \/ acc = Some m) /\
                (forall r, In r l -> q_index r <= m) /\ (forall a, acc = Some a -> a <= m)
    end).
  { induction l as [|x t IH]; intros acc; simpl.
    - destruct acc as [a|]; [|split; reflexivity].
      split; [right; reflexivity|]. split; [contradiction|]. intros b H. injection H as <-. lia.
    - specialize (IH (match acc with None => Some (q_index x) | Some a => Some (Z.max a (q_index x)) end)).
      destruct (fold_left _ t _) as [m|].
      + destruct IH as [H1 [H2 H3]]. split; [|split].
        * destruct H1 as [[r [Hr Hm]]|Hacc]; [left; exists r; split; [right; exact Hr|exact Hm]|].
          destruct acc as [a|]; injection Hacc as Hacc.
          -- destruct (Z.max_spec a (q_index x)) as [[_ Hm]|[_ Hm]]; rewrite Hm in Hacc.
             ++ left. exists x. split; [left; reflexivity|exact Hacc].
             ++ right. f_equal. exact Hacc.
          -- left. exists x. split; [left; reflexivity|exact Hacc].
        * intros r [<-|Hr]; [|apply H2; exact Hr].
          destruct acc as [a|]; [specialize (H3 _ eq_refl); lia|specialize (H3 _ eq_refl); lia].
        * intros a Ha. subst acc. specialize (H3 _ eq_refl). lia.
      + destruct IH as [_ H]. destruct acc; discriminate. }
  specialize (G None). destruct (fold_left _ l None) as [m|].
  - destruct G as [[H|H] [H2 _]]; [|discriminate]. split; assumption.
  - apply G.
Qed.

Theorem queue_length_spec q e n :
  queue_length q e = Some n ->
  (forall r, In r q -> q_eon r = e -> q_index r < n) /\
  (n = 0 \/ exists r, In r q /\ q_eon r = e /\ q_index r = n - 1).
Proof.
  unfold queue_length. pose proof (max_index_spec (eon_rows q e)) as H.
  destruct (max_index (eon_rows q e)) as [m|].
  - destruct (m =? max_i64); [discriminate|]. intros E. injection E as <-.
    destruct H as [[r [Hr Hm]] Hle]. split.
    + intros x Hx He. assert (Hin : In x (eon_rows q e)).
      { apply filter_In. split; [exact Hx|apply Z.eqb_eq; exact He]. }
      specialize (Hle _ Hin). lia.
    + right. apply filter_In in Hr as [Hr He]. apply Z.eqb_eq in He.
      exists r. repeat split; try assumption. lia.
  - intros E. injection E as <-. split; [|left; reflexivity].
    intros x Hx He. exfalso.
    assert (Hin : In x (eon_rows q e)) by (apply filter_In; split; [exact Hx|apply Z.eqb_eq; exact He]).
    rewrite H in Hin. contradiction.
Qed.

(* the pointer the next request starts at, as the property states it *)
Definition request_start (maxage : Z) (q : list qrow) (row : option prow) (e : Z) : option Z :=
  match row with
  | None => Some 0
  | Some r =>
      match p_age r with
      | None => queue_length q e
      | Some a => if a >? maxage then queue_length q e else Some (p_value r)
      end
  end.

Lemma get_tx_pointer_start maxage q ptrs e :
  snd (get_tx_pointer maxage q ptrs e) = request_start maxage q (get_ptr ptrs e) e.
Proof.
  unfold get_tx_pointer, request_start, outdated.
  destruct (get_ptr ptrs e) as [r|]; [|reflexivity].
  destruct (p_age r) as [a|]; [destruct (a >? maxage)|]; reflexivity.
Qed.

Lemma get_tx_pointer_row maxage q ptrs e :
  get_ptr (fst (get_tx_pointer maxage q ptrs e)) e =
  match get_ptr ptrs e with Some r => Some r | None => Some (mkP e 0 (Some 0)) end.
Proof.
  unfold get_tx_pointer. destruct (get_ptr ptrs e) as [r|] eqn:E.
  - destruct (outdated maxage r); simpl; exact E.
  - simpl. apply get_set_same.
Qed.

Lemma get_tx_pointer_other maxage q ptrs e e' :
  e <> e' -> get_ptr (fst (get_tx_pointer maxage q ptrs e)) e' = get_ptr ptrs e'.
Proof.
  intros Hne. unfold get_tx_pointer. destruct (get_ptr ptrs e) as [r|].
  - destruct (outdated maxage r); reflexivity.
  - simpl. apply get_set_other. exact Hne.
Qed.

(* a trigger that is sent uses the request start as pointer: it is the pointer of the trigger
   row, and the identities are those selected from it *)
Theorem trigger_uses_request_start cfg st slot block ks b ids :
  snd (trigger_decryption cfg st slot block ks) = OTrig b ids ->
  exists er p,
    eon_for_block (st_eons st) block = Some er /\
    request_start (to_i64 (cfg_max_age cfg)) (st_queue st) (get_ptr (st_ptrs st) (e_kci er)) (e_kci er) = Some p /\
    identities cfg (st_queue st) slot ks p = IdsOk ids /\
    get_trig (st_trigs (fst (trigger_decryption cfg st slot block ks))) (e_kci er)
      = Some (mkT (e_kci er) (to_i64 slot) p (concat ids)) /\
    b = u64 block.
Proof.
  unfold trigger_decryption. destruct (eon_for_block (st_eons st) block) as [er|]; [|discriminate].
  pose proof (get_tx_pointer_start (to_i64 (cfg_max_age cfg)) (st_queue st) (st_ptrs st) (e_kci er)) as Hs.
  destruct (get_tx_pointer (to_i64 (cfg_max_age cfg)) (st_queue st) (st_ptrs st) (e_kci er)) as [ptrs r].
  simpl in Hs. destruct r as [p|]; [|discriminate].
  destruct (identities cfg (st_queue st) slot ks p) as [ids'|c|] eqn:Ei; try discriminate.
  destruct (set_trigger (st_trigs st) (e_kci er) (to_i64 slot) p (concat ids')) as [tr|] eqn:Et; [|discriminate].
  simpl. intros H. injection H as <- <-.
  exists er, p. split; [reflexivity|]. split; [symmetry; exact Hs|]. split; [exact Ei|]. split; [|reflexivity].
  unfold set_trigger in Et. destruct ((e_kci er <? 0) || (to_i64 slot <? 0) || (p <? 0)); [discriminate|].
  injection Et as <-. clear. induction (st_trigs st) as [|x t IH]; simpl.
  - rewrite Z.eqb_refl. reflexivity.
  - destruct (t_eon x =? e_kci er) eqn:E; simpl; [rewrite Z.eqb_refl; reflexivity|rewrite E; exact IH].
Qed.

(* ---------- C19_history_invariant ------------------------------------------------------- *)

Definition is_keys_for (e : Z) (o : op) : bool :=
  match o with
  | OpKeysRecv eon _ _ _ _ _ => to_i64 eon =? e
  | OpKeysSent eon _ _ => to_i64 eon =? e
  | _ => false
  end.

Definition is_restart (o : op) : bool := match o with OpRestart => true | _ => false end.

(* Does operation [o], executed in state [st], count as a triggered slot for keyper set [e]?
   A processNewSlot for a slot that was not seen before and whose block is not synced yet,
   while the keyper is a member of the keyper set of the next block, that set has index e, and
   the block's proposer is registered. (This is when maybeTriggerDecryption increments the
   pointer age and calls triggerDecryption.) *)
Definition ticks (st : state) (o : op) (e : Z) : bool :=
  match o with
  | OpSlot slot pr =>
      let seen := match st_latest st with Some l => slot <=? l | None => false end in
      let '(sslot, sblock) := match st_synced st with Some x => x | None => (0, 0) end in
      negb seen && negb (sslot >=? to_i64 slot) &&
      match kset_for_block (st_ksets st) (sblock + 1) with
      | None => false
      | Some ks => k_member ks && (k_kci ks =? e)
      end &&
      match pr with PRegistered => true | _ => false end
  | _ => false
  end.

Definition age_step (st : state) (o : op) (e : Z) (a : option Z) : option Z :=
  if is_restart o then None
  else if ticks st o e then option_map (fun x => x + 1) a
  else a.

(* the age after a history: every triggered slot adds one, a restart makes it unknown *)
Fixpoint age_after (cfg : config) (st : state) (ops : list op) (e : Z) (a : option Z) : option Z :=
  match ops with
  | [] => a
  | o :: t => age_after cfg (fst (step cfg st o)) t e (age_step st o e a)
  end.

Lemma trigger_keeps_row cfg st slot block ks e r :
  get_ptr (st_ptrs st) e = Some r ->
  get_ptr (st_ptrs (fst (trigger_decryption cfg st slot block ks))) e = Some r.
Proof.
  intros Hr. unfold trigger_decryption.
  destruct (eon_for_block (st_eons st) block) as [er|]; [|exact Hr].
  assert (Hk : get_ptr (fst (get_tx_pointer (to_i64 (cfg_max_age cfg)) (st_queue st) (st_ptrs st) (e_kci er))) e = Some r).
  { destruct (Z.eq_dec (e_kci er) e) as [E|E].
    - rewrite E, get_tx_pointer_row, Hr. reflexivity.
    - rewrite get_tx_pointer_other by exact E. exact Hr. }
  destruct (get_tx_pointer (to_i64 (cfg_max_age cfg)) (st_queue st) (st_ptrs st) (e_kci er)) as [ptrs x].
  simpl in Hk. destruct x as [p|]; [|exact Hk].
  destruct (identities cfg (st_queue st) slot ks p); try exact Hk.
  destruct (set_trigger (st_trigs st) (e_kci er) (to_i64 slot) p (concat ids)); exact Hk.
Qed.

Lemma keys_sent_keeps_row st eon nkeys extra e :
  to_i64 eon <> e ->
  get_ptr (st_ptrs (fst (keys_sent st eon nkeys extra))) e = get_ptr (st_ptrs st) e.
Proof.
  intros Hne. unfold keys_sent. destruct extra as [[[sl tx] sg]|].
  - simpl. apply get_set_other. exact Hne.
  - destruct (get_trig (st_trigs st) (to_i64 eon)) as [tr|]; [|reflexivity].
    destruct (kset_by_index (st_ksets st) (to_i64 eon)) as [ks|]; [|reflexivity].
    destruct (k_threshold ks <? 0); [reflexivity|].
    destruct (Z.of_nat (length (select_sigs (st_sigs st) (to_i64 eon) (t_slot tr) (t_ptr tr) (t_ids tr) (k_threshold ks))) <? k_threshold ks);
      [reflexivity|].
    simpl. apply get_set_other. exact Hne.
Qed.

(* the effect of one operation that is not a keys message for e on e's pointer row *)
Lemma step_row_effect cfg st o e v a :
  is_keys_for e o = false ->
  get_ptr (st_ptrs st) e = Some (mkP e v a) ->
  a <> Some max_i64 ->
  get_ptr (st_ptrs (fst (step cfg st o))) e = Some (mkP e v (age_step st o e a)).
Proof.
  intros Hk Hr Hov. unfold age_step. destruct o; simpl in Hk; simpl is_restart; cbv iota.
  - (* OpTrigger *) simpl ticks. simpl. apply trigger_keeps_row. exact Hr.
  - (* OpGetPtr *) simpl.
    destruct (get_tx_pointer maxage (st_queue st) (st_ptrs st) eon) as [ptrs x] eqn:E. simpl.
    replace ptrs with (fst (get_tx_pointer maxage (st_queue st) (st_ptrs st) eon)) by (rewrite E; reflexivity).
    destruct (Z.eq_dec eon e) as [E2|E2].
    + rewrite E2, get_tx_pointer_row, Hr. reflexivity.
    + rewrite get_tx_pointer_other by exact E2. exact Hr.
  - (* OpSlot *)
    simpl step. unfold new_slot, ticks. simpl st_synced. simpl st_ksets. simpl st_ptrs.
    destruct (match st_synced st with Some x => x | None => (0, 0) end) as [sslot sblock].
    destruct (match st_latest st with Some l => slot <=? l | None => false end); simpl; [exact Hr|].
    destruct (sslot >=? to_i64 slot); simpl; [exact Hr|].
    destruct (kset_for_block (st_ksets st) (sblock + 1)) as [ks|]; simpl; [|exact Hr].
    destruct (k_member ks); simpl; [|exact Hr].
    destruct pr; simpl; rewrite ?andb_false_r; try exact Hr.
    rewrite andb_true_r.
    unfold increment_age, age_overflows.
    destruct (k_kci ks =? e) eqn:Ee.
    + apply Z.eqb_eq in Ee. rewrite Ee, Hr. simpl.
      destruct a as [x|]; simpl.
      * destruct (x =? max_i64) eqn:Em; [apply Z.eqb_eq in Em; congruence|].
        apply trigger_keeps_row. simpl. rewrite get_inc, Hr. simpl. unfold inc_row. simpl.
        rewrite Z.eqb_refl. reflexivity.
      * apply trigger_keeps_row. simpl. rewrite get_inc, Hr. simpl. unfold inc_row. simpl.
        rewrite Z.eqb_refl. reflexivity.
    + assert (Hkeep : get_ptr (map (inc_row (k_kci ks)) (st_ptrs st)) e = Some (mkP e v a)).
      { rewrite get_inc, Hr. simpl. unfold inc_row. simpl.
        rewrite Z.eqb_sym, Ee. reflexivity. }
      destruct (match get_ptr (st_ptrs st) (k_kci ks) with
                | Some r => match p_age r with Some a0 => a0 =? max_i64 | None => false end
                | None => false end); simpl; [exact Hr|].
      apply trigger_keeps_row. simpl. exact Hkeep.
  - (* OpKeysRecv *) simpl. rewrite keys_received_ptrs. rewrite get_set_other; [exact Hr|].
    apply Z.eqb_neq. exact Hk.
  - (* OpKeysSent *) simpl. rewrite keys_sent_keeps_row; [exact Hr|]. apply Z.eqb_neq. exact Hk.
  - (* OpRestart *) simpl. rewrite get_reset, Hr. reflexivity.
  - (* OpSync *) simpl. exact Hr.
  - (* OpSynced *) simpl. exact Hr.
  - (* OpSigs *) simpl. destruct (get_trig (st_trigs st) eon); simpl; exact Hr.
Qed.

Lemma age_step_bound st o e a n :
  (forall x, a = Some x -> 0 <= x /\ x + (n + 1) < max_i64) ->
  forall x, age_step st o e a = Some x -> 0 <= x /\ x + n < max_i64.
Proof.
  intros H x. unfold age_step. destruct (is_restart o); [discriminate|].
  destruct (ticks st o e).
  - destruct a as [y|]; simpl; [|discriminate]. intros E. injection E as <-.
    specialize (H y eq_refl). lia.
  - intros E. specialize (H x E). lia.
Qed.

Lemma run_fst_cons cfg st o t : fst (run cfg st (o :: t)) = fst (run cfg (fst (step cfg st o)) t).
Proof.
  simpl. destruct (step cfg st o) as [st1 x]. simpl. destruct (run cfg st1 t) as [st2 xs]. reflexivity.
Qed.

Lemma run_fst_app cfg st a b : fst (run cfg st (a ++ b)) = fst (run cfg (fst (run cfg st a)) b).
Proof.
  revert st. induction a as [|o t IH]; intros st; [reflexivity|].
  rewrite <- app_comm_cons, !run_fst_cons. apply IH.
Qed.

(* over any history without a keys message for e, e's pointer keeps its value and its age
   evolves by triggered slots and restarts only *)
Lemma run_row_effect cfg ops : forall st e v a,
  forallb (fun o => negb (is_keys_for e o)) ops = true ->
  get_ptr (st_ptrs st) e = Some (mkP e v a) ->
  (forall x, a = Some x -> 0 <= x /\ x + Z.of_nat (length ops) < max_i64) ->
  get_ptr (st_ptrs (fst (run cfg st ops))) e = Some (mkP e v (age_after cfg st ops e a)).
Proof.
  induction ops as [|o t IH]; intros st e v a Hk Hr Hb; [exact Hr|].
  simpl in Hk. apply andb_true_iff in Hk as [Hk1 Hk2]. apply negb_true_iff in Hk1.
  rewrite run_fst_cons. simpl age_after. apply IH; [exact Hk2| |].
  - apply step_row_effect; [exact Hk1|exact Hr|].
    intros E. specialize (Hb _ E). simpl length in Hb. rewrite Nat2Z.inj_succ in Hb. lia.
  - apply (age_step_bound st o e a). intros x Hx. specialize (Hb x Hx).
    simpl length in Hb. rewrite Nat2Z.inj_succ in Hb. lia.
Qed.

(* number of triggered slots for e along a history *)
Fixpoint count_ticks (cfg : config) (st : state) (ops : list op) (e : Z) : Z :=
  match ops with
  | [] => 0
  | o :: t => (if ticks st o e then 1 else 0) + count_ticks cfg (fst (step cfg st o)) t e
  end.

Lemma count_ticks_nonneg cfg ops : forall st e, 0 <= count_ticks cfg st ops e.
Proof.
  induction ops as [|o t IH]; intros st e; simpl; [lia|].
  specialize (IH (fst (step cfg st o)) e). destruct (ticks st o e); lia.
Qed.

Lemma age_after_none cfg ops : forall st e, age_after cfg st ops e None = None.
Proof.
  induction ops as [|o t IH]; intros st e; simpl; [reflexivity|].
  unfold age_step. destruct (is_restart o); [apply IH|]. destruct (ticks st o e); simpl; apply IH.
Qed.

Lemma age_after_count cfg ops : forall st e x,
  age_after cfg st ops e (Some x) =
  if existsb is_restart ops then None else Some (x + count_ticks cfg st ops e).
Proof.
  induction ops as [|o t IH]; intros st e x.
  - simpl. apply f_equal. lia.
  - cbn [age_after count_ticks existsb]. unfold age_step. destruct (is_restart o) eqn:Er; cbn [orb].
    + apply age_after_none.
    + destruct (ticks st o e); cbn [option_map]; rewrite IH; destruct (existsb is_restart t);
        try reflexivity; apply f_equal; lia.
Qed.

Theorem history_invariant cfg st0 h1 kop h2 e p k :
  sets_pointer (fst (run cfg st0 h1)) kop e p k ->
  0 <= p < two63 -> 0 <= p + k - 1 < two63 ->
  forallb (fun o => negb (is_keys_for e o)) h2 = true ->
  Z.of_nat (length h2) < max_i64 ->
  let st1 := fst (run cfg st0 (h1 ++ [kop])) in
  get_ptr (st_ptrs (fst (run cfg st0 (h1 ++ kop :: h2)))) e =
  Some (mkP e (p + k - 1)
            (if existsb is_restart h2 then None else Some (count_ticks cfg st1 h2 e))).
Proof.
  intros Hs Hp Hr Hk Hlen st1.
  replace (h1 ++ kop :: h2) with ((h1 ++ [kop]) ++ h2) by (rewrite <- app_assoc; reflexivity).
  rewrite run_fst_app. fold st1.
  assert (Hrow : get_ptr (st_ptrs st1) e = Some (mkP e (p + k - 1) (Some 0))).
  { unfold st1. rewrite run_fst_app. simpl run at 1.
    destruct (step cfg (fst (run cfg st0 h1)) kop) as [s x] eqn:E. simpl.
    replace s with (fst (step cfg (fst (run cfg st0 h1)) kop)) by (rewrite E; reflexivity).
    apply pointer_after_keys; assumption. }
  rewrite (run_row_effect cfg h2 st1 e (p + k - 1) (Some 0) Hk Hrow).
  - rewrite age_after_count. destruct (existsb is_restart h2); reflexivity.
  - intros x Hx. injection Hx as <-. lia.
Qed.

(* before any keys message: a pointer that the history itself creates has value 0 *)
Lemma step_row_created cfg st o e :
  is_keys_for e o = false -> get_ptr (st_ptrs st) e = None ->
  get_ptr (st_ptrs (fst (step cfg st o))) e = None \/
  get_ptr (st_ptrs (fst (step cfg st o))) e = Some (mkP e 0 (Some 0)).
Proof.
  intros Hk Hn.
  assert (Htrig : forall st' slot block ks, get_ptr (st_ptrs st') e = None ->
            get_ptr (st_ptrs (fst (trigger_decryption cfg st' slot block ks))) e = None \/
            get_ptr (st_ptrs (fst (trigger_decryption cfg st' slot block ks))) e = Some (mkP e 0 (Some 0))).
  { intros st' slot block ks Hn'. unfold trigger_decryption.
    destruct (eon_for_block (st_eons st') block) as [er|]; [|left; exact Hn'].
    assert (Hx : get_ptr (fst (get_tx_pointer (to_i64 (cfg_max_age cfg)) (st_queue st') (st_ptrs st') (e_kci er))) e = None \/
                 get_ptr (fst (get_tx_pointer (to_i64 (cfg_max_age cfg)) (st_queue st') (st_ptrs st') (e_kci er))) e = Some (mkP e 0 (Some 0))).
    { destruct (Z.eq_dec (e_kci er) e) as [E|E].
      - right. rewrite E, get_tx_pointer_row, Hn'. reflexivity.
      - left. rewrite get_tx_pointer_other by exact E. exact Hn'. }
    destruct (get_tx_pointer (to_i64 (cfg_max_age cfg)) (st_queue st') (st_ptrs st') (e_kci er)) as [ptrs x].
    simpl in Hx. destruct x as [p|]; [|exact Hx].
    destruct (identities cfg (st_queue st') slot ks p); try exact Hx.
    destruct (set_trigger (st_trigs st') (e_kci er) (to_i64 slot) p (concat ids)); exact Hx. }
  destruct o; simpl in Hk.
  - simpl. apply Htrig. exact Hn.
  - simpl. destruct (get_tx_pointer maxage (st_queue st) (st_ptrs st) eon) as [ptrs x] eqn:E. simpl.
    replace ptrs with (fst (get_tx_pointer maxage (st_queue st) (st_ptrs st) eon)) by (rewrite E; reflexivity).
    destruct (Z.eq_dec eon e) as [E2|E2].
    + right. rewrite E2, get_tx_pointer_row, Hn. reflexivity.
    + left. rewrite get_tx_pointer_other by exact E2. exact Hn.
  - simpl step. unfold new_slot.
    destruct (match st_latest st with Some l => slot <=? l | None => false end); simpl; [left; exact Hn|].
    destruct (match st_synced st with Some x => x | None => (0, 0) end) as [sslot sblock].
    destruct (sslot >=? to_i64 slot); simpl; [left; exact Hn|].
    destruct (kset_for_block (st_ksets st) (sblock + 1)) as [ks|]; simpl; [|left; exact Hn].
    destruct (k_member ks); simpl; [|left; exact Hn].
    destruct pr; simpl; try (left; exact Hn).
    unfold increment_age. destruct (age_overflows (st_ptrs st) (k_kci ks)); simpl; [left; exact Hn|].
    apply Htrig. simpl. rewrite get_inc, Hn. reflexivity.
  - left. simpl. rewrite keys_received_ptrs. rewrite get_set_other; [exact Hn|]. apply Z.eqb_neq. exact Hk.
  - left. simpl. rewrite keys_sent_keeps_row; [exact Hn|]. apply Z.eqb_neq. exact Hk.
  - left. simpl. rewrite get_reset, Hn. reflexivity.
  - left. exact Hn.
  - left. exact Hn.
  - left. simpl. destruct (get_trig (st_trigs st) eon); exact Hn.
Qed.

Theorem history_before_keys cfg ops : forall st e,
  forallb (fun o => negb (is_keys_for e o)) ops = true ->
  Z.of_nat (length ops) < max_i64 ->
  get_ptr (st_ptrs st) e = None ->
  get_ptr (st_ptrs (fst (run cfg st ops))) e = None \/
  exists a, get_ptr (st_ptrs (fst (run cfg st ops))) e = Some (mkP e 0 a).
Proof.
  induction ops as [|o t IH]; intros st e Hk Hlen Hn; [left; exact Hn|].
  simpl in Hk. apply andb_true_iff in Hk as [Hk1 Hk2]. apply negb_true_iff in Hk1.
  simpl length in Hlen. rewrite Nat2Z.inj_succ in Hlen.
  rewrite run_fst_cons.
  destruct (step_row_created cfg st o e Hk1 Hn) as [H|H].
  - apply IH; [exact Hk2|lia|exact H].
  - right. eexists. apply (run_row_effect cfg t _ e 0 (Some 0) Hk2 H).
    intros x Hx. injection Hx as <-. lia.
Qed.
