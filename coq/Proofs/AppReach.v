(* Reachable states of the application model and the invariants they satisfy. *)
From Coq Require Import List NArith ZArith Bool Lia Permutation.
From Verif Require Import Lib.Bytes Lib.Assoc Lib.Sorting Model.Powermap Model.App
     Proofs.AppDet Proofs.AppSafe Proofs.AppNonint.
Import ListNotations.

Definition reachable (s : state) : Prop :=
  exists g s0 cs es k, init_chain g = Some s0 /\ fst (run_enums es k s0 cs) = s.

Definition inv (s : state) : Prop := cfg_ok s /\ members_ok s /\ dkgs_ok s /\ vals_ok s.

Lemma init_inv g s : init_chain g = Some s -> inv s.
Proof.
  intros H. repeat split.
  - eapply init_chain_cfg_ok; eauto.
  - eapply init_chain_members_ok; eauto.
  - eapply init_chain_members_ok; eauto.
  - eapply init_chain_dkgs_ok; eauto.
  - eapply init_chain_vals_ok; eauto.
Qed.

Lemma step_inv e s c : inv s -> inv (fst (step e s c)).
Proof.
  intros (H1 & H2 & H3 & H4). repeat split.
  - apply step_cfg_ok. exact H1.
  - apply (step_members_ok e s c H2).
  - apply (step_members_ok e s c H2).
  - apply step_dkgs_ok. exact H3.
  - apply step_vals_ok. exact H4.
Qed.

Lemma run_inv cs : forall es k s, inv s -> inv (fst (run_enums es k s cs)).
Proof.
  induction cs as [|c r IH]; intros es k s H; simpl; [exact H|].
  pose proof (step_inv (es k) s c H) as H1. destruct (step (es k) s c) as [s1 o]. simpl in H1.
  specialize (IH es (S k) s1 H1). destruct (run_enums es (S k) s1 r) as [s2 os]. exact IH.
Qed.

Lemma reachable_inv s : reachable s -> inv s.
Proof.
  intros (g & s0 & cs & es & k & Hi & <-). apply run_inv. eapply init_inv. exact Hi.
Qed.

Lemma reachable_init g s : init_chain g = Some s -> reachable s.
Proof. intros H. exists g, s, [], (fun _ => enum_id), 0%nat. split; [exact H|reflexivity]. Qed.

Lemma run_enums_app es cs1 : forall cs2 k s,
  fst (run_enums es k s (cs1 ++ cs2)) =
  fst (run_enums es (k + length cs1) (fst (run_enums es k s cs1)) cs2).
Proof.
  induction cs1 as [|c r IH]; intros cs2 k s; simpl.
  - rewrite Nat.add_0_r. reflexivity.
  - destruct (step (es k) s c) as [s1 o]. specialize (IH cs2 (S k) s1).
    destruct (run_enums es (S k) s1 (r ++ cs2)) as [sa osa].
    destruct (run_enums es (S k) s1 r) as [sb osb]. simpl in *.
    replace (k + S (length r))%nat with (S k + length r)%nat by lia. exact IH.
Qed.
