(* The events of the application model (Model/App.v), written with MakeABCIEvent
   (Model/AppEvents.v), are read back exactly by the keyper; and every event the application
   model emits on a reachable state is well formed in the sense that round trip needs. *)
From Coq Require Import String Ascii List NArith ZArith Bool Lia.
From Verif Require Import Lib.Bytes Lib.Assoc Generated.EventSchema Model.Events Model.AppEvents
  Proofs.EventsCodec Proofs.Events.
From Verif Require Model.App.
Import ListNotations.
Open Scope N_scope.

Definition num_ok (n : N) : Prop := n <= u64_max.

Section AppWf.

(* which 96-byte strings blst accepts (Uncompress and InG2), which 33-byte strings
   crypto.DecompressPubkey accepts *)
Variable valid_pt : bytes -> Prop.
Variable valid_key : bytes -> Prop.

(* integers are uint64, addresses are 20 bytes, byte strings are bytes, points and the key are
   ones the dependencies accepted *)
Definition wf_app_event (e : App.event) : Prop :=
  match e with
  | App.EvCheckIn s k => addr_ok s /\ valid_key k
  | App.EvBatchConfig a t ks i => num_ok a /\ num_ok t /\ Forall addr_ok ks /\ num_ok i
  | App.EvBatchConfigStarted i => num_ok i
  | App.EvEonStarted e a i => num_ok e /\ num_ok a /\ num_ok i
  | App.EvPolyEval s e rs evs => addr_ok s /\ num_ok e /\ Forall addr_ok rs /\ Forall bytes_ok evs
  | App.EvPolyCommitment s e gs => addr_ok s /\ num_ok e /\ Forall valid_pt gs
  | App.EvAccusation s e acc => addr_ok s /\ num_ok e /\ Forall addr_ok acc
  | App.EvApology s e acc evs => addr_ok s /\ num_ok e /\ Forall addr_ok acc /\ Forall bytes_ok evs
  end.

(* ---------------------------------------------------------------------------------- *)
(* inputs of the application: decoded transactions *)

Definition payload_ok (p : App.payload) : Prop :=
  match p with
  | App.PBatchConfig act ks t i => num_ok act /\ num_ok t /\ num_ok i /\ Forall bytes_ok ks
  | App.PBlockSeen _ => True
  | App.PCheckIn _ ek ok => ok = true -> valid_key ek
  | App.PDkgResult _ _ => True
  | App.PPolyEval eon rs es => num_ok eon /\ Forall bytes_ok rs /\ Forall bytes_ok es
  | App.PPolyCommitment eon gs =>
      num_ok eon /\ Forall (fun gb : bytes * bool => snd gb = true -> valid_pt (fst gb)) gs
  | App.PAccusation eon a => num_ok eon /\ Forall bytes_ok a
  | App.PApology eon a es => num_ok eon /\ Forall bytes_ok a /\ Forall bytes_ok es
  | App.PNone => True
  end.

(* the signer recovered from the signature is a 20-byte address; the fields of the protobuf
   message are byte strings and uint64; the validity flags the decode layer attaches to the
   check-in key and the gammas are the dependencies' verdicts *)
Definition tx_ok (t : App.tx) : Prop :=
  match t with
  | App.TxBad => True
  | App.Tx signer _ _ p => addr_ok signer /\ payload_ok p
  end.

Definition call_ok (c : App.call) : Prop :=
  match c with
  | App.CCheck t | App.CDeliver t => tx_ok t
  | _ => True
  end.

Definition genesis_ok (g : App.genesis) : Prop :=
  Forall addr_ok (App.g_keypers g) /\ num_ok (App.g_threshold g).

Definition config_ok (c : App.config) : Prop :=
  num_ok (App.c_act c) /\ num_ok (App.c_threshold c) /\ num_ok (App.c_index c) /\
  Forall addr_ok (App.c_keypers c).

Definition inv (s : App.state) : Prop :=
  Forall config_ok (App.configs s) /\
  Forall (fun ed : N * App.dkg => config_ok (App.d_config (snd ed))) (App.dkgs s).

Ltac branches :=
  repeat match goal with
         | |- context [match ?x with _ => _ end] => destruct x eqn:?
         end.

Lemma all_len20_addr_ok l : App.all_len20 l = true -> Forall bytes_ok l -> Forall addr_ok l.
Proof.
  unfold App.all_len20. intros H Hb. induction Hb as [|b r Hb _ IH]; [constructor|].
  cbn [forallb] in H. apply andb_true_iff in H as [H1 H2]. apply Nat.eqb_eq in H1.
  constructor; [split; assumption|apply IH; exact H2].
Qed.

Lemma strip_zeros_ok b : bytes_ok b -> bytes_ok (App.strip_zeros b).
Proof.
  induction 1 as [|x r Hx Hr IH]; [constructor|]. simpl.
  destruct x; [exact IH|constructor; assumption].
Qed.

Lemma map_strip_zeros_ok l : Forall bytes_ok l -> Forall bytes_ok (map App.strip_zeros l).
Proof. induction 1; simpl; constructor; [apply strip_zeros_ok|]; assumption. Qed.

Lemma dkg_get_ok m eon d :
  Forall (fun ed : N * App.dkg => config_ok (App.d_config (snd ed))) m ->
  App.dkg_get m eon = Some d -> config_ok (App.d_config d).
Proof.
  induction 1 as [|[e d'] r H _ IH]; simpl; [discriminate|].
  destruct (N.eqb e eon); [intros [= <-]; exact H|exact IH].
Qed.

Lemma dkg_set_ok m eon d :
  Forall (fun ed : N * App.dkg => config_ok (App.d_config (snd ed))) m ->
  config_ok (App.d_config d) ->
  Forall (fun ed : N * App.dkg => config_ok (App.d_config (snd ed))) (App.dkg_set m eon d).
Proof.
  intros Hm Hd. induction Hm as [|[e d'] r H Hr IH]; simpl; [constructor; [exact Hd|constructor]|].
  destruct (N.eqb e eon); constructor; assumption.
Qed.

Lemma last_opt_In {A} (l : list A) x : App.last_opt l = Some x -> In x l.
Proof.
  induction l as [|a r IH]; simpl; [discriminate|].
  destruct r as [|b r']; [intros [= <-]; left; reflexivity|]. intros H. right. apply IH. exact H.
Qed.

Lemma start_dkg_inv s c s' d :
  inv s -> config_ok c -> App.start_dkg s c = (s', d) ->
  inv s' /\ num_ok (App.d_eon d) /\ App.configs s' = App.configs s.
Proof.
  intros [Hc Hd] Hok. unfold App.start_dkg. intros [= <- <-]. split; [split|split].
  - exact Hc.
  - simpl. apply dkg_set_ok; assumption.
  - simpl. unfold num_ok, u64_max. lia.
  - reflexivity.
Qed.

Lemma upd_dkg_inv s eon d' :
  inv s -> config_ok (App.d_config d') -> inv (App.upd_dkg s eon d').
Proof. intros [Hc Hd] Hok. split; [exact Hc|]. simpl. apply dkg_set_ok; assumption. Qed.

Lemma forallb_snd_valid gs :
  Forall (fun gb : bytes * bool => snd gb = true -> valid_pt (fst gb)) gs ->
  forallb snd gs = true -> Forall valid_pt (map fst gs).
Proof.
  induction 1 as [|[g b] r H _ IH]; simpl; [constructor|].
  intros Hb. apply andb_true_iff in Hb as [H1 H2]. constructor; [apply H; exact H1|apply IH; exact H2].
Qed.

Ltac evs_wf := repeat (apply Forall_cons; [cbn [wf_app_event]; tauto|]); apply Forall_nil.

Ltac done_same :=
  match goal with
  | H : Some _ = Some (_, (_, _)) |- _ => unfold App.err, App.seen in H; injection H as <- <- <-
  | H : (_, _) = (_, (_, _)) |- _ => unfold App.err, App.seen in H; injection H as <- <- <-
  end.

Lemma negb_false_true b : negb b = false -> b = true.
Proof. destruct b; simpl; congruence. Qed.

(* one delivered message: the state invariant is kept and the emitted events are well formed *)
Lemma deliver_message_wf enum s sender p s' code evs :
  inv s -> addr_ok sender -> payload_ok p ->
  App.deliver_message enum s sender p = Some (s', (code, evs)) ->
  inv s' /\ Forall wf_app_event evs.
Proof.
  intros Hinv Hs Hp. destruct p; cbn [App.deliver_message payload_ok] in *.
  - (* batch config *)
    destruct Hp as (Ha & Ht & Hi & Hk).
    unfold App.deliver_batch_config.
    destruct (negb (App.all_len20 keypers)) eqn:E20; [intros; done_same; split; [assumption|constructor]|].
    apply negb_false_true in E20. pose proof (all_len20_addr_ok _ E20 Hk) as Hka.
    assert (Hbc : config_ok (App.mkConfig act keypers threshold idx false false)) by (repeat split; assumption).
    branches; intros; try discriminate; try done_same;
      try solve [split; [first [exact Hinv | split; [apply Hinv|apply Hinv]]|constructor]].
    (* the accepted vote that completes the config *)
    match goal with H : App.start_dkg _ _ = _ |- _ =>
      eapply start_dkg_inv in H; [destruct H as (Hi' & Hn & _)| |exact Hbc] end.
    + split; [exact Hi'|]. evs_wf.
    + destruct Hinv as [Hc Hd]. split; [|exact Hd]. simpl. apply Forall_app. split; [exact Hc|].
      constructor; [exact Hbc|constructor].
  - unfold App.deliver_block_seen. branches; intros; done_same; (split; [exact Hinv|constructor]).
  - unfold App.deliver_check_in. branches; intros; done_same; try solve [split; [exact Hinv|constructor]].
    split; [exact Hinv|].
    assert (valid_key enckey) by (apply Hp; match goal with H : negb enckey_ok = false |- _ => apply negb_false_true in H; exact H end).
    evs_wf.
  - (* dkg result *)
    unfold App.deliver_dkg_result.
    destruct (App.dkg_get (App.dkgs s) eon) as [d|] eqn:Ed; [|intros; done_same; split; [exact Hinv|constructor]].
    pose proof (dkg_get_ok _ _ _ (proj2 Hinv) Ed) as Hdc.
    assert (Hinv1 : forall v', inv (App.set_dkgs s (App.dkg_set (App.dkgs s) eon
              (App.mkDkg (App.d_config d) (App.d_eon d) v' (App.d_evals d) (App.d_commits d) (App.d_accs d) (App.d_apos d))))).
    { intros v'. split; [exact (proj1 Hinv)|]. simpl. apply dkg_set_ok; [exact (proj2 Hinv)|exact Hdc]. }
    branches; intros; try discriminate; try done_same;
      try solve [split; [first [exact Hinv | apply Hinv1]|constructor]].
    match goal with H : App.start_dkg _ _ = _ |- _ =>
      eapply start_dkg_inv in H; [destruct H as (Hi' & Hn & _)|apply Hinv1|exact Hdc] end.
    split; [exact Hi'|]. destruct Hdc as (? & ? & ? & ?). evs_wf.
  - (* poly eval *)
    destruct Hp as (He & Hr & Hv). unfold App.handle_poly_eval.
    branches; intros; done_same; try solve [split; [exact Hinv|constructor]].
    split.
    + apply upd_dkg_inv; [exact Hinv|]. simpl. eapply dkg_get_ok; [exact (proj2 Hinv)|eassumption].
    + assert (Forall addr_ok receivers).
      { apply all_len20_addr_ok; [|exact Hr].
        match goal with H : negb (App.all_len20 receivers) = false |- _ => apply negb_false_true in H; exact H end. }
      evs_wf.
  - (* poly commitment *)
    destruct Hp as (He & Hg). unfold App.handle_poly_commitment.
    branches; intros; done_same; try solve [split; [exact Hinv|constructor]].
    split.
    + apply upd_dkg_inv; [exact Hinv|]. simpl. eapply dkg_get_ok; [exact (proj2 Hinv)|eassumption].
    + assert (Forall valid_pt (map fst gammas)).
      { apply forallb_snd_valid; [exact Hg|].
        match goal with H : negb (forallb snd gammas) = false |- _ => apply negb_false_true in H; exact H end. }
      evs_wf.
  - (* accusation *)
    destruct Hp as (He & Ha). unfold App.handle_accusation.
    branches; intros; done_same; try solve [split; [exact Hinv|constructor]].
    split.
    + apply upd_dkg_inv; [exact Hinv|]. simpl. eapply dkg_get_ok; [exact (proj2 Hinv)|eassumption].
    + assert (Forall addr_ok accused).
      { apply all_len20_addr_ok; [|exact Ha].
        match goal with H : negb (App.all_len20 accused) = false |- _ => apply negb_false_true in H; exact H end. }
      evs_wf.
  - (* apology *)
    destruct Hp as (He & Ha & Hv). unfold App.handle_apology.
    branches; intros; done_same; try solve [split; [exact Hinv|constructor]].
    split.
    + apply upd_dkg_inv; [exact Hinv|]. simpl. eapply dkg_get_ok; [exact (proj2 Hinv)|eassumption].
    + assert (Forall addr_ok accusers).
      { apply all_len20_addr_ok; [|exact Ha].
        match goal with H : negb (App.all_len20 accusers) = false |- _ => apply negb_false_true in H; exact H end. }
      pose proof (map_strip_zeros_ok _ Hv). evs_wf.
  - intros; done_same. split; [exact Hinv|constructor].
Qed.

Lemma end_block_configs_wf s : forall cs prev cs' evs,
  Forall config_ok cs -> App.end_block_configs s prev cs = (cs', evs) ->
  Forall config_ok cs' /\ Forall wf_app_event evs.
Proof.
  induction cs as [|c r IH]; intros prev cs' evs Hc; cbn [App.end_block_configs].
  - intros [= <- <-]. split; constructor.
  - inversion Hc as [|? ? Hc1 Hr]; subst.
    match goal with |- context [App.end_block_configs s ?p r] =>
      destruct (App.end_block_configs s p r) as [r' evs'] eqn:E end.
    intros [= <- <-]. destruct (IH _ _ _ Hr E) as [Hr' Hev]. split.
    + constructor; [|exact Hr'].
      repeat match goal with |- context [if ?b then _ else _] => destruct b end; exact Hc1.
    + apply Forall_app. split; [|exact Hev].
      match goal with |- Forall _ (if ?b then _ else _) => destruct b end; [|constructor].
      destruct Hc1 as (? & ? & ? & ?). evs_wf.
Qed.

Definition response_wf (r : App.response) : Prop :=
  match response_events r with
  | Some evs => Forall wf_app_event evs
  | None => True
  end.

Lemma step_wf enum s c :
  inv s -> call_ok c -> inv (fst (App.step enum s c)) /\ response_wf (snd (App.step enum s c)).
Proof.
  intros Hinv Hc. destruct c; cbn [App.step call_ok] in *.
  - unfold App.begin_block. destruct (Z.eqb height 1).
    + destruct (App.configs s) as [|c0 r] eqn:Ec; simpl; [split; [exact Hinv|exact I]|].
      split; [exact Hinv|]. unfold response_wf. simpl.
      destruct Hinv as [Hcs _]. rewrite Ec in Hcs. inversion Hcs as [|? ? (? & ? & ? & ?) _]; subst.
      evs_wf.
    + simpl. split; [exact Hinv|constructor].
  - destruct (App.check_tx s t) as [s' code] eqn:E. simpl. split; [|constructor].
    unfold App.check_tx in E. revert E. branches; intros [= <- <-]; exact Hinv.
  - destruct (App.deliver_tx enum s t) as [[s' [code evs]]|] eqn:E; simpl; [|split; [exact Hinv|exact I]].
    unfold App.deliver_tx in E. destruct t as [|signer chain nonce p].
    + injection E as <- <- <-. split; [exact Hinv|constructor].
    + destruct Hc as [Hs Hp]. revert E.
      destruct (negb (bytes_eqb chain (App.chain_id s))); [intros [= <- <- <-]; split; [exact Hinv|constructor]|].
      destruct (App.nonce_used (App.nonces s) signer nonce); [intros [= <- <- <-]; split; [exact Hinv|constructor]|].
      intros E. eapply deliver_message_wf in E; [exact E| |exact Hs|exact Hp]. exact Hinv.
  - unfold App.end_block.
    destruct (App.end_block_configs s None (App.configs s)) as [cs evs] eqn:E. simpl.
    destruct (end_block_configs_wf s _ _ _ _ (proj1 Hinv) E) as [Hcs Hev].
    split; [split; [exact Hcs|exact (proj2 Hinv)]|exact Hev].
  - simpl. split; [exact Hinv|constructor].
Qed.

Lemma init_chain_inv g s : genesis_ok g -> App.init_chain g = Some s -> inv s.
Proof.
  intros [Hk Ht]. unfold App.init_chain.
  destruct (negb (App.ensure_valid _)); [discriminate|]. destruct (negb (forallb _ _)); [discriminate|].
  intros [= <-]. split; simpl; [|constructor]. constructor; [|constructor].
  repeat split; try assumption; unfold num_ok, u64_max; simpl; lia.
Qed.

(* every event in every response of every run from a valid genesis is well formed, whatever
   the order in which Go enumerates its maps *)
Theorem app_emits_wellformed g s0 :
  genesis_ok g -> App.init_chain g = Some s0 ->
  forall cs es k, Forall call_ok cs ->
  Forall response_wf (snd (App.run_enums es k s0 cs)).
Proof.
  intros Hg Hi cs. pose proof (init_chain_inv g s0 Hg Hi) as Hinv. clear Hi Hg. revert s0 Hinv.
  induction cs as [|c r IH]; intros s Hinv es k Hc; simpl; [constructor|].
  inversion Hc as [|? ? Hc1 Hr]; subst.
  destruct (step_wf (es k) s c Hinv Hc1) as [Hinv' Hw].
  destruct (App.step (es k) s c) as [s1 o]. simpl in *.
  specialize (IH s1 Hinv' es (S k) Hr). destruct (App.run_enums es (S k) s1 r) as [s2 os].
  simpl in *. constructor; assumption.
Qed.

End AppWf.

(* ------------------------------------------------------------------------------------ *)
(* round trip of the application's events *)

Section AppRoundtrip.

Variable point : Type.
Variable key : Type.
Variable cs : bytes -> list bool.
Variable enc_pt : point -> bytes.
Variable dec_pt : bytes -> option point.
Variable enc_key : key -> bytes.
Variable dec_key : bytes -> option key.
Variable pt_of : bytes -> point.
Variable key_of : bytes -> key.
Variable valid_pt : bytes -> Prop.
Variable valid_key : bytes -> Prop.
Hypothesis pt_roundtrip : forall p, dec_pt (enc_pt p) = Some p.
Hypothesis pt_length : forall p, length (enc_pt p) = pt_len.
Hypothesis pt_bytes : forall p, bytes_ok (enc_pt p).
Hypothesis key_roundtrip : forall k, dec_key (enc_key k) = Some k.
Hypothesis key_bytes : forall k, bytes_ok (enc_key k).

Lemma wf_to_wire e : wf_app_event valid_pt valid_key e ->
  wf_event point key (to_wire point key pt_of key_of e).
Proof.
  destruct e; simpl; intros H; (split; [|simpl; auto]); unfold wf_fields; cbn [to_fields to_wire];
    repeat (apply Forall_cons; [cbn [snd wf_value]; try exact I; try tauto|]); try apply Forall_nil.
Qed.

Theorem app_events_roundtrip e h : wf_app_event valid_pt valid_key e ->
  exists a, app_abci_event point key cs enc_pt enc_key pt_of key_of e = Ok a /\
            make_event point key cs dec_pt dec_key a h
            = Ok (set_height point key (to_wire point key pt_of key_of e) h).
Proof.
  intros H. unfold app_abci_event.
  apply (event_roundtrip point key cs enc_pt dec_pt enc_key dec_key
           pt_roundtrip pt_length pt_bytes key_roundtrip key_bytes).
  apply wf_to_wire. exact H.
Qed.

(* a point the dependency accepted is written back as the 96 bytes that were received *)
Hypothesis pt_of_canonical : forall g, valid_pt g -> enc_pt (pt_of g) = g.

Lemma app_gammas_text gs : Forall valid_pt gs ->
  encode_gammas point enc_pt (map pt_of gs) = hex_encode (concat gs).
Proof.
  intros H. unfold encode_gammas. f_equal. rewrite map_map.
  induction H as [|g r Hg _ IH]; [reflexivity|]. simpl. rewrite pt_of_canonical by exact Hg.
  rewrite IH. reflexivity.
Qed.

End AppRoundtrip.

(* ------------------------------------------------------------------------------------ *)
(* a concrete instance for the non-vacuity examples of Properties/C14.v (the dependency codecs
   of Proofs/EventsExamples.v: two "points", one "key") *)
From Verif Require Import Proofs.EventsExamples.

Definition ex_pt_of (g : bytes) : bool := bytes_eqb g (ex_enc_pt true).
Definition ex_key_of (_ : bytes) : unit := tt.
Definition ex_valid_pt (g : bytes) : Prop := g = ex_enc_pt true \/ g = ex_enc_pt false.
Definition ex_valid_key (k : bytes) : Prop := length k = 33%nat.

Definition ex_app_abci : App.event -> outcome abci_event :=
  app_abci_event bool unit ex_cs ex_enc_pt ex_enc_key ex_pt_of ex_key_of.

Lemma ex_pt_of_canonical g : ex_valid_pt g -> ex_enc_pt (ex_pt_of g) = g.
Proof. intros [-> | ->]; vm_compute; reflexivity. Qed.

Definition ex_genesis : App.genesis :=
  App.mkGenesis [ex_addr1; ex_addr2] 1 0 false 0%Z [(repeat 1 32, 10%Z)] (bs "chain") false.
Definition ex_enckey : bytes := 2 :: repeat 9 32.
Definition ex_calls : list App.call :=
  [App.CBegin 1%Z;
   App.CDeliver (App.Tx ex_addr1 (bs "chain") 1 (App.PCheckIn (repeat 3 32) ex_enckey true));
   App.CDeliver (App.Tx ex_addr1 (bs "chain") 2 (App.PBatchConfig 5 [ex_addr2] 1 1));
   App.CEnd 1%Z; App.CCommit].

Lemma ex_genesis_ok : genesis_ok ex_genesis.
Proof.
  split; [|unfold num_ok, u64_max; simpl; lia].
  simpl. constructor; [exact ex_addr1_ok|]. constructor; [exact ex_addr2_ok|constructor].
Qed.

Lemma ex_calls_ok : Forall (call_ok ex_valid_pt ex_valid_key) ex_calls.
Proof.
  unfold ex_calls. repeat (apply Forall_cons; [|]); try apply Forall_nil; cbn [call_ok tx_ok payload_ok]; try exact I.
  - split; [exact ex_addr1_ok|]. intros _. reflexivity.
  - split; [exact ex_addr1_ok|]. unfold num_ok, u64_max. repeat split; try lia.
    constructor; [exact (proj2 ex_addr2_ok)|constructor].
Qed.

(* ------------------------------------------------------------------------------------ *)
(* the check-in event on the wire when the key encoder is FromECDSAPub (fixed width) *)

Section CheckInWire.

Variable point : Type.
Variable key : Type.
Variable cs : bytes -> list bool.
Variable enc_pt : point -> bytes.
Variable pt_of : bytes -> point.
Variable key_of : bytes -> key.
Variable key_x key_y : key -> N.     (* the affine coordinates of a key *)

Definition marshal_key (k : key) : bytes := marshal_pubkey (key_x k) (key_y k).

Lemma app_checkin_wire s k :
  app_abci_event point key cs enc_pt marshal_key pt_of key_of (App.EvCheckIn s k)
  = Ok (bs "shutter.check-in",
        [mk_attr (bs "Sender") (address_hex cs s) true;
         mk_attr (bs "EncryptionPublicKey") (b64_encode (marshal_key (key_of k))) false]) /\
  length (marshal_key (key_of k)) = 65%nat /\
  length (b64_encode (marshal_key (key_of k))) = 87%nat /\
  b64_decode (b64_encode (marshal_key (key_of k))) = Some (marshal_key (key_of k)).
Proof.
  split; [reflexivity|]. split; [apply marshal_pubkey_length|].
  split; [apply marshal_pubkey_text_length|]. apply b64_roundtrip. apply marshal_pubkey_ok.
Qed.

End CheckInWire.
