(* The isKeyper flag of the cache.  Load sets it to "some batch config is stored"; a running cache
   sets it when it sees a config the keyper is a member of.  The two differ only for a keyper
   that is in no stored config (cache false, reload true), and then a committed block transaction
   does the same to the database and to the DKG map whichever value the flag has: the flag is
   only read by handleEonStarted, where a non-member creates no instance either way; the one
   difference - a missing config row is an error only when the flag is set - cannot show in a
   transaction that committed with the flag set. *)
From Coq Require Import List NArith ZArith Bool Lia.
From Verif Require Import Lib.Bytes Model.DKGPure Model.DKGDriver Proofs.DKGChain.
Import ListNotations.
Open Scope Z_scope.

Section Flag.
Variables C E P : Type.
Variable commit_of : P -> C.
Variable eval_of : P -> nat -> E.
Variable verify : nat -> E -> C -> bool.
Variable deg_ok : N -> C -> bool.
Variable valid_eval : E -> bool.
Variable me : addr.
Variable L : Z.
Variable enum : list (N * @active C E P) -> list (N * @active C E P).
Variable poly_for : N -> P.

Notation active := (@active C E P).
Notation sm := (@sm C E P).
Notation db := (db C E P).
Notation st := (st C E P).

Definition wf (b : bool) (s : sm) : sm := mkSm (sm_sync s) b (sm_dkg s).
Definition wfx (b : bool) (x : st) : st := let '(d, s) := x in (d, wf b s).

Definition lift1 (b : bool) (r : tx (st * active)) : tx (st * active) :=
  match r with TOk (x, a) => TOk (wfx b x, a) | TErr => TErr | TPanic => TPanic end.
Definition lift (b : bool) (r : tx st) : tx st :=
  match r with TOk x => TOk (wfx b x) | TErr => TErr | TPanic => TPanic end.

Notation start1 := (start1 C E P commit_of eval_of valid_eval poly_for).
Notation start2 := (start2 C E P verify).
Notation start3 := (start3 C E P eval_of).
Notation finalize_dkg := (finalize_dkg C E P verify).
Notation shift_loop := (shift_loop C E P commit_of eval_of verify valid_eval L poly_for).
Notation shift_all := (shift_all C E P commit_of eval_of verify valid_eval L poly_for).
Notation handle_event := (handle_event C E P commit_of eval_of verify deg_ok valid_eval me L poly_for).
Notation handle_events := (handle_events C E P commit_of eval_of verify deg_ok valid_eval me L poly_for).

Lemma start1_flag b (d : db) (s : sm) eon a : start1 (d, wf b s) eon a = lift1 b (start1 (d, s) eon a).
Proof.
  unfold DKGDriver.start1. simpl.
  destruct (start_phase1 _ _ _ _ _ _ _ _) as [[[p' c] evals]|]; [|reflexivity].
  destruct (insert_evals _ _ _ _ _ _ _); reflexivity.
Qed.

Lemma start2_flag b (d : db) (s : sm) eon a : start2 (d, wf b s) eon a = lift1 b (start2 (d, s) eon a).
Proof.
  unfold DKGDriver.start2. simpl.
  destruct (start_phase2 _ _ _ _ _) as [[p' accs]|]; [|reflexivity].
  destruct accs; [reflexivity|]. destruct (idx_addrs _ _); reflexivity.
Qed.

Lemma start3_flag b (d : db) (s : sm) eon a : start3 (d, wf b s) eon a = lift1 b (start3 (d, s) eon a).
Proof.
  unfold DKGDriver.start3. simpl.
  destruct (start_phase3 _ _ _ _ _) as [[p' apos]|]; [|reflexivity].
  destruct apos; [reflexivity|]. destruct (idx_addrs _ _); reflexivity.
Qed.

Lemma finalize_flag b (d : db) (s : sm) eon a : finalize_dkg (d, wf b s) eon a = lift1 b (finalize_dkg (d, s) eon a).
Proof.
  unfold DKGDriver.finalize_dkg. simpl.
  destruct (finalize (a_pure a)); [|reflexivity].
  destruct (is_result _ _ _).
  - destruct (existsb _ _); simpl; [reflexivity|]. destruct (nget (db_results C E P d) eon); reflexivity.
  - destruct (nget (db_eons C E P _) eon); simpl; [|reflexivity]. destruct (nget (db_results C E P d) eon); reflexivity.
Qed.

Lemma shift_loop_flag b fuel : forall (d : db) (s : sm) h eon a,
  shift_loop fuel (d, wf b s) h eon a = lift b (shift_loop fuel (d, s) h eon a).
Proof.
  induction fuel as [|f IH]; intros d s h eon a; [reflexivity|].
  cbn [DKGDriver.shift_loop].
  destruct (phase_ltb _ _); [|reflexivity].
  destruct (p_phase (a_pure a)).
  - rewrite start1_flag. destruct (start1 (d, s) eon a) as [[[d1 s1] a1]| |]; simpl; [apply IH|reflexivity|reflexivity].
  - rewrite start2_flag. destruct (start2 (d, s) eon a) as [[[d1 s1] a1]| |]; simpl; [apply IH|reflexivity|reflexivity].
  - rewrite start3_flag. destruct (start3 (d, s) eon a) as [[[d1 s1] a1]| |]; simpl; [apply IH|reflexivity|reflexivity].
  - rewrite finalize_flag. destruct (finalize_dkg (d, s) eon a) as [[[d1 s1] a1]| |]; simpl; [apply IH|reflexivity|reflexivity].
  - reflexivity.
Qed.

Lemma shift_all_flag b h l : forall (d : db) (s : sm),
  shift_all (d, wf b s) h l = lift b (shift_all (d, s) h l).
Proof.
  induction l as [|[eon a0] r IH]; intros d s; [reflexivity|].
  cbn [DKGDriver.shift_all]. simpl snd. simpl sm_dkg.
  destruct (nget (sm_dkg s) eon) as [a|]; [|apply IH].
  unfold shift_phase. rewrite shift_loop_flag.
  destruct (shift_loop 5 (d, s) h eon a) as [[d1 s1]| |]; simpl; [apply IH|reflexivity|reflexivity].
Qed.

(* the keyper is in no stored config *)
Definition nomember (d : db) : Prop :=
  forall idx cr, nget (db_cfgs _ _ _ d) idx = Some cr -> is_member (cf_keypers cr) me = false.

(* one event with the flag set, the keyper being in no stored config: the same with the flag
   clear; the flags of the results agree again once a config with the keyper arrives *)
Lemma handle_event_flag (x : st) h ev x' :
  sm_iskeyper (snd x) = false -> nomember (fst x) ->
  handle_event (fst x, wf true (snd x)) h ev = TOk x' ->
  exists x0, handle_event x h ev = TOk x0 /\ fst x0 = fst x' /\ sm_dkg (snd x0) = sm_dkg (snd x') /\
             sm_sync (snd x0) = sm_sync (snd x') /\
             (sm_iskeyper (snd x0) = true -> x0 = x') /\
             (sm_iskeyper (snd x0) = false -> nomember (fst x0) /\ sm_iskeyper (snd x') = true).
Proof.
  destruct x as [d s]. simpl. intros Hf Hnm. destruct ev; simpl.
  - intros [= <-]. eexists. split; [reflexivity|]. simpl. repeat split; try reflexivity.
    + rewrite Hf. discriminate.
    + destruct (existsb _ _); exact Hnm.
  - (* batch config *)
    unfold handle_batch_config. simpl. destruct (is_member keypers me) eqn:Hm; simpl.
    + destruct (nget (db_cfgs C E P d) idx); [discriminate|].
      intros [= <-]. eexists. split; [reflexivity|]. simpl. repeat split; try reflexivity. intros Hx. discriminate.
    + destruct (nget (db_cfgs C E P d) idx) eqn:Hn; [discriminate|]. intros [= <-].
      eexists. split; [reflexivity|]. simpl. repeat split; try reflexivity.
      * rewrite Hf. discriminate.
      * intros k cr. simpl. rewrite (nget_app_none _ _ _ _ Hn). destruct (N.eqb idx k); [intros [= <-]; exact Hm|apply Hnm].
  - (* batch config started *)
    destruct (nget (db_cfgs C E P d) idx) as [c|] eqn:Hn; intros [= <-]; eexists; (split; [reflexivity|]); simpl; repeat split; try reflexivity;
      try (rewrite Hf; discriminate); try exact Hnm.
    intros k cr. simpl. destruct (N.eq_dec idx k) as [<-|Hne].
    + rewrite nget_nset_same. intros [= <-]. simpl. eapply Hnm. exact Hn.
    + rewrite nget_nset_other by exact Hne. apply Hnm.
  - (* eon started: the only reader of the flag *)
    destruct (9223372036854775807 <? Z.of_N act); [discriminate|].
    destruct (nget (db_eons C E P d) eon); [discriminate|]. simpl. rewrite Hf. simpl.
    destruct (nget (db_cfgs C E P d) idx) as [c|] eqn:Hc; [|discriminate].
    pose proof (Hnm _ _ Hc) as Hno. unfold is_member in Hno.
    destruct (find_index (cf_keypers c) me 0); [discriminate|]. intros [= <-].
    eexists. split; [reflexivity|]. simpl. repeat split; try reflexivity.
    + rewrite Hf. discriminate.
    + exact Hnm.
  - (* commitment *)
    destruct (nget (sm_dkg s) eon) as [a|]; [|intros [= <-]; eexists; (split; [reflexivity|]); simpl; repeat split; try reflexivity; try (rewrite Hf; discriminate); exact Hnm].
    destruct (find_index _ _ _); [|intros [= <-]; eexists; (split; [reflexivity|]); simpl; repeat split; try reflexivity; try (rewrite Hf; discriminate); exact Hnm].
    destruct (handle_commit _ _ _ _ _ _ _ _); intros [= <-]; eexists; (split; [reflexivity|]); simpl; repeat split; try reflexivity; try (rewrite Hf; discriminate); exact Hnm.
  - (* evaluation *)
    destruct (bytes_eqb sender me); [intros [= <-]; eexists; (split; [reflexivity|]); simpl; repeat split; try reflexivity; try (rewrite Hf; discriminate); exact Hnm|].
    destruct (nget (sm_dkg s) eon) as [a|]; [|intros [= <-]; eexists; (split; [reflexivity|]); simpl; repeat split; try reflexivity; try (rewrite Hf; discriminate); exact Hnm].
    destruct (find_index (a_keypers a) sender 0); [|intros [= <-]; eexists; (split; [reflexivity|]); simpl; repeat split; try reflexivity; try (rewrite Hf; discriminate); exact Hnm].
    destruct (find_index (a_keypers a) me 0); [|discriminate].
    destruct (find_index receivers me 0); [|intros [= <-]; eexists; (split; [reflexivity|]); simpl; repeat split; try reflexivity; try (rewrite Hf; discriminate); exact Hnm].
    destruct (nth_error vals _) as [[v|]|]; try discriminate;
      [|intros [= <-]; eexists; (split; [reflexivity|]); simpl; repeat split; try reflexivity; try (rewrite Hf; discriminate); exact Hnm].
    destruct (handle_eval _ _ _ _ _ _ _ _ _); try discriminate; intros [= <-]; eexists; (split; [reflexivity|]); simpl; repeat split; try reflexivity; try (rewrite Hf; discriminate); exact Hnm.
  - (* accusation *)
    destruct (nget (sm_dkg s) eon) as [a|]; [|intros [= <-]; eexists; (split; [reflexivity|]); simpl; repeat split; try reflexivity; try (rewrite Hf; discriminate); exact Hnm].
    destruct (negb _); [intros [= <-]; eexists; (split; [reflexivity|]); simpl; repeat split; try reflexivity; try (rewrite Hf; discriminate); exact Hnm|].
    destruct (find_index _ _ _); intros [= <-]; eexists; (split; [reflexivity|]); simpl; repeat split; try reflexivity; try (rewrite Hf; discriminate); exact Hnm.
  - (* apology *)
    destruct (nget (sm_dkg s) eon) as [a|]; [|intros [= <-]; eexists; (split; [reflexivity|]); simpl; repeat split; try reflexivity; try (rewrite Hf; discriminate); exact Hnm].
    destruct (negb _); [intros [= <-]; eexists; (split; [reflexivity|]); simpl; repeat split; try reflexivity; try (rewrite Hf; discriminate); exact Hnm|].
    destruct (find_index _ _ _); [|intros [= <-]; eexists; (split; [reflexivity|]); simpl; repeat split; try reflexivity; try (rewrite Hf; discriminate); exact Hnm].
    destruct (apologise_all _ _ _ _ _ _ _ _ _ _); [|discriminate]. intros [= <-].
    eexists. split; [reflexivity|]. simpl. repeat split; try reflexivity; try (rewrite Hf; discriminate); exact Hnm.
Qed.

(* ---- the flag and the config table through the phase transitions ---- *)
Lemma wf_eta (s : sm) : wf (sm_iskeyper s) s = s.
Proof. destruct s. reflexivity. Qed.

Lemma shift_all_keeps h l (d : db) (s : sm) x' :
  shift_all (d, s) h l = TOk x' -> sm_iskeyper (snd x') = sm_iskeyper s /\ sm_sync (snd x') = sm_sync s.
Proof.
  intros H. pose proof (shift_all_flag (sm_iskeyper s) h l d s) as Hf. rewrite wf_eta, H in Hf. simpl in Hf.
  injection Hf as Hf. destruct x' as [d' s']. unfold wfx in Hf. injection Hf as Hs. rewrite Hs. simpl. split; [reflexivity|].
  (* the sync flag: the same argument with the sync bit is not available; use the frame *)
  clear Hs. revert d s H. induction l as [|[eon a0] r IH]; intros d s H.
  - simpl in H. injection H as <- <-. reflexivity.
  - cbn [DKGDriver.shift_all] in H. simpl snd in H.
    destruct (nget (sm_dkg s) eon) as [a|] eqn:Hg; [|eapply IH; exact H].
    destruct (shift_phase C E P commit_of eval_of verify valid_eval L poly_for (d, s) h eon a) as [[d1 s1]| |] eqn:Hs; simpl in H; try discriminate.
    rewrite (IH _ _ H).
    pose proof (shift_phase_spec C E P commit_of eval_of verify valid_eval L poly_for _ _ _ _ _ Hs Hg) as Hr.
    destruct Hr as [_ Heq|a' _ _ Hfr _ _ _ _ _ _|pf ok _ _ Hfr _ _ _ _ _].
    + injection Heq as _ <-. reflexivity.
    + destruct Hfr as [_ [_ [_ [F _]]]]. exact F.
    + destruct Hfr as [_ [_ [_ [F _]]]]. exact F.
Qed.

Lemma shift_all_cfgs h l : forall (d : db) (s : sm) x',
  shift_all (d, s) h l = TOk x' -> db_cfgs _ _ _ (fst x') = db_cfgs _ _ _ d.
Proof.
  induction l as [|[eon a0] r IH]; intros d s x' H.
  - simpl in H. injection H as <-. reflexivity.
  - cbn [DKGDriver.shift_all] in H. simpl snd in H.
    destruct (nget (sm_dkg s) eon) as [a|] eqn:Hg; [|eapply IH; exact H].
    destruct (shift_phase C E P commit_of eval_of verify valid_eval L poly_for (d, s) h eon a) as [[d1 s1]| |] eqn:Hs; simpl in H; try discriminate.
    rewrite (IH _ _ _ H).
    pose proof (shift_phase_spec C E P commit_of eval_of verify valid_eval L poly_for _ _ _ _ _ Hs Hg) as Hr.
    destruct Hr as [_ Heq|a' _ _ Hfr _ _ _ _ _ _|pf ok _ _ Hfr _ _ _ _ _].
    + injection Heq as <- _. reflexivity.
    + destruct Hfr as [F _]. exact F.
    + destruct Hfr as [F _]. exact F.
Qed.

(* what the flag says about the config table *)
Definition nmft (x : st) : Prop :=
  (sm_iskeyper (snd x) = false -> nomember (fst x)) /\
  (sm_iskeyper (snd x) = true -> db_cfgs _ _ _ (fst x) <> []).

Lemma handle_event_nmft (x : st) h ev x' : handle_event x h ev = TOk x' -> nmft x -> nmft x'.
Proof.
  destruct x as [d s]. intros Hrun [Hn Ht]. simpl in Hn, Ht.
  assert (Hsame : db_cfgs C E P (fst x') = db_cfgs C E P d -> sm_iskeyper (snd x') = sm_iskeyper s -> nmft x').
  { intros H1 H2. split; rewrite H2; [intros Hf k cr; rewrite H1; apply Hn; exact Hf|rewrite H1; exact Ht]. }
  destruct ev; simpl in Hrun.
  - injection Hrun as <-. apply Hsame; [destruct (existsb _ _); reflexivity|reflexivity].
  - unfold handle_batch_config in Hrun. destruct (is_member keypers me) eqn:Hm; simpl in Hrun.
    + destruct (nget (db_cfgs C E P d) idx) eqn:Hx; [discriminate|]. injection Hrun as <-. split; unfold nomember; simpl; [discriminate|].
      intros _ Hc. destruct (db_cfgs C E P d); discriminate.
    + destruct (nget (db_cfgs C E P d) idx) eqn:Hx; [discriminate|]. injection Hrun as <-. split; unfold nomember; simpl.
      * intros Hf k cr. rewrite (nget_app_none _ _ _ _ Hx). destruct (N.eqb idx k); [intros [= <-]; exact Hm|apply Hn; exact Hf].
      * intros _ Hc. destruct (db_cfgs C E P d); discriminate.
  - destruct (nget (db_cfgs C E P d) idx) as [c|] eqn:Hx; injection Hrun as <-; [|apply Hsame; reflexivity].
    split; unfold nomember; simpl.
    + intros Hf k cr. destruct (N.eq_dec idx k) as [<-|Hne].
      * rewrite nget_nset_same. intros [= <-]. simpl. eapply Hn; eassumption.
      * rewrite nget_nset_other by exact Hne. apply Hn. exact Hf.
    + intros Hf Hc. destruct (db_cfgs C E P d) as [|[k0 c0] r]; [discriminate|]. simpl in Hc. destruct (N.eqb k0 idx); discriminate.
  - destruct (9223372036854775807 <? Z.of_N act); [discriminate|].
    destruct (nget (db_eons C E P d) eon) eqn:He; [discriminate|].
    destruct (negb (sm_iskeyper s)); [injection Hrun as <-; apply Hsame; reflexivity|].
    destruct (nget (db_cfgs C E P d) idx) as [c|]; [|discriminate].
    destruct (find_index (cf_keypers c) me 0) as [ki|]; [|injection Hrun as <-; apply Hsame; reflexivity].
    destruct (phase_eqb _ Off); [discriminate|].
    match type of Hrun with shift_phase _ _ _ _ _ _ _ _ _ ?xx ?hh ?ee ?aa = _ =>
      pose proof (shift_phase_spec C E P commit_of eval_of verify valid_eval L poly_for xx hh ee aa x' Hrun) as Hr end.
    simpl in Hr. specialize (Hr (nget_nins_same _ _ _)).
    destruct Hr as [_ Heq|a' _ _ Hfr _ _ _ _ _ _|pf ok _ _ Hfr _ _ _ _ _].
    + subst x'. apply Hsame; reflexivity.
    + destruct Hfr as [F1 [_ [_ [_ [F5 _]]]]]. apply Hsame; [exact F1|exact F5].
    + destruct Hfr as [F1 [_ [_ [_ [F5 _]]]]]. apply Hsame; [exact F1|exact F5].
  - destruct (nget (sm_dkg s) eon) as [a|]; [|injection Hrun as <-; apply Hsame; reflexivity].
    destruct (find_index _ _ _); [|injection Hrun as <-; apply Hsame; reflexivity].
    destruct (handle_commit _ _ _ _ _ _ _ _); try discriminate; injection Hrun as <-; apply Hsame; reflexivity.
  - destruct (bytes_eqb sender me); [injection Hrun as <-; apply Hsame; reflexivity|].
    destruct (nget (sm_dkg s) eon) as [a|]; [|injection Hrun as <-; apply Hsame; reflexivity].
    destruct (find_index (a_keypers a) sender 0); [|injection Hrun as <-; apply Hsame; reflexivity].
    destruct (find_index (a_keypers a) me 0); [|discriminate].
    destruct (find_index receivers me 0); [|injection Hrun as <-; apply Hsame; reflexivity].
    destruct (nth_error vals _) as [[v|]|]; try discriminate; [|injection Hrun as <-; apply Hsame; reflexivity].
    destruct (handle_eval _ _ _ _ _ _ _ _ _); try discriminate; injection Hrun as <-; apply Hsame; reflexivity.
  - destruct (nget (sm_dkg s) eon) as [a|]; [|injection Hrun as <-; apply Hsame; reflexivity].
    destruct (negb _); [injection Hrun as <-; apply Hsame; reflexivity|].
    destruct (find_index _ _ _); injection Hrun as <-; apply Hsame; reflexivity.
  - destruct (nget (sm_dkg s) eon) as [a|]; [|injection Hrun as <-; apply Hsame; reflexivity].
    destruct (negb _); [injection Hrun as <-; apply Hsame; reflexivity|].
    destruct (find_index _ _ _); [|injection Hrun as <-; apply Hsame; reflexivity].
    destruct (apologise_all _ _ _ _ _ _ _ _ _ _); [|discriminate]. injection Hrun as <-. apply Hsame; reflexivity.
Qed.

Lemma handle_events_nmft es : forall x h x', handle_events x h es = TOk x' -> nmft x -> nmft x'.
Proof.
  induction es as [|ev r IH]; simpl; intros x h x' Hrun Hn.
  - injection Hrun as <-. exact Hn.
  - destruct (handle_event x h ev) as [x1| |] eqn:H1; simpl in Hrun; try discriminate.
    eapply IH; [exact Hrun|]. eapply handle_event_nmft; eassumption.
Qed.

(* the crashed run's cache against the crash-free one's: equal, or the flag differs for a keyper
   in no stored config *)
Definition flagrel (x0 x' : st) : Prop :=
  x' = x0 \/ (sm_iskeyper (snd x0) = false /\ nomember (fst x0) /\ x' = (fst x0, wf true (snd x0))).

Lemma handle_event_flagrel (x0 x1 : st) h ev x' :
  flagrel x0 x1 -> handle_event x1 h ev = TOk x' ->
  exists x0', handle_event x0 h ev = TOk x0' /\ flagrel x0' x'.
Proof.
  intros [->|[Hf [Hn ->]]] Hrun.
  - exists x'. split; [exact Hrun|left; reflexivity].
  - destruct (handle_event_flag x0 h ev x' Hf Hn Hrun) as [x0' [E0 [E1 [E2 [E3 [E4 E5]]]]]].
    exists x0'. split; [exact E0|]. destruct (sm_iskeyper (snd x0')) eqn:Hf'.
    + left. symmetry. apply E4. reflexivity.
    + right. destruct (E5 eq_refl) as [Hn' Ht]. split; [exact Hf'|]. split; [exact Hn'|].
      destruct x0' as [d0 s0], x' as [d' s']. simpl in *. subst d'. f_equal.
      destruct s0, s'. simpl in *. subst. reflexivity.
Qed.

Lemma handle_events_flagrel es : forall (x0 x1 : st) h x',
  flagrel x0 x1 -> handle_events x1 h es = TOk x' ->
  exists x0', handle_events x0 h es = TOk x0' /\ flagrel x0' x'.
Proof.
  induction es as [|ev r IH]; simpl; intros x0 x1 h x' Hrel Hrun.
  - injection Hrun as <-. exists x0. split; [reflexivity|exact Hrel].
  - destruct (handle_event x1 h ev) as [x2| |] eqn:H1; simpl in Hrun; try discriminate.
    destruct (handle_event_flagrel _ _ _ _ _ Hrel H1) as [x0' [E0 Hrel']].
    rewrite E0. simpl. eapply IH; eassumption.
Qed.

(* the whole block transaction, the cache synchronised *)
Lemma handle_block_flagrel (d : db) (s : sm) blk lch x' :
  sm_sync s = true -> sm_iskeyper s = false -> nomember d ->
  handle_block C E P commit_of eval_of verify deg_ok valid_eval me L enum poly_for (d, wf true s) blk lch = TOk x' ->
  exists x0, handle_block C E P commit_of eval_of verify deg_ok valid_eval me L enum poly_for (d, s) blk lch = TOk x0 /\
             flagrel x0 x'.
Proof.
  intros Hs Hf Hn. unfold DKGDriver.handle_block, load. simpl. rewrite Hs. simpl.
  destruct (negb _); [discriminate|].
  set (d0 := upd_db_sync C E P d (fst blk) lch blk).
  unfold shift_phases. simpl snd. simpl sm_dkg.
  pose proof (shift_all_flag true (fst blk) (enum (sm_dkg s)) d0 s) as Hsh.
  rewrite Hsh. clear Hsh.
  destruct (shift_all (d0, s) (fst blk) (enum (sm_dkg s))) as [[d2 s2]| |] eqn:Hsa;
    simpl; try discriminate.
  destruct (handle_events (d2, wf true s2) (fst blk) (snd blk))
    as [x3| |] eqn:He; simpl; try discriminate.
  intros [= <-].
  assert (Hk := shift_all_keeps (fst blk) _ d0 s _ Hsa).
  assert (Hc := shift_all_cfgs (fst blk) _ d0 s _ Hsa).
  simpl in Hk, Hc. destruct Hk as [Hk1 Hk2].
  assert (Hrel : flagrel (d2, s2) (d2, wf true s2)).
  { right. split; [simpl; congruence|]. split; [|reflexivity]. intros k cr. simpl. rewrite Hc. apply Hn. }
  destruct (handle_events_flagrel _ _ _ _ _ Hrel He) as [x03 [E0 Hrel3]].
  rewrite E0. simpl. eexists. split; [reflexivity|].
  destruct Hrel3 as [->|[Hf3 [Hn3 ->]]].
  - left. reflexivity.
  - right. destruct x03 as [d3 s3]. simpl in *. split; [exact Hf3|]. split.
    + intros k cr. simpl.
      assert (Hcf : db_cfgs C E P (save_all C E P (send_poly_evals C E P d3) (enum (sm_dkg s3))) = db_cfgs C E P d3).
      { generalize (enum (sm_dkg s3)). intros l.
        assert (Hsp : db_cfgs C E P (send_poly_evals C E P d3) = db_cfgs C E P d3).
        { unfold send_poly_evals. simpl.
          match goal with |- db_cfgs _ _ _ (fold_left ?g ?ll ?dd) = _ =>
            assert (Hg : forall l0 acc, db_cfgs C E P (fold_left g l0 acc) = db_cfgs C E P acc)
              by (induction l0 as [|e0 r0 IH0]; intros acc; [reflexivity|simpl; rewrite IH0; reflexivity]);
            apply Hg end. }
        rewrite <- Hsp. generalize (send_poly_evals C E P d3). induction l as [|[e0 a0] r0 IH0]; intros dd; [reflexivity|].
        simpl. destruct (a_dirty a0); rewrite IH0; reflexivity. }
      rewrite Hcf. apply Hn3.
    + reflexivity.
Qed.

End Flag.
