(* Counter-examples on the faithful model of the code as it is on the pinned tree
   (legacy_get_offset_data_value, legacy_lp_validate): D11 and D12 of DESIGN.md section 6. *)
From Coq Require Import List NArith ZArith Bool String.
From Verif Require Import Lib.Bytes Lib.Rlp Model.TriggerDef.
Import ListNotations.
Open Scope string_scope.
Open Scope list_scope.

Definition addrA : bytes := hx "1234567890123456789012345678901234567890".

(* one dynamic BytesEq predicate on the first data word *)
Definition d11_def : def := mkDef addrA [mkPred true 4 5 [] [hx "68656c6c6f"]].
(* ten bytes of data: the offset word itself is not there *)
Definition d11_log_short : log := mkLog addrA [] (repeat 0%N 10).
(* pointer 200 into 96 bytes of data *)
Definition d11_log_pointer : log :=
  mkLog addrA [] (repeat 0%N 31 ++ [200%N] ++ repeat 0%N 64).
(* length word 2^62 *)
Definition d11_log_length : log :=
  mkLog addrA [] (repeat 0%N 31 ++ [32%N] ++ repeat 0%N 24 ++ [64%N] ++ repeat 0%N 7 ++ repeat 0%N 32).

Lemma legacy_match_panics :
  wf_def d11_def /\ legacy_validate d11_def = true /\
  legacy_match d11_def d11_log_short = MPanic /\
  legacy_match d11_def d11_log_pointer = MPanic /\
  legacy_match d11_def d11_log_length = MPanic.
Proof. repeat split; vm_compute; reflexivity. Qed.

(* a topic BytesEq argument of three bytes *)
Definition d12_def : def := mkDef addrA [mkPred false 1 5 [] [hx "abcdef"]].

Lemma legacy_valid_without_filter :
  wf_def d12_def /\ legacy_validate d12_def = true /\ to_filter d12_def = FErr /\
  legacy_unmarshal (match marshal d12_def with Some b => b | None => [] end) = UOk d12_def.
Proof. repeat split; vm_compute; reflexivity. Qed.

(* with an empty argument such a definition even matches a log (whose topic is absent)
   although no filter query exists for it *)
Definition d12_def_empty : def := mkDef addrA [mkPred false 1 5 [] [[]]].
Lemma legacy_match_without_filter :
  legacy_validate d12_def_empty = true /\ to_filter d12_def_empty = FErr /\
  legacy_match d12_def_empty (mkLog addrA [] []) = MOk true.
Proof. repeat split; vm_compute; reflexivity. Qed.
