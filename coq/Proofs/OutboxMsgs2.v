(* C08_outbox_consistent over executions: every evaluation the keyper has queued or sent (and
   every row of poly_evals), every apology value and every DKG-result vote is consistent with its
   durable state: an evaluation for receiver r of eon e is eval_of p i for the index i of r in the
   eon's keyper list and a polynomial p whose commitment is the (unique, C08_single_commitment)
   commitment of the eon; likewise every apology value; a result vote says what the dkg_result
   row says.  Same structure as Proofs/OutboxMsgs.v: per-primitive invariant inside the block
   transaction, bridged over Load and Save by cache coherence. *)
From Coq Require Import List NArith ZArith Bool Lia Sorted.
From Verif Require Import Lib.Bytes Model.DKGPure Model.DKGDriver Model.Outbox
     Proofs.DKGChain Proofs.OutboxEvolve Proofs.OutboxCoh Proofs.Outbox Proofs.OutboxRun Proofs.OutboxMsgs.
Import ListNotations.
Open Scope Z_scope.

Section Msgs2.
Variables C E P : Type.
Variable commit_of : P -> C.
Variable eval_of : P -> nat -> E.
Variable verify : nat -> E -> C -> bool.
Variable deg_ok : N -> C -> bool.
Variable valid_eval : E -> bool.
Variable me : addr.
Variable L : Z.
Variable enum : list (N * @active C E P) -> list (N * @active C E P).
Variable delta : Z.
Hypothesis Henum : enum_entries_ok C E P enum.

Notation pure := (@DKGPure.pure C E P).
Notation active := (@active C E P).
Notation sm := (@sm C E P).
Notation db := (db C E P).
Notation st := (st C E P).
Notation msg := (msg C E).
Notation world := (@world C E P).
Notation op := (@op C E P).
Notation prim := (prim C E P commit_of eval_of).
Notation evolves := (evolves C E P commit_of eval_of).
Notation coh := (coh C E P).
Notation all_clean := (all_clean C E P).
Notation committed := (committed C E P).
Notation allmsgs := (allmsgs C E P).
Notation tinv := (tinv C E P commit_of).
Notation binv := (binv C E P commit_of).
Notation logT := (logT C E).
Notation step := (step C E P commit_of eval_of verify deg_ok valid_eval me L enum delta).
Notation run := (run C E P commit_of eval_of verify deg_ok valid_eval me L enum delta).
Notation handle_block := (handle_block C E P commit_of eval_of verify deg_ok valid_eval me L enum).

(* the keyper list of an eon, from the eons and batch-config tables *)
Definition kp (d : db) (eon : N) : option (list addr) :=
  match nget (db_eons _ _ _ d) eon with
  | None => None
  | Some er => match nget (db_cfgs _ _ _ d) (eo_cfg er) with
               | None => None
               | Some cr => Some (cf_keypers cr)
               end
  end.

(* p is consistent with every commitment of the eon received or queued *)
Definition polyfor (lg : logT) (d : db) (eon : N) (p : P) : Prop :=
  forall c, committed lg d eon c -> c = commit_of p.

Definition ev_ok (lg : logT) (d : db) (eon : N) (adr : addr) (v : E) : Prop :=
  exists p i ks, kp d eon = Some ks /\ nth_error ks i = Some adr /\ v = eval_of p i /\ polyfor lg d eon p.

Definition apo_ok (lg : logT) (d : db) (eon : N) (accs : list addr) (vals : list E) : Prop :=
  exists p idxs ks, kp d eon = Some ks /\ idx_addrs ks idxs = Some accs /\ vals = map (eval_of p) idxs /\
                    polyfor lg d eon p.

Definition res_ok (d : db) (eon : N) (ok : bool) : Prop :=
  exists r, nget (db_results _ _ _ d) eon = Some r /\ rs_success _ _ r = ok.

(* the consistency of everything queued, sent or waiting in poly_evals *)
Record qinv (lg : logT) (d : db) : Prop := {
  q_rows : forall eon adr v, In (eon, (adr, v)) (db_evals _ _ _ d) -> ev_ok lg d eon adr v;
  q_evals : forall eon rs vs r v, In (MEvals eon rs vs) (allmsgs lg d) -> In (r, v) (combine rs vs) -> ev_ok lg d eon r v;
  q_apo : forall eon accs vals, In (MApology eon accs vals) (allmsgs lg d) -> apo_ok lg d eon accs vals;
  q_res : forall eon ok, In (MResult eon ok) (allmsgs lg d) -> res_ok d eon ok
}.

(* an eon for which some evaluation / apology exists *)
Definition touched (lg : logT) (d : db) (eon : N) : Prop :=
  (exists adr v, In (eon, (adr, v)) (db_evals _ _ _ d)) \/
  (exists rs vs r v, In (MEvals eon rs vs) (allmsgs lg d) /\ In (r, v) (combine rs vs)) \/
  (exists accs vals, In (MApology eon accs vals) (allmsgs lg d)).

(* cache side, inside a transaction *)
Record tinv2 (lg : logT) (x : st) : Prop := {
  t2_off : forall eon a, nget (sm_dkg (snd x)) eon = Some a -> p_phase (a_pure a) = Off -> ~ touched lg (fst x) eon;
  t2_pp : forall eon a p, nget (sm_dkg (snd x)) eon = Some a -> p_poly (a_pure a) = Some p -> p_phase (a_pure a) <> Off
}.

(* database side *)
Record binv2 (lg : logT) (d : db) : Prop := {
  b2_off : forall eon pu, nget (db_pure _ _ _ d) eon = Some pu -> p_phase pu = Off -> ~ touched lg d eon;
  b2_pp : forall eon pu p, nget (db_pure _ _ _ d) eon = Some pu -> p_poly pu = Some p -> p_phase pu <> Off
}.

(* ---- monotonicity of the predicates ---- *)
Definition fewer_commits (lg lg' : logT) (d d' : db) : Prop :=
  forall eon c, committed lg' d' eon c -> committed lg d eon c.

Definition kp_kept (d d' : db) : Prop := forall eon ks, kp d eon = Some ks -> kp d' eon = Some ks.

Lemma ev_ok_mono lg lg' d d' eon adr v :
  fewer_commits lg lg' d d' -> kp_kept d d' -> ev_ok lg d eon adr v -> ev_ok lg' d' eon adr v.
Proof.
  intros Hf Hk [p [i [ks [H1 [H2 [H3 H4]]]]]]. exists p, i, ks. repeat split; auto.
  intros c Hc. apply H4. apply Hf. exact Hc.
Qed.

Lemma apo_ok_mono lg lg' d d' eon accs vals :
  fewer_commits lg lg' d d' -> kp_kept d d' -> apo_ok lg d eon accs vals -> apo_ok lg' d' eon accs vals.
Proof.
  intros Hf Hk [p [idxs [ks [H1 [H2 [H3 H4]]]]]]. exists p, idxs, ks. repeat split; auto.
  intros c Hc. apply H4. apply Hf. exact Hc.
Qed.

Lemma kp_kept_refl d : kp_kept d d.
Proof. intros eon ks H. exact H. Qed.

Lemma kp_frame (d d' : db) :
  db_eons _ _ _ d' = db_eons _ _ _ d -> db_cfgs _ _ _ d' = db_cfgs _ _ _ d -> forall eon, kp d' eon = kp d eon.
Proof. intros H1 H2 eon. unfold kp. rewrite H1, H2. reflexivity. Qed.

Lemma kp_eon_add (d : db) eon er :
  nget (db_eons _ _ _ d) eon = None -> kp_kept d (upd_db_eons C E P d (db_eons _ _ _ d ++ [(eon, er)])).
Proof.
  intros Hn k ks. unfold kp. simpl. rewrite (nget_app_none _ _ _ _ Hn).
  destruct (nget (db_eons C E P d) k) as [er0|] eqn:Q; [|discriminate].
  destruct (N.eqb eon k) eqn:Ek; [apply N.eqb_eq in Ek; subst; congruence|]. tauto.
Qed.

Lemma kp_cfg_add (d : db) idx c :
  nget (db_cfgs _ _ _ d) idx = None -> kp_kept d (upd_db_cfgs C E P d (db_cfgs _ _ _ d ++ [(idx, c)])).
Proof.
  intros Hn k ks. unfold kp. simpl. destruct (nget (db_eons C E P d) k) as [er|]; [|discriminate].
  rewrite (nget_app_none _ _ _ _ Hn). destruct (nget (db_cfgs C E P d) (eo_cfg er)) as [cr|] eqn:Q; [|discriminate].
  destruct (N.eqb idx (eo_cfg er)) eqn:Ek; [apply N.eqb_eq in Ek; subst; congruence|]. tauto.
Qed.

Lemma kp_cfg_started (d : db) idx c :
  nget (db_cfgs _ _ _ d) idx = Some c ->
  kp_kept d (upd_db_cfgs C E P d (nset (db_cfgs _ _ _ d) idx (mkCfg (cf_height c) (cf_keypers c) (cf_threshold c) true (cf_act c)))).
Proof.
  intros Hn k ks. unfold kp. simpl. destruct (nget (db_eons C E P d) k) as [er|]; [|discriminate].
  destruct (N.eq_dec idx (eo_cfg er)) as [<-|Hne].
  - rewrite nget_nset_same, Hn. simpl. tauto.
  - rewrite nget_nset_other by exact Hne. tauto.
Qed.

(* all four consistency statements move along *)
Lemma qinv_mono lg lg' (d d' : db) :
  fewer_commits lg lg' d d' -> kp_kept d d' ->
  (forall row, In row (db_evals _ _ _ d') -> In row (db_evals _ _ _ d)) ->
  (forall m, In m (allmsgs lg' d') -> In m (allmsgs lg d)) ->
  (forall eon r, nget (db_results _ _ _ d) eon = Some r -> nget (db_results _ _ _ d') eon = Some r) ->
  qinv lg d -> qinv lg' d'.
Proof.
  intros Hf Hk Hrows Hm Hres [A B Cc D]. constructor.
  - intros eon adr v Hin. eapply ev_ok_mono; [exact Hf|exact Hk|]. apply A. apply Hrows. exact Hin.
  - intros eon rs vs r v Hin Hc. eapply ev_ok_mono; [exact Hf|exact Hk|]. eapply B; [apply Hm; exact Hin|exact Hc].
  - intros eon accs vals Hin. eapply apo_ok_mono; [exact Hf|exact Hk|]. apply Cc. apply Hm. exact Hin.
  - intros eon ok Hin. destruct (D eon ok (Hm _ Hin)) as [r [H1 H2]]. exists r. split; [apply Hres; exact H1|exact H2].
Qed.

Lemma touched_mono lg lg' (d d' : db) eon :
  (forall row, In row (db_evals _ _ _ d') -> In row (db_evals _ _ _ d)) ->
  (forall m, In m (allmsgs lg' d') -> In m (allmsgs lg d)) ->
  touched lg' d' eon -> touched lg d eon.
Proof.
  intros Hrows Hm [[adr [v H]]|[[rs [vs [r [v [H H']]]]]|[accs [vals H]]]].
  - left. exists adr, v. apply Hrows. exact H.
  - right. left. exists rs, vs, r, v. split; [apply Hm; exact H|exact H'].
  - right. right. exists accs, vals. apply Hm. exact H.
Qed.

Lemma allmsgs_sched lg (d : db) desc (m m0 : msg) :
  In m0 (allmsgs lg (schedule C E P d desc m)) <-> In m0 (allmsgs lg d) \/ m0 = m.
Proof.
  unfold OutboxMsgs.allmsgs, OutboxMsgs.qmsgs. simpl. rewrite map_app. simpl. rewrite !in_app_iff. simpl.
  split; [intros [H|[H|[H|[]]]]; auto|intros [[H|H]|H]; auto].
Qed.

Lemma allmsgs_filter lg (d : db) f (m0 : msg) :
  In m0 (allmsgs lg (upd_db_outbox C E P d (filter f (db_outbox _ _ _ d)) (db_nextid _ _ _ d))) -> In m0 (allmsgs lg d).
Proof.
  unfold OutboxMsgs.allmsgs, OutboxMsgs.qmsgs. simpl. rewrite !in_app_iff. intros [H|H]; [left; exact H|right].
  apply in_map_iff in H. destruct H as [r [H1 H2]]. apply in_map_iff. exists r. split; [exact H1|].
  apply filter_In in H2. tauto.
Qed.

Lemma touched_kp lg d eon : qinv lg d -> touched lg d eon -> kp d eon <> None.
Proof.
  intros [A B Cc D] [[adr [v H]]|[[rs [vs [r [v [H H']]]]]|[accs [vals H]]]].
  - destruct (A _ _ _ H) as [p [i [ks [H1 _]]]]. congruence.
  - destruct (B eon _ _ r v H H') as [p [i [ks [H1 _]]]]. congruence.
  - destruct (Cc _ _ _ H) as [p [idxs [ks [H1 _]]]]. congruence.
Qed.

Lemma committed_sched_other lg (d : db) desc (m : msg) :
  (forall e c, m <> MCommit e c) ->
  fewer_commits lg lg d (schedule C E P d desc m).
Proof.
  intros Hm eon c H. apply committed_sched in H. destruct H as [H|H]; [exact H|]. exfalso. exact (Hm _ _ H).
Qed.

(* queueing a message that is not a commitment *)
Lemma qinv_sched lg (d : db) desc (m : msg) :
  (forall e c, m <> MCommit e c) ->
  (forall eon rs vs r v, m = MEvals eon rs vs -> In (r, v) (combine rs vs) -> ev_ok lg d eon r v) ->
  (forall eon accs vals, m = MApology eon accs vals -> apo_ok lg d eon accs vals) ->
  (forall eon ok, m = MResult eon ok -> res_ok d eon ok) ->
  qinv lg d -> qinv lg (schedule C E P d desc m).
Proof.
  intros Hm He Ha Hr [A B Cc D].
  pose proof (committed_sched_other lg d desc m Hm) as Hf.
  assert (Hk : kp_kept d (schedule C E P d desc m)) by (intros eon ks H; exact H).
  constructor.
  - intros eon adr v Hin. eapply ev_ok_mono; [exact Hf|exact Hk|]. apply A. exact Hin.
  - intros eon rs vs r v Hin Hc. apply allmsgs_sched in Hin. eapply ev_ok_mono; [exact Hf|exact Hk|].
    destruct Hin as [Hin|Hin]; [eapply B; eassumption|]. eapply He; [symmetry; exact Hin|exact Hc].
  - intros eon accs vals Hin. apply allmsgs_sched in Hin. eapply apo_ok_mono; [exact Hf|exact Hk|].
    destruct Hin as [Hin|Hin]; [apply Cc; exact Hin|]. apply Ha. symmetry. exact Hin.
  - intros eon ok Hin. apply allmsgs_sched in Hin.
    destruct Hin as [Hin|Hin]; [apply D; exact Hin|]. apply Hr. symmetry. exact Hin.
Qed.

Lemma touched_sched lg (d : db) desc (m : msg) eon :
  touched lg (schedule C E P d desc m) eon ->
  touched lg d eon \/ (exists rs vs r v, m = MEvals eon rs vs /\ In (r, v) (combine rs vs)) \/
  (exists accs vals, m = MApology eon accs vals).
Proof.
  intros [[adr [v H]]|[[rs [vs [r [v [H H']]]]]|[accs [vals H]]]].
  - left. left. exists adr, v. exact H.
  - apply allmsgs_sched in H. destruct H as [H|H].
    + left. right. left. exists rs, vs, r, v. split; assumption.
    + right. left. exists rs, vs, r, v. split; [symmetry; exact H|exact H'].
  - apply allmsgs_sched in H. destruct H as [H|H].
    + left. right. right. exists accs, vals. exact H.
    + right. right. exists accs, vals. symmetry. exact H.
Qed.

(* queueing the commitment of an eon nothing of which has been queued yet *)
Lemma qinv_deal lg (d : db) eon0 c :
  ~ touched lg d eon0 -> qinv lg d -> qinv lg (schedule C E P d None (MCommit eon0 c)).
Proof.
  intros Hnt [A B Cc D].
  assert (Hpf : forall eon p, eon <> eon0 -> polyfor lg d eon p -> polyfor lg (schedule C E P d None (MCommit eon0 c)) eon p).
  { intros eon p Hne Hp c' Hc. apply committed_sched in Hc. destruct Hc as [Hc|Hc]; [apply Hp; exact Hc|].
    injection Hc as Hc _. congruence. }
  constructor.
  - intros eon adr v Hin. destruct (N.eq_dec eon eon0) as [->|Hne].
    + exfalso. apply Hnt. left. exists adr, v. exact Hin.
    + destruct (A _ _ _ Hin) as [p [i [ks [H1 [H2 [H3 H4]]]]]]. exists p, i, ks. repeat split; auto.
  - intros eon rs vs r v Hin Hc. apply allmsgs_sched in Hin. destruct Hin as [Hin|Hin]; [|discriminate].
    destruct (N.eq_dec eon eon0) as [->|Hne].
    + exfalso. apply Hnt. right. left. exists rs, vs, r, v. split; assumption.
    + destruct (B _ _ _ _ _ Hin Hc) as [p [i [ks [H1 [H2 [H3 H4]]]]]]. exists p, i, ks. repeat split; auto.
  - intros eon accs vals Hin. apply allmsgs_sched in Hin. destruct Hin as [Hin|Hin]; [|discriminate].
    destruct (N.eq_dec eon eon0) as [->|Hne].
    + exfalso. apply Hnt. right. right. exists accs, vals. exact Hin.
    + destruct (Cc _ _ _ Hin) as [p [idxs [ks [H1 [H2 [H3 H4]]]]]]. exists p, idxs, ks. repeat split; auto.
  - intros eon ok Hin. apply allmsgs_sched in Hin. destruct Hin as [Hin|Hin]; [|discriminate]. apply D. exact Hin.
Qed.

Lemma kp_of_rows (d : db) (s : sm) eon a : coh (d, s) -> nget (sm_dkg s) eon = Some a -> kp d eon = Some (a_keypers a).
Proof.
  intros Hc Hg. destruct (c_rows _ _ _ _ Hc _ _ Hg) as [er [cr [H1 [H2 [_ H4]]]]]. simpl in *.
  unfold kp. rewrite H1, H2, H4. reflexivity.
Qed.

(* the result vote is queued together with the result row *)
Lemma qinv_result lg (d : db) eon r :
  nget (db_results _ _ _ d) eon = None -> qinv lg d ->
  qinv lg (upd_db_results C E P (schedule C E P d None (MResult eon (rs_success C E r))) (db_results _ _ _ d ++ [(eon, r)])).
Proof.
  intros Hn [A B Cc D].
  set (d2 := upd_db_results C E P (schedule C E P d None (MResult eon (rs_success C E r))) (db_results C E P d ++ [(eon, r)])).
  assert (Hf : fewer_commits lg lg d d2).
  { intros e c H. apply (committed_sched_other lg d None (MResult eon (rs_success C E r))); [intros; discriminate|exact H]. }
  assert (Hk : kp_kept d d2) by (intros e ks H; exact H).
  assert (Hm : forall m0, In m0 (allmsgs lg d2) -> In m0 (allmsgs lg d) \/ m0 = MResult eon (rs_success C E r)).
  { intros m0 H. apply (allmsgs_sched lg d None (MResult eon (rs_success C E r)) m0). exact H. }
  constructor.
  - intros e adr v Hin. eapply ev_ok_mono; [exact Hf|exact Hk|]. apply A. exact Hin.
  - intros e rs vs r0 v Hin Hc. eapply ev_ok_mono; [exact Hf|exact Hk|].
    destruct (Hm _ Hin) as [H|H]; [eapply B; eassumption|discriminate].
  - intros e accs vals Hin. eapply apo_ok_mono; [exact Hf|exact Hk|].
    destruct (Hm _ Hin) as [H|H]; [apply Cc; exact H|discriminate].
  - intros e ok Hin. unfold res_ok, d2. simpl. rewrite (nget_app_none _ _ _ _ Hn).
    destruct (Hm _ Hin) as [H|H].
    + destruct (D _ _ H) as [r0 [H1 H2]]. exists r0. split; [|exact H2].
      destruct (N.eqb eon e) eqn:Q; [apply N.eqb_eq in Q; subst; congruence|exact H1].
    + injection H as -> ->. exists r. rewrite N.eqb_refl. split; reflexivity.
Qed.

Lemma tinv2_mono lg (d d' : db) (s : sm) :
  (forall eon, touched lg d' eon -> touched lg d eon) -> tinv2 lg (d, s) -> tinv2 lg (d', s).
Proof.
  intros Hm [Hoff Hpp]. constructor; simpl in *; [|exact Hpp].
  intros k a Hg Hp Htc. eapply Hoff; [exact Hg|exact Hp|]. apply Hm. exact Htc.
Qed.

Lemma phase_leb_off2 p q : phase_leb p q = true -> q = Off -> p = Off.
Proof. intros H ->. destruct p; simpl in H; try discriminate; reflexivity. Qed.

Lemma prim_qinv lg x y :
  prim x y -> coh x -> tinv lg x -> qinv lg (fst x) -> tinv2 lg x -> qinv lg (fst y) /\ tinv2 lg y.
Proof.
  destruct 1; intros Hcoh Ht Hq Ht2; simpl in *.
  - (* a plain message *)
    split.
    + apply qinv_sched; [intros e c ->; destruct H|intros ? ? ? ? ? ->; destruct H|intros ? ? ? ->; destruct H|intros ? ? ->; destruct H|exact Hq].
    + eapply tinv2_mono; [|exact Ht2]. intros k Htc. apply touched_sched in Htc.
      destruct Htc as [Htc|[[rs [vs [r [v [Hm _]]]]]|[accs [vals Hm]]]]; [exact Htc| |]; subst m; destruct H.
  - (* dealing starts *)
    destruct Ht2 as [Hoff Hpp]. simpl in *.
    assert (Hnt : ~ touched lg d eon) by (eapply Hoff; eassumption).
    split; [apply qinv_deal; assumption|].
    constructor; simpl.
    + intros k a0 Hg Hp Htc. apply touched_sched in Htc.
      destruct Htc as [Htc|[[rs [vs [r [v [Hm _]]]]]|[accs [vals Hm]]]]; try discriminate.
      destruct (N.eq_dec eon k) as [<-|Hne]; [exact (Hnt Htc)|].
      rewrite nget_nins_other in Hg by exact Hne. eapply Hoff; eassumption.
    + intros k a0 p Hg Hp. destruct (N.eq_dec eon k) as [<-|Hne].
      * rewrite nget_nins_same in Hg. injection Hg as <-. simpl. rewrite H1. discriminate.
      * rewrite nget_nins_other in Hg by exact Hne. eapply Hpp; eassumption.
  - (* a poly-eval message from rows *)
    split.
    + apply qinv_sched; try assumption; try (intros; discriminate).
      intros eon0 rs0 vs0 r v Hm Hc. injection Hm as <- <- <-. destruct Hq as [Qr _ _ _]. apply Qr. apply H0. exact Hc.
    + eapply tinv2_mono; [|exact Ht2]. intros k Htc. apply touched_sched in Htc.
      destruct Htc as [Htc|[[rs0 [vs0 [r [v [Hm Hc]]]]]|[accs [vals Hm]]]]; [exact Htc| |discriminate].
      injection Hm as <- <- <-. left. exists r, v. apply H0. exact Hc.
  - (* an apology from the stored polynomial *)
    destruct Ht2 as [Hoff Hpp]. simpl in *. split.
    + apply qinv_sched; try assumption; try (intros; discriminate).
      intros eon0 accs0 vals0 Hm. injection Hm as <- <- <-.
      exists poly, idxs, (a_keypers a). split; [eapply kp_of_rows; eassumption|]. split; [exact H1|]. split; [reflexivity|].
      intros c Hc. destruct Ht as [_ _ Tp _]. eapply Tp; [exact H|exact H0|exact Hc].
    + constructor; simpl; [|exact Hpp]. intros k a0 Hg Hp Htc. apply touched_sched in Htc.
      destruct Htc as [Htc|[[rs0 [vs0 [r [v [Hm Hc]]]]]|[accs0 [vals0 Hm]]]]; [eapply Hoff; eassumption|discriminate|].
      injection Hm as <- _ _. rewrite H in Hg. injection Hg as <-. exact (Hpp _ _ _ H H0 Hp).
  - (* the result vote with its row *)
    subst l. split; [apply qinv_result; assumption|].
    eapply tinv2_mono; [|exact Ht2]. intros k Htc.
    assert (Htc' : touched lg (schedule C E P d None (MResult eon (rs_success C E r))) k) by exact Htc.
    apply touched_sched in Htc'.
    destruct Htc' as [Htc'|[[rs [vs [r0 [v [Hm _]]]]]|[accs [vals Hm]]]]; [exact Htc'|discriminate Hm|discriminate Hm].
  - (* rows leave the outbox *)
    split.
    + eapply qinv_mono; [| | | | |exact Hq].
      * intros e c Hc. exact (committed_filter C E P deg_ok lg d f e c Hc).
      * intros e0 ks0 Hk0; exact Hk0.
      * intros row Hr. exact Hr.
      * intros m0 Hm0. eapply allmsgs_filter. exact Hm0.
      * intros e r0 Hr. exact Hr.
    + eapply tinv2_mono; [|exact Ht2]. intros k Htc. eapply touched_mono; [| |exact Htc].
      * intros row Hr. exact Hr.
      * intros m0 Hm0. eapply allmsgs_filter. exact Hm0.
  - (* a new evaluation row *)
    subst l. destruct Ht2 as [Hoff Hpp]. simpl in *.
    assert (Hnew : ev_ok lg d eon adr (eval_of poly idx)).
    { exists poly, idx, (a_keypers a). split; [eapply kp_of_rows; eassumption|]. split; [exact H2|]. split; [reflexivity|].
      intros c Hc. destruct Ht as [_ _ Tp _]. eapply Tp; [exact H0|exact H1|exact Hc]. }
    split.
    + destruct Hq as [A B Cc D]. constructor; simpl.
      * intros e ad v Hin. apply in_app_or in Hin. destruct Hin as [Hin|[Hin|[]]]; [apply A; exact Hin|].
        injection Hin as <- <- <-. exact Hnew.
      * exact B.
      * exact Cc.
      * exact D.
    + constructor; simpl; [|exact Hpp]. intros k a0 Hg Hp [[ad [v Hin]]|Htc].
      * apply in_app_or in Hin. destruct Hin as [Hin|[Hin|[]]].
        -- eapply Hoff; [exact Hg|exact Hp|]. left. exists ad, v. exact Hin.
        -- injection Hin as <- _ _. rewrite H0 in Hg. injection Hg as <-. exact (Hpp _ _ _ H0 H1 Hp).
      * eapply Hoff; [exact Hg|exact Hp|]. right. exact Htc.
  - (* rows leave poly_evals *)
    subst l. split.
    + eapply qinv_mono; [| | | | |exact Hq].
      * intros e c Hc. exact Hc.
      * intros e0 ks0 Hk0; exact Hk0.
      * simpl. intros row Hr. apply filter_In in Hr. tauto.
      * intros m0 Hm0. exact Hm0.
      * intros e r0 Hr. exact Hr.
    + eapply tinv2_mono; [|exact Ht2]. intros k Htc. eapply touched_mono; [| |exact Htc].
      * simpl. intros row Hr. apply filter_In in Hr. tauto.
      * intros m0 Hm0. exact Hm0.
  - split; [destruct Hq as [A B Cc D]; constructor; assumption|]. destruct Ht2 as [Hoff Hpp]. constructor; assumption.
  - split; [destruct Hq as [A B Cc D]; constructor; assumption|]. destruct Ht2 as [Hoff Hpp]. constructor; assumption.
  - (* a new batch config *)
    subst l. split.
    + eapply qinv_mono; [| | | | |exact Hq].
      * intros e c0 Hc. exact Hc.
      * apply kp_cfg_add. exact H0.
      * intros row Hr. exact Hr.
      * intros m0 Hm0. exact Hm0.
      * intros e r0 Hr. exact Hr.
    + eapply tinv2_mono; [|exact Ht2]. intros k Htc. exact Htc.
  - subst l. split.
    + eapply qinv_mono; [| | | | |exact Hq].
      * intros e c0 Hc. exact Hc.
      * apply kp_cfg_started. exact H0.
      * intros row Hr. exact Hr.
      * intros m0 Hm0. exact Hm0.
      * intros e r0 Hr. exact Hr.
    + eapply tinv2_mono; [|exact Ht2]. intros k Htc. exact Htc.
  - (* a new eon without instance *)
    subst l. split.
    + eapply qinv_mono; [| | | | |exact Hq].
      * intros e c0 Hc. exact Hc.
      * apply kp_eon_add. exact H0.
      * intros row Hr. exact Hr.
      * intros m0 Hm0. exact Hm0.
      * intros e r0 Hr. exact Hr.
    + eapply tinv2_mono; [|exact Ht2]. intros k Htc. exact Htc.
  - (* a new eon with its instance *)
    subst l. destruct Ht2 as [Hoff Hpp]. simpl in *. split.
    + eapply qinv_mono; [| | | | |exact Hq].
      * intros e c0 Hc. exact Hc.
      * apply kp_eon_add. exact H0.
      * intros row Hr. exact Hr.
      * intros m0 Hm0. exact Hm0.
      * intros e r0 Hr. exact Hr.
    + constructor; simpl.
      * intros k a0 Hg Hp Htc.
        assert (Htc' : touched lg d k) by (eapply touched_mono; [| |exact Htc]; [intros row Hr; exact Hr|intros m0 Hm0; exact Hm0]).
        destruct (N.eq_dec eon k) as [<-|Hne].
        -- apply (touched_kp _ _ _ Hq Htc'). unfold kp. rewrite H0. reflexivity.
        -- rewrite nget_nins_other in Hg by exact Hne. eapply Hoff; eassumption.
      * intros k a0 p Hg Hp. destruct (N.eq_dec eon k) as [<-|Hne].
        -- rewrite nget_nins_same in Hg. injection Hg as <-. congruence.
        -- rewrite nget_nins_other in Hg by exact Hne. eapply Hpp; eassumption.
  - split; [exact Hq|]. destruct Ht2 as [Hoff Hpp]. constructor; simpl in *; assumption.
  - (* an entry is updated *)
    split; [exact Hq|]. destruct Ht2 as [Hoff Hpp]. simpl in *. constructor; simpl.
    + intros k a0 Hg Hp Htc. destruct (N.eq_dec eon k) as [<-|Hne].
      * rewrite nget_nins_same in Hg. injection Hg as <-. simpl in Hp.
        eapply Hoff; [exact H|eapply phase_leb_off2; eassumption|exact Htc].
      * rewrite nget_nins_other in Hg by exact Hne. eapply Hoff; eassumption.
    + intros k a0 p Hg Hp. destruct (N.eq_dec eon k) as [<-|Hne].
      * rewrite nget_nins_same in Hg. injection Hg as <-. simpl in *. rewrite H0 in Hp.
        intros Hoff'. apply (Hpp _ _ _ H Hp). eapply phase_leb_off2; eassumption.
      * rewrite nget_nins_other in Hg by exact Hne. eapply Hpp; eassumption.
  - (* finalisation *)
    split.
    + destruct Hq as [A B Cc D]. constructor; assumption.
    + destruct Ht2 as [Hoff Hpp]. simpl in *. constructor; simpl.
      * intros k a0 Hg Hp Htc. destruct (N.eq_dec eon k) as [<-|Hne]; [rewrite nget_ndel_same in Hg; discriminate|].
        rewrite nget_ndel_other in Hg by exact Hne. eapply Hoff; eassumption.
      * intros k a0 p Hg Hp. destruct (N.eq_dec eon k) as [<-|Hne]; [rewrite nget_ndel_same in Hg; discriminate|].
        rewrite nget_ndel_other in Hg by exact Hne. eapply Hpp; eassumption.
Qed.

Lemma evolves_qinv lg x y :
  evolves x y -> coh x -> tinv lg x -> qinv lg (fst x) -> tinv2 lg x -> qinv lg (fst y) /\ tinv2 lg y.
Proof.
  induction 1; intros Hc Ht Hq Ht2; [split; assumption|].
  destruct (prim_qinv lg _ _ H Hc Ht Hq Ht2) as [Hq1 Ht21].
  apply IHevolves; [eapply prim_coh; eassumption|eapply prim_tinv; eassumption|exact Hq1|exact Ht21].
Qed.

(* the consistency statements only read poly_evals, the outbox, eons, batch configs, results *)
Lemma qinv_frame lg (d d' : db) :
  db_evals _ _ _ d' = db_evals _ _ _ d -> db_outbox _ _ _ d' = db_outbox _ _ _ d ->
  db_eons _ _ _ d' = db_eons _ _ _ d -> db_cfgs _ _ _ d' = db_cfgs _ _ _ d ->
  db_results _ _ _ d' = db_results _ _ _ d -> qinv lg d -> qinv lg d'.
Proof.
  intros H1 H2 H3 H4 H5. apply qinv_mono.
  - intros e c. unfold OutboxMsgs.committed, OutboxMsgs.allmsgs, OutboxMsgs.qmsgs. rewrite H2. tauto.
  - intros e ks. rewrite (kp_frame d d' H3 H4). tauto.
  - intros row. rewrite H1. tauto.
  - intros m0. unfold OutboxMsgs.allmsgs, OutboxMsgs.qmsgs. rewrite H2. tauto.
  - intros e r. rewrite H5. tauto.
Qed.

Lemma touched_frame lg (d d' : db) eon :
  db_evals _ _ _ d' = db_evals _ _ _ d -> db_outbox _ _ _ d' = db_outbox _ _ _ d ->
  touched lg d' eon -> touched lg d eon.
Proof.
  intros H1 H2. apply touched_mono.
  - intros row. rewrite H1. tauto.
  - intros m0. unfold OutboxMsgs.allmsgs, OutboxMsgs.qmsgs. rewrite H2. tauto.
Qed.

Lemma binv2_tinv2_clean lg (d : db) (s : sm) :
  coh (d, s) -> all_clean s -> binv2 lg d -> tinv2 lg (d, s).
Proof.
  intros [Hc Ha Hr Hs] Hcl [A B]. simpl in *. constructor; simpl.
  - intros eon a Hg Hp. eapply A; [apply Hc; [exact Hg|exact (Hcl _ _ Hg)]|exact Hp].
  - intros eon a p Hg Hp. eapply B; [apply Hc; [exact Hg|exact (Hcl _ _ Hg)]|exact Hp].
Qed.

Lemma tinv2_binv2_clean lg (d : db) (s : sm) :
  coh (d, s) -> all_clean s -> tinv2 lg (d, s) -> binv2 lg d.
Proof.
  intros [Hc Ha Hr Hs] Hcl [A B]. simpl in *. constructor.
  - intros eon pu Hg Hp. destruct (nget (sm_dkg s) eon) as [a|] eqn:Q.
    + pose proof (Hc _ _ Q (Hcl _ _ Q)) as Hx. rewrite Hg in Hx. injection Hx as ->. eapply A; eassumption.
    + rewrite (Ha _ Q) in Hg. discriminate.
  - intros eon pu p Hg Hp. destruct (nget (sm_dkg s) eon) as [a|] eqn:Q.
    + pose proof (Hc _ _ Q (Hcl _ _ Q)) as Hx. rewrite Hg in Hx. injection Hx as ->. eapply B; eassumption.
    + rewrite (Ha _ Q) in Hg. discriminate.
Qed.

Lemma save_all_frame2 l : forall d : db,
  db_outbox _ _ _ (save_all C E P d l) = db_outbox _ _ _ d /\ db_eons _ _ _ (save_all C E P d l) = db_eons _ _ _ d /\
  db_cfgs _ _ _ (save_all C E P d l) = db_cfgs _ _ _ d /\ db_evals _ _ _ (save_all C E P d l) = db_evals _ _ _ d /\
  db_results _ _ _ (save_all C E P d l) = db_results _ _ _ d.
Proof.
  induction l as [|[eon a] r IH]; simpl; intros d; [repeat split|].
  destruct (a_dirty a); [|apply IH].
  destruct (IH (upd_db_pure C E P d (nset (db_pure C E P d) eon (a_pure a)))) as [A1 [A2 [A3 [A4 A5]]]]. repeat split; assumption.
Qed.

Lemma handle_block_qinv lg poly (d : db) (s : sm) blk lch d' s' :
  handle_block poly (d, s) blk lch = TOk (d', s') ->
  binv lg d -> qinv lg d -> binv2 lg d -> (sm_sync s = true -> coh (d, s) /\ all_clean s) ->
  qinv lg d' /\ binv2 lg d'.
Proof.
  intros Hrun Hb Hq Hb2 Hg.
  destruct (handle_block_good C E P commit_of eval_of verify deg_ok valid_eval me L enum Henum poly (d, s) blk lch (d', s') Hrun Hg)
    as [Hc' [Hcl' _]].
  unfold DKGDriver.handle_block in Hrun.
  destruct (load C E P d s) as [s1| |] eqn:Hload; simpl in Hrun; try discriminate.
  assert (H1 : coh (d, s1) /\ all_clean s1).
  { destruct (sm_sync s) eqn:Hs.
    - unfold load in Hload. rewrite Hs in Hload. injection Hload as <-. apply Hg. reflexivity.
    - destruct (load_coh C E P d s s1 Hs Hload) as [A [B _]]. split; assumption. }
  destruct H1 as [Hc1 Hcl1].
  destruct (negb _); [discriminate|].
  destruct (shift_phases _ _ _ _ _ _ _ _ _ _ _ _) as [x2| |] eqn:Hsh; simpl in Hrun; try discriminate.
  destruct (handle_events _ _ _ _ _ _ _ _ _ _ _ _ _ _) as [x3| |] eqn:He; simpl in Hrun; try discriminate.
  injection Hrun as Hd' Hs'.
  unfold shift_phases in Hsh. apply shift_all_evolves in Hsh. apply handle_events_evolves in He.
  pose proof (send_poly_evals_evolves C E P commit_of eval_of (fst x3) (snd x3)) as Hp.
  set (d0 := upd_db_sync C E P d (fst blk) lch blk) in *.
  assert (Hc0 : coh (d0, s1)) by (eapply coh_frame; [| | |exact Hc1]; reflexivity).
  assert (Ht0 : tinv lg (d0, s1)).
  { eapply tinv_frame with (d := d); [reflexivity|reflexivity|]. apply binv_tinv_clean; assumption. }
  assert (Hq0 : qinv lg d0) by (eapply qinv_frame; [| | | | |exact Hq]; reflexivity).
  assert (Ht20 : tinv2 lg (d0, s1)).
  { eapply tinv2_mono with (d := d); [|apply binv2_tinv2_clean; assumption].
    intros eon. apply touched_frame; reflexivity. }
  assert (Hall : evolves (d0, s1) (send_poly_evals C E P (fst x3), snd x3)).
  { eapply ev_trans; [exact Hsh|]. eapply ev_trans; [exact He|]. destruct x3; exact Hp. }
  destruct (evolves_qinv lg _ _ Hall Hc0 Ht0 Hq0 Ht20) as [Hq3 Ht23]. simpl in Hq3.
  destruct (save_all_frame2 (enum (sm_dkg (snd x3))) (send_poly_evals C E P (fst x3))) as [So [Se [Sc [Sv Sr]]]].
  assert (Hq4 : qinv lg d').
  { subst d'. simpl. eapply qinv_frame; [exact Sv|exact So|exact Se|exact Sc|exact Sr|exact Hq3]. }
  split; [exact Hq4|].
  assert (Ht24 : tinv2 lg (d', s')).
  { subst d' s'. destruct Ht23 as [A B]. simpl in *. constructor; simpl.
    - intros eon a Hg0. rewrite nget_clean in Hg0. destruct (nget (sm_dkg (snd x3)) eon) as [a0|] eqn:Q; simpl in Hg0; [|discriminate].
      injection Hg0 as <-. simpl. intros Hp0 Htc. eapply A; [exact Q|exact Hp0|].
      eapply touched_frame; [exact Sv|exact So|exact Htc].
    - intros eon a p Hg0. rewrite nget_clean in Hg0. destruct (nget (sm_dkg (snd x3)) eon) as [a0|] eqn:Q; simpl in Hg0; [|discriminate].
      injection Hg0 as <-. simpl. apply (B eon a0 p Q). }
  eapply tinv2_binv2_clean; eassumption.
Qed.

Definition winv2 (w : world) : Prop :=
  winv C E P commit_of w /\ qinv (w_log w) (o_db (w_o w)) /\ binv2 (w_log w) (o_db (w_o w)).

Lemma binv2_mono lg lg' (d d' : db) :
  (forall eon, touched lg' d' eon -> touched lg d eon) -> db_pure _ _ _ d' = db_pure _ _ _ d ->
  binv2 lg d -> binv2 lg' d'.
Proof.
  intros Hm Hp [A B]. constructor; rewrite Hp.
  - intros eon pu Hg Hph Htc. eapply A; [exact Hg|exact Hph|]. apply Hm. exact Htc.
  - exact B.
Qed.

Lemma on_chain_effect ksets o l1 o' :
  on_chain C E P me delta ksets o l1 = TOk o' ->
  db_evals _ _ _ (o_db o') = db_evals _ _ _ (o_db o) /\ db_results _ _ _ (o_db o') = db_results _ _ _ (o_db o) /\
  (forall m0, In m0 (OutboxMsgs.qmsgs C E P (o_db o')) -> In m0 (OutboxMsgs.qmsgs C E P (o_db o)) \/ plain C E m0).
Proof.
  assert (Hs : forall (d : db) desc (m : msg) m0, plain C E m ->
             In m0 (OutboxMsgs.qmsgs C E P (schedule C E P d desc m)) -> In m0 (OutboxMsgs.qmsgs C E P d) \/ plain C E m0).
  { intros d desc m m0 Hm. unfold OutboxMsgs.qmsgs. simpl. rewrite map_app, in_app_iff. simpl.
    intros [H|[H|[]]]; [left; exact H|right; subst; exact Hm]. }
  unfold on_chain. destruct (keyper_set_changes _ _ _ _ _ _ _) as [o1| |] eqn:Hk; simpl; try discriminate.
  intros [= <-].
  assert (H1 : db_evals C E P (o_db o1) = db_evals C E P (o_db o) /\ db_results C E P (o_db o1) = db_results C E P (o_db o) /\
               (forall m0, In m0 (OutboxMsgs.qmsgs C E P (o_db o1)) -> In m0 (OutboxMsgs.qmsgs C E P (o_db o)) \/ plain C E m0)).
  { revert Hk. unfold keyper_set_changes. destruct (latest_cfg _) as [latest|]; [|intros [= <-]; repeat split; auto].
    destruct (zget ksets _) as [ks|]; [|intros [= <-]; repeat split; auto].
    destruct (invalid_set _ _ _); [intros [= <-]; repeat split; auto|].
    destruct (ks_act ks <? 0); [discriminate|].
    destruct (_ && _); intros [= <-]; [repeat split; auto|]. simpl. repeat split.
    intros m0. apply Hs. exact I. }
  destruct H1 as [E1 [R1 M1]]. unfold block_seen. destruct (Nat.eqb _ 0); [repeat split; assumption|].
  simpl. repeat split; try assumption.
  intros m0 Hin. apply Hs in Hin; [|exact I]. destruct Hin as [Hin|Hin]; [apply M1; exact Hin|right; exact Hin].
Qed.

Lemma step_winv2 w o w' : step w o = Some w' -> winv2 w -> winv2 w'.
Proof.
  intros Hs [Hw [Hq Hb2]].
  assert (Hw' : winv C E P commit_of w') by (eapply step_winv; eassumption).
  split; [exact Hw'|]. destruct Hw as [Hb Hg].
  destruct o as [blk lch poly commit|ksets l1 commit|r|commit|]; unfold Outbox.step in Hs.
  - destruct commit; [|injection Hs as <-; split; assumption].
    destruct (handle_block poly (o_db (w_o w), w_sm w) blk lch) as [[d' s']| |] eqn:Hrun; try discriminate.
    injection Hs as <-. simpl. eapply handle_block_qinv; eassumption.
  - destruct commit; [|injection Hs as <-; split; assumption].
    destruct (on_chain _ _ _ _ _ _ _ _) as [o'| |] eqn:Ho; try discriminate. injection Hs as <-. simpl.
    destruct (on_chain_frame C E P me delta _ _ _ _ Ho) as [F1 [F2 F3]].
    destruct (on_chain_effect _ _ _ _ Ho) as [E1 [R1 M1]].
    assert (Hm : forall m0, In m0 (allmsgs (w_log w) (o_db o')) -> In m0 (allmsgs (w_log w) (o_db (w_o w))) \/ plain C E m0).
    { intros m0. unfold OutboxMsgs.allmsgs. rewrite !in_app_iff. intros [H|H]; [left; left; exact H|].
      destruct (M1 _ H) as [H'|H']; [left; right; exact H'|right; exact H']. }
    assert (Hf : fewer_commits (w_log w) (w_log w) (o_db (w_o w)) (o_db o')).
    { intros e c Hc. destruct (Hm _ Hc) as [H|H]; [exact H|destruct H]. }
    assert (Hk : kp_kept (o_db (w_o w)) (o_db o')) by (intros e ks; rewrite (kp_frame _ _ F2 F3); tauto).
    split.
    + destruct Hq as [A B Cc D]. constructor.
      * intros e adr v Hin. rewrite E1 in Hin. eapply ev_ok_mono; [exact Hf|exact Hk|]. apply A. exact Hin.
      * intros e rs vs r0 v Hin Hc. eapply ev_ok_mono; [exact Hf|exact Hk|].
        destruct (Hm _ Hin) as [H|H]; [eapply B; eassumption|destruct H].
      * intros e accs vals Hin. eapply apo_ok_mono; [exact Hf|exact Hk|].
        destruct (Hm _ Hin) as [H|H]; [apply Cc; exact H|destruct H].
      * intros e ok Hin. destruct (Hm _ Hin) as [H|H]; [|destruct H].
        destruct (D _ _ H) as [r0 [H1 H2]]. exists r0. rewrite R1. split; assumption.
    + eapply binv2_mono; [|exact F1|exact Hb2]. intros e [[adr [v H]]|[[rs [vs [r0 [v [H H']]]]]|[accs [vals H]]]].
      * left. exists adr, v. rewrite E1 in H. exact H.
      * right. left. exists rs, vs, r0, v. split; [|exact H']. destruct (Hm _ H) as [H0|H0]; [exact H0|destruct H0].
      * right. right. exists accs, vals. destruct (Hm _ H) as [H0|H0]; [exact H0|destruct H0].
  - unfold head in Hs. destruct (db_outbox C E P (o_db (w_o w))) as [|[id [ds m]] rest] eqn:Hout; [injection Hs as <-; split; assumption|].
    assert (Hadd : forall a, qinv (w_log w ++ [(id, m, a)]) (o_db (w_o w)) /\ binv2 (w_log w ++ [(id, m, a)]) (o_db (w_o w))).
    { intros a.
      assert (Hm : forall m0, In m0 (allmsgs (w_log w ++ [(id, m, a)]) (o_db (w_o w))) -> In m0 (allmsgs (w_log w) (o_db (w_o w)))).
      { intros m0. unfold OutboxMsgs.allmsgs, OutboxMsgs.lmsgs, OutboxMsgs.qmsgs. rewrite map_app. simpl. rewrite !in_app_iff. simpl.
        intros [[H|[H|[]]]|H]; [left; exact H| |right; exact H]. right. rewrite Hout. simpl. left. exact H. }
      split.
      - eapply qinv_mono; [| | | | |exact Hq].
        + intros e c Hc. apply Hm. exact Hc.
        + intros e ks Hk. exact Hk.
        + intros row Hr. exact Hr.
        + exact Hm.
        + intros e r0 Hr. exact Hr.
      - eapply binv2_mono; [|reflexivity|exact Hb2]. intros e. apply touched_mono; [intros row Hr; exact Hr|exact Hm]. }
    destruct r; injection Hs as <-; simpl; [apply Hadd|apply Hadd|split; assumption].
  - destruct commit; [|injection Hs as <-; split; assumption].
    unfold head in Hs. destruct (db_outbox C E P (o_db (w_o w))) as [|[id x] rest] eqn:Hout; injection Hs as <-; [split; assumption|].
    simpl.
    assert (Hm : forall m0, In m0 (allmsgs (w_log w) (delete_id C E P (o_db (w_o w)) id)) -> In m0 (allmsgs (w_log w) (o_db (w_o w)))).
    { intros m0. unfold delete_id. apply allmsgs_filter. }
    split.
    + eapply qinv_mono with (d := o_db (w_o w)); [| | | | |exact Hq].
      * intros e c Hc. apply Hm. exact Hc.
      * intros e ks Hk. exact Hk.
      * intros row Hr. exact Hr.
      * exact Hm.
      * intros e r0 Hr. exact Hr.
    + eapply binv2_mono with (d := o_db (w_o w)); [|reflexivity|exact Hb2].
      intros e. apply touched_mono; [intros row Hr; exact Hr|exact Hm].
  - injection Hs as <-. split; assumption.
Qed.

Lemma run_winv2 ops : forall w w', run w ops = Some w' -> winv2 w -> winv2 w'.
Proof.
  induction ops as [|o r IH]; simpl; intros w w' Hr Hi.
  - injection Hr as <-. exact Hi.
  - destruct (step w o) as [w1|] eqn:Hs; [|discriminate]. eapply IH; [exact Hr|]. eapply step_winv2; eassumption.
Qed.

Lemma init_winv2 : winv2 (world_init C E P).
Proof.
  split; [apply init_winv|]. split.
  - constructor; unfold OutboxMsgs.allmsgs; simpl; intros; contradiction.
  - constructor; simpl; intros; discriminate.
Qed.

(* C08_outbox_consistent *)
Theorem outbox_consistent ops w :
  run (world_init C E P) ops = Some w -> qinv (w_log w) (o_db (w_o w)).
Proof. intros Hr. exact (proj1 (proj2 (run_winv2 _ _ _ Hr init_winv2))). Qed.

End Msgs2.
