(* C02, state-level facts about Model.ServiceTrigger: what a trigger emitted on a database
   says about that database (for every database, every volatile state, every enumeration of
   the Go maps), and what a produced key share message says. *)
From Coq Require Import List NArith ZArith Bool Lia Permutation Sorted.
From Verif Require Import Lib.Bytes Lib.Assoc Lib.Sorting Model.ServiceTrigger Proofs.ServiceTriggerSpec.
Import ListNotations.
Open Scope Z_scope.

(* ------------------------------------------------------------------------------------- *)
(* integers *)

Lemma to_i64_u64 x : to_i64 (u64 x) = to_i64 x.
Proof. unfold to_i64, u64. rewrite Z.mod_mod by lia. reflexivity. Qed.

Lemma to_i64_small x : 0 <= x < 2^63 -> to_i64 x = x.
Proof.
  intros H. unfold to_i64. rewrite Z.mod_small by lia.
  destruct (x <? 2^63) eqn:E; [reflexivity|]. apply Z.ltb_ge in E. lia.
Qed.

Lemma to_i32_small x : - 2^31 <= x < 2^31 -> to_i32 x = x.
Proof.
  intros H. unfold to_i32.
  destruct (Z_lt_dec x 0) as [Hn|Hn].
  - replace (x mod 2^32) with (x + 2^32).
    + destruct (x + 2^32 <? 2^31) eqn:E; [apply Z.ltb_lt in E; lia|lia].
    + apply Z.mod_unique with (q := -1); lia.
  - rewrite Z.mod_small by lia. destruct (x <? 2^31) eqn:E; [reflexivity|]. apply Z.ltb_ge in E. lia.
Qed.

(* ------------------------------------------------------------------------------------- *)
(* queries *)

Lemma latest_eon_from_spec l idx : forall best,
  (forall b, best = Some b -> eo_cfg b = idx) ->
  match latest_eon_from best l idx with
  | None => best = None /\ forall e, In e l -> eo_cfg e <> idx
  | Some r =>
      (best = Some r \/ In r l) /\ eo_cfg r = idx /\
      (forall b, best = Some b -> eo_eon b <= eo_eon r) /\
      (forall e, In e l -> eo_cfg e = idx -> eo_eon e <= eo_eon r)
  end.
Proof.
  induction l as [|e rest IH]; intros best Hb; simpl.
  - destruct best as [b|]; [|split; [reflexivity|intros ? []]].
    split; [left; reflexivity|]. split; [apply Hb; reflexivity|].
    split; [intros b' [= ->]; lia|intros ? []].
  - destruct (eo_cfg e =? idx) eqn:Ec.
    + apply Z.eqb_eq in Ec.
      destruct best as [b|].
      * destruct (eo_eon b <? eo_eon e) eqn:El.
        -- apply Z.ltb_lt in El.
           specialize (IH (Some e)).
           assert (Hb' : forall b0, Some e = Some b0 -> eo_cfg b0 = idx) by (intros ? [= <-]; exact Ec).
           specialize (IH Hb').
           destruct (latest_eon_from (Some e) rest idx) as [r|].
           ++ destruct IH as (Hin & Hc & Hbest & Hall).
              split; [destruct Hin as [[= <-]|Hin]; right; [left; reflexivity|right; exact Hin]|].
              split; [exact Hc|].
              specialize (Hbest e eq_refl).
              split; [intros b' [= <-]; lia|].
              intros e' [<-|Hin'] Hc'; [exact Hbest|apply Hall; assumption].
           ++ destruct IH as [IH _]. discriminate.
        -- apply Z.ltb_ge in El.
           specialize (IH (Some b) Hb).
           destruct (latest_eon_from (Some b) rest idx) as [r|].
           ++ destruct IH as (Hin & Hc & Hbest & Hall).
              split; [destruct Hin as [Hin|Hin]; [left; exact Hin|right; right; exact Hin]|].
              split; [exact Hc|]. split; [exact Hbest|].
              specialize (Hbest b eq_refl).
              intros e' [<-|Hin'] Hc'; [lia|apply Hall; assumption].
           ++ destruct IH as [IH _]. discriminate.
      * specialize (IH (Some e)).
        assert (Hb' : forall b0, Some e = Some b0 -> eo_cfg b0 = idx) by (intros ? [= <-]; exact Ec).
        specialize (IH Hb').
        destruct (latest_eon_from (Some e) rest idx) as [r|].
        -- destruct IH as (Hin & Hc & Hbest & Hall).
           split; [destruct Hin as [[= <-]|Hin]; right; [left; reflexivity|right; exact Hin]|].
           split; [exact Hc|]. split; [intros ? [=]|].
           specialize (Hbest e eq_refl).
           intros e' [<-|Hin'] Hc'; [exact Hbest|apply Hall; assumption].
        -- destruct IH as [IH _]. discriminate.
    + apply Z.eqb_neq in Ec.
      specialize (IH best Hb).
      destruct (latest_eon_from best rest idx) as [r|].
      * destruct IH as (Hin & Hc & Hbest & Hall).
        split; [destruct Hin as [Hin|Hin]; [left; exact Hin|right; right; exact Hin]|].
        split; [exact Hc|]. split; [exact Hbest|].
        intros e' [<-|Hin'] Hc'; [contradiction|apply Hall; assumption].
      * destruct IH as [IH1 IH2]. split; [exact IH1|].
        intros e' [<-|Hin']; [exact Ec|apply IH2; exact Hin'].
Qed.

Lemma latest_eon_some d idx e :
  latest_eon d idx = Some e ->
  In e (eons d) /\ eo_cfg e = idx /\
  forall e', In e' (eons d) -> eo_cfg e' = idx -> eo_eon e' <= eo_eon e.
Proof.
  unfold latest_eon. intros H.
  pose proof (latest_eon_from_spec (eons d) idx None) as S.
  rewrite H in S. destruct S as (Hin & Hc & _ & Hall); [intros ? [=]|].
  destruct Hin as [[=]|Hin]. auto.
Qed.

Lemma index_of_in l a : forall i k, index_of l a i = Some k -> In a l.
Proof.
  induction l as [|x rest IH]; simpl; intros i k H; [discriminate|].
  destruct (bytes_eqb x a) eqn:E.
  - apply bytes_eqb_eq in E. left. exact E.
  - right. eapply IH. exact H.
Qed.

Lemma index_of_nth l a : forall i k, index_of l a i = Some k ->
  i <= k /\ nth_error l (Z.to_nat (k - i)) = Some a.
Proof.
  induction l as [|x rest IH]; simpl; intros i k H; [discriminate|].
  destruct (bytes_eqb x a) eqn:E.
  - apply bytes_eqb_eq in E. injection H as <-. subst x. rewrite Z.sub_diag. simpl. split; [lia|reflexivity].
  - apply IH in H. destruct H as [Hle Hn]. split; [lia|].
    replace (Z.to_nat (k - i)) with (S (Z.to_nat (k - (i + 1)))) by lia. simpl. exact Hn.
Qed.

Lemma get_keyper_index_member d idx a i :
  get_keyper_index d idx a = KIMember i ->
  exists cf, In cf (cfgs d) /\ cf_index cf = to_i32 idx /\ In a (cf_keypers cf) /\
             0 <= i /\ nth_error (cf_keypers cf) (Z.to_nat i) = Some a.
Proof.
  unfold get_keyper_index. intros H.
  destruct (find (fun c => cf_index c =? to_i32 idx) (cfgs d)) as [cf|] eqn:F; [|discriminate].
  apply find_some in F. destruct F as [Fin Feq]. apply Z.eqb_eq in Feq.
  destruct (index_of (cf_keypers cf) a 0) as [k|] eqn:I; [|discriminate].
  injection H as <-. exists cf.
  pose proof (index_of_in _ _ _ _ I). pose proof (index_of_nth _ _ _ _ I) as [Hle Hn].
  rewrite Z.sub_0_r in Hn. auto 6.
Qed.

Lemma get_dkg_some d eon k : get_dkg d eon = Some k -> In k (dkgs d) /\ dk_eon k = eon.
Proof.
  unfold get_dkg. intros H. apply find_some in H. destruct H as [Hin He].
  apply Z.eqb_eq in He. auto.
Qed.

(* resolveDecryptableEon only answers with an eon the keyper may serve *)
Lemma resolve_sound c d idx e :
  resolve_decryptable_eon c d idx = Some e -> servable c d idx e.
Proof.
  unfold resolve_decryptable_eon, dkg_for_config. intros H.
  destruct (latest_eon d idx) as [e0|] eqn:L; [|discriminate].
  destruct (get_keyper_index d idx (me c)) as [| |i] eqn:K; try discriminate.
  destruct (get_dkg d (eo_eon e0)) as [k|] eqn:G; [|discriminate].
  destruct (dk_success k) eqn:S; [|discriminate].
  injection H as <-.
  apply latest_eon_some in L. destruct L as (Hin & Hc & Hmax).
  apply get_keyper_index_member in K. destruct K as (cf & Hcf & Hidx & Hmem & _).
  apply get_dkg_some in G. destruct G as [Gin Ge].
  unfold servable. repeat split; try assumption.
  - exists cf. auto.
  - exists k. auto.
Qed.

(* ------------------------------------------------------------------------------------- *)
(* sorting and grouping *)

Lemma ts_insert_perm x l : Permutation (ts_insert x l) (x :: l).
Proof.
  induction l as [|y r IH]; simpl; [reflexivity|].
  destruct (ir_timestamp y <? ir_timestamp x); [|reflexivity].
  rewrite IH. apply perm_swap.
Qed.

Lemma ts_sort_perm l : Permutation (ts_sort l) l.
Proof.
  induction l as [|x r IH]; simpl; [reflexivity|].
  rewrite ts_insert_perm. apply perm_skip. exact IH.
Qed.

Lemma ts_sort_in x l : In x (ts_sort l) <-> In x l.
Proof.
  split; intros H.
  - eapply Permutation_in; [apply ts_sort_perm|exact H].
  - eapply Permutation_in; [apply Permutation_sym, ts_sort_perm|exact H].
Qed.

Lemma window_rows_in d lo hi r :
  In r (window_rows d lo hi) ->
  In r (irs d) /\ lo <= ir_timestamp r <= hi /\ ir_decrypted r = false.
Proof.
  unfold window_rows. rewrite ts_sort_in, filter_In.
  intros [Hin Hp]. apply andb_prop in Hp. destruct Hp as [Hp Hd].
  apply andb_prop in Hp. destruct Hp as [Hlo Hhi].
  apply Z.leb_le in Hlo. apply Z.leb_le in Hhi. apply negb_true_iff in Hd. auto.
Qed.

Lemma sort_ids_perm l : Permutation (sort_ids l) l.
Proof.
  unfold sort_ids.
  transitivity (map fst (map (fun b : bytes => (b, tt)) l)).
  - apply Permutation_map. apply ksort_perm.
  - rewrite map_map. simpl. rewrite map_id. reflexivity.
Qed.

Lemma sort_ids_in x l : In x (sort_ids l) <-> In x l.
Proof.
  split; intros H.
  - eapply Permutation_in; [apply sort_ids_perm|exact H].
  - eapply Permutation_in; [apply Permutation_sym, sort_ids_perm|exact H].
Qed.

Lemma sorted_map_fst (l : list (bytes * unit)) : Sorted klt l -> Sorted bytes_lt (map fst l).
Proof.
  induction 1 as [|a l Hs IH Hh]; simpl; constructor; [exact IH|].
  destruct Hh as [|b l' Hab]; simpl; constructor. exact Hab.
Qed.

Lemma sort_ids_sorted l : NoDup l -> Sorted bytes_lt (sort_ids l).
Proof.
  intros H. unfold sort_ids. apply sorted_map_fst. apply ksort_sorted.
  rewrite map_map. simpl. rewrite map_id. exact H.
Qed.

Lemma zget_group_add m k act id k' :
  zget (group_add m k act id) k' =
  if k' =? k then match zget m k with
                  | Some (a, ids) => Some (a, ids ++ [id])
                  | None => Some (act, [id])
                  end
  else zget m k'.
Proof.
  induction m as [|[k0 [a ids]] rest IH]; simpl.
  - rewrite (Z.eqb_sym k k'). reflexivity.
  - destruct (k0 =? k) eqn:E0; simpl.
    + apply Z.eqb_eq in E0. subst k0.
      destruct (k' =? k) eqn:E1.
      * apply Z.eqb_eq in E1. subst k'. rewrite Z.eqb_refl. reflexivity.
      * rewrite (Z.eqb_sym k k'), E1. reflexivity.
    + destruct (k0 =? k') eqn:E2.
      * apply Z.eqb_eq in E2. subst k'. rewrite E0. reflexivity.
      * exact IH.
Qed.

Lemma group_add_keys m k act id :
  map fst (group_add m k act id) = if existsb (fun x => x =? k) (map fst m) then map fst m else map fst m ++ [k].
Proof.
  induction m as [|[k0 [a ids]] rest IH]; simpl; [reflexivity|].
  destruct (k0 =? k) eqn:E; simpl; [reflexivity|].
  rewrite IH. destruct (existsb (fun x => x =? k) (map fst rest)); reflexivity.
Qed.

Lemma zget_ev_group_add m k id k' :
  zget (ev_group_add m k id) k' =
  if k' =? k then match zget m k with
                  | Some ids => Some (ids ++ [id])
                  | None => Some [id]
                  end
  else zget m k'.
Proof.
  induction m as [|[k0 ids] rest IH]; simpl.
  - rewrite (Z.eqb_sym k k'). reflexivity.
  - destruct (k0 =? k) eqn:E0; simpl.
    + apply Z.eqb_eq in E0. subst k0.
      destruct (k' =? k) eqn:E1.
      * apply Z.eqb_eq in E1. subst k'. rewrite Z.eqb_refl. reflexivity.
      * rewrite (Z.eqb_sym k k'), E1. reflexivity.
    + destruct (k0 =? k') eqn:E2.
      * apply Z.eqb_eq in E2. subst k'. rewrite E0. reflexivity.
      * exact IH.
Qed.

(* ------------------------------------------------------------------------------------- *)
(* time based triggers *)

Lemma should_trigger_true c d r number time :
  should_trigger c d r number time = true ->
  exists e, resolve_decryptable_eon c d (ir_eon r) = Some e /\
            eo_activation e <= to_i64 number /\ ir_timestamp r < to_i64 time.
Proof.
  unfold should_trigger. intros H.
  destruct (resolve_decryptable_eon c d (ir_eon r)) as [e|]; [|discriminate].
  destruct (eo_activation e >? to_i64 number) eqn:A; [discriminate|].
  destruct (ir_timestamp r >=? to_i64 time) eqn:T; [discriminate|].
  exists e. split; [reflexivity|]. split.
  - rewrite Z.gtb_ltb in A. apply Z.ltb_ge in A. exact A.
  - rewrite Z.geb_leb in T. apply Z.leb_gt in T. exact T.
Qed.

(* what a group of time_groups holds: identities of rows of the set, all with the activation
   block of the eon resolved for the set *)
Definition time_group_ok (c : config) (d : database) (rows : list ir_row) (m : list (Z * (Z * list bytes))) : Prop :=
  forall k act ids, zget m k = Some (act, ids) ->
    (exists e, resolve_decryptable_eon c d k = Some e /\ act = eo_activation e) /\
    forall id, In id ids -> exists r, In r rows /\ ir_eon r = k /\ ir_identity r = id.

Lemma time_groups_fold_ok c d all rows : forall m,
  (forall r, In r rows -> In r all) ->
  time_group_ok c d all m ->
  time_group_ok c d all
    (fold_left (fun m r => match resolve_decryptable_eon c d (ir_eon r) with
                           | None => m
                           | Some e => group_add m (ir_eon r) (eo_activation e) (ir_identity r)
                           end) rows m).
Proof.
  induction rows as [|r rest IH]; intros m Hsub Hm; simpl; [exact Hm|].
  apply IH; [intros r' Hr'; apply Hsub; right; exact Hr'|].
  destruct (resolve_decryptable_eon c d (ir_eon r)) as [e|] eqn:R; [|exact Hm].
  intros k act ids Hz. rewrite zget_group_add in Hz.
  destruct (k =? ir_eon r) eqn:E.
  - apply Z.eqb_eq in E. subst k.
    destruct (zget m (ir_eon r)) as [[a ids0]|] eqn:Z0.
    + injection Hz as <- <-. destruct (Hm _ _ _ Z0) as [He Hids]. split; [exact He|].
      intros id Hin. apply in_app_or in Hin. destruct Hin as [Hin|[<-|[]]].
      * apply Hids. exact Hin.
      * exists r. split; [apply Hsub; left; reflexivity|auto].
    + injection Hz as <- <-. split; [exists e; auto|].
      intros id [<-|[]]. exists r. split; [apply Hsub; left; reflexivity|auto].
  - apply Hm. exact Hz.
Qed.

Lemma time_groups_ok c d rows : time_group_ok c d rows (time_groups c d rows).
Proof.
  unfold time_groups. apply time_groups_fold_ok; [auto|].
  intros k act ids Hz. discriminate.
Qed.

Lemma emit_time_in groups enum tr :
  In tr (emit_time groups enum) ->
  exists k act ids, zget groups k = Some (act, ids) /\ tr = mkTrig k (u64 act) (sort_ids ids).
Proof.
  unfold emit_time. rewrite in_flat_map. intros (k & _ & Hin).
  destruct (zget groups k) as [[act ids]|] eqn:Z0; [|contradiction].
  destruct Hin as [<-|[]]. exists k, act, ids. auto.
Qed.

(* C02, time part, on any database and volatile state *)
Theorem prepare_time_based_sound c d latest number time enum tr id :
  In tr (snd (prepare_time_based c d latest number time enum)) -> In id (tg_ids tr) ->
  time_justified c d number time tr id.
Proof.
  unfold prepare_time_based.
  destruct (match latest with Some l => time <=? l | None => false end); simpl; [intros []|].
  set (lo := match latest with Some l => to_i64 l | None => 0 end).
  set (rows := window_rows d lo (to_i64 time)).
  set (chosen := filter (fun r => should_trigger c d r number time) rows).
  intros Htr Hid.
  apply emit_time_in in Htr. destruct Htr as (k & act & ids & Hz & ->). simpl in *.
  apply (proj1 (sort_ids_in _ _)) in Hid.
  destruct (time_groups_ok c d chosen _ _ _ Hz) as [(e & He & ->) Hids].
  destruct (Hids _ Hid) as (r & Hr & Hk & Hi).
  unfold chosen in Hr. apply filter_In in Hr. destruct Hr as [Hrows Hst].
  apply window_rows_in in Hrows. destruct Hrows as (Hin & _ & Hdec).
  apply should_trigger_true in Hst. destruct Hst as (e' & He' & Hact & Hts).
  rewrite Hk in He'. rewrite He in He'. injection He' as <-.
  exists r, e. repeat split; try assumption.
  - intros Hrange. rewrite to_i64_small in Hts by exact Hrange. exact Hts.
  - destruct (resolve_sound _ _ _ _ He) as (H1 & _). exact H1.
  - destruct (resolve_sound _ _ _ _ He) as (_ & H2 & _). exact H2.
  - destruct (resolve_sound _ _ _ _ He) as (_ & _ & H3 & _). exact H3.
  - destruct (resolve_sound _ _ _ _ He) as (_ & _ & _ & H4 & _). exact H4.
  - destruct (resolve_sound _ _ _ _ He) as (_ & _ & _ & _ & H5). exact H5.
Qed.

(* ------------------------------------------------------------------------------------- *)
(* event based triggers *)

Lemma et_match_true eon id e : et_match eon id e = true <-> et_eon e = eon /\ et_identity e = id.
Proof.
  unfold et_match. rewrite andb_true_iff, Z.eqb_eq, bytes_eqb_eq. reflexivity.
Qed.

Lemma ft_match_true eon id f : ft_match eon id f = true <-> ft_eon f = eon /\ ft_identity f = id.
Proof.
  unfold ft_match. rewrite andb_true_iff, Z.eqb_eq, bytes_eqb_eq. reflexivity.
Qed.

Lemma existsb_false_forall {A} (p : A -> bool) l : existsb p l = false -> forall x, In x l -> p x = false.
Proof.
  intros H x Hin. destruct (p x) eqn:E; [|reflexivity].
  assert (existsb p l = true) by (apply existsb_exists; exists x; auto). congruence.
Qed.

Lemma undecrypted_fired_in d k id :
  In (k, id) (undecrypted_fired d) ->
  exists f x, In f (fts d) /\ ft_eon f = k /\ ft_identity f = id /\
              In x (ets d) /\ et_eon x = k /\ et_identity x = id /\ et_decrypted x = false /\
              forall x', In x' (ets d) -> et_eon x' = k -> et_identity x' = id -> et_decrypted x' = false.
Proof.
  unfold undecrypted_fired. rewrite in_flat_map. intros (f & Hf & Hin).
  destruct (existsb (fun e => et_match (ft_eon f) (ft_identity f) e && et_decrypted e) (ets d)) eqn:Ex;
    [contradiction|].
  apply in_map_iff in Hin. destruct Hin as (x & Hx & Hxin). injection Hx as <- <-.
  apply filter_In in Hxin. destruct Hxin as [Hxin Hm]. apply et_match_true in Hm. destruct Hm as [Hm1 Hm2].
  pose proof (existsb_false_forall _ _ Ex) as Hall.
  assert (Hund : forall x', In x' (ets d) -> et_eon x' = et_eon x -> et_identity x' = et_identity x -> et_decrypted x' = false).
  { intros x' Hx' He Hi. specialize (Hall x' Hx'). apply andb_false_iff in Hall.
    destruct Hall as [Hall|Hall]; [|exact Hall].
    assert (et_match (ft_eon f) (ft_identity f) x' = true) by (apply et_match_true; split; congruence).
    congruence. }
  exists f, x. repeat split; auto.
Qed.

Lemma event_groups_fold_in rows : forall m all,
  (forall r, In r rows -> In r all) ->
  (forall k ids, zget m k = Some ids -> forall id, In id ids -> In (k, id) all) ->
  forall k ids, zget (fold_left (fun m r => ev_group_add m (fst r) (snd r)) rows m) k = Some ids ->
  forall id, In id ids -> In (k, id) all.
Proof.
  induction rows as [|[k0 id0] rest IH]; intros m all Hsub Hm; simpl; [exact Hm|].
  apply IH; [intros r Hr; apply Hsub; right; exact Hr|].
  intros k ids Hz id Hin. rewrite zget_ev_group_add in Hz.
  destruct (k =? k0) eqn:E.
  - apply Z.eqb_eq in E. subst k.
    destruct (zget m k0) as [ids0|] eqn:Z0; injection Hz as <-.
    + apply in_app_or in Hin. destruct Hin as [Hin|[<-|[]]]; [eapply Hm; eassumption|apply Hsub; left; reflexivity].
    + destruct Hin as [<-|[]]. apply Hsub. left. reflexivity.
  - eapply Hm; eassumption.
Qed.

Lemma event_groups_in rows k ids :
  zget (event_groups rows) k = Some ids -> forall id, In id ids -> In (k, id) rows.
Proof.
  unfold event_groups. apply event_groups_fold_in; [auto|]. intros ? ? Hz. discriminate.
Qed.

(* C02, event part, on any database *)
Theorem prepare_event_based_sound c d enum tr id :
  In tr (prepare_event_based c d enum) -> In id (tg_ids tr) -> event_justified c d tr id.
Proof.
  unfold prepare_event_based. rewrite in_flat_map. intros (k & _ & Hin) Hid.
  destruct (zget (event_groups (undecrypted_fired d)) k) as [ids|] eqn:Z0; [|contradiction].
  destruct ids as [|i0 ids']; [contradiction|].
  destruct (resolve_decryptable_eon c d k) as [e|] eqn:R; [|contradiction].
  destruct Hin as [<-|[]]. simpl in *.
  apply (proj1 (sort_ids_in _ _)) in Hid.
  pose proof (event_groups_in _ _ _ Z0 _ Hid) as Hrow.
  apply undecrypted_fired_in in Hrow.
  destruct Hrow as (f & x & Hf & Hfe & Hfi & Hx & Hxe & Hxi & Hxd & Hall).
  exists f, x, e. repeat split; try assumption; try (apply (resolve_sound _ _ _ _ R)).
Qed.

(* ------------------------------------------------------------------------------------- *)
(* maybeTriggerDecryption *)

Lemma new_block_split c d latest number time et ee :
  new_block c d latest number time et ee =
  (fst (prepare_time_based c d latest number (u64 time) et),
   snd (prepare_time_based c d latest number (u64 time) et)
   ++ (if events_enabled c then prepare_event_based c d ee else [])).
Proof.
  unfold new_block. destruct (prepare_time_based c d latest number (u64 time) et). reflexivity.
Qed.

Lemma time_justified_u64 c d number time tr id :
  time_justified c d number (u64 time) tr id -> time_justified c d number time tr id.
Proof.
  intros (r & e & H1 & H2 & H3 & H4 & H5 & _ & H7 & H8 & H9).
  exists r, e. rewrite to_i64_u64 in H5.
  refine (conj H1 (conj H2 (conj H3 (conj H4 (conj H5 (conj _ (conj H7 (conj H8 H9)))))))).
  intros Hr. rewrite to_i64_small in H5 by exact Hr. exact H5.
Qed.

(* Every identity of every trigger sent while a block is processed is justified by a time
   registration or (event based triggers enabled) by a fired event trigger. *)
Theorem new_block_sound c d latest number time et ee tr id :
  In tr (snd (new_block c d latest number time et ee)) -> In id (tg_ids tr) ->
  time_justified c d number time tr id \/ (events_enabled c = true /\ event_justified c d tr id).
Proof.
  rewrite new_block_split. simpl. intros Hin Hid. apply in_app_or in Hin. destruct Hin as [Hin|Hin].
  - left. apply time_justified_u64. eapply prepare_time_based_sound; eassumption.
  - right. destruct (events_enabled c); [|contradiction]. split; [reflexivity|].
    eapply prepare_event_based_sound; eassumption.
Qed.

(* nothing is sent for a block that is not later than the high-water mark, apart from event
   based triggers *)
Lemma prepare_time_based_early c d l number time enum :
  time <= l -> prepare_time_based c d (Some l) number time enum = (Some l, []).
Proof.
  intros H. unfold prepare_time_based. apply Z.leb_le in H. rewrite H. reflexivity.
Qed.

(* ------------------------------------------------------------------------------------- *)
(* sorted and distinct *)

Lemma NoDup_snoc {A} (l : list A) x : NoDup l -> ~ In x l -> NoDup (l ++ [x]).
Proof.
  intros Hl Hx. eapply Permutation_NoDup; [apply Permutation_cons_append|]. constructor; assumption.
Qed.

Lemma NoDup_map_filter {A B} (f : A -> B) (p : A -> bool) l : NoDup (map f l) -> NoDup (map f (filter p l)).
Proof.
  induction l as [|x r IH]; simpl; intros H; [constructor|].
  inversion H as [|? ? Hn Hd]; subst.
  destruct (p x); simpl; [|apply IH; exact Hd].
  constructor; [|apply IH; exact Hd].
  intros Hin. apply Hn. apply in_map_iff in Hin. destruct Hin as (y & Hy & Hyin).
  apply filter_In in Hyin. apply in_map_iff. exists y. tauto.
Qed.

Definition key2 (r : ir_row) : Z * bytes := (ir_eon r, ir_identity r).

Lemma time_groups_fold_nodup c d rows : forall m seen,
  NoDup (seen ++ map key2 rows) ->
  (forall k a ids, zget m k = Some (a, ids) -> NoDup ids /\ forall id, In id ids -> In (k, id) seen) ->
  forall k a ids,
    zget (fold_left (fun m r => match resolve_decryptable_eon c d (ir_eon r) with
                                | None => m
                                | Some e => group_add m (ir_eon r) (eo_activation e) (ir_identity r)
                                end) rows m) k = Some (a, ids) -> NoDup ids.
Proof.
  induction rows as [|r rest IH]; intros m seen Hnd Hm; simpl.
  - intros k a ids Hz. apply (Hm _ _ _ Hz).
  - simpl in Hnd.
    apply IH with (seen := seen ++ [key2 r]).
    + rewrite <- app_assoc. simpl. exact Hnd.
    + assert (Hnew : ~ In (key2 r) seen).
      { apply NoDup_remove_2 in Hnd. intros Hc. apply Hnd. apply in_or_app. left. exact Hc. }
      destruct (resolve_decryptable_eon c d (ir_eon r)) as [e|].
      * intros k a ids Hz. rewrite zget_group_add in Hz.
        destruct (k =? ir_eon r) eqn:E.
        -- apply Z.eqb_eq in E. subst k.
           destruct (zget m (ir_eon r)) as [[a0 ids0]|] eqn:Z0; injection Hz as <- <-.
           ++ destruct (Hm _ _ _ Z0) as [Hnd0 Hin0]. split.
              ** apply NoDup_snoc; [exact Hnd0|]. intros Hc. apply Hnew. apply Hin0. exact Hc.
              ** intros id Hin. apply in_or_app. apply in_app_or in Hin.
                 destruct Hin as [Hin|[<-|[]]]; [left; apply Hin0; exact Hin|right; left; reflexivity].
           ++ split; [constructor; [intros []|constructor]|].
              intros id [<-|[]]. apply in_or_app. right. left. reflexivity.
        -- destruct (Hm _ _ _ Hz) as [Hnd0 Hin0]. split; [exact Hnd0|].
           intros id Hin. apply in_or_app. left. apply Hin0. exact Hin.
      * intros k a ids Hz. destruct (Hm _ _ _ Hz) as [Hnd0 Hin0]. split; [exact Hnd0|].
        intros id Hin. apply in_or_app. left. apply Hin0. exact Hin.
Qed.

Theorem prepare_time_based_sorted c d latest number time enum tr :
  time_ids_distinct d ->
  In tr (snd (prepare_time_based c d latest number time enum)) -> Sorted bytes_lt (tg_ids tr).
Proof.
  intros Hd. unfold prepare_time_based.
  destruct (match latest with Some l => time <=? l | None => false end); simpl; [intros []|].
  intros Htr. apply emit_time_in in Htr. destruct Htr as (k & act & ids & Hz & ->). simpl.
  apply sort_ids_sorted.
  unfold time_groups in Hz.
  eapply time_groups_fold_nodup with (seen := []); [| |exact Hz].
  - simpl. apply NoDup_map_filter. unfold window_rows.
    eapply Permutation_NoDup; [apply Permutation_map; apply Permutation_sym; apply ts_sort_perm|].
    apply NoDup_map_filter. exact Hd.
  - intros ? ? ? Hz0. discriminate.
Qed.

Lemma event_groups_fold_nodup rows : forall m seen,
  NoDup (seen ++ rows) ->
  (forall k ids, zget m k = Some ids -> NoDup ids /\ forall id, In id ids -> In (k, id) seen) ->
  forall k ids, zget (fold_left (fun m r => ev_group_add m (fst r) (snd r)) rows m) k = Some ids -> NoDup ids.
Proof.
  induction rows as [|[k0 id0] rest IH]; intros m seen Hnd Hm; simpl.
  - intros k ids Hz. apply (Hm _ _ Hz).
  - apply IH with (seen := seen ++ [(k0, id0)]).
    + rewrite <- app_assoc. simpl. exact Hnd.
    + assert (Hnew : ~ In (k0, id0) seen).
      { apply NoDup_remove_2 in Hnd. intros Hc. apply Hnd. apply in_or_app. left. exact Hc. }
      intros k ids Hz. rewrite zget_ev_group_add in Hz.
      destruct (k =? k0) eqn:E.
      * apply Z.eqb_eq in E. subst k.
        destruct (zget m k0) as [ids0|] eqn:Z0; injection Hz as <-.
        -- destruct (Hm _ _ Z0) as [Hnd0 Hin0]. split.
           ++ apply NoDup_snoc; [exact Hnd0|]. intros Hc. apply Hnew. apply Hin0. exact Hc.
           ++ intros id Hin. apply in_or_app. apply in_app_or in Hin.
              destruct Hin as [Hin|[<-|[]]]; [left; apply Hin0; exact Hin|right; left; reflexivity].
        -- split; [constructor; [intros []|constructor]|].
           intros id [<-|[]]. apply in_or_app. right. left. reflexivity.
      * destruct (Hm _ _ Hz) as [Hnd0 Hin0]. split; [exact Hnd0|].
        intros id Hin. apply in_or_app. left. apply Hin0. exact Hin.
Qed.

(* with unique keys a fired row joins with at most one registration *)
Lemma filter_unique_key (l : list et_row) k i :
  NoDup (map et_pk l) ->
  filter (et_match k i) l = [] \/ exists x, filter (et_match k i) l = [x] /\ et_pk x = (k, i).
Proof.
  induction l as [|x r IH]; simpl; intros Hnd; [left; reflexivity|].
  inversion Hnd as [|? ? Hn Hd]; subst.
  destruct (et_match k i x) eqn:M.
  - right. exists x. apply et_match_true in M. destruct M as [M1 M2].
    split; [|unfold et_pk; congruence].
    f_equal. destruct (IH Hd) as [E|(y & E & Hy)]; [exact E|].
    exfalso. apply Hn. apply in_map_iff. exists y. split.
    + rewrite Hy. unfold et_pk. congruence.
    + assert (In y (filter (et_match k i) r)) by (rewrite E; left; reflexivity).
      apply filter_In in H. tauto.
  - apply IH. exact Hd.
Qed.

Lemma undecrypted_fired_nodup d :
  NoDup (map et_pk (ets d)) -> NoDup (map ft_pk (fts d)) -> NoDup (undecrypted_fired d).
Proof.
  intros Het Hft. unfold undecrypted_fired.
  induction (fts d) as [|f r IH]; simpl; [constructor|].
  inversion Hft as [|? ? Hn Hd]; subst.
  set (g := fun f0 : ft_row =>
              if existsb (fun e => et_match (ft_eon f0) (ft_identity f0) e && et_decrypted e) (ets d)
              then []
              else map (fun e => (et_eon e, et_identity e)) (filter (et_match (ft_eon f0) (ft_identity f0)) (ets d))).
  assert (Hsub : forall f0 p, In p (g f0) -> p = ft_pk f0).
  { intros f0 p Hp. unfold g in Hp.
    destruct (existsb _ (ets d)); [contradiction|].
    apply in_map_iff in Hp. destruct Hp as (x & <- & Hx). apply filter_In in Hx.
    destruct Hx as [_ Hm]. apply et_match_true in Hm. destruct Hm as [-> ->]. reflexivity. }
  assert (Hhead : g f = [] \/ g f = [ft_pk f]).
  { unfold g. destruct (existsb _ (ets d)); [left; reflexivity|].
    destruct (filter_unique_key (ets d) (ft_eon f) (ft_identity f) Het) as [E|(x & E & Hx)].
    - left. rewrite E. reflexivity.
    - right. rewrite E. simpl. f_equal. exact Hx. }
  specialize (IH Hd). change (NoDup (flat_map g r)) in IH.
  change (NoDup (g f ++ flat_map g r)).
  destruct Hhead as [E|E]; rewrite E; simpl; [exact IH|].
  constructor; [|exact IH].
  intros Hin. apply in_flat_map in Hin. destruct Hin as (f' & Hf' & Hp).
  apply Hsub in Hp. apply Hn. rewrite Hp. apply in_map. exact Hf'.
Qed.

Theorem prepare_event_based_sorted c d enum tr :
  NoDup (map et_pk (ets d)) -> NoDup (map ft_pk (fts d)) ->
  In tr (prepare_event_based c d enum) -> Sorted bytes_lt (tg_ids tr).
Proof.
  intros Het Hft. unfold prepare_event_based. rewrite in_flat_map. intros (k & _ & Hin).
  destruct (zget (event_groups (undecrypted_fired d)) k) as [ids|] eqn:Z0; [|contradiction].
  destruct ids as [|i0 ids']; [contradiction|].
  destruct (resolve_decryptable_eon c d k) as [e|]; [|contradiction].
  destruct Hin as [<-|[]]. simpl.
  apply sort_ids_sorted.
  unfold event_groups in Z0.
  eapply event_groups_fold_nodup with (seen := []); [| |exact Z0].
  - simpl. apply undecrypted_fired_nodup; assumption.
  - intros ? ? Hz. discriminate.
Qed.

(* strictly increasing lists are duplicate free *)
Lemma sorted_bytes_lt_nodup l : Sorted bytes_lt l -> NoDup l.
Proof.
  intros H. apply Sorted_StronglySorted in H.
  - induction H as [|a l Hs IH Hf]; constructor; [|exact IH].
    intros Hin. rewrite Forall_forall in Hf. specialize (Hf _ Hin).
    unfold bytes_lt in Hf. rewrite bytes_ltb_irrefl in Hf. discriminate.
  - intros a b c. unfold bytes_lt. apply bytes_ltb_trans.
Qed.

Theorem new_block_sorted c d latest number time et ee tr :
  time_ids_distinct d -> NoDup (map et_pk (ets d)) -> NoDup (map ft_pk (fts d)) ->
  In tr (snd (new_block c d latest number time et ee)) ->
  Sorted bytes_lt (tg_ids tr) /\ NoDup (tg_ids tr).
Proof.
  intros H1 H2 H3. rewrite new_block_split. simpl. intros Hin.
  assert (Sorted bytes_lt (tg_ids tr)).
  { apply in_app_or in Hin. destruct Hin as [Hin|Hin].
    - eapply prepare_time_based_sorted; eassumption.
    - destruct (events_enabled c); [|contradiction]. eapply prepare_event_based_sorted; eassumption. }
  split; [assumption|apply sorted_bytes_lt_nodup; assumption].
Qed.

(* and never empty *)
Lemma group_add_nonempty m k act id : forall k' a ids,
  (forall k0 a0 ids0, zget m k0 = Some (a0, ids0) -> ids0 <> []) ->
  zget (group_add m k act id) k' = Some (a, ids) -> ids <> [].
Proof.
  intros k' a ids Hm Hz. rewrite zget_group_add in Hz.
  destruct (k' =? k).
  - destruct (zget m k) as [[a0 ids0]|]; injection Hz as <- <-; [|discriminate].
    intros Hc. apply app_eq_nil in Hc. destruct Hc as [_ Hc]. discriminate.
  - eapply Hm. exact Hz.
Qed.

(* ------------------------------------------------------------------------------------- *)
(* the enumeration order of the two Go maps only permutes the triggers *)

Theorem new_block_enum_perm c d latest number time et ee :
  (forall ks, Permutation (et ks) ks) -> (forall ks, Permutation (ee ks) ks) ->
  fst (new_block c d latest number time et ee)
  = fst (new_block c d latest number time (fun ks => ks) (fun ks => ks)) /\
  Permutation (snd (new_block c d latest number time et ee))
              (snd (new_block c d latest number time (fun ks => ks) (fun ks => ks))).
Proof.
  intros Ht He. rewrite !new_block_split. simpl. split.
  - unfold prepare_time_based.
    destruct (match latest with Some l => u64 time <=? l | None => false end); reflexivity.
  - apply Permutation_app.
    + unfold prepare_time_based.
      destruct (match latest with Some l => u64 time <=? l | None => false end); simpl; [reflexivity|].
      unfold emit_time. apply Permutation_flat_map. apply Ht.
    + destruct (events_enabled c); [|reflexivity].
      unfold prepare_event_based. apply Permutation_flat_map. apply He.
Qed.

(* ------------------------------------------------------------------------------------- *)
(* key shares *)

Definition eon_le (a b : eon_row) : Prop :=
  eo_activation a < eo_activation b \/ (eo_activation a = eo_activation b /\ eo_height a <= eo_height b).

Lemma eon_for_block_from_spec l blk : forall best,
  (forall b, best = Some b -> eo_activation b <= blk) ->
  match eon_for_block_from best l blk with
  | None => best = None /\ forall e, In e l -> blk < eo_activation e
  | Some r =>
      (best = Some r \/ In r l) /\ eo_activation r <= blk /\
      (forall b, best = Some b -> eon_le b r) /\
      (forall e, In e l -> eo_activation e <= blk -> eon_le e r)
  end.
Proof.
  induction l as [|e rest IH]; intros best Hb; simpl.
  - destruct best as [b|]; [|split; [reflexivity|intros ? []]].
    split; [left; reflexivity|]. split; [apply Hb; reflexivity|].
    split; [intros b' [= ->]; right; lia|intros ? []].
  - destruct (eo_activation e <=? blk) eqn:Ea.
    + apply Z.leb_le in Ea.
      assert (Hbe : forall b0, Some e = Some b0 -> eo_activation b0 <= blk) by (intros ? [= <-]; exact Ea).
      destruct best as [b|].
      * destruct ((eo_activation b <? eo_activation e)
                  || ((eo_activation b =? eo_activation e) && (eo_height b <? eo_height e))) eqn:El.
        -- assert (Hlt : eon_le b e /\ eon_le e e).
           { split; [|right; lia]. apply orb_true_iff in El. destruct El as [El|El].
             - apply Z.ltb_lt in El. left. exact El.
             - apply andb_true_iff in El. destruct El as [E1 E2]. apply Z.eqb_eq in E1. apply Z.ltb_lt in E2.
               right. lia. }
           specialize (IH (Some e) Hbe).
           destruct (eon_for_block_from (Some e) rest blk) as [r|].
           ++ destruct IH as (Hin & Hc & Hbest & Hall).
              split; [destruct Hin as [[= <-]|Hin]; right; [left; reflexivity|right; exact Hin]|].
              split; [exact Hc|].
              specialize (Hbest e eq_refl).
              assert (Hber : eon_le b r).
              { destruct Hlt as [Hlt _]. unfold eon_le in *. lia. }
              split; [intros b' [= <-]; exact Hber|].
              intros e' [<-|Hin'] Hc'; [exact Hbest|apply Hall; assumption].
           ++ destruct IH as [IH _]. discriminate.
        -- assert (Hge : eon_le e b).
           { apply orb_false_iff in El. destruct El as [E1 E2]. apply Z.ltb_ge in E1.
             apply andb_false_iff in E2. unfold eon_le.
             destruct E2 as [E2|E2]; [apply Z.eqb_neq in E2; lia|apply Z.ltb_ge in E2; lia]. }
           specialize (IH (Some b) Hb).
           destruct (eon_for_block_from (Some b) rest blk) as [r|].
           ++ destruct IH as (Hin & Hc & Hbest & Hall).
              split; [destruct Hin as [Hin|Hin]; [left; exact Hin|right; right; exact Hin]|].
              split; [exact Hc|]. split; [exact Hbest|].
              specialize (Hbest b eq_refl).
              intros e' [<-|Hin'] Hc'; [unfold eon_le in *; lia|apply Hall; assumption].
           ++ destruct IH as [IH _]. discriminate.
      * specialize (IH (Some e) Hbe).
        destruct (eon_for_block_from (Some e) rest blk) as [r|].
        -- destruct IH as (Hin & Hc & Hbest & Hall).
           split; [destruct Hin as [[= <-]|Hin]; right; [left; reflexivity|right; exact Hin]|].
           split; [exact Hc|]. split; [intros ? [=]|].
           specialize (Hbest e eq_refl).
           intros e' [<-|Hin'] Hc'; [exact Hbest|apply Hall; assumption].
        -- destruct IH as [IH _]. discriminate.
    + apply Z.leb_gt in Ea.
      specialize (IH best Hb).
      destruct (eon_for_block_from best rest blk) as [r|].
      * destruct IH as (Hin & Hc & Hbest & Hall).
        split; [destruct Hin as [Hin|Hin]; [left; exact Hin|right; right; exact Hin]|].
        split; [exact Hc|]. split; [exact Hbest|].
        intros e' [<-|Hin'] Hc'; [lia|apply Hall; assumption].
      * destruct IH as [IH1 IH2]. split; [exact IH1|].
        intros e' [<-|Hin']; [exact Ea|apply IH2; exact Hin'].
Qed.

Lemma eon_for_block_some d blk e :
  eon_for_block d blk = Some e ->
  In e (eons d) /\ eo_activation e <= blk /\
  forall e', In e' (eons d) -> eo_activation e' <= blk -> eon_le e' e.
Proof.
  unfold eon_for_block. intros H.
  pose proof (eon_for_block_from_spec (eons d) blk None) as S.
  rewrite H in S. destruct S as (Hin & Hc & _ & Hall); [intros ? [=]|].
  destruct Hin as [[=]|Hin]. auto.
Qed.

(* what a produced DecryptionKeyShares message says about the database it was produced on *)
Definition shares_justified (c : config) (d : database) (e : eon_row) (ids : list bytes) (m : shares_msg) : Prop :=
  sm_eon m = eo_cfg e /\ sm_ids m = ids /\ ids <> [] /\ 0 <= eo_cfg e /\
  (exists cf, In cf (cfgs d) /\ cf_index cf = to_i32 (eo_cfg e) /\ In (me c) (cf_keypers cf) /\
              0 <= sm_keyper_index m /\
              nth_error (cf_keypers cf) (Z.to_nat (sm_keyper_index m)) = Some (me c)) /\
  (exists k, In k (dkgs d) /\ dk_eon k = eo_eon e /\ dk_success k = true /\ dk_decodable k = true).

Theorem construct_shares_sound c d e ids m d' :
  construct_shares c d e ids = (ShOk m, d') -> shares_justified c d e ids m.
Proof.
  unfold construct_shares. intros H.
  destruct ids as [|i0 ids0] eqn:Eids; [discriminate|]. rewrite <- Eids in *.
  destruct (Z.of_nat (length ids) >? to_i64 (max_keys c)); [discriminate|].
  destruct (get_keyper_index d (eo_cfg e) (me c)) as [| |ki] eqn:K; try discriminate.
  destruct (eo_cfg e <? 0) eqn:Neg; [discriminate|].
  destruct (forallb (fun id => share_exists d (eo_cfg e) id ki) ids); [discriminate|].
  destruct (get_dkg d (eo_eon e)) as [k|] eqn:G; [|discriminate].
  destruct (dk_success k) eqn:S; simpl in H; [|discriminate].
  destruct (dk_decodable k) eqn:D; simpl in H; [|discriminate].
  injection H as <- _.
  apply get_keyper_index_member in K. destruct K as (cf & Hcf & Hidx & Hmem & Hnn & Hnth).
  apply get_dkg_some in G. destruct G as [Gin Ge]. apply Z.ltb_ge in Neg.
  unfold shares_justified. simpl.
  split; [reflexivity|]. split; [reflexivity|]. split; [rewrite Eids; discriminate|]. split; [exact Neg|].
  split; [exists cf; auto 6|exists k; auto].
Qed.

(* failures leave the database unchanged *)
Lemma construct_shares_err c d e ids x d' : construct_shares c d e ids = (ShErr x, d') -> d' = d.
Proof.
  unfold construct_shares. intros H.
  destruct ids as [|i0 ids0] eqn:Eids; [injection H as _ <-; reflexivity|]. rewrite <- Eids in *.
  destruct (Z.of_nat (length ids) >? to_i64 (max_keys c)); [injection H as _ <-; reflexivity|].
  destruct (get_keyper_index d (eo_cfg e) (me c)) as [| |ki]; try (injection H as _ <-; reflexivity).
  destruct (eo_cfg e <? 0); [injection H as _ <-; reflexivity|].
  destruct (forallb (fun id => share_exists d (eo_cfg e) id ki) ids); [injection H as _ <-; reflexivity|].
  destruct (get_dkg d (eo_eon e)) as [k|]; [|injection H as _ <-; reflexivity].
  destruct (dk_success k); simpl in H; [|injection H as _ <-; reflexivity].
  destruct (dk_decodable k); simpl in H; [discriminate|injection H as _ <-; reflexivity].
Qed.

Theorem handle_trigger_sound c d blk ids m d' :
  handle_trigger c d blk ids = (ShOk m, d') ->
  exists e, In e (eons d) /\ eo_activation e <= u64 blk /\
            (forall e', In e' (eons d) -> eo_activation e' <= u64 blk -> eon_le e' e) /\
            shares_justified c d e ids m.
Proof.
  unfold handle_trigger. intros H.
  destruct (u64 blk >? 2^63 - 1); [discriminate|].
  destruct (eon_for_block d (u64 blk)) as [e|] eqn:E; [|discriminate].
  apply eon_for_block_some in E. destruct E as (Hin & Hact & Hmax).
  exists e. repeat split; try assumption; apply (construct_shares_sound _ _ _ _ _ _ H).
Qed.

(* ------------------------------------------------------------------------------------- *)
(* the release time as the registry contract means it *)

(* The contract's release time is a uint64; the registry syncer stores int64(release time), so
   a release time >= 2^63 is a negative number in the table and the contract's value is u64 of
   the stored one.  The signed comparison of shouldTriggerDecryption alone would take such a row
   for long released; what keeps it out is the lower bound of the window.  With the high-water
   mark a uint64 (as it always is) the triggered rows are released in the unsigned reading too. *)
Definition latest_in_range (latest : option Z) : Prop :=
  forall l, latest = Some l -> 0 <= l < 2^64.

Theorem prepare_time_based_unsigned c d latest number time enum tr id :
  latest_in_range latest -> 0 <= time < 2^64 ->
  In tr (snd (prepare_time_based c d latest number time enum)) -> In id (tg_ids tr) ->
  exists r, In r (irs d) /\ ir_identity r = id /\ ir_eon r = tg_cfg tr /\ ir_decrypted r = false /\
            - 2^63 <= ir_timestamp r < 2^63 /\
            u64 (ir_timestamp r) < time /\
            (time < 2^63 -> 0 <= ir_timestamp r).
Proof.
  intros Hl Ht. unfold prepare_time_based.
  destruct (match latest with Some l => time <=? l | None => false end) eqn:Early; simpl; [intros []|].
  set (lo := match latest with Some l => to_i64 l | None => 0 end).
  intros Htr Hid.
  apply emit_time_in in Htr. destruct Htr as (k & act & ids & Hz & ->). simpl in *.
  apply (proj1 (sort_ids_in _ _)) in Hid.
  destruct (time_groups_ok c d _ _ _ _ Hz) as [_ Hids].
  destruct (Hids _ Hid) as (r & Hr & Hk & Hi).
  apply filter_In in Hr. destruct Hr as [Hrows Hst].
  apply window_rows_in in Hrows. destruct Hrows as (Hin & [Hlo Hhi] & Hdec).
  apply should_trigger_true in Hst. destruct Hst as (e' & _ & _ & Hts).
  exists r. split; [exact Hin|]. split; [exact Hi|]. split; [exact Hk|]. split; [exact Hdec|].
  (* the casts, spelled out *)
  assert (Hti : to_i64 time = if time <? 2^63 then time else time - 2^64).
  { unfold to_i64. rewrite Z.mod_small by lia. reflexivity. }
  assert (Hlo' : (latest = None /\ lo = 0) \/
                 (exists l, latest = Some l /\ l < time /\ 0 <= l < 2^64 /\
                            lo = if l <? 2^63 then l else l - 2^64)).
  { destruct latest as [l|]; [right|left; auto].
    exists l. apply Z.leb_gt in Early. pose proof (Hl l eq_refl) as Hr.
    repeat split; try lia. unfold lo, to_i64. rewrite Z.mod_small by lia. reflexivity. }
  unfold u64.
  destruct (time <? 2^63) eqn:Et; [apply Z.ltb_lt in Et|apply Z.ltb_ge in Et]; rewrite Hti in *.
  - assert (0 <= ir_timestamp r).
    { destruct Hlo' as [[_ E]|(l & _ & Hlt & Hr & E)]; [lia|].
      destruct (l <? 2^63) eqn:El; [apply Z.ltb_lt in El|apply Z.ltb_ge in El]; lia. }
    rewrite Z.mod_small by lia. repeat split; lia.
  - assert (- 2^63 <= ir_timestamp r).
    { destruct Hlo' as [[_ E]|(l & _ & Hlt & Hr & E)]; [lia|].
      destruct (l <? 2^63) eqn:El; [apply Z.ltb_lt in El|apply Z.ltb_ge in El]; lia. }
    replace (ir_timestamp r mod 2^64) with (ir_timestamp r + 2^64)
      by (apply Z.mod_unique with (q := -1); lia).
    repeat split; lia.
Qed.
