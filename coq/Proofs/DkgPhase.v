(* The hand-written phase function of Model/DKGDriver.v equals, for all inputs, the function the
   translator generates from keyper/dkgphase/phase.go (Generated/DkgPhase.v, rewritten from the
   repository's source on every check of C07 / C08). *)
From Coq Require Import ZArith Bool Lia.
From Verif Require Import Model.DKGPure Model.DKGDriver Generated.DkgPhase.
Open Scope Z_scope.

(* Every comparison atom of both sides is destructed (its truth value replaces it, its meaning
   becomes a linear hypothesis), the boolean connectives are computed, and what remains are two
   phase constants, equal unless the hypotheses are contradictory.  A reordering or rephrasing of
   the tests in the source that leaves the decision unchanged (>= for a negated <, a tagless
   switch, an else-if chain, an inlined local) does not break the proof; a changed boundary or
   phase does. *)
Ltac split_atoms :=
  repeat match goal with
         | |- context [Z.eqb ?a ?b] => destruct (Z.eqb_spec a b)
         | |- context [Z.ltb ?a ?b] => destruct (Z.ltb_spec a b)
         | |- context [Z.leb ?a ?b] => destruct (Z.leb_spec a b)
         end;
  cbn [negb andb orb]; try reflexivity; try (exfalso; lia).

Theorem phase_at_is_generated (L height start : Z) : phase_at L height start = gen_phase_at L height start.
Proof.
  unfold phase_at, gen_phase_at, gen_new_constant_phase_length, gen_get_phase_at_height.
  cbv zeta. split_atoms.
Qed.
