(* The hand-written phase function of Model/DKGDriver.v equals, for all inputs, the function the
   translator generates from keyper/dkgphase/phase.go (Generated/DkgPhase.v, rewritten from the
   repository's source on every check of C07 / C08). *)
From Coq Require Import ZArith Bool Lia.
From Verif Require Import Model.DKGPure Model.DKGDriver Generated.DkgPhase.
Open Scope Z_scope.

Theorem phase_at_is_generated (L height start : Z) : phase_at L height start = gen_phase_at L height start.
Proof.
  unfold phase_at, gen_phase_at, gen_new_constant_phase_length, gen_get_phase_at_height.
  repeat match goal with
         | |- context [?a <? ?b] => let H := fresh "H" in destruct (a <? b) eqn:H;
                                     [apply Z.ltb_lt in H|apply Z.ltb_ge in H]
         | |- context [?a <=? ?b] => let H := fresh "H" in destruct (a <=? b) eqn:H;
                                      [apply Z.leb_le in H|apply Z.leb_gt in H]
         end; try reflexivity; exfalso; lia.
Qed.
