(* C08_same_outcome without the assumption on the isKeyper flag: crashes and attempts that did
   not commit are invisible in the database and in what shuttermint receives, for every keyper -
   also one that is in no stored config, whose reloaded cache says isKeyper where the running one
   does not (Proofs/OutboxFlag.v). *)
From Coq Require Import List NArith ZArith Bool Lia Sorted.
From Verif Require Import Lib.Bytes Model.DKGPure Model.DKGDriver Model.Outbox
     Proofs.DKGChain Proofs.OutboxEvolve Proofs.OutboxCoh Proofs.Outbox Proofs.OutboxRun Proofs.OutboxFlag.
Import ListNotations.
Open Scope Z_scope.

Section Run2.
Variables C E P : Type.
Variable commit_of : P -> C.
Variable eval_of : P -> nat -> E.
Variable verify : nat -> E -> C -> bool.
Variable deg_ok : N -> C -> bool.
Variable valid_eval : E -> bool.
Variable me : addr.
Variable L : Z.
Variable enum : list (N * @active C E P) -> list (N * @active C E P).
Variable delta : Z.
Hypothesis Henum : enum_entries_ok C E P enum.

Notation active := (@active C E P).
Notation sm := (@sm C E P).
Notation db := (db C E P).
Notation st := (st C E P).
Notation world := (@world C E P).
Notation op := (@op C E P).
Notation coh := (coh C E P).
Notation all_clean := (all_clean C E P).
Notation step := (step C E P commit_of eval_of verify deg_ok valid_eval me L enum delta).
Notation run := (run C E P commit_of eval_of verify deg_ok valid_eval me L enum delta).
Notation handle_block := (handle_block C E P commit_of eval_of verify deg_ok valid_eval me L enum).
Notation nmft := (nmft C E P me).
Notation nomember := (nomember C E P me).
Notation wgood := (wgood C E P).

Lemma handle_block_nmft poly (d : db) (s : sm) blk lch x' :
  handle_block poly (d, s) blk lch = TOk x' -> (sm_sync s = true -> nmft (d, s)) -> nmft x'.
Proof.
  intros Hrun Hn. unfold DKGDriver.handle_block in Hrun.
  destruct (load C E P d s) as [s1| |] eqn:Hload; simpl in Hrun; try discriminate.
  assert (H1 : nmft (d, s1)).
  { unfold load in Hload. destruct (sm_sync s) eqn:Hs; [injection Hload as <-; apply Hn; reflexivity|].
    destruct (load_dkgs C E P d (db_pure C E P d)) as [m| |]; simpl in Hload; try discriminate. injection Hload as <-.
    split; simpl.
    - intros Hf k cr Hk. destruct (db_cfgs C E P d); [discriminate|]. simpl in Hf. discriminate.
    - intros Hf Hc. rewrite Hc in Hf. discriminate. }
  destruct (negb _); [discriminate|].
  destruct (shift_phases _ _ _ _ _ _ _ _ _ _ _ _) as [[d2 s2]| |] eqn:Hsh; simpl in Hrun; try discriminate.
  destruct (handle_events _ _ _ _ _ _ _ _ _ _ _ _ _ _) as [[d3 s3]| |] eqn:He; simpl in Hrun; try discriminate.
  injection Hrun as <-. unfold shift_phases in Hsh.
  assert (Hk := shift_all_keeps C E P commit_of eval_of verify valid_eval L poly (fst blk) _ _ s1 _ Hsh).
  assert (Hc := shift_all_cfgs C E P commit_of eval_of verify valid_eval L poly (fst blk) _ _ s1 _ Hsh).
  simpl in Hk, Hc. destruct Hk as [Hk1 _].
  assert (H2 : nmft (d2, s2)).
  { destruct H1 as [A B]. simpl in *. split; simpl; rewrite Hk1.
    - intros Hf k cr. rewrite Hc. apply A. exact Hf.
    - rewrite Hc. exact B. }
  pose proof (handle_events_nmft C E P commit_of eval_of verify deg_ok valid_eval me L poly _ _ _ _ He H2) as [A B]. simpl in A, B.
  assert (Hcf : db_cfgs C E P (save_all C E P (send_poly_evals C E P d3) (enum (sm_dkg s3))) = db_cfgs C E P d3).
  { destruct (save_all_frame_coh C E P (enum (sm_dkg s3)) (send_poly_evals C E P d3)) as [_ F]. rewrite F.
    destruct (send_poly_evals_frame C E P d3) as [G _]. exact G. }
  split; simpl; [intros Hf k cr; rewrite Hcf; apply A; exact Hf|rewrite Hcf; exact B].
Qed.

Definition wfT := wf C E P true.

(* the crashed run against the run of its surviving operations *)
Definition sim2 (w w' : world) : Prop :=
  w_o w = w_o w' /\ w_log w = w_log w' /\
  (w_sm w = w_sm w' \/ sm_sync (w_sm w) = false \/ (sm_iskeyper (w_sm w') = false /\ w_sm w = wfT (w_sm w'))).

Definition tnm (w : world) : Prop := sm_sync (w_sm w) = true -> nmft (o_db (w_o w), w_sm w).

Lemma tnm_eq (w2 w' : world) : w_o w2 = w_o w' -> w_sm w2 = w_sm w' -> tnm w' -> tnm w2.
Proof. unfold tnm. intros -> ->. tauto. Qed.

Lemma handle_block_loaded poly (d : db) (s s1 : sm) blk lch :
  sm_sync s = false -> load C E P d s = TOk s1 ->
  handle_block poly (d, s) blk lch = handle_block poly (d, s1) blk lch.
Proof.
  intros Hs Hl. unfold DKGDriver.handle_block. rewrite Hl. unfold load in Hl. rewrite Hs in Hl.
  destruct (load_dkgs C E P d (db_pure C E P d)) as [m| |]; simpl in Hl; try discriminate. injection Hl as <-.
  unfold load. simpl. reflexivity.
Qed.

Lemma block_sim poly blk lch (d : db) (sc st0 : sm) d' s' :
  (sc = st0 \/ sm_sync sc = false \/ (sm_iskeyper st0 = false /\ sc = wfT st0)) ->
  (sm_sync st0 = true -> coh (d, st0) /\ all_clean st0) -> (sm_sync st0 = true -> nmft (d, st0)) ->
  handle_block poly (d, sc) blk lch = TOk (d', s') ->
  exists s0, handle_block poly (d, st0) blk lch = TOk (d', s0) /\
             (s' = s0 \/ (sm_iskeyper s0 = false /\ s' = wfT s0)).
Proof.
  intros Hrel Hg Hn Hrun.
  (* the case of a synchronised crash-free cache whose flag is clear while the crashed run's is set *)
  assert (Hflag : sm_sync st0 = true -> sm_iskeyper st0 = false ->
                  handle_block poly (d, wfT st0) blk lch = TOk (d', s') ->
                  exists s0, handle_block poly (d, st0) blk lch = TOk (d', s0) /\ (s' = s0 \/ (sm_iskeyper s0 = false /\ s' = wfT s0))).
  { intros Hs Hf Hr. destruct (Hn Hs) as [Hnm _]. simpl in Hnm.
    destruct (handle_block_flagrel C E P commit_of eval_of verify deg_ok valid_eval me L enum poly d st0 blk lch _ Hs Hf (Hnm Hf) Hr)
      as [[d0 s0] [E0 Hfr]].
    destruct Hfr as [Heq|[Hf0 [_ Heq]]]; injection Heq as <- ->; exists s0; (split; [exact E0|]); [left; reflexivity|right; split; [exact Hf0|reflexivity]]. }
  destruct Hrel as [->|[Hus|[Hf ->]]].
  - exists s'. split; [exact Hrun|left; reflexivity].
  - destruct (sm_sync st0) eqn:Hs.
    + destruct (Hg eq_refl) as [Hc Hcl].
      assert (Hl : load C E P d sc = TOk (mkSm true (negb (Nat.eqb (length (db_cfgs C E P d)) 0)) (sm_dkg st0))).
      { unfold load. rewrite Hus, (cache_is_load C E P d st0 Hc Hcl). reflexivity. }
      rewrite (handle_block_loaded poly d sc _ blk lch Hus Hl) in Hrun.
      destruct (Hn eq_refl) as [Hnm Hft]. simpl in Hnm, Hft.
      destruct (sm_iskeyper st0) eqn:Hf.
      * (* the flag is set, so a config is stored: Load computes the same flag *)
        assert (Hne : negb (Nat.eqb (length (db_cfgs C E P d)) 0) = true).
        { destruct (db_cfgs C E P d) eqn:Q; [exfalso; apply Hft; reflexivity|reflexivity]. }
        rewrite Hne in Hrun. replace (mkSm true true (sm_dkg st0)) with st0 in Hrun by (destruct st0; simpl in *; subst; reflexivity).
        exists s'. split; [exact Hrun|left; reflexivity].
      * destruct (negb (Nat.eqb (length (db_cfgs C E P d)) 0)) eqn:Hne.
        -- apply Hflag; [reflexivity|reflexivity|]. replace (wfT st0) with (mkSm true true (sm_dkg st0)); [exact Hrun|].
           unfold wfT, wf. rewrite Hs. reflexivity.
        -- replace (mkSm true false (sm_dkg st0)) with st0 in Hrun by (destruct st0; simpl in *; subst; reflexivity).
           exists s'. split; [exact Hrun|left; reflexivity].
    + exists s'. split; [|left; reflexivity]. rewrite <- Hrun. unfold DKGDriver.handle_block, load. rewrite Hus, Hs. reflexivity.
  - destruct (sm_sync st0) eqn:Hs.
    + apply Hflag; [reflexivity|exact Hf|exact Hrun].
    + exists s'. split; [|left; reflexivity]. rewrite <- Hrun. unfold DKGDriver.handle_block, load, wfT, wf. simpl. rewrite Hs. reflexivity.
Qed.

Theorem crashes_invisible2 ops : forall w w',
  sim2 w w' -> wgood w' -> tnm w' ->
  forall w1, run w ops = Some w1 ->
  exists w1', run w' (filter (survives C E P) ops) = Some w1' /\ sim2 w1 w1'.
Proof.
  induction ops as [|o r IH]; intros w w' Hsim Hg Hn w1 Hrun.
  - simpl in *. injection Hrun as <-. exists w'. split; [reflexivity|exact Hsim].
  - simpl in Hrun. destruct (step w o) as [w2|] eqn:Hst; [|discriminate].
    destruct Hsim as [Ho [Hl Hsm]].
    destruct (survives C E P o) eqn:Hsv.
    + assert (Hx : exists w2', step w' o = Some w2' /\ sim2 w2 w2' /\ tnm w2').
      { destruct o as [blk lch poly commit|ksets l1 commit|rr|commit|]; simpl in Hsv; unfold Outbox.step in Hst |- *.
        - subst commit. rewrite <- Ho.
          destruct (handle_block poly (o_db (w_o w), w_sm w) blk lch) as [[d' s']| |] eqn:Hb; try discriminate.
          injection Hst as <-.
          destruct (block_sim poly blk lch (o_db (w_o w)) (w_sm w) (w_sm w') d' s') as [s0 [E0 Hrel]].
          + exact Hsm.
          + rewrite Ho. exact Hg.
          + rewrite Ho. exact Hn.
          + exact Hb.
          + rewrite E0. eexists. split; [reflexivity|]. split.
            * split; [simpl; congruence|]. split; [exact Hl|]. simpl.
              destruct Hrel as [->|[Hf ->]]; [left; reflexivity|right; right; split; [exact Hf|reflexivity]].
            * intros _. simpl. eapply handle_block_nmft; [exact E0|]. rewrite Ho. exact Hn.
        - subst commit. rewrite <- Ho.
          destruct (on_chain _ _ _ _ _ _ _ _) as [o'| |] eqn:Hoc; try discriminate. injection Hst as <-.
          eexists. split; [reflexivity|]. split; [split; [reflexivity|split; assumption]|].
          intros Hs. simpl in *. destruct (Hn Hs) as [A B]. simpl in A, B.
          destruct (on_chain_frame C E P me delta _ _ _ _ Hoc) as [_ [_ F3]]. rewrite Ho in F3.
          split; simpl; [intros Hf k cr; rewrite F3; apply A; exact Hf|rewrite F3; exact B].
        - rewrite <- Ho. destruct (head _ _ _ _) as [[id [ds m]]|].
          + destruct rr; try discriminate; injection Hst as <-; eexists; (split; [reflexivity|]);
              (split; [split; [reflexivity|split; [simpl; congruence|exact Hsm]]|apply (tnm_eq _ w'); [simpl; exact Ho|reflexivity|exact Hn]]).
          + injection Hst as <-. eexists. split; [reflexivity|]. split; [split; [exact Ho|split; assumption]|exact Hn].
        - subst commit. rewrite <- Ho. destruct (head _ _ _ _) as [[id x]|]; injection Hst as <-;
            eexists; (split; [reflexivity|]).
          + split; [split; [simpl; congruence|split; assumption]|].
            intros Hs. simpl in *. destruct (Hn Hs) as [A B]. rewrite <- Ho in A, B. split; simpl; assumption.
          + split; [split; [exact Ho|split; assumption]|exact Hn].
        - discriminate. }
      destruct Hx as [w2' [Hst' [Hsim2 Hn2]]].
      simpl. rewrite Hsv. simpl. rewrite Hst'.
      eapply IH; [exact Hsim2|eapply step_good; eassumption|exact Hn2|exact Hrun].
    + assert (Hsim2 : sim2 w2 w').
      { destruct o as [blk lch poly commit|ksets l1 commit|rr|commit|]; simpl in Hsv; unfold Outbox.step in Hst.
        - subst commit. injection Hst as <-. split; [exact Ho|]. split; [exact Hl|]. right. left. reflexivity.
        - subst commit. injection Hst as <-. split; [exact Ho|]. split; assumption.
        - destruct rr; try discriminate. destruct (head _ _ _ _) as [[id [ds m]]|]; injection Hst as <-; (split; [exact Ho|split; assumption]).
        - subst commit. injection Hst as <-. split; [exact Ho|]. split; assumption.
        - injection Hst as <-. split; [exact Ho|]. split; [exact Hl|]. right. left. reflexivity. }
      simpl. rewrite Hsv. eapply IH; [exact Hsim2|exact Hg|exact Hn|exact Hrun].
Qed.

(* C08_same_outcome: from the initial world *)
Theorem same_outcome ops w :
  run (world_init C E P) ops = Some w ->
  exists w', run (world_init C E P) (filter (survives C E P) ops) = Some w' /\ w_o w = w_o w' /\ w_log w = w_log w'.
Proof.
  intros Hr.
  destruct (crashes_invisible2 ops (world_init C E P) (world_init C E P)) with (w1 := w) as [w' [Hr' [Ho [Hl _]]]].
  - split; [reflexivity|]. split; [reflexivity|]. left. reflexivity.
  - apply init_good.
  - intros H. discriminate.
  - exact Hr.
  - exists w'. repeat split; assumption.
Qed.

End Run2.
