(* Proofs about Lib/Rlp.v: big-endian integers, decode (encode it) = it, and the fuel of the
   decoder always suffices. *)
From Coq Require Import List Arith NArith Bool Lia.
From Verif Require Import Lib.Bytes Lib.Rlp.
Import ListNotations.
Local Open Scope N_scope.

(* ---- integers -------------------------------------------------------------------------- *)

Lemma le_le_bytes_fuel f : forall n, n < 2 ^ N.of_nat f -> le (le_bytes_fuel f n) = n.
Proof.
  induction f as [|f IH]; intros n Hn.
  - simpl in *. lia.
  - cbn [le_bytes_fuel]. destruct (n =? 0) eqn:E.
    + apply N.eqb_eq in E. subst. reflexivity.
    + cbn [le]. rewrite IH.
      * rewrite N.add_comm. symmetry. apply N.div_mod'.
      * apply N.div_lt_upper_bound; [lia|].
        rewrite Nat2N.inj_succ, N.pow_succ_r' in Hn. lia.
Qed.

Lemma le_le_bytes n : le (le_bytes n) = n.
Proof.
  unfold le_bytes. apply le_le_bytes_fuel. rewrite N2Nat.id. apply N.size_gt.
Qed.

Lemma be_be_bytes n : be (be_bytes n) = n.
Proof. unfold be, be_bytes. rewrite rev_involutive. apply le_le_bytes. Qed.

Lemma le_bytes_fuel_length k : forall f n, n < 256 ^ N.of_nat k ->
  (length (le_bytes_fuel f n) <= k)%nat.
Proof.
  induction k as [|k IH]; intros f n Hn.
  - simpl in Hn. assert (n = 0) by lia. subst. destruct f; simpl; lia.
  - destruct f as [|f]; [simpl; lia|]. cbn [le_bytes_fuel].
    destruct (n =? 0); [simpl; lia|]. cbn [length]. apply le_n_S. apply IH.
    apply N.div_lt_upper_bound; [lia|].
    rewrite Nat2N.inj_succ, N.pow_succ_r' in Hn. lia.
Qed.

Lemma be_bytes_length k n : n < 256 ^ N.of_nat k -> (length (be_bytes n) <= k)%nat.
Proof.
  intros H. unfold be_bytes, le_bytes. rewrite rev_length. apply le_bytes_fuel_length. exact H.
Qed.

(* minimal: the most significant byte is not zero *)
Definition no_lead0 (b : bytes) : Prop := match b with 0 :: _ => False | _ => True end.

Lemma le_bytes_fuel_top f : forall n, n < 2 ^ N.of_nat f -> no_lead0 (rev (le_bytes_fuel f n)).
Proof.
  induction f as [|f IH]; intros n Hn.
  - simpl. exact I.
  - cbn [le_bytes_fuel]. destruct (n =? 0) eqn:E; [simpl; exact I|].
    apply N.eqb_neq in E. cbn [rev].
    assert (Hd : n / 256 < 2 ^ N.of_nat f).
    { apply N.div_lt_upper_bound; [lia|].
      rewrite Nat2N.inj_succ, N.pow_succ_r' in Hn. lia. }
    specialize (IH _ Hd).
    destruct (rev (le_bytes_fuel f (n / 256))) as [|x t] eqn:Er.
    + (* no higher bytes: n / 256 = 0, so n mod 256 = n <> 0 *)
      assert (Hz : n / 256 = 0).
      { set (q := n / 256) in *. destruct f as [|f'].
        - change (2 ^ N.of_nat 0) with 1 in Hd. lia.
        - cbn [le_bytes_fuel] in Er. destruct (q =? 0) eqn:E2.
          + apply N.eqb_eq in E2. exact E2.
          + cbn [rev] in Er. destruct (rev (le_bytes_fuel f' (q / 256))); discriminate. }
      simpl. pose proof (N.div_mod' n 256) as Hm. rewrite Hz in Hm.
      destruct (n mod 256) eqn:Em; [lia|exact I].
    + simpl. exact IH.
Qed.

Lemma be_bytes_no_lead0 n : no_lead0 (be_bytes n).
Proof.
  unfold be_bytes, le_bytes. apply le_bytes_fuel_top. rewrite N2Nat.id. apply N.size_gt.
Qed.

Lemma be_bytes_nonempty n : 0 < n -> be_bytes n <> [].
Proof.
  intros H E. pose proof (be_be_bytes n) as B. rewrite E in B. simpl in B. unfold be in B. simpl in B. lia.
Qed.

Lemma be_bytes_0 : be_bytes 0 = [].
Proof. reflexivity. Qed.

(* ---- lengths --------------------------------------------------------------------------- *)

Lemma blen_app a b : blen (a ++ b) = blen a + blen b.
Proof. unfold blen. rewrite app_length. lia. Qed.

Lemma take_app a r : take (blen a) (a ++ r) = Some (a, r).
Proof.
  unfold take. rewrite blen_app.
  destruct (blen a <=? blen a + blen r) eqn:E; [|apply N.leb_gt in E; lia].
  unfold blen. rewrite Nat2N.id.
  rewrite firstn_app, Nat.sub_diag, firstn_all, skipn_app, Nat.sub_diag, skipn_all. simpl.
  rewrite app_nil_r. reflexivity.
Qed.

Lemma encode_Lst l : encode (Lst l) = enc_hdr 192 (blen (encode_list l)) ++ encode_list l.
Proof.
  cbn [encode].
  assert (E : (fix encs (l0 : list item) : bytes :=
                 match l0 with [] => [] | x :: r => encode x ++ encs r end) l = encode_list l).
  { induction l as [|x r IH]; [reflexivity|]. cbn [encode_list]. rewrite <- IH. reflexivity. }
  rewrite E. reflexivity.
Qed.

Lemma enc_hdr_length base len : (1 <= length (enc_hdr base len))%nat.
Proof. unfold enc_hdr. destruct (len <? 56); simpl; lia. Qed.

Lemma encode_length it : (1 <= length (encode it))%nat.
Proof.
  destruct it as [b|l].
  - cbn [encode]. destruct b as [|x [|y t]].
    + simpl. lia.
    + destruct (x <? 128); simpl; lia.
    + rewrite app_length. pose proof (enc_hdr_length 128 (blen (x :: y :: t))). lia.
  - rewrite encode_Lst, app_length. pose proof (enc_hdr_length 192 (blen (encode_list l))). lia.
Qed.

(* ---- headers --------------------------------------------------------------------------- *)

Definition two64 : N := 18446744073709551616.

Lemma two64_pow : two64 = 256 ^ N.of_nat 8.
Proof. reflexivity. Qed.

Lemma read_len_enc len r :
  56 <= len -> len < two64 ->
  let lb := be_bytes len in
  1 <= blen lb <= 8 /\ read_len (blen lb) (lb ++ r) = Some (len, r).
Proof.
  intros H1 H2 lb.
  assert (Hl8 : (length lb <= 8)%nat) by (apply be_bytes_length; rewrite <- two64_pow; exact H2).
  assert (Hne : lb <> []) by (apply be_bytes_nonempty; lia).
  split.
  - unfold blen. destruct lb; [contradiction|]. simpl length in *. lia.
  - unfold read_len. rewrite take_app.
    pose proof (be_bytes_no_lead0 len) as Hz. fold lb in Hz.
    assert (Hbe : be lb = len) by apply be_be_bytes.
    destruct lb as [|x t]; [contradiction|].
    destruct x; [contradiction|].
    rewrite Hbe. destruct (len <? 56) eqn:E; [apply N.ltb_lt in E; lia|reflexivity].
Qed.

Lemma read_hdr_str len r :
  len < two64 ->
  read_hdr (enc_hdr 128 len ++ r) = Some (HStr len, r).
Proof.
  intros H. unfold enc_hdr. destruct (len <? 56) eqn:E.
  - apply N.ltb_lt in E. cbn [app read_hdr].
    destruct (128 + len <? 128) eqn:E1; [apply N.ltb_lt in E1; lia|].
    destruct (128 + len <? 184) eqn:E2; [|apply N.ltb_ge in E2; lia].
    replace (128 + len - 128) with len by lia. reflexivity.
  - apply N.ltb_ge in E. destruct (read_len_enc len r E H) as (Hb & Hr).
    set (lb := be_bytes len) in *. cbn [app read_hdr].
    destruct (128 + 55 + blen lb <? 128) eqn:E1; [apply N.ltb_lt in E1; lia|].
    destruct (128 + 55 + blen lb <? 184) eqn:E2; [apply N.ltb_lt in E2; lia|].
    destruct (128 + 55 + blen lb <? 192) eqn:E3; [|apply N.ltb_ge in E3; lia].
    replace (128 + 55 + blen lb - 183) with (blen lb) by lia. rewrite Hr. reflexivity.
Qed.

Lemma read_hdr_lst len r :
  len < two64 ->
  read_hdr (enc_hdr 192 len ++ r) = Some (HLst len, r).
Proof.
  intros H. unfold enc_hdr. destruct (len <? 56) eqn:E.
  - apply N.ltb_lt in E. cbn [app read_hdr].
    destruct (192 + len <? 128) eqn:E1; [apply N.ltb_lt in E1; lia|].
    destruct (192 + len <? 184) eqn:E2; [apply N.ltb_lt in E2; lia|].
    destruct (192 + len <? 192) eqn:E3; [apply N.ltb_lt in E3; lia|].
    destruct (192 + len <? 248) eqn:E4; [|apply N.ltb_ge in E4; lia].
    replace (192 + len - 192) with len by lia. reflexivity.
  - apply N.ltb_ge in E. destruct (read_len_enc len r E H) as (Hb & Hr).
    set (lb := be_bytes len) in *. cbn [app read_hdr].
    destruct (192 + 55 + blen lb <? 128) eqn:E1; [apply N.ltb_lt in E1; lia|].
    destruct (192 + 55 + blen lb <? 184) eqn:E2; [apply N.ltb_lt in E2; lia|].
    destruct (192 + 55 + blen lb <? 192) eqn:E3; [apply N.ltb_lt in E3; lia|].
    destruct (192 + 55 + blen lb <? 248) eqn:E4; [apply N.ltb_lt in E4; lia|].
    destruct (192 + 55 + blen lb <? 256) eqn:E5; [|apply N.ltb_ge in E5; lia].
    replace (192 + 55 + blen lb - 247) with (blen lb) by lia. rewrite Hr. reflexivity.
Qed.

(* ---- a nested induction principle for items ------------------------------------------------ *)

Section ItemInd.
  Variable P : item -> Prop.
  Hypothesis HS : forall b, P (Str b).
  Hypothesis HL : forall l, Forall P l -> P (Lst l).
  Fixpoint item_ind' (it : item) : P it :=
    match it with
    | Str b => HS b
    | Lst l =>
        HL l ((fix go (l : list item) : Forall P l :=
                 match l with
                 | [] => Forall_nil P
                 | x :: r => Forall_cons x (item_ind' x) (go r)
                 end) l)
    end.
End ItemInd.

(* ---- decode (encode it) = it ------------------------------------------------------------- *)

Definition dec1_ok (it : item) : Prop :=
  blen (encode it) < two64 ->
  forall f r, (2 * length (encode it) + 1 <= f)%nat -> dec1 f (encode it ++ r) = DOk (it, r).

Lemma dec_list_encode l :
  Forall dec1_ok l -> blen (encode_list l) < two64 ->
  forall f, (2 * length (encode_list l) + 2 <= f)%nat -> dec_list f (encode_list l) = DOk l.
Proof.
  induction 1 as [|x r Hx Hr IH]; intros Hs f Hf.
  - destruct f; [lia|]. reflexivity.
  - cbn [encode_list] in *. rewrite blen_app in Hs. rewrite app_length in Hf.
    pose proof (encode_length x) as Hx1.
    destruct f as [|f]; [lia|]. cbn [dec_list].
    destruct (encode x ++ encode_list r) as [|c t] eqn:Ec.
    { apply (f_equal (@length N)) in Ec. rewrite app_length in Ec. simpl in Ec. lia. }
    rewrite <- Ec. rewrite Hx; [|unfold two64 in *; lia|lia].
    rewrite IH; [reflexivity|unfold two64 in *; lia|lia].
Qed.

Lemma dec1_encode it : dec1_ok it.
Proof.
  induction it as [b|l IH] using item_ind'; unfold dec1_ok; intros Hs f r Hf.
  - destruct f as [|f]; [lia|]. cbn [dec1].
    destruct b as [|x [|y t]].
    + (* empty string *) cbn [encode]. rewrite app_nil_r.
      rewrite read_hdr_str by (unfold two64, blen; simpl; lia).
      change (blen []) with 0. change 0 with (blen (@nil N)). 
      change r with ([] ++ r) at 1. rewrite take_app. reflexivity.
    + (* one byte *)
      cbn [encode] in *. destruct (x <? 128) eqn:E.
      * cbn [app read_hdr]. rewrite E. reflexivity.
      * rewrite <- app_assoc. rewrite read_hdr_str by (unfold two64; lia).
        change 1 with (blen [x]). rewrite take_app. rewrite E. reflexivity.
    + (* two or more bytes *)
      cbn [encode] in *. rewrite <- app_assoc. rewrite blen_app in Hs.
      rewrite read_hdr_str by lia. rewrite take_app. reflexivity.
  - rewrite encode_Lst in *. rewrite blen_app in Hs. rewrite app_length in Hf.
    pose proof (enc_hdr_length 192 (blen (encode_list l))) as Hh.
    destruct f as [|f]; [lia|]. cbn [dec1].
    rewrite <- app_assoc. rewrite read_hdr_lst by lia. rewrite take_app.
    rewrite dec_list_encode; [reflexivity|exact IH|lia|lia].
Qed.

Theorem decode_encode it : blen (encode it) < two64 -> decode (encode it) = DOk it.
Proof.
  intros Hs. unfold decode.
  pose proof (dec1_encode it Hs (2 * length (encode it) + 1)%nat [] (le_n _)) as H.
  rewrite app_nil_r in H. rewrite H. reflexivity.
Qed.

(* ---- the decoder's fuel always suffices -------------------------------------------------- *)

Lemma take_lengths n b s r : take n b = Some (s, r) -> (length s + length r = length b)%nat.
Proof.
  unfold take. destruct (n <=? blen b); [|discriminate]. intros H. injection H as <- <-.
  rewrite <- app_length, firstn_skipn. reflexivity.
Qed.

Lemma read_len_shorter ll b n r : read_len ll b = Some (n, r) -> (length r <= length b)%nat.
Proof.
  unfold read_len. destruct (take ll b) as [[lb r']|] eqn:E; [|discriminate].
  apply take_lengths in E.
  destruct lb as [|[|p] t]; try discriminate;
    destruct (be _ <? 56); try discriminate; intros H; injection H as _ <-; lia.
Qed.

Lemma read_hdr_shorter b h r : read_hdr b = Some (h, r) -> (length r < length b)%nat.
Proof.
  unfold read_hdr. destruct b as [|p t]; [discriminate|].
  destruct (p <? 128); [intros H; injection H as _ <-; simpl; lia|].
  destruct (p <? 184); [intros H; injection H as _ <-; simpl; lia|].
  destruct (p <? 192).
  { destruct (read_len (p - 183) t) as [[n r']|] eqn:E; [|discriminate].
    apply read_len_shorter in E. intros H. injection H as _ <-. simpl. lia. }
  destruct (p <? 248); [intros H; injection H as _ <-; simpl; lia|].
  destruct (p <? 256); [|discriminate].
  destruct (read_len (p - 247) t) as [[n r']|] eqn:E; [|discriminate].
  apply read_len_shorter in E. intros H. injection H as _ <-. simpl. lia.
Qed.

Lemma dec_fuel f :
  (forall b, (2 * length b + 1 <= f)%nat ->
     dec1 f b <> DFuel /\ forall it r, dec1 f b = DOk (it, r) -> (length r < length b)%nat) /\
  (forall b, (2 * length b + 2 <= f)%nat -> dec_list f b <> DFuel).
Proof.
  induction f as [|f [IH1 IH2]].
  - split; intros b Hb; lia.
  - split; intros b Hb.
    + cbn [dec1]. destruct (read_hdr b) as [[h r]|] eqn:Eh; [|split; [discriminate|discriminate]].
      apply read_hdr_shorter in Eh.
      destruct h as [x|n|n].
      * split; [discriminate|]. intros it r0 H. injection H as _ <-. exact Eh.
      * destruct (take n r) as [[s r']|] eqn:Et; [|split; discriminate].
        apply take_lengths in Et.
        assert (Hr' : (length r' < length b)%nat) by lia.
        destruct s as [|x [|y t]]; try (split; [discriminate|intros it r0 H; injection H as _ <-; exact Hr']).
        destruct (x <? 128); (split; [discriminate|]); [discriminate|].
        intros it r0 H; injection H as _ <-; exact Hr'.
      * destruct (take n r) as [[p r']|] eqn:Et; [|split; discriminate].
        apply take_lengths in Et.
        assert (Hp : dec_list f p <> DFuel) by (apply IH2; lia).
        destruct (dec_list f p); [|split; discriminate|contradiction].
        split; [discriminate|]. intros it r0 H. injection H as _ <-. lia.
    + cbn [dec_list]. destruct b as [|c t]; [discriminate|].
      assert (H1 : (2 * length (c :: t) + 1 <= f)%nat) by lia.
      destruct (IH1 (c :: t) H1) as (Hnf & Hsh).
      destruct (dec1 f (c :: t)) as [[it r]| |]; [|discriminate|contradiction].
      specialize (Hsh it r eq_refl).
      assert (Hr : dec_list f r <> DFuel) by (apply IH2; lia).
      destruct (dec_list f r); [discriminate|discriminate|contradiction].
Qed.

Theorem decode_never_out_of_fuel b : decode b <> DFuel.
Proof.
  unfold decode.
  destruct (proj1 (dec_fuel (2 * length b + 1)) b (le_n _)) as (H & _).
  destruct (dec1 (2 * length b + 1) b) as [[it [|c r]]| |]; try discriminate. contradiction.
Qed.
