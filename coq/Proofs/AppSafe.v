(* C10: the application model never panics on reachable states; refused transactions. *)
From Coq Require Import List NArith ZArith Bool Lia Permutation.
From Verif Require Import Lib.Bytes Lib.Assoc Lib.Sorting Model.Powermap Model.App Proofs.AppDet.
Import ListNotations.
Open Scope Z_scope.

Lemma last_opt_some {A} (l : list A) : l <> [] -> exists x, last_opt l = Some x.
Proof.
  induction l as [|a r IH]; intros H; [congruence|].
  destruct r as [|b r']; [exists a; reflexivity|].
  destruct IH as [x Hx]; [discriminate|]. exists x. simpl in *. exact Hx.
Qed.

Lemma last_opt_none {A} (l : list A) : last_opt l = None -> l = [].
Proof.
  destruct l as [|a r]; [reflexivity|]. intros H.
  destruct (last_opt_some (a :: r)) as [x Hx]; [discriminate|]. congruence.
Qed.

Lemma check_config_configs s c b : check_config s c = Some b -> True.
Proof. trivial. Qed.

(* the configs of the state only ever grow at the end *)
Definition configs_extend (s s' : state) : Prop := exists extra, configs s' = configs s ++ extra.

Lemma configs_extend_refl s : configs_extend s s.
Proof. exists []. rewrite app_nil_r. reflexivity. Qed.

Ltac ext_refl := solve [exists []; rewrite app_nil_r; reflexivity].
Ltac dkg_fact f name :=
  match goal with H : start_dkg _ _ = _ |- _ =>
    pose proof (f_equal (fun x => f (fst x)) H) as name; simpl in name end.

Lemma start_dkg_configs s c : configs (fst (start_dkg s c)) = configs s.
Proof. reflexivity. Qed.

Lemma deliver_message_configs e s sender p s' r :
  deliver_message e s sender p = Some (s', r) -> configs_extend s s'.
Proof.
  destruct p; simpl.
  - unfold deliver_batch_config. branches; intros [= <- <-]; try ext_refl.
    dkg_fact configs HH. eexists. rewrite <- HH. reflexivity.
  - unfold deliver_block_seen. branches; intros [= <- <-]; ext_refl.
  - unfold deliver_check_in. branches; intros [= <- <-]; ext_refl.
  - unfold deliver_dkg_result. branches; intros [= <- <-]; try ext_refl.
    dkg_fact configs HH. exists []. rewrite app_nil_r, <- HH. reflexivity.
  - unfold handle_poly_eval. branches; intros [= <- <-]; ext_refl.
  - unfold handle_poly_commitment. branches; intros [= <- <-]; ext_refl.
  - unfold handle_accusation. branches; intros [= <- <-]; ext_refl.
  - unfold handle_apology. branches; intros [= <- <-]; ext_refl.
  - intros [= <- <-]. ext_refl.
Qed.

(* no panic when the config list is non-empty *)
Lemma deliver_message_total e s sender p :
  configs s <> [] -> deliver_message e s sender p <> None.
Proof.
  intros Hne. destruct p; simpl; try discriminate.
  - unfold deliver_batch_config.
    destruct (last_opt_some (configs s) Hne) as [lc Hlc]. rewrite Hlc.
    unfold check_config. rewrite Hlc. simpl.
    branches; try discriminate.
    all: try match goal with H : outcome _ _ _ = Some None |- _ => apply outcome_never_panics in H; contradiction end.
    all: try match goal with H : (if _ then _ else _) = None |- _ => try rewrite Hlc in H; revert H; branches; discriminate end.
  - unfold deliver_dkg_result. branches; try discriminate.
    all: try match goal with H : outcome _ _ _ = Some None |- _ => apply outcome_never_panics in H; contradiction end.
Qed.

Definition cfg_ok (s : state) : Prop := configs s <> [].

Lemma end_block_configs_length s : forall cs prev,
  length (fst (end_block_configs s prev cs)) = length cs.
Proof.
  induction cs as [|c r IH]; intros prev; simpl; [reflexivity|].
  match goal with |- context [end_block_configs s ?p r] => specialize (IH p); destruct (end_block_configs s p r) as [r' evs] end.
  simpl in *. congruence.
Qed.

Lemma step_cfg_ok e s c : cfg_ok s -> cfg_ok (fst (step e s c)) /\ snd (step e s c) <> RPanic.
Proof.
  intros H. unfold cfg_ok in *. destruct c; simpl.
  - unfold begin_block. destruct (height =? 1); [|simpl; split; [exact H|discriminate]].
    destruct (configs s) eqn:Ec; [congruence|]. simpl. split; [rewrite Ec; discriminate|discriminate].
  - destruct (check_tx s t) as [s' code] eqn:E. simpl. split; [|discriminate].
    unfold check_tx in E. revert E. branches; intros [= <- <-]; exact H.
  - destruct (deliver_tx e s t) as [[s' [code evs]]|] eqn:E; simpl.
    + split; [|discriminate]. unfold deliver_tx in E. revert E.
      destruct t as [|signer chain nonce p]; [intros [= <- <- <-]; exact H|].
      branches; try (intros [= <- <- <-]; exact H).
      intros E. apply deliver_message_configs in E. destruct E as [extra Hx]. rewrite Hx. simpl.
      intros Hc. apply app_eq_nil in Hc. destruct Hc as [Hc _]. simpl in Hc. contradiction.
    + exfalso. unfold deliver_tx in E. revert E.
      destruct t as [|signer chain nonce p]; [discriminate|].
      branches; try discriminate. apply deliver_message_total. simpl. exact H.
  - unfold end_block. pose proof (end_block_configs_length s (configs s) None) as Hl.
    destruct (end_block_configs s None (configs s)) as [cs evs]. simpl in *.
    split; [|discriminate]. intros Hc. rewrite Hc in Hl. simpl in Hl.
    destruct (configs s); [congruence|discriminate].
  - split; [exact H|discriminate].
Qed.

Lemma init_chain_cfg_ok g s : init_chain g = Some s -> cfg_ok s.
Proof. unfold init_chain. branches; try discriminate. intros [= <-]. unfold cfg_ok. simpl. discriminate. Qed.

Theorem run_never_panics cs : forall es k s,
  cfg_ok s -> ~ In RPanic (snd (run_enums es k s cs)).
Proof.
  induction cs as [|c r IH]; intros es k s H; simpl; [tauto|].
  destruct (step_cfg_ok (es k) s c H) as [H1 H2].
  destruct (step (es k) s c) as [s1 o]. simpl in *.
  specialize (IH es (S k) s1 H1). destruct (run_enums es (S k) s1 r) as [s2 os]. simpl in *.
  intros [Hp|Hp]; [congruence|contradiction].
Qed.

(* ---------- refused transactions ---------- *)
Lemma deliver_bad e s : deliver_tx e s TxBad = Some (s, (code_error, [])).
Proof. reflexivity. Qed.

Lemma deliver_wrong_chain e s signer chain nonce p :
  chain <> chain_id s -> deliver_tx e s (Tx signer chain nonce p) = Some (s, (code_error, [])).
Proof. intros H. simpl. apply bytes_eqb_neq in H. rewrite H. reflexivity. Qed.

Lemma deliver_replayed e s signer chain nonce p :
  nonce_used (nonces s) signer nonce = true ->
  deliver_tx e s (Tx signer chain nonce p) = Some (s, (code_error, [])).
Proof. intros H. simpl. destruct (negb (bytes_eqb chain (chain_id s))); [reflexivity|]. rewrite H. reflexivity. Qed.

Lemma check_bad s : check_tx s TxBad = (s, 1%N).
Proof. reflexivity. Qed.

Lemma check_wrong_chain s signer chain nonce p :
  chain <> chain_id s -> check_tx s (Tx signer chain nonce p) = (s, 1%N).
Proof. intros H. simpl. apply bytes_eqb_neq in H. rewrite H. reflexivity. Qed.

Lemma check_replayed s signer chain nonce p :
  nonce_used (nonces s) signer nonce = true -> check_tx s (Tx signer chain nonce p) = (s, 1%N).
Proof. intros H. simpl. destruct (negb (bytes_eqb chain (chain_id s))); [reflexivity|]. rewrite H. reflexivity. Qed.

(* the check-tx member set is the set of keypers of all configs, and is non-empty *)
Definition members_ok (s : state) : Prop :=
  chk_members s <> [] /\ forall a, mem_addr a (chk_members s) = is_keyper_any s a.

Lemma mem_addr_app a l1 l2 : mem_addr a (l1 ++ l2) = mem_addr a l1 || mem_addr a l2.
Proof. induction l1 as [|x r IH]; simpl; [reflexivity|]. rewrite IH. apply orb_assoc. Qed.

Lemma mem_all_members a cs : mem_addr a (all_members cs) = existsb (fun c => is_keyper c a) cs.
Proof.
  unfold all_members. induction cs as [|c r IH]; simpl; [reflexivity|].
  rewrite mem_addr_app, IH. reflexivity.
Qed.

Lemma check_outsider s signer chain nonce p :
  members_ok s -> is_keyper_any s signer = false ->
  check_tx s (Tx signer chain nonce p) = (s, 1%N).
Proof.
  intros [Hne Hm] Hk. simpl.
  destruct (negb (bytes_eqb chain (chain_id s))); [reflexivity|].
  destruct (nonce_used (nonces s) signer nonce); [reflexivity|].
  rewrite Hm, Hk. destruct (chk_members s); [congruence|]. reflexivity.
Qed.

Lemma init_chain_members_ok g s : init_chain g = Some s -> members_ok s.
Proof.
  unfold init_chain. destruct (negb (ensure_valid _)) eqn:Ev; [discriminate|].
  destruct (negb (forallb _ _)); [discriminate|]. intros [= <-]. unfold members_ok, is_keyper_any. simpl.
  split.
  - unfold ensure_valid in Ev. simpl in Ev. destruct (g_keypers g); [simpl in Ev; discriminate|discriminate].
  - intros a. rewrite orb_false_r. reflexivity.
Qed.

Lemma end_block_configs_keypers s : forall cs prev,
  map c_keypers (fst (end_block_configs s prev cs)) = map c_keypers cs.
Proof.
  induction cs as [|c r IH]; intros prev; simpl; [reflexivity|].
  match goal with |- context [end_block_configs s ?p r] => specialize (IH p); destruct (end_block_configs s p r) as [r' evs] end.
  simpl in *. rewrite IH. f_equal.
  repeat match goal with |- context [if ?b then _ else _] => destruct b end; reflexivity.
Qed.

Lemma existsb_keypers_map a cs cs' :
  map c_keypers cs' = map c_keypers cs ->
  existsb (fun c => is_keyper c a) cs' = existsb (fun c => is_keyper c a) cs.
Proof.
  revert cs'. induction cs as [|c r IH]; intros [|c' r'] H; simpl in *; try discriminate; [reflexivity|].
  injection H as H1 H2. unfold is_keyper at 1 3. rewrite H1. rewrite (IH r' H2). reflexivity.
Qed.

Lemma deliver_message_members_ok e s sender p s' r :
  members_ok s -> deliver_message e s sender p = Some (s', r) -> members_ok s'.
Proof.
  intros Hm. destruct p; simpl.
  - unfold deliver_batch_config. branches; intros [= <- <-]; try exact Hm.
    match goal with H : start_dkg _ _ = _ |- _ =>
      pose proof (f_equal (fun x => chk_members (fst x)) H) as HM;
      pose proof (f_equal (fun x => configs (fst x)) H) as HC; simpl in HM, HC end.
    unfold members_ok, is_keyper_any. rewrite <- HM, <- HC. split.
    + destruct Hm as [Hne Hmm]. intros Hc.
      destruct (chk_members s) as [|m ms] eqn:Em; [congruence|].
      specialize (Hmm m). simpl in Hmm. rewrite bytes_eqb_refl in Hmm. simpl in Hmm.
      assert (Hx : mem_addr m (all_members (configs s ++ [mkConfig act keypers threshold idx false false])) = false)
        by (rewrite Hc; reflexivity).
      rewrite mem_all_members, existsb_app in Hx. unfold is_keyper_any in Hmm.
      rewrite <- Hmm in Hx. discriminate.
    + intros a. apply mem_all_members.
  - unfold deliver_block_seen. branches; intros [= <- <-]; exact Hm.
  - unfold deliver_check_in. branches; intros [= <- <-]; exact Hm.
  - unfold deliver_dkg_result. branches; intros [= <- <-]; try exact Hm.
    match goal with H : start_dkg _ _ = _ |- _ =>
      pose proof (f_equal (fun x => chk_members (fst x)) H) as HM;
      pose proof (f_equal (fun x => configs (fst x)) H) as HC; simpl in HM, HC end.
    unfold members_ok, is_keyper_any. rewrite <- HM, <- HC. exact Hm.
  - unfold handle_poly_eval. branches; intros [= <- <-]; exact Hm.
  - unfold handle_poly_commitment. branches; intros [= <- <-]; exact Hm.
  - unfold handle_accusation. branches; intros [= <- <-]; exact Hm.
  - unfold handle_apology. branches; intros [= <- <-]; exact Hm.
  - intros [= <- <-]. exact Hm.
Qed.

Lemma step_members_ok e s c : members_ok s -> members_ok (fst (step e s c)).
Proof.
  intros Hm. destruct c; simpl.
  - destruct (begin_block s height); exact Hm.
  - destruct (check_tx s t) as [s' code] eqn:E. simpl. unfold check_tx in E. revert E.
    branches; intros [= <- <-]; exact Hm.
  - destruct (deliver_tx e s t) as [[s' [code evs]]|] eqn:E; simpl; [|exact Hm].
    unfold deliver_tx in E. revert E. destruct t as [|signer chain nonce p]; [intros [= <- <- <-]; exact Hm|].
    branches; try (intros [= <- <- <-]; exact Hm).
    intros E. eapply deliver_message_members_ok; [|exact E]. exact Hm.
  - unfold end_block. pose proof (end_block_configs_keypers s (configs s) None) as Hk.
    destruct (end_block_configs s None (configs s)) as [cs evs]. simpl in *.
    destruct Hm as [Hne Hm]. split; [exact Hne|]. intros a. rewrite Hm. unfold is_keyper_any. simpl.
    symmetry. apply existsb_keypers_map. exact Hk.
  - exact Hm.
Qed.

(* ---------- the error code means "no effect" ---------- *)
(* Whatever the reason a message is answered with the error code - sender not a keyper, a
   structurally invalid payload of any type, an unknown eon, a repeated vote - the message
   handler returns the state it was given and no events. *)
Ltac err_branch :=
  let H := fresh "HH" in let Hc := fresh "Hc" in
  intros H; first [discriminate H | (injection H as <-;
    unfold err, seen, code_error, code_ok, code_seen in *; cbn [fst snd]; intros Hc;
    first [discriminate Hc | split; reflexivity])].

Ltac err_branch_l :=
  let H := fresh "HH" in let Hc := fresh "Hc" in
  intros H; first [discriminate H | (injection H as <-;
    unfold err, seen, code_error, code_ok, code_seen in *; cbn [fst snd]; intros Hc;
    first [discriminate Hc | (split; [reflexivity|left; reflexivity])])].

(* the only error response that is not a pure no-op: a config vote that completes a quorum for
   a candidate which then fails checkConfig at acceptance leaves the vote table reset (and
   nothing else changed) *)
Definition same_but_cfg_voting (a b : state) : Prop := a = set_cfg_voting b (cfg_voting a).

Lemma deliver_message_error_no_effect e s sender p x :
  deliver_message e s sender p = Some x -> fst (snd x) = code_error ->
  snd (snd x) = [] /\
  (fst x = s \/ (exists act ks t i, p = PBatchConfig act ks t i) /\ same_but_cfg_voting (fst x) s).
Proof.
  destruct p; simpl.
  - unfold deliver_batch_config. branches; try (err_branch; fail).
    all: try (let H := fresh in intros H; first [discriminate H | (injection H as <-;
      unfold err, seen, code_error, code_ok, code_seen in *; cbn [fst snd]; intros Hc;
      first [discriminate Hc | (split; [reflexivity|]; first [left; reflexivity | right; split; [do 4 eexists; reflexivity|reflexivity]])])]).
  - unfold deliver_block_seen. branches; err_branch_l.
  - unfold deliver_check_in. branches; err_branch_l.
  - unfold deliver_dkg_result. branches; err_branch_l.
  - unfold handle_poly_eval. branches; err_branch_l.
  - unfold handle_poly_commitment. branches; err_branch_l.
  - unfold handle_accusation. branches; err_branch_l.
  - unfold handle_apology. branches; err_branch_l.
  - err_branch_l.
Qed.

(* A transaction answered with the error code emits no events and changes nothing but (at most)
   the record of its own (signer, nonce) pair - and, for a config vote only, the vote table. *)
Theorem error_code_no_effect e s t s' code evs :
  deliver_tx e s t = Some (s', (code, evs)) -> code = code_error ->
  evs = [] /\
  (s' = s \/
   exists signer chain nonce p, t = Tx signer chain nonce p /\
     let s1 := set_nonces s ((signer, nonce) :: nonces s) in
     (s' = s1 \/ (exists act ks th i, p = PBatchConfig act ks th i) /\ same_but_cfg_voting s' s1)).
Proof.
  intros H Hc. unfold deliver_tx in H.
  destruct t as [|signer chain nonce p].
  - unfold err in H. injection H as <- _ <-. split; [reflexivity|left; reflexivity].
  - revert H. branches.
    + unfold err. intros [= <- _ <-]. split; [reflexivity|left; reflexivity].
    + unfold err. intros [= <- _ <-]. split; [reflexivity|left; reflexivity].
    + intros H. apply deliver_message_error_no_effect in H; [|exact Hc]. cbn [fst snd] in H.
      destruct H as [-> H]. split; [reflexivity|]. right. exists signer, chain, nonce, p.
      split; [reflexivity|]. cbv zeta. destruct H as [->|[Hp Hs]]; [left; reflexivity|right; split; assumption].
Qed.
