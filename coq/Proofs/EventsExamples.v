(* A small concrete instance of the dependency codecs (two "points", one "key", a casing
   function), satisfying the assumed laws; used by the non-vacuity examples of
   Properties/C14.v. *)
From Coq Require Import String Ascii List NArith ZArith Bool Lia.
From Verif Require Import Lib.Bytes Generated.EventSchema Model.Events Proofs.EventsCodec Proofs.Events.
Import ListNotations.
Open Scope N_scope.

Definition ex_enc_pt (p : bool) : bytes := repeat (if p then 1 else 0) 96.
Definition ex_dec_pt (b : bytes) : option bool :=
  if bytes_eqb b (ex_enc_pt true) then Some true
  else if bytes_eqb b (ex_enc_pt false) then Some false else None.
Definition ex_enc_key (_ : unit) : bytes := 4 :: repeat 7 64.
Definition ex_dec_key (b : bytes) : option unit := if bytes_eqb b (ex_enc_key tt) then Some tt else None.
(* upper-case the letters with an odd character code: a, c, e *)
Definition ex_cs (a : bytes) : list bool := map N.odd (hex_encode a).

Lemma ex_pt_roundtrip p : ex_dec_pt (ex_enc_pt p) = Some p.
Proof. destruct p; vm_compute; reflexivity. Qed.
Lemma ex_pt_length p : length (ex_enc_pt p) = pt_len.
Proof. destruct p; reflexivity. Qed.
Lemma ex_pt_bytes p : bytes_ok (ex_enc_pt p).
Proof.
  apply Forall_forall. intros x Hx. apply repeat_spec in Hx. subst. destruct p; unfold byte_ok; lia.
Qed.
Lemma ex_key_roundtrip k : ex_dec_key (ex_enc_key k) = Some k.
Proof. destruct k. vm_compute. reflexivity. Qed.
Lemma ex_key_bytes k : bytes_ok (ex_enc_key k).
Proof.
  constructor; [unfold byte_ok; lia|]. apply Forall_forall. intros x Hx. apply repeat_spec in Hx.
  subst. unfold byte_ok. lia.
Qed.

Definition ex_event := event bool unit.
Definition ex_make_abci : ex_event -> outcome abci_event := make_abci_event bool unit ex_cs ex_enc_pt ex_enc_key.
Definition ex_make_event : abci_event -> Z -> outcome ex_event := make_event bool unit ex_cs ex_dec_pt ex_dec_key.
Definition ex_make_events : Z -> list abci_event -> outcome (list ex_event) :=
  make_events bool unit ex_cs ex_dec_pt ex_dec_key.

Definition ex_addr1 : bytes := hx "5aaeb6053f3e94c9b9a09f33669435e7ef1beaed".
Definition ex_addr2 : bytes := repeat 0 20.

Definition at_ (k v : string) : attr := mk_attr (bs k) (bs v) false.
Definition ati (k v : string) : attr := mk_attr (bs k) (bs v) true.

Lemma ex_addr1_ok : addr_ok ex_addr1.
Proof. split; [reflexivity|]. unfold ex_addr1. vm_compute hx. repeat constructor. Qed.
Lemma ex_addr2_ok : addr_ok ex_addr2.
Proof. split; [reflexivity|]. repeat constructor. Qed.
Lemma ex_apology_wf : wf_event bool unit (EvApology bool unit 0 7 ex_addr1 [ex_addr2; ex_addr1] [0; 256; 5]).
Proof.
  split; [|exact I]. unfold wf_fields. cbn [to_fields].
  repeat apply Forall_cons; try apply Forall_nil; cbn [snd wf_value]; try exact I.
  - unfold u64_max; lia.
  - exact ex_addr1_ok.
  - exact ex_addr2_ok.
  - exact ex_addr1_ok.
Qed.
Lemma ex_polyeval_wf : wf_event bool unit (EvPolyEval bool unit 0 ex_addr2 0 [] []).
Proof.
  split; [|exact I]. unfold wf_fields. cbn [to_fields].
  repeat apply Forall_cons; try apply Forall_nil; cbn [snd wf_value]; try exact I.
  - exact ex_addr2_ok.
  - unfold u64_max; lia.
Qed.
