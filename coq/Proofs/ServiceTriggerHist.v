(* C02 over operation histories: invariants of the states reachable from the empty database
   by any list of operations (any enumeration orders inside the NewBlock operations), and the
   theorems of Properties/C02.v. *)
From Coq Require Import List NArith ZArith Bool Lia Permutation Sorted.
From Verif Require Import Lib.Bytes Lib.Assoc Lib.Sorting Model.ServiceTrigger
  Proofs.ServiceTriggerSpec Proofs.ServiceTrigger.
Import ListNotations.
Open Scope Z_scope.

Lemma run_snoc c ops o : run c (ops ++ [o]) = fst (step c (run c ops) o).
Proof. unfold run. rewrite fold_left_app. reflexivity. Qed.

Lemma run_app c ops1 ops2 :
  run c (ops1 ++ ops2) = fold_left (fun s o => fst (step c s o)) ops2 (run c ops1).
Proof. unfold run. apply fold_left_app. Qed.

(* ------------------------------------------------------------------------------------- *)
(* how the tables change in one database edit *)

Lemma ir_upsert_in l key eon id ts blk r :
  In r (ir_upsert l key eon id ts blk) ->
  In r l \/ (ir_key r = key /\ ir_identity r = id /\ ir_timestamp r = ts /\ ir_block r = blk).
Proof.
  induction l as [|x rest IH]; simpl.
  - intros [<-|[]]. right. simpl. auto.
  - destruct (bytes_eqb (ir_key x) key) eqn:E.
    + apply bytes_eqb_eq in E. intros [<-|Hin]; [right; simpl; auto|left; right; exact Hin].
    + intros [<-|Hin]; [left; left; reflexivity|]. destruct (IH Hin) as [H|H]; [left; right; exact H|right; exact H].
Qed.

Lemma ir_upsert_keys l key eon id ts blk x :
  In x (map ir_pk (ir_upsert l key eon id ts blk)) <-> x = key \/ In x (map ir_pk l).
Proof.
  induction l as [|y rest IH]; simpl.
  - intuition.
  - destruct (bytes_eqb (ir_key y) key) eqn:E; simpl.
    + apply bytes_eqb_eq in E. unfold ir_pk in *. simpl. subst key. intuition congruence.
    + rewrite IH. intuition.
Qed.

Lemma ir_upsert_nodup l key eon id ts blk :
  NoDup (map ir_pk l) -> NoDup (map ir_pk (ir_upsert l key eon id ts blk)).
Proof.
  induction l as [|y rest IH]; simpl; intros H.
  - constructor; [intros []|constructor].
  - inversion H as [|? ? Hn Hd]; subst.
    destruct (bytes_eqb (ir_key y) key) eqn:E; simpl.
    + constructor; assumption.
    + constructor; [|apply IH; exact Hd].
      rewrite ir_upsert_keys. intros [Hk|Hin]; [|contradiction].
      unfold ir_pk in Hk. rewrite Hk, bytes_eqb_refl in E. discriminate.
Qed.

Lemma et_upsert_in l eon id expi blk x :
  In x (et_upsert l eon id expi blk) ->
  (exists x0, In x0 l /\ et_eon x = et_eon x0 /\ et_identity x = et_identity x0 /\ et_decrypted x = et_decrypted x0)
  \/ x = mkEt eon id expi false blk.
Proof.
  induction l as [|y rest IH]; simpl.
  - intros [<-|[]]. right. reflexivity.
  - destruct (et_match eon id y) eqn:E.
    + apply et_match_true in E. destruct E as [E1 E2].
      intros [Hx|Hin]; left.
      * exists y. subst x. simpl. auto.
      * exists x. auto.
    + intros [Hx|Hin]; [left; exists x; subst x; auto|].
      destruct (IH Hin) as [(x0 & H0 & H)|H]; [left; exists x0; auto|right; exact H].
Qed.

Lemma et_upsert_keys l eon id expi blk k :
  In k (map et_pk (et_upsert l eon id expi blk)) <-> k = (eon, id) \/ In k (map et_pk l).
Proof.
  induction l as [|y rest IH]; simpl.
  - intuition.
  - destruct (et_match eon id y) eqn:E; simpl.
    + apply et_match_true in E. destruct E as [E1 E2].
      unfold et_pk in *. simpl. subst eon id. intuition congruence.
    + rewrite IH. intuition.
Qed.

Lemma et_upsert_nodup l eon id expi blk :
  NoDup (map et_pk l) -> NoDup (map et_pk (et_upsert l eon id expi blk)).
Proof.
  induction l as [|y rest IH]; simpl; intros H.
  - constructor; [intros []|constructor].
  - inversion H as [|? ? Hn Hd]; subst.
    destruct (et_match eon id y) eqn:E; simpl.
    + apply et_match_true in E. destruct E as [E1 E2].
      constructor; [|assumption]. unfold et_pk at 1. simpl. rewrite <- E2. exact Hn.
    + constructor; [|apply IH; exact Hd].
      rewrite et_upsert_keys. intros [Hk|Hin]; [|contradiction].
      unfold et_pk in Hk. injection Hk as H1 H2.
      assert (et_match eon id y = true) by (apply et_match_true; auto). congruence.
Qed.

Lemma existsb_ft_match_false l eon id :
  existsb (ft_match eon id) l = false -> ~ In (eon, id) (map ft_pk l).
Proof.
  intros H Hin. apply in_map_iff in Hin. destruct Hin as (f & Hf & Hfin).
  unfold ft_pk in Hf. injection Hf as H1 H2.
  pose proof (existsb_false_forall _ _ H f Hfin) as Hm.
  assert (ft_match eon id f = true) by (apply ft_match_true; auto). congruence.
Qed.

(* insert_fired: the database is unchanged or gets exactly one new fired row, for a registered
   trigger, under a fresh key *)
Lemma insert_fired_some d eon id blk d' :
  insert_fired d eon id blk = Some d' ->
  d' = d \/
  (d' = set_fts d (fts d ++ [mkFt eon id blk]) /\ ~ In (eon, id) (map ft_pk (fts d)) /\
   exists x, In x (ets d) /\ et_eon x = eon /\ et_identity x = id).
Proof.
  unfold insert_fired. destruct (blk <? 0); [discriminate|].
  destruct (existsb (ft_match eon id) (fts d)) eqn:F; [intros [= <-]; left; reflexivity|].
  destruct (existsb (et_match eon id) (ets d)) eqn:E; [|discriminate].
  intros [= <-]. right. split; [reflexivity|]. split; [apply existsb_ft_match_false; exact F|].
  apply existsb_exists in E. destruct E as (x & Hx & Hm). apply et_match_true in Hm.
  exists x. tauto.
Qed.

(* the tables a fold of insert_fired leaves alone, and what it adds to fired_triggers *)
Lemma process_events_spec evs : forall d,
  let d' := process_events d evs in
  irs d' = irs d /\ ets d' = ets d /\ cfgs d' = cfgs d /\ eons d' = eons d /\ dkgs d' = dkgs d /\
  shares d' = shares d /\
  (NoDup (map ft_pk (fts d)) -> NoDup (map ft_pk (fts d'))) /\
  (forall f, In f (fts d') -> In f (fts d) \/ In f evs).
Proof.
  induction evs as [|ev rest IH]; intros d; simpl.
  - repeat split; auto.
  - unfold process_events in *. simpl.
    destruct (insert_fired d (ft_eon ev) (ft_identity ev) (ft_block ev)) as [d1|] eqn:I.
    + specialize (IH d1). simpl in IH. destruct IH as (H1 & H2 & H3 & H4 & H5 & H6 & H7 & H8).
      apply insert_fired_some in I. destruct I as [->|(-> & Hfresh & _)].
      * repeat split; auto. intros f Hf. destruct (H8 f Hf); auto.
      * simpl in *. repeat split; auto.
        -- intros Hnd. apply H7. rewrite map_app. simpl. apply NoDup_snoc; assumption.
        -- intros f Hf. destruct (H8 f Hf) as [Hin|Hin]; [|auto].
           apply in_app_or in Hin. destruct Hin as [Hin|[<-|[]]]; [auto|].
           right. left. destruct ev; reflexivity.
    + specialize (IH d). simpl in IH. destruct IH as (H1 & H2 & H3 & H4 & H5 & H6 & H7 & H8).
      repeat split; auto. intros f Hf. destruct (H8 f Hf); auto.
Qed.

Lemma fetch_events_in d start end_ logs f :
  In f (fetch_events d start end_ logs) ->
  In (ft_eon f, ft_identity f, ft_block f) logs /\ start <= ft_block f <= end_ /\
  exists x, In x (ets d) /\ et_eon x = ft_eon f /\ et_identity x = ft_identity f /\
            ft_block f <= et_expiration x /\ et_decrypted x = false /\ start <= et_expiration x /\
            ~ In (ft_pk f) (map ft_pk (fts d)).
Proof.
  unfold fetch_events. rewrite in_flat_map. intros (x & Hx & Hin).
  unfold active_triggers in Hx. apply filter_In in Hx. destruct Hx as [Hx Hact].
  apply andb_prop in Hact. destruct Hact as [Hact Hnf]. apply andb_prop in Hact. destruct Hact as [Hexp Hdec].
  apply Z.leb_le in Hexp. apply negb_true_iff in Hdec. apply negb_true_iff in Hnf.
  apply in_map_iff in Hin. destruct Hin as ([[leon lid] lblk] & <- & Hl).
  apply filter_In in Hl. destruct Hl as [Hl Hh]. unfold log_hits in Hh.
  apply andb_prop in Hh. destruct Hh as [Hh H4]. apply andb_prop in Hh. destruct Hh as [Hh H3].
  apply andb_prop in Hh. destruct Hh as [H1 H2].
  apply et_match_true in H1. destruct H1 as [H1a H1b].
  apply Z.leb_le in H2. apply Z.leb_le in H3. apply Z.leb_le in H4. simpl.
  split; [rewrite H1a, H1b; exact Hl|]. split; [lia|].
  exists x. repeat split; auto. apply existsb_ft_match_false. exact Hnf.
Qed.

Lemma insert_shares_spec ids : forall d eon ki,
  let d' := insert_shares d eon ki ids in
  irs d' = irs d /\ ets d' = ets d /\ fts d' = fts d /\ cfgs d' = cfgs d /\ eons d' = eons d /\ dkgs d' = dkgs d.
Proof.
  induction ids as [|i rest IH]; intros d eon ki; simpl; [repeat split; reflexivity|].
  unfold insert_shares in *. simpl.
  destruct (share_exists d eon i ki).
  - apply IH.
  - specialize (IH (set_shares d (shares d ++ [(eon, i, ki)])) eon ki). simpl in IH. exact IH.
Qed.

Lemma handle_trigger_tables c d blk ids r d' :
  handle_trigger c d blk ids = (r, d') ->
  irs d' = irs d /\ ets d' = ets d /\ fts d' = fts d /\ cfgs d' = cfgs d /\ eons d' = eons d /\ dkgs d' = dkgs d.
Proof.
  unfold handle_trigger.
  destruct (u64 blk >? 2^63 - 1); [intros [= _ <-]; repeat split; reflexivity|].
  destruct (eon_for_block d (u64 blk)) as [e|]; [|intros [= _ <-]; repeat split; reflexivity].
  unfold construct_shares.
  destruct ids as [|i0 ids0] eqn:Eids; [intros [= _ <-]; repeat split; reflexivity|]. rewrite <- Eids.
  destruct (Z.of_nat (length ids) >? to_i64 (max_keys c)); [intros [= _ <-]; repeat split; reflexivity|].
  destruct (get_keyper_index d (eo_cfg e) (me c)) as [| |ki]; try (intros [= _ <-]; repeat split; reflexivity).
  destruct (eo_cfg e <? 0); [intros [= _ <-]; repeat split; reflexivity|].
  destruct (forallb (fun id => share_exists d (eo_cfg e) id ki) ids); [intros [= _ <-]; repeat split; reflexivity|].
  destruct (get_dkg d (eo_eon e)) as [k|]; [|intros [= _ <-]; repeat split; reflexivity].
  destruct (dk_success k); simpl; [|intros [= _ <-]; repeat split; reflexivity].
  destruct (dk_decodable k); simpl; [|intros [= _ <-]; repeat split; reflexivity].
  intros [= _ <-]. apply insert_shares_spec.
Qed.

(* ------------------------------------------------------------------------------------- *)
(* one step: provenance of the rows of the three trigger tables *)

Definition ir_same (r r0 : ir_row) : Prop :=
  ir_key r = ir_key r0 /\ ir_eon r = ir_eon r0 /\ ir_identity r = ir_identity r0 /\
  ir_timestamp r = ir_timestamp r0 /\ ir_block r = ir_block r0 /\
  (ir_decrypted r0 = true -> ir_decrypted r = true).

Lemma ir_same_refl r : ir_same r r.
Proof. unfold ir_same. auto 10. Qed.

Lemma irs_step c s o r :
  In r (irs (st_db (fst (step c s o)))) ->
  (exists r0, In r0 (irs (st_db s)) /\ ir_same r r0) \/
  (exists e0, o = OpRegisterTime (ir_key r) e0 (ir_identity r) (ir_timestamp r) (ir_block r)).
Proof.
  assert (Hsame : In r (irs (st_db s)) -> (exists r0, In r0 (irs (st_db s)) /\ ir_same r r0) \/
                  (exists e0, o = OpRegisterTime (ir_key r) e0 (ir_identity r) (ir_timestamp r) (ir_block r))).
  { intros H. left. exists r. split; [exact H|apply ir_same_refl]. }
  destruct o; simpl; try exact Hsame.
  - (* NewBlock *) destruct (new_block c (st_db s) (st_latest s) number time enum_t enum_e). simpl. exact Hsame.
  - (* RegisterTime *)
    unfold register_time. destruct ((eon <? 0) || (block <? 0)); simpl; [exact Hsame|].
    intros H. apply ir_upsert_in in H. destruct H as [H|(H1 & H2 & H3 & H4)]; [apply Hsame; exact H|].
    right. exists eon. rewrite H1, H2, H3, H4. reflexivity.
  - (* RegisterEvent *)
    unfold register_event. destruct ((eon <? 0) || (block <? 0) || (expiration <? 0)); simpl; exact Hsame.
  - (* Fire *)
    destruct (insert_fired (st_db s) eon identity block) as [d'|] eqn:I; simpl; [|exact Hsame].
    apply insert_fired_some in I. destruct I as [->|(-> & _)]; exact Hsame.
  - (* Fetch *)
    destruct (process_events_spec (fetch_events (st_db s) start end_ logs) (st_db s)) as (H1 & _).
    rewrite H1. exact Hsame.
  - (* RollbackTime *) intros H. apply filter_In in H. apply Hsame. tauto.
  - (* AddConfig *)
    unfold add_config. destruct (existsb _ (cfgs (st_db s))); simpl; exact Hsame.
  - (* EonStarted *)
    unfold eon_started. destruct (existsb _ (eons (st_db s))); simpl; exact Hsame.
  - (* DKGResult *)
    unfold dkg_result. destruct (existsb _ (dkgs (st_db s))); simpl; exact Hsame.
  - (* KeysReleased *)
    intros H. apply in_map_iff in H. destruct H as (r0 & Hr & Hin). left. exists r0. split; [exact Hin|].
    destruct (existsb (fun x => bytes_eqb x (ir_identity r0)) ids && (ir_eon r0 =? eon)); subst r;
      unfold ir_same; simpl; auto 10.
  - (* HandleTrigger *)
    destruct (handle_trigger c (st_db s) block ids) as [res d'] eqn:Hh. simpl.
    apply handle_trigger_tables in Hh. destruct Hh as (H1 & _). rewrite H1. exact Hsame.
Qed.

Definition et_same (x x0 : et_row) : Prop :=
  et_eon x = et_eon x0 /\ et_identity x = et_identity x0 /\ (et_decrypted x0 = true -> et_decrypted x = true).

Lemma ets_step c s o x :
  In x (ets (st_db (fst (step c s o)))) ->
  (exists x0, In x0 (ets (st_db s)) /\ et_same x x0) \/
  (exists expi blk, o = OpRegisterEvent (et_eon x) (et_identity x) expi blk).
Proof.
  assert (Hsame : In x (ets (st_db s)) -> (exists x0, In x0 (ets (st_db s)) /\ et_same x x0) \/
                  (exists expi blk, o = OpRegisterEvent (et_eon x) (et_identity x) expi blk)).
  { intros H. left. exists x. unfold et_same. auto. }
  destruct o; simpl; try exact Hsame.
  - destruct (new_block c (st_db s) (st_latest s) number time enum_t enum_e). simpl. exact Hsame.
  - unfold register_time. destruct ((eon <? 0) || (block <? 0)); simpl; exact Hsame.
  - unfold register_event. destruct ((eon <? 0) || (block <? 0) || (expiration <? 0)); simpl; [exact Hsame|].
    intros H. apply et_upsert_in in H. destruct H as [(x0 & H0 & H1 & H2 & H3) | -> ].
    + left. exists x0. unfold et_same. split; [exact H0|]. rewrite H1, H2, H3. auto.
    + right. simpl. eauto.
  - destruct (insert_fired (st_db s) eon identity block) as [d'|] eqn:I; simpl; [|exact Hsame].
    apply insert_fired_some in I. destruct I as [->|(-> & _)]; exact Hsame.
  - destruct (process_events_spec (fetch_events (st_db s) start end_ logs) (st_db s)) as (_ & H2 & _).
    rewrite H2. exact Hsame.
  - (* RollbackEvent *) intros H. apply filter_In in H. apply Hsame. tauto.
  - unfold add_config. destruct (existsb _ (cfgs (st_db s))); simpl; exact Hsame.
  - unfold eon_started. destruct (existsb _ (eons (st_db s))); simpl; exact Hsame.
  - unfold dkg_result. destruct (existsb _ (dkgs (st_db s))); simpl; exact Hsame.
  - intros H. apply in_map_iff in H. destruct H as (x0 & Hr & Hin). left. exists x0. split; [exact Hin|].
    destruct (existsb (fun y => bytes_eqb y (et_identity x0)) ids && (et_eon x0 =? eon)); subst x;
      unfold et_same; simpl; auto.
  - destruct (handle_trigger c (st_db s) block ids) as [res d'] eqn:Hh. simpl.
    apply handle_trigger_tables in Hh. destruct Hh as (_ & H2 & _). rewrite H2. exact Hsame.
Qed.

Lemma fts_step c s o f :
  In f (fts (st_db (fst (step c s o)))) ->
  In f (fts (st_db s)) \/
  match o with
  | OpFire e i b => f = mkFt e i b
  | OpFetch start end_ logs => In f (fetch_events (st_db s) start end_ logs)
  | _ => False
  end.
Proof.
  destruct o; simpl; try (intros H; left; exact H).
  - destruct (new_block c (st_db s) (st_latest s) number time enum_t enum_e). simpl. auto.
  - unfold register_time. destruct ((eon <? 0) || (block <? 0)); simpl; auto.
  - unfold register_event. destruct ((eon <? 0) || (block <? 0) || (expiration <? 0)); simpl; auto.
  - destruct (insert_fired (st_db s) eon identity block) as [d'|] eqn:I; simpl; [|auto].
    apply insert_fired_some in I. destruct I as [->|(-> & _)]; [auto|]. simpl.
    intros H. apply in_app_or in H. destruct H as [H|[<-|[]]]; auto.
  - destruct (process_events_spec (fetch_events (st_db s) start end_ logs) (st_db s)) as (_ & _ & _ & _ & _ & _ & _ & H8).
    intros H. apply H8 in H. exact H.
  - (* Unfire *) intros H. apply filter_In in H. left. tauto.
  - (* RollbackEvent *) intros H. apply filter_In in H. left. tauto.
  - unfold add_config. destruct (existsb _ (cfgs (st_db s))); simpl; auto.
  - unfold eon_started. destruct (existsb _ (eons (st_db s))); simpl; auto.
  - unfold dkg_result. destruct (existsb _ (dkgs (st_db s))); simpl; auto.
  - destruct (handle_trigger c (st_db s) block ids) as [res d'] eqn:Hh. simpl.
    apply handle_trigger_tables in Hh. destruct Hh as (_ & _ & H3 & _). rewrite H3. auto.
Qed.

(* ------------------------------------------------------------------------------------- *)
(* invariants of reachable states *)

Lemma map_pk_released_ir (l : list ir_row) hit :
  map ir_pk (map (fun r => if hit r : bool
                           then mkIr (ir_key r) (ir_eon r) (ir_identity r) (ir_timestamp r) true (ir_block r)
                           else r) l) = map ir_pk l.
Proof. rewrite map_map. apply map_ext. intros r. destruct (hit r); reflexivity. Qed.

Lemma map_pk_released_et (l : list et_row) hit :
  map et_pk (map (fun r => if hit r : bool
                           then mkEt (et_eon r) (et_identity r) (et_expiration r) true (et_block r)
                           else r) l) = map et_pk l.
Proof. rewrite map_map. apply map_ext. intros r. destruct (hit r); reflexivity. Qed.

Lemma keys_unique_step c s o : keys_unique (st_db s) -> keys_unique (st_db (fst (step c s o))).
Proof.
  intros (Hi & He & Hf).
  destruct o; simpl; try (split; [exact Hi|split; [exact He|exact Hf]]).
  - destruct (new_block c (st_db s) (st_latest s) number time enum_t enum_e). simpl. repeat split; assumption.
  - unfold register_time. destruct ((eon <? 0) || (block <? 0)); simpl; [repeat split; assumption|].
    split; [apply ir_upsert_nodup; exact Hi|split; assumption].
  - unfold register_event. destruct ((eon <? 0) || (block <? 0) || (expiration <? 0)); simpl; [repeat split; assumption|].
    split; [exact Hi|split; [apply et_upsert_nodup; exact He|exact Hf]].
  - destruct (insert_fired (st_db s) eon identity block) as [d'|] eqn:I; simpl; [|repeat split; assumption].
    apply insert_fired_some in I. destruct I as [->|(-> & Hfresh & _)]; [repeat split; assumption|].
    split; [exact Hi|split; [exact He|]]. simpl. rewrite map_app. simpl. apply NoDup_snoc; assumption.
  - destruct (process_events_spec (fetch_events (st_db s) start end_ logs) (st_db s)) as (H1 & H2 & _ & _ & _ & _ & H7 & _).
    unfold keys_unique. rewrite H1, H2. split; [exact Hi|split; [exact He|apply H7; exact Hf]].
  - split; [exact Hi|split; [exact He|apply NoDup_map_filter; exact Hf]].
  - split; [apply NoDup_map_filter; exact Hi|split; [exact He|exact Hf]].
  - split; [exact Hi|split; [apply NoDup_map_filter; exact He|apply NoDup_map_filter; exact Hf]].
  - unfold add_config. destruct (existsb _ (cfgs (st_db s))); simpl; repeat split; assumption.
  - unfold eon_started. destruct (existsb _ (eons (st_db s))); simpl; repeat split; assumption.
  - unfold dkg_result. destruct (existsb _ (dkgs (st_db s))); simpl; repeat split; assumption.
  - split; [|split; [|exact Hf]]; simpl; rewrite map_map.
    + rewrite (map_ext _ ir_pk); [exact Hi|]. intros r.
      destruct (existsb (fun x => bytes_eqb x (ir_identity r)) ids && (ir_eon r =? eon)); reflexivity.
    + rewrite (map_ext _ et_pk); [exact He|]. intros r.
      destruct (existsb (fun x => bytes_eqb x (et_identity r)) ids && (et_eon r =? eon)); reflexivity.
  - destruct (handle_trigger c (st_db s) block ids) as [res d'] eqn:Hh. simpl.
    apply handle_trigger_tables in Hh. destruct Hh as (H1 & H2 & H3 & _).
    unfold keys_unique. rewrite H1, H2, H3. repeat split; assumption.
Qed.

Theorem keys_unique_run c ops : keys_unique (st_db (run c ops)).
Proof.
  induction ops as [|o ops IH] using rev_ind.
  - unfold keys_unique. simpl. repeat split; constructor.
  - rewrite run_snoc. apply keys_unique_step. exact IH.
Qed.

Theorem time_registered_run c ops r : In r (irs (st_db (run c ops))) -> time_registered ops r.
Proof.
  revert r. induction ops as [|o ops IH] using rev_ind; intros r.
  - simpl. intros [].
  - rewrite run_snoc. intros H. apply irs_step in H. destruct H as [(r0 & H0 & Hs)|(e0 & ->)].
    + destruct (IH _ H0) as (e0 & Hin). destruct Hs as (S1 & S2 & S3 & S4 & S5 & _).
      exists e0. rewrite S1, S3, S4, S5. apply in_or_app. left. exact Hin.
    + exists e0. apply in_or_app. right. left. reflexivity.
Qed.

Theorem fired_provenance_run c ops f : In f (fts (st_db (run c ops))) -> fired_provenance c ops f.
Proof.
  revert f. induction ops as [|o ops IH] using rev_ind; intros f.
  - simpl. intros [].
  - rewrite run_snoc. intros H. apply fts_step in H. destruct H as [H|H].
    + destruct (IH _ H) as (pre & o' & post & -> & Hby).
      exists pre, o', (post ++ [o]). split; [|exact Hby]. rewrite <- app_assoc. reflexivity.
    + exists ops, o, []. split; [reflexivity|].
      destruct o; try contradiction.
      * exact H.
      * apply fetch_events_in in H. destruct H as (H1 & H2 & x & Hx & H3 & H4 & H5 & H6 & _).
        simpl. split; [exact H1|]. split; [exact H2|]. exists x. auto.
Qed.

(* marked stays marked unless the identity is registered again *)
Lemma all_marked_step c s o eon id :
  all_marked (st_db s) eon id -> ~ registers_identity id o ->
  all_marked (st_db (fst (step c s o))) eon id.
Proof.
  intros [Hi He] Hnr. split.
  - intros r Hr Heon Hid. apply irs_step in Hr. destruct Hr as [(r0 & H0 & Hs)|(e0 & ->)].
    + destruct Hs as (_ & S2 & S3 & _ & _ & S6). apply S6. apply Hi; congruence.
    + exfalso. apply Hnr. simpl. exact Hid.
  - intros x Hx Heon Hid. apply ets_step in Hx. destruct Hx as [(x0 & H0 & Hs)|(expi & blk & ->)].
    + destruct Hs as (S1 & S2 & S3). apply S3. apply He; congruence.
    + exfalso. apply Hnr. simpl. exact Hid.
Qed.

Lemma all_marked_released c s eon ids id :
  In id ids -> all_marked (st_db (fst (step c s (OpKeysReleased eon ids)))) eon id.
Proof.
  intros Hin.
  assert (Hex : existsb (fun x => bytes_eqb x id) ids = true).
  { apply existsb_exists. exists id. split; [exact Hin|apply bytes_eqb_refl]. }
  simpl. split.
  - intros r Hr Heon Hid. apply in_map_iff in Hr. destruct Hr as (r0 & Hr & _).
    destruct (existsb (fun x => bytes_eqb x (ir_identity r0)) ids && (ir_eon r0 =? eon)) eqn:Hit.
    + subst r. reflexivity.
    + subst r. rewrite Hid, Hex, Heon, Z.eqb_refl in Hit. discriminate.
  - intros x Hx Heon Hid. apply in_map_iff in Hx. destruct Hx as (x0 & Hx & _).
    destruct (existsb (fun y => bytes_eqb y (et_identity x0)) ids && (et_eon x0 =? eon)) eqn:Hit.
    + subst x. reflexivity.
    + subst x. rewrite Hid, Hex, Heon, Z.eqb_refl in Hit. discriminate.
Qed.

Lemma all_marked_fold c eon id ops : forall s,
  all_marked (st_db s) eon id -> (forall o, In o ops -> ~ registers_identity id o) ->
  all_marked (st_db (fold_left (fun s o => fst (step c s o)) ops s)) eon id.
Proof.
  induction ops as [|o rest IH]; intros s Hm Hn; simpl; [exact Hm|].
  apply IH; [apply all_marked_step; [exact Hm|apply Hn; left; reflexivity]|].
  intros o' Ho'. apply Hn. right. exact Ho'.
Qed.

Theorem all_marked_after_release c ops1 eon ids ops2 id :
  In id ids -> (forall o, In o ops2 -> ~ registers_identity id o) ->
  all_marked (st_db (run c (ops1 ++ OpKeysReleased eon ids :: ops2))) eon id.
Proof.
  intros Hin Hn.
  replace (ops1 ++ OpKeysReleased eon ids :: ops2) with ((ops1 ++ [OpKeysReleased eon ids]) ++ ops2)
    by (rewrite <- app_assoc; reflexivity).
  rewrite run_app. apply all_marked_fold; [|exact Hn].
  rewrite run_snoc. apply all_marked_released. exact Hin.
Qed.

(* ------------------------------------------------------------------------------------- *)
(* the theorems of Properties/C02.v *)

Theorem step_new_block_output c s number time et ee :
  snd (step c s (OpNewBlock number time et ee))
  = OutTriggers (time_triggers c s number time et ++ event_triggers c s ee).
Proof.
  simpl. rewrite new_block_split. reflexivity.
Qed.

Theorem time_never_early c ops number time enum tr id :
  In tr (time_triggers c (run c ops) number time enum) -> In id (tg_ids tr) ->
  exists r, time_registered ops r /\
  exists e,
    In r (irs (st_db (run c ops))) /\ ir_identity r = id /\ ir_eon r = tg_cfg tr /\
    ir_decrypted r = false /\
    ir_timestamp r < to_i64 time /\ (0 <= time < 2^63 -> ir_timestamp r < time) /\
    servable c (st_db (run c ops)) (tg_cfg tr) e /\
    eo_activation e <= to_i64 number /\
    tg_block tr = u64 (eo_activation e).
Proof.
  unfold time_triggers. intros Htr Hid.
  pose proof (prepare_time_based_sound _ _ _ _ _ _ _ _ Htr Hid) as J.
  apply time_justified_u64 in J. destruct J as (r & e & J).
  exists r. split; [apply (time_registered_run c); tauto|]. exists e. exact J.
Qed.

Theorem event_only_fired c ops enum tr id :
  In tr (event_triggers c (run c ops) enum) -> In id (tg_ids tr) ->
  exists f, fired_provenance c ops f /\
  exists x e,
    In f (fts (st_db (run c ops))) /\ ft_eon f = tg_cfg tr /\ ft_identity f = id /\
    In x (ets (st_db (run c ops))) /\ et_eon x = tg_cfg tr /\ et_identity x = id /\
    et_decrypted x = false /\
    (forall x', In x' (ets (st_db (run c ops))) -> et_eon x' = tg_cfg tr -> et_identity x' = id ->
                et_decrypted x' = false) /\
    servable c (st_db (run c ops)) (tg_cfg tr) e /\
    tg_block tr = u64 (eo_activation e).
Proof.
  unfold event_triggers. intros Htr Hid.
  destruct (events_enabled c); [|contradiction].
  destruct (prepare_event_based_sound _ _ _ _ _ Htr Hid) as (f & x & e & J).
  exists f. split; [apply fired_provenance_run; tauto|]. exists x, e. exact J.
Qed.

Theorem no_retrigger_after_decrypted c ops1 eon ids ops2 id number time et ee tr :
  In id ids -> (forall o, In o ops2 -> ~ registers_identity id o) ->
  let s := run c (ops1 ++ OpKeysReleased eon ids :: ops2) in
  In tr (time_triggers c s number time et ++ event_triggers c s ee) ->
  tg_cfg tr = eon -> ~ In id (tg_ids tr).
Proof.
  intros Hin Hn s Htr Hcfg Hid.
  destruct (all_marked_after_release c ops1 eon ids ops2 id Hin Hn) as [Mi Me]. fold s in Mi, Me.
  apply in_app_or in Htr. destruct Htr as [Htr|Htr].
  - unfold time_triggers in Htr.
    destruct (prepare_time_based_sound _ _ _ _ _ _ _ _ Htr Hid) as (r & e & H1 & H2 & H3 & H4 & _).
    rewrite (Mi r H1) in H4; [discriminate|congruence|exact H2].
  - unfold event_triggers in Htr. destruct (events_enabled c); [|contradiction].
    destruct (prepare_event_based_sound _ _ _ _ _ Htr Hid) as (f & x & e & _ & _ & _ & H4 & H5 & H6 & H7 & _).
    rewrite (Me x H4) in H7; [discriminate|congruence|exact H6].
Qed.

Theorem trigger_sorted_distinct c ops number time et ee tr :
  let s := run c ops in
  time_ids_distinct (st_db s) ->
  In tr (time_triggers c s number time et ++ event_triggers c s ee) ->
  Sorted bytes_lt (tg_ids tr) /\ NoDup (tg_ids tr).
Proof.
  intros s Hd Htr.
  destruct (keys_unique_run c ops) as (_ & He & Hf). fold s in He, Hf.
  assert (Sorted bytes_lt (tg_ids tr)).
  { apply in_app_or in Htr. destruct Htr as [Htr|Htr].
    - unfold time_triggers in Htr. eapply prepare_time_based_sorted; eassumption.
    - unfold event_triggers in Htr. destruct (events_enabled c); [|contradiction].
      eapply prepare_event_based_sorted; eassumption. }
  split; [assumption|apply sorted_bytes_lt_nodup; assumption].
Qed.

(* event based triggers need no hypothesis: their tables are keyed by (eon, identity) *)
Theorem event_trigger_sorted_distinct c ops enum tr :
  In tr (event_triggers c (run c ops) enum) -> Sorted bytes_lt (tg_ids tr) /\ NoDup (tg_ids tr).
Proof.
  intros Htr. destruct (keys_unique_run c ops) as (_ & He & Hf).
  unfold event_triggers in Htr. destruct (events_enabled c); [|contradiction].
  assert (Sorted bytes_lt (tg_ids tr)) by (eapply prepare_event_based_sorted; eassumption).
  split; [assumption|apply sorted_bytes_lt_nodup; assumption].
Qed.

Lemma NoDup_map_inj {A B C} (f : A -> B) (g : A -> C) (l : list A) :
  (forall x y, In x l -> In y l -> g x = g y -> f x = f y) -> NoDup (map f l) -> NoDup (map g l).
Proof.
  induction l as [|a r IH]; simpl; intros Hinj Hnd; [constructor|].
  inversion Hnd as [|? ? Hn Hd]; subst. constructor.
  - intros Hin. apply in_map_iff in Hin. destruct Hin as (b & Hb & Hbin).
    apply Hn. apply in_map_iff. exists b. split; [|exact Hbin].
    apply Hinj; [right; exact Hbin|left; reflexivity|exact Hb].
  - apply IH; [|exact Hd]. intros x y Hx Hy. apply Hinj; right; assumption.
Qed.

Section Hashed.
  Variable H : bytes -> bytes.
  Hypothesis H_injective : forall a b, H a = H b -> a = b.

  (* what the registry syncer provides: identities derived from the primary key by an
     injective function are distinct within every keyper set *)
  Theorem hashed_identities_distinct c ops :
    identities_hashed H ops -> time_ids_distinct (st_db (run c ops)).
  Proof.
    intros Hh. unfold time_ids_distinct.
    destruct (keys_unique_run c ops) as (Hi & _).
    apply NoDup_map_inj with (f := ir_pk); [|exact Hi].
    intros x y Hx Hy Heq. injection Heq as _ Hid.
    destruct (time_registered_run c ops x Hx) as (ex & Hox).
    destruct (time_registered_run c ops y Hy) as (ey & Hoy).
    apply Hh in Hox. apply Hh in Hoy. unfold ir_pk. apply H_injective. congruence.
  Qed.
End Hashed.

Theorem shares_only_member_success c ops blk ids s' m :
  step c (run c ops) (OpHandleTrigger blk ids) = (s', OutShares (ShOk m)) ->
  exists e, In e (eons (st_db (run c ops))) /\ eo_activation e <= u64 blk /\
            (forall e', In e' (eons (st_db (run c ops))) -> eo_activation e' <= u64 blk -> eon_le e' e) /\
            shares_justified c (st_db (run c ops)) e ids m.
Proof.
  simpl. destruct (handle_trigger c (st_db (run c ops)) blk ids) as [r d'] eqn:Hh.
  intros [= _ ->]. eapply handle_trigger_sound. exact Hh.
Qed.

(* ------------------------------------------------------------------------------------- *)
(* from a trigger to the key shares: the handler selects the eon again, by block number *)

Lemma u64_nonneg_small x : 0 <= x < 2^63 -> u64 x = x.
Proof. intros H. unfold u64. apply Z.mod_small. lia. Qed.

Lemma u64_negative x : - 2^63 <= x < 0 -> u64 x = x + 2^64.
Proof. intros H. unfold u64. symmetry. apply Z.mod_unique with (q := -1); lia. Qed.

Theorem shares_follow_trigger c d latest number time et ee tr m d' :
  activation_blocks_distinct d -> activation_blocks_int64 d ->
  In tr (snd (new_block c d latest number time et ee)) ->
  handle_trigger c d (tg_block tr) (tg_ids tr) = (ShOk m, d') ->
  sm_eon m = tg_cfg tr.
Proof.
  intros Hdist Hint Htr Hh.
  (* the trigger has an identity, hence a justification, hence an eon of its set *)
  assert (Hne : tg_ids tr <> []).
  { destruct (handle_trigger_sound _ _ _ _ _ _ Hh) as (e' & _ & _ & _ & Hj).
    destruct Hj as (_ & _ & Hne & _). exact Hne. }
  destruct (tg_ids tr) as [|id rest] eqn:Eids; [contradiction|].
  assert (Hid : In id (tg_ids tr)) by (rewrite Eids; left; reflexivity).
  assert (He : exists e, In e (eons d) /\ eo_cfg e = tg_cfg tr /\ tg_block tr = u64 (eo_activation e)).
  { destruct (new_block_sound _ _ _ _ _ _ _ _ _ Htr Hid) as [J|[_ J]].
    - destruct J as (r & e & _ & _ & _ & _ & _ & _ & Hs & _ & Hb).
      destruct Hs as (H1 & H2 & _). exists e. auto.
    - destruct J as (f & x & e & _ & _ & _ & _ & _ & _ & _ & _ & Hs & Hb).
      destruct Hs as (H1 & H2 & _). exists e. auto. }
  destruct He as (e & Hein & Hecfg & Hblk).
  rewrite <- Eids in Hh.
  unfold handle_trigger in Hh.
  destruct (u64 (tg_block tr) >? 2^63 - 1) eqn:Hr; [discriminate|].
  rewrite Z.gtb_ltb in Hr. apply Z.ltb_ge in Hr.
  destruct (eon_for_block d (u64 (tg_block tr))) as [e'|] eqn:E; [|discriminate].
  apply eon_for_block_some in E. destruct E as (He'in & He'act & Hmax).
  destruct (construct_shares_sound _ _ _ _ _ _ Hh) as (Hm & _).
  rewrite Hm, <- Hecfg.
  pose proof (Hint e Hein) as Hrange.
  rewrite Hblk in *. unfold u64 in Hr, He'act, Hmax. rewrite Z.mod_mod in Hr, He'act, Hmax by lia.
  fold (u64 (eo_activation e)) in Hr, He'act, Hmax.
  destruct (Z_lt_dec (eo_activation e) 0) as [Hneg|Hpos].
  - rewrite u64_negative in Hr by lia. lia.
  - rewrite u64_nonneg_small in He'act, Hmax by lia.
    specialize (Hmax e Hein (Z.le_refl _)). unfold eon_le in Hmax.
    apply Hdist; [exact He'in|exact Hein|lia].
Qed.

Theorem shares_follow_trigger_run c ops number time et ee tr s' m :
  let s := run c ops in
  activation_blocks_distinct (st_db s) -> activation_blocks_int64 (st_db s) ->
  In tr (time_triggers c s number time et ++ event_triggers c s ee) ->
  step c s (OpHandleTrigger (tg_block tr) (tg_ids tr)) = (s', OutShares (ShOk m)) ->
  sm_eon m = tg_cfg tr.
Proof.
  intros s Hd Hi Htr Hstep. simpl in Hstep.
  destruct (handle_trigger c (st_db s) (tg_block tr) (tg_ids tr)) as [r d'] eqn:Hh.
  injection Hstep as _ ->.
  eapply shares_follow_trigger with (latest := st_latest s); try eassumption.
  rewrite new_block_split. simpl. exact Htr.
Qed.

(* ------------------------------------------------------------------------------------- *)
(* never early in the contract's (unsigned) reading of the release time *)

Lemma latest_in_range_run c ops : latest_in_range (st_latest (run c ops)).
Proof.
  induction ops as [|o ops IH] using rev_ind; [intros l [=]|].
  rewrite run_snoc.
  assert (Hkeep : forall d, latest_in_range (st_latest (mkState d (st_latest (run c ops))))) by (intros d; exact IH).
  destruct o; [cbn [step]|simpl ..]; try exact IH.
  - rewrite new_block_split. simpl. unfold prepare_time_based.
    destruct (match st_latest (run c ops) with Some l => u64 time <=? l | None => false end); simpl; [exact IH|].
    intros l [= <-]. unfold u64. apply Z.mod_pos_bound. lia.
  - intros l [=].
  - unfold register_time. destruct ((eon <? 0) || (block <? 0)); simpl; exact IH.
  - unfold register_event. destruct ((eon <? 0) || (block <? 0) || (expiration <? 0)); simpl; exact IH.
  - destruct (insert_fired (st_db (run c ops)) eon identity block); simpl; exact IH.
  - unfold add_config. destruct (existsb _ (cfgs (st_db (run c ops)))); simpl; exact IH.
  - unfold eon_started. destruct (existsb _ (eons (st_db (run c ops)))); simpl; exact IH.
  - unfold dkg_result. destruct (existsb _ (dkgs (st_db (run c ops)))); simpl; exact IH.
  - destruct (handle_trigger c (st_db (run c ops)) block ids). simpl. exact IH.
Qed.

Theorem time_never_early_unsigned c ops number time enum tr id :
  In tr (time_triggers c (run c ops) number time enum) -> In id (tg_ids tr) ->
  exists r, time_registered ops r /\
            In r (irs (st_db (run c ops))) /\ ir_identity r = id /\ ir_eon r = tg_cfg tr /\
            ir_decrypted r = false /\
            - 2^63 <= ir_timestamp r < 2^63 /\
            u64 (ir_timestamp r) < u64 time /\
            (u64 time < 2^63 -> 0 <= ir_timestamp r).
Proof.
  unfold time_triggers. intros Htr Hid.
  assert (Hr : 0 <= u64 time < 2^64) by (unfold u64; apply Z.mod_pos_bound; lia).
  destruct (prepare_time_based_unsigned _ _ _ _ _ _ _ _ (latest_in_range_run c ops) Hr Htr Hid)
    as (r & H1 & H2 & H3 & H4 & H5 & H6 & H7).
  exists r. split; [apply (time_registered_run c); exact H1|]. auto 10.
Qed.
