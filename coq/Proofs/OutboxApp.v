(* What shuttermint (Model/App.v, the proved model of the application) answers when a keyper
   sends a message again after a crash between "applied by shuttermint" and "outbox row
   deleted": a DKG message or DKG-result vote that was applied is answered Seen (the keyper
   deletes the row and moves on); a batch-config vote that was applied but has not reached the
   threshold is answered Error ("sender already voted"), so the row stays at the head of the
   outbox - the known finding C08:config-vote-resent-after-crash-blocks-outbox. *)
From Coq Require Import List NArith ZArith Bool Lia.
From Verif Require Import Lib.Bytes Lib.Assoc Model.App Proofs.AppSafe Proofs.AppNonint.
Import ListNotations.
Open Scope Z_scope.

Lemma succ_mod_neq x : ((x + 1) mod 18446744073709551616 <> x)%N.
Proof.
  intros H.
  assert (Hlt : ((x + 1) mod 18446744073709551616 < 18446744073709551616)%N) by (apply N.mod_lt; discriminate).
  destruct (N.lt_ge_cases (x + 1) 18446744073709551616) as [A|A].
  - rewrite N.mod_small in H by exact A. lia.
  - rewrite H in Hlt. assert (Hx : x = 18446744073709551615%N) by lia. subst x. vm_compute in H. discriminate.
Qed.

Lemma mem_addr_snoc a l : mem_addr a (l ++ [a]) = true.
Proof. rewrite mem_addr_app. simpl. rewrite bytes_eqb_refl. simpl. apply orb_true_r. Qed.

Lemma dkg_get_upd s eon d : dkg_get (dkgs (upd_dkg s eon d)) eon = Some d.
Proof. unfold upd_dkg. simpl. rewrite dkg_get_set, N.eqb_refl. reflexivity. Qed.

Theorem resend_commitment_seen s sender eon gs s' evs :
  handle_poly_commitment s sender eon gs = (s', (code_ok, evs)) ->
  handle_poly_commitment s' sender eon gs = (s', seen).
Proof.
  unfold handle_poly_commitment.
  destruct (negb (forallb snd gs)) eqn:Hg; [intros [= _ H]; discriminate|].
  destruct (dkg_get (dkgs s) eon) as [d|] eqn:Hd; [|intros [= _ H]; discriminate].
  destruct (negb (N.eqb eon (d_eon d))) eqn:He; [intros [= _ H]; discriminate|].
  destruct (negb (is_keyper (d_config d) sender)) eqn:Hk; [intros [= _ H]; discriminate|].
  destruct (mem_addr sender (d_commits d)) eqn:Hm; [intros [= _ H]; discriminate|].
  intros [= <- _]. rewrite dkg_get_upd. simpl. rewrite He, Hk, mem_addr_snoc. reflexivity.
Qed.

Theorem resend_accusation_seen s sender eon accused s' evs :
  handle_accusation s sender eon accused = (s', (code_ok, evs)) ->
  handle_accusation s' sender eon accused = (s', seen).
Proof.
  unfold handle_accusation.
  destruct (negb (all_len20 accused)) eqn:H1; [intros [= _ H]; discriminate|].
  destruct (negb (addrs_unique accused)) eqn:H2; [intros [= _ H]; discriminate|].
  destruct (dkg_get (dkgs s) eon) as [d|] eqn:Hd; [|intros [= _ H]; discriminate].
  destruct (negb (N.eqb eon (d_eon d))) eqn:He; [intros [= _ H]; discriminate|].
  destruct (negb (is_keyper (d_config d) sender)) eqn:Hk; [intros [= _ H]; discriminate|].
  destruct (negb (check_others (d_config d) sender accused)) eqn:Ho; [intros [= _ H]; discriminate|].
  destruct (mem_addr sender (d_accs d)) eqn:Hm; [intros [= _ H]; discriminate|].
  intros [= <- _]. rewrite dkg_get_upd. simpl. rewrite He, Hk, Ho, mem_addr_snoc. reflexivity.
Qed.

Theorem resend_apology_seen s sender eon accusers evals s' evs :
  handle_apology s sender eon accusers evals = (s', (code_ok, evs)) ->
  handle_apology s' sender eon accusers evals = (s', seen).
Proof.
  unfold handle_apology.
  destruct (negb (Nat.eqb (length accusers) (length evals))) eqn:H0; [intros [= _ H]; discriminate|].
  destruct (negb (all_len20 accusers)) eqn:H1; [intros [= _ H]; discriminate|].
  destruct (negb (addrs_unique accusers)) eqn:H2; [intros [= _ H]; discriminate|].
  destruct (dkg_get (dkgs s) eon) as [d|] eqn:Hd; [|intros [= _ H]; discriminate].
  destruct (negb (N.eqb eon (d_eon d))) eqn:He; [intros [= _ H]; discriminate|].
  destruct (negb (is_keyper (d_config d) sender)) eqn:Hk; [intros [= _ H]; discriminate|].
  destruct (negb (check_others (d_config d) sender accusers)) eqn:Ho; [intros [= _ H]; discriminate|].
  destruct (mem_addr sender (d_apos d)) eqn:Hm; [intros [= _ H]; discriminate|].
  intros [= <- _]. rewrite dkg_get_upd. simpl. rewrite He, Hk, Ho, mem_addr_snoc. reflexivity.
Qed.

Lemma amem_set_vote {T} (teqb : T -> T -> bool) v sender c :
  amem (v_votes (set_vote teqb v sender c)) sender = true.
Proof.
  unfold set_vote, amem. destruct (find_cand teqb c (v_cands v) 0); simpl; rewrite aget_aset_same; reflexivity.
Qed.

(* a DKG-result vote that was applied is answered Seen *)
Theorem resend_result_seen enum s sender success eon s' evs :
  deliver_dkg_result enum s sender success eon = Some (s', (code_ok, evs)) ->
  eon_counter s' = eon_counter s ->      (* the vote did not start a new eon *)
  deliver_dkg_result enum s' sender success eon = Some (s', seen).
Proof.
  unfold deliver_dkg_result.
  destruct (dkg_get (dkgs s) eon) as [d|] eqn:Hd; [|intros [= _ H]; discriminate].
  destruct (negb (is_keyper (d_config d) sender)) eqn:Hk; [intros [= _ H]; discriminate|].
  unfold add_vote at 1. destruct (amem (v_votes (d_success d)) sender) eqn:Hm; [intros [= _ H]; discriminate|].
  set (v' := set_vote Bool.eqb (d_success d) sender success).
  set (d' := mkDkg (d_config d) (d_eon d) v' (d_evals d) (d_commits d) (d_accs d) (d_apos d)).
  set (s1 := set_dkgs s (dkg_set (dkgs s) eon d')).
  assert (Hs1 : dkg_get (dkgs s1) eon = Some d') by (unfold s1; simpl; rewrite dkg_get_set, N.eqb_refl; reflexivity).
  assert (Hseen : deliver_dkg_result enum s1 sender success eon = Some (s1, seen)).
  { unfold deliver_dkg_result. rewrite Hs1. simpl. rewrite Hk. unfold add_vote. unfold v'. rewrite amem_set_vote. reflexivity. }
  destruct (outcome enum v' (int_of_u64 (c_threshold (d_config d)))) as [[succ|]|]; try discriminate.
  - destruct (succ || (eon <? eon_counter s1)%N).
    + intros [= <- _] _. exact Hseen.
    + unfold start_dkg. intros [= <- _] Hc. simpl in Hc. exfalso. exact (succ_mod_neq _ Hc).
  - intros [= <- _] _. exact Hseen.
Qed.

(* a batch-config vote that was applied without completing the threshold is answered Error *)
Theorem resend_vote_is_error enum s sender act keypers threshold idx s' :
  deliver_batch_config enum s sender act keypers threshold idx = Some (s', (code_ok, [])) ->
  deliver_batch_config enum s' sender act keypers threshold idx = Some (s', err).
Proof.
  unfold deliver_batch_config.
  destruct (negb (all_len20 keypers)) eqn:H1; [intros [= _ H]; discriminate|].
  destruct (negb (addrs_unique keypers)) eqn:H2; [intros [= _ H]; discriminate|].
  set (bc := mkConfig act keypers threshold idx false false).
  destruct (last_opt (configs s)) as [lc|] eqn:Hl; [|discriminate].
  destruct (config_eqb lc bc) eqn:Hq; [intros [= _ H]; discriminate|].
  destruct (check_config s bc) as [[|]|] eqn:Hc; [|intros [= _ H]; discriminate|discriminate].
  destruct (negb (is_keyper lc sender)) eqn:Hk; [intros [= _ H]; discriminate|].
  unfold add_vote at 1. destruct (amem (v_votes (cfg_voting s)) sender) eqn:Hm; [intros [= _ H]; discriminate|].
  set (v' := set_vote config_eqb (cfg_voting s) sender bc).
  destruct (outcome enum v' (int_of_u64 (c_threshold lc))) as [[c|]|] eqn:Ho.
  - (* the config was accepted: the answer carries events *)
    destruct (check_config (set_cfg_voting (set_cfg_voting s v') new_voting) bc) as [[|]|].
    + destruct (start_dkg _ _). intros H. discriminate H.
    + intros H. discriminate H.
    + discriminate.
  - discriminate.
  - intros [= <-]. simpl. rewrite Hl, Hq.
    assert (Hc' : check_config (set_cfg_voting s v') bc = Some true) by exact Hc.
    rewrite Hc', Hk. unfold add_vote. simpl. unfold v'. rewrite amem_set_vote. reflexivity.
Qed.

(* the hypothesis is satisfiable: two keypers, threshold 2, the first vote for a new config *)
Module VoteEx.
Definition k1 : addr := [1%N;1%N;1%N;1%N;1%N;1%N;1%N;1%N;1%N;1%N;1%N;1%N;1%N;1%N;1%N;1%N;1%N;1%N;1%N;1%N].
Definition k2 : addr := [2%N;2%N;2%N;2%N;2%N;2%N;2%N;2%N;2%N;2%N;2%N;2%N;2%N;2%N;2%N;2%N;2%N;2%N;2%N;2%N].
Definition g : genesis := mkGenesis [k1; k2] 2%N 0%N false 0 [] [] false.
Definition s0 : state := match init_chain g with Some s => s | None => mkState [] [] new_voting 0 [] [] [] 0%N false [] [] [] [] [] false 0 end.
Lemma first_vote_ok :
  exists s', deliver_batch_config enum_id s0 k1 5%N [k1; k2] 2%N 1%N = Some (s', (code_ok, [])).
Proof. vm_compute. eexists. reflexivity. Qed.
End VoteEx.
