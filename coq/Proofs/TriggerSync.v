(* Proofs about the trigger-sync model (C16). *)
From Coq Require Import List NArith ZArith Bool Lia.
From Verif Require Import Lib.Bytes Model.Syncer Model.TriggerSync
     Proofs.SyncerRanges Proofs.SyncerLemmas Proofs.Syncer Proofs.SyncerInstances Proofs.TriggerSyncLemmas.
Import ListNotations.
Open Scope Z_scope.

Section Proofs.
  Variable LogT : Type.
  Variable match_log : bytes -> LogT -> bool.

  Notation titem := (titem LogT).
  Notation view := (view titem).
  Notation tstate := (tstate LogT).
  Notation rows_of := (rows_of (@t_admissible LogT)).
  Notation first_fire := (first_fire match_log).
  Notation window_match := (window_match match_log).
  Notation log_matches := (log_matches match_log).
  Notation fires_of_trigger := (fires_of_trigger match_log).
  Notation fetch_fires := (fetch_fires match_log).
  Notation commit_trange := (commit_trange match_log).
  Notation trange_loop := (trange_loop match_log).
  Notation tsync := (tsync match_log).
  Notation tgstep := (tgstep match_log).
  Notation tgrun := (tgrun match_log).
  Notation theads_ok := (theads_ok match_log).
  Notation td10_free := (td10_free match_log).
  Notation d10_free := (d10_free match_log).
  Notation range_clear := (range_clear match_log).
  Notation sync_ranges_of := (@sync_ranges_of LogT).
  Notation rkey := (fun p : pev titem => t_key (pe_ev p)).
  Notation core_commit := (Syncer.commit_range (@t_key LogT) ukey_eqb (@t_admissible LogT) (@t_merge LogT)).

  (* ------------------------------------------------------------------------------------- *)
  (* rows are registrations *)

  Lemma rows_are_regs (v : view) a k p : In p (rows_of v a k) -> exists u, pe_ev p = IReg u.
  Proof.
    unfold Syncer.rows_of. rewrite filter_In. intros [_ H]. destruct (pe_ev p) as [u|l]; [eauto|discriminate].
  Qed.

  Lemma logs_of_In (v : view) s e p : In p (logs_of v s e) <-> exists n, s <= n <= e /\ In p (pevs_at v n).
  Proof.
    unfold logs_of. rewrite in_flat_map. split; intros (n & Hn & Hp); exists n; split; auto; apply In_zrange; exact Hn.
  Qed.

  Lemma logs_of_mono (v : view) s e s' e' p : s' <= s -> e <= e' -> In p (logs_of v s e) -> In p (logs_of v s' e').
  Proof. intros H1 H2. rewrite !logs_of_In. intros (n & Hn & Hp). exists n. split; [lia|exact Hp]. Qed.

  Lemma rows_of_mono (v : view) s e s' e' p : s' <= s -> e <= e' -> In p (rows_of v s e) -> In p (rows_of v s' e').
  Proof.
    intros H1 H2. unfold Syncer.rows_of. rewrite !filter_In. intros [Hp Ha]. split; [|exact Ha].
    eapply logs_of_mono; eauto.
  Qed.

  (* ------------------------------------------------------------------------------------- *)
  (* first_fire *)

  Lemma window_vs_log u b (p : pev titem) : b < pe_block p -> window_match u b p = log_matches u p.
  Proof.
    intros H. unfold TriggerSync.window_match, TriggerSync.log_matches. destruct (pe_ev p); [reflexivity|].
    replace (b <? pe_block p) with true by (symmetry; apply Z.ltb_lt; exact H). reflexivity.
  Qed.

  Lemma first_fire_extend (v : view) s e r u : pe_ev r = IReg u -> 0 <= s -> s <= e + 1 -> pe_block r < s ->
    first_fire v e r = match first_fire v (s - 1) r with
                       | Some l => Some l
                       | None => find (log_matches u) (logs_of v s e)
                       end.
  Proof.
    intros Hev Hs Hse Hb. unfold TriggerSync.first_fire. rewrite Hev.
    assert (Happ := logs_of_app titem v 0 (s - 1) e). replace (s - 1 + 1) with s in Happ by lia.
    rewrite <- Happ by lia. rewrite find_app.
    destruct (find (window_match u (pe_block r)) (logs_of v 0 (s - 1))); [reflexivity|].
    apply find_ext_in. intros x Hx. apply window_vs_log.
    apply logs_of_block in Hx. lia.
  Qed.

  Lemma first_fire_prefix (v : view) k' k r : 0 <= k' + 1 -> k' <= k ->
    match first_fire v k r with
    | Some l => if pe_block l <=? k' then first_fire v k' r = Some l else first_fire v k' r = None
    | None => first_fire v k' r = None
    end.
  Proof.
    intros H0 Hk. unfold TriggerSync.first_fire. destruct (pe_ev r) as [u|]; [|reflexivity].
    rewrite <- (logs_of_app titem v 0 k' k) by lia. rewrite find_app.
    destruct (find (window_match u (pe_block r)) (logs_of v 0 k')) as [l|] eqn:E.
    - apply find_some in E. destruct E as [Hin _]. apply logs_of_block in Hin.
      replace (pe_block l <=? k') with true by (symmetry; apply Z.leb_le; lia). reflexivity.
    - destruct (find (window_match u (pe_block r)) (logs_of v (k' + 1) k)) as [l|] eqn:E2; [|reflexivity].
      apply find_some in E2. destruct E2 as [Hin _]. apply logs_of_block in Hin.
      replace (pe_block l <=? k') with false by (symmetry; apply Z.leb_gt; lia). reflexivity.
  Qed.

  Lemma first_fire_agree (v w : view) k r : agree_upto w v k -> first_fire w k r = first_fire v k r.
  Proof.
    intros Ha. unfold TriggerSync.first_fire. destruct (pe_ev r); [|reflexivity].
    rewrite (logs_of_agree titem w v k 0 k Ha); [reflexivity|lia|lia].
  Qed.

  Lemma first_fire_new_none R (v : view) s e r :
    no_early_match match_log R v -> In r (rows_of v s e) -> e - s < R -> e <= head_number v -> 0 <= s ->
    first_fire v e r = None.
  Proof.
    intros Hne Hr HR He Hs. destruct (rows_are_regs v s e r Hr) as [u Hev].
    unfold TriggerSync.first_fire. rewrite Hev. apply find_none_iff. intros l Hl.
    destruct (window_match u (pe_block r) l) eqn:Hw; [|reflexivity]. exfalso.
    assert (Hrb := rows_of_block titem (@t_admissible LogT) v s e r Hr).
    assert (Hlb := logs_of_block titem v 0 e l Hl).
    assert (H := Hne r u l (rows_of_mono v s e 0 (head_number v) r Hs He Hr) Hev
                     (logs_of_mono v 0 e 0 (head_number v) l ltac:(lia) He Hl) Hw).
    lia.
  Qed.

  (* ------------------------------------------------------------------------------------- *)
  (* the fetch list, by key *)

  Lemma flookup_fires_of (logs : list (pev titem)) (p : pev titem) u k : pe_ev p = IReg u ->
    flookup k (fires_of_trigger logs p) =
    if ukey_eqb (trigger_key u) k then option_map (fire_of u) (find (log_matches u) logs) else None.
  Proof.
    intros Hev. unfold TriggerSync.fires_of_trigger. rewrite Hev. rewrite find_filter_hd.
    destruct (ukey_eqb (trigger_key u) k) eqn:E.
    - destruct (filter (log_matches u) logs) as [|l ls]; [reflexivity|].
      unfold flookup. cbn [map find hd_error option_map].
      change (f_key (fire_of u l)) with (trigger_key u). rewrite E. reflexivity.
    - apply find_none_iff. intros f Hf. apply in_map_iff in Hf. destruct Hf as (l & <- & _).
      change (f_key (fire_of u l)) with (trigger_key u). exact E.
  Qed.

  Lemma flookup_fetch (logs act : list (pev titem)) k :
    NoDup (reg_keys act) -> (forall p, In p act -> exists u, pe_ev p = IReg u) ->
    flookup k (flat_map (fires_of_trigger logs) act) =
    match klookup rkey k act with
    | Some p => match pe_ev p with
                | IReg u => option_map (fire_of u) (find (log_matches u) logs)
                | ILog _ => None
                end
    | None => None
    end.
  Proof.
    induction act as [|p act IH]; intros Hnd Hregs; [reflexivity|].
    cbn [flat_map]. unfold reg_keys in Hnd. cbn [map] in Hnd.
    inversion Hnd as [|? ? Hn Hd]; subst.
    destruct (Hregs p (or_introl eq_refl)) as [u Hev].
    rewrite flookup_app, (flookup_fires_of logs p u k Hev).
    assert (Hk : klookup rkey k (p :: act) = if ukey_eqb (trigger_key u) k then Some p else klookup rkey k act).
    { unfold klookup. cbn [find]. cbv beta. rewrite Hev. reflexivity. }
    rewrite Hk.
    specialize (IH Hd (fun q Hq => Hregs q (or_intror Hq))).
    destruct (ukey_eqb (trigger_key u) k) eqn:E.
    - rewrite Hev. destruct (find (log_matches u) logs) as [l|]; [reflexivity|].
      cbn [option_map]. rewrite IH.
      assert (Hnone : klookup rkey k act = None).
      { apply klookup_none. apply ukey_eqb_spec in E. subst k. intros Hin. apply Hn.
        unfold reg_keys. cbv beta. rewrite Hev. exact Hin. }
      rewrite Hnone. reflexivity.
    - exact IH.
  Qed.

  (* ------------------------------------------------------------------------------------- *)
  (* the invariant of the fired table relative to a view, a position and the registration rows *)

  Definition finv (v : view) (k : Z) (rows : list (pev titem)) (dec : list ukey) (fi : list fired) : Prop :=
    NoDup (map f_key fi) /\
    (forall f, In f fi -> In (f_key f) (reg_keys rows)) /\
    (forall r, In r rows ->
       match flookup (t_key (pe_ev r)) fi with
       | Some f => exists l, first_fire v k r = Some l /\ f = fire_row r l
       | None => has_key (t_key (pe_ev r)) dec = true \/ first_fire v k r = None
       end).

  Lemma finv_agree (v w : view) k rows dec fi : agree_upto w v k -> finv w k rows dec fi -> finv v k rows dec fi.
  Proof.
    intros Ha (H1 & H2 & H3). split; [exact H1|]. split; [exact H2|].
    intros r Hr. specialize (H3 r Hr). rewrite (first_fire_agree v w k r Ha) in H3. exact H3.
  Qed.

  Lemma finv_decrypt (v : view) k rows dec fi k0 : finv v k rows dec fi -> finv v k rows (k0 :: dec) fi.
  Proof.
    intros (H1 & H2 & H3). split; [exact H1|]. split; [exact H2|].
    intros r Hr. specialize (H3 r Hr). destruct (flookup (t_key (pe_ev r)) fi); [exact H3|].
    destruct H3 as [H3|H3]; [left|right; exact H3].
    unfold has_key in *. simpl. rewrite H3. apply orb_true_r.
  Qed.

  (* one range committed *)
  Lemma commit_trange_finv (o : bool) (v : view) (core : state titem) dec fi a s e h :
    let rows := st_rows core in
    let st := mktstate core dec fi in
    0 <= s -> s <= e -> e <= head_number v ->
    range_clear v s e ->
    rows = rows_of v a (s - 1) ->
    st_rows (core_commit (node_of_view v) core s e h) = rows ++ rows_of v s e ->
    NoDup (reg_keys (rows ++ rows_of v s e)) ->
    finv v (s - 1) rows dec fi ->
    exists fi', commit_trange o (node_of_view v) st s e h
                = Some (mktstate (core_commit (node_of_view v) core s e h) dec fi') /\
                finv v e (rows ++ rows_of v s e) dec fi'.
  Proof.
    intros rows st Hs Hse He Hclear Hrows Hcore Hnd (Hf1 & Hf2 & Hf3).
    assert (Hndrows : NoDup (reg_keys rows)) by (unfold reg_keys in *; rewrite map_app in Hnd; eapply NoDup_app_l; eauto).
    assert (Hrowsreg : forall p, In p rows -> exists u, pe_ev p = IReg u).
    { intros p Hp. fold rows in Hrows. rewrite Hrows in Hp. eapply rows_are_regs; eauto. }
    assert (Hrowsblk : forall p, In p rows -> pe_block p < s).
    { intros p Hp. fold rows in Hrows. rewrite Hrows in Hp. apply rows_of_block in Hp. lia. }
    set (logs := logs_of v s e).
    set (act := active st s).
    assert (Hact_sub : forall p, In p act -> In p rows).
    { intros p Hp. unfold act, active in Hp. apply filter_In in Hp. apply Hp. }
    assert (Hfires : fetch_fires st (node_of_view v) s e = flat_map (fires_of_trigger logs) act) by reflexivity.
    assert (Hfk : forall regs : list (pev titem), (forall k, In k (reg_keys rows) -> In k (reg_keys regs)) ->
                  forall f, In f (flat_map (fires_of_trigger logs) act) -> has_key (f_key f) (reg_keys regs) = true).
    { intros regs Hsub f Hf. apply in_flat_map in Hf. destruct Hf as (p & Hp & Hf).
      destruct (Hrowsreg p (Hact_sub p Hp)) as [u Hev].
      unfold TriggerSync.fires_of_trigger in Hf. rewrite Hev in Hf. apply in_map_iff in Hf.
      destruct Hf as (l & <- & _). simpl. apply has_key_In. apply Hsub.
      unfold reg_keys. apply in_map_iff. exists p. split; [rewrite Hev; reflexivity|apply Hact_sub; exact Hp]. }
    set (regs_seen := if o then st_rows (core_commit (node_of_view v) core s e h) else st_rows core).
    assert (Hsub : forall k, In k (reg_keys rows) -> In k (reg_keys regs_seen)).
    { intros k Hk. unfold regs_seen. destruct o; [|exact Hk]. rewrite Hcore. unfold reg_keys. rewrite map_app. apply in_or_app. left. exact Hk. }
    destruct (insert_all_ok LogT regs_seen (flat_map (fires_of_trigger logs) act) fi (Hfk regs_seen Hsub))
      as (fi' & Hins & Hlook & Hndf & Hin).
    exists fi'. split.
    { unfold TriggerSync.commit_trange. change (ts_core st) with core. change (ts_fired st) with fi.
      change (ts_decrypted st) with dec. fold regs_seen. rewrite Hfires, Hins. reflexivity. }
    assert (Hactnd : NoDup (reg_keys act)) by (unfold act, active, reg_keys; apply NoDup_map_filter; exact Hndrows).
    assert (Hlookfetch : forall r u, In r rows -> pe_ev r = IReg u ->
              flookup (t_key (pe_ev r)) (flat_map (fires_of_trigger logs) act)
              = if is_active st s r then option_map (fire_of u) (find (log_matches u) logs) else None).
    { intros r u Hr Hev. rewrite (flookup_fetch logs act _ Hactnd (fun p Hp => Hrowsreg p (Hact_sub p Hp))).
      unfold act, active. rewrite (klookup_filter rkey (is_active st s) _ rows Hndrows).
      rewrite (klookup_In_nodup rkey rows r Hndrows Hr). destruct (is_active st s r); [rewrite Hev|]; reflexivity. }
    split; [apply Hndf; exact Hf1|]. split.
    - intros f Hf. destruct (Hin f Hf) as [Hold|Hnew].
      + unfold reg_keys. rewrite map_app. apply in_or_app. left. apply Hf2. exact Hold.
      + apply has_key_In. apply (Hfk (rows ++ rows_of v s e)); [|exact Hnew].
        intros k Hk. unfold reg_keys. rewrite map_app. apply in_or_app. left. exact Hk.
    - intros r Hr. rewrite Hlook. apply in_app_or in Hr. destruct Hr as [Hr|Hr].
      + (* a trigger registered before this range *)
        destruct (Hrowsreg r Hr) as [u Hev].
        rewrite (first_fire_extend v s e r u Hev Hs ltac:(lia) (Hrowsblk r Hr)).
        specialize (Hf3 r Hr).
        destruct (flookup (t_key (pe_ev r)) fi) as [f|] eqn:Elook.
        * destruct Hf3 as (l & Hl & ->). exists l. rewrite Hl. auto.
        * rewrite (Hlookfetch r u Hr Hev).
          assert (Hkey : t_key (pe_ev r) = trigger_key u) by (rewrite Hev; reflexivity).
          rewrite Hkey in *.
          assert (Hnf : has_key (trigger_key u) (map f_key fi) = false).
          { apply has_key_false. apply flookup_none. exact Elook. }
          assert (Hact : is_active st s r = (s <=? ev_expiry u) && negb (has_key (trigger_key u) dec)).
          { unfold is_active. rewrite Hev. change (ts_decrypted st) with dec. change (ts_fired st) with fi.
            rewrite Hnf. cbn [negb]. apply andb_true_r. }
          rewrite Hact.
          destruct (has_key (trigger_key u) dec) eqn:Hdec.
          { rewrite andb_false_r. left. reflexivity. }
          cbn [negb]. rewrite andb_true_r.
          destruct Hf3 as [Hf3|Hf3]; [discriminate|]. rewrite Hf3.
          destruct (s <=? ev_expiry u) eqn:Hexp.
          -- destruct (find (log_matches u) logs) as [l|] eqn:Efind; cbn [option_map].
             ++ exists l. split; [exact Efind|]. unfold fire_of, fire_row. rewrite Hkey. reflexivity.
             ++ right. exact Efind.
          -- right. apply find_none_iff. intros x Hx. apply logs_of_block in Hx. apply Z.leb_gt in Hexp.
             unfold TriggerSync.log_matches. destruct (pe_ev x); [reflexivity|].
             replace (pe_block x <=? ev_expiry u) with false by (symmetry; apply Z.leb_gt; lia). reflexivity.
      + (* a trigger registered in this range: the active set does not contain it *)
        assert (Hfresh : ~ In (t_key (pe_ev r)) (reg_keys rows)).
        { unfold reg_keys in *. rewrite map_app in Hnd. intros Hin2.
          clear - Hnd Hin2 Hr. induction (map rkey rows) as [|x l IH]; simpl in *; [contradiction|].
          inversion Hnd; subst. destruct Hin2 as [->|Hin2].
          - apply H1. apply in_or_app. right. apply in_map_iff. exists r. auto.
          - apply IH; assumption. }
        assert (E1 : flookup (t_key (pe_ev r)) fi = None).
        { apply flookup_none. intros Hin2. apply in_map_iff in Hin2. destruct Hin2 as (f & Hk & Hf). apply Hfresh. rewrite <- Hk. apply Hf2. exact Hf. }
        rewrite E1.
        assert (E2 : flookup (t_key (pe_ev r)) (flat_map (fires_of_trigger logs) act) = None).
        { rewrite (flookup_fetch logs act _ Hactnd (fun p Hp => Hrowsreg p (Hact_sub p Hp))).
          assert (E3 : klookup rkey (t_key (pe_ev r)) act = None).
          { apply klookup_none. intros Hin2. apply Hfresh. unfold reg_keys. apply in_map_iff in Hin2.
            destruct Hin2 as (p & Hk & Hp). apply in_map_iff. exists p. split; [exact Hk|apply Hact_sub; exact Hp]. }
          rewrite E3. reflexivity. }
        rewrite E2. right. apply Hclear. exact Hr.
  Qed.

  (* rollback *)
  Lemma trollback_order (st : tstate) to : trollback true st to = trollback false st to.
  Proof. unfold trollback. f_equal. apply filter_comm. Qed.

  Lemma trollback_finv (o : bool) (v : view) (core : state titem) dec fi a k k' :
    let st := mktstate core dec fi in
    k' <= k -> 0 <= k' + 1 ->
    st_rows core = rows_of v a k -> NoDup (reg_keys (st_rows core)) ->
    finv v k (st_rows core) dec fi ->
    ts_core (trollback o st k') = rollback_to core k' /\
    st_rows (rollback_to core k') = rows_of v a k' /\
    finv v k' (rows_of v a k') (ts_decrypted (trollback o st k')) (ts_fired (trollback o st k')).
  Proof.
    intros st Hk Hk0 Hrows Hnd (Hf1 & Hf2 & Hf3).
    assert (Hrows' : st_rows (rollback_to core k') = rows_of v a k').
    { unfold rollback_to. cbn [st_rows]. rewrite Hrows. apply rows_of_rollback. exact Hk. }
    split; [destruct o; reflexivity|]. split; [exact Hrows'|].
    destruct o; [|rewrite <- trollback_order]; unfold trollback; cbn [ts_core ts_decrypted ts_fired st];
      rewrite Hrows'; set (rows' := rows_of v a k');
      set (keep := fun k0 : ukey => has_key k0 (reg_keys rows')).
    all: assert (Hsub : forall r, In r rows' -> In r (st_rows core))
      by (intros r Hr; rewrite Hrows; eapply rows_of_mono; [| |exact Hr]; lia).
    all: assert (Hnd1 : NoDup (map f_key (filter (fun f : fired => keep (f_key f)) fi))) by (apply NoDup_map_filter; exact Hf1).
    all: split; [apply NoDup_map_filter; exact Hnd1|]; split.
    all: try (intros f Hf; apply filter_In in Hf; destruct Hf as [Hf _]; apply filter_In in Hf; destruct Hf as [_ Hf];
              apply has_key_In; exact Hf).
    all: intros r Hr; rewrite (flookup_filter _ _ _ Hnd1), (flookup_filter _ _ _ Hf1);
      assert (Hkeep : keep (t_key (pe_ev r)) = true)
        by (apply has_key_In; unfold reg_keys; apply in_map_iff; exists r; auto);
      specialize (Hf3 r (Hsub r Hr));
      assert (Hpre := first_fire_prefix v k' k r Hk0 Hk);
      destruct (flookup (t_key (pe_ev r)) fi) as [f|] eqn:E.
    all: try (destruct Hf3 as (l & Hl & ->); rewrite Hl in Hpre;
              assert (Hkf : f_key (fire_row r l) = t_key (pe_ev r)) by reflexivity;
              rewrite Hkf, Hkeep; change (f_block (fire_row r l)) with (pe_block l);
              destruct (pe_block l <=? k') eqn:Hb;
              [ replace (pe_block l <? k' + 1) with true by (symmetry; apply Z.ltb_lt; apply Z.leb_le in Hb; lia);
                exists l; auto
              | replace (pe_block l <? k' + 1) with false by (symmetry; apply Z.ltb_ge; apply Z.leb_gt in Hb; lia);
                right; exact Hpre ]).
    all: destruct Hf3 as [Hf3|Hf3]; [left; rewrite has_key_filter by exact Hkeep; exact Hf3|right; rewrite Hf3 in Hpre; exact Hpre].
  Qed.

  (* ------------------------------------------------------------------------------------- *)
  (* exactness along histories *)

  Section Exact.
  Variable fl : flavour.
  Hypothesis HR : 0 < fl_range fl.
  Hypothesis HD : 0 <= fl_depth fl.
  Hypothesis Hfs : 0 <= fl_first_start fl.
  Hypothesis Hcl : fl_unclamped fl = false.
  Notation fs := (fl_first_start fl).
  Notation cinv := (inv titem (@t_admissible LogT) fl).
  Notation tview_ok := (view_ok (@t_key LogT) (@t_admissible LogT) fl).

  Definition tpos (st : tstate) : Z :=
    match st_status (ts_core st) with Some (k, _) => k | None => fs - 1 end.

  Definition tinv (st : tstate) (w : view) : Prop :=
    cinv (ts_core st) w /\ finv w (tpos st) (st_rows (ts_core st)) (ts_decrypted st) (ts_fired st).

  Lemma core_commit_rows (v : view) (core : state titem) s b hb :
    tview_ok v -> fs <= s -> 0 <= s -> s <= b -> b <= head_number v ->
    st_rows core = rows_of v fs (s - 1) ->
    st_rows (core_commit (node_of_view v) core s b hb) = st_rows core ++ rows_of v s b /\
    st_rows core ++ rows_of v s b = rows_of v fs b /\
    NoDup (reg_keys (rows_of v fs b)).
  Proof.
    intros (Hne & Hhn & Hku & Hbound) Hfss Hs Hsb Hb Hrows.
    assert (Hext : st_rows core ++ rows_of v s b = rows_of v fs b).
    { rewrite Hrows. rewrite <- (rows_of_app titem (@t_admissible LogT) v fs (s - 1) b) by lia. do 2 f_equal. lia. }
    assert (Hnd : NoDup (reg_keys (rows_of v fs b))).
    { unfold reg_keys. apply (keys_unique_stretch titem ukey (@t_key LogT) (@t_admissible LogT) v fs b Hku Hfs Hb). }
    split; [|split; assumption].
    unfold Syncer.commit_range. cbn [st_rows].
    change (filter (fun p : pev titem => t_admissible (pe_ev p)) (n_logs (node_of_view v) s b)) with (rows_of v s b).
    apply (fold_upsert_fresh titem ukey (@t_key LogT) ukey_eqb (@t_merge LogT) ukey_eqb_spec).
    rewrite Hext. exact Hnd.
  Qed.

  Definition synced_at (v : view) (st : tstate) (k : Z) : Prop :=
    exists h, hash_at v k = Some h /\ st_status (ts_core st) = Some (k, h) /\
              st_rows (ts_core st) = rows_of v fs k /\
              finv v k (st_rows (ts_core st)) (ts_decrypted st) (ts_fired st).

  Lemma pop_n_total n fsx : exists bad rest, pop_n n fsx = (bad, rest).
  Proof. destruct (pop_n n fsx) as [bad rest]. eauto. Qed.

  Lemma trange_loop_finv (v : view) :
    tview_ok v ->
    forall rs s (st : tstate) orders rpc db,
      ranges_cover s (head_number v) (fl_range fl) rs -> 0 <= s -> fs <= s ->
      (forall a b, In (a, b) rs -> range_clear v a b) ->
      st_rows (ts_core st) = rows_of v fs (s - 1) ->
      finv v (s - 1) (st_rows (ts_core st)) (ts_decrypted st) (ts_fired st) ->
      let '(st2, r, wrote) := trange_loop (node_of_view v) st rs orders rpc db in
      (wrote = false /\ st2 = st) \/
      (wrote = true /\ exists k, s <= k <= head_number v /\ synced_at v st2 k).
  Proof.
    intros Hvo.
    induction rs as [|[a b] rest IH]; intros s st orders rpc db Hcov Hs Hfss Hclear Hrows Hfinv; [simpl; left; auto|].
    simpl in Hcov. destruct Hcov as (-> & Hsb & Hbe & Hlen & Hlast & Hfull & Hrest).
    cbn [TriggerSync.trange_loop].
    destruct (pop rpc) as [fh rpc1]. destruct (is_fail fh); [left; auto|].
    change (n_hash (node_of_view v) b) with (hash_at v b).
    destruct (hash_at_in_range titem v b ltac:(lia)) as [hb Hhb]. rewrite Hhb.
    destruct (pop rpc1) as [fr rpc2]. destruct (pop db) as [fa db1].
    destruct (pop_n (length (active st s)) rpc2) as [ft rpc3].
    destruct (is_fail fr || is_fail fa || ft); [left; auto|].
    destruct (popb orders) as [o orders1].
    destruct st as [core dec fi]. cbn [ts_core ts_decrypted ts_fired] in *.
    destruct (core_commit_rows v core s b hb Hvo Hfss Hs Hsb Hbe Hrows) as (Hcore & Hext & Hnd).
    destruct (commit_trange_finv o v core dec fi fs s b hb Hs Hsb Hbe (Hclear s b (or_introl eq_refl)) Hrows Hcore
                                 ltac:(rewrite Hext; exact Hnd) Hfinv) as (fi' & Hcommit & Hfinv').
    rewrite Hcommit.
    set (st' := mktstate (core_commit (node_of_view v) core s b hb) dec fi').
    assert (Hsynced : synced_at v st' b).
    { exists hb. split; [exact Hhb|]. split; [reflexivity|]. cbn [st' ts_core ts_decrypted ts_fired].
      rewrite Hcore, Hext. split; [reflexivity|]. rewrite <- Hext. exact Hfinv'. }
    destruct (pop db1) as [fc db2]. destruct fc.
    - assert (Hcov' : ranges_cover (b + 1) (head_number v) (fl_range fl) rest).
      { destruct rest as [|p rest']; [simpl; specialize (Hlast eq_refl); lia|exact Hrest]. }
      destruct Hsynced as (h' & Hh' & Hst' & Hrows' & Hf').
      specialize (IH (b + 1) st' orders1 rpc3 db2 Hcov' ltac:(lia) ltac:(lia) (fun x y Hxy => Hclear x y (or_intror Hxy))).
      replace (b + 1 - 1) with b in IH by lia. specialize (IH Hrows' Hf').
      destruct (trange_loop (node_of_view v) st' rest orders1 rpc3 db2) as [[st2 r] wrote2].
      right. split; [reflexivity|].
      destruct IH as [[_ ->]|[_ (k & Hk & Hsy)]].
      + exists b. split; [lia|]. exists h'. auto.
      + exists k. split; [lia|exact Hsy].
    - left. auto.
    - right. split; [reflexivity|]. exists b. split; [lia|exact Hsynced].
  Qed.

  Lemma finv_nil_rows (v w : view) k k' dec fi : finv w k [] dec fi -> finv v k' [] dec fi.
  Proof. intros (H1 & H2 & _). split; [exact H1|]. split; [exact H2|]. intros r []. Qed.

  Lemma synced_at_tinv (v : view) st k : 0 <= k <= head_number v -> synced_at v st k -> tinv st v.
  Proof.
    intros Hk (h & Hh & Hst & Hrows & Hf). split.
    - unfold inv. rewrite Hst. split; [exact Hk|]. split; [exact Hrows|right; exact Hh].
    - unfold tpos. rewrite Hst. exact Hf.
  Qed.

  Lemma next_start_clamped (c : state titem) :
    next_start fl c = match st_status c with None => fs | Some (k, _) => Z.max (k + 1) fs end.
  Proof. unfold next_start, start_after. rewrite Hcl. reflexivity. Qed.

  Lemma clamp_rows (v : view) k rows : rows = rows_of v fs k -> rows = rows_of v fs (Z.max (k + 1) fs - 1).
  Proof.
    intros ->. destruct (Z_le_gt_dec fs (k + 1)); [f_equal; lia|].
    rewrite (rows_of_empty titem (@t_admissible LogT) v fs k) by lia. symmetry. apply rows_of_empty. lia.
  Qed.

  Lemma clamp_finv (v : view) k rows dec fi :
    rows = rows_of v fs k -> finv v k rows dec fi -> finv v (Z.max (k + 1) fs - 1) rows dec fi.
  Proof.
    intros Hr Hf. destruct (Z_le_gt_dec fs (k + 1)); [replace (Z.max (k + 1) fs - 1) with k by lia; exact Hf|].
    rewrite Hr in *. rewrite (rows_of_empty titem (@t_admissible LogT) v fs k) in * by lia.
    eapply finv_nil_rows; eauto.
  Qed.

  Lemma tsync_tinv (v w : view) (st : tstate) orders rpc db :
    tview_ok v -> d10_free fl v st ->
    tinv st w ->
    (st_status (ts_core st) <> None -> tview_ok w /\ hash_determines w v) ->
    head_ok fl (mkg (ts_core st) w) v ->
    let '(st', r, wrote) := tsync fl (node_of_view v) st orders rpc db in
    (wrote = false /\ st' = st) \/ (wrote = true /\ tinv st' v).
  Proof.
    intros Hvo Hd10 [Hcinv Hfinv] Hw Hok.
    assert (Hbound : head_number v + fl_range fl < two64) by (destruct Hvo as (_ & _ & _ & Hb); unfold two64; lia).
    (* the common second phase *)
    assert (Hphase2 : forall (st1 : tstate) orders1 rpc1 db1 wrote1 start,
      start = next_start fl (ts_core st1) -> 0 <= start -> fs <= start ->
      (forall rs, get_sync_ranges start (head_number v) (fl_range fl) = RangesDone rs ->
                  forall a b, In (a, b) rs -> range_clear v a b) ->
      (start <= head_number v -> st_rows (ts_core st1) = rows_of v fs (start - 1) /\
                                 finv v (start - 1) (st_rows (ts_core st1)) (ts_decrypted st1) (ts_fired st1)) ->
      ((wrote1 = false /\ st1 = st) \/ (wrote1 = true /\ tinv st1 v)) ->
      let '(st', r, wrote) :=
        (if start >? n_number (node_of_view v) then (st1, Ok, wrote1)
         else match get_sync_ranges start (n_number (node_of_view v)) (fl_range fl) with
              | RangesOutOfFuel => (st1, OutOfFuel, wrote1)
              | RangesDone rs => let '(st2, r, wrote2) := trange_loop (node_of_view v) st1 rs orders1 rpc1 db1 in (st2, r, wrote1 || wrote2)
              end) in
      (wrote = false /\ st' = st) \/ (wrote = true /\ tinv st' v)).
    { intros st1 orders1 rpc1 db1 wrote1 start Hstart Hs0 Hfs0 Hclr Hready Hprev.
      change (n_number (node_of_view v)) with (head_number v).
      destruct (start >? head_number v) eqn:Hgt; [exact Hprev|].
      assert (Hle : start <= head_number v) by (destruct (Z.gtb_spec start (head_number v)); [discriminate|lia]).
      destruct (sync_ranges_cover start (head_number v) (fl_range fl) Hs0 HR Hbound) as (rs & Hrs & Hcov).
      rewrite Hrs. destruct (Hready Hle) as [Hrows1 Hfinv1].
      assert (H := trange_loop_finv v Hvo rs start st1 orders1 rpc1 db1 Hcov Hs0 Hfs0 (Hclr rs Hrs) Hrows1 Hfinv1).
      destruct (trange_loop (node_of_view v) st1 rs orders1 rpc1 db1) as [[st2 r] wrote2].
      destruct H as [[-> ->]|[-> (k & Hk & Hsy)]].
      - rewrite orb_false_r. exact Hprev.
      - right. split; [apply orb_true_r|]. apply (synced_at_tinv v st2 k); [lia|exact Hsy]. }
    unfold TriggerSync.tsync.
    destruct (pop db) as [f1 db1]. destruct (is_fail f1); [left; auto|].
    unfold d10_free, TriggerSync.sync_ranges_of in Hd10.
    unfold reorg_target in *.
    destruct (st_status (ts_core st)) as [[k h]|] eqn:Hst.
    - (* something is synced *)
      destruct (Hw ltac:(discriminate)) as [Hwo Hdet].
      assert (Hc := Hcinv). unfold inv in Hc. rewrite Hst in Hc. destruct Hc as (Hk & Hrows & Hh).
      destruct (reorg_decision titem ukey (@t_key LogT) (@t_admissible LogT) fl HD v w (ts_core st) k h Hvo Hcinv Hdet Hok Hst)
        as [Hno Hyes].
      unfold tpos in Hfinv. rewrite Hst in Hfinv.
      destruct (num_reorged fl k h (node_of_view v) <=? 0) eqn:Hn.
      + apply Z.leb_le in Hn.
        destruct (pop db1) as [f4 db2]. destruct (is_fail f4); [left; auto|].
        apply (Hphase2 st orders rpc db2 false (next_start fl (ts_core st)) eq_refl).
        * rewrite next_start_clamped, Hst. lia.
        * rewrite next_start_clamped, Hst. lia.
        * intros rs Hrs a b Hab. apply Hd10. rewrite Hrs. exact Hab.
        * rewrite next_start_clamped, Hst. intros Hle.
          assert (Hag := Hno Hn ltac:(lia)).
          assert (Hrv : st_rows (ts_core st) = rows_of v fs k).
          { rewrite Hrows. apply (rows_of_agree titem (@t_admissible LogT) w v k); [exact Hag|exact Hfs|lia]. }
          split; [apply clamp_rows; exact Hrv|].
          apply clamp_finv; [exact Hrv|]. apply (finv_agree v w); assumption.
        * left. auto.
      + apply Z.leb_gt in Hn. destruct (Hyes Hn) as (Hkn & Hhead & Hag).
        set (n := num_reorged fl k h (node_of_view v)) in *.
        destruct (pop db1) as [f2 db2]. destruct (is_fail f2); [left; auto|].
        destruct (popb orders) as [o orders1].
        destruct (pop db2) as [f3 db3].
        destruct st as [core dec fi]. cbn [ts_core ts_decrypted ts_fired] in *.
        assert (Hndw : NoDup (reg_keys (st_rows core))).
        { rewrite Hrows. destruct Hwo as (_ & _ & Hku & _).
          apply (keys_unique_stretch titem ukey (@t_key LogT) (@t_admissible LogT) w fs k Hku Hfs). lia. }
        destruct (trollback_finv o w core dec fi fs k (k - n) ltac:(lia) ltac:(lia) Hrows Hndw Hfinv) as (Hcore1 & Hrows1 & Hfinv1).
        set (st1 := trollback o (mktstate core dec fi) (k - n)) in *.
        assert (Hrowsv : rows_of w fs (k - n) = rows_of v fs (k - n)).
        { apply (rows_of_agree titem (@t_admissible LogT) w v (k - n)); [exact Hag|exact Hfs|lia]. }
        assert (Hst1 : st_status (ts_core st1) = Some (k - n, [])) by (rewrite Hcore1; reflexivity).
        assert (Htinv1 : tinv st1 v).
        { split.
          - unfold inv. rewrite Hst1. split; [lia|]. split; [rewrite Hcore1, Hrows1; exact Hrowsv|left; reflexivity].
          - unfold tpos. rewrite Hst1. rewrite Hcore1, Hrows1. apply (finv_agree v w); [exact Hag|exact Hfinv1]. }
        assert (Hcontinue : forall dbx,
          let '(st', r, wrote) :=
            (let '(f4, dbx) := pop dbx in
             if is_fail f4 then (st1, Err, true) else
             let start := next_start fl (ts_core st1) in
             let e := n_number (node_of_view v) in
             if start >? e then (st1, Ok, true) else
             match get_sync_ranges start e (fl_range fl) with
             | RangesOutOfFuel => (st1, OutOfFuel, true)
             | RangesDone rs => let '(st2, r, wrote2) := trange_loop (node_of_view v) st1 rs orders1 rpc dbx in (st2, r, true || wrote2)
             end) in
          (wrote = false /\ st' = mktstate core dec fi) \/ (wrote = true /\ tinv st' v)).
        { intros dbx. destruct (pop dbx) as [f4 dbx1]. destruct (is_fail f4); [right; auto|].
          apply (Hphase2 st1 orders1 rpc dbx1 true (next_start fl (ts_core st1)) eq_refl).
          * rewrite next_start_clamped, Hst1. lia.
          * rewrite next_start_clamped, Hst1. lia.
          * intros rs Hrs a b Hab. apply Hd10. rewrite <- Hcore1. rewrite Hrs. exact Hab.
          * rewrite next_start_clamped, Hst1. intros _.
            destruct Htinv1 as [_ Hf]. unfold tpos in Hf. rewrite Hst1 in Hf.
            assert (Hrv : st_rows (ts_core st1) = rows_of v fs (k - n)) by (rewrite Hcore1, Hrows1; exact Hrowsv).
            split; [apply clamp_rows; exact Hrv|apply clamp_finv; assumption].
          * right. auto. }
        destruct f3.
        * exact (Hcontinue db3).
        * left. auto.
        * right. auto.
    - (* nothing synced yet *)
      assert (Hc := Hcinv). unfold inv in Hc. rewrite Hst in Hc.
      unfold tpos in Hfinv. rewrite Hst in Hfinv.
      destruct (pop db1) as [f4 db2]. destruct (is_fail f4); [left; auto|].
      apply (Hphase2 st orders rpc db2 false (next_start fl (ts_core st)) eq_refl).
      + rewrite next_start_clamped, Hst. exact Hfs.
      + rewrite next_start_clamped, Hst. lia.
      + intros rs Hrs a b Hab. apply Hd10. rewrite Hrs. exact Hab.
      + rewrite next_start_clamped, Hst. intros _. rewrite Hc in *. split.
        * symmetry. apply rows_of_empty. lia.
        * eapply finv_nil_rows; eauto.
      + left. auto.
  Qed.

  (* histories *)
  Notation tuniverse_ok := (tuniverse_ok fl).

  Definition tginv (U : list view) (g : tgstate LogT) : Prop :=
    tinv (tg_st g) (tg_view g) /\ (st_status (ts_core (tg_st g)) <> None -> In (tg_view g) U).

  Lemma tdecrypt_tinv (st : tstate) k w : tinv st w -> tinv (tdecrypt st k) w.
  Proof.
    intros [H1 H2]. unfold tdecrypt. destruct (_ && _); [|split; assumption].
    split; [exact H1|]. unfold tpos in *. cbn [ts_core ts_decrypted ts_fired]. apply finv_decrypt. exact H2.
  Qed.

  Definition op_ok (g : tgstate LogT) (op : top LogT) : Prop :=
    match op with
    | TSync v _ _ _ => head_ok fl (mkg (ts_core (tg_st g)) (tg_view g)) v /\ d10_free fl v (tg_st g)
    | TDecrypt _ => True
    end.

  Lemma tgstep_inv (U : list view) g op :
    tuniverse_ok U -> (forall v o r d, op = TSync v o r d -> In v U) -> tginv U g -> op_ok g op ->
    tginv U (tgstep fl g op).
  Proof.
    intros [HU Hdet] Hin [Hinv Hghost] Hok. destruct g as [st w]. cbn [tg_st tg_view] in *.
    destruct op as [v orders rpc db|k]; cbn [TriggerSync.tgstep tg_st tg_view].
    - specialize (Hin v orders rpc db eq_refl). assert (Hvo := HU v Hin).
      destruct Hok as [Hhead Hd10]. cbn [tg_st tg_view] in *.
      assert (H := tsync_tinv v w st orders rpc db Hvo Hd10 Hinv
                     (fun Hs => conj (HU w (Hghost Hs)) (Hdet w v (Hghost Hs) Hin)) Hhead).
      destruct (tsync fl (node_of_view v) st orders rpc db) as [[st' r] wrote].
      destruct H as [[-> ->]|[-> Hinv']]; cbn [tg_st tg_view].
      + split; assumption.
      + split; [exact Hinv'|]. intros _. exact Hin.
    - split; [apply tdecrypt_tinv; exact Hinv|].
      intros Hs. apply Hghost. unfold tdecrypt in Hs. destruct (_ && _); exact Hs.
  Qed.

  Lemma op_ok_of (g : tgstate LogT) op rest :
    theads_ok fl g (op :: rest) -> td10_free fl g (op :: rest) -> op_ok g op.
  Proof.
    cbn [TriggerSync.theads_ok TriggerSync.td10_free]. intros [H1 _] [H2 _]. destruct op; [split; assumption|exact I].
  Qed.

  Lemma tgrun_inv (U : list view) : tuniverse_ok U ->
    forall ops g, (forall v o r d, In (TSync v o r d) ops -> In v U) -> tginv U g ->
                  theads_ok fl g ops -> td10_free fl g ops ->
                  tginv U (fold_left (tgstep fl) ops g).
  Proof.
    intros HU. induction ops as [|op rest IH]; intros g Hin Hg Hok Hd; [exact Hg|].
    cbn [fold_left]. assert (Hop := op_ok_of g op rest Hok Hd).
    cbn [TriggerSync.theads_ok TriggerSync.td10_free] in Hok, Hd. destruct Hok as [_ Hok2]. destruct Hd as [_ Hd2].
    apply IH; [intros v o r d Hv; apply (Hin v o r d); right; exact Hv| |exact Hok2|exact Hd2].
    apply tgstep_inv; auto.
    intros v o r d ->. apply (Hin v o r d). left. reflexivity.
  Qed.

  Lemma top_views_In (ops : list (top LogT)) v o r d : In (TSync v o r d) ops -> In v (top_views ops).
  Proof. intros H. unfold top_views. apply in_flat_map. exists (TSync v o r d). split; [exact H|left; reflexivity]. Qed.

  Lemma tginit_inv U : tginv U tginit.
  Proof.
    split.
    - split; [reflexivity|]. split; [constructor|]. split; [intros f []|intros r []].
    - intros H. exfalso. apply H. reflexivity.
  Qed.

  Theorem trigger_exact (ops : list (top LogT)) (v : view) (orders : list bool) (rpc db : list fault) :
    let history := ops ++ [TSync v orders rpc db] in
    tuniverse_ok (top_views history) -> theads_ok fl tginit history -> td10_free fl tginit history ->
    let st := tg_st (tgrun fl history) in
    forall k h b, st_status (ts_core st) = Some (k, h) -> block_at v k = Some b -> bk_hash b = h ->
      st_rows (ts_core st) = rows_of v fs k /\
      NoDup (map f_key (ts_fired st)) /\
      (forall f, In f (ts_fired st) -> should_fire match_log v fs k f) /\
      (forall r l, In r (rows_of v fs k) -> has_key (t_key (pe_ev r)) (ts_decrypted st) = false ->
                   first_fire v k r = Some l -> In (fire_row r l) (ts_fired st)).
  Proof.
    intros history HU Hok Hd10 st k h b Hst Hb Hh.
    assert (Hg : tginv (top_views history) (tgrun fl history)).
    { unfold TriggerSync.tgrun. apply tgrun_inv; auto.
      - intros u o r d Hu. eapply top_views_In; eauto.
      - apply tginit_inv. }
    destruct Hg as [[Hcinv Hfinv] Hghost]. fold st in Hcinv, Hfinv, Hghost.
    unfold inv in Hcinv. unfold tpos in Hfinv. rewrite Hst in Hcinv, Hfinv.
    destruct Hcinv as (Hk & Hrows & Hhash).
    assert (Hv : In v (top_views history)).
    { apply (top_views_In history v orders rpc db). unfold history. apply in_or_app. right. left. reflexivity. }
    destruct HU as [HU Hdet]. destruct (HU v Hv) as (_ & Hhn & _).
    assert (Hne : h <> []) by (rewrite <- Hh; apply Hhn; eapply block_at_In; eauto).
    destruct Hhash as [Hhash|Hhash]; [contradiction|].
    set (w := tg_view (tgrun fl history)) in *.
    assert (Hw : In w (top_views history)) by (apply Hghost; rewrite Hst; discriminate).
    assert (Hag : agree_upto w v k).
    { eapply hash_at_determines; [apply Hdet; assumption|exact Hhash|]. unfold hash_at. rewrite Hb. simpl. congruence. }
    assert (Hrowsv : st_rows (ts_core st) = rows_of v fs k).
    { rewrite Hrows. apply (rows_of_agree titem (@t_admissible LogT) w v k); [exact Hag|exact Hfs|lia]. }
    split; [exact Hrowsv|].
    apply (finv_agree v w) in Hfinv; [|exact Hag]. rewrite Hrowsv in Hfinv.
    destruct Hfinv as (H1 & H2 & H3). split; [exact H1|]. split.
    - intros f Hf. specialize (H2 f Hf). unfold reg_keys in H2. apply in_map_iff in H2.
      destruct H2 as (r & Hkey & Hr). specialize (H3 r Hr). rewrite Hkey in H3.
      rewrite (flookup_In_nodup _ f H1 Hf) in H3. destruct H3 as (l & Hl & ->).
      exists r, l. auto.
    - intros r l Hr Hdec Hl. specialize (H3 r Hr).
      destruct (flookup (t_key (pe_ev r)) (ts_fired st)) as [f|] eqn:E.
      + destruct H3 as (l' & Hl' & ->). rewrite Hl in Hl'. injection Hl' as <-.
        apply flookup_some in E. apply E.
      + destruct H3 as [H3|H3]; congruence.
  Qed.

  (* the chain-level exclusion implies the exact one along every history *)
  Lemma cover_In s e r rs a b : ranges_cover s e r rs -> In (a, b) rs -> s <= a /\ a <= b /\ b <= e /\ b - a < r.
  Proof.
    revert s. induction rs as [|[x y] rest IH]; intros s Hcov Hin; [destruct Hin|].
    simpl in Hcov. destruct Hcov as (-> & H1 & H2 & H3 & _ & _ & Hrest).
    destruct Hin as [[= <- <-]|Hin]; [lia|].
    destruct rest as [|p rest']; [destruct Hin|]. specialize (IH (y + 1) Hrest Hin). lia.
  Qed.

  Lemma no_early_d10_free (v w : view) (st : tstate) :
    tview_ok v -> tinv st w -> no_early_match match_log (fl_range fl) v -> d10_free fl v st.
  Proof.
    intros (Hne & Hhn & Hku & Hb) [Hcinv _] Hnem s e Hin.
    unfold TriggerSync.sync_ranges_of in Hin.
    set (start := match reorg_target fl (node_of_view v) st with
                  | Some to => next_start fl (rollback_to (ts_core st) to) | None => next_start fl (ts_core st) end) in *.
    assert (Hs0 : 0 <= start).
    { unfold start, reorg_target. unfold inv in Hcinv.
      destruct (st_status (ts_core st)) as [[k h]|] eqn:Hst; [|rewrite next_start_clamped, Hst; exact Hfs].
      destruct Hcinv as (Hk & _). destruct (num_reorged fl k h (node_of_view v) <=? 0).
      - rewrite next_start_clamped, Hst. lia.
      - rewrite next_start_clamped. cbn [rollback_to st_status]. lia. }
    destruct (sync_ranges_cover start (head_number v) (fl_range fl) Hs0 HR ltac:(unfold two64; lia)) as (rs & Hrs & Hcov).
    rewrite Hrs in Hin. destruct (cover_In _ _ _ _ _ _ Hcov Hin) as (H1 & H2 & H3 & H4).
    intros p Hp. eapply first_fire_new_none; eauto; lia.
  Qed.

  Lemma no_early_td10_free (U : list view) : tuniverse_ok U -> (forall u, In u U -> no_early_match match_log (fl_range fl) u) ->
    forall ops g, (forall v o r d, In (TSync v o r d) ops -> In v U) -> tginv U g -> theads_ok fl g ops -> td10_free fl g ops.
  Proof.
    intros HU Hnem. induction ops as [|op rest IH]; intros g Hin Hg Hok; [exact I|].
    assert (Hd : match op with TSync v _ _ _ => d10_free fl v (tg_st g) | TDecrypt _ => True end).
    { destruct op as [v o r d|k]; [|exact I].
      assert (Hv : In v U) by (apply (Hin v o r d); left; reflexivity).
      destruct HU as [HU _]. assert (Hvo := HU v Hv). destruct Hg as [Hti _].
      eapply no_early_d10_free; eauto. }
    cbn [TriggerSync.td10_free]. split; [exact Hd|].
    cbn [TriggerSync.theads_ok] in Hok. destruct Hok as [Hok1 Hok2].
    apply IH; [intros v o r d Hv; apply (Hin v o r d); right; exact Hv| |exact Hok2].
    apply tgstep_inv; auto.
    - intros v o r d ->. apply (Hin v o r d). left. reflexivity.
    - destruct op; [split; assumption|exact I].
  Qed.

  Corollary no_early_history (ops : list (top LogT)) :
    tuniverse_ok (top_views ops) -> (forall u, In u (top_views ops) -> no_early_match match_log (fl_range fl) u) ->
    theads_ok fl tginit ops -> td10_free fl tginit ops.
  Proof.
    intros HU Hnem Hok. apply (no_early_td10_free (top_views ops)); auto.
    - intros v o r d Hv. eapply top_views_In; eauto.
    - apply tginit_inv.
  Qed.

  (* ----- the registration table alone (C15 for the two-processor configuration): no D10 exclusion *)

  Lemma commit_trange_core o nd (st : tstate) s e h st' :
    commit_trange o nd st s e h = Some st' -> ts_core st' = core_commit nd (ts_core st) s e h.
  Proof. unfold TriggerSync.commit_trange. destruct (insert_all _ _ _); [intros [= <-]; reflexivity|discriminate]. Qed.

  Lemma trollback_core o (st : tstate) to : ts_core (trollback o st to) = rollback_to (ts_core st) to.
  Proof. reflexivity. Qed.

  Lemma trange_loop_cinv (v : view) :
    tview_ok v ->
    forall rs s (st : tstate) orders rpc db,
      ranges_cover s (head_number v) (fl_range fl) rs -> 0 <= s -> fs <= s ->
      st_rows (ts_core st) = rows_of v fs (s - 1) ->
      let '(st2, r, wrote) := trange_loop (node_of_view v) st rs orders rpc db in
      (wrote = false /\ st2 = st) \/
      (wrote = true /\ exists k h, s <= k <= head_number v /\ hash_at v k = Some h /\
                                  ts_core st2 = mkstate (Some (k, h)) (rows_of v fs k)).
  Proof.
    intros Hvo.
    induction rs as [|[a b] rest IH]; intros s st orders rpc db Hcov Hs Hfss Hrows; [simpl; left; auto|].
    simpl in Hcov. destruct Hcov as (-> & Hsb & Hbe & Hlen & Hlast & Hfull & Hrest).
    cbn [TriggerSync.trange_loop].
    destruct (pop rpc) as [fh rpc1]. destruct (is_fail fh); [left; auto|].
    change (n_hash (node_of_view v) b) with (hash_at v b).
    destruct (hash_at_in_range titem v b ltac:(lia)) as [hb Hhb]. rewrite Hhb.
    destruct (pop rpc1) as [fr rpc2]. destruct (pop db) as [fa db1].
    destruct (pop_n (length (active st s)) rpc2) as [ft rpc3].
    destruct (is_fail fr || is_fail fa || ft); [left; auto|].
    destruct (popb orders) as [o orders1].
    destruct (commit_trange o (node_of_view v) st s b hb) as [st'|] eqn:Ec; [|left; auto].
    assert (Hcore' : ts_core st' = mkstate (Some (b, hb)) (rows_of v fs b)).
    { rewrite (commit_trange_core _ _ _ _ _ _ _ Ec).
      destruct (core_commit_rows v (ts_core st) s b hb Hvo Hfss Hs Hsb Hbe Hrows) as (Hc & Hext & _).
      unfold Syncer.commit_range in *. cbn [st_rows] in Hc. f_equal. rewrite Hc. exact Hext. }
    destruct (pop db1) as [fc db2]. destruct fc.
    - assert (Hcov' : ranges_cover (b + 1) (head_number v) (fl_range fl) rest).
      { destruct rest as [|p rest']; [simpl; specialize (Hlast eq_refl); lia|exact Hrest]. }
      specialize (IH (b + 1) st' orders1 rpc3 db2 Hcov' ltac:(lia) ltac:(lia)).
      replace (b + 1 - 1) with b in IH by lia. rewrite Hcore' in IH. specialize (IH eq_refl).
      destruct (trange_loop (node_of_view v) st' rest orders1 rpc3 db2) as [[st2 r] wrote2].
      right. split; [reflexivity|].
      destruct IH as [[_ ->]|[_ (k & h & Hk & Hh & Hc2)]].
      + exists b, hb. split; [lia|]. auto.
      + exists k, h. split; [lia|]. auto.
    - left. auto.
    - right. split; [reflexivity|]. exists b, hb. split; [lia|]. auto.
  Qed.

  Lemma tsync_cinv (v w : view) (st : tstate) orders rpc db :
    tview_ok v ->
    cinv (ts_core st) w ->
    (st_status (ts_core st) <> None -> hash_determines w v) ->
    head_ok fl (mkg (ts_core st) w) v ->
    let '(st', r, wrote) := tsync fl (node_of_view v) st orders rpc db in
    (wrote = false /\ st' = st) \/ (wrote = true /\ cinv (ts_core st') v).
  Proof.
    intros Hvo Hcinv Hw Hok.
    assert (Hbound : head_number v + fl_range fl < two64) by (destruct Hvo as (_ & _ & _ & Hb); unfold two64; lia).
    assert (Hphase2 : forall (st1 : tstate) orders1 rpc1 db1 wrote1 start,
      start = next_start fl (ts_core st1) -> 0 <= start -> fs <= start ->
      (start <= head_number v -> st_rows (ts_core st1) = rows_of v fs (start - 1)) ->
      ((wrote1 = false /\ st1 = st) \/ (wrote1 = true /\ cinv (ts_core st1) v)) ->
      let '(st', r, wrote) :=
        (let '(f4, db1) := pop db1 in
         if is_fail f4 then (st1, Err, wrote1) else
         if start >? n_number (node_of_view v) then (st1, Ok, wrote1)
         else match get_sync_ranges start (n_number (node_of_view v)) (fl_range fl) with
              | RangesOutOfFuel => (st1, OutOfFuel, wrote1)
              | RangesDone rs => let '(st2, r, wrote2) := trange_loop (node_of_view v) st1 rs orders1 rpc1 db1 in (st2, r, wrote1 || wrote2)
              end) in
      (wrote = false /\ st' = st) \/ (wrote = true /\ cinv (ts_core st') v)).
    { intros st1 orders1 rpc1 db1 wrote1 start Hstart Hs0 Hfs0 Hready Hprev.
      destruct (pop db1) as [f4 db2]. destruct (is_fail f4); [exact Hprev|].
      change (n_number (node_of_view v)) with (head_number v).
      destruct (start >? head_number v) eqn:Hgt; [exact Hprev|].
      assert (Hle : start <= head_number v) by (destruct (Z.gtb_spec start (head_number v)); [discriminate|lia]).
      destruct (sync_ranges_cover start (head_number v) (fl_range fl) Hs0 HR Hbound) as (rs & Hrs & Hcov).
      rewrite Hrs.
      assert (H := trange_loop_cinv v Hvo rs start st1 orders1 rpc1 db2 Hcov Hs0 Hfs0 (Hready Hle)).
      destruct (trange_loop (node_of_view v) st1 rs orders1 rpc1 db2) as [[st2 r] wrote2].
      destruct H as [[-> ->]|[-> (k & h & Hk & Hh & Hc2)]].
      - rewrite orb_false_r. exact Hprev.
      - right. split; [apply orb_true_r|]. rewrite Hc2. unfold inv. cbn [st_status st_rows].
        split; [lia|]. split; [reflexivity|right; exact Hh]. }
    unfold TriggerSync.tsync.
    destruct (pop db) as [f1 db1]. destruct (is_fail f1); [left; auto|].
    unfold reorg_target.
    destruct (st_status (ts_core st)) as [[k h]|] eqn:Hst.
    - specialize (Hw ltac:(discriminate)).
      assert (Hc := Hcinv). unfold inv in Hc. rewrite Hst in Hc. destruct Hc as (Hk & Hrows & Hh).
      destruct (reorg_decision titem ukey (@t_key LogT) (@t_admissible LogT) fl HD v w (ts_core st) k h Hvo Hcinv Hw Hok Hst)
        as [Hno Hyes].
      destruct (num_reorged fl k h (node_of_view v) <=? 0) eqn:Hn.
      + apply Z.leb_le in Hn.
        apply (Hphase2 st orders rpc db1 false (next_start fl (ts_core st)) eq_refl).
        * rewrite next_start_clamped, Hst. lia.
        * rewrite next_start_clamped, Hst. lia.
        * rewrite next_start_clamped, Hst. intros Hle. apply clamp_rows.
          rewrite Hrows. apply (rows_of_agree titem (@t_admissible LogT) w v k); [exact (Hno Hn ltac:(lia))|exact Hfs|lia].
        * left. auto.
      + apply Z.leb_gt in Hn. destruct (Hyes Hn) as (Hkn & Hhead & Hag).
        set (n := num_reorged fl k h (node_of_view v)) in *.
        destruct (pop db1) as [f2 db2]. destruct (is_fail f2); [left; auto|].
        destruct (popb orders) as [o orders1]. destruct (pop db2) as [f3 db3].
        set (st1 := trollback o st (k - n)).
        assert (Hcore1 : ts_core st1 = mkstate (Some (k - n, [])) (rows_of v fs (k - n))).
        { unfold st1. rewrite trollback_core. unfold rollback_to. f_equal. rewrite Hrows, rows_of_rollback by lia.
          apply (rows_of_agree titem (@t_admissible LogT) w v (k - n)); [exact Hag|exact Hfs|lia]. }
        assert (Hcinv1 : cinv (ts_core st1) v).
        { rewrite Hcore1. unfold inv. cbn [st_status st_rows]. split; [lia|]. split; [reflexivity|left; reflexivity]. }
        destruct f3.
        * apply (Hphase2 st1 orders1 rpc db3 true (next_start fl (ts_core st1)) eq_refl).
          -- rewrite next_start_clamped, Hcore1. cbn [st_status]. lia.
          -- rewrite next_start_clamped, Hcore1. cbn [st_status]. lia.
          -- rewrite next_start_clamped, Hcore1. cbn [st_status st_rows]. intros _. apply clamp_rows. reflexivity.
          -- right. auto.
        * left. auto.
        * right. auto.
    - assert (Hc := Hcinv). unfold inv in Hc. rewrite Hst in Hc.
      apply (Hphase2 st orders rpc db1 false (next_start fl (ts_core st)) eq_refl).
      + rewrite next_start_clamped, Hst. exact Hfs.
      + rewrite next_start_clamped, Hst. lia.
      + rewrite next_start_clamped, Hst. intros _. rewrite Hc. symmetry. apply rows_of_empty. lia.
      + left. auto.
  Qed.

  Definition cginv (U : list view) (g : tgstate LogT) : Prop :=
    cinv (ts_core (tg_st g)) (tg_view g) /\ (st_status (ts_core (tg_st g)) <> None -> In (tg_view g) U).

  Lemma cgrun_inv (U : list view) : tuniverse_ok U ->
    forall ops g, (forall v o r d, In (TSync v o r d) ops -> In v U) -> cginv U g -> theads_ok fl g ops ->
                  cginv U (fold_left (tgstep fl) ops g).
  Proof.
    intros [HU Hdet]. induction ops as [|op rest IH]; intros g Hin Hg Hok; [exact Hg|].
    cbn [fold_left]. cbn [TriggerSync.theads_ok] in Hok. destruct Hok as [Hok1 Hok2].
    apply IH; [intros v o r d Hv; apply (Hin v o r d); right; exact Hv| |exact Hok2].
    destruct Hg as [Hinv Hghost]. destruct g as [st w]. cbn [tg_st tg_view] in *.
    destruct op as [v orders rpc db|k]; cbn [TriggerSync.tgstep tg_st tg_view].
    - assert (Hv : In v U) by (apply (Hin v orders rpc db); left; reflexivity).
      assert (Hvo := HU v Hv).
      assert (H := tsync_cinv v w st orders rpc db Hvo Hinv (fun Hs => Hdet w v (Hghost Hs) Hv) Hok1).
      destruct (tsync fl (node_of_view v) st orders rpc db) as [[st' r] wrote].
      destruct H as [[-> ->]|[-> Hinv']]; cbn [tg_st tg_view]; split; auto.
    - split; unfold tdecrypt; destruct (_ && _); auto.
  Qed.

  Theorem registrations_exact (ops : list (top LogT)) (v : view) (orders : list bool) (rpc db : list fault) :
    let history := ops ++ [TSync v orders rpc db] in
    tuniverse_ok (top_views history) -> theads_ok fl tginit history ->
    let st := tg_st (tgrun fl history) in
    forall k h b, st_status (ts_core st) = Some (k, h) -> block_at v k = Some b -> bk_hash b = h ->
      st_rows (ts_core st) = rows_of v fs k.
  Proof.
    intros history HU Hok st k h b Hst Hb Hh.
    assert (Hg : cginv (top_views history) (tgrun fl history)).
    { unfold TriggerSync.tgrun. apply cgrun_inv; auto.
      - intros u o r d Hu. eapply top_views_In; eauto.
      - split; [reflexivity|]. intros H. exfalso. apply H. reflexivity. }
    destruct Hg as [Hcinv Hghost]. fold st in Hcinv, Hghost.
    unfold inv in Hcinv. rewrite Hst in Hcinv. destruct Hcinv as (Hk & Hrows & Hhash).
    assert (Hv : In v (top_views history)).
    { apply (top_views_In history v orders rpc db). unfold history. apply in_or_app. right. left. reflexivity. }
    destruct HU as [HU Hdet]. destruct (HU v Hv) as (_ & Hhn & _).
    assert (Hne : h <> []) by (rewrite <- Hh; apply Hhn; eapply block_at_In; eauto).
    destruct Hhash as [Hhash|Hhash]; [contradiction|].
    set (w := tg_view (tgrun fl history)) in *.
    assert (Hw : In w (top_views history)) by (apply Hghost; rewrite Hst; discriminate).
    assert (Hag : agree_upto w v k).
    { eapply hash_at_determines; [apply Hdet; assumption|exact Hhash|]. unfold hash_at. rewrite Hb. simpl. congruence. }
    rewrite Hrows. apply (rows_of_agree titem (@t_admissible LogT) w v k); [exact Hag|exact Hfs|lia].
  Qed.

  End Exact.

  (* range limit 1: the exclusion is vacuous *)
  Lemma no_early_match_one (v : view) : no_early_match match_log 1 v.
  Proof.
    intros p u l _ _ _ Hw. unfold TriggerSync.window_match in Hw. destruct (pe_ev l); [discriminate|].
    apply andb_true_iff in Hw. destruct Hw as [Hw _]. apply andb_true_iff in Hw. destruct Hw as [Hw _].
    apply Z.ltb_lt in Hw. lia.
  Qed.

  (* ------------------------------------------------------------------------------------- *)
  (* C16_spec: what first_fire computes *)

  Lemma find_split {A} (p : A -> bool) l x :
    find p l = Some x <-> exists pre post, l = pre ++ x :: post /\ p x = true /\ forall y, In y pre -> p y = false.
  Proof.
    split.
    - induction l as [|a l IH]; simpl; [discriminate|].
      destruct (p a) eqn:Ha.
      + intros [= ->]. exists [], l. repeat split; auto. intros y [].
      + intros H. destruct (IH H) as (pre & post & -> & Hx & Hpre).
        exists (a :: pre), post. repeat split; auto. intros y [<-|Hy]; auto.
    - intros (pre & post & -> & Hx & Hpre). rewrite find_app.
      assert (Hn : find p pre = None) by (apply find_none_iff; exact Hpre).
      rewrite Hn. simpl. rewrite Hx. reflexivity.
  Qed.

  Theorem first_fire_spec (v : view) k r u : pe_ev r = IReg u -> forall l,
    first_fire v k r = Some l <->
    exists pre post, logs_of v 0 k = pre ++ l :: post /\
                     window_match u (pe_block r) l = true /\
                     forall x, In x pre -> window_match u (pe_block r) x = false.
  Proof. intros Hev l. unfold TriggerSync.first_fire. rewrite Hev. apply find_split. Qed.

  Lemma window_match_spec u b (p : pev titem) :
    window_match u b p = true <->
    exists lg, pe_ev p = ILog lg /\ b < pe_block p /\ pe_block p <= ev_expiry u /\ match_log (ev_definition u) lg = true.
  Proof.
    unfold TriggerSync.window_match. destruct (pe_ev p) as [u'|lg].
    - split; [discriminate|intros (lg & H & _); discriminate].
    - rewrite !andb_true_iff, Z.ltb_lt, Z.leb_le. split.
      + intros [[H1 H2] H3]. exists lg. auto.
      + intros (lg' & [= <-] & H1 & H2 & H3). auto.
  Qed.

  (* ------------------------------------------------------------------------------------- *)
  (* C16_at_most_once: for all histories, no assumption *)

  Lemma insert_fired_nodup (regs : list (pev titem)) fi f fi' :
    insert_fired regs fi f = Some fi' -> NoDup (map f_key fi) -> NoDup (map f_key fi').
  Proof.
    unfold insert_fired. destruct (has_key (f_key f) (map f_key fi)) eqn:Hh; [intros [= <-]; auto|].
    destruct (has_key (f_key f) (reg_keys regs)); [|discriminate].
    intros [= <-] Hnd. rewrite map_app. apply NoDup_snoc; [exact Hnd|]. apply has_key_false. exact Hh.
  Qed.

  Lemma insert_all_nodup (regs : list (pev titem)) fs : forall fi fi',
    insert_all regs fi fs = Some fi' -> NoDup (map f_key fi) -> NoDup (map f_key fi').
  Proof.
    unfold insert_all. induction fs as [|f fs IH]; intros fi fi'; simpl; [intros [= <-]; auto|].
    destruct (insert_fired regs fi f) as [fi1|] eqn:E.
    - intros H Hnd. eapply IH; [exact H|]. eapply insert_fired_nodup; eauto.
    - intros H. exfalso. clear - H. induction fs as [|x fs IH]; simpl in H; [discriminate|auto].
  Qed.

  Definition fired_nodup (st : tstate) : Prop := NoDup (map f_key (ts_fired st)).

  Lemma commit_trange_nodup o nd st s e h st' : commit_trange o nd st s e h = Some st' -> fired_nodup st -> fired_nodup st'.
  Proof.
    unfold TriggerSync.commit_trange. destruct (insert_all _ _ _) as [fi|] eqn:E; [|discriminate].
    intros [= <-] Hnd. unfold fired_nodup. cbn [ts_fired]. eapply insert_all_nodup; eauto.
  Qed.

  Lemma trollback_nodup o st to : fired_nodup st -> fired_nodup (trollback o st to).
  Proof. intros H. unfold fired_nodup, trollback. cbn [ts_fired]. destruct o; repeat apply NoDup_map_filter; exact H. Qed.

  (* a predicate preserved by range commits and rollbacks is preserved by Sync *)
  Lemma trange_loop_preserves (P : tstate -> Prop) nd :
    (forall o st s e h st', commit_trange o nd st s e h = Some st' -> P st -> P st') ->
    forall rs st orders rpc db, P st -> P (fst (fst (trange_loop nd st rs orders rpc db))).
  Proof.
    intros Hc. induction rs as [|[s e] rest IH]; intros st orders rpc db H; simpl; [exact H|].
    destruct (pop rpc) as [fh rpc1]. destruct (is_fail fh); [exact H|].
    destruct (n_hash nd e) as [h|]; [|exact H].
    destruct (pop rpc1) as [fr rpc2]. destruct (pop db) as [fa db1].
    destruct (pop_n (length (active st s)) rpc2) as [ft rpc3].
    destruct (is_fail fr || is_fail fa || ft); [exact H|].
    destruct (popb orders) as [o orders1].
    destruct (commit_trange o nd st s e h) as [st'|] eqn:E; [|exact H].
    assert (H' := Hc _ _ _ _ _ _ E H).
    destruct (pop db1) as [fc db2]. destruct fc; [|exact H|exact H'].
    specialize (IH st' orders1 rpc3 db2 H').
    destruct (trange_loop nd st' rest orders1 rpc3 db2) as [[st2 r] w]. exact IH.
  Qed.

  Lemma tsync_preserves (P : tstate -> Prop) fl nd :
    (forall o st s e h st', commit_trange o nd st s e h = Some st' -> P st -> P st') ->
    (forall o st to, P st -> P (trollback o st to)) ->
    forall st orders rpc db, P st -> P (fst (fst (tsync fl nd st orders rpc db))).
  Proof.
    intros Hc Hr st orders rpc db H. unfold TriggerSync.tsync.
    assert (Hgen : forall st1 orders1 dbx w1, P st1 ->
      P (fst (fst (let '(f4, dbx) := pop dbx in
        if is_fail f4 then (st1, Err, w1) else
        let start := next_start fl (ts_core st1) in
        if start >? n_number nd then (st1, Ok, w1) else
        match get_sync_ranges start (n_number nd) (fl_range fl) with
        | RangesOutOfFuel => (st1, OutOfFuel, w1)
        | RangesDone rs => let '(st2, r, w2) := trange_loop nd st1 rs orders1 rpc dbx in (st2, r, w1 || w2)
        end)))).
    { intros st1 orders1 dbx w1 H1. destruct (pop dbx) as [f4 dbx1]. destruct (is_fail f4); [exact H1|].
      cbv zeta. destruct (_ >? _); [exact H1|].
      destruct (get_sync_ranges _ _ _) as [rs|]; [|exact H1].
      assert (H2 := trange_loop_preserves P nd Hc rs st1 orders1 rpc dbx1 H1).
      destruct (trange_loop nd st1 rs orders1 rpc dbx1) as [[st2 r] w2]. exact H2. }
    destruct (pop db) as [f1 db1]. destruct (is_fail f1); [exact H|].
    destruct (reorg_target fl nd st) as [to|]; [|apply Hgen; exact H].
    destruct (pop db1) as [f2 db2]. destruct (is_fail f2); [exact H|].
    destruct (popb orders) as [o orders1]. destruct (pop db2) as [f3 db3].
    destruct f3; [apply Hgen; apply Hr; exact H|exact H|apply Hr; exact H].
  Qed.

  Lemma tgrun_preserves (P : tstate -> Prop) fl :
    (forall nd o st s e h st', commit_trange o nd st s e h = Some st' -> P st -> P st') ->
    (forall o st to, P st -> P (trollback o st to)) ->
    (forall st k, P st -> P (tdecrypt st k)) ->
    forall ops g, P (tg_st g) -> P (tg_st (fold_left (tgstep fl) ops g)).
  Proof.
    intros Hc Hr Hd. induction ops as [|op rest IH]; intros g Hg; [exact Hg|]. cbn [fold_left]. apply IH.
    destruct op as [v orders rpc db|k]; cbn [TriggerSync.tgstep].
    - assert (H := tsync_preserves P fl (node_of_view v) (Hc _) Hr (tg_st g) orders rpc db Hg).
      destruct (tsync fl (node_of_view v) (tg_st g) orders rpc db) as [[st' r] w]. exact H.
    - cbn [tg_st]. apply Hd. exact Hg.
  Qed.

  Theorem at_most_once fl (ops : list (top LogT)) : fired_nodup (tg_st (tgrun fl ops)).
  Proof.
    unfold TriggerSync.tgrun. apply tgrun_preserves.
    - intros nd o st s e h st'. apply commit_trange_nodup.
    - intros o st to. apply trollback_nodup.
    - intros st k H. unfold tdecrypt. destruct (_ && _); exact H.
    - constructor.
  Qed.

  (* without updates of the decrypted flag no registration is ever marked *)
  Definition no_decrypt (ops : list (top LogT)) : Prop := forall k, ~ In (TDecrypt k) ops.

  Lemma decrypted_nil fl (ops : list (top LogT)) : no_decrypt ops -> ts_decrypted (tg_st (tgrun fl ops)) = [].
  Proof.
    intros Hnd. unfold TriggerSync.tgrun.
    assert (Hgen : forall g, ts_decrypted (tg_st g) = [] -> ts_decrypted (tg_st (fold_left (tgstep fl) ops g)) = []).
    { induction ops as [|op rest IH]; intros g Hg; [exact Hg|]. cbn [fold_left]. apply IH.
      - intros k Hk. apply (Hnd k). right. exact Hk.
      - destruct op as [v orders rpc db|k]; [|exfalso; apply (Hnd k); left; reflexivity].
        cbn [TriggerSync.tgstep].
        assert (H := tsync_preserves (fun st => ts_decrypted st = []) fl (node_of_view v)).
        specialize (H ltac:(intros o st s e h st'; unfold TriggerSync.commit_trange; destruct (insert_all _ _ _); [intros [= <-]; auto|discriminate])).
        specialize (H ltac:(intros o st to Hd; unfold trollback; cbn [ts_decrypted]; rewrite Hd; reflexivity)).
        specialize (H (tg_st g) orders rpc db Hg).
        destruct (tsync fl (node_of_view v) (tg_st g) orders rpc db) as [[st' r] w]. exact H. }
    apply Hgen. reflexivity.
  Qed.

  (* ------------------------------------------------------------------------------------- *)
  (* C16_oracle_independent: the iteration order of the processor map does not matter *)

  Lemma upsert_keeps_keys (rows : list (pev titem)) p k :
    In k (reg_keys rows) -> In k (reg_keys (Syncer.upsert (@t_key LogT) ukey_eqb (@t_merge LogT) rows p)).
  Proof.
    unfold reg_keys. induction rows as [|r rows IH]; simpl; [intros []|].
    destruct (ukey_eqb (t_key (pe_ev r)) (t_key (pe_ev p))) eqn:E; simpl.
    - apply ukey_eqb_spec in E. intros [<-|H]; [left; symmetry; exact E|right; exact H].
    - intros [H|H]; [left; exact H|right; apply IH; exact H].
  Qed.

  Lemma fold_upsert_keeps_keys evs : forall (rows : list (pev titem)) k,
    In k (reg_keys rows) -> In k (reg_keys (fold_left (Syncer.upsert (@t_key LogT) ukey_eqb (@t_merge LogT)) evs rows)).
  Proof. induction evs as [|p evs IH]; intros rows k H; simpl; [exact H|]. apply IH. apply upsert_keeps_keys. exact H. Qed.

  Lemma commit_trange_order nd (st : tstate) s e h : commit_trange true nd st s e h = commit_trange false nd st s e h.
  Proof.
    unfold TriggerSync.commit_trange.
    rewrite (insert_all_regs_indep LogT (st_rows (core_commit nd (ts_core st) s e h)) (st_rows (ts_core st))); [reflexivity| |].
    all: intros f Hf; unfold TriggerSync.fetch_fires in Hf; apply in_flat_map in Hf; destruct Hf as (p & Hp & Hf);
      unfold active in Hp; apply filter_In in Hp; destruct Hp as [Hp Hact];
      unfold TriggerSync.fires_of_trigger in Hf; destruct (pe_ev p) as [u|] eqn:Hev; [|destruct Hf];
      apply in_map_iff in Hf; destruct Hf as (l & <- & _); apply has_key_In.
    - unfold Syncer.commit_range. cbn [st_rows]. apply fold_upsert_keeps_keys.
      unfold reg_keys. apply in_map_iff. exists p. rewrite Hev. auto.
    - unfold reg_keys. apply in_map_iff. exists p. rewrite Hev. auto.
  Qed.

  Lemma commit_trange_any_order o nd (st : tstate) s e h : commit_trange o nd st s e h = commit_trange false nd st s e h.
  Proof. destruct o; [apply commit_trange_order|reflexivity]. Qed.

  Lemma trollback_any_order o (st : tstate) to : trollback o st to = trollback false st to.
  Proof. destruct o; [apply trollback_order|reflexivity]. Qed.

  Lemma trange_loop_order nd : forall rs (st : tstate) o1 o2 rpc db,
    trange_loop nd st rs o1 rpc db = trange_loop nd st rs o2 rpc db.
  Proof.
    induction rs as [|[s e] rest IH]; intros st o1 o2 rpc db; simpl; [reflexivity|].
    destruct (pop rpc) as [fh rpc1]. destruct (is_fail fh); [reflexivity|].
    destruct (n_hash nd e) as [h|]; [|reflexivity].
    destruct (pop rpc1) as [fr rpc2]. destruct (pop db) as [fa db1].
    destruct (pop_n (length (active st s)) rpc2) as [ft rpc3].
    destruct (is_fail fr || is_fail fa || ft); [reflexivity|].
    destruct (popb o1) as [a o1']. destruct (popb o2) as [b o2'].
    rewrite (commit_trange_any_order a), (commit_trange_any_order b).
    destruct (commit_trange false nd st s e h) as [st'|]; [|reflexivity].
    destruct (pop db1) as [fc db2]. destruct fc; try reflexivity.
    rewrite (IH st' o1' o2'). reflexivity.
  Qed.

  Theorem oracle_independent fl nd (st : tstate) o1 o2 rpc db :
    tsync fl nd st o1 rpc db = tsync fl nd st o2 rpc db.
  Proof.
    unfold TriggerSync.tsync.
    destruct (pop db) as [f1 db1]. destruct (is_fail f1); [reflexivity|].
    assert (Hgen : forall st1 oa ob dbx w1,
      (let '(f4, dbx) := pop dbx in
        if is_fail f4 then (st1, Err, w1) else
        let start := next_start fl (ts_core st1) in
        if start >? n_number nd then (st1, Ok, w1) else
        match get_sync_ranges start (n_number nd) (fl_range fl) with
        | RangesOutOfFuel => (st1, OutOfFuel, w1)
        | RangesDone rs => let '(st2, r, w2) := trange_loop nd st1 rs oa rpc dbx in (st2, r, w1 || w2)
        end) =
      (let '(f4, dbx) := pop dbx in
        if is_fail f4 then (st1, Err, w1) else
        let start := next_start fl (ts_core st1) in
        if start >? n_number nd then (st1, Ok, w1) else
        match get_sync_ranges start (n_number nd) (fl_range fl) with
        | RangesOutOfFuel => (st1, OutOfFuel, w1)
        | RangesDone rs => let '(st2, r, w2) := trange_loop nd st1 rs ob rpc dbx in (st2, r, w1 || w2)
        end)).
    { intros st1 oa ob dbx w1. destruct (pop dbx) as [f4 dbx1]. destruct (is_fail f4); [reflexivity|].
      cbv zeta. destruct (_ >? _); [reflexivity|]. destruct (get_sync_ranges _ _ _) as [rs|]; [|reflexivity].
      rewrite (trange_loop_order nd rs st1 oa ob). reflexivity. }
    destruct (reorg_target fl nd st) as [to|]; [|apply Hgen].
    destruct (pop db1) as [f2 db2]. destruct (is_fail f2); [reflexivity|].
    destruct (popb o1) as [a o1']. destruct (popb o2) as [b o2']. destruct (pop db2) as [f3 db3].
    rewrite (trollback_any_order a), (trollback_any_order b).
    destruct f3; [apply Hgen|reflexivity|reflexivity].
  Qed.

  (* ------------------------------------------------------------------------------------- *)
  (* C16_rollback_unfires *)

  Theorem rollback_unfires o (st : tstate) to :
    let st' := trollback o st to in
    (forall p, In p (st_rows (ts_core st')) <-> In p (st_rows (ts_core st)) /\ pe_block p <= to) /\
    (forall f, In f (ts_fired st') <->
               In f (ts_fired st) /\ f_block f <= to /\ In (f_key f) (reg_keys (st_rows (ts_core st')))).
  Proof.
    intros st'. unfold st'. rewrite trollback_any_order. unfold trollback. cbn [ts_core ts_fired].
    split.
    - intros p. unfold rollback_to. cbn [st_rows]. rewrite filter_In, Z.ltb_lt. split; intros [H1 H2]; split; auto; lia.
    - intros f. rewrite !filter_In, Z.ltb_lt, has_key_In. split.
      + intros [[H1 H2] H3]. repeat split; auto; lia.
      + intros (H1 & H2 & H3). repeat split; auto; lia.
  Qed.

  (* ------------------------------------------------------------------------------------- *)
  (* C16_batching_independent (partial: both runs satisfy the D10 exclusion for their range limit) *)

  Theorem batching_independent_partial (fl1 fl2 : flavour)
          (ops1 ops2 : list (top LogT)) (v : view) (o1 o2 : list bool) (rpc1 db1 rpc2 db2 : list fault) :
    0 < fl_range fl1 -> 0 <= fl_depth fl1 -> 0 <= fl_first_start fl1 -> fl_unclamped fl1 = false ->
    0 < fl_range fl2 -> 0 <= fl_depth fl2 -> fl_first_start fl2 = fl_first_start fl1 -> fl_unclamped fl2 = false ->
    let h1 := ops1 ++ [TSync v o1 rpc1 db1] in
    let h2 := ops2 ++ [TSync v o2 rpc2 db2] in
    tuniverse_ok fl1 (top_views h1) -> theads_ok fl1 tginit h1 -> td10_free fl1 tginit h1 -> no_decrypt h1 ->
    tuniverse_ok fl2 (top_views h2) -> theads_ok fl2 tginit h2 -> td10_free fl2 tginit h2 -> no_decrypt h2 ->
    forall k h b,
      st_status (ts_core (tg_st (tgrun fl1 h1))) = Some (k, h) ->
      st_status (ts_core (tg_st (tgrun fl2 h2))) = Some (k, h) ->
      block_at v k = Some b -> bk_hash b = h ->
      forall f, In f (ts_fired (tg_st (tgrun fl1 h1))) <-> In f (ts_fired (tg_st (tgrun fl2 h2))).
  Proof.
    intros HR1 HD1 Hfs1 Hcl1 HR2 HD2 Hfs2 Hcl2 h1 h2 HU1 Hok1 Hd1 Hnd1 HU2 Hok2 Hd2 Hnd2 k h b Hst1 Hst2 Hb Hh f.
    assert (Hfs2' : 0 <= fl_first_start fl2) by lia.
    destruct (trigger_exact fl1 HR1 HD1 Hfs1 Hcl1 ops1 v o1 rpc1 db1 HU1 Hok1 Hd1 k h b Hst1 Hb Hh) as (_ & _ & S1 & C1).
    destruct (trigger_exact fl2 HR2 HD2 Hfs2' Hcl2 ops2 v o2 rpc2 db2 HU2 Hok2 Hd2 k h b Hst2 Hb Hh) as (_ & _ & S2 & C2).
    fold h1 in S1, C1. fold h2 in S2, C2.
    rewrite (decrypted_nil fl1 h1 Hnd1) in C1. rewrite (decrypted_nil fl2 h2 Hnd2) in C2.
    rewrite Hfs2 in S2, C2.
    split; intros Hf.
    - destruct (S1 f Hf) as (r & l & Hr & Hl & ->). apply C2; auto.
    - destruct (S2 f Hf) as (r & l & Hr & Hl & ->). apply C1; auto.
  Qed.

End Proofs.
