(* No false conviction over block sequences (C07_no_false_conviction): a dealer whose commitment
   is included in the dealing phase, whose apologies on the chain all verify against it and who
   answers every accusation accepted in the accusing phase with an apology included in the
   apologising phase is not corrupt in the instance from which any keyper computes its result,
   whatever else the chain carries.

   Part 1: where accusations and apologies of an instance come from (accuse_all, apologise_all).
   Part 2: one event, one block ([held], [disp]).
   Part 3: the run. *)
From Coq Require Import List NArith ZArith Bool Lia.
From Verif Require Import Lib.Bytes Model.DKGPure Model.DKGDriver Proofs.DKGPure Proofs.DKGChain
  Proofs.DKGLive Proofs.OutboxEvolve Proofs.DKGLiveRun.
Import ListNotations.
Open Scope Z_scope.

Section ConvictPure.
Variables C E P : Type.
Variable valid_eval : E -> bool.
Notation pure := (@DKGPure.pure C E P).

Lemma pair_eqb_eq a b : pair_eqb a b = true <-> a = b.
Proof.
  unfold pair_eqb. destruct a as [a1 a2], b as [b1 b2]. simpl. rewrite andb_true_iff, !Nat.eqb_eq.
  split; [intros [-> ->]; reflexivity|intros [= -> ->]; split; reflexivity].
Qed.

Lemma mem_pair_in k l : mem_pair k l = true <-> In k l.
Proof.
  induction l as [|x r IH]; simpl; [split; [discriminate|intros []]|].
  rewrite orb_true_iff, pair_eqb_eq, IH. reflexivity.
Qed.

Lemma apo_mem_in k (l : list ((nat * nat) * E)) : apo_mem k l = true <-> exists v, In (k, v) l.
Proof.
  unfold apo_mem. rewrite mem_pair_in, in_map_iff. split.
  - intros [[k' v] [Hk Hin]]. simpl in Hk. subst k'. exists v. exact Hin.
  - intros [v Hin]. exists (k, v). split; [reflexivity|exact Hin].
Qed.

Lemma apo_mem_incl k (l l' : list ((nat * nat) * E)) : incl l l' -> apo_mem k l = true -> apo_mem k l' = true.
Proof. rewrite !apo_mem_in. intros Hi [v Hv]. exists v. apply Hi. exact Hv. Qed.

(* an accusation recorded by accuse_all was recorded before or is (accuser, one of the accused) *)
Lemma accuse_all_src accused : forall (p : pure) ks e si a b,
  In (a, b) (p_accs (accuse_all C E P p ks e si accused)) ->
  In (a, b) (p_accs p) \/ (a = si /\ exists ad, In ad accused /\ find_index ks ad 0 = Some b).
Proof.
  induction accused as [|ad0 r IH]; simpl; intros p ks e si a b H; [left; exact H|].
  assert (Hr : In (a, b) (p_accs p) \/ (a = si /\ exists ad, In ad r /\ find_index ks ad 0 = Some b) ->
               In (a, b) (p_accs p) \/ (a = si /\ exists ad, (ad0 = ad \/ In ad r) /\ find_index ks ad 0 = Some b)).
  { intros [Hl|[Ha [ad [Hin Hf]]]]; [left; exact Hl|right; split; [exact Ha|exists ad; split; [right; exact Hin|exact Hf]]]. }
  destruct (find_index ks ad0 0) as [ai|] eqn:Hai; [|apply Hr, (IH _ _ _ _ _ _ H)].
  unfold handle_accusation in H. destruct (negb _); [apply Hr, (IH _ _ _ _ _ _ H)|].
  destruct (mem_pair _ _); [apply Hr, (IH _ _ _ _ _ _ H)|].
  destruct (IH _ _ _ _ _ _ H) as [Hl|Hrr]; [|apply Hr; right; exact Hrr].
  simpl in Hl. apply in_app_or in Hl. destruct Hl as [Hl|[Heq|[]]]; [left; exact Hl|].
  injection Heq as <- <-. right. split; [reflexivity|]. exists ad0. split; [left; reflexivity|exact Hai].
Qed.

(* an apology recorded by apologise_all was recorded before or is (accuser k, sender) with value k *)
Lemma apologise_all_src accusers : forall (p : pure) vals ks e si p' a b v,
  apologise_all C E P valid_eval p ks e si accusers vals = Some p' ->
  In ((a, b), v) (p_apos p') ->
  In ((a, b), v) (p_apos p) \/
  (b = si /\ exists k ad, nth_error accusers k = Some ad /\ find_index ks ad 0 = Some a /\ nth_error vals k = Some v).
Proof.
  induction accusers as [|ad0 r IH]; simpl; intros p vals ks e si p' a b v H Hin.
  - injection H as <-. left. exact Hin.
  - assert (Hr : forall vr, In ((a, b), v) (p_apos p) \/
                   (b = si /\ exists k ad, nth_error r k = Some ad /\ find_index ks ad 0 = Some a /\ nth_error vr k = Some v) ->
                 forall v0, vals = v0 :: vr ->
                 In ((a, b), v) (p_apos p) \/
                   (b = si /\ exists k ad, nth_error (ad0 :: r) k = Some ad /\ find_index ks ad 0 = Some a /\ nth_error vals k = Some v)).
    { intros vr [Hl|[Hb [k [ad [H1 [H2 H3]]]]]] v0 ->; [left; exact Hl|].
      right. split; [exact Hb|]. exists (Datatypes.S k), ad. repeat split; assumption. }
    destruct vals as [|v0 vr].
    + destruct (find_index ks ad0 0); [discriminate|].
      destruct (IH _ _ _ _ _ _ _ _ _ H Hin) as [Hl|[Hb [k [ad [H1 [H2 H3]]]]]]; [left; exact Hl|].
      destruct k; discriminate.
    + destruct (find_index ks ad0 0) as [ai|] eqn:Hai; [|eapply Hr; [eapply IH; eassumption|reflexivity]].
      unfold handle_apology in H. destruct (negb _); [eapply Hr; [eapply IH; eassumption|reflexivity]|].
      destruct (apo_mem _ _); [eapply Hr; [eapply IH; eassumption|reflexivity]|].
      destruct (negb _); [eapply Hr; [eapply IH; eassumption|reflexivity]|].
      destruct (IH _ _ _ _ _ _ _ _ _ H Hin) as [Hl|Hrr]; [|eapply Hr; [right; exact Hrr|reflexivity]].
      simpl in Hl. apply in_app_or in Hl. destruct Hl as [Hl|[Heq|[]]]; [left; exact Hl|].
      injection Heq as <- <- <-. right. split; [reflexivity|]. exists 0%nat, ad0. repeat split. exact Hai.
Qed.

Lemma apologise_all_keep accusers : forall (p : pure) vals ks e si p',
  apologise_all C E P valid_eval p ks e si accusers vals = Some p' ->
  incl (p_apos p) (p_apos p') /\ p_eon p' = p_eon p /\ p_phase p' = p_phase p.
Proof.
  induction accusers as [|ad0 r IH]; simpl; intros p vals ks e si p' H.
  - injection H as <-. split; [apply incl_refl|split; reflexivity].
  - destruct vals as [|v0 vr].
    + destruct (find_index ks ad0 0); [discriminate|]. eapply IH. exact H.
    + destruct (find_index ks ad0 0) as [ai|]; [|eapply IH; exact H].
      unfold handle_apology in H. destruct (negb _); [eapply IH; exact H|].
      destruct (apo_mem _ _); [eapply IH; exact H|]. destruct (negb _); [eapply IH; exact H|].
      destruct (IH _ _ _ _ _ _ H) as [A [B D]]. simpl in *. split; [|split; assumption].
      intros y Hy. apply A. apply in_or_app. left. exact Hy.
Qed.

(* an apology with a valid value, handled in time, is on record afterwards *)
Lemma apologise_all_lands accusers : forall (p : pure) vals ks e si p',
  apologise_all C E P valid_eval p ks e si accusers vals = Some p' ->
  p_eon p = e -> phase_leb (p_phase p) Apologizing = true ->
  forall k ad a v, nth_error accusers k = Some ad -> find_index ks ad 0 = Some a -> nth_error vals k = Some v ->
    valid_eval v = true -> apo_mem (a, si) (p_apos p') = true.
Proof.
  induction accusers as [|ad0 r IH]; intros p vals ks e si p' H He Hph k ad a v Hk Hf Hv Hval.
  - destruct k; discriminate.
  - destruct k as [|k].
    + simpl in Hk. injection Hk as ->. destruct vals as [|v0 vr]; [discriminate|]. simpl in Hv. injection Hv as ->.
      simpl in H. rewrite Hf in H.
      destruct (handle_apology C E P valid_eval p e a si v) as [p1| |] eqn:Hh.
      * destruct (apologise_all_keep _ _ _ _ _ _ _ H) as [A _]. eapply apo_mem_incl; [exact A|].
        unfold handle_apology in Hh. destruct (negb _); [discriminate|]. destruct (apo_mem _ _); [discriminate|].
        destruct (negb _); [discriminate|]. injection Hh as <-. simpl. apply apo_mem_in. exists v. apply in_or_app. right. left. reflexivity.
      * destruct (apologise_all_keep _ _ _ _ _ _ _ H) as [A _]. eapply apo_mem_incl; [exact A|].
        unfold handle_apology, check_eon_phase in Hh. rewrite He, N.eqb_refl, Hph in Hh. simpl in Hh.
        destruct (apo_mem (a, si) (p_apos p)); [reflexivity|]. rewrite Hval in Hh. discriminate.
      * unfold handle_apology in Hh. destruct (negb _); [discriminate|]. destruct (apo_mem _ _); [discriminate|].
        destruct (negb _); discriminate.
    + simpl in Hk. destruct vals as [|v0 vr]; [destruct k; discriminate|]. simpl in Hv. simpl in H.
      destruct (find_index ks ad0 0) as [ai|]; [|eapply IH; eassumption].
      destruct (handle_apology C E P valid_eval p e ai si v0) as [p1| |] eqn:Hh; try (eapply IH; eassumption).
      unfold handle_apology in Hh. destruct (negb _); [discriminate|]. destruct (apo_mem _ _); [discriminate|].
      destruct (negb _); [discriminate|]. injection Hh as <-.
      eapply (IH _ _ _ _ _ _ H); try eassumption.
Qed.
End ConvictPure.

Section ConvictDrv.
Variables C E P : Type.
Variable commit_of : P -> C.
Variable eval_of : P -> nat -> E.
Variable verify : nat -> E -> C -> bool.
Variable deg_ok : N -> C -> bool.
Variable valid_eval : E -> bool.
Variable me : addr.
Variable L : Z.
Hypothesis Lpos : 0 < L.
Variable enum : list (N * @active C E P) -> list (N * @active C E P).
Hypothesis Henum : enum_keys_ok C E P enum.
Variable poly_for : N -> P.

Notation pure := (@DKGPure.pure C E P).
Notation active := (@active C E P).
Notation sm := (@sm C E P).
Notation db := (db C E P).
Notation st := (st C E P).
Notation dev := (dev C E).
Notation ent := (ent C E P).
Notation res := (res C E P).
Notation eon_row := (eon_row C E P).
Notation keepsA := (keepsA C E P).
Notation keepsP := (keepsP C E P).
Notation handle_event := (handle_event C E P commit_of eval_of verify deg_ok valid_eval me L poly_for).
Notation handle_events := (handle_events C E P commit_of eval_of verify deg_ok valid_eval me L poly_for).
Notation handle_block := (handle_block C E P commit_of eval_of verify deg_ok valid_eval me L enum poly_for).
Notation shift_phases := (shift_phases C E P commit_of eval_of verify valid_eval L enum poly_for).
Notation run_blocks := (run_blocks C E P commit_of eval_of verify deg_ok valid_eval me L enum poly_for).

Variable e : N.

Lemma phase_eqb_eq a b : phase_eqb a b = true -> a = b.
Proof. unfold phase_eqb. intros H. apply Nat.eqb_eq in H. apply phase_num_inj. exact H. Qed.

(* ---- one event: where new accusations / apologies come from, and that apologies land ---- *)
Lemma event_disputes x h ev x' a a' :
  handle_event x h ev = TOk x' -> ent x e = Some a -> ent x' e = Some a' -> eon_row x e ->
  (forall p q, In (p, q) (p_accs (a_pure a')) -> In (p, q) (p_accs (a_pure a)) \/
     exists s accused ad, ev = DAccusation s e accused /\ p_phase (a_pure a) = Accusing /\
       find_index (a_keypers a) s 0 = Some p /\ In ad accused /\ find_index (a_keypers a) ad 0 = Some q) /\
  (forall p q v, In ((p, q), v) (p_apos (a_pure a')) -> In ((p, q), v) (p_apos (a_pure a)) \/
     exists s accusers vals k ad, ev = DApology s e accusers vals /\
       find_index (a_keypers a) s 0 = Some q /\ nth_error accusers k = Some ad /\
       find_index (a_keypers a) ad 0 = Some p /\ nth_error vals k = Some v) /\
  incl (p_apos (a_pure a)) (p_apos (a_pure a')) /\
  (forall s accusers vals q, ev = DApology s e accusers vals -> find_index (a_keypers a) s 0 = Some q ->
     p_eon (a_pure a) = e -> p_phase (a_pure a) = Apologizing ->
     forall k ad p v, nth_error accusers k = Some ad -> find_index (a_keypers a) ad 0 = Some p ->
       nth_error vals k = Some v -> valid_eval v = true -> apo_mem (p, q) (p_apos (a_pure a')) = true).
Proof.
  intros Hrun He He' Hrow.
  destruct (event_keeps C E P commit_of eval_of verify deg_ok valid_eval me L poly_for _ _ _ _ _ _ Hrun He Hrow)
    as [a1 [H1 [_ [_ [_ [_ [Hacc Hapo]]]]]]].
  rewrite He' in H1. injection H1 as <-.
  assert (SameAcc : (forall s acc, ev <> DAccusation s e acc) ->
    forall p q, In (p, q) (p_accs (a_pure a')) -> In (p, q) (p_accs (a_pure a)) \/
     exists s accused ad, ev = DAccusation s e accused /\ p_phase (a_pure a) = Accusing /\
       find_index (a_keypers a) s 0 = Some p /\ In ad accused /\ find_index (a_keypers a) ad 0 = Some q).
  { intros NA p q Hin. left. rewrite (Hacc NA) in Hin. exact Hin. }
  assert (SameApo : (forall s acc vs, ev <> DApology s e acc vs) ->
    (forall p q v, In ((p, q), v) (p_apos (a_pure a')) -> In ((p, q), v) (p_apos (a_pure a)) \/
     exists s accusers vals k ad, ev = DApology s e accusers vals /\
       find_index (a_keypers a) s 0 = Some q /\ nth_error accusers k = Some ad /\
       find_index (a_keypers a) ad 0 = Some p /\ nth_error vals k = Some v) /\
    incl (p_apos (a_pure a)) (p_apos (a_pure a')) /\
    (forall s accusers vals q, ev = DApology s e accusers vals -> find_index (a_keypers a) s 0 = Some q ->
     p_eon (a_pure a) = e -> p_phase (a_pure a) = Apologizing ->
     forall k ad p v, nth_error accusers k = Some ad -> find_index (a_keypers a) ad 0 = Some p ->
       nth_error vals k = Some v -> valid_eval v = true -> apo_mem (p, q) (p_apos (a_pure a')) = true)).
  { intros NB. rewrite (Hapo NB). split; [intros p q v Hin; left; exact Hin|]. split; [apply incl_refl|].
    intros s accusers vals q Hev. exfalso. eapply NB. exact Hev. }
  destruct x as [d s]. unfold DKGLive.ent in He, He'. simpl in He.
  destruct ev as [sd|idx act thr kk st0|idx|eon act idx|sd eon c|sd eon rs vs|sd eon accused|sd eon accusers vals];
    try (split; [apply SameAcc; intros; discriminate|apply SameApo; intros; discriminate]).
  - (* accusation *)
    split; [|apply SameApo; intros; discriminate].
    destruct (N.eq_dec eon e) as [->|Hne]; [|apply SameAcc; intros s0 acc Heq; injection Heq as _ Hq _; contradiction].
    simpl in Hrun. rewrite He in Hrun.
    destruct (negb (phase_eqb (p_phase (a_pure a)) Accusing)) eqn:Hph.
    { injection Hrun as <-. simpl in He'. rewrite He in He'. injection He' as <-. intros p q Hin. left. exact Hin. }
    destruct (find_index (a_keypers a) sd 0) as [si|] eqn:Hsi.
    2:{ injection Hrun as <-. simpl in He'. rewrite He in He'. injection He' as <-. intros p q Hin. left. exact Hin. }
    injection Hrun as <-. simpl in He'. rewrite nget_nins_same in He'. injection He' as <-. simpl.
    intros p q Hin. destruct (accuse_all_src C E P _ _ _ _ _ _ _ Hin) as [Hl|[-> [ad [Had Hf]]]]; [left; exact Hl|].
    right. exists sd, accused, ad. split; [reflexivity|]. split; [|repeat split; assumption].
    apply negb_false_iff in Hph. apply phase_eqb_eq. exact Hph.
  - (* apology *)
    split; [apply SameAcc; intros; discriminate|].
    destruct (N.eq_dec eon e) as [->|Hne]; [|apply SameApo; intros s0 acc vs0 Heq; injection Heq as _ Hq _ _; contradiction].
    simpl in Hrun. rewrite He in Hrun.
    destruct (negb (phase_eqb (p_phase (a_pure a)) Apologizing)) eqn:Hph.
    { injection Hrun as <-. simpl in He'. rewrite He in He'. injection He' as <-.
      split; [intros p q v Hin; left; exact Hin|]. split; [apply incl_refl|].
      intros s0 accs0 vals0 q _ _ _ Hp. rewrite Hp in Hph. discriminate. }
    destruct (find_index (a_keypers a) sd 0) as [si|] eqn:Hsi.
    2:{ injection Hrun as <-. simpl in He'. rewrite He in He'. injection He' as <-.
        split; [intros p q v Hin; left; exact Hin|]. split; [apply incl_refl|].
        intros s0 accs0 vals0 q Hev Hf. injection Hev as <- <- <-. congruence. }
    destruct (apologise_all C E P valid_eval (a_pure a) (a_keypers a) e si accusers vals) as [p'|] eqn:Hap; [|discriminate].
    injection Hrun as <-. simpl in He'. rewrite nget_nins_same in He'. injection He' as <-. simpl.
    split; [|split].
    + intros p q v Hin. destruct (apologise_all_src C E P valid_eval _ _ _ _ _ _ _ _ _ _ Hap Hin) as [Hl|[-> [k [ad [A [B D]]]]]]; [left; exact Hl|].
      right. exists sd, accusers, vals, k, ad. repeat split; assumption.
    + exact (proj1 (apologise_all_keep C E P valid_eval _ _ _ _ _ _ _ Hap)).
    + intros s0 accs0 vals0 q Hev Hf Heon Hp k ad p v Hk Hfa Hv Hval. injection Hev as <- <- <-.
      rewrite Hsi in Hf. injection Hf as <-.
      eapply (apologise_all_lands C E P valid_eval _ _ _ _ _ _ _ Hap Heon); try eassumption. rewrite Hp. reflexivity.
Qed.

(* ---- the instance through events and blocks, nothing assumed about the chain ---- *)
Record held (a0 : active) (ph : phase) (x : st) (a : active) : Prop := {
  hd_ent : ent x e = Some a; hd_row : eon_row x e; hd_res : res x e = None;
  hd_sync : sm_sync (snd x) = true; hd_keeps : keepsA a0 a; hd_phase : p_phase (a_pure a) = ph
}.

Lemma live_held a0 ph x a : live C E P e a0 ph x a -> held a0 ph x a.
Proof. intros [H1 H2 H3 H4 H5 H6 _ _]. constructor; assumption. Qed.

Lemma event_held a0 ph x a h ev x' :
  handle_event x h ev = TOk x' -> held a0 ph x a -> exists a', held a0 ph x' a' /\ keepsA a a'.
Proof.
  intros Hrun [He Hrow Hres Hsync Hk Hph].
  destruct (event_keeps C E P commit_of eval_of verify deg_ok valid_eval me L poly_for _ _ _ _ _ _ Hrun He Hrow)
    as [a' [He' [Hk' [Hph' [Hrow' [Hres' _]]]]]].
  exists a'. split; [|exact Hk'].
  constructor; try assumption.
  - congruence.
  - destruct (evolves_keep C E P commit_of eval_of e _ _ (handle_event_evolves C E P commit_of eval_of verify deg_ok valid_eval me L poly_for _ _ _ _ Hrun)) as [A _]. congruence.
  - eapply keepsA_trans; eassumption.
  - congruence.
Qed.

Lemma held_cleaned a0 ph x3 a :
  held a0 ph x3 a -> held a0 ph (save C E P enum (send_poly_evals C E P (fst x3), snd x3)) (cleaned C E P a).
Proof.
  intros [He Hrow Hres Hsync Hk Hph].
  pose proof (finish_frame C E P enum e x3) as F. cbv zeta in F. destruct F as [F1 [F2 [F3 F4]]].
  constructor.
  - rewrite F1, He. reflexivity.
  - apply F3. exact Hrow.
  - rewrite F2. exact Hres.
  - rewrite F4. exact Hsync.
  - eapply keepsA_trans; [exact Hk|apply keepsA_cleaned].
  - exact Hph.
Qed.

(* ---- what is tracked about dealer j ---- *)
Variable ks : list addr.   (* the keypers of the eon *)
Variable S : Z.            (* the height at which the eon started *)
Variable t : N.            (* the threshold *)
Variable j : nat.          (* the dealer *)
Variable c : C.            (* its commitment *)
Variable allh : list (Z * dev).  (* the events of the chain with the heights of their blocks *)

(* every commitment of dealer j on the chain is c *)
Hypothesis Ucj : forall h s c', In (h, DCommit s e c') allh -> find_index ks s 0 = Some j -> c' = c.

Record trk (seen : list (Z * dev)) (a : active) : Prop := {
  tk_ks : a_keypers a = ks; tk_eon : p_eon (a_pure a) = e; tk_t : p_t (a_pure a) = t;
  tk_val : phase_leb (p_phase (a_pure a)) Dealing = true ->
           forall c', nth_opt (p_commits (a_pure a)) j = Some c' -> c' = c;
  tk_clnd : forall h s c', In (h, DCommit s e c') seen -> phase_at L h S = Dealing -> find_index ks s 0 = Some j ->
              deg_ok t c' = true -> nth_opt (p_commits (a_pure a)) j <> None;
  tk_acc : forall p q, In (p, q) (p_accs (a_pure a)) ->
             exists h s accused ad, In (h, DAccusation s e accused) seen /\ phase_at L h S = Accusing /\
               find_index ks s 0 = Some p /\ In ad accused /\ find_index ks ad 0 = Some q;
  tk_apo : forall p q v, In ((p, q), v) (p_apos (a_pure a)) ->
             exists h s accusers vals k ad, In (h, DApology s e accusers vals) seen /\ find_index ks s 0 = Some q /\
               nth_error accusers k = Some ad /\ find_index ks ad 0 = Some p /\ nth_error vals k = Some v;
  tk_alnd : forall h s accusers vals q k ad p v, In (h, DApology s e accusers vals) seen -> phase_at L h S = Apologizing ->
              find_index ks s 0 = Some q -> nth_error accusers k = Some ad -> find_index ks ad 0 = Some p ->
              nth_error vals k = Some v -> valid_eval v = true -> apo_mem (p, q) (p_apos (a_pure a)) = true
}.

Lemma event_trk a0 x a h ev x' seen :
  handle_event x h ev = TOk x' -> held a0 (phase_at L h S) x a -> trk seen a -> In (h, ev) allh ->
  exists a', held a0 (phase_at L h S) x' a' /\ keepsA a a' /\ trk (seen ++ [(h, ev)]) a'.
Proof.
  intros Hrun Hh Ht Hin.
  destruct (event_held _ _ _ _ _ _ _ Hrun Hh) as [a' [Hh' Hk]].
  destruct (event_slots C E P commit_of eval_of verify deg_ok valid_eval me L poly_for _ _ _ _ _ _ _ Hrun
              (hd_ent _ _ _ _ Hh) (hd_ent _ _ _ _ Hh') (hd_row _ _ _ _ Hh)) as [S1 [_ [S3 _]]].
  destruct (event_disputes _ _ _ _ _ _ Hrun (hd_ent _ _ _ _ Hh) (hd_ent _ _ _ _ Hh') (hd_row _ _ _ _ Hh)) as [D1 [D2 [D3 D4]]].
  pose proof (hd_phase _ _ _ _ Hh) as Hph. pose proof (hd_phase _ _ _ _ Hh') as Hph'.
  destruct Ht as [T1 T2 T3 T4 T5 T6 T7 T8]. destruct Hk as [[K1 K2 K3 K4 K5 K6 K7] K8 K9].
  exists a'. split; [exact Hh'|]. split; [constructor; [constructor|..]; assumption|].
  constructor; try congruence.
  - intros Hd c' Hc'. destruct (S1 j c' Hc') as [Ho|[s [-> Hidx]]].
    + apply T4; [rewrite Hph; rewrite Hph' in Hd; exact Hd|exact Ho].
    + eapply Ucj; [exact Hin|]. rewrite <- T1. exact Hidx.
  - intros h1 s c' Hs Hp1 Hidx Hdeg. apply in_app_or in Hs. destruct Hs as [Hs|[Heq|[]]].
    + eapply mono_ne; [exact K5|]. eapply T5; eassumption.
    + injection Heq as <- Hev. eapply S3; [exact Hev|rewrite T1; exact Hidx|exact T2| |rewrite T3; exact Hdeg].
      rewrite Hph, Hp1. reflexivity.
  - intros p q Hpq. destruct (D1 p q Hpq) as [Ho|[s [accused [ad [-> [Hp1 [Hf1 [Had Hf2]]]]]]]].
    + destruct (T6 p q Ho) as [h1 [s [accused [ad [A1 A2]]]]]. exists h1, s, accused, ad. split; [apply in_or_app; left; exact A1|exact A2].
    + exists h, s, accused, ad. split; [apply in_or_app; right; left; reflexivity|]. split; [rewrite <- Hph; exact Hp1|].
      rewrite <- T1. repeat split; assumption.
  - intros p q v Hpq. destruct (D2 p q v Hpq) as [Ho|[s [accusers [vals [k [ad [-> [Hf1 [Hk1 [Hf2 Hv]]]]]]]]]].
    + destruct (T7 p q v Ho) as [h1 [s [accusers [vals [k [ad [A1 A2]]]]]]]. exists h1, s, accusers, vals, k, ad. split; [apply in_or_app; left; exact A1|exact A2].
    + exists h, s, accusers, vals, k, ad. split; [apply in_or_app; right; left; reflexivity|]. rewrite <- T1. repeat split; assumption.
  - intros h1 s accusers vals q k ad p v Hs Hp1 Hf1 Hk1 Hf2 Hv Hval. apply in_app_or in Hs. destruct Hs as [Hs|[Heq|[]]].
    + eapply apo_mem_incl; [exact D3|]. eapply T8; eassumption.
    + injection Heq as <- Hev. eapply (D4 _ _ _ _ Hev); try eassumption; try (rewrite T1; assumption).
      rewrite Hph. exact Hp1.
Qed.

Lemma events_trk a0 h evs : forall x a x' seen,
  handle_events x h evs = TOk x' -> held a0 (phase_at L h S) x a -> trk seen a ->
  (forall ev, In ev evs -> In (h, ev) allh) ->
  exists a', held a0 (phase_at L h S) x' a' /\ keepsA a a' /\ trk (seen ++ map (pair h) evs) a'.
Proof.
  induction evs as [|ev r IH]; intros x a x' seen Hrun Hh Ht Hin.
  - simpl in Hrun. injection Hrun as <-. exists a. simpl. rewrite app_nil_r. split; [exact Hh|]. split; [apply keepsA_refl|exact Ht].
  - simpl in Hrun. destruct (handle_event x h ev) as [x1| |] eqn:H1; simpl in Hrun; try discriminate.
    destruct (event_trk _ _ _ _ _ _ _ H1 Hh Ht (Hin ev (or_introl eq_refl))) as [a1 [Hh1 [K1 Ht1]]].
    destruct (IH _ _ _ _ Hrun Hh1 Ht1) as [a2 [Hh2 [K2 Ht2]]]; [intros y Hy; apply Hin; right; exact Hy|].
    exists a2. split; [exact Hh2|]. split; [eapply keepsA_trans; eassumption|].
    simpl. replace (seen ++ (h, ev) :: map (pair h) r) with ((seen ++ [(h, ev)]) ++ map (pair h) r) by (rewrite <- app_assoc; reflexivity).
    exact Ht2.
Qed.

(* a transition that keeps the slots and leaves accusations / apologies alone *)
Lemma trk_moved seen a a' :
  trk seen a -> keepsA a a' -> p_accs (a_pure a') = p_accs (a_pure a) -> p_apos (a_pure a') = p_apos (a_pure a) ->
  (phase_leb (p_phase (a_pure a')) Dealing = true -> p_commits (a_pure a') = p_commits (a_pure a)) ->
  trk seen a'.
Proof.
  intros [T1 T2 T3 T4 T5 T6 T7 T8] [[K1 K2 K3 K4 K5 K6 K7] K8 K9] Hacc Hapo Hcm.
  constructor; try congruence.
  - intros Hd c' Hc'. rewrite (Hcm Hd) in Hc'. apply T4; [|exact Hc'].
    eapply phase_leb_trans; [exact K7|exact Hd].
  - intros h s c' Hs Hp Hidx Hdeg. eapply mono_ne; [exact K5|]. eapply T5; eassumption.
  - rewrite Hacc. exact T6.
  - rewrite Hapo. exact T7.
  - rewrite Hapo. exact T8.
Qed.

Lemma trk_cleaned seen a : trk seen a -> trk seen (cleaned C E P a).
Proof. intros [T1 T2 T3 T4 T5 T6 T7 T8]. constructor; assumption. Qed.

Definition final_row' (a : active) (x : st) : Prop :=
  exists pf, res x e = Some (mkRes C E (is_result C E (compute_result C E P verify pf)) (compute_result C E P verify pf)) /\
             keepsP (a_pure a) pf /\ p_phase pf = Finalized /\ p_accs pf = p_accs (a_pure a) /\ p_apos pf = p_apos (a_pure a).

Lemma pa_ge_dealing h : S <= h -> phase_leb Dealing (phase_at L h S) = true.
Proof.
  intros Hh. unfold phase_at. destruct (Z.ltb_spec h (S + 0 * L)); [lia|].
  destruct (h <? S + 1 * L); [reflexivity|]. destruct (h <? S + 2 * L); [reflexivity|]. destruct (h <? S + 3 * L); reflexivity.
Qed.

Lemma block_trk a0 x a h blk lch x' seen :
  handle_block x blk lch = TOk x' -> held a0 (phase_at L h S) x a -> a_start a = S -> S <= h -> fst blk = h + 1 ->
  trk seen a -> (forall ev, In ev (snd blk) -> In (h + 1, ev) allh) ->
  (h + 1 < S + 3 * L -> exists a', held a0 (phase_at L (h + 1) S) x' a' /\ keepsA a a' /\
                                   trk (seen ++ map (pair (h + 1)) (snd blk)) a') /\
  (S + 3 * L <= h + 1 -> h < S + 3 * L -> final_row' a x').
Proof.
  intros Hrun Hh Hst HhS Hfb Ht Hin.
  destruct (block_split C E P commit_of eval_of verify deg_ok valid_eval me L enum poly_for _ _ _ _ Hrun (hd_sync _ _ _ _ Hh))
    as [x2 [x3 [Hsh [Hev ->]]]].
  destruct Hh as [He Hrow Hres Hsync Hk Hph].
  set (x1 := (upd_db_sync C E P (fst x) (fst blk) lch blk, snd x)) in *.
  assert (He1 : ent x1 e = Some a) by exact He.
  pose proof (shift_phases_post C E P commit_of eval_of verify valid_eval L enum Henum poly_for _ _ _ _ _ Hsh He1) as [Heons Hcases].
  assert (Hsync2 : sm_sync (snd x2) = true).
  { unfold DKGDriver.shift_phases in Hsh.
    destruct (evolves_keep C E P commit_of eval_of e _ _ (shift_all_evolves C E P commit_of eval_of verify valid_eval L poly_for _ _ _ _ Hsh)) as [A _].
    rewrite A. exact Hsync. }
  assert (Hrow2 : eon_row x2 e) by (unfold DKGLive.eon_row; rewrite Heons; exact Hrow).
  assert (Hres1 : res x1 e = None) by exact Hres.
  assert (Htg : DKGChain.tgt C E P L (fst blk) a = phase_at L (h + 1) S) by (unfold DKGChain.tgt; rewrite Hst, Hfb; reflexivity).
  rewrite Hph, Htg in Hcases. rewrite Hfb in Hev.
  pose proof (pa_mono L S h) as Hm. pose proof (pa_ge_dealing h HhS) as Hge.
  destruct Hcases as [[Hnl [He2 Hres2]]|[[Hlt [Hnf [a2 [He2 [Hres2 [Hk2 [Hph2 [Hacc2 Hapo2]]]]]]]]|[Hlt [Hfin [He2 [pf [ok [Hres2 [Hok [Hkp [Hpf [Hacc2 Hapo2]]]]]]]]]]]].
  - (* no transition *)
    assert (Heq : phase_at L h S = phase_at L (h + 1) S).
    { apply phase_num_inj. apply phase_ltb_false in Hnl. lia. }
    assert (Hh2 : held a0 (phase_at L (h + 1) S) x2 a) by (constructor; try assumption; congruence).
    split.
    + intros _. destruct (events_trk _ _ _ _ _ _ _ Hev Hh2 Ht Hin) as [a3 [Hh3 [K3 Ht3]]].
      exists (cleaned C E P a3). split; [apply held_cleaned; exact Hh3|]. split; [eapply keepsA_trans; [exact K3|apply keepsA_cleaned]|].
      apply trk_cleaned. exact Ht3.
    + intros H1 H2. exfalso. assert (Hc : phase_at L h S = Finalized) by (rewrite Heq; apply (pa_final L Lpos); exact H1).
      apply (pa_final L Lpos) in Hc. lia.
  - assert (Hh2 : held a0 (phase_at L (h + 1) S) x2 a2).
    { constructor; try assumption; try congruence. eapply keepsA_trans; eassumption. }
    assert (Ht2 : trk seen a2).
    { eapply trk_moved; try eassumption. intros Hd. exfalso. rewrite Hph2 in Hd.
      apply phase_ltb_spec in Hlt. unfold phase_leb in Hd, Hge. apply Nat.leb_le in Hd. apply Nat.leb_le in Hge. simpl in *. lia. }
    split.
    + intros _. destruct (events_trk _ _ _ _ _ _ _ Hev Hh2 Ht2 Hin) as [a3 [Hh3 [K3 Ht3]]].
      exists (cleaned C E P a3). split; [apply held_cleaned; exact Hh3|].
      split; [eapply keepsA_trans; [exact Hk2|]; eapply keepsA_trans; [exact K3|apply keepsA_cleaned]|].
      apply trk_cleaned. exact Ht3.
    + intros H1 _. exfalso. apply Hnf. apply (pa_final L Lpos). exact H1.
  - split.
    + intros H1. exfalso. apply (pa_final L Lpos) in Hfin. lia.
    + intros _ _. exists pf. subst ok.
      pose proof (finish_frame C E P enum e x3) as F. cbv zeta in F. destruct F as [_ [F2 _]]. rewrite F2.
      destruct (evolves_keep C E P commit_of eval_of e _ _ (handle_events_evolves C E P commit_of eval_of verify deg_ok valid_eval me L poly_for _ _ _ _ Hev)) as [_ [B _]].
      split; [apply B; exact Hres2|]. split; [exact Hkp|]. split; [exact Hpf|]. split; [exact Hacc2|exact Hapo2].
Qed.

(* ---- Part 3: the run ---- *)
Definition evs_of (bs : list (Z * list dev)) : list (Z * dev) :=
  flat_map (fun b => map (pair (fst b)) (snd b)) bs.

Lemma in_evs_of bs h ev : In (h, ev) (evs_of bs) <-> exists b, In b bs /\ fst b = h /\ In ev (snd b).
Proof.
  unfold evs_of. rewrite in_flat_map. split.
  - intros [b [Hb Hin]]. apply in_map_iff in Hin. destruct Hin as [ev' [Heq Hev]]. injection Heq as <- <-.
    exists b. repeat split; assumption.
  - intros [b [Hb [<- Hev]]]. exists b. split; [exact Hb|]. apply in_map. exact Hev.
Qed.

Lemma evs_of_app a b : evs_of (a ++ b) = evs_of a ++ evs_of b.
Proof. unfold evs_of. apply flat_map_app. Qed.

Variable a0 : active.
Variable x0 : st.
Variable h0 : Z.
Variable lch : Z -> Z.
Variable blocks : list (Z * list dev).
Variable xf : st.

Hypothesis Hallh : allh = evs_of blocks.
Hypothesis Hheld0 : held a0 Dealing x0 a0.
Hypothesis Hst0 : a_start a0 = S.
Hypothesis Hks0 : a_keypers a0 = ks.
Hypothesis Heon0 : p_eon (a_pure a0) = e.
Hypothesis Ht0 : p_t (a_pure a0) = t.
Hypothesis Hacc0 : p_accs (a_pure a0) = [].
Hypothesis Hapo0 : p_apos (a_pure a0) = [].
Hypothesis Hslot0 : forall c', nth_opt (p_commits (a_pure a0)) j = Some c' -> c' = c.
Hypothesis Hh0 : S <= h0 < S + L.
Hypothesis Hheights : forall k b, nth_error blocks k = Some b -> fst b = h0 + 1 + Z.of_nat k.
Hypothesis Hlong : S + 3 * L <= h0 + Z.of_nat (length blocks).
Hypothesis Hrun : run_blocks lch x0 blocks = Some xf.
(* the dealer's commitment is in a block of the dealing phase *)
Hypothesis Lcj : exists k b s, nth_error blocks k = Some b /\ h0 + 1 + Z.of_nat k < S + L /\
  In (DCommit s e c) (snd b) /\ find_index ks s 0 = Some j /\ deg_ok t c = true.
(* every value the dealer publishes in an apology verifies against its commitment *)
Hypothesis HV : forall h s accusers vals k ad a v,
  In (h, DApology s e accusers vals) allh -> find_index ks s 0 = Some j ->
  nth_error accusers k = Some ad -> find_index ks ad 0 = Some a -> nth_error vals k = Some v -> verify a v c = true.
(* every accusation against the dealer in a block of the accusing phase is answered by an apology
   of the dealer, with a well-formed value, in a block of the apologising phase *)
Hypothesis HA : forall h s accused ad a,
  In (h, DAccusation s e accused) allh -> phase_at L h S = Accusing ->
  find_index ks s 0 = Some a -> In ad accused -> find_index ks ad 0 = Some j ->
  exists h' s' accusers vals k ad' v,
    In (h', DApology s' e accusers vals) allh /\ phase_at L h' S = Apologizing /\ find_index ks s' 0 = Some j /\
    nth_error accusers k = Some ad' /\ find_index ks ad' 0 = Some a /\ nth_error vals k = Some v /\ valid_eval v = true.

Definition good (x : st) : Prop :=
  exists pf, res x e = Some (mkRes C E (is_result C E (compute_result C E P verify pf)) (compute_result C E P verify pf)) /\
             is_corrupt C E P verify pf j = false /\ nth_opt (p_commits pf) j = Some c.

Lemma seen_complete pre rest h' ev :
  blocks = pre ++ rest -> In (h', ev) allh -> h' < h0 + 1 + Z.of_nat (length pre) -> In (h', ev) (evs_of pre).
Proof.
  intros Hsplit Hin Hlt. rewrite Hallh in Hin. apply in_evs_of in Hin. destruct Hin as [b [Hb [Hfb Hev]]].
  apply In_nth_error in Hb. destruct Hb as [k Hk].
  pose proof (Hheights _ _ Hk) as Hf. assert (Hkl : (k < length pre)%nat) by lia.
  rewrite Hsplit, nth_error_app1 in Hk by exact Hkl. apply in_evs_of. exists b. split; [eapply nth_error_In; exact Hk|]. split; assumption.
Qed.

Lemma pre_in_allh pre rest h' ev : blocks = pre ++ rest -> In (h', ev) (evs_of pre) -> In (h', ev) allh.
Proof. intros Hsplit Hin. rewrite Hallh, Hsplit, evs_of_app. apply in_or_app. left. exact Hin. Qed.

Lemma pa_not_final h : phase_at L h S <> Finalized -> h < S + 3 * L.
Proof. intros Hn. destruct (Z.lt_ge_cases h (S + 3 * L)) as [H|H]; [exact H|]. exfalso. apply Hn. apply (pa_final L Lpos). exact H. Qed.

Lemma convict_final pre rest a x1 :
  blocks = pre ++ rest -> S + 3 * L <= h0 + Z.of_nat (length pre) + 1 ->
  trk (evs_of pre) a -> nth_opt (p_commits (a_pure a)) j = Some c -> final_row' a x1 -> good x1.
Proof.
  intros Hsplit Hend [T1 T2 T3 T4 T5 T6 T7 T8] Hslot [pf [Hres [Hkp [Hpf [Hacc Hapo]]]]].
  exists pf. split; [exact Hres|]. split; [|exact (kp_commits _ _ _ _ _ Hkp _ _ Hslot)].
  apply is_corrupt_false_iff. exists c. split; [exact (kp_commits _ _ _ _ _ Hkp _ _ Hslot)|]. split.
  - intros a1 b v Hin ->. rewrite Hapo in Hin.
    destruct (T7 _ _ _ Hin) as [h1 [s [accusers [vals [k [ad [A1 [A2 [A3 [A4 A5]]]]]]]]]].
    eapply HV; try eassumption. eapply pre_in_allh; eassumption.
  - intros a1 b Hin ->. rewrite Hacc in Hin. rewrite Hapo.
    destruct (T6 _ _ Hin) as [h1 [s [accused [ad [A1 [A2 [A3 [A4 A5]]]]]]]].
    destruct (HA h1 s accused ad a1 (pre_in_allh _ _ _ _ Hsplit A1) A2 A3 A4 A5)
      as [h' [s' [accusers [vals [k [ad' [v [B1 [B2 [B3 [B4 [B5 [B6 B7]]]]]]]]]]]]].
    eapply (T8 h' s' accusers vals j k ad' a1 v); try eassumption.
    eapply seen_complete; [exact Hsplit|exact B1|].
    assert (Hlt : h' < S + 3 * L) by (apply pa_not_final; rewrite B2; discriminate). lia.
Qed.

Lemma run_convict rest : forall pre x,
  blocks = pre ++ rest -> run_blocks lch x rest = Some xf ->
  let h := h0 + Z.of_nat (length pre) in
  ((h < S + 3 * L /\ exists a, held a0 (phase_at L h S) x a /\ trk (evs_of pre) a /\
                               (S + L <= h -> nth_opt (p_commits (a_pure a)) j = Some c)) \/
   (S + 3 * L <= h /\ good x)) ->
  good xf.
Proof.
  induction rest as [|b r IH]; intros pre x Hsplit Hr h Hinv.
  - simpl in Hr. injection Hr as <-.
    assert (Hlen : length blocks = length pre) by (rewrite Hsplit, app_nil_r; reflexivity).
    destruct Hinv as [[Hh _]|[_ Hg]]; [unfold h in Hh; lia|exact Hg].
  - simpl in Hr. destruct (handle_block x b (lch (fst b))) as [x1| |] eqn:Hb; try discriminate.
    assert (Hk : nth_error blocks (length pre) = Some b).
    { rewrite Hsplit, nth_error_app2 by lia. rewrite Nat.sub_diag. reflexivity. }
    assert (Hfb : fst b = h + 1) by (rewrite (Hheights _ _ Hk); unfold h; lia).
    assert (Hsplit' : blocks = (pre ++ [b]) ++ r) by (rewrite <- app_assoc; exact Hsplit).
    assert (Hh' : h0 + Z.of_nat (length (pre ++ [b])) = h + 1) by (rewrite app_length; simpl; unfold h; lia).
    apply (IH (pre ++ [b]) x1 Hsplit' Hr). cbv zeta. rewrite Hh'.
    destruct Hinv as [[Hh [a [Hhd [Ht Hslot]]]]|[Hh Hg]].
    + assert (HhS : S <= h) by (unfold h; lia).
      assert (Hst : a_start a = S) by (rewrite (ka_start _ _ _ _ _ (hd_keeps _ _ _ _ Hhd)); exact Hst0).
      (* the commitment is there once the dealing phase is over *)
      assert (Hslot' : S + L <= h + 1 -> nth_opt (p_commits (a_pure a)) j = Some c).
      { intros Hend. destruct (Z.lt_ge_cases h (S + L)) as [Hin|Hout]; [|apply Hslot; exact Hout].
        destruct Lcj as [k [b1 [s [Hk1 [Hlt1 [Hin1 [Hidx1 Hdeg1]]]]]]].
        assert (Hph : p_phase (a_pure a) = Dealing) by (rewrite (hd_phase _ _ _ _ Hhd); apply pa_dealing; lia).
        assert (Hseen : In (fst b1, DCommit s e c) (evs_of pre)).
        { pose proof (Hheights _ _ Hk1) as Hf1. assert (Hkl : (k < length pre)%nat) by (unfold h in *; lia).
          rewrite Hsplit, nth_error_app1 in Hk1 by exact Hkl. apply in_evs_of. exists b1.
          split; [eapply nth_error_In; exact Hk1|]. split; [reflexivity|exact Hin1]. }
        assert (Hne : nth_opt (p_commits (a_pure a)) j <> None).
        { eapply (tk_clnd _ _ Ht); [exact Hseen| |exact Hidx1|exact Hdeg1].
          apply pa_dealing. rewrite (Hheights _ _ Hk1). lia. }
        destruct (nth_opt (p_commits (a_pure a)) j) as [c'|] eqn:Hc; [|contradiction].
        f_equal. eapply (tk_val _ _ Ht); [rewrite Hph; reflexivity|exact Hc]. }
      destruct (block_trk _ _ _ _ _ _ _ _ Hb Hhd Hst HhS Hfb Ht) as [A B].
      { intros ev Hev. rewrite Hallh. apply in_evs_of. exists b. split; [eapply nth_error_In; exact Hk|]. split; [exact Hfb|exact Hev]. }
      destruct (Z.lt_ge_cases (h + 1) (S + 3 * L)) as [Hin3|Hout3].
      * left. split; [exact Hin3|]. destruct (A Hin3) as [a' [Hhd' [Hk' Ht']]].
        exists a'. split; [exact Hhd'|]. split.
        -- rewrite evs_of_app. unfold evs_of at 2. simpl. rewrite app_nil_r, Hfb. exact Ht'.
        -- intros Hend. exact (kp_commits _ _ _ _ _ (ka_pure _ _ _ _ _ Hk') _ _ (Hslot' Hend)).
      * right. split; [exact Hout3|].
        eapply (convict_final pre (b :: r)); [exact Hsplit|fold h; lia|exact Ht|apply Hslot'; lia|apply B; lia].
    + right. split; [lia|]. destruct Hg as [pf [Hres Hrest]]. exists pf. split; [|exact Hrest].
      eapply (block_res C E P commit_of eval_of verify deg_ok valid_eval me L enum poly_for e); eassumption.
Qed.

Theorem no_false_conviction : good xf.
Proof.
  apply (run_convict blocks [] x0 eq_refl Hrun). cbv zeta.
  replace (h0 + Z.of_nat (length (@nil (Z * list dev)))) with h0 by (cbn [length Z.of_nat]; lia).
  left. split; [lia|]. exists a0. split; [rewrite pa_dealing by exact Hh0; exact Hheld0|]. split.
  - constructor; try assumption.
    + intros _. exact Hslot0.
    + intros h s c' [].
    + intros p q Hin. rewrite Hacc0 in Hin. destruct Hin.
    + intros p q v Hin. rewrite Hapo0 in Hin. destruct Hin.
    + intros h s accusers vals q k ad p v [].
  - intros Hc. lia.
Qed.

(* the qualified vector of the stored result carries the dealer's commitment *)
Lemma good_qualified pf cs vs :
  is_corrupt C E P verify pf j = false -> nth_opt (p_commits pf) j = Some c -> (j < p_n pf)%nat ->
  compute_result C E P verify pf = CResult cs vs -> nth_error cs j = Some (Some c).
Proof.
  intros Hc Hs Hj Hr. rewrite (result_commits C E P verify _ _ _ Hr). unfold qualified.
  rewrite nth_error_map.
  assert (Hn : nth_error (seq 0 (p_n pf)) j = Some j).
  { rewrite nth_error_nth' with (d := 0%nat) by (rewrite seq_length; exact Hj). rewrite seq_nth by exact Hj. reflexivity. }
  rewrite Hn. simpl. rewrite Hc, Hs. reflexivity.
Qed.

End ConvictDrv.
