(* app/voting.go and app/dkg.go as translated statement by statement on this run
   (Generated/VotingFuns.v) compute what the hand-written model (Model/App.v) computes:
   SetVote / AddVote / outcomeIndex / Outcome for every enumeration of the Votes map, and the
   four DKGInstance.Register*Msg functions as they are used by the model's handlers.  The
   theorems of Proofs/AppDet.v (replicas agree) and Proofs/AppGov.v (quorums) about votings
   therefore speak about the code as it is now.

   The proofs do not depend on the exact shape of the generated text: every loop body is
   compared with its specification POINTWISE (a premise discharged by case analysis over the
   conditions that occur, [shape]), so equivalent spellings of the source - swapped branches,
   negated or reordered guards, hoisted locals, index loops - leave them intact. *)
From Coq Require Import List Arith NArith ZArith Bool Lia Permutation.
From Verif Require Import Lib.Bytes Lib.Assoc Lib.Loops Model.App Generated.VotingFuns Proofs.AppDet.
Import ListNotations.

(* ---------------------------------------------------------------- case analysis *)

Ltac split_if :=
  match goal with
  | |- context [if ?b then _ else _] =>
      let rec atom b :=
        lazymatch b with
        | negb ?c => atom c
        | andb ?c _ => atom c
        | orb ?c _ => atom c
        | _ => destruct b eqn:?
        end in
      atom b; cbn [negb andb orb]
  end.

Ltac to_prop :=
  repeat match goal with
  | H : bytes_eqb _ _ = true |- _ => apply bytes_eqb_eq in H
  | H : bytes_eqb _ _ = false |- _ => apply bytes_eqb_neq in H
  | H : Z.leb _ _ = true |- _ => apply Z.leb_le in H
  | H : Z.leb _ _ = false |- _ => apply Z.leb_gt in H
  | H : Z.ltb _ _ = true |- _ => apply Z.ltb_lt in H
  | H : Z.ltb _ _ = false |- _ => apply Z.ltb_ge in H
  | H : N.eqb _ _ = true |- _ => apply N.eqb_eq in H
  | H : N.eqb _ _ = false |- _ => apply N.eqb_neq in H
  | H : Nat.eqb _ _ = true |- _ => apply Nat.eqb_eq in H
  | H : Nat.eqb _ _ = false |- _ => apply Nat.eqb_neq in H
  end.

Ltac shape :=
  cbv zeta; cbn [fst snd]; repeat split_if;
  try reflexivity; try congruence;
  to_prop; subst; try reflexivity; try congruence; try lia; try (exfalso; congruence); try (exfalso; lia).

Lemma fold_left_pointwise {A B} (f g : A -> B -> A) l a :
  (forall x y, f x y = g x y) -> fold_left f l a = fold_left g l a.
Proof. intros H. revert a. induction l as [|y r IH]; intros a; simpl; [reflexivity|]. rewrite H. apply IH. Qed.

(* ---------------------------------------------------------------- SetVote / AddVote *)

Section Voting.
  Context {T : Type}.
  Variable teqb : T -> T -> bool.

  Lemma ff_find_cand (f : nat -> T -> option (voting T)) (c : T) (g : nat -> voting T) l :
    (forall j x, f j x = if teqb c x then Some (g j) else None) ->
    forall i, find_first_from f i l = option_map g (find_cand teqb c l i).
  Proof.
    intros H. induction l as [|x r IH]; intros i; cbn [find_first_from find_cand]; [reflexivity|].
    rewrite H. destruct (teqb c x); [reflexivity|]. apply IH.
  Qed.

  Lemma gen_set_vote_agrees v sender c : gen_set_vote teqb v sender c = set_vote teqb v sender c.
  Proof.
    unfold gen_set_vote, set_vote, find_first_idx. cbv zeta.
    erewrite (ff_find_cand _ c (fun i => mkVoting (aset (v_votes v) sender i) (v_cands v))); [|intros; shape].
    destruct (find_cand teqb c (v_cands v) 0); cbn [option_map]; [reflexivity|].
    cbn [v_votes v_cands].
    first [reflexivity | repeat f_equal; rewrite ?app_length; cbn [length]; lia].
  Qed.

  Lemma gen_add_vote_agrees v sender c : gen_add_vote teqb v sender c = add_vote teqb v sender c.
  Proof.
    unfold gen_add_vote, add_vote. cbv zeta. rewrite ?gen_set_vote_agrees.
    destruct (amem (v_votes v) sender); cbn [negb]; reflexivity.
  Qed.

  (* ---------------------------------------------------------------- outcomeIndex *)

  Definition count_step (m : nmap) (kv : bytes * nat) : nmap := nset m (snd kv) (nget0 m (snd kv) + 1)%Z.

  Definition counts_ok (m : nmap) : Prop := forall i, nmem m i = true -> (0 < nget0 m i)%Z.

  Lemma count_step_get m kv i :
    nget (count_step m kv) i = if Nat.eqb (snd kv) i then Some (nget0 m i + 1)%Z else nget m i.
  Proof.
    unfold count_step. destruct (Nat.eqb_spec (snd kv) i) as [->|Hne].
    - apply nget_nset_same.
    - apply nget_nset_other. exact Hne.
  Qed.

  Lemma count_fold (e : amap nat) : forall m, counts_ok m ->
    counts_ok (fold_left count_step e m) /\
    forall i, nget0 (fold_left count_step e m) i = (nget0 m i + Z.of_nat (tally e i))%Z /\
              nmem (fold_left count_step e m) i = nmem m i || negb (Nat.eqb (tally e i) 0).
  Proof.
    induction e as [|[a k] r IH]; intros m Hok; cbn [fold_left].
    - split; [exact Hok|]. intros i. unfold tally. cbn. rewrite Z.add_0_r, orb_false_r. auto.
    - assert (Hok' : counts_ok (count_step m (a, k))).
      { intros i. unfold nmem, nget0. rewrite count_step_get. cbn [snd].
        destruct (Nat.eqb_spec k i) as [->|Hne].
        - intros _. specialize (Hok i). unfold nmem, nget0 in Hok. unfold nget0.
          destruct (nget m i); [specialize (Hok eq_refl)|]; lia.
        - exact (Hok i). }
      destruct (IH _ Hok') as [H1 H2]. split; [exact H1|].
      intros i. destruct (H2 i) as [Hg Hm]. rewrite Hg, Hm.
      unfold nmem, nget0. rewrite count_step_get. cbn [snd]. unfold nget0.
      assert (Ht : tally ((a, k) :: r) i = ((if Nat.eqb k i then 1 else 0) + tally r i)%nat).
      { unfold tally. cbn [filter snd]. destruct (Nat.eqb k i); reflexivity. }
      rewrite Ht.
      destruct (Nat.eqb k i).
      + split; [lia|]. destruct (nget m i); cbn [orb]; [reflexivity|].
        destruct (Nat.eqb (tally r i) 0); reflexivity.
      + split; reflexivity.
  Qed.

  Lemma counts_ok_nil : counts_ok [].
  Proof. intros i. unfold nmem. cbn. discriminate. Qed.

  Lemma ff_meeting (A : Type) (f : nat -> A -> option (option nat)) (numVotes : nmap) (e : amap nat) req :
    (forall i, nget0 numVotes i = Z.of_nat (tally e i) /\ nmem numVotes i = negb (Nat.eqb (tally e i) 0)) ->
    (forall index x, f index x =
        if nmem numVotes index && Z.leb req (nget0 numVotes index) then Some (Some index) else None) ->
    forall (l : list A) i,
    find_first_from f i l =
    match first_index_meeting e req i (length l) with Some j => Some (Some j) | None => None end.
  Proof.
    intros H Hf l. induction l as [|x r IH]; intros i; cbn [find_first_from first_index_meeting length]; [reflexivity|].
    rewrite Hf. destruct (H i) as [Hg Hm]. rewrite Hg, Hm.
    destruct (negb (Nat.eqb (tally e i) 0) && (req <=? Z.of_nat (tally e i))%Z); [reflexivity|]. apply IH.
  Qed.

  Lemma gen_outcome_index_is_first_meeting (v : voting T) (e : amap nat) req :
    gen_outcome_index v e req = first_index_meeting e req 0 (length (v_cands v)).
  Proof.
    unfold gen_outcome_index, find_first_idx. cbv zeta.
    erewrite (fold_left_pointwise _ count_step); [|intros; reflexivity].
    destruct (count_fold e [] counts_ok_nil) as [_ H].
    erewrite (ff_meeting T _ (fold_left count_step e []) e req).
    - destruct (first_index_meeting e req 0 (length (v_cands v))); reflexivity.
    - intros i. destruct (H i) as [Hg Hm]. rewrite Hg, Hm. unfold nmem, nget0. cbn. split; [lia|reflexivity].
    - intros; shape.
  Qed.

  (* the translated outcomeIndex / Outcome are the model's, for the enumeration the model is given *)
  Lemma gen_outcome_index_agrees (enum : enumerator) (v : voting T) req :
    gen_outcome_index v (enum _ (v_votes v)) req = outcome_index enum v req.
  Proof. apply gen_outcome_index_is_first_meeting. Qed.

  Lemma gen_outcome_via_index (v : voting T) e req :
    gen_outcome v e req =
    match gen_outcome_index v e req with None => None | Some i => Some (nth_error (v_cands v) i) end.
  Proof. unfold gen_outcome. cbv zeta. destruct (gen_outcome_index v e req); reflexivity. Qed.

  Lemma gen_outcome_agrees (enum : enumerator) (v : voting T) req :
    gen_outcome v (enum _ (v_votes v)) req = outcome enum v req.
  Proof. rewrite gen_outcome_via_index. unfold outcome. rewrite gen_outcome_index_agrees. destruct (outcome_index enum v req); reflexivity. Qed.

  (* what replica agreement needs, stated on the translated function: any two enumerations of
     the Votes map give the same outcome *)
  Lemma gen_outcome_index_order_free (v : voting T) e1 e2 req :
    Permutation e1 e2 -> gen_outcome_index v e1 req = gen_outcome_index v e2 req.
  Proof. intros Hp. rewrite !gen_outcome_index_is_first_meeting. apply first_index_meeting_perm. exact Hp. Qed.

  Lemma gen_outcome_order_free (v : voting T) e1 e2 req :
    Permutation e1 e2 -> gen_outcome v e1 req = gen_outcome v e2 req.
  Proof. intros Hp. rewrite !gen_outcome_via_index. rewrite (gen_outcome_index_order_free v e1 e2 req Hp). reflexivity. Qed.

  (* Outcome never indexes Candidates out of range (Some None would be the index panic) *)
  Lemma gen_outcome_no_panic (v : voting T) e req : gen_outcome v e req <> Some None.
  Proof.
    rewrite gen_outcome_via_index. rewrite gen_outcome_index_is_first_meeting.
    destruct (first_index_meeting e req 0 (length (v_cands v))) eqn:E; [|discriminate].
    apply first_index_meeting_bound in E. intros H. injection H as H.
    apply nth_error_None in H. lia.
  Qed.
End Voting.

(* ---------------------------------------------------------------- DKGInstance.Register*Msg *)

(* one receiver of RegisterPolyEvalMsg's first loop *)
Definition recv_step (d : dkg) (sender r : addr) : option N :=
  if negb (is_keyper (d_config d) r) then Some code_error
  else if bytes_eqb r sender then Some code_error
  else if mem_pair sender r (d_evals d) then Some code_seen
  else None.

Lemma poly_eval_search (f : nat -> addr -> option (dkg * option N)) d sender rs :
  (forall j r, f j r = option_map (fun code => (d, Some code)) (recv_step d sender r)) ->
  forall i, find_first_from f i rs =
  option_map (fun code => (d, Some code)) (check_receivers (d_config d) sender (d_evals d) rs).
Proof.
  intros H. induction rs as [|r t IH]; intros i; cbn [find_first_from check_receivers]; [reflexivity|].
  rewrite H. unfold recv_step.
  destruct (negb (is_keyper (d_config d) r)); [reflexivity|].
  destruct (bytes_eqb r sender); [reflexivity|].
  destruct (mem_pair sender r (d_evals d)); [reflexivity|]. apply IH.
Qed.

Lemma mem_pair_app s r l l' : mem_pair s r (l ++ l') = mem_pair s r l || mem_pair s r l'.
Proof. induction l as [|[a b] t IH]; cbn [mem_pair app]; [reflexivity|]. rewrite IH, orb_assoc. reflexivity. Qed.

Lemma check_receivers_none_fresh c sender seen rs :
  check_receivers c sender seen rs = None -> forall r, mem_addr r rs = true -> mem_pair sender r seen = false.
Proof.
  induction rs as [|x t IH]; cbn [check_receivers mem_addr]; [discriminate|].
  destruct (negb (is_keyper c x)); [discriminate|].
  destruct (bytes_eqb x sender); [discriminate|].
  destruct (mem_pair sender x seen) eqn:E; [discriminate|].
  intros H r Hr. apply orb_true_iff in Hr as [Hr|Hr]; [|exact (IH H r Hr)].
  apply bytes_eqb_eq in Hr. subst r. exact E.
Qed.

Definition eval_write (sender : addr) (d : dkg) (receiver : addr) : dkg :=
  mkDkg (d_config d) (d_eon d) (d_success d) (set_add pair_mem (d_evals d) (sender, receiver))
        (d_commits d) (d_accs d) (d_apos d).

(* the write loop: with distinct receivers none of which is present, set_add appends *)
Lemma poly_eval_writes sender : forall rs d,
  addrs_unique rs = true ->
  (forall r, mem_addr r rs = true -> mem_pair sender r (d_evals d) = false) ->
  fold_left (eval_write sender) rs d =
  mkDkg (d_config d) (d_eon d) (d_success d) (d_evals d ++ map (fun r => (sender, r)) rs)
        (d_commits d) (d_accs d) (d_apos d).
Proof.
  induction rs as [|x t IH]; intros d Hu Hf; cbn [fold_left map].
  - rewrite app_nil_r. destruct d; reflexivity.
  - cbn [addrs_unique] in Hu. apply andb_true_iff in Hu as [Hx Hu].
    assert (Hfx : mem_pair sender x (d_evals d) = false).
    { apply Hf. cbn [mem_addr]. rewrite bytes_eqb_refl. reflexivity. }
    assert (Hs : eval_write sender d x = mkDkg (d_config d) (d_eon d) (d_success d) (d_evals d ++ [(sender, x)])
                                              (d_commits d) (d_accs d) (d_apos d)).
    { unfold eval_write, set_add, pair_mem. cbn [fst snd]. rewrite Hfx. reflexivity. }
    rewrite Hs.
    rewrite IH; cbn [d_config d_eon d_success d_evals d_commits d_accs d_apos].
    + rewrite <- app_assoc. reflexivity.
    + exact Hu.
    + intros r Hr. rewrite mem_pair_app. cbn [mem_pair].
      rewrite Hf by (cbn [mem_addr]; rewrite Hr; apply orb_true_r).
      rewrite orb_false_r. cbn [orb].
      destruct (bytes_eqb x r) eqn:E; [|rewrite andb_false_r; reflexivity].
      apply bytes_eqb_eq in E. subst r. rewrite Hr in Hx. discriminate.
Qed.

(* the model's path of a DKG message through its Register function *)
Definition poly_eval_spec d eon sender rs : dkg * option N :=
  if negb (N.eqb eon (d_eon d)) then (d, Some code_error)
  else if negb (is_keyper (d_config d) sender) then (d, Some code_error)
  else match check_receivers (d_config d) sender (d_evals d) rs with
       | Some code => (d, Some code)
       | None => (mkDkg (d_config d) (d_eon d) (d_success d) (d_evals d ++ map (fun r => (sender, r)) rs)
                        (d_commits d) (d_accs d) (d_apos d), None)
       end.

(* the generated function up to the write loop (no premise on the receivers) *)
Lemma gen_register_poly_eval_shape d eon sender rs :
  gen_register_poly_eval d eon sender rs =
  if negb (N.eqb eon (d_eon d)) then (d, Some code_error)
  else if negb (is_keyper (d_config d) sender) then (d, Some code_error)
  else match check_receivers (d_config d) sender (d_evals d) rs with
       | Some code => (d, Some code)
       | None => (fold_left (eval_write sender) rs d, None)
       end.
Proof.
  unfold gen_register_poly_eval, find_first_idx. cbv zeta.
  destruct (negb (N.eqb eon (d_eon d))) eqn:E1; [revert E1; shape|].
  destruct (negb (is_keyper (d_config d) sender)) eqn:E2; [revert E1 E2; shape|].
  repeat match goal with |- context [if ?b then _ else _] =>
    match b with
    | negb (N.eqb eon (d_eon d)) => rewrite E1
    | negb (is_keyper (d_config d) sender) => rewrite E2
    end end.
  erewrite (poly_eval_search _ d sender rs); [|intros; unfold recv_step, pair_mem; shape].
  destruct (check_receivers (d_config d) sender (d_evals d) rs); cbn [option_map]; [reflexivity|].
  erewrite (fold_left_pointwise _ (eval_write sender)); [reflexivity|intros; reflexivity].
Qed.

Lemma gen_register_poly_eval_agrees d eon sender rs :
  addrs_unique rs = true ->
  gen_register_poly_eval d eon sender rs = poly_eval_spec d eon sender rs.
Proof.
  intros Hu. rewrite gen_register_poly_eval_shape. unfold poly_eval_spec.
  destruct (negb (N.eqb eon (d_eon d))); [reflexivity|].
  destruct (negb (is_keyper (d_config d) sender)); [reflexivity|].
  destruct (check_receivers (d_config d) sender (d_evals d) rs) eqn:E; [reflexivity|].
  rewrite poly_eval_writes; [reflexivity|exact Hu|].
  exact (check_receivers_none_fresh _ _ _ _ E).
Qed.

Definition poly_commitment_spec d eon sender : dkg * option N :=
  if negb (N.eqb eon (d_eon d)) then (d, Some code_error)
  else if negb (is_keyper (d_config d) sender) then (d, Some code_error)
  else if mem_addr sender (d_commits d) then (d, Some code_seen)
  else (mkDkg (d_config d) (d_eon d) (d_success d) (d_evals d) (d_commits d ++ [sender]) (d_accs d) (d_apos d), None).

Lemma gen_register_poly_commitment_agrees d eon sender :
  gen_register_poly_commitment d eon sender = poly_commitment_spec d eon sender.
Proof. unfold gen_register_poly_commitment, poly_commitment_spec, set_add. shape. Qed.

(* one element of the "others" loop of accusations and apologies *)
Lemma others_search (f : nat -> addr -> option (dkg * option N)) d sender l :
  (forall j a, f j a = if is_keyper (d_config d) a && negb (bytes_eqb sender a) then None
                       else Some (d, Some code_error)) ->
  forall i, find_first_from f i l =
  if check_others (d_config d) sender l then None else Some (d, Some code_error).
Proof.
  intros H. induction l as [|a t IH]; intros i; cbn [find_first_from check_others]; [reflexivity|].
  rewrite H.
  destruct (is_keyper (d_config d) a); cbn [negb andb]; [|reflexivity].
  destruct (bytes_eqb sender a); cbn [negb andb]; [reflexivity|]. apply IH.
Qed.

Definition accusation_spec d eon sender accused : dkg * option N :=
  if negb (N.eqb eon (d_eon d)) then (d, Some code_error)
  else if negb (is_keyper (d_config d) sender) then (d, Some code_error)
  else if negb (check_others (d_config d) sender accused) then (d, Some code_error)
  else if mem_addr sender (d_accs d) then (d, Some code_seen)
  else (mkDkg (d_config d) (d_eon d) (d_success d) (d_evals d) (d_commits d) (d_accs d ++ [sender]) (d_apos d), None).

Definition apology_spec d eon sender accusers : dkg * option N :=
  if negb (N.eqb eon (d_eon d)) then (d, Some code_error)
  else if negb (is_keyper (d_config d) sender) then (d, Some code_error)
  else if negb (check_others (d_config d) sender accusers) then (d, Some code_error)
  else if mem_addr sender (d_apos d) then (d, Some code_seen)
  else (mkDkg (d_config d) (d_eon d) (d_success d) (d_evals d) (d_commits d) (d_accs d) (d_apos d ++ [sender]), None).

Lemma gen_register_accusation_agrees d eon sender accused :
  gen_register_accusation d eon sender accused = accusation_spec d eon sender accused.
Proof.
  unfold gen_register_accusation, accusation_spec, find_first_idx, set_add. cbv zeta.
  destruct (negb (N.eqb eon (d_eon d))) eqn:E1; [revert E1; shape|].
  destruct (negb (is_keyper (d_config d) sender)) eqn:E2; [revert E1 E2; shape|].
  repeat match goal with |- context [if ?b then _ else _] =>
    match b with
    | negb (N.eqb eon (d_eon d)) => rewrite E1
    | negb (is_keyper (d_config d) sender) => rewrite E2
    end end.
  erewrite (others_search _ d sender accused); [|intros; shape].
  destruct (check_others (d_config d) sender accused); cbn [negb]; [|reflexivity]. shape.
Qed.

Lemma gen_register_apology_agrees d eon sender accusers :
  gen_register_apology d eon sender accusers = apology_spec d eon sender accusers.
Proof.
  unfold gen_register_apology, apology_spec, find_first_idx, set_add. cbv zeta.
  destruct (negb (N.eqb eon (d_eon d))) eqn:E1; [revert E1; shape|].
  destruct (negb (is_keyper (d_config d) sender)) eqn:E2; [revert E1 E2; shape|].
  repeat match goal with |- context [if ?b then _ else _] =>
    match b with
    | negb (N.eqb eon (d_eon d)) => rewrite E1
    | negb (is_keyper (d_config d) sender) => rewrite E2
    end end.
  erewrite (others_search _ d sender accusers); [|intros; shape].
  destruct (check_others (d_config d) sender accusers); cbn [negb]; [|reflexivity]. shape.
Qed.

(* The model's handlers, rebuilt around the translated Register functions, are the model's
   handlers: the part of handle*Msg between "the DKG instance was found" and the response. *)
Definition via_register (s : state) (eon : N) (r : dkg * option N) (okresp : resp) : state * resp :=
  match r with
  | (d', None) => (upd_dkg s eon d', okresp)
  | (_, Some code) => (s, (code, []))
  end.

Lemma handle_poly_eval_via_generated s sender eon receivers evals d :
  Nat.eqb (length receivers) (length evals) = true -> all_len20 receivers = true ->
  addrs_unique receivers = true -> dkg_get (dkgs s) eon = Some d ->
  handle_poly_eval s sender eon receivers evals =
  via_register s eon (gen_register_poly_eval d eon sender receivers)
               (code_ok, [EvPolyEval sender eon receivers evals]).
Proof.
  intros H1 H2 H3 H4. unfold handle_poly_eval. rewrite H1, H2, H3, H4. cbn [negb].
  rewrite gen_register_poly_eval_agrees by exact H3. unfold poly_eval_spec.
  destruct (negb (N.eqb eon (d_eon d))); [reflexivity|].
  destruct (negb (is_keyper (d_config d) sender)); [reflexivity|].
  destruct (check_receivers (d_config d) sender (d_evals d) receivers); reflexivity.
Qed.

Lemma handle_poly_commitment_via_generated s sender eon gammas d :
  forallb snd gammas = true -> dkg_get (dkgs s) eon = Some d ->
  handle_poly_commitment s sender eon gammas =
  via_register s eon (gen_register_poly_commitment d eon sender)
               (code_ok, [EvPolyCommitment sender eon (map fst gammas)]).
Proof.
  intros H1 H2. unfold handle_poly_commitment. rewrite H1, H2. cbn [negb].
  rewrite gen_register_poly_commitment_agrees. unfold poly_commitment_spec.
  destruct (negb (N.eqb eon (d_eon d))); [reflexivity|].
  destruct (negb (is_keyper (d_config d) sender)); [reflexivity|].
  destruct (mem_addr sender (d_commits d)); reflexivity.
Qed.

Lemma handle_accusation_via_generated s sender eon accused d :
  all_len20 accused = true -> addrs_unique accused = true -> dkg_get (dkgs s) eon = Some d ->
  handle_accusation s sender eon accused =
  via_register s eon (gen_register_accusation d eon sender accused)
               (code_ok, [EvAccusation sender eon accused]).
Proof.
  intros H1 H2 H3. unfold handle_accusation. rewrite H1, H2, H3. cbn [negb].
  rewrite gen_register_accusation_agrees. unfold accusation_spec.
  destruct (negb (N.eqb eon (d_eon d))); [reflexivity|].
  destruct (negb (is_keyper (d_config d) sender)); [reflexivity|].
  destruct (negb (check_others (d_config d) sender accused)); [reflexivity|].
  destruct (mem_addr sender (d_accs d)); reflexivity.
Qed.

Lemma handle_apology_via_generated s sender eon accusers evals d :
  Nat.eqb (length accusers) (length evals) = true -> all_len20 accusers = true ->
  addrs_unique accusers = true -> dkg_get (dkgs s) eon = Some d ->
  handle_apology s sender eon accusers evals =
  via_register s eon (gen_register_apology d eon sender accusers)
               (code_ok, [EvApology sender eon accusers (map strip_zeros evals)]).
Proof.
  intros H1 H2 H3 H4. unfold handle_apology. rewrite H1, H2, H3, H4. cbn [negb].
  rewrite gen_register_apology_agrees. unfold apology_spec.
  destruct (negb (N.eqb eon (d_eon d))); [reflexivity|].
  destruct (negb (is_keyper (d_config d) sender)); [reflexivity|].
  destruct (negb (check_others (d_config d) sender accusers)); [reflexivity|].
  destruct (mem_addr sender (d_apos d)); reflexivity.
Qed.

(* A refused Register*Msg leaves the DKG instance as it was (what C10 needs from these
   functions), on the translated code and without any premise on the message. *)
Lemma gen_register_poly_eval_refusal_inert d eon sender rs d' code :
  gen_register_poly_eval d eon sender rs = (d', Some code) -> d' = d.
Proof.
  rewrite gen_register_poly_eval_shape.
  destruct (negb (N.eqb eon (d_eon d))); [intros [= <- _]; reflexivity|].
  destruct (negb (is_keyper (d_config d) sender)); [intros [= <- _]; reflexivity|].
  destruct (check_receivers (d_config d) sender (d_evals d) rs).
  - intros [= <- _]. reflexivity.
  - discriminate.
Qed.

Lemma gen_register_poly_commitment_refusal_inert d eon sender d' code :
  gen_register_poly_commitment d eon sender = (d', Some code) -> d' = d.
Proof.
  rewrite gen_register_poly_commitment_agrees. unfold poly_commitment_spec.
  destruct (negb (N.eqb eon (d_eon d))); [intros [= <- _]; reflexivity|].
  destruct (negb (is_keyper (d_config d) sender)); [intros [= <- _]; reflexivity|].
  destruct (mem_addr sender (d_commits d)); [intros [= <- _]; reflexivity|discriminate].
Qed.

Lemma gen_register_accusation_refusal_inert d eon sender l d' code :
  gen_register_accusation d eon sender l = (d', Some code) -> d' = d.
Proof.
  rewrite gen_register_accusation_agrees. unfold accusation_spec.
  destruct (negb (N.eqb eon (d_eon d))); [intros [= <- _]; reflexivity|].
  destruct (negb (is_keyper (d_config d) sender)); [intros [= <- _]; reflexivity|].
  destruct (negb (check_others (d_config d) sender l)); [intros [= <- _]; reflexivity|].
  destruct (mem_addr sender (d_accs d)); [intros [= <- _]; reflexivity|discriminate].
Qed.

Lemma gen_register_apology_refusal_inert d eon sender l d' code :
  gen_register_apology d eon sender l = (d', Some code) -> d' = d.
Proof.
  rewrite gen_register_apology_agrees. unfold apology_spec.
  destruct (negb (N.eqb eon (d_eon d))); [intros [= <- _]; reflexivity|].
  destruct (negb (is_keyper (d_config d) sender)); [intros [= <- _]; reflexivity|].
  destruct (negb (check_others (d_config d) sender l)); [intros [= <- _]; reflexivity|].
  destruct (mem_addr sender (d_apos d)); [intros [= <- _]; reflexivity|discriminate].
Qed.

(* an accepted Register*Msg changes exactly one "seen" set and nothing else *)
Lemma poly_eval_fold_frame sender l : forall d0,
  let d1 := fold_left (eval_write sender) l d0 in
  d_config d1 = d_config d0 /\ d_eon d1 = d_eon d0 /\ d_success d1 = d_success d0 /\
  d_commits d1 = d_commits d0 /\ d_accs d1 = d_accs d0 /\ d_apos d1 = d_apos d0.
Proof.
  induction l as [|x t IH]; intros d0; cbn [fold_left]; [cbv zeta; repeat split; reflexivity|].
  cbv zeta in *. specialize (IH (eval_write sender d0 x)).
  unfold eval_write at 2 4 6 8 10 12 in IH.
  cbn [d_config d_eon d_success d_commits d_accs d_apos] in IH. exact IH.
Qed.

Lemma gen_register_poly_eval_accept_frame d eon sender rs d' :
  gen_register_poly_eval d eon sender rs = (d', None) ->
  d_config d' = d_config d /\ d_eon d' = d_eon d /\ d_success d' = d_success d /\
  d_commits d' = d_commits d /\ d_accs d' = d_accs d /\ d_apos d' = d_apos d.
Proof.
  rewrite gen_register_poly_eval_shape.
  destruct (negb (N.eqb eon (d_eon d))); [discriminate|].
  destruct (negb (is_keyper (d_config d) sender)); [discriminate|].
  destruct (check_receivers (d_config d) sender (d_evals d) rs); [discriminate|].
  intros [= <-]. apply (poly_eval_fold_frame sender rs d).
Qed.
