(* C06 - specification predicates and proofs about Model/KeysSig.v. *)
From Coq Require Import List NArith ZArith Bool Lia.
From Verif Require Import Lib.Bytes Model.KeysSig.
Import ListNotations.

(* ------------------------------------------------------------------------------------- *)
(* The rule of the property, as predicates *)

(* each index greater than the one before it *)
Fixpoint strictly_increasing (l : list N) : Prop :=
  match l with
  | [] => True
  | x :: r => match r with [] => True | y :: _ => (x < y)%N end /\ strictly_increasing r
  end.

Definition in_keyper_set (kp : list (option N)) (i : N) : Prop := (i < N.of_nat (length kp))%N.

Section Spec.
  Variable H : Type.
  Variable H_eqb : H -> H -> bool.
  Variable hash : tuple -> H.

  (* [s] is the signature of the keyper listed at index [i] of the set over tuple [t]: the entry
     is an address [a], the tuple can be hashed, and [s] is the label "signed by a over hash t" *)
  Definition valid_sig_by (kp : list (option N)) (t : tuple) (i : N) (s : sig H) : Prop :=
    exists a, nth_error kp (N.to_nat i) = Some (Some a) /\ hashable t = true /\ s = SigBy a (hash t).

  (* exactly threshold signers, strictly increasing, inside the keyper set, one signature per
     signer, each valid by that keyper over the message's own tuple *)
  Definition sig_rule (fl : flavour) (ks : keyperset) (m : keysmsg)
             (signers : list N) (sigs : list (sig H)) : Prop :=
    Z.of_nat (length signers) = ks_threshold ks /\
    strictly_increasing signers /\
    Forall (in_keyper_set (ks_keypers ks)) signers /\
    length sigs = length signers /\
    Forall2 (valid_sig_by (ks_keypers ks) (signed_tuple fl m)) signers sigs.
End Spec.

(* which fields the signatures of a flavour cover *)
Definition differs_in_signed_field (fl : flavour) (m m' : keysmsg) : Prop :=
  m_inst m' <> m_inst m \/ m_eon m' <> m_eon m \/ m_ids m' <> m_ids m \/
  (fl = Gnosis /\ (m_slot m' <> m_slot m \/ m_txp m' <> m_txp m)).

(* ------------------------------------------------------------------------------------- *)
(* integers *)

Lemma to_i32_small z : (0 <= z < 2 ^ 31)%Z -> to_i32 z = z.
Proof.
  intros Hz. unfold to_i32.
  rewrite Z.mod_small by lia.
  destruct (z <? 2 ^ 31)%Z eqn:E; [reflexivity|]. apply Z.ltb_ge in E. lia.
Qed.

(* ------------------------------------------------------------------------------------- *)
(* validateSignerIndices *)

Lemma signer_loop_not_panic l : forall prev n, signer_loop prev l n <> Panic.
Proof.
  induction l as [|x r IH]; intros prev n; simpl; [discriminate|].
  destruct prev as [p|].
  - destruct (x =? p)%N; [discriminate|]. destruct (x <? p)%N; [discriminate|].
    destruct (n <=? x)%N; [discriminate|]. apply IH.
  - destruct (n <=? x)%N; [discriminate|]. apply IH.
Qed.

Lemma signer_loop_some l : forall p n,
  signer_loop (Some p) l n = Accept <->
  strictly_increasing (p :: l) /\ Forall (fun i => (i < n)%N) l.
Proof.
  induction l as [|x r IH]; intros p n.
  - simpl. split; [intros _; repeat split; constructor | reflexivity].
  - cbn [signer_loop].
    destruct (x =? p)%N eqn:E1.
    { apply N.eqb_eq in E1. split; [discriminate|]. intros [[Hlt _] _]. simpl in Hlt. lia. }
    destruct (x <? p)%N eqn:E2.
    { apply N.ltb_lt in E2. split; [discriminate|]. intros [[Hlt _] _]. simpl in Hlt. lia. }
    apply N.eqb_neq in E1. apply N.ltb_ge in E2.
    destruct (n <=? x)%N eqn:E3.
    { apply N.leb_le in E3. split; [discriminate|]. intros [_ Hf]. inversion Hf; subst. lia. }
    apply N.leb_gt in E3. rewrite IH. split.
    + intros [Hs Hf]. split.
      * split; [simpl; lia | exact Hs].
      * constructor; assumption.
    + intros [[_ Hs] Hf]. inversion Hf; subst. split; assumption.
Qed.

Lemma signer_loop_none l n :
  signer_loop None l n = Accept <-> strictly_increasing l /\ Forall (fun i => (i < n)%N) l.
Proof.
  destruct l as [|x r].
  - simpl. split; [intros _; split; constructor | reflexivity].
  - cbn [signer_loop]. destruct (n <=? x)%N eqn:E3.
    { apply N.leb_le in E3. split; [discriminate|]. intros [_ Hf]. inversion Hf; subst. lia. }
    apply N.leb_gt in E3. rewrite signer_loop_some. split.
    + intros [Hs Hf]. split; [exact Hs | constructor; assumption].
    + intros [Hs Hf]. inversion Hf; subst. split; assumption.
Qed.

Lemma validate_signer_indices_accept signers kp :
  validate_signer_indices signers (length kp) = Accept <->
  strictly_increasing signers /\ Forall (in_keyper_set kp) signers.
Proof. unfold validate_signer_indices, in_keyper_set. apply signer_loop_none. Qed.

Lemma validate_signer_indices_not_panic signers n : validate_signer_indices signers n <> Panic.
Proof. apply signer_loop_not_panic. Qed.

(* a strictly increasing list of indices below n has at most n entries *)
Lemma increasing_length_from l : forall lo n,
  strictly_increasing l -> Forall (fun i => (lo <= i < n)%N) l ->
  (N.of_nat (length l) <= n - lo)%N.
Proof.
  induction l as [|x r IH]; intros lo n Hs Hf.
  - simpl. lia.
  - inversion Hf as [|? ? Hx Hr]; subst. destruct Hs as [Hh Hs].
    assert (Hr' : Forall (fun i => (N.succ x <= i < n)%N) r).
    { clear IH Hf. destruct r as [|y r']; [constructor|].
      inversion Hr as [|? ? Hy Hr'']; subst.
      assert (G : forall l p, strictly_increasing (p :: l) -> Forall (fun i => (lo <= i < n)%N) l ->
                               Forall (fun i => (N.succ p <= i < n)%N) l).
      { clear. induction l as [|z l IH]; intros p Hs Hf; [constructor|].
        inversion Hf; subst. destruct Hs as [Hpz Hs]. constructor; [lia|].
        eapply Forall_impl; [|apply (IH z Hs)]; [|assumption].
        intros a Ha. simpl in Ha. lia. }
      apply (G (y :: r') x); [split; assumption | assumption]. }
    specialize (IH (N.succ x) n Hs Hr').
    change (length (x :: r)) with (S (length r)). lia.
Qed.

Lemma increasing_length l n :
  strictly_increasing l -> Forall (fun i => (i < n)%N) l -> (N.of_nat (length l) <= n)%N.
Proof.
  intros Hs Hf. pose proof (increasing_length_from l 0 n Hs) as G.
  assert (Forall (fun i => (0 <= i < n)%N) l) by (eapply Forall_impl; [|exact Hf]; simpl; intros; lia).
  specialize (G H). lia.
Qed.

(* ------------------------------------------------------------------------------------- *)
(* GetSubset *)

Lemma get_subset_not_panic kp idx : get_subset kp idx <> SubPanic.
Proof.
  induction idx as [|i r IH]; simpl; [discriminate|].
  destruct (N.of_nat (length kp) <=? i)%N eqn:E; [discriminate|].
  apply N.leb_gt in E.
  destruct (nth_error kp (N.to_nat i)) as [[a|]|] eqn:En.
  - destruct (get_subset kp r); [discriminate | discriminate | contradiction].
  - discriminate.
  - apply nth_error_None in En. lia.
Qed.

Lemma get_subset_ok kp idx : forall addrs,
  get_subset kp idx = SubOk addrs <->
  Forall2 (fun i a => nth_error kp (N.to_nat i) = Some (Some a)) idx addrs.
Proof.
  induction idx as [|i r IH]; intros addrs; simpl.
  - split.
    + intros E. injection E as <-. constructor.
    + intros F. inversion F. reflexivity.
  - destruct (N.of_nat (length kp) <=? i)%N eqn:E.
    { apply N.leb_le in E. split; [discriminate|]. intros F. inversion F as [|? a ? l' Hn Hr]; subst.
      assert (nth_error kp (N.to_nat i) <> None) by congruence.
      apply nth_error_Some in H. lia. }
    destruct (nth_error kp (N.to_nat i)) as [[a|]|] eqn:En.
    + destruct (get_subset kp r) as [l| |] eqn:Er.
      * split.
        -- intros E'. injection E' as <-. constructor; [assumption|]. apply IH. reflexivity.
        -- intros F. inversion F as [|? a' ? l' Hn Hr]; subst.
           apply IH in Hr. injection Hr as <-. congruence.
      * split; [discriminate|]. intros F. inversion F as [|? a' ? l' Hn Hr]; subst.
        apply IH in Hr. discriminate.
      * exfalso. eapply get_subset_not_panic; eassumption.
    + split; [discriminate|]. intros F. inversion F; subst. congruence.
    + split; [discriminate|]. intros F. inversion F; subst. congruence.
Qed.

(* ------------------------------------------------------------------------------------- *)
Section Proofs.
  Variable H : Type.
  Variable H_eqb : H -> H -> bool.
  Variable hash : tuple -> H.
  Hypothesis H_eqb_spec : forall a b, H_eqb a b = true <-> a = b.

  Notation sig := (sig H).
  Notation check_signature := (check_signature H H_eqb hash).
  Notation sig_loop := (sig_loop H H_eqb hash).
  Notation legacy_validate_sigs_common := (legacy_validate_sigs_common H H_eqb hash).
  Notation legacy_validate_sigs := (legacy_validate_sigs H H_eqb hash).
  Notation validate_sigs := (validate_sigs H H_eqb hash).
  Notation valid_sig_by := (valid_sig_by H hash).
  Notation sig_rule := (sig_rule H hash).

  (* CheckSignature says (true, nil) exactly for the label "signed by addr over hash t" *)
  Lemma check_signature_true t s addr :
    check_signature t s addr = Some true <-> hashable t = true /\ s = SigBy addr (hash t).
  Proof.
    unfold check_signature, recover. destruct (hashable t).
    - destruct s as [a h| |].
      + destruct (H_eqb (hash t) h) eqn:E.
        * apply H_eqb_spec in E. subst h. split.
          -- intros E'. injection E' as E'. apply N.eqb_eq in E'. subst. split; reflexivity.
          -- intros [_ E']. injection E' as ->. rewrite N.eqb_refl. reflexivity.
        * split; [discriminate|]. intros [_ E']. injection E' as -> ->.
          assert (H_eqb (hash t) (hash t) = true) by (apply H_eqb_spec; reflexivity). congruence.
      + split; [discriminate|]. intros [_ E']. discriminate.
      + split; [discriminate|]. intros [_ E']. discriminate.
    - split; [discriminate|]. intros [E' _]. discriminate.
  Qed.

  (* the index-based loop is a walk down both lists *)
  Fixpoint sig_walk (t : tuple) (addrs : list N) (sigs : list sig) {struct sigs} : verdict :=
    match sigs with
    | [] => Accept
    | s :: rest =>
        match addrs with
        | [] => Panic
        | a :: ar =>
            match check_signature t s a with
            | None => Reject RCheckError
            | Some false => Reject RInvalidSig
            | Some true => sig_walk t ar rest
            end
        end
    end.

  Lemma skipn_cons_nth {A} (l : list A) : forall i a r,
    skipn i l = a :: r -> nth_error l i = Some a /\ skipn (S i) l = r.
  Proof.
    induction l as [|x l IH]; intros i a r E.
    - destruct i; discriminate.
    - destruct i as [|i].
      + simpl in E. injection E as -> ->. split; reflexivity.
      + simpl in E. apply IH in E. exact E.
  Qed.

  Lemma skipn_nil_nth {A} (l : list A) : forall i, skipn i l = [] -> nth_error l i = None.
  Proof.
    induction l as [|x l IH]; intros i E.
    - destruct i; reflexivity.
    - destruct i as [|i]; [discriminate|]. simpl in *. apply IH. exact E.
  Qed.

  Lemma sig_loop_walk t addrs sigs : forall i,
    sig_loop t addrs sigs i = sig_walk t (skipn i addrs) sigs.
  Proof.
    induction sigs as [|s rest IH]; intros i; simpl; [reflexivity|].
    destruct (skipn i addrs) as [|a ar] eqn:E.
    - rewrite (skipn_nil_nth _ _ E). reflexivity.
    - destruct (skipn_cons_nth _ _ _ _ E) as [-> E']. rewrite IH, E'. reflexivity.
  Qed.

  Lemma sig_walk_accept t : forall addrs sigs,
    length sigs = length addrs ->
    (sig_walk t addrs sigs = Accept <->
     Forall2 (fun a s => hashable t = true /\ s = SigBy a (hash t)) addrs sigs).
  Proof.
    intros addrs sigs. revert addrs.
    induction sigs as [|s rest IH]; intros [|a ar] Hl; simpl in *; try discriminate.
    - split; [constructor | reflexivity].
    - injection Hl as Hl.
      destruct (check_signature t s a) as [[|]|] eqn:E.
      + rewrite (IH ar Hl). apply check_signature_true in E. split.
        * intros F. constructor; assumption.
        * intros F. inversion F; subst. assumption.
      + split; [discriminate|]. intros F. inversion F as [|? ? ? ? Hv]; subst.
        apply check_signature_true in Hv. congruence.
      + split; [discriminate|]. intros F. inversion F as [|? ? ? ? Hv]; subst.
        apply check_signature_true in Hv. congruence.
  Qed.

  Lemma sig_walk_not_panic t : forall addrs sigs,
    (length sigs <= length addrs)%nat -> sig_walk t addrs sigs <> Panic.
  Proof.
    intros addrs sigs. revert addrs.
    induction sigs as [|s rest IH]; intros [|a ar] Hl; simpl in *; try discriminate; try lia.
    destruct (check_signature t s a) as [[|]|]; try discriminate. apply IH. lia.
  Qed.

  Lemma Forall2_length_eq {A B} (R : A -> B -> Prop) l l' : Forall2 R l l' -> length l = length l'.
  Proof. induction 1; simpl; congruence. Qed.

  (* composing get_subset with the per-position label test gives valid_sig_by *)
  Lemma valid_by_compose kp t signers : forall addrs sigs,
    Forall2 (fun i a => nth_error kp (N.to_nat i) = Some (Some a)) signers addrs ->
    (Forall2 (fun a s => hashable t = true /\ s = SigBy a (hash t)) addrs sigs <->
     Forall2 (valid_sig_by kp t) signers sigs).
  Proof.
    induction signers as [|i r IH]; intros addrs sigs F.
    - inversion F; subst. split; intros G; inversion G; constructor.
    - inversion F as [|? a ? ar Hn Hr]; subst. split; intros G.
      + inversion G as [|? s ? rest [Hh Hs] Hrest]; subst. constructor.
        * exists a. repeat split; assumption.
        * apply (IH ar rest Hr). assumption.
      + inversion G as [|? s ? rest [a' [Hn' [Hh Hs]]] Hrest]; subst.
        assert (a' = a) by congruence. subst a'. constructor.
        * split; [assumption | reflexivity].
        * apply (IH ar rest Hr). assumption.
  Qed.

  Lemma valid_by_gives_subset kp t signers : forall sigs,
    Forall2 (valid_sig_by kp t) signers sigs ->
    exists addrs, Forall2 (fun i a => nth_error kp (N.to_nat i) = Some (Some a)) signers addrs.
  Proof.
    induction signers as [|i r IH]; intros sigs G.
    - exists []. constructor.
    - inversion G as [|? s ? rest [a [Hn _]] Hrest]; subst.
      destruct (IH rest Hrest) as [ar Har]. exists (a :: ar). constructor; assumption.
  Qed.

  (* ----------------------------------------------------------------------------------- *)
  (* the shared part of ValidateDecryptionKeysSignatures, when the two lists have one length *)

  Lemma common_iff fl ks m signers sigs :
    (Z.of_nat (length (ks_keypers ks)) < 2 ^ 31)%Z ->
    length sigs = length signers ->
    (legacy_validate_sigs_common fl ks m signers sigs = Accept <->
     (length (m_ids m) <= 1024)%nat /\ sig_rule fl ks m signers sigs)
    /\ legacy_validate_sigs_common fl ks m signers sigs <> Panic.
  Proof.
    intros Hn Hl. unfold legacy_validate_sigs_common, sig_rule.
    destruct (to_i32 (Z.of_nat (length signers)) =? ks_threshold ks)%Z eqn:Ec; simpl.
    2:{ split; [|discriminate]. split; [discriminate|].
        intros [_ [Hc [Hs [Hf _]]]]. apply Z.eqb_neq in Ec. exfalso. apply Ec.
        rewrite to_i32_small; [assumption|].
        pose proof (increasing_length signers _ Hs Hf). unfold in_keyper_set in *. lia. }
    apply Z.eqb_eq in Ec.
    destruct (validate_signer_indices signers (length (ks_keypers ks))) as [|r|] eqn:Ev.
    3:{ exfalso. eapply validate_signer_indices_not_panic; eassumption. }
    2:{ split; [|discriminate]. split; [discriminate|].
        intros [_ [_ [Hs [Hf _]]]].
        assert (validate_signer_indices signers (length (ks_keypers ks)) = Accept)
          by (apply validate_signer_indices_accept; split; assumption). congruence. }
    apply validate_signer_indices_accept in Ev as [Hs Hf].
    assert (Hcount : Z.of_nat (length signers) = ks_threshold ks).
    { rewrite <- Ec. symmetry. apply to_i32_small.
      pose proof (increasing_length signers _ Hs Hf). unfold in_keyper_set in *. lia. }
    destruct (get_subset (ks_keypers ks) signers) as [addrs| |] eqn:Eg.
    3:{ exfalso. eapply get_subset_not_panic; eassumption. }
    2:{ split; [|discriminate]. split; [discriminate|].
        intros [_ [_ [_ [_ [_ G]]]]]. destruct (valid_by_gives_subset _ _ _ _ G) as [addrs Ha].
        apply get_subset_ok in Ha. congruence. }
    apply get_subset_ok in Eg.
    destruct (1024 <? length (m_ids m))%nat eqn:Ei.
    { apply Nat.ltb_lt in Ei. split; [|discriminate]. split; [discriminate|]. intros [Hi _]. lia. }
    apply Nat.ltb_ge in Ei.
    rewrite sig_loop_walk. simpl skipn.
    assert (Hla : length sigs = length addrs).
    { rewrite Hl. eapply Forall2_length_eq; eassumption. }
    split.
    - rewrite (sig_walk_accept _ _ _ Hla). rewrite (valid_by_compose _ _ _ _ sigs Eg). tauto.
    - apply sig_walk_not_panic. lia.
  Qed.

  (* ----------------------------------------------------------------------------------- *)
  (* the access node and the keyper chain apply the same function *)

  Lemma an_validate_accept st m signers sigs :
    an_validate H H_eqb hash st m signers sigs = Accept <->
    an_validate_common st m = Accept /\ validate_basic m = Accept /\
    exists ks, lookup_ks (an_keypersets st) (m_eon m) = Some ks /\
               validate_sigs Gnosis ks m signers sigs = Accept.
  Proof.
    unfold an_validate, an_validate_gnosis.
    destruct (an_validate_common st m) eqn:Ec; try (split; [discriminate | intros [? _]; discriminate]).
    destruct (validate_basic m) eqn:Eb;
      try (split; [discriminate | intros [_ [? _]]; discriminate]).
    destruct (lookup_ks (an_keypersets st) (m_eon m)) as [ks|].
    - split.
      + intros E. repeat split. exists ks. split; [reflexivity | assumption].
      + intros [_ [_ [ks' [E1 E2]]]]. injection E1 as <-. assumption.
    - split; [discriminate|]. intros [_ [_ [ks' [E1 _]]]]. discriminate.
  Qed.

  Lemma keyper_validate_accept lookup m signers sigs :
    keyper_validate_gnosis H H_eqb hash lookup m signers sigs = Accept <->
    validate_basic m = Accept /\
    exists ks, lookup = Some ks /\ validate_sigs Gnosis ks m signers sigs = Accept.
  Proof.
    unfold keyper_validate_gnosis.
    destruct (validate_basic m) eqn:Eb; try (split; [discriminate | intros [? _]; discriminate]).
    destruct lookup as [ks|].
    - split.
      + intros E. split; [reflexivity|]. exists ks. split; [reflexivity | assumption].
      + intros [_ [ks' [E1 E2]]]. injection E1 as <-. assumption.
    - split; [discriminate|]. intros [_ [ks' [E1 _]]]. discriminate.
  Qed.

  Lemma an_keys_loop_not_panic l : forall prev, an_keys_loop prev l <> Panic.
  Proof.
    induction l as [|[id lab] r IH]; intros prev; simpl; [discriminate|].
    destruct lab; try discriminate.
    destruct prev as [p|]; [destruct (bytes_ltb id p); [discriminate|]|]; apply IH.
  Qed.

  Lemma an_validate_common_not_panic st m : an_validate_common st m <> Panic.
  Proof.
    unfold an_validate_common.
    destruct (negb (m_inst m =? an_instance st)%N); [discriminate|].
    destruct (max_int64 <? m_eon m)%N; [discriminate|].
    destruct (length (m_keys m) =? 0)%nat; [discriminate|].
    destruct (int_of_u64 (an_maxkeys st) <? Z.of_nat (length (m_keys m)))%Z; [discriminate|].
    destruct (negb (existsb (N.eqb (m_eon m)) (an_eonkeys st))); [discriminate|].
    apply an_keys_loop_not_panic.
  Qed.

  Lemma validate_basic_not_panic m : validate_basic m <> Panic.
  Proof.
    unfold validate_basic. destruct (m_extra m); try discriminate.
    destruct (max_int64 <? m_slot m)%N; [discriminate|].
    destruct (max_int32 <? m_txp m)%N; [discriminate|].
    destruct (m_keys m); discriminate.
  Qed.
End Proofs.

(* ------------------------------------------------------------------------------------- *)
(* Binding: the signatures of an accepted message fit no other signed data and no other
   signature list. Needs the hash-tree-root to be injective on the tuples it is defined on. *)
Section Binding.
  Variable H : Type.
  Variable H_eqb : H -> H -> bool.
  Variable hash : tuple -> H.
  Hypothesis H_eqb_spec : forall a b, H_eqb a b = true <-> a = b.
  Hypothesis hash_inj : forall t t',
    hashable t = true -> hashable t' = true -> hash t = hash t' -> t = t'.

  Notation legacy_validate_sigs_common := (legacy_validate_sigs_common H H_eqb hash).
  Notation valid_sig_by := (valid_sig_by H hash).

  Lemma common_verdict fl ks m signers sigs :
    (Z.of_nat (length (ks_keypers ks)) < 2 ^ 31)%Z -> length sigs = length signers ->
    legacy_validate_sigs_common fl ks m signers sigs = Accept \/
    exists r, legacy_validate_sigs_common fl ks m signers sigs = Reject r.
  Proof.
    intros Hn Hl. destruct (common_iff H H_eqb hash H_eqb_spec fl ks m signers sigs Hn Hl) as [_ Hp].
    destruct (legacy_validate_sigs_common fl ks m signers sigs) as [|r|]; [left; reflexivity | right; eauto | contradiction].
  Qed.

  Lemma signed_tuple_differs fl m m' :
    differs_in_signed_field fl m m' -> signed_tuple fl m' <> signed_tuple fl m.
  Proof.
    intros D E. destruct fl; simpl in E; injection E; intros;
      destruct D as [D|[D|[D|[D1 [D|D]]]]]; try contradiction; try discriminate.
  Qed.

  Lemma common_tuple_binding fl ks m m' signers sigs :
    (Z.of_nat (length (ks_keypers ks)) < 2 ^ 31)%Z -> length sigs = length signers ->
    signers <> [] ->
    legacy_validate_sigs_common fl ks m signers sigs = Accept ->
    signed_tuple fl m' <> signed_tuple fl m ->
    exists r, legacy_validate_sigs_common fl ks m' signers sigs = Reject r.
  Proof.
    intros Hn Hl Hne Ha Hd.
    destruct (common_verdict fl ks m' signers sigs Hn Hl) as [Ha'|Hr]; [|exact Hr].
    exfalso.
    apply (common_iff H H_eqb hash H_eqb_spec fl ks m signers sigs Hn Hl) in Ha.
    apply (common_iff H H_eqb hash H_eqb_spec fl ks m' signers sigs Hn Hl) in Ha'.
    destruct Ha as [_ [_ [_ [_ [_ F]]]]]. destruct Ha' as [_ [_ [_ [_ [_ F']]]]].
    destruct signers as [|i r]; [congruence|].
    inversion F as [|? s ? rest [a [_ [Hh Hs]]] _]; subst.
    inversion F' as [|? s' ? rest' [a' [_ [Hh' Hs']]] _]; subst.
    injection Hs' as _ Hhash. apply Hd. symmetry. apply hash_inj; assumption.
  Qed.

  Lemma valid_sig_by_functional kp t i s s' :
    valid_sig_by kp t i s -> valid_sig_by kp t i s' -> s = s'.
  Proof. intros [a [Hn [_ ->]]] [a' [Hn' [_ ->]]]. congruence. Qed.

  Lemma Forall2_functional {A B} (R : A -> B -> Prop) :
    (forall a b b', R a b -> R a b' -> b = b') ->
    forall l x y, Forall2 R l x -> Forall2 R l y -> x = y.
  Proof.
    intros HR l. induction l as [|a l IH]; intros x y Fx Fy; inversion Fx; inversion Fy; subst.
    - reflexivity.
    - f_equal; [eapply HR; eassumption | apply IH; assumption].
  Qed.

  Lemma common_sig_unique fl ks m signers sigs sigs' :
    (Z.of_nat (length (ks_keypers ks)) < 2 ^ 31)%Z ->
    length sigs = length signers -> length sigs' = length signers ->
    legacy_validate_sigs_common fl ks m signers sigs = Accept ->
    legacy_validate_sigs_common fl ks m signers sigs' = Accept ->
    sigs = sigs'.
  Proof.
    intros Hn Hl Hl' Ha Ha'.
    apply (common_iff H H_eqb hash H_eqb_spec fl ks m signers sigs Hn Hl) in Ha.
    apply (common_iff H H_eqb hash H_eqb_spec fl ks m signers sigs' Hn Hl') in Ha'.
    destruct Ha as [_ [_ [_ [_ [_ F]]]]]. destruct Ha' as [_ [_ [_ [_ [_ F']]]]].
    eapply Forall2_functional; [|exact F|exact F'].
    intros a b b'. apply valid_sig_by_functional.
  Qed.
End Binding.

(* ------------------------------------------------------------------------------------- *)
(* The validators as they were on the pinned tree (legacy_ copies in the model): the rule holds
   among messages whose two lists have the same length; outside that class it fails (see the
   refutations below). *)
Section Legacy.
  Variable H : Type.
  Variable H_eqb : H -> H -> bool.
  Variable hash : tuple -> H.
  Hypothesis H_eqb_spec : forall a b, H_eqb a b = true <-> a = b.

  Notation legacy_validate_sigs := (legacy_validate_sigs H H_eqb hash).
  Notation sig_rule := (sig_rule H hash).

  Theorem legacy_gnosis_iff_equal_lengths ks m signers sigs :
    (Z.of_nat (length (ks_keypers ks)) < 2 ^ 31)%Z ->
    length sigs = length signers ->
    (legacy_validate_sigs Gnosis ks m signers sigs = Accept <->
     (length (m_ids m) <= 1024)%nat /\ sig_rule Gnosis ks m signers sigs)
    /\ legacy_validate_sigs Gnosis ks m signers sigs <> Panic.
  Proof. intros Hn Hl. exact (common_iff H H_eqb hash H_eqb_spec Gnosis ks m signers sigs Hn Hl). Qed.

  Theorem legacy_service_iff_equal_lengths ks m signers sigs :
    (Z.of_nat (length (ks_keypers ks)) < 2 ^ 31)%Z ->
    length sigs = length signers ->
    (legacy_validate_sigs Service ks m signers sigs = Accept <->
     (signers = [] /\ sigs = []) \/
     ((length (m_ids m) <= 1024)%nat /\ sig_rule Service ks m signers sigs))
    /\ legacy_validate_sigs Service ks m signers sigs <> Panic.
  Proof.
    intros Hn Hl. unfold KeysSig.legacy_validate_sigs.
    destruct signers as [|i r]; destruct sigs as [|s rest]; try discriminate.
    - simpl. split; [|discriminate]. split; [intros _; left; split; reflexivity | reflexivity].
    - change ((length (i :: r) =? 0)%nat || (length (s :: rest) =? 0)%nat)%bool with false.
      cbv iota.
      destruct (common_iff H H_eqb hash H_eqb_spec Service ks m (i :: r) (s :: rest) Hn Hl) as [Hi Hp].
      split; [|exact Hp]. rewrite Hi. split; [intros G; right; exact G|].
      intros [[E _]|G]; [discriminate | exact G].
  Qed.

  Theorem legacy_accept_binds_tuple_equal_lengths fl ks m m' signers sigs :
    (forall t t', hashable t = true -> hashable t' = true -> hash t = hash t' -> t = t') ->
    (Z.of_nat (length (ks_keypers ks)) < 2 ^ 31)%Z ->
    length sigs = length signers -> signers <> [] ->
    legacy_validate_sigs fl ks m signers sigs = Accept ->
    differs_in_signed_field fl m m' ->
    exists r, legacy_validate_sigs fl ks m' signers sigs = Reject r.
  Proof.
    intros Hinj Hn Hl Hne Ha Hd. apply signed_tuple_differs in Hd.
    destruct signers as [|i r]; [congruence|]. destruct sigs as [|s rest]; [discriminate|].
    destruct fl; unfold KeysSig.legacy_validate_sigs in *;
      [| change ((length (i :: r) =? 0)%nat || (length (s :: rest) =? 0)%nat)%bool with false in *;
         cbv iota in * ];
      eapply (common_tuple_binding H H_eqb hash H_eqb_spec Hinj); eassumption.
  Qed.
End Legacy.

(* Refutations of the legacy functions on the executable instance (the one the correspondence
   stream ran against the real validators before the repairs): keyper set {1, 4} with threshold 2, message (42, 7, 1000, 3, two ids). *)
Definition wit_ks : keyperset := Build_keyperset [Some 1%N; Some 4%N] 2.
Definition wit_ids (w : nat) : list bytes := [1%N :: repeat 0%N (w - 1); 2%N :: repeat 0%N (w - 1)].
Definition wit_msg (fl : flavour) : keysmsg :=
  match fl with
  | Gnosis => Build_keysmsg 42 7 ExGnosis 1000 3 (map (fun b => (b, KeyOk)) (wit_ids 52))
  | Service => Build_keysmsg 42 7 ExService 0 0 (map (fun b => (b, KeyOk)) (wit_ids 32))
  end.
Definition wit_good (fl : flavour) (a : N) : csig := SigBy a (signed_tuple fl (wit_msg fl)).

(* two listed signers, no signature at all: accepted *)
Lemma fewer_signatures_accepted fl :
  c_legacy_validate_sigs fl wit_ks (wit_msg fl) [0%N; 1%N] [] = Accept.
Proof. destruct fl; vm_compute; reflexivity. Qed.

(* two listed signers, one genuine signature, the second missing: accepted *)
Lemma one_of_two_signatures_accepted fl :
  c_legacy_validate_sigs fl wit_ks (wit_msg fl) [0%N; 1%N] [wit_good fl 1%N] = Accept.
Proof. destruct fl; vm_compute; reflexivity. Qed.

(* two genuine signatures followed by a third entry: index out of range *)
Lemma more_signatures_panic fl :
  c_legacy_validate_sigs fl wit_ks (wit_msg fl) [0%N; 1%N]
                  [wit_good fl 1%N; wit_good fl 4%N; SigMalformed] = Panic.
Proof. destruct fl; vm_compute; reflexivity. Qed.

(* service flavour: signatures without signers, and a signer list that fits no rule
   (wrong count, repeated, out of range) without signatures *)
Lemma service_signatures_without_signers_accepted :
  c_legacy_validate_sigs Service wit_ks (wit_msg Service) [] [SigMalformed] = Accept.
Proof. vm_compute; reflexivity. Qed.
Lemma service_signers_without_signatures_accepted :
  c_legacy_validate_sigs Service wit_ks (wit_msg Service) [7%N; 7%N; 7%N] [] = Accept.
Proof. vm_compute; reflexivity. Qed.

(* The executable instance meets the premises of the theorems. *)
Lemma bytes_list_eqb_spec a : forall b, bytes_list_eqb a b = true <-> a = b.
Proof.
  induction a as [|x a IH]; intros [|y b]; simpl; split; intros E; try reflexivity; try discriminate.
  - apply andb_true_iff in E as [E1 E2]. apply bytes_eqb_eq in E1. apply IH in E2. congruence.
  - injection E as -> ->. rewrite bytes_eqb_refl. simpl. apply IH. reflexivity.
Qed.

Lemma tuple_eqb_spec a b : tuple_eqb a b = true <-> a = b.
Proof.
  destruct a, b; simpl; split; intros E; try discriminate.
  - repeat (apply andb_true_iff in E as [E ?]).
    apply N.eqb_eq in E. repeat match goal with X : (_ =? _)%N = true |- _ => apply N.eqb_eq in X end.
    match goal with X : bytes_list_eqb _ _ = true |- _ => apply bytes_list_eqb_spec in X end.
    congruence.
  - injection E as -> -> -> -> ->. rewrite !N.eqb_refl. simpl. apply bytes_list_eqb_spec. reflexivity.
  - repeat (apply andb_true_iff in E as [E ?]).
    apply N.eqb_eq in E. repeat match goal with X : (_ =? _)%N = true |- _ => apply N.eqb_eq in X end.
    match goal with X : bytes_list_eqb _ _ = true |- _ => apply bytes_list_eqb_spec in X end.
    congruence.
  - injection E as -> -> ->. rewrite !N.eqb_refl. simpl. apply bytes_list_eqb_spec. reflexivity.
Qed.

(* ------------------------------------------------------------------------------------- *)
(* The repaired validators ([validate_sigs]): the full rule, for all inputs. *)
Section Repaired.
  Variable H : Type.
  Variable H_eqb : H -> H -> bool.
  Variable hash : tuple -> H.
  Hypothesis H_eqb_spec : forall a b, H_eqb a b = true <-> a = b.

  Notation validate_sigs_common := (validate_sigs_common H H_eqb hash).
  Notation validate_sigs := (validate_sigs H H_eqb hash).
  Notation legacy_common := (legacy_validate_sigs_common H H_eqb hash).
  Notation sig_rule := (sig_rule H hash).

  Lemma common_eq_legacy fl ks m signers sigs :
    length sigs = length signers ->
    validate_sigs_common fl ks m signers sigs = legacy_common fl ks m signers sigs.
  Proof.
    intros Hl. unfold KeysSig.validate_sigs_common, legacy_validate_sigs_common.
    rewrite Hl, Nat.eqb_refl. reflexivity.
  Qed.

  Lemma common_len_mismatch fl ks m signers sigs :
    length sigs <> length signers ->
    exists r, validate_sigs_common fl ks m signers sigs = Reject r.
  Proof.
    intros Hl. unfold KeysSig.validate_sigs_common.
    destruct (negb (to_i32 (Z.of_nat (length signers)) =? ks_threshold ks)%Z); [eauto|].
    apply Nat.eqb_neq in Hl. rewrite Hl. simpl. eauto.
  Qed.

  Theorem common_full_iff fl ks m signers sigs :
    (Z.of_nat (length (ks_keypers ks)) < 2 ^ 31)%Z ->
    (validate_sigs_common fl ks m signers sigs = Accept <->
     (length (m_ids m) <= 1024)%nat /\ sig_rule fl ks m signers sigs)
    /\ validate_sigs_common fl ks m signers sigs <> Panic.
  Proof.
    intros Hn. destruct (Nat.eq_dec (length sigs) (length signers)) as [Hl|Hl].
    - rewrite (common_eq_legacy _ _ _ _ _ Hl). apply common_iff; assumption.
    - destruct (common_len_mismatch fl ks m signers sigs Hl) as [r Hr]. rewrite Hr.
      split; [|discriminate]. split; [discriminate|].
      intros [_ [_ [_ [_ [Hl' _]]]]]. contradiction.
  Qed.

  Theorem gnosis_iff ks m signers sigs :
    (Z.of_nat (length (ks_keypers ks)) < 2 ^ 31)%Z ->
    (validate_sigs Gnosis ks m signers sigs = Accept <->
     (length (m_ids m) <= 1024)%nat /\ sig_rule Gnosis ks m signers sigs)
    /\ validate_sigs Gnosis ks m signers sigs <> Panic.
  Proof. intros Hn. exact (common_full_iff Gnosis ks m signers sigs Hn). Qed.

  Theorem service_iff ks m signers sigs :
    (Z.of_nat (length (ks_keypers ks)) < 2 ^ 31)%Z ->
    (validate_sigs Service ks m signers sigs = Accept <->
     (signers = [] /\ sigs = []) \/
     ((length (m_ids m) <= 1024)%nat /\ sig_rule Service ks m signers sigs))
    /\ validate_sigs Service ks m signers sigs <> Panic.
  Proof.
    intros Hn. unfold KeysSig.validate_sigs.
    destruct (common_full_iff Service ks m signers sigs Hn) as [Hi Hp].
    destruct signers as [|i r]; [destruct sigs as [|s rest]|].
    - simpl. split; [|discriminate]. split; [intros _; left; split; reflexivity | reflexivity].
    - change ((length (@nil N) =? 0)%nat && (length (s :: rest) =? 0)%nat)%bool with false.
      cbv iota. split; [|exact Hp]. rewrite Hi. split; [intros G; right; exact G|].
      intros [[_ E]|G]; [discriminate | exact G].
    - change ((length (i :: r) =? 0)%nat && (length sigs =? 0)%nat)%bool with false.
      cbv iota. split; [|exact Hp]. rewrite Hi. split; [intros G; right; exact G|].
      intros [[E _]|G]; [discriminate | exact G].
  Qed.

  Lemma verdict_cases fl ks m signers sigs :
    (Z.of_nat (length (ks_keypers ks)) < 2 ^ 31)%Z ->
    validate_sigs fl ks m signers sigs = Accept \/
    exists r, validate_sigs fl ks m signers sigs = Reject r.
  Proof.
    intros Hn.
    assert (Hp : validate_sigs fl ks m signers sigs <> Panic)
      by (destruct fl; [apply gnosis_iff | apply service_iff]; assumption).
    destruct (validate_sigs fl ks m signers sigs) as [|r|]; [left; reflexivity | right; eauto | contradiction].
  Qed.

  (* what Accept means, in both flavours *)
  Lemma accept_cases fl ks m signers sigs :
    (Z.of_nat (length (ks_keypers ks)) < 2 ^ 31)%Z ->
    validate_sigs fl ks m signers sigs = Accept ->
    (fl = Service /\ signers = [] /\ sigs = []) \/ sig_rule fl ks m signers sigs.
  Proof.
    intros Hn Ha. destruct fl.
    - apply (gnosis_iff ks m signers sigs Hn) in Ha. right. apply Ha.
    - apply (service_iff ks m signers sigs Hn) in Ha. destruct Ha as [[E1 E2]|[_ G]]; [left; auto | right; exact G].
  Qed.

  Lemma rule_sig_unique fl ks m signers sigs sigs' :
    sig_rule fl ks m signers sigs -> sig_rule fl ks m signers sigs' -> sigs = sigs'.
  Proof.
    intros [_ [_ [_ [_ F]]]] [_ [_ [_ [_ F']]]].
    eapply Forall2_functional; [|exact F|exact F'].
    intros a b b'. apply valid_sig_by_functional.
  Qed.

  Lemma rule_nil_sigs fl ks m sigs : sig_rule fl ks m [] sigs -> sigs = [].
  Proof. intros [_ [_ [_ [Hl _]]]]. destruct sigs; [reflexivity | discriminate]. Qed.

  (* any change of the signature list of an accepted message is rejected *)
  Theorem accept_binds_signatures fl ks m signers sigs sigs' :
    (Z.of_nat (length (ks_keypers ks)) < 2 ^ 31)%Z ->
    validate_sigs fl ks m signers sigs = Accept -> sigs' <> sigs ->
    exists r, validate_sigs fl ks m signers sigs' = Reject r.
  Proof.
    intros Hn Ha Hd. destruct (verdict_cases fl ks m signers sigs' Hn) as [Ha'|Hr]; [|exact Hr].
    exfalso. apply Hd.
    destruct (accept_cases _ _ _ _ _ Hn Ha) as [[_ [E1 E2]]|G];
      destruct (accept_cases _ _ _ _ _ Hn Ha') as [[_ [E1' E2']]|G'].
    - congruence.
    - subst. apply (rule_nil_sigs _ _ _ _ G').
    - subst. symmetry. apply (rule_nil_sigs _ _ _ _ G).
    - symmetry. eapply rule_sig_unique; eassumption.
  Qed.

  (* any change of a signed field of an accepted message with at least one signer is rejected *)
  Theorem accept_binds_tuple fl ks m m' signers sigs :
    (forall t t', hashable t = true -> hashable t' = true -> hash t = hash t' -> t = t') ->
    (Z.of_nat (length (ks_keypers ks)) < 2 ^ 31)%Z ->
    signers <> [] ->
    validate_sigs fl ks m signers sigs = Accept ->
    differs_in_signed_field fl m m' ->
    exists r, validate_sigs fl ks m' signers sigs = Reject r.
  Proof.
    intros Hinj Hn Hne Ha Hd.
    assert (Hl : length sigs = length signers).
    { destruct (accept_cases _ _ _ _ _ Hn Ha) as [[_ [E _]]|[_ [_ [_ [Hl _]]]]]; [contradiction | exact Hl]. }
    apply signed_tuple_differs in Hd.
    assert (Hc : forall x, validate_sigs fl ks x signers sigs = legacy_common fl ks x signers sigs).
    { intros x. destruct signers as [|i r]; [congruence|]. destruct sigs as [|s rest]; [discriminate|].
      destruct fl; unfold KeysSig.validate_sigs;
        [| change ((length (i :: r) =? 0)%nat && (length (s :: rest) =? 0)%nat)%bool with false; cbv iota ];
        apply common_eq_legacy; assumption. }
    rewrite Hc in *.
    eapply (common_tuple_binding H H_eqb hash H_eqb_spec Hinj); eassumption.
  Qed.
End Repaired.

(* the repaired validators on the inputs that refute the legacy ones *)
Lemma repaired_rejects_witnesses fl :
  c_validate_sigs fl wit_ks (wit_msg fl) [0%N; 1%N] [] = Reject RSigCount /\
  c_validate_sigs fl wit_ks (wit_msg fl) [0%N; 1%N] [wit_good fl 1%N] = Reject RSigCount /\
  c_validate_sigs fl wit_ks (wit_msg fl) [0%N; 1%N]
                  [wit_good fl 1%N; wit_good fl 4%N; SigMalformed] = Reject RSigCount /\
  c_validate_sigs Service wit_ks (wit_msg Service) [] [SigMalformed] = Reject RSignerCount /\
  c_validate_sigs Service wit_ks (wit_msg Service) [7%N; 7%N; 7%N] [] = Reject RSignerCount.
Proof. destruct fl; vm_compute; repeat split; reflexivity. Qed.

(* ------------------------------------------------------------------------------------- *)
(* Access node and keyper chain: accepted only under the rule, and no panic of their own. *)
Section Chains.
  Variable H : Type.
  Variable H_eqb : H -> H -> bool.
  Variable hash : tuple -> H.
  Hypothesis H_eqb_spec : forall a b, H_eqb a b = true <-> a = b.

  Notation validate_sigs := (validate_sigs H H_eqb hash).
  Notation sig_rule := (sig_rule H hash).

  Theorem an_accept_only_if st m signers sigs :
    (forall ks, lookup_ks (an_keypersets st) (m_eon m) = Some ks ->
                (Z.of_nat (length (ks_keypers ks)) < 2 ^ 31)%Z) ->
    (an_validate H H_eqb hash st m signers sigs = Accept ->
     exists ks, lookup_ks (an_keypersets st) (m_eon m) = Some ks /\
                sig_rule Gnosis ks m signers sigs)
    /\ an_validate H H_eqb hash st m signers sigs <> Panic.
  Proof.
    intros Hn. split.
    - intros Ha. apply an_validate_accept in Ha. destruct Ha as [_ [_ [ks [El Ev]]]].
      exists ks. split; [exact El|]. apply (gnosis_iff H H_eqb hash H_eqb_spec ks m signers sigs (Hn ks El)) in Ev. apply Ev.
    - unfold an_validate, an_validate_gnosis.
      pose proof (an_validate_common_not_panic st m) as Pc.
      destruct (an_validate_common st m); try discriminate; try contradiction.
      pose proof (validate_basic_not_panic m) as Pb.
      destruct (validate_basic m); try discriminate; try contradiction.
      destruct (lookup_ks (an_keypersets st) (m_eon m)) as [ks|] eqn:El; [|discriminate].
      apply (gnosis_iff H H_eqb hash H_eqb_spec ks m signers sigs (Hn ks eq_refl)).
  Qed.

  Theorem keyper_accept_only_if lookup m signers sigs :
    (forall ks, lookup = Some ks -> (Z.of_nat (length (ks_keypers ks)) < 2 ^ 31)%Z) ->
    (keyper_validate_gnosis H H_eqb hash lookup m signers sigs = Accept ->
     exists ks, lookup = Some ks /\ sig_rule Gnosis ks m signers sigs)
    /\ keyper_validate_gnosis H H_eqb hash lookup m signers sigs <> Panic.
  Proof.
    intros Hn. split.
    - intros Ha. apply keyper_validate_accept in Ha. destruct Ha as [_ [ks [El Ev]]].
      exists ks. split; [exact El|]. apply (gnosis_iff H H_eqb hash H_eqb_spec ks m signers sigs (Hn ks El)) in Ev. apply Ev.
    - unfold keyper_validate_gnosis.
      pose proof (validate_basic_not_panic m) as Pb.
      destruct (validate_basic m); try discriminate; try contradiction.
      destruct lookup as [ks|]; [|discriminate].
      apply (gnosis_iff H H_eqb hash H_eqb_spec ks m signers sigs (Hn ks eq_refl)).
  Qed.
End Chains.
