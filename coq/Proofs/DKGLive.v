(* Liveness of an honest DKG run over block sequences (C07_honest_run_succeeds) and the
   chain-level side of "no false conviction".

   Part 1 (this section): what every operation of the block transaction does to the instance of
   one eon, in terms that are monotone along the run: the commitments and evaluations it holds
   are never lost or replaced ([keeps]); a commitment / evaluation that arrives in the dealing
   phase for an empty slot fills it; accusations and apologies only change through accusation /
   apology events of that eon. *)
From Coq Require Import List NArith ZArith Bool Lia.
From Verif Require Import Lib.Bytes Model.DKGPure Model.DKGDriver Proofs.DKGPure Proofs.DKGChain.
Import ListNotations.
Open Scope Z_scope.

Section SetNth.
  Context {A : Type}.
  Lemma set_nth_same (l : list A) i x l' : set_nth l i x = Some l' -> nth_error l' i = Some x.
  Proof.
    revert i l'. induction l as [|y r IH]; intros [|i] l'; simpl; try discriminate.
    - intros [= <-]. reflexivity.
    - destruct (set_nth r i x) as [r'|] eqn:Q; [|discriminate]. intros [= <-]. simpl. eapply IH. exact Q.
  Qed.

  Lemma set_nth_other (l : list A) i x l' j : set_nth l i x = Some l' -> j <> i -> nth_error l' j = nth_error l j.
  Proof.
    revert i l' j. induction l as [|y r IH]; intros [|i] l' j; simpl; try discriminate.
    - intros [= <-] Hj. destruct j; [contradiction|reflexivity].
    - destruct (set_nth r i x) as [r'|] eqn:Q; [|discriminate]. intros [= <-] Hj.
      destruct j; [reflexivity|]. simpl. eapply IH; [exact Q|lia].
  Qed.

  Lemma set_nth_length (l : list A) i x l' : set_nth l i x = Some l' -> length l' = length l.
  Proof.
    revert i l'. induction l as [|y r IH]; intros [|i] l'; simpl; try discriminate.
    - intros [= <-]. reflexivity.
    - destruct (set_nth r i x) as [r'|] eqn:Q; [|discriminate]. intros [= <-]. simpl. f_equal. eapply IH. exact Q.
  Qed.
End SetNth.

Section LivePure.
Variables C E P : Type.
Variable commit_of : P -> C.
Variable eval_of : P -> nat -> E.
Variable verify : nat -> E -> C -> bool.
Variable deg_ok : N -> C -> bool.
Variable valid_eval : E -> bool.

Notation pure := (@DKGPure.pure C E P).

Definition slots_mono {A} (l l' : list (option A)) : Prop :=
  forall j x, nth_opt l j = Some x -> nth_opt l' j = Some x.

Lemma slots_mono_refl {A} (l : list (option A)) : slots_mono l l.
Proof. intros j x H. exact H. Qed.

Lemma slots_mono_trans {A} (a b c : list (option A)) : slots_mono a b -> slots_mono b c -> slots_mono a c.
Proof. intros H1 H2 j x H. apply H2, H1, H. Qed.

Lemma slots_mono_set {A} (l l' : list (option A)) i x :
  nth_error l i = Some None -> set_nth l i (Some x) = Some l' -> slots_mono l l' /\ nth_opt l' i = Some x.
Proof.
  intros Hn Hs. split.
  - intros j y Hj. unfold nth_opt in *. destruct (Nat.eq_dec j i) as [->|Hne].
    + rewrite Hn in Hj. discriminate.
    + rewrite (set_nth_other _ _ _ _ _ Hs Hne). exact Hj.
  - unfold nth_opt. rewrite (set_nth_same _ _ _ _ Hs). reflexivity.
Qed.

(* what is kept of an instance *)
Record keepsP (p p' : pure) : Prop := {
  kp_me : p_me p' = p_me p; kp_n : p_n p' = p_n p; kp_t : p_t p' = p_t p; kp_eon : p_eon p' = p_eon p;
  kp_commits : slots_mono (p_commits p) (p_commits p');
  kp_evals : slots_mono (p_evals p) (p_evals p');
  kp_phase : phase_leb (p_phase p) (p_phase p') = true
}.

Lemma keepsP_refl p : keepsP p p.
Proof. constructor; try reflexivity; try apply slots_mono_refl. unfold phase_leb. apply Nat.leb_refl. Qed.

Lemma phase_leb_trans a b c : phase_leb a b = true -> phase_leb b c = true -> phase_leb a c = true.
Proof. unfold phase_leb. rewrite !Nat.leb_le. lia. Qed.

Lemma keepsP_trans a b c : keepsP a b -> keepsP b c -> keepsP a c.
Proof.
  intros [A1 A2 A3 A4 A5 A6 A7] [B1 B2 B3 B4 B5 B6 B7].
  constructor; try congruence; try (eapply slots_mono_trans; eassumption). eapply phase_leb_trans; eassumption.
Qed.

Lemma keepsP_set_phase p ph : phase_leb (p_phase p) ph = true -> keepsP p (set_phase p ph).
Proof. intros H. constructor; try reflexivity; try apply slots_mono_refl. exact H. Qed.

(* ---- the Handle*Msg calls ---- *)
Lemma handle_commit_keeps (p : pure) eon s c p' :
  handle_commit C E P deg_ok p eon s c = HOk p' ->
  keepsP p p' /\ p_phase p' = p_phase p /\ p_accs p' = p_accs p /\ p_apos p' = p_apos p /\ p_evals p' = p_evals p /\
  nth_opt (p_commits p') s = Some c.
Proof.
  unfold handle_commit. destruct (negb _); [discriminate|].
  destruct (nth_error (p_commits p) s) as [[c0|]|] eqn:Hn; try discriminate.
  destruct (negb _); [discriminate|]. destruct (set_nth _ _ _) as [l|] eqn:Hs; [|discriminate].
  intros [= <-]. destruct (slots_mono_set _ _ _ _ Hn Hs) as [Hm Hx].
  split; [|repeat split; try reflexivity; exact Hx].
  constructor; simpl; try reflexivity; [exact Hm|apply slots_mono_refl|unfold phase_leb; apply Nat.leb_refl].
Qed.

Lemma handle_commit_other (p : pure) eon s c p' j :
  handle_commit C E P deg_ok p eon s c = HOk p' -> j <> s -> nth_opt (p_commits p') j = nth_opt (p_commits p) j.
Proof.
  unfold handle_commit. destruct (negb _); [discriminate|].
  destruct (nth_error (p_commits p) s) as [[c0|]|] eqn:Hn; try discriminate.
  destruct (negb _); [discriminate|]. destruct (set_nth _ _ _) as [l|] eqn:Hs; [|discriminate].
  intros [= <-] Hne. unfold nth_opt. simpl. rewrite (set_nth_other _ _ _ _ _ Hs Hne). reflexivity.
Qed.

Lemma handle_eval_other (p : pure) eon s r v p' j :
  handle_eval C E P valid_eval p eon s r v = HOk p' -> j <> s -> nth_opt (p_evals p') j = nth_opt (p_evals p) j.
Proof.
  unfold handle_eval. destruct (negb _); [discriminate|]. destruct (negb _); [discriminate|].
  destruct (nth_error (p_evals p) s) as [[v0|]|] eqn:Hn; try discriminate.
  destruct (negb _); [discriminate|]. destruct (set_nth _ _ _) as [l|] eqn:Hs; [|discriminate].
  intros [= <-] Hne. unfold nth_opt. simpl. rewrite (set_nth_other _ _ _ _ _ Hs Hne). reflexivity.
Qed.

Lemma handle_commit_lands (p : pure) eon s c :
  p_eon p = eon -> phase_leb (p_phase p) Dealing = true -> nth_error (p_commits p) s = Some None ->
  deg_ok (p_t p) c = true -> exists p', handle_commit C E P deg_ok p eon s c = HOk p'.
Proof.
  intros He Hp Hn Hd. unfold handle_commit, check_eon_phase. rewrite He, N.eqb_refl, Hp, Hn, Hd. simpl.
  destruct (set_nth (p_commits p) s (Some c)) as [l|] eqn:Hs; [eauto|].
  exfalso. clear - Hn Hs. revert s Hn Hs. induction (p_commits p) as [|y r IH]; intros [|s]; simpl; try discriminate.
  destruct (set_nth r s (Some c)) eqn:Q; [discriminate|]. intros Hn _. eapply IH; eassumption.
Qed.

Lemma handle_eval_keeps (p : pure) eon s r v p' :
  handle_eval C E P valid_eval p eon s r v = HOk p' ->
  keepsP p p' /\ p_phase p' = p_phase p /\ p_accs p' = p_accs p /\ p_apos p' = p_apos p /\ p_commits p' = p_commits p /\
  nth_opt (p_evals p') s = Some v.
Proof.
  unfold handle_eval. destruct (negb _); [discriminate|]. destruct (negb _); [discriminate|].
  destruct (nth_error (p_evals p) s) as [[v0|]|] eqn:Hn; try discriminate.
  destruct (negb _); [discriminate|]. destruct (set_nth _ _ _) as [l|] eqn:Hs; [|discriminate].
  intros [= <-]. destruct (slots_mono_set _ _ _ _ Hn Hs) as [Hm Hx].
  split; [|repeat split; try reflexivity; exact Hx].
  constructor; simpl; try reflexivity; [apply slots_mono_refl|exact Hm|unfold phase_leb; apply Nat.leb_refl].
Qed.

Lemma handle_eval_lands (p : pure) eon s v :
  p_eon p = eon -> phase_leb (p_phase p) Dealing = true -> nth_error (p_evals p) s = Some None ->
  valid_eval v = true -> exists p', handle_eval C E P valid_eval p eon s (p_me p) v = HOk p'.
Proof.
  intros He Hp Hn Hd. unfold handle_eval, check_eon_phase. rewrite He, N.eqb_refl, Hp, Nat.eqb_refl, Hn, Hd. simpl.
  destruct (set_nth (p_evals p) s (Some v)) as [l|] eqn:Hs; [eauto|].
  exfalso. clear - Hn Hs. revert s Hn Hs. induction (p_evals p) as [|y r IH]; intros [|s]; simpl; try discriminate.
  destruct (set_nth r s (Some v)) eqn:Q; [discriminate|]. intros Hn _. eapply IH; eassumption.
Qed.

Lemma accuse_all_keeps (p : pure) keypers eon si accused :
  let p' := accuse_all C E P p keypers eon si accused in
  keepsP p p' /\ p_phase p' = p_phase p /\ p_apos p' = p_apos p /\ p_commits p' = p_commits p /\ p_evals p' = p_evals p.
Proof.
  revert p. induction accused as [|a r IH]; simpl; intros p.
  - split; [apply keepsP_refl|repeat split].
  - destruct (find_index keypers a 0) as [ai|]; [|apply IH].
    unfold handle_accusation. destruct (negb _); [apply IH|]. destruct (mem_pair _ _); [apply IH|].
    destruct (IH (set_accs p (p_accs p ++ [(si, ai)]))) as [K [A [B [Cc D]]]]. simpl in *.
    split; [|repeat split; assumption].
    destruct K as [K1 K2 K3 K4 K5 K6 K7]. constructor; simpl in *; assumption.
Qed.

Lemma apologise_all_keeps (p : pure) keypers eon si accusers vals p' :
  apologise_all C E P valid_eval p keypers eon si accusers vals = Some p' ->
  keepsP p p' /\ p_phase p' = p_phase p /\ p_accs p' = p_accs p /\ p_commits p' = p_commits p /\ p_evals p' = p_evals p.
Proof.
  revert p vals. induction accusers as [|a r IH]; simpl; intros p vals H.
  - injection H as <-. split; [apply keepsP_refl|repeat split].
  - destruct vals as [|v vr].
    + destruct (find_index keypers a 0); [discriminate|]. eapply IH. exact H.
    + destruct (find_index keypers a 0) as [ai|]; [|eapply IH; exact H].
      unfold handle_apology in H. destruct (negb _); [eapply IH; exact H|].
      destruct (apo_mem _ _); [eapply IH; exact H|]. destruct (negb _); [eapply IH; exact H|].
      destruct (IH _ _ H) as [K [A [B [Cc D]]]]. simpl in *.
      split; [|repeat split; assumption].
      destruct K as [K1 K2 K3 K4 K5 K6 K7]. constructor; simpl in *; assumption.
Qed.

(* ---- the phase starters ---- *)
Lemma start_phase1_keeps (p : pure) poly p' c evs :
  start_phase1 C E P commit_of eval_of valid_eval p poly = Some (p', c, evs) ->
  keepsP p p' /\ p_accs p' = p_accs p /\ p_apos p' = p_apos p /\ p_commits p' = p_commits p /\
  p_phase p' = Dealing /\ (p_me p < p_n p -> nth_opt (p_evals p') (p_me p) = Some (eval_of poly (p_me p)))%nat.
Proof.
  unfold start_phase1. destruct (advance p Off) as [q|] eqn:Ha; [|discriminate].
  apply advance_same in Ha. destruct Ha as [-> Hoff].
  destruct (Nat.ltb (p_me p) (p_n p)) eqn:Hlt.
  - destruct (handle_eval _ _ _ _ _ _ _ _ _) as [p3| |] eqn:He; try discriminate. intros [= <- _ _].
    destruct (handle_eval_keeps _ _ _ _ _ _ He) as [K [A [B [Cc [D F]]]]]. simpl in *.
    split.
    + destruct K as [K1 K2 K3 K4 K5 K6 K7]. simpl in *. constructor; simpl; try assumption.
      rewrite A. rewrite Hoff. reflexivity.
    + repeat split; try assumption. intros _. exact F.
  - intros [= <- _ _]. simpl. split.
    + constructor; simpl; try reflexivity; try apply slots_mono_refl. rewrite Hoff. reflexivity.
    + repeat split. intros Hx. apply Nat.ltb_ge in Hlt. lia.
Qed.

Lemma start_phase1_other (p : pure) poly p' c evs j :
  start_phase1 C E P commit_of eval_of valid_eval p poly = Some (p', c, evs) -> j <> p_me p ->
  nth_opt (p_evals p') j = nth_opt (p_evals p) j.
Proof.
  unfold start_phase1. destruct (advance p Off) as [q|] eqn:Ha; [|discriminate].
  apply advance_same in Ha. destruct Ha as [-> Hoff].
  destruct (Nat.ltb (p_me p) (p_n p)).
  - destruct (handle_eval _ _ _ _ _ _ _ _ _) as [p3| |] eqn:He; try discriminate. intros [= <- _ _] Hj.
    rewrite (handle_eval_other _ _ _ _ _ _ _ He Hj). reflexivity.
  - intros [= <- _ _] _. reflexivity.
Qed.

Lemma start_phase2_exact (p : pure) p' accs : start_phase2 C E P verify p = Some (p', accs) -> p' = set_phase p Accusing /\ p_phase p = Dealing.
Proof.
  unfold start_phase2. destruct (advance p Dealing) as [q|] eqn:Ha; [|discriminate].
  apply advance_same in Ha. destruct Ha as [-> Hp]. intros [= <- _]. split; [reflexivity|exact Hp].
Qed.

Lemma start_phase3_exact (p : pure) p' apos : start_phase3 C E P eval_of p = Some (p', apos) -> p' = set_phase p Apologizing /\ p_phase p = Accusing.
Proof.
  unfold start_phase3. destruct (advance p Accusing) as [q|] eqn:Ha; [|discriminate].
  apply advance_same in Ha. destruct Ha as [-> Hp].
  destruct (filter _ _); [|destruct (p_poly p); [|discriminate]]; intros [= <- _]; (split; [reflexivity|exact Hp]).
Qed.

End LivePure.

(* Part 2: the same for the operations of the block transaction on the cache entry of one eon. *)
Section LiveDrv.
Variables C E P : Type.
Variable commit_of : P -> C.
Variable eval_of : P -> nat -> E.
Variable verify : nat -> E -> C -> bool.
Variable deg_ok : N -> C -> bool.
Variable valid_eval : E -> bool.
Variable me : addr.
Variable L : Z.
Hypothesis Lpos : 0 < L.
Variable enum : list (N * @active C E P) -> list (N * @active C E P).
Hypothesis Henum : enum_keys_ok C E P enum.
Variable poly_for : N -> P.

Notation pure := (@DKGPure.pure C E P).
Notation active := (@active C E P).
Notation sm := (@sm C E P).
Notation db := (db C E P).
Notation st := (st C E P).
Notation dev := (dev C E).
Notation keepsP := (keepsP C E P).
Notation tgt := (tgt C E P L).
Notation frame := (frame C E P).
Notation start1 := (start1 C E P commit_of eval_of valid_eval poly_for).
Notation start2 := (start2 C E P verify).
Notation start3 := (start3 C E P eval_of).
Notation finalize_dkg := (finalize_dkg C E P verify).
Notation shift_loop := (shift_loop C E P commit_of eval_of verify valid_eval L poly_for).
Notation shift_phase := (shift_phase C E P commit_of eval_of verify valid_eval L poly_for).
Notation shift_all := (shift_all C E P commit_of eval_of verify valid_eval L poly_for).
Notation handle_event := (handle_event C E P commit_of eval_of verify deg_ok valid_eval me L poly_for).
Notation handle_events := (handle_events C E P commit_of eval_of verify deg_ok valid_eval me L poly_for).
Notation handle_block := (handle_block C E P commit_of eval_of verify deg_ok valid_eval me L enum poly_for).

Definition ent (x : st) (e : N) : option active := nget (sm_dkg (snd x)) e.
Definition res (x : st) (e : N) := nget (db_results _ _ _ (fst x)) e.
Definition eon_row (x : st) (e : N) : Prop := nget (db_eons _ _ _ (fst x)) e <> None.

Record keepsA (a a' : active) : Prop := {
  ka_pure : keepsP (a_pure a) (a_pure a');
  ka_start : a_start a' = a_start a;
  ka_keypers : a_keypers a' = a_keypers a
}.

Lemma keepsA_refl a : keepsA a a.
Proof. constructor; [apply keepsP_refl|reflexivity|reflexivity]. Qed.

Lemma keepsA_trans a b c : keepsA a b -> keepsA b c -> keepsA a c.
Proof. intros [A1 A2 A3] [B1 B2 B3]. constructor; [eapply keepsP_trans; eassumption|congruence|congruence]. Qed.

Lemma keepsA_mark a p' : keepsP (a_pure a) p' -> keepsA a (mark C E P a p').
Proof. intros H. constructor; [exact H|reflexivity|reflexivity]. Qed.

(* ---- one phase transition ---- *)
Lemma start1_keep x e a x1 a1 :
  start1 x e a = TOk (x1, a1) ->
  keepsA a a1 /\ p_accs (a_pure a1) = p_accs (a_pure a) /\ p_apos (a_pure a1) = p_apos (a_pure a) /\
  ((p_me (a_pure a) < p_n (a_pure a))%nat ->
   nth_opt (p_evals (a_pure a1)) (p_me (a_pure a)) = Some (eval_of (poly_for e) (p_me (a_pure a)))).
Proof.
  destruct x as [d s]. unfold DKGDriver.start1.
  destruct (start_phase1 _ _ _ _ _ _ _ _) as [[[p' c] evals]|] eqn:Hs; [|discriminate].
  destruct (insert_evals _ _ _ _ _ _ _) as [d2| |]; simpl; try discriminate. intros [= _ <-].
  destruct (start_phase1_keeps _ _ _ _ _ _ _ _ _ _ _ Hs) as [K [A [B [_ [_ F]]]]].
  split; [apply keepsA_mark; exact K|]. repeat split; assumption.
Qed.

Lemma start2_keep x e a x1 a1 :
  start2 x e a = TOk (x1, a1) ->
  keepsA a a1 /\ p_accs (a_pure a1) = p_accs (a_pure a) /\ p_apos (a_pure a1) = p_apos (a_pure a).
Proof.
  destruct x as [d s]. unfold DKGDriver.start2.
  destruct (start_phase2 _ _ _ _ _) as [[p' accs]|] eqn:Hs; [|discriminate].
  destruct (start_phase2_exact _ _ _ _ _ _ _ Hs) as [-> Hp].
  assert (K : keepsA a (mark C E P a (set_phase (a_pure a) Accusing))).
  { apply keepsA_mark. apply keepsP_set_phase. rewrite Hp. reflexivity. }
  destruct accs; [intros [= _ <-]; split; [exact K|split; reflexivity]|].
  destruct (idx_addrs _ _); [|discriminate]. intros [= _ <-]. split; [exact K|split; reflexivity].
Qed.

Lemma start3_keep x e a x1 a1 :
  start3 x e a = TOk (x1, a1) ->
  keepsA a a1 /\ p_accs (a_pure a1) = p_accs (a_pure a) /\ p_apos (a_pure a1) = p_apos (a_pure a).
Proof.
  destruct x as [d s]. unfold DKGDriver.start3.
  destruct (start_phase3 _ _ _ _ _) as [[p' apos]|] eqn:Hs; [|discriminate].
  destruct (start_phase3_exact _ _ _ _ _ _ _ Hs) as [-> Hp].
  assert (K : keepsA a (mark C E P a (set_phase (a_pure a) Apologizing))).
  { apply keepsA_mark. apply keepsP_set_phase. rewrite Hp. reflexivity. }
  destruct apos; [intros [= _ <-]; split; [exact K|split; reflexivity]|].
  destruct (idx_addrs _ _); [|discriminate]. intros [= _ <-]. split; [exact K|split; reflexivity].
Qed.

Lemma start1_other x e a x1 a1 j :
  start1 x e a = TOk (x1, a1) -> j <> p_me (a_pure a) ->
  nth_opt (p_evals (a_pure a1)) j = nth_opt (p_evals (a_pure a)) j.
Proof.
  destruct x as [d s]. unfold DKGDriver.start1.
  destruct (start_phase1 _ _ _ _ _ _ _ _) as [[[p' c] evals]|] eqn:Hs; [|discriminate].
  destruct (insert_evals _ _ _ _ _ _ _) as [d2| |]; simpl; try discriminate. intros [= _ <-] Hj. simpl.
  eapply start_phase1_other; eassumption.
Qed.

(* the success flag of the stored row is the outcome of the computed result *)
Lemma finalize_flag x eon a x1 a1 :
  finalize_dkg x eon a = TOk (x1, a1) ->
  nget (db_results _ _ _ (fst x1)) eon =
    Some (mkRes C E (is_result C E (compute_result C E P verify (a_pure a1))) (compute_result C E P verify (a_pure a1))).
Proof.
  destruct x as [d s]. unfold DKGDriver.finalize_dkg.
  destruct (finalize (a_pure a)) as [p'|] eqn:Hf; [|discriminate].
  set (rs := compute_result C E P verify p').
  destruct (is_result C E rs) eqn:Hok.
  - destruct (existsb _ _); simpl; [discriminate|].
    destruct (nget (db_results C E P d) eon) eqn:Hr; simpl; [discriminate|].
    intros [= <- <-]. simpl. fold rs. rewrite Hok. rewrite (nget_app_none _ _ _ _ Hr), N.eqb_refl. reflexivity.
  - match goal with |- context [nget ?l eon] => destruct (nget l eon) end; simpl; [|discriminate].
    destruct (nget (db_results C E P d) eon) eqn:Hr; simpl; [discriminate|].
    intros [= <- <-]. simpl. fold rs. rewrite Hok. rewrite (nget_app_none _ _ _ _ Hr), N.eqb_refl. reflexivity.
Qed.

(* ---- shiftPhase with what it keeps ---- *)
Inductive sh_out (x : st) (h : Z) (e : N) (a : active) (x' : st) : Prop :=
| so_same : phase_ltb (p_phase (a_pure a)) (tgt h a) = false -> x' = x -> sh_out x h e a x'
| so_moved (a' : active) :
    phase_ltb (p_phase (a_pure a)) (tgt h a) = true -> tgt h a <> Finalized ->
    frame e x x' -> ent x' e = Some a' -> res x' e = res x e -> keepsA a a' ->
    p_phase (a_pure a') = tgt h a ->
    p_accs (a_pure a') = p_accs (a_pure a) -> p_apos (a_pure a') = p_apos (a_pure a) -> sh_out x h e a x'
| so_final (pf : pure) (ok : bool) :
    phase_ltb (p_phase (a_pure a)) (tgt h a) = true -> tgt h a = Finalized ->
    frame e x x' -> ent x' e = None -> res x e = None ->
    res x' e = Some (mkRes C E ok (compute_result C E P verify pf)) ->
    ok = is_result C E (compute_result C E P verify pf) ->
    keepsP (a_pure a) pf -> p_phase pf = Finalized ->
    p_accs pf = p_accs (a_pure a) -> p_apos pf = p_apos (a_pure a) -> sh_out x h e a x'.

Lemma sh_out_step x h e a x1 a1 from to x' :
  step_ok C E P x e a x1 a1 from to -> phase_num to = S (phase_num from) -> to <> Finalized ->
  keepsA a a1 -> p_accs (a_pure a1) = p_accs (a_pure a) -> p_apos (a_pure a1) = p_apos (a_pure a) ->
  phase_ltb (p_phase (a_pure a)) (tgt h a) = true ->
  sh_out x1 h e a1 x' -> sh_out x h e a x'.
Proof.
  intros [Hfr [Hget [Hres [Hst [Hk [Hx [Hfrom Hto]]]]]]] Hsucc Hnf Hka Hacc Hapo Hlt Hr.
  assert (Ht : tgt h a1 = tgt h a) by (unfold DKGChain.tgt; rewrite Hst; reflexivity).
  destruct Hr as [Hge ->|a' Hlt' Hnf' Hfr' Hget' Hres' Hka' Hp' Hacc' Hapo'|pf ok Hlt' Hfin Hfr' Hget' Hres0 Hres' Hokf Hkp Hpf Hacc' Hapo'].
  - rewrite Ht, Hto in Hge. apply phase_ltb_false in Hge. apply phase_ltb_spec in Hlt. rewrite Hfrom in Hlt.
    assert (Heq : tgt h a = to) by (apply phase_num_inj; lia).
    eapply so_moved with (a' := a1); try eassumption.
    + apply phase_ltb_spec. rewrite Hfrom. exact Hlt.
    + rewrite Heq. exact Hnf.
    + rewrite Heq. exact Hto.
  - eapply so_moved with (a' := a'); try eassumption.
    + rewrite <- Ht. exact Hnf'.
    + eapply frame_trans; eassumption.
    + unfold res in *. rewrite Hres'. exact Hres.
    + eapply keepsA_trans; eassumption.
    + rewrite <- Ht. exact Hp'.
    + congruence.
    + congruence.
  - eapply so_final with (pf := pf) (ok := ok); try eassumption.
    + rewrite <- Ht. exact Hfin.
    + eapply frame_trans; eassumption.
    + unfold res in *. rewrite <- Hres. exact Hres0.
    + eapply keepsP_trans; [exact (ka_pure _ _ Hka)|exact Hkp].
    + congruence.
    + congruence.
Qed.

Lemma shift_loop_out fuel : forall x h e a x',
  shift_loop fuel x h e a = TOk x' -> ent x e = Some a ->
  (phase_num (tgt h a) <= phase_num (p_phase (a_pure a)) + fuel)%nat ->
  sh_out x h e a x'.
Proof.
  induction fuel as [|f IH]; intros x h e a x' Hrun Hget Hfuel.
  - simpl in Hrun. injection Hrun as <-. apply so_same; [|reflexivity]. apply phase_ltb_false. lia.
  - simpl in Hrun. fold (tgt h a) in Hrun.
    destruct (phase_ltb (p_phase (a_pure a)) (tgt h a)) eqn:Hlt.
    2:{ injection Hrun as <-. apply so_same; [exact Hlt|reflexivity]. }
    destruct (p_phase (a_pure a)) eqn:Hcur.
    + destruct (start1 x e a) as [[x1 a1]| |] eqn:Hs; simpl in Hrun; try discriminate.
      pose proof (start1_ok C E P commit_of eval_of valid_eval poly_for _ _ _ _ _ Hs) as Hok.
      destruct (start1_keep _ _ _ _ _ Hs) as [K [A [B _]]].
      eapply sh_out_step; [exact Hok|reflexivity|discriminate|exact K|exact A|exact B|rewrite Hcur; exact Hlt|].
      destruct Hok as [_ [Hg1 [_ [Hst [_ [_ [_ Hto]]]]]]].
      apply IH; [exact Hrun|exact Hg1|]. unfold DKGChain.tgt in *. rewrite Hst, Hto. simpl in *. lia.
    + destruct (start2 x e a) as [[x1 a1]| |] eqn:Hs; simpl in Hrun; try discriminate.
      pose proof (start2_ok C E P verify _ _ _ _ _ Hs) as Hok.
      destruct (start2_keep _ _ _ _ _ Hs) as [K [A B]].
      eapply sh_out_step; [exact Hok|reflexivity|discriminate|exact K|exact A|exact B|rewrite Hcur; exact Hlt|].
      destruct Hok as [_ [Hg1 [_ [Hst [_ [_ [_ Hto]]]]]]].
      apply IH; [exact Hrun|exact Hg1|]. unfold DKGChain.tgt in *. rewrite Hst, Hto. simpl in *. lia.
    + destruct (start3 x e a) as [[x1 a1]| |] eqn:Hs; simpl in Hrun; try discriminate.
      pose proof (start3_ok C E P eval_of _ _ _ _ _ Hs) as Hok.
      destruct (start3_keep _ _ _ _ _ Hs) as [K [A B]].
      eapply sh_out_step; [exact Hok|reflexivity|discriminate|exact K|exact A|exact B|rewrite Hcur; exact Hlt|].
      destruct Hok as [_ [Hg1 [_ [Hst [_ [_ [_ Hto]]]]]]].
      apply IH; [exact Hrun|exact Hg1|]. unfold DKGChain.tgt in *. rewrite Hst, Hto. simpl in *. lia.
    + destruct (finalize_dkg x e a) as [[x1 a1]| |] eqn:Hs; simpl in Hrun; try discriminate.
      pose proof (finalize_ok C E P verify _ _ _ _ _ Hs) as [Hfr [Hg1 [Hr0 [[ok Hr1] [Ha1 Hp]]]]].
      rewrite (shift_loop_done C E P commit_of eval_of verify valid_eval L poly_for) in Hrun.
      2:{ rewrite Ha1. simpl. apply phase_ltb_false. destruct (DKGChain.tgt C E P L h a1); simpl; lia. }
      injection Hrun as <-.
      apply phase_ltb_spec in Hlt. simpl in Hlt.
      assert (Hfin : tgt h a = Finalized) by (apply phase_num_inj; destruct (tgt h a); simpl in *; lia).
      eapply so_final with (pf := a_pure a1) (ok := ok); try eassumption.
      * rewrite Hcur. apply phase_ltb_spec. rewrite Hfin. simpl. lia.
      * pose proof (finalize_flag _ _ _ _ _ Hs) as Hfl. rewrite Hr1 in Hfl. injection Hfl as Hfl. exact Hfl.
      * rewrite Ha1. apply keepsP_set_phase. rewrite Hcur. reflexivity.
      * rewrite Ha1. reflexivity.
      * rewrite Ha1. reflexivity.
      * rewrite Ha1. reflexivity.
    + apply phase_ltb_spec in Hlt. simpl in Hlt. destruct (tgt h a); simpl in Hlt; lia.
Qed.

(* ---- shiftPhases of a block, seen from one eon ---- *)
Definition sh_post (x0 : st) (h : Z) (e : N) (a : active) (x : st) : Prop :=
  db_eons _ _ _ (fst x) = db_eons _ _ _ (fst x0) /\
  ((phase_ltb (p_phase (a_pure a)) (tgt h a) = false /\ ent x e = Some a /\ res x e = res x0 e) \/
   (phase_ltb (p_phase (a_pure a)) (tgt h a) = true /\ tgt h a <> Finalized /\
    exists a', ent x e = Some a' /\ res x e = res x0 e /\ keepsA a a' /\ p_phase (a_pure a') = tgt h a /\
               p_accs (a_pure a') = p_accs (a_pure a) /\ p_apos (a_pure a') = p_apos (a_pure a)) \/
   (phase_ltb (p_phase (a_pure a)) (tgt h a) = true /\ tgt h a = Finalized /\ ent x e = None /\
    exists pf ok, res x e = Some (mkRes C E ok (compute_result C E P verify pf)) /\
                  ok = is_result C E (compute_result C E P verify pf) /\ keepsP (a_pure a) pf /\
                  p_phase pf = Finalized /\ p_accs pf = p_accs (a_pure a) /\ p_apos pf = p_apos (a_pure a))).

Lemma shift_other_frame x h k ak x1 e :
  shift_phase x h k ak = TOk x1 -> nget (sm_dkg (snd x)) k = Some ak -> k <> e ->
  ent x1 e = ent x e /\ res x1 e = res x e /\ db_eons _ _ _ (fst x1) = db_eons _ _ _ (fst x).
Proof.
  intros Hs Hg Hne.
  pose proof (shift_phase_spec C E P commit_of eval_of verify valid_eval L poly_for _ _ _ _ _ Hs Hg) as Hr.
  destruct Hr as [_ ->|a' _ _ Hfr _ _ _ _ _ _|pf ok _ _ Hfr _ _ _ _ _]; [repeat split| |];
    destruct Hfr as [_ [F2 [_ [_ [_ [F5 F6]]]]]]; unfold ent, res; (split; [apply F5; congruence|split; [apply F6; congruence|exact F2]]).
Qed.

Lemma tgt_keeps h a a' : a_start a' = a_start a -> tgt h a' = tgt h a.
Proof. intros H. unfold DKGChain.tgt. rewrite H. reflexivity. Qed.

Lemma shift_all_post_stable x0 h e a l : forall x x',
  shift_all x h l = TOk x' -> sh_post x0 h e a x -> sh_post x0 h e a x'.
Proof.
  induction l as [|[k a0] r IH]; intros x x' Hrun Hp.
  - simpl in Hrun. injection Hrun as <-. exact Hp.
  - cbn [DKGDriver.shift_all] in Hrun.
    destruct (nget (sm_dkg (snd x)) k) as [ak|] eqn:Hg; [|eapply IH; eassumption].
    destruct (shift_phase x h k ak) as [x1| |] eqn:Hs; simpl in Hrun; try discriminate.
    eapply IH; [exact Hrun|].
    destruct (N.eq_dec k e) as [->|Hne].
    + (* the eon itself again: nothing left to do *)
      assert (Hdone : phase_ltb (p_phase (a_pure ak)) (tgt h ak) = false).
      { destruct Hp as [_ [[Hnl [He _]]|[[Hlt [Hnf [a' [He [_ [Hk [Hph _]]]]]]]|[_ [_ [He _]]]]]]; unfold ent in He; rewrite Hg in He.
        - injection He as ->. exact Hnl.
        - injection He as ->. rewrite (tgt_keeps h a a' (ka_start _ _ Hk)), Hph. apply phase_ltb_false. lia.
        - discriminate. }
      unfold DKGDriver.shift_phase in Hs.
      rewrite (shift_loop_done C E P commit_of eval_of verify valid_eval L poly_for) in Hs by exact Hdone.
      injection Hs as <-. exact Hp.
    + destruct (shift_other_frame _ _ _ _ _ e Hs Hg Hne) as [F1 [F2 F3]].
      destruct Hp as [He0 Hcases]. split; [congruence|]. rewrite F1, F2. exact Hcases.
Qed.

Lemma shift_all_post x0 h e a l : forall x x',
  shift_all x h l = TOk x' ->
  ent x e = Some a -> res x e = res x0 e -> db_eons _ _ _ (fst x) = db_eons _ _ _ (fst x0) ->
  (In e (map fst l) -> sh_post x0 h e a x') /\
  (~ In e (map fst l) -> ent x' e = Some a /\ res x' e = res x0 e /\ db_eons _ _ _ (fst x') = db_eons _ _ _ (fst x0)).
Proof.
  induction l as [|[k a0] r IH]; intros x x' Hrun He Hr Hd.
  - simpl in Hrun. injection Hrun as <-. split; [intros []|intros _; repeat split; assumption].
  - cbn [DKGDriver.shift_all] in Hrun.
    destruct (nget (sm_dkg (snd x)) k) as [ak|] eqn:Hg.
    + destruct (shift_phase x h k ak) as [x1| |] eqn:Hs; simpl in Hrun; try discriminate.
      destruct (N.eq_dec k e) as [->|Hne].
      * unfold ent in He. rewrite Hg in He. injection He as ->.
        assert (Hpost : sh_post x0 h e a x1).
        { unfold DKGDriver.shift_phase in Hs.
          assert (Hout : sh_out x h e a x1).
          { eapply shift_loop_out; [exact Hs|exact Hg|]. destruct (tgt h a), (p_phase (a_pure a)); simpl; lia. }
          destruct Hout as [Hnl ->|a' Hlt Hnf Hfr Hg' Hres' Hk Hph Hacc Hapo|pf ok Hlt Hfin Hfr Hg' Hr0 Hres' Hokf Hkp Hpf Hacc Hapo].
          - split; [exact Hd|]. left. repeat split; assumption.
          - split; [destruct Hfr as [_ [F2 _]]; congruence|]. right. left. split; [exact Hlt|]. split; [exact Hnf|].
            exists a'. split; [exact Hg'|]. split; [unfold res in *; congruence|]. split; [exact Hk|]. split; [exact Hph|]. split; assumption.
          - split; [destruct Hfr as [_ [F2 _]]; congruence|]. right. right. split; [exact Hlt|]. split; [exact Hfin|]. split; [exact Hg'|].
            exists pf, ok. split; [exact Hres'|]. split; [exact Hokf|]. split; [exact Hkp|]. split; [exact Hpf|]. split; assumption. }
        split; [intros _; eapply shift_all_post_stable; eassumption|].
        intros Hnin. exfalso. apply Hnin. left. reflexivity.
      * destruct (shift_other_frame _ _ _ _ _ e Hs Hg Hne) as [F1 [F2 F3]].
        destruct (IH _ _ Hrun) as [A B]; [congruence|congruence|congruence|].
        split; [intros [Hk|Hin]; [simpl in Hk; contradiction|apply A; exact Hin]|].
        intros Hnin. apply B. intros Hin. apply Hnin. right. exact Hin.
    + destruct (IH _ _ Hrun He Hr Hd) as [A B].
      assert (Hne : k <> e) by (intros ->; unfold ent in He; congruence).
      split; [intros [Hk|Hin]; [simpl in Hk; contradiction|apply A; exact Hin]|].
      intros Hnin. apply B. intros Hin. apply Hnin. right. exact Hin.
Qed.

Lemma shift_phases_post x h e a x' :
  shift_phases C E P commit_of eval_of verify valid_eval L enum poly_for x h = TOk x' ->
  ent x e = Some a -> sh_post x h e a x'.
Proof.
  intros Hrun He. unfold shift_phases in Hrun.
  destruct (shift_all_post x h e a _ _ _ Hrun He eq_refl eq_refl) as [A _].
  apply A. eapply Henum. exact He.
Qed.

(* ---- one event, seen from one eon that has an instance ---- *)
Lemma event_keeps x h ev x' e a :
  handle_event x h ev = TOk x' -> ent x e = Some a -> eon_row x e ->
  exists a', ent x' e = Some a' /\ keepsA a a' /\ p_phase (a_pure a') = p_phase (a_pure a) /\ eon_row x' e /\
     res x' e = res x e /\
     ((forall s acc, ev <> DAccusation s e acc) -> p_accs (a_pure a') = p_accs (a_pure a)) /\
     ((forall s acc vs, ev <> DApology s e acc vs) -> p_apos (a_pure a') = p_apos (a_pure a)).
Proof.
  destruct x as [d s]. unfold ent, res, eon_row. simpl. intros Hrun He Hrow.
  assert (Hsame : forall d' s', x' = (d', s') -> sm_dkg s' = sm_dkg s -> db_eons C E P d' = db_eons C E P d ->
            db_results C E P d' = db_results C E P d ->
            exists a', nget (sm_dkg (snd x')) e = Some a' /\ keepsA a a' /\ p_phase (a_pure a') = p_phase (a_pure a) /\
              nget (db_eons C E P (fst x')) e <> None /\
              nget (db_results C E P (fst x')) e = nget (db_results C E P d) e /\
              ((forall s0 acc, ev <> DAccusation s0 e acc) -> p_accs (a_pure a') = p_accs (a_pure a)) /\
              ((forall s0 acc vs, ev <> DApology s0 e acc vs) -> p_apos (a_pure a') = p_apos (a_pure a))).
  { intros d' s' -> H1 H2 H3. simpl. rewrite H1, H2, H3. exists a. split; [exact He|]. split; [apply keepsA_refl|]. repeat split; auto. }
  (* an update of the entry of eon k *)
  assert (Hupd : forall k ak p', x' = (d, set_dkg C E P s k (mark C E P ak p')) -> nget (sm_dkg s) k = Some ak ->
            (k = e -> keepsP (a_pure ak) p' /\ p_phase p' = p_phase (a_pure ak) /\
                      ((forall s0 acc, ev <> DAccusation s0 e acc) -> p_accs p' = p_accs (a_pure ak)) /\
                      ((forall s0 acc vs, ev <> DApology s0 e acc vs) -> p_apos p' = p_apos (a_pure ak))) ->
            exists a', nget (sm_dkg (snd x')) e = Some a' /\ keepsA a a' /\ p_phase (a_pure a') = p_phase (a_pure a) /\
              nget (db_eons C E P (fst x')) e <> None /\
              nget (db_results C E P (fst x')) e = nget (db_results C E P d) e /\
              ((forall s0 acc, ev <> DAccusation s0 e acc) -> p_accs (a_pure a') = p_accs (a_pure a)) /\
              ((forall s0 acc vs, ev <> DApology s0 e acc vs) -> p_apos (a_pure a') = p_apos (a_pure a))).
  { intros k ak p' -> Hk Hcase. simpl. destruct (N.eq_dec k e) as [->|Hne].
    - rewrite Hk in He. injection He as ->. destruct (Hcase eq_refl) as [K [Hph [Hac Hap]]].
      rewrite nget_nins_same. eexists. split; [reflexivity|]. split; [apply keepsA_mark; exact K|]. simpl. repeat split; auto.
    - rewrite nget_nins_other by exact Hne. exists a. split; [exact He|]. split; [apply keepsA_refl|]. repeat split; auto. }
  destruct ev; simpl in Hrun.
  - injection Hrun as Hx. symmetry in Hx. eapply Hsame; [exact Hx|reflexivity| |]; destruct (existsb _ _); reflexivity.
  - unfold handle_batch_config in Hrun. destruct (is_member keypers me); simpl in Hrun;
      (destruct (nget (db_cfgs C E P d) idx); [discriminate|]); injection Hrun as Hx; symmetry in Hx;
      (eapply Hsame; [exact Hx|reflexivity|reflexivity|reflexivity]).
  - destruct (nget (db_cfgs C E P d) idx); injection Hrun as Hx; symmetry in Hx; (eapply Hsame; [exact Hx|reflexivity|reflexivity|reflexivity]).
  - (* another eon starts *)
    destruct (9223372036854775807 <? Z.of_N act); [discriminate|].
    destruct (nget (db_eons C E P d) eon) eqn:Hn; [discriminate|].
    assert (Hne : eon <> e) by (intros ->; contradiction).
    set (d1 := upd_db_eons C E P d (db_eons C E P d ++ [(eon, mkEon h act idx)])) in *.
    assert (Hrow1 : nget (db_eons C E P d1) e <> None).
    { unfold d1. simpl. rewrite (nget_app_none _ _ _ _ Hn). destruct (N.eqb eon e); [discriminate|exact Hrow]. }
    assert (Hbase : x' = (d1, s) ->
              exists a', nget (sm_dkg (snd x')) e = Some a' /\ keepsA a a' /\ p_phase (a_pure a') = p_phase (a_pure a) /\
                nget (db_eons C E P (fst x')) e <> None /\
                nget (db_results C E P (fst x')) e = nget (db_results C E P d) e /\
                ((forall s0 acc, @DEonStarted C E eon act idx <> DAccusation s0 e acc) -> p_accs (a_pure a') = p_accs (a_pure a)) /\
                ((forall s0 acc vs, @DEonStarted C E eon act idx <> DApology s0 e acc vs) -> p_apos (a_pure a') = p_apos (a_pure a))).
    { intros ->. simpl. exists a. split; [exact He|]. split; [apply keepsA_refl|]. repeat split; auto. }
    destruct (negb (sm_iskeyper s)); [injection Hrun as Hx; symmetry in Hx; exact (Hbase Hx)|].
    destruct (nget (db_cfgs C E P d) idx) as [c|]; [|discriminate].
    destruct (find_index (cf_keypers c) me 0) as [ki|]; [|injection Hrun as Hx; symmetry in Hx; exact (Hbase Hx)].
    destruct (phase_eqb _ Off); [discriminate|].
    match type of Hrun with DKGDriver.shift_phase _ _ _ _ _ _ _ _ _ ?xx ?hh ?ee ?aa = _ =>
      pose proof (shift_other_frame xx hh ee aa x' e Hrun) as Hfr end.
    simpl in Hfr. destruct Hfr as [F1 [F2 F3]]; [apply nget_nins_same|exact Hne|].
    unfold ent, res in F1, F2. simpl in F1, F2. rewrite nget_nins_other in F1 by exact Hne.
    exists a. rewrite F1, F2, F3. split; [exact He|]. split; [apply keepsA_refl|]. repeat split; auto.
  - (* commitment *)
    destruct (nget (sm_dkg s) eon) as [ak|] eqn:Hk; [|injection Hrun as Hx; symmetry in Hx; eapply Hsame; [exact Hx| | |]; reflexivity].
    destruct (find_index _ _ _); [|injection Hrun as Hx; symmetry in Hx; eapply Hsame; [exact Hx| | |]; reflexivity].
    destruct (handle_commit _ _ _ _ _ _ _ _) as [p'| |] eqn:Hh; try discriminate;
      injection Hrun as Hx; symmetry in Hx; [|eapply Hsame; [exact Hx| | |]; reflexivity].
    eapply Hupd; [exact Hx|exact Hk|]. intros _.
    destruct (handle_commit_keeps C E P deg_ok _ _ _ _ _ Hh) as [K [A [B [Cc _]]]]. split; [exact K|]. repeat split; auto.
  - (* evaluation *)
    destruct (bytes_eqb sender me); [injection Hrun as Hx; symmetry in Hx; eapply Hsame; [exact Hx| | |]; reflexivity|].
    destruct (nget (sm_dkg s) eon) as [ak|] eqn:Hk; [|injection Hrun as Hx; symmetry in Hx; eapply Hsame; [exact Hx| | |]; reflexivity].
    destruct (find_index (a_keypers ak) sender 0); [|injection Hrun as Hx; symmetry in Hx; eapply Hsame; [exact Hx| | |]; reflexivity].
    destruct (find_index (a_keypers ak) me 0); [|discriminate].
    destruct (find_index receivers me 0); [|injection Hrun as Hx; symmetry in Hx; eapply Hsame; [exact Hx| | |]; reflexivity].
    destruct (nth_error vals _) as [[v|]|]; try discriminate;
      [|injection Hrun as Hx; symmetry in Hx; eapply Hsame; [exact Hx| | |]; reflexivity].
    destruct (handle_eval _ _ _ _ _ _ _ _ _) as [p'| |] eqn:Hh; try discriminate;
      injection Hrun as Hx; symmetry in Hx; [|eapply Hsame; [exact Hx| | |]; reflexivity].
    eapply Hupd; [exact Hx|exact Hk|]. intros _.
    destruct (handle_eval_keeps C E P valid_eval _ _ _ _ _ _ Hh) as [K [A [B [Cc _]]]]. split; [exact K|]. repeat split; auto.
  - (* accusation *)
    destruct (nget (sm_dkg s) eon) as [ak|] eqn:Hk; [|injection Hrun as Hx; symmetry in Hx; eapply Hsame; [exact Hx| | |]; reflexivity].
    destruct (negb _); [injection Hrun as Hx; symmetry in Hx; eapply Hsame; [exact Hx| | |]; reflexivity|].
    destruct (find_index _ _ _) as [si|]; injection Hrun as Hx; symmetry in Hx; [|eapply Hsame; [exact Hx| | |]; reflexivity].
    eapply Hupd; [exact Hx|exact Hk|]. intros ->.
    destruct (accuse_all_keeps C E P (a_pure ak) (a_keypers ak) e si accused) as [K [A [B _]]].
    split; [exact K|]. split; [exact A|]. split; [|intros _; exact B].
    intros Hno. exfalso. exact (Hno sender accused eq_refl).
  - (* apology *)
    destruct (nget (sm_dkg s) eon) as [ak|] eqn:Hk; [|injection Hrun as Hx; symmetry in Hx; eapply Hsame; [exact Hx| | |]; reflexivity].
    destruct (negb _); [injection Hrun as Hx; symmetry in Hx; eapply Hsame; [exact Hx| | |]; reflexivity|].
    destruct (find_index _ _ _) as [si|]; [|injection Hrun as Hx; symmetry in Hx; eapply Hsame; [exact Hx| | |]; reflexivity].
    destruct (apologise_all _ _ _ _ _ _ _ _ _ _) as [p'|] eqn:Hh; [|discriminate]. injection Hrun as Hx; symmetry in Hx.
    eapply Hupd; [exact Hx|exact Hk|]. intros ->.
    destruct (apologise_all_keeps C E P valid_eval _ _ _ _ _ _ _ Hh) as [K [A [B _]]].
    split; [exact K|]. split; [exact A|]. split; [intros _; exact B|].
    intros Hno. exfalso. exact (Hno sender accusers vals eq_refl).
Qed.

(* ---- where the contents of the slots come from, and that dealing messages land ---- *)
Lemma event_slots x h ev x' e a a' :
  handle_event x h ev = TOk x' -> ent x e = Some a -> ent x' e = Some a' -> eon_row x e ->
  (forall j c, nth_opt (p_commits (a_pure a')) j = Some c ->
     nth_opt (p_commits (a_pure a)) j = Some c \/
     exists s, ev = DCommit s e c /\ find_index (a_keypers a) s 0 = Some j) /\
  (forall j v, nth_opt (p_evals (a_pure a')) j = Some v ->
     nth_opt (p_evals (a_pure a)) j = Some v \/
     exists s rs vs mi, ev = DEval s e rs vs /\ find_index (a_keypers a) s 0 = Some j /\
                        find_index rs me 0 = Some mi /\ nth_error vs mi = Some (Some v)) /\
  (forall s c j, ev = DCommit s e c -> find_index (a_keypers a) s 0 = Some j -> p_eon (a_pure a) = e ->
     phase_leb (p_phase (a_pure a)) Dealing = true -> deg_ok (p_t (a_pure a)) c = true ->
     nth_opt (p_commits (a_pure a')) j <> None) /\
  (forall s rs vs j mi v, ev = DEval s e rs vs -> bytes_eqb s me = false ->
     find_index (a_keypers a) s 0 = Some j -> find_index (a_keypers a) me 0 = Some (p_me (a_pure a)) ->
     find_index rs me 0 = Some mi -> nth_error vs mi = Some (Some v) -> p_eon (a_pure a) = e ->
     phase_leb (p_phase (a_pure a)) Dealing = true -> valid_eval v = true ->
     nth_opt (p_evals (a_pure a')) j <> None).
Proof.
  destruct x as [d s]. unfold ent, eon_row. simpl. intros Hrun He He' Hrow.
  (* the entry is untouched *)
  assert (Hsame : a' = a ->
    (forall j c, nth_opt (p_commits (a_pure a')) j = Some c -> nth_opt (p_commits (a_pure a)) j = Some c \/ exists s0, ev = DCommit s0 e c /\ find_index (a_keypers a) s0 0 = Some j) /\
    (forall j v, nth_opt (p_evals (a_pure a')) j = Some v -> nth_opt (p_evals (a_pure a)) j = Some v \/
       exists s0 rs vs mi, ev = DEval s0 e rs vs /\ find_index (a_keypers a) s0 0 = Some j /\ find_index rs me 0 = Some mi /\ nth_error vs mi = Some (Some v))).
  { intros ->. split; intros j y Hj; left; exact Hj. }
  assert (Hunt : forall d' s', x' = (d', s') -> nget (sm_dkg s') e = nget (sm_dkg s) e -> a' = a).
  { intros d' s' -> Hq. simpl in He'. rewrite Hq, He in He'. injection He' as <-. reflexivity. }
  destruct ev; simpl in Hrun.
  - injection Hrun as Hx. symmetry in Hx. destruct (Hsame (Hunt _ _ Hx eq_refl)) as [A B]. repeat split; try assumption; intros; discriminate.
  - unfold handle_batch_config in Hrun. destruct (is_member keypers me); simpl in Hrun;
      (destruct (nget (db_cfgs C E P d) idx); [discriminate|]); injection Hrun as Hx; symmetry in Hx;
      destruct (Hsame (Hunt _ _ Hx eq_refl)) as [A B]; repeat split; try assumption; intros; discriminate.
  - destruct (nget (db_cfgs C E P d) idx); injection Hrun as Hx; symmetry in Hx;
      destruct (Hsame (Hunt _ _ Hx eq_refl)) as [A B]; repeat split; try assumption; intros; discriminate.
  - (* another eon starts *)
    assert (Ha : a' = a).
    { destruct (event_keeps (d, s) h (DEonStarted eon act idx) x' e a Hrun He Hrow) as [a1 [H1 [_ [_ [_ [_ _]]]]]].
      revert Hrun. simpl.
      destruct (9223372036854775807 <? Z.of_N act); [discriminate|].
      destruct (nget (db_eons C E P d) eon) eqn:Hn; [discriminate|].
      assert (Hne : eon <> e) by (intros ->; contradiction).
      destruct (negb (sm_iskeyper s)); [intros [= <-]; simpl in He'; congruence|].
      destruct (nget (db_cfgs C E P d) idx) as [c|]; [|discriminate].
      destruct (find_index (cf_keypers c) me 0) as [ki|]; [|intros [= <-]; simpl in He'; congruence].
      destruct (phase_eqb _ Off); [discriminate|]. intros Hrun.
      match type of Hrun with DKGDriver.shift_phase _ _ _ _ _ _ _ _ _ ?xx ?hh ?ee ?aa = _ =>
        pose proof (shift_other_frame xx hh ee aa x' e Hrun) as Hfr end.
      simpl in Hfr. destruct Hfr as [F1 _]; [apply nget_nins_same|exact Hne|].
      unfold ent in F1. simpl in F1. rewrite nget_nins_other in F1 by exact Hne. congruence. }
    destruct (Hsame Ha) as [A B]. repeat split; try assumption; intros; discriminate.
  - (* commitment *)
    destruct (nget (sm_dkg s) eon) as [ak|] eqn:Hk;
      [|injection Hrun as Hx; symmetry in Hx; destruct (Hsame (Hunt _ _ Hx eq_refl)) as [A B]; repeat split; try assumption; try (intros; discriminate);
        intros s0 c0 j Hev; injection Hev as <- <- <-; congruence].
    destruct (N.eq_dec eon e) as [->|Hne].
    + rewrite He in Hk. injection Hk as <-.
      destruct (find_index (a_keypers a) sender 0) as [si|] eqn:Hsi.
      * destruct (handle_commit C E P deg_ok (a_pure a) e si c) as [p'| |] eqn:Hh; try discriminate; injection Hrun as Hx; subst x'; simpl in He'.
        -- rewrite nget_nins_same in He'. injection He' as <-. simpl.
           destruct (handle_commit_keeps C E P deg_ok _ _ _ _ _ Hh) as [K [_ [_ [_ [Hev Hset]]]]].
           split; [|split; [|split]].
           ++ intros j c0 Hj. destruct (Nat.eq_dec j si) as [->|Hjs].
              ** rewrite Hset in Hj. injection Hj as <-. right. exists sender. split; [reflexivity|exact Hsi].
              ** rewrite (handle_commit_other C E P deg_ok _ _ _ _ _ _ Hh Hjs) in Hj. left. exact Hj.
           ++ intros j v Hj. rewrite Hev in Hj. left. exact Hj.
           ++ intros s0 c0 j Hev0 Hidx _ _ _. injection Hev0 as <- <-. rewrite Hsi in Hidx. injection Hidx as <-. rewrite Hset. discriminate.
           ++ intros; discriminate.
        -- (* refused: the slot is taken, the degree is wrong or the phase is over *)
           rewrite He in He'. injection He' as <-. split; [intros j c0 Hj; left; exact Hj|]. split; [intros j v Hj; left; exact Hj|]. split; [|intros; discriminate].
           intros s0 c0 j Hev0 Hidx Heon Hph Hdeg. injection Hev0 as <- <-. rewrite Hsi in Hidx. injection Hidx as <-.
           unfold handle_commit, check_eon_phase in Hh. rewrite Heon, N.eqb_refl, Hph in Hh. simpl in Hh.
           unfold nth_opt. destruct (nth_error (p_commits (a_pure a)) si) as [[c1|]|]; [discriminate| |discriminate].
           rewrite Hdeg in Hh. simpl in Hh. destruct (set_nth _ _ _); discriminate.
      * injection Hrun as Hx. subst x'. simpl in He'. rewrite He in He'. injection He' as <-.
        split; [intros j c0 Hj; left; exact Hj|]. split; [intros j v Hj; left; exact Hj|]. split; [|intros; discriminate].
        intros s0 c0 j Hev0 Hidx. injection Hev0 as <- <-. congruence.
    + assert (Ha : a' = a).
      { destruct (find_index (a_keypers ak) sender 0); [|injection Hrun as Hx; subst x'; simpl in He'; congruence].
        destruct (handle_commit _ _ _ _ _ _ _ _); try discriminate; injection Hrun as Hx; subst x'; simpl in He';
          [rewrite nget_nins_other in He' by exact Hne|]; congruence. }
      destruct (Hsame Ha) as [A B]. repeat split; try assumption; try (intros; discriminate).
      intros s0 c0 j Hev0. injection Hev0 as _ Hq _. contradiction.
  - (* evaluation *)
    destruct (bytes_eqb sender me) eqn:Hsm;
      [injection Hrun as Hx; symmetry in Hx; destruct (Hsame (Hunt _ _ Hx eq_refl)) as [A B]; repeat split; try assumption; try (intros; discriminate);
       intros s0 rs vs j mi v Hev; injection Hev as <- <- <- <-; congruence|].
    destruct (nget (sm_dkg s) eon) as [ak|] eqn:Hk;
      [|injection Hrun as Hx; symmetry in Hx; destruct (Hsame (Hunt _ _ Hx eq_refl)) as [A B]; repeat split; try assumption; try (intros; discriminate);
        intros s0 rs vs j mi v Hev; injection Hev as <- <- <- <-; congruence].
    destruct (N.eq_dec eon e) as [->|Hne].
    + rewrite He in Hk. injection Hk as <-.
      destruct (find_index (a_keypers a) sender 0) as [si|] eqn:Hsi.
      2:{ injection Hrun as Hx. subst x'. simpl in He'. rewrite He in He'. injection He' as <-.
          split; [intros j c0 Hj; left; exact Hj|]. split; [intros j v Hj; left; exact Hj|]. split; [intros; discriminate|].
          intros s0 rs vs j mi v Hev0 _ Hidx. injection Hev0 as <- <- <-. congruence. }
      destruct (find_index (a_keypers a) me 0) as [ki|] eqn:Hki; [|discriminate].
      destruct (find_index receivers me 0) as [mi0|] eqn:Hmi.
      2:{ injection Hrun as Hx. subst x'. simpl in He'. rewrite He in He'. injection He' as <-.
          split; [intros j c0 Hj; left; exact Hj|]. split; [intros j v Hj; left; exact Hj|]. split; [intros; discriminate|].
          intros s0 rs vs j mi v Hev0 _ _ _ Hm. injection Hev0 as <- <- <-. congruence. }
      destruct (nth_error vals mi0) as [[v0|]|] eqn:Hv; try discriminate.
      2:{ injection Hrun as Hx. subst x'. simpl in He'. rewrite He in He'. injection He' as <-.
          split; [intros j c0 Hj; left; exact Hj|]. split; [intros j v Hj; left; exact Hj|]. split; [intros; discriminate|].
          intros s0 rs vs j mi v Hev0 _ _ _ Hm Hn. injection Hev0 as <- <- <-. congruence. }
      destruct (handle_eval C E P valid_eval (a_pure a) e si ki v0) as [p'| |] eqn:Hh; try discriminate; injection Hrun as Hx; subst x'; simpl in He'.
      * rewrite nget_nins_same in He'. injection He' as <-. simpl.
        destruct (handle_eval_keeps C E P valid_eval _ _ _ _ _ _ Hh) as [K [_ [_ [_ [Hcm Hset]]]]].
        split; [|split; [|split]].
        -- intros j c0 Hj. rewrite Hcm in Hj. left. exact Hj.
        -- intros j v Hj. destruct (Nat.eq_dec j si) as [->|Hjs].
           ++ rewrite Hset in Hj. injection Hj as <-. right. exists sender, receivers, vals, mi0. repeat split; assumption.
           ++ rewrite (handle_eval_other C E P valid_eval _ _ _ _ _ _ _ Hh Hjs) in Hj. left. exact Hj.
        -- intros; discriminate.
        -- intros s0 rs vs j mi v Hev0 _ Hidx _ _ _ _ _ _. injection Hev0 as <- <- <-. rewrite Hsi in Hidx. injection Hidx as <-. rewrite Hset. discriminate.
      * rewrite He in He'. injection He' as <-. split; [intros j c0 Hj; left; exact Hj|]. split; [intros j v Hj; left; exact Hj|]. split; [intros; discriminate|].
        intros s0 rs vs j mi v Hev0 _ Hidx Hme Hm Hn Heon Hph Hval. injection Hev0 as <- <- <-.
        rewrite Hsi in Hidx. injection Hidx as <-. injection Hme as ->. rewrite Hmi in Hm. injection Hm as <-.
        rewrite Hv in Hn. injection Hn as <-.
        unfold handle_eval, check_eon_phase in Hh. rewrite Heon, N.eqb_refl, Hph, Nat.eqb_refl in Hh. simpl in Hh.
        unfold nth_opt. destruct (nth_error (p_evals (a_pure a)) si) as [[v1|]|]; [discriminate| |discriminate].
        rewrite Hval in Hh. simpl in Hh. destruct (set_nth _ _ _); discriminate.
    + assert (Ha : a' = a).
      { destruct (find_index (a_keypers ak) sender 0); [|injection Hrun as Hx; subst x'; simpl in He'; congruence].
        destruct (find_index (a_keypers ak) me 0); [|discriminate].
        destruct (find_index receivers me 0); [|injection Hrun as Hx; subst x'; simpl in He'; congruence].
        destruct (nth_error vals _) as [[v0|]|]; try discriminate; [|injection Hrun as Hx; subst x'; simpl in He'; congruence].
        destruct (handle_eval _ _ _ _ _ _ _ _ _); try discriminate; injection Hrun as Hx; subst x'; simpl in He';
          [rewrite nget_nins_other in He' by exact Hne|]; congruence. }
      destruct (Hsame Ha) as [A B]. repeat split; try assumption; try (intros; discriminate).
      intros s0 rs vs j mi v Hev0. injection Hev0 as _ Hq _ _. contradiction.
  - (* accusation: slots untouched *)
    destruct (event_keeps (d, s) h (DAccusation sender eon accused) x' e a Hrun He Hrow) as [a1 [H1 _]].
    unfold ent in H1. rewrite He' in H1. injection H1 as <-.
    revert Hrun. simpl. destruct (nget (sm_dkg s) eon) as [ak|] eqn:Hk;
      [|intros [= <-]; simpl in He'; rewrite He in He'; injection He' as <-; repeat split; try (intros; discriminate); intros j y Hj; left; exact Hj].
    destruct (negb _); [intros [= <-]; simpl in He'; rewrite He in He'; injection He' as <-; repeat split; try (intros; discriminate); intros j y Hj; left; exact Hj|].
    destruct (find_index _ _ _) as [si|]; intros [= <-]; simpl in He';
      [|rewrite He in He'; injection He' as <-; repeat split; try (intros; discriminate); intros j y Hj; left; exact Hj].
    destruct (N.eq_dec eon e) as [->|Hne].
    + rewrite He in Hk. injection Hk as <-. rewrite nget_nins_same in He'. injection He' as <-. simpl.
      destruct (accuse_all_keeps C E P (a_pure a) (a_keypers a) e si accused) as [_ [_ [_ [Hc Hv]]]].
      repeat split; try (intros; discriminate); intros j y Hj; left; [rewrite Hc in Hj|rewrite Hv in Hj]; exact Hj.
    + rewrite nget_nins_other in He' by exact Hne. rewrite He in He'. injection He' as <-.
      repeat split; try (intros; discriminate); intros j y Hj; left; exact Hj.
  - (* apology: slots untouched *)
    revert Hrun. simpl. destruct (nget (sm_dkg s) eon) as [ak|] eqn:Hk;
      [|intros [= <-]; simpl in He'; rewrite He in He'; injection He' as <-; repeat split; try (intros; discriminate); intros j y Hj; left; exact Hj].
    destruct (negb _); [intros [= <-]; simpl in He'; rewrite He in He'; injection He' as <-; repeat split; try (intros; discriminate); intros j y Hj; left; exact Hj|].
    destruct (find_index _ _ _) as [si|];
      [|intros [= <-]; simpl in He'; rewrite He in He'; injection He' as <-; repeat split; try (intros; discriminate); intros j y Hj; left; exact Hj].
    destruct (apologise_all _ _ _ _ _ _ _ _ _ _) as [p'|] eqn:Hh; [|discriminate]. intros [= <-]. simpl in He'.
    destruct (N.eq_dec eon e) as [->|Hne].
    + rewrite He in Hk. injection Hk as <-. rewrite nget_nins_same in He'. injection He' as <-. simpl.
      destruct (apologise_all_keeps C E P valid_eval _ _ _ _ _ _ _ Hh) as [_ [_ [_ [Hc Hv]]]].
      repeat split; try (intros; discriminate); intros j y Hj; left; [rewrite Hc in Hj|rewrite Hv in Hj]; exact Hj.
    + rewrite nget_nins_other in He' by exact Hne. rewrite He in He'. injection He' as <-.
      repeat split; try (intros; discriminate); intros j y Hj; left; exact Hj.
Qed.

End LiveDrv.
