(* C05 - a message that the combined validator of its topic accepted (in some state) is handled
   without a panic by every handler registered for its type (in any state satisfying the share
   table invariant), for every node flavour; the refutations for the pinned tree. *)
From Coq Require Import List NArith ZArith Bool Lia Permutation.
From Verif Require Import Lib.Bytes Lib.Assoc Model.EpochKG Model.EpochKGLabels Model.EpochKGHandler
     Model.KeysSig Model.Gossip Model.GossipMisc Proofs.KeysSig Proofs.EpochKG Proofs.EpochKGHandler
     Proofs.Gossip Proofs.GossipTotal.
Import ListNotations.

(* what acceptance of a key-shares message by the core validator gives the handler *)
Lemma validate_shares_accept_facts st m :
  validate_shares st m = GAccept ->
  (s_eon m <= max_int64)%N /\
  exists ks n t, dkg_for_config st (Z.of_N (s_eon m)) = Some (DkgOk ks n t) /\ (s_kidx m < n)%N.
Proof.
  unfold validate_shares, validate_prelude.
  destruct (negb _); [discriminate|].
  destruct (max_int64 <? s_eon m)%N eqn:Eo; [discriminate|]. apply N.ltb_ge in Eo.
  destruct (zlookup _ _); [|discriminate].
  destruct (negb _); [discriminate|].
  destruct (dkg_for_config st (Z.of_N (s_eon m))) as [[| |ks n t]|] eqn:Ed; try discriminate.
  destruct (_ =? _)%nat; [discriminate|].
  destruct (_ <? _)%Z; [discriminate|].
  unfold check_key_shares. destruct (n <=? s_kidx m)%N eqn:Er; [discriminate|]. apply N.leb_gt in Er.
  intros _. split; [exact Eo|]. exists ks, n, t. split; [reflexivity | exact Er].
Qed.

Lemma i64_small k : (k <= max_int64)%N -> i64_of_u64 k = Z.of_N k.
Proof.
  intros Hk. unfold i64_of_u64, max_int64 in *.
  assert (H : (Z.of_N k < 2 ^ 63)%Z) by (change (2 ^ 63)%Z with (Z.of_N (2 ^ 63)); lia).
  rewrite Z.mod_small by lia. destruct (Z.of_N k <? 2 ^ 63)%Z eqn:E; [reflexivity|]. apply Z.ltb_ge in E. lia.
Qed.

(* between validation (state st) and handling (state st') the database may have moved; what is
   assumed to stay is the size of the DKG result of a keyper config index (the number of
   keypers of a keyper set never changes), below 2^63 *)
Definition same_dkg_size (st st' : cstate) (eon : N) : Prop :=
  forall ks' n' t', dkg_for_config st' (Z.of_N eon) = Some (DkgOk ks' n' t') ->
    (n' < 2 ^ 63)%N /\
    forall ks n t, dkg_for_config st (Z.of_N eon) = Some (DkgOk ks n t) -> n = n'.

Lemma core_shares_fin o st st' s :
  validate_shares (g_core st) s = GAccept ->
  perm_oracle o -> shares_in_range (g_core st') -> same_dkg_size (g_core st) (g_core st') (s_eon s) ->
  core_shares_hres o st' s = HFin.
Proof.
  intros Ha Ho Hinv Hsame. unfold core_shares_hres.
  destruct (validate_shares_accept_facts _ _ Ha) as [He [ks [n [t [Hd Hlt]]]]].
  pose proof (core_shares_handle_total o (fun _ => LOther) (g_core st') s Ho Hinv) as Hnp.
  assert (Hk : forall ks0 n0 t0, dkg_for_config (g_core st') (i64_of_u64 (s_eon s)) = Some (DkgOk ks0 n0 t0) ->
                                 (s_kidx s < n0)%N /\ (n0 < 2 ^ 63)%N).
  { intros ks0 n0 t0 Hd'. rewrite (i64_small _ He) in Hd'. destruct (Hsame ks0 n0 t0 Hd') as [H63 Heq].
    rewrite <- (Heq ks n t Hd). split; [exact Hlt|]. rewrite (Heq ks n t Hd). exact H63. }
  specialize (Hnp Hk).
  destruct (snd (handle_shares_core o (fun _ => LOther) (g_core st') s)); simpl; try reflexivity. contradiction.
Qed.

Definition handle_premises (o : oracle kv) (st st' : gstate) (m : gmsg) : Prop :=
  perm_oracle o /\ shares_in_range (g_core st') /\
  match m with MShares s => same_dkg_size (g_core st) (g_core st') (s_eon s) | _ => True end.

Theorem handle_total nd o st st' tp w m :
  validators_for nd tp <> [] ->
  combined nd st tp tp w = VAccept -> unmarshal_pubsub w = Some m ->
  handle_premises o st st' m ->
  handle nd o st' m = HFin.
Proof.
  intros Hne Hacc Hu [Ho [Hinv Hsame]].
  apply (combined_accept_iff _ st tp tp w Hne (validators_of_topic _ tp)) in Hacc.
  destruct Hacc as [_ [m' [Hu' [Htp Hall]]]]. rewrite Hu in Hu'. injection Hu' as <-. subst tp.
  unfold handle, run_handlers.
  assert (Hget : forall v : validator, In v (validators_for nd (topic_of_type (type_of m))) -> snd v st m = GAccept).
  { apply Forall_forall. exact Hall. }
  clear Hall Hne Hu.
  destruct nd, m as [s|k|e|t|c]; simpl hseq; simpl fold_left; try reflexivity.
  - (* core, shares *)
    assert (Ha : snd v_core_shares st (MShares s) = GAccept)
      by (apply Hget; unfold validators_for, validators_of, registered, registered_with; simpl; auto).
    simpl in Ha. simpl. rewrite (core_shares_fin o st st' s Ha Ho Hinv Hsame). reflexivity.
  - (* gnosis, shares *)
    assert (Ha : snd v_core_shares st (MShares s) = GAccept)
      by (apply Hget; unfold validators_for, validators_of, registered, registered_with; simpl; auto).
    assert (Hg : snd v_gnosis_shares st (MShares s) = GAccept)
      by (apply Hget; unfold validators_for, validators_of, registered, registered_with; simpl; auto).
    simpl in Ha, Hg. simpl. rewrite (core_shares_fin o st st' s Ha Ho Hinv Hsame).
    rewrite (gnosis_shares_handle_total _ _ Hg). reflexivity.
  - (* gnosis, keys *)
    assert (Hg : snd v_gnosis_keys st (MKeys k) = GAccept)
      by (apply Hget; unfold validators_for, validators_of, registered, registered_with; simpl; auto).
    simpl in Hg. simpl. rewrite (gnosis_keys_handle_total _ _ Hg). reflexivity.
  - (* service, shares *)
    assert (Ha : snd v_core_shares st (MShares s) = GAccept)
      by (apply Hget; unfold validators_for, validators_of, registered, registered_with; simpl; auto).
    assert (Hg : snd v_service_shares st (MShares s) = GAccept)
      by (apply Hget; unfold validators_for, validators_of, registered, registered_with; simpl; auto).
    simpl in Ha, Hg. simpl. rewrite (core_shares_fin o st st' s Ha Ho Hinv Hsame).
    rewrite (service_shares_handle_total _ _ Hg). reflexivity.
  - (* service, keys *)
    assert (Hg : snd v_service_keys st (MKeys k) = GAccept)
      by (apply Hget; unfold validators_for, validators_of, registered, registered_with; simpl; auto).
    simpl in Hg. simpl. rewrite (service_keys_handle_total _ _ Hg). reflexivity.
  - (* primev, shares *)
    assert (Ha : snd v_core_shares st (MShares s) = GAccept)
      by (apply Hget; unfold validators_for, validators_of, registered, registered_with; simpl; auto).
    simpl in Ha. simpl. rewrite (core_shares_fin o st st' s Ha Ho Hinv Hsame). reflexivity.
  - (* snapshot, shares *)
    assert (Ha : snd v_core_shares st (MShares s) = GAccept)
      by (apply Hget; unfold validators_for, validators_of, registered, registered_with; simpl; auto).
    simpl in Ha. simpl. rewrite (core_shares_fin o st st' s Ha Ho Hinv Hsame). reflexivity.
Qed.

(* ------------------------------------------------------------------------------------- *)
(* The pinned tree *)

(* D5: a commitment the Primev validator accepts (equal list lengths, right instance) whose bid
   signature is shorter than 65 bytes makes the handler index out of range *)
Definition d5_msg : commit_msg := mkCommit 7 1 1 2.

Lemma legacy_handle_crashes :
  combined NPrimev d1_gstate TpCommit TpCommit (WEnv envelope_version (PMsg (MCommit d5_msg))) = VAccept /\
  legacy_handle NPrimev (fun _ rows => rows) d1_gstate (MCommit d5_msg) = HCrash.
Proof. split; vm_compute; reflexivity. Qed.

(* D3: with the signature validators of the pinned tree (Model/KeysSig.v legacy_validate_sigs,
   property C06) a Gnosis keys message with fewer signatures than signers was accepted, and the
   handler indexes the signatures over the signers *)
Definition d3_ks : keyperset := {| ks_keypers := [Some 10%N; Some 11%N; Some 12%N]; ks_threshold := 2 |}.
Definition d3_km : keys_msg :=
  mkKeysMsg 7 1 [([161%N], mkKV [1%N] (Some (LKey 0 [161%N])))] (KxGnosis 5 0 [0%N; 1%N] []).

Lemma legacy_sigs_then_handle_crashes :
  c_legacy_validate_sigs Gnosis d3_ks (to_keysmsg no_label d3_km) (k_signers d3_km) (k_sigs d3_km) = Accept /\
  handle_keys_gnosis d3_km = HCrash.
Proof. split; vm_compute; reflexivity. Qed.
