(* Invariants of the crash-prone keyper loop (Model/Outbox.v), each checked per primitive update
   of Proofs/OutboxEvolve.v:
     - the sync position and the applied-blocks log change only at the start of a committed
       block transaction, together                                   (blocks exactly once)
     - outbox ids are handed out in increasing order, rows only disappear, the send loop always
       takes the row with the smallest id                             (FIFO delivery)
     - a cached DKG instance that is not marked dirty equals the stored one, an eon without
       cache entry has no stored instance, start height and keyper list are those of the
       stored eon / config rows; after Save nothing is dirty          (cache = load db)          *)
From Coq Require Import List NArith ZArith Bool Lia Sorted.
From Verif Require Import Lib.Bytes Model.DKGPure Model.DKGDriver Model.Outbox Proofs.DKGChain Proofs.OutboxEvolve.
Import ListNotations.
Open Scope Z_scope.

Section OutboxProofs.
Variables C E P : Type.
Variable commit_of : P -> C.
Variable eval_of : P -> nat -> E.
Variable verify : nat -> E -> C -> bool.
Variable deg_ok : N -> C -> bool.
Variable valid_eval : E -> bool.
Variable me : addr.
Variable L : Z.
Variable enum : list (N * @active C E P) -> list (N * @active C E P).
Variable delta : Z.

Notation pure := (@DKGPure.pure C E P).
Notation active := (@active C E P).
Notation sm := (@sm C E P).
Notation db := (db C E P).
Notation st := (st C E P).
Notation dev := (dev C E).
Notation msg := (msg C E).
Notation prim := (prim C E P commit_of eval_of).
Notation evolves := (evolves C E P commit_of eval_of).
Notation world := (@world C E P).
Notation op := (@op C E P).
Notation step := (step C E P commit_of eval_of verify deg_ok valid_eval me L enum delta).
Notation run := (run C E P commit_of eval_of verify deg_ok valid_eval me L enum delta).
Notation handle_block := (handle_block C E P commit_of eval_of verify deg_ok valid_eval me L enum).

(* ================================================================ sync position *)
Definition sa (d : db) : Z * list (Z * list dev) := (db_sync _ _ _ d, db_applied _ _ _ d).

Lemma prim_sa x y : prim x y -> sa (fst y) = sa (fst x).
Proof. destruct 1; reflexivity. Qed.

Lemma evolves_sa x y : evolves x y -> sa (fst y) = sa (fst x).
Proof. induction 1; [reflexivity|]. rewrite IHevolves. apply prim_sa. assumption. Qed.

Lemma save_all_sa l : forall d : db, sa (save_all C E P d l) = sa d.
Proof.
  induction l as [|[eon a] r IH]; simpl; intros d; [reflexivity|].
  destruct (a_dirty a); rewrite IH; reflexivity.
Qed.

(* a committed block transaction: the height is the next one, and the position and the log
   advance by exactly this block *)
Lemma handle_block_sa poly (x : st) blk lch x' :
  handle_block poly x blk lch = TOk x' ->
  fst blk = db_sync _ _ _ (fst x) + 1 /\
  db_sync _ _ _ (fst x') = fst blk /\ db_applied _ _ _ (fst x') = db_applied _ _ _ (fst x) ++ [blk].
Proof.
  destruct x as [d s]. unfold DKGDriver.handle_block.
  destruct (load C E P d s) as [s1| |]; simpl; try discriminate.
  destruct (fst blk =? db_sync C E P d + 1) eqn:Hh; simpl; [|discriminate].
  apply Z.eqb_eq in Hh.
  destruct (shift_phases _ _ _ _ _ _ _ _ _ _ _ _) as [x2| |] eqn:Hs; simpl; try discriminate.
  destruct (handle_events _ _ _ _ _ _ _ _ _ _ _ _ _ _) as [x3| |] eqn:He; simpl; try discriminate.
  intros [= <-]. split; [exact Hh|].
  unfold shift_phases in Hs. apply shift_all_evolves in Hs. apply evolves_sa in Hs.
  apply handle_events_evolves in He. apply evolves_sa in He.
  pose proof (evolves_sa _ _ (send_poly_evals_evolves C E P commit_of eval_of (fst x3) (snd x3))) as Hp.
  unfold save. simpl.
  assert (Hfin : sa (save_all C E P (send_poly_evals C E P (fst x3)) (enum (sm_dkg (snd x3)))) =
                 (fst blk, db_applied C E P d ++ [blk])).
  { rewrite save_all_sa. simpl in Hp. rewrite Hp, He, Hs. reflexivity. }
  unfold sa in Hfin. injection Hfin as -> ->. split; reflexivity.
Qed.

(* on-chain transactions and deletions do not touch the position *)
Lemma on_chain_sa ksets o l1 o' :
  on_chain C E P me delta ksets o l1 = TOk o' -> sa (o_db o') = sa (o_db o).
Proof.
  unfold on_chain, keyper_set_changes.
  destruct (latest_cfg _) as [latest|]; simpl.
  - destruct (zget ksets _) as [ks|]; simpl.
    + destruct (invalid_set _ _ _); simpl.
      * intros [= <-]. unfold block_seen. simpl. destruct (Nat.eqb _ 0); reflexivity.
      * destruct (ks_act ks <? 0); simpl; [discriminate|].
        destruct (_ && _); simpl; intros [= <-]; unfold block_seen; simpl; destruct (Nat.eqb _ 0); reflexivity.
    + intros [= <-]. unfold block_seen. destruct (Nat.eqb _ 0); reflexivity.
  - intros [= <-]. unfold block_seen. destruct (Nat.eqb _ 0); reflexivity.
Qed.

(* the blocks a run feeds to the keyper come from one chain: block h is the h-th element *)
Definition from_chain (chain : list (Z * list dev)) (o : op) : Prop :=
  match o with
  | OBlock blk _ _ _ => nth_error chain (Z.to_nat (fst blk - 1)) = Some blk /\ 1 <= fst blk
  | _ => True
  end.

Definition exactly_once (chain : list (Z * list dev)) (w : world) : Prop :=
  0 <= db_sync _ _ _ (o_db (w_o w)) /\
  db_applied _ _ _ (o_db (w_o w)) = firstn (Z.to_nat (db_sync _ _ _ (o_db (w_o w)))) chain.

Lemma step_exactly_once chain w o w' :
  from_chain chain o -> step w o = Some w' -> exactly_once chain w -> exactly_once chain w'.
Proof.
  intros Hc Hs [Hpos Hinv]. destruct o as [blk lch poly commit|ksets l1 commit|r|commit|]; unfold Outbox.step in Hs.
  - destruct commit; [|injection Hs as <-; split; assumption].
    destruct (handle_block poly (o_db (w_o w), w_sm w) blk lch) as [[d' s']| |] eqn:Hb; try discriminate.
    injection Hs as <-. apply handle_block_sa in Hb. simpl in Hb. destruct Hb as [Hh [Hs' Ha']].
    destruct Hc as [Hn H1]. unfold exactly_once. simpl. rewrite Hs', Ha', Hinv. split; [lia|].
    replace (Z.to_nat (fst blk)) with (S (Z.to_nat (db_sync C E P (o_db (w_o w))))) by lia.
    replace (Z.to_nat (fst blk - 1)) with (Z.to_nat (db_sync C E P (o_db (w_o w)))) in Hn by lia.
    clear - Hn. revert Hn. generalize (Z.to_nat (db_sync C E P (o_db (w_o w)))) as n.
    induction chain as [|c r IH]; intros n Hn.
    + destruct n; discriminate.
    + destruct n; simpl in *.
      * injection Hn as ->. reflexivity.
      * f_equal. apply IH. exact Hn.
  - destruct commit; [|injection Hs as <-; split; assumption].
    destruct (on_chain _ _ _ _ _ _ _ _) as [o'| |] eqn:Ho; try discriminate. injection Hs as <-.
    apply on_chain_sa in Ho. unfold sa in Ho. injection Ho as H1 H2. unfold exactly_once. simpl.
    rewrite H1, H2. split; assumption.
  - destruct (head _ _ _ _) as [[id [ds m]]|]; [|injection Hs as <-; split; assumption].
    destruct r; injection Hs as <-; split; assumption.
  - destruct commit; [|injection Hs as <-; split; assumption].
    destruct (head _ _ _ _) as [[id x]|]; injection Hs as <-; split; assumption.
  - injection Hs as <-. split; assumption.
Qed.

Theorem blocks_exactly_once chain ops : forall w w',
  Forall (from_chain chain) ops -> run w ops = Some w' -> exactly_once chain w -> exactly_once chain w'.
Proof.
  induction ops as [|o r IH]; simpl; intros w w' Hf Hr Hi.
  - injection Hr as <-. exact Hi.
  - destruct (step w o) as [w1|] eqn:Hs; [|discriminate].
    inversion Hf as [|? ? Ho Hrest]; subst.
    eapply IH; [exact Hrest|exact Hr|]. eapply step_exactly_once; eassumption.
Qed.

Lemma init_exactly_once chain : exactly_once chain (world_init C E P).
Proof. split; simpl; [lia|reflexivity]. Qed.

(* ================================================================ outbox discipline *)
Definition ids (d : db) : list N := map fst (db_outbox _ _ _ d).

Definition ob_ok (d : db) : Prop :=
  StronglySorted N.lt (ids d) /\ Forall (fun i => N.lt i (db_nextid _ _ _ d)) (ids d).

Definition ob_mono (d d' : db) : Prop :=
  N.le (db_nextid _ _ _ d) (db_nextid _ _ _ d') /\
  forall i, In i (ids d') -> In i (ids d) \/ N.le (db_nextid _ _ _ d) i.

Lemma ob_mono_refl d : ob_mono d d.
Proof. split; [apply N.le_refl|]. intros i Hi. left. exact Hi. Qed.

Lemma ob_mono_trans a b c : ob_mono a b -> ob_mono b c -> ob_mono a c.
Proof.
  intros [H1 H2] [H3 H4]. split; [eapply N.le_trans; eassumption|].
  intros i Hi. destruct (H4 i Hi) as [Hb|Hb].
  - apply H2. exact Hb.
  - right. eapply N.le_trans; eassumption.
Qed.

Lemma sorted_snoc (l : list N) x : StronglySorted N.lt l -> Forall (fun i => N.lt i x) l -> StronglySorted N.lt (l ++ [x]).
Proof.
  induction l as [|y r IH]; simpl; intros Hs Hf.
  - constructor; constructor.
  - inversion Hs as [|? ? Hr Hy]; subst. inversion Hf as [|? ? Hyx Hrx]; subst.
    constructor; [apply IH; assumption|].
    apply Forall_app. split; [exact Hy|constructor; [exact Hyx|constructor]].
Qed.

Lemma sorted_filter {A} (f : A -> bool) (g : A -> N) l :
  StronglySorted N.lt (map g l) -> StronglySorted N.lt (map g (filter f l)).
Proof.
  induction l as [|y r IH]; simpl; intros Hs; [constructor|].
  inversion Hs as [|? ? Hr Hy]; subst.
  destruct (f y); simpl; [|apply IH; exact Hr].
  constructor; [apply IH; exact Hr|].
  apply Forall_forall. intros i Hi. rewrite Forall_forall in Hy. apply Hy.
  apply in_map_iff in Hi. destruct Hi as [z [<- Hz]]. apply in_map. apply filter_In in Hz. tauto.
Qed.

Lemma ob_sched (d : db) desc (m : msg) : ob_ok d -> ob_ok (schedule C E P d desc m) /\ ob_mono d (schedule C E P d desc m).
Proof.
  intros [Hs Hf]. unfold ob_ok, ob_mono, ids. simpl. rewrite map_app. simpl. split; [split|split].
  - apply sorted_snoc; assumption.
  - apply Forall_app. split.
    + eapply Forall_impl; [|exact Hf]. intros i Hi. simpl in Hi. lia.
    + constructor; [lia|constructor].
  - lia.
  - intros i Hi. apply in_app_or in Hi. destruct Hi as [Hi|[<-|[]]]; [left; exact Hi|right; apply N.le_refl].
Qed.

Lemma ob_filter (d : db) f :
  ob_ok d ->
  let d' := upd_db_outbox C E P d (filter f (db_outbox _ _ _ d)) (db_nextid _ _ _ d) in
  ob_ok d' /\ ob_mono d d'.
Proof.
  intros [Hs Hf]. unfold ob_ok, ob_mono, ids. simpl. split; [split|split].
  - apply sorted_filter. exact Hs.
  - apply Forall_forall. intros i Hi. rewrite Forall_forall in Hf. apply Hf.
    apply in_map_iff in Hi. destruct Hi as [z [<- Hz]]. apply in_map. apply filter_In in Hz. tauto.
  - apply N.le_refl.
  - intros i Hi. left. apply in_map_iff in Hi. destruct Hi as [z [<- Hz]]. apply in_map. apply filter_In in Hz. tauto.
Qed.

Lemma prim_ob x y : prim x y -> ob_ok (fst x) -> ob_ok (fst y) /\ ob_mono (fst x) (fst y).
Proof.
  destruct 1; simpl; intros Hok;
    try exact (ob_sched _ _ _ Hok); try exact (ob_filter _ _ Hok);
    try (split; [exact Hok|split; [apply N.le_refl|intros i Hi; left; exact Hi]]).
Qed.

Lemma evolves_ob x y : evolves x y -> ob_ok (fst x) -> ob_ok (fst y) /\ ob_mono (fst x) (fst y).
Proof.
  induction 1; intros Hok; [split; [exact Hok|apply ob_mono_refl]|].
  destruct (prim_ob _ _ H Hok) as [H1 H2]. destruct (IHevolves H1) as [H3 H4].
  split; [exact H3|eapply ob_mono_trans; eassumption].
Qed.

Lemma save_all_ob l : forall d : db,
  db_outbox _ _ _ (save_all C E P d l) = db_outbox _ _ _ d /\ db_nextid _ _ _ (save_all C E P d l) = db_nextid _ _ _ d.
Proof.
  induction l as [|[eon a] r IH]; simpl; intros d; [split; reflexivity|].
  destruct (a_dirty a); [|apply IH].
  destruct (IH (upd_db_pure C E P d (nset (db_pure C E P d) eon (a_pure a)))) as [A1 A2]. split; assumption.
Qed.

Lemma handle_block_ob poly (x : st) blk lch x' :
  handle_block poly x blk lch = TOk x' -> ob_ok (fst x) -> ob_ok (fst x') /\ ob_mono (fst x) (fst x').
Proof.
  destruct x as [d s]. unfold DKGDriver.handle_block.
  destruct (load C E P d s) as [s1| |]; simpl; try discriminate.
  destruct (fst blk =? db_sync C E P d + 1); simpl; [|discriminate].
  destruct (shift_phases _ _ _ _ _ _ _ _ _ _ _ _) as [x2| |] eqn:Hs; simpl; try discriminate.
  destruct (handle_events _ _ _ _ _ _ _ _ _ _ _ _ _ _) as [x3| |] eqn:He; simpl; try discriminate.
  intros [= <-] Hok.
  unfold shift_phases in Hs. apply shift_all_evolves in Hs.
  apply handle_events_evolves in He.
  pose proof (send_poly_evals_evolves C E P commit_of eval_of (fst x3) (snd x3)) as Hp.
  assert (Hall : evolves (upd_db_sync C E P d (fst blk) lch blk, s1) (send_poly_evals C E P (fst x3), snd x3)).
  { eapply ev_trans; [exact Hs|]. eapply ev_trans; [exact He|]. destruct x3; exact Hp. }
  apply evolves_ob in Hall; [|exact Hok]. simpl in Hall.
  unfold save. simpl. destruct (save_all_ob (enum (sm_dkg (snd x3))) (send_poly_evals C E P (fst x3))) as [E1 E2].
  unfold ob_ok, ob_mono, ids in *. rewrite E1, E2. exact Hall.
Qed.

Lemma on_chain_ob ksets o l1 o' :
  on_chain C E P me delta ksets o l1 = TOk o' -> ob_ok (o_db o) -> ob_ok (o_db o') /\ ob_mono (o_db o) (o_db o').
Proof.
  unfold on_chain. destruct (keyper_set_changes _ _ _ _ _ _ _) as [o1| |] eqn:Hk; simpl; try discriminate.
  intros [= <-] Hok.
  assert (H1 : ob_ok (o_db o1) /\ ob_mono (o_db o) (o_db o1)).
  { revert Hk. unfold keyper_set_changes. destruct (latest_cfg _) as [latest|]; [|intros [= <-]; split; [exact Hok|apply ob_mono_refl]].
    destruct (zget ksets _) as [ks|]; [|intros [= <-]; split; [exact Hok|apply ob_mono_refl]].
    destruct (invalid_set _ _ _); [intros [= <-]; split; [exact Hok|apply ob_mono_refl]|].
    destruct (ks_act ks <? 0); [discriminate|].
    destruct (_ && _); intros [= <-]; [split; [exact Hok|apply ob_mono_refl]|].
    simpl. apply ob_sched. exact Hok. }
  destruct H1 as [Hok1 Hm1]. unfold block_seen. destruct (Nat.eqb _ 0); [split; assumption|].
  simpl. destruct (ob_sched (o_db o1) None (MBlockSeen (Z.to_N l1)) Hok1) as [H2 H3].
  split; [exact H2|eapply ob_mono_trans; eassumption].
Qed.

Definition log_ids (w : world) : list N := map (fun e => fst (fst e)) (w_log w).

(* every id shuttermint has seen is below the sequence and not above any queued row; the
   sequence of ids shuttermint has seen never decreases *)
Definition fifo_inv (w : world) : Prop :=
  ob_ok (o_db (w_o w)) /\
  Forall (fun i => N.lt i (db_nextid _ _ _ (o_db (w_o w)))) (log_ids w) /\
  (forall i j, In i (log_ids w) -> In j (ids (o_db (w_o w))) -> N.le i j) /\
  StronglySorted N.le (log_ids w).

Lemma fifo_mono (w : world) (d' : db) o2 s2 :
  fifo_inv w -> ob_ok d' -> ob_mono (o_db (w_o w)) d' -> o_db o2 = d' ->
  fifo_inv (mkW o2 s2 (w_log w)).
Proof.
  intros [Hok [Hlt [Hle Hs]]] Hok' [Hn Hin] Heq. subst d'. unfold fifo_inv, log_ids in *. simpl.
  split; [exact Hok'|]. split; [|split; [|exact Hs]].
  - eapply Forall_impl; [|exact Hlt]. intros i Hi. simpl in Hi. lia.
  - intros i j Hi Hj. destruct (Hin j Hj) as [Hj'|Hj']; [apply Hle; assumption|].
    rewrite Forall_forall in Hlt. specialize (Hlt i Hi). simpl in Hlt. lia.
Qed.

Lemma sorted_le_snoc (l : list N) x : StronglySorted N.le l -> Forall (fun i => N.le i x) l -> StronglySorted N.le (l ++ [x]).
Proof.
  induction l as [|y r IH]; simpl; intros Hs Hf.
  - constructor; constructor.
  - inversion Hs as [|? ? Hr Hy]; subst. inversion Hf as [|? ? Hyx Hrx]; subst.
    constructor; [apply IH; assumption|].
    apply Forall_app. split; [exact Hy|constructor; [exact Hyx|constructor]].
Qed.

Lemma step_fifo w o w' : step w o = Some w' -> fifo_inv w -> fifo_inv w'.
Proof.
  intros Hs Hinv. destruct o as [blk lch poly commit|ksets l1 commit|r|commit|]; unfold Outbox.step in Hs.
  - destruct commit.
    + destruct (handle_block poly (o_db (w_o w), w_sm w) blk lch) as [[d' s']| |] eqn:Hb; try discriminate.
      injection Hs as <-. destruct (handle_block_ob _ _ _ _ _ Hb (proj1 Hinv)) as [H1 H2].
      eapply fifo_mono; [exact Hinv|exact H1|exact H2|reflexivity].
    + injection Hs as <-. destruct w as [o s lg]. exact Hinv.
  - destruct commit; [|injection Hs as <-; exact Hinv].
    destruct (on_chain _ _ _ _ _ _ _ _) as [o'| |] eqn:Ho; try discriminate. injection Hs as <-.
    destruct (on_chain_ob _ _ _ _ Ho (proj1 Hinv)) as [H1 H2].
    eapply fifo_mono; [exact Hinv|exact H1|exact H2|reflexivity].
  - unfold head in Hs. destruct (db_outbox C E P (o_db (w_o w))) as [|[id [ds m]] rest] eqn:Hout; [injection Hs as <-; exact Hinv|].
    assert (Hadd : forall a, fifo_inv (mkW (w_o w) (w_sm w) (w_log w ++ [(id, m, a)]))).
    { intros a. destruct Hinv as [Hok [Hlt [Hle Hsrt]]]. unfold fifo_inv, log_ids in *. simpl.
      rewrite map_app. simpl.
      assert (Hid : In id (ids (o_db (w_o w)))) by (unfold ids; rewrite Hout; left; reflexivity).
      split; [exact Hok|]. split; [|split].
      - apply Forall_app. split; [exact Hlt|]. constructor; [|constructor].
        destruct Hok as [_ Hf]. rewrite Forall_forall in Hf. apply Hf. exact Hid.
      - intros i j Hi Hj. apply in_app_or in Hi. destruct Hi as [Hi|[<-|[]]]; [apply Hle; assumption|].
        (* the head is the smallest queued id *)
        destruct Hok as [Hss _]. unfold ids in Hss, Hj. rewrite Hout in Hss, Hj. simpl in Hss, Hj.
        inversion Hss as [|? ? _ Hall]; subst. destruct Hj as [<-|Hj]; [apply N.le_refl|].
        rewrite Forall_forall in Hall. apply N.lt_le_incl. apply Hall. exact Hj.
      - apply sorted_le_snoc; [exact Hsrt|]. apply Forall_forall. intros i Hi. apply Hle; assumption. }
    destruct r; injection Hs as <-; [apply Hadd|apply Hadd|exact Hinv].
  - destruct commit; [|injection Hs as <-; exact Hinv].
    unfold head in Hs. destruct (db_outbox C E P (o_db (w_o w))) as [|[id x] rest] eqn:Hout; injection Hs as <-; [exact Hinv|].
    destruct (ob_filter (o_db (w_o w)) (fun r => negb (N.eqb (fst r) id)) (proj1 Hinv)) as [H1 H2].
    eapply fifo_mono; [exact Hinv|exact H1|exact H2|reflexivity].
  - injection Hs as <-. destruct w as [o s lg]. exact Hinv.
Qed.

Theorem fifo_delivery ops : forall w w', run w ops = Some w' -> fifo_inv w -> fifo_inv w'.
Proof.
  induction ops as [|o r IH]; simpl; intros w w' Hr Hi.
  - injection Hr as <-. exact Hi.
  - destruct (step w o) as [w1|] eqn:Hs; [|discriminate].
    eapply IH; [exact Hr|]. eapply step_fifo; eassumption.
Qed.

Lemma init_fifo : fifo_inv (world_init C E P).
Proof.
  unfold fifo_inv, ob_ok, log_ids, ids. simpl. repeat split; try constructor.
  intros i j [].
Qed.

(* liveness of the send loop: if shuttermint answers no queued message with an error, a send
   loop of as many rounds as there are queued rows delivers them all, in order *)
Fixpoint send_rounds (answers : list resp) : list op :=
  match answers with
  | [] => []
  | a :: r => OSend (SAnswer a) :: ODelete true :: send_rounds r
  end.

Lemma send_drains answers : forall w,
  length answers = length (db_outbox _ _ _ (o_db (w_o w))) -> ob_ok (o_db (w_o w)) ->
  exists w', run w (send_rounds answers) = Some w' /\ db_outbox _ _ _ (o_db (w_o w')) = [] /\
             map (fun e => snd (fst e)) (w_log w') =
             map (fun e => snd (fst e)) (w_log w) ++ map (fun r => snd (snd r)) (db_outbox _ _ _ (o_db (w_o w))).
Proof.
  induction answers as [|a r IH]; simpl; intros w Hlen Hok.
  - destruct (db_outbox C E P (o_db (w_o w))) eqn:Hout; [|discriminate]. exists w. rewrite app_nil_r.
    split; [reflexivity|]. split; [exact Hout|reflexivity].
  - unfold head. destruct (db_outbox C E P (o_db (w_o w))) as [|[id [ds m]] rest] eqn:Hout; [discriminate|].
    simpl. unfold head. simpl. rewrite Hout.
    set (w1 := mkW (with_db C E P (w_o w) (delete_id C E P (o_db (w_o w)) id)) (w_sm w) (w_log w ++ [(id, m, a)])).
    assert (Hrest : db_outbox C E P (o_db (w_o w1)) = rest).
    { unfold w1, delete_id. simpl. rewrite Hout. simpl. rewrite N.eqb_refl. simpl.
      destruct Hok as [Hss _]. unfold ids in Hss. rewrite Hout in Hss. simpl in Hss.
      inversion Hss as [|? ? _ Hall]; subst.
      clear - Hall. induction rest as [|[j x] t IHt]; simpl; [reflexivity|].
      inversion Hall as [|? ? Hj Ht]; subst. simpl in Hj.
      destruct (N.eqb j id) eqn:Ej; [apply N.eqb_eq in Ej; subst; exfalso; apply (N.lt_irrefl _ Hj)|].
      simpl. f_equal. apply IHt. exact Ht. }
    destruct (IH w1) as [w' [Hrun [Hempty Hlog]]].
    + rewrite Hrest. simpl in Hlen. lia.
    + destruct (ob_filter (o_db (w_o w)) (fun r0 => negb (N.eqb (fst r0) id)) Hok) as [H1 _]. exact H1.
    + exists w'. split; [exact Hrun|]. split; [exact Hempty|].
      rewrite Hlog, Hrest. unfold w1. simpl. rewrite map_app. simpl. rewrite <- app_assoc. reflexivity.
Qed.

(* ================================================================ what is sent, what is queued *)
Lemma step_sends_head w o w' :
  step w o = Some w' ->
  w_log w' = w_log w \/
  exists id ds m a, head C E P (o_db (w_o w)) = Some (id, (ds, m)) /\ w_log w' = w_log w ++ [(id, m, a)] /\ w_o w' = w_o w.
Proof.
  intros Hs. destruct o as [blk lch poly commit|ksets l1 commit|r|commit|]; unfold Outbox.step in Hs.
  - destruct commit; [|injection Hs as <-; left; reflexivity].
    destruct (handle_block poly (o_db (w_o w), w_sm w) blk lch) as [[d' s']| |]; try discriminate.
    injection Hs as <-. left. reflexivity.
  - destruct commit; [|injection Hs as <-; left; reflexivity].
    destruct (on_chain _ _ _ _ _ _ _ _) as [o'| |]; try discriminate. injection Hs as <-. left. reflexivity.
  - destruct (head C E P (o_db (w_o w))) as [[id [ds m]]|] eqn:Hh; [|injection Hs as <-; left; reflexivity].
    destruct r as [a|a|]; injection Hs as <-; [right|right|left; reflexivity];
      exists id, ds, m, a; repeat split; reflexivity.
  - destruct commit; [|injection Hs as <-; left; reflexivity].
    destruct (head _ _ _ _) as [[id x]|]; injection Hs as <-; left; reflexivity.
  - injection Hs as <-. left. reflexivity.
Qed.

Lemma insert_evals_outbox eon keypers l : forall (d d' : db),
  insert_evals C E P d eon keypers l = TOk d' -> db_outbox _ _ _ d' = db_outbox _ _ _ d.
Proof.
  induction l as [|[r v] rest IH]; simpl; intros d d' H.
  - injection H as <-. reflexivity.
  - destruct (nth_error keypers r); [|discriminate]. destruct (existsb _ _); [discriminate|].
    apply IH in H. simpl in H. exact H.
Qed.

Lemma start1_commits poly_for (d : db) (s : sm) eon (a : active) d1 s1 a1 :
  start1 C E P commit_of eval_of valid_eval poly_for (d, s) eon a = TOk ((d1, s1), a1) ->
  p_poly (a_pure a1) = Some (poly_for eon) /\ a_dirty a1 = true /\ nget (sm_dkg s1) eon = Some a1 /\
  In (MCommit eon (commit_of (poly_for eon))) (map (fun r => snd (snd r)) (db_outbox _ _ _ d1)).
Proof.
  unfold DKGDriver.start1.
  destruct (start_phase1 C E P commit_of eval_of valid_eval (a_pure a) (poly_for eon)) as [[[p' c] evals]|] eqn:Hs; [|discriminate].
  destruct (insert_evals _ _ _ _ _ _ _) as [d2| |] eqn:Hi; simpl; try discriminate.
  intros [= <- <- <-]. apply insert_evals_outbox in Hi. simpl in Hi.
  assert (Hp : p_poly p' = Some (poly_for eon) /\ c = commit_of (poly_for eon)).
  { revert Hs. unfold start_phase1. destruct (advance (a_pure a) Off) as [q|]; [|discriminate].
    destruct (Nat.ltb _ _).
    - unfold handle_eval. destruct (negb _); [discriminate|]. destruct (negb _); [discriminate|].
      destruct (nth_error _ _) as [[?|]|]; try discriminate. destruct (negb _); [discriminate|].
      destruct (set_nth _ _ _); [|discriminate]. intros [= <- <- _]. split; reflexivity.
    - intros [= <- <- _]. split; reflexivity. }
  destruct Hp as [Hp ->]. split; [exact Hp|]. split; [reflexivity|]. split; [apply nget_nins_same|].
  rewrite Hi, map_app. apply in_or_app. right. left. reflexivity.
Qed.

End OutboxProofs.
