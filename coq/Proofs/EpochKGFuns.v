(* keyper/epochkg/epochkg.go as translated statement by statement on this run
   (Generated/EpochKGFuns.v) does what the hand-written model (Model/EpochKG.v) does.

   Two steps.
   1. [gen_handle_is_ref]: the translated HandleEpochSecretKeyShare (with every method it calls
      unfolded) equals a reference decision tree [ref_handle] written in the translator's
      vocabulary.  The proof unfolds, rewrites the append loops into maps and then destructs
      every boolean atom, so a harmless re-ordering or re-grouping of the source survives; a
      different guard, comparison, map key expression, stored value or deletion does not.
      Errors are compared by class (the prefixes the driver also classifies by).
   2. [ref_handle_sim]: under the environment assumptions [env_models] (what the shcrypto calls
      and the struct fields mean) the reference tree simulates [handle_share] of the model, for
      the relation "same maps up to the injective key function Hex of the identity, pending
      entries projected to (sender, share value)". *)
From Coq Require Import List NArith ZArith Bool Lia String.
From Verif Require Import Lib.Bytes Lib.Assoc Model.EpochKG Generated.EpochKGFuns.
Import ListNotations.

(* ---- error classes (the same prefixes harness/cmd/c01 classifies by) ---- *)
Definition err_class (e : option string) : N :=
  match e with
  | None => 0
  | Some s => if String.prefix "cannot verify" s then 1
              else if String.prefix "already have" s then 2 else 3
  end%N.

Definition gclass {S : Type} (r : gout (S * option string)) : gout (S * N) :=
  match r with GOk (st, e) => GOk (st, err_class e) | GPanic => GPanic end.

Definition two63 : N := 9223372036854775808.

Definition ocode (o : outcome) : N :=
  match o with Ok => 0 | ErrVerify => 1 | ErrDup => 2 | ErrCombine => 3 | Panic => 4 end%N.

(* ---- step 1: the reference decision tree, in the translator's vocabulary ---- *)
Definition ref_handle {V EID PK : Type} (E : genv V EID PK) (sh : share V) (st : gstate V)
  : gout (gstate V * N) :=
  let k := gk E KHex (sh_ident sh) in
  if amem (g_SecretKeys st) k then GOk (st, 0%N)
  else if (len_PublicKeyShares E <=? sh_sender sh)%N then GPanic
  else if x_VerifyEpochSecretKeyShare E (sh_val sh) (at_PublicKeyShares E (sh_sender sh))
            (x_ComputeEpochID E (sh_ident sh))
  then
    let shares := gen_get_list (g_SecretShares st) k in
    if existsb (fun s => (sh_sender s =? sh_sender sh)%N) shares then GOk (st, 2%N)
    else
      let shares' := (shares ++ [sh])%list in
      if (Z.of_nat (List.length shares') =? gen_int_of_u64 (f_Threshold E))%Z
      then
        let r := x_ComputeEpochSecretKey E (map (fun s => gen_int_of_u64 (sh_sender s)) shares')
                   (map (fun s => sh_val s) shares') (f_Threshold E) in
        GOk (mk_gstate (adel (g_SecretShares st) k) (aset (g_SecretKeys st) k (fst r)), err_class (snd r))
      else GOk (mk_gstate (aset (g_SecretShares st) k shares') (g_SecretKeys st), 0%N)
  else GOk (st, 1%N).

Lemma fold_append_map {A B} (f : A -> B) (l : list A) (acc : list B) :
  fold_left (fun acc x => (acc ++ [f x])%list) l acc = (acc ++ map f l)%list.
Proof.
  revert acc. induction l as [|x l IH]; intros acc; simpl; [rewrite app_nil_r; reflexivity|].
  rewrite IH, <- app_assoc. reflexivity.
Qed.

(* destruct the innermost boolean atom of a condition *)
Ltac split_atom c :=
  lazymatch c with
  | negb ?a => split_atom a
  | andb ?a ?b => first [split_atom a | split_atom b]
  | orb ?a ?b => first [split_atom a | split_atom b]
  | true => fail
  | false => fail
  | _ => destruct c eqn:?
  end.

Ltac atoms :=
  repeat (cbn [negb andb orb fst snd app gclass gen_is_some gen_is_nil g_SecretShares g_SecretKeys];
          rewrite ?fold_append_map;
          match goal with
          | |- context [gen_is_some ?o] => destruct o eqn:?
          | |- context [gen_is_nil ?l] => destruct l eqn:?
          | |- context [if ?c then _ else _] => split_atom c
          | |- context [match ?p with (_, _) => _ end] => destruct p eqn:?
          | |- context [match ?o with Some _ => _ | None => _ end] =>
              lazymatch o with aget _ _ => fail | _ => destruct o eqn:? end
          end).

Lemma gen_handle_is_ref {V EID PK : Type} (E : genv V EID PK) (sh : share V) (st : gstate V) :
  gclass (gen_HandleEpochSecretKeyShare E sh st) = ref_handle E sh st.
Proof.
  unfold gen_HandleEpochSecretKeyShare, gen_addEpochSecretKeyShare, gen_computeEpochSecretKey, ref_handle.
  cbv zeta. rewrite ?fold_append_map. cbn [app g_SecretShares g_SecretKeys].
  atoms; cbn [negb andb orb fst snd app gclass gen_is_some gen_is_nil g_SecretShares g_SecretKeys];
    repeat match goal with
           | H : x_ComputeEpochSecretKey _ _ _ _ = _ |- _ => rewrite H in *; clear H
           | H : (_ ++ [_])%list = [] |- _ => exfalso; exact (app_cons_not_nil _ _ _ (eq_sym H))
           end; cbn [fst snd]; try reflexivity; try congruence.
Qed.

(* ---- association lists related through an injective renaming of the keys ---- *)
Section ARel.
  Context {A B : Type}.
  Variable f : bytes -> bytes.
  Hypothesis f_inj : forall x y, f x = f y -> x = y.
  Variable Rv : A -> B -> Prop.

  Definition arel (g : amap A) (m : amap B) : Prop :=
    Forall2 (fun ge me => fst ge = f (fst me) /\ Rv (snd ge) (snd me)) g m.

  Lemma beq_f x y : bytes_eqb (f x) (f y) = bytes_eqb x y.
  Proof.
    destruct (bytes_eqb x y) eqn:E.
    - apply bytes_eqb_eq in E. subst. apply bytes_eqb_refl.
    - apply bytes_eqb_neq. apply bytes_eqb_neq in E. intros H. apply E. apply f_inj. exact H.
  Qed.

  Lemma arel_aget g m x :
    arel g m ->
    match aget g (f x), aget m x with
    | Some a, Some b => Rv a b
    | None, None => True
    | _, _ => False
    end.
  Proof.
    induction 1 as [|[gk0 gv] [mk0 mv] g m [Hk Hv] _ IH]; simpl; [exact I|].
    simpl in Hk, Hv. subst gk0. rewrite beq_f. destruct (bytes_eqb mk0 x); [exact Hv|exact IH].
  Qed.

  Lemma arel_amem g m x : arel g m -> amem g (f x) = amem m x.
  Proof.
    intros H. apply (arel_aget g m x) in H. unfold amem.
    destruct (aget g (f x)), (aget m x); tauto.
  Qed.

  Lemma arel_aset g m x a b : arel g m -> Rv a b -> arel (aset g (f x) a) (aset m x b).
  Proof.
    intros H Hab. induction H as [|[gk0 gv] [mk0 mv] g m [Hk Hv] H' IH]; simpl.
    - constructor; [split; [reflexivity|exact Hab]|constructor].
    - simpl in Hk, Hv. subst gk0. rewrite beq_f. destruct (bytes_eqb mk0 x).
      + constructor; [split; [reflexivity|exact Hab]|exact H'].
      + constructor; [split; [reflexivity|exact Hv]|exact IH].
  Qed.

  Lemma arel_adel g m x : arel g m -> arel (adel g (f x)) (adel m x).
  Proof.
    intros H. induction H as [|[gk0 gv] [mk0 mv] g m [Hk Hv] H' IH]; simpl; [constructor|].
    simpl in Hk, Hv. subst gk0. rewrite beq_f. destruct (bytes_eqb mk0 x); [exact H'|].
    constructor; [split; [reflexivity|exact Hv]|exact IH].
  Qed.
End ARel.

(* ---- step 2: the reference tree simulates the model ---- *)
Section Sim.
  Variables V EID PK : Type.
  Variable E : genv V EID PK.
  Variable verify : N -> bytes -> V -> bool.
  Variable combine : list (N * V) -> V.
  Variables n t : N.

  Definition proj (s : share V) : N * V := (sh_sender s, sh_val s).

  (* what the environment of the translated code means in the model's terms *)
  Definition env_models : Prop :=
    (forall x y, gk E KHex x = gk E KHex y -> x = y) /\
    len_PublicKeyShares E = n /\
    f_Threshold E = t /\
    (forall sh, x_VerifyEpochSecretKeyShare E (sh_val sh) (at_PublicKeyShares E (sh_sender sh))
                  (x_ComputeEpochID E (sh_ident sh))
                = verify (sh_sender sh) (sh_ident sh) (sh_val sh)) /\
    (forall l : list (share V), Forall (fun s => (sh_sender s < n)%N) l ->
       let r := x_ComputeEpochSecretKey E (map (fun s => gen_int_of_u64 (sh_sender s)) l)
                  (map (fun s => sh_val s) l) t in
       fst r = compute_epoch_secret_key V combine t (map proj l) /\
       err_class (snd r) = match fst r with Some _ => 0 | None => 3 end%N).

  (* the translated state is the model state with keys renamed by Hex(identity) and pending
     shares projected to (sender, value); every pending sender is a keyper of the set *)
  Definition state_rel (g : gstate V) (m : state V) : Prop :=
    arel (gk E KHex) (fun gl ml => map proj gl = ml /\ Forall (fun s => (sh_sender s < n)%N) gl)
         (g_SecretShares g) (pending m) /\
    arel (gk E KHex) eq (g_SecretKeys g) (keys m).

  Lemma existsb_proj (l : list (share V)) s :
    existsb (fun x => (sh_sender x =? s)%N) l = existsb (fun p => (fst p =? s)%N) (map proj l).
  Proof. induction l as [|a l IH]; simpl; [reflexivity|]. rewrite IH. reflexivity. Qed.

  Lemma threshold_test k :
    (t < 9223372036854775808)%N ->
    (Z.of_nat k =? gen_int_of_u64 t)%Z = (N.of_nat k =? t)%N.
  Proof.
    intros Ht. unfold gen_int_of_u64.
    rewrite Z.mod_small by lia.
    assert ((Z.of_N t <? 9223372036854775808)%Z = true) as -> by (apply Z.ltb_lt; lia).
    destruct (N.of_nat k =? t)%N eqn:Ek.
    - apply N.eqb_eq in Ek. apply Z.eqb_eq. lia.
    - apply N.eqb_neq in Ek. apply Z.eqb_neq. lia.
  Qed.

  Lemma ref_handle_sim g m sh :
    env_models -> (t < 9223372036854775808)%N -> state_rel g m ->
    match ref_handle E sh g with
    | GOk (g', c) =>
        state_rel g' (fst (handle_share V verify combine n t m sh)) /\
        c = ocode (snd (handle_share V verify combine n t m sh))
    | GPanic => handle_share V verify combine n t m sh = (m, Panic)
    end.
  Proof.
    intros [Hinj [Hn [Ht [Hver Hcomp]]]] Htb [Rp Rk].
    unfold ref_handle, handle_share. cbv zeta.
    rewrite (arel_amem _ Hinj _ _ _ (sh_ident sh) Rk).
    destruct (amem (keys m) (sh_ident sh)); [split; [split; assumption|reflexivity]|].
    rewrite Hn. destruct (n <=? sh_sender sh)%N eqn:En; [reflexivity|].
    apply N.leb_gt in En.
    rewrite Hver. destruct (verify (sh_sender sh) (sh_ident sh) (sh_val sh)); cbn [negb];
      [|split; [split; assumption|reflexivity]].
    unfold add_share, pending_of, gen_get_list. cbv zeta.
    pose proof (arel_aget _ Hinj _ _ _ (sh_ident sh) Rp) as Hg.
    set (gl := match aget (g_SecretShares g) (gk E KHex (sh_ident sh)) with Some l => l | None => [] end).
    set (ml := match aget (pending m) (sh_ident sh) with Some l => l | None => [] end).
    assert (Hl : map proj gl = ml /\ Forall (fun s => (sh_sender s < n)%N) gl).
    { unfold gl, ml. destruct (aget (g_SecretShares g) (gk E KHex (sh_ident sh))), (aget (pending m) (sh_ident sh));
        try contradiction; [exact Hg|split; [reflexivity|constructor]]. }
    destruct Hl as [Hml Hbl].
    rewrite existsb_proj, Hml.
    destruct (existsb (fun p => (fst p =? sh_sender sh)%N) ml); [split; [split; assumption|reflexivity]|].
    assert (Hml' : map proj (gl ++ [sh]) = ml ++ [(sh_sender sh, sh_val sh)]).
    { rewrite map_app, Hml. reflexivity. }
    assert (Hbl' : Forall (fun s => (sh_sender s < n)%N) (gl ++ [sh])).
    { apply Forall_app. split; [exact Hbl|constructor; [exact En|constructor]]. }
    rewrite Ht, threshold_test by exact Htb.
    replace (List.length (gl ++ [sh])) with (List.length (ml ++ [(sh_sender sh, sh_val sh)]))
      by (rewrite <- Hml', map_length; reflexivity).
    destruct (N.of_nat (List.length (ml ++ [(sh_sender sh, sh_val sh)])) =? t)%N eqn:Et; cbn [negb].
    - destruct (Hcomp (gl ++ [sh]) Hbl') as [Hfst Hcls]. cbv zeta in Hfst, Hcls.
      rewrite Hml' in Hfst. cbn [fst snd]. rewrite Hcls, Hfst. split.
      + split; cbn [g_SecretShares g_SecretKeys pending keys].
        * apply arel_adel; assumption.
        * apply arel_aset; [assumption..|reflexivity].
      + destruct (compute_epoch_secret_key V combine t (ml ++ [(sh_sender sh, sh_val sh)])); reflexivity.
    - split; [|reflexivity]. split; cbn [g_SecretShares g_SecretKeys pending keys fst]; [|exact Rk].
      apply arel_aset; [assumption..|]. split; assumption.
  Qed.

  (* ---- whole runs ---- *)

  (* one call of the translated handler; a panic leaves the state as it was before the call
     (the translated bounds test precedes every update) *)
  Definition gen_step (gs : gstate V * list N) (sh : share V) : gstate V * list N :=
    match gclass (gen_HandleEpochSecretKeyShare E sh (fst gs)) with
    | GOk (g', c) => (g', snd gs ++ [c])
    | GPanic => (fst gs, snd gs ++ [4%N])
    end.
  Definition gen_run (l : list (share V)) : gstate V * list N := fold_left gen_step l (gen_init, []).

  Lemma outcomes_from_snoc st l sh :
    outcomes_from V verify combine n t st (l ++ [sh]) =
    outcomes_from V verify combine n t st l ++
      [snd (handle_share V verify combine n t (run_from V verify combine n t st l) sh)].
  Proof.
    revert st. induction l as [|a l IH]; intros st; simpl.
    - destruct (handle_share V verify combine n t st sh); reflexivity.
    - destruct (handle_share V verify combine n t st a) as [st' o] eqn:Ea. simpl.
      rewrite IH. unfold step. rewrite Ea. reflexivity.
  Qed.

  Theorem gen_run_agrees l :
    env_models -> (t < 9223372036854775808)%N ->
    state_rel (fst (gen_run l)) (run V verify combine n t l) /\
    snd (gen_run l) = map ocode (outcomes V verify combine n t l).
  Proof.
    intros He Ht. induction l as [|sh l IH] using rev_ind.
    - split; [split; constructor|reflexivity].
    - destruct IH as [IHs IHo]. unfold gen_run, run, run_from, outcomes in *.
      rewrite !fold_left_app. cbn [fold_left].
      rewrite outcomes_from_snoc, map_app. cbn [map].
      set (gs := fold_left gen_step l (gen_init, [])) in *.
      set (ms := fold_left (step V verify combine n t) l init) in *.
      assert (Hstep : gen_step gs sh =
                match ref_handle E sh (fst gs) with
                | GOk (g', c) => (g', snd gs ++ [c])
                | GPanic => (fst gs, snd gs ++ [4%N])
                end) by (unfold gen_step; rewrite gen_handle_is_ref; reflexivity).
      rewrite Hstep. clear Hstep.
      pose proof (ref_handle_sim (fst gs) ms sh He Ht IHs) as Hs.
      unfold step, run_from. fold ms.
      destruct (ref_handle E sh (fst gs)) as [[g' c]|].
      + destruct Hs as [Hr Hc]. cbn [fst snd]. split; [exact Hr|]. rewrite IHo, Hc. reflexivity.
      + rewrite Hs. cbn [fst snd]. split; [exact IHs|]. rewrite IHo. reflexivity.
  Qed.
End Sim.

(* the handler reads EpochKG's maps with the same key function *)
Lemma handler_key_reads_hex : Forall (eq KHex) gen_handler_key_reads.
Proof. repeat constructor. Qed.

(* ---- the environment assumptions are satisfiable ---- *)
Section Witness.
  Variable V : Type.
  Variable verify : N -> bytes -> V -> bool.
  Variable combine : list (N * V) -> V.
  Variables n t : N.

  Definition model_env : genv V bytes N :=
    mk_genv V bytes N (fun _ x => x) 0 n t 0 n (fun i => i) (fun x => x)
      (fun v pk x => verify pk x v)
      (fun idx vals _ =>
         match compute_epoch_secret_key V combine t (List.combine (map gen_wrap_u64 idx) vals) with
         | Some k => (Some k, None)
         | None => (None, Some "got a number of shares that is not the threshold"%string)
         end).

  Lemma wrap_int_of_u64 s : (s < 18446744073709551616)%N -> gen_wrap_u64 (gen_int_of_u64 s) = s.
  Proof.
    intros Hs. unfold gen_wrap_u64, gen_int_of_u64.
    rewrite (Z.mod_small (Z.of_N s)) by lia.
    destruct (Z.of_N s <? 9223372036854775808)%Z eqn:E.
    - rewrite Z.mod_small by lia. lia.
    - apply Z.ltb_ge in E.
      replace (Z.of_N s - 18446744073709551616)%Z with (Z.of_N s + (-1) * 18446744073709551616)%Z by lia.
      rewrite Z.mod_add by lia. rewrite Z.mod_small by lia. lia.
  Qed.

  Lemma model_env_models : (n <= 18446744073709551616)%N -> env_models V bytes N model_env verify combine n t.
  Proof.
    intros Hn. unfold env_models, model_env. cbn.
    split; [auto|]. split; [reflexivity|]. split; [reflexivity|]. split; [reflexivity|].
    intros l Hl.
    assert (List.combine (map gen_wrap_u64 (map (fun s => gen_int_of_u64 (sh_sender s)) l)) (map (fun s => sh_val s) l)
            = map (proj V) l) as ->.
    { induction Hl as [|s l Hs _ IH]; simpl; [reflexivity|].
      rewrite IH, wrap_int_of_u64 by lia. reflexivity. }
    destruct (compute_epoch_secret_key V combine t (map (proj V) l)); split; reflexivity.
  Qed.
End Witness.

(* ---- a concrete run of the translated code (n = 3, t = 2, junk interleaved) ---- *)
From Verif Require Import Model.EpochKGLabels Proofs.EpochKGExamples.
Definition example_codes : list N := [0; 1; 0; 2; 1; 1; 0; 0]%N.
Lemma example_translated_run :
  env_models lbl bytes N (model_env lbl verify_l combine_l Ex.n Ex.t) verify_l combine_l Ex.n Ex.t /\
  (Ex.t < two63)%N /\
  snd (gen_run lbl bytes N (model_env lbl verify_l combine_l Ex.n Ex.t) Ex.l) = example_codes /\
  gen_get_opt (g_SecretKeys (fst (gen_run lbl bytes N (model_env lbl verify_l combine_l Ex.n Ex.t) Ex.l))) Ex.A
    = Some (LKey 0 Ex.A).
Proof.
  split; [apply model_env_models; vm_compute; discriminate|].
  split; [reflexivity|]. split; vm_compute; reflexivity.
Qed.
