(* The public part of every keyper's DKG state is a function of the chain.

   An *observer* [gst] reads the same blocks as a keyper but has no address, no keys and no
   polynomial: it keeps the batch configs, the set of eons seen, per running eon the public
   part of a PureDKG (phase, commitments, accusations, apologies) with the start height and the
   keyper list, and per finished eon the final public part.  [g_block] is its block step; it
   does not mention any keyper.  [chain_inv] relates a keyper's (db, sm) to the observer's
   state, and [handle_block_inv] shows that a committed block transaction of the model
   Model/DKGDriver.v preserves it.  Two keypers that processed the same blocks are related to
   the same observer state, hence to each other. *)
From Coq Require Import List NArith ZArith Bool Lia.
From Verif Require Import Lib.Bytes Model.DKGPure Model.DKGDriver Proofs.DKGPure.
Import ListNotations.
Open Scope Z_scope.

(* ---- association lists keyed by N ---- *)
Section NMapLemmas.
  Context {V : Type}.
  Implicit Types m : list (N * V).

  Lemma nget_nset_same m k v : nget (nset m k v) k = Some v.
  Proof.
    induction m as [|[k' v'] r IH]; simpl.
    - rewrite N.eqb_refl. reflexivity.
    - destruct (N.eqb k' k) eqn:E; simpl; rewrite E; auto.
  Qed.

  Lemma nget_nset_other m k k' v : k <> k' -> nget (nset m k v) k' = nget m k'.
  Proof.
    intros Hne. induction m as [|[k0 v0] r IH]; simpl.
    - destruct (N.eqb k k') eqn:E; [apply N.eqb_eq in E; contradiction|reflexivity].
    - destruct (N.eqb k0 k) eqn:E; simpl.
      + apply N.eqb_eq in E. subst k0. destruct (N.eqb k k') eqn:E2; [apply N.eqb_eq in E2; contradiction|reflexivity].
      + destruct (N.eqb k0 k'); auto.
  Qed.

  Lemma nget_nins_same m k v : nget (nins m k v) k = Some v.
  Proof.
    induction m as [|[k' v'] r IH]; simpl.
    - rewrite N.eqb_refl. reflexivity.
    - destruct (N.eqb k' k) eqn:E; simpl; [rewrite N.eqb_refl; reflexivity|].
      destruct (N.ltb k k'); simpl; [rewrite N.eqb_refl; reflexivity|]. rewrite E. exact IH.
  Qed.

  Lemma nget_nins_other m k k' v : k <> k' -> nget (nins m k v) k' = nget m k'.
  Proof.
    intros Hne. assert (Hkk : N.eqb k k' = false) by (apply N.eqb_neq; exact Hne).
    induction m as [|[k0 v0] r IH]; simpl.
    - rewrite Hkk. reflexivity.
    - destruct (N.eqb k0 k) eqn:E; simpl.
      + apply N.eqb_eq in E. subst k0. rewrite Hkk. reflexivity.
      + destruct (N.ltb k k0); simpl; [rewrite Hkk; reflexivity|].
        destruct (N.eqb k0 k'); [reflexivity|exact IH].
  Qed.

  Lemma nget_ndel_same m k : nget (ndel m k) k = None.
  Proof.
    induction m as [|[k0 v0] r IH]; simpl; [reflexivity|].
    destruct (N.eqb k0 k) eqn:E; simpl; [exact IH|rewrite E; exact IH].
  Qed.

  Lemma nget_ndel_other m k k' : k <> k' -> nget (ndel m k) k' = nget m k'.
  Proof.
    intros Hne. induction m as [|[k0 v0] r IH]; simpl; [reflexivity|].
    destruct (N.eqb k0 k) eqn:E; simpl.
    - apply N.eqb_eq in E. subst k0. destruct (N.eqb k k') eqn:E2; [apply N.eqb_eq in E2; contradiction|exact IH].
    - destruct (N.eqb k0 k'); auto.
  Qed.

  Lemma nget_app_none m k k' v : nget m k = None -> nget (m ++ [(k, v)]) k' = if N.eqb k k' then Some v else nget m k'.
  Proof.
    induction m as [|[k0 v0] r IH]; simpl; intros H.
    - reflexivity.
    - destruct (N.eqb k0 k) eqn:E; [discriminate|].
      destruct (N.eqb k0 k') eqn:E2.
      + apply N.eqb_eq in E2. subst k0. rewrite N.eqb_sym, E. reflexivity.
      + apply IH. exact H.
  Qed.

  Lemma nget_in m k v : nget m k = Some v -> In k (map fst m).
  Proof.
    induction m as [|[k0 v0] r IH]; simpl; [discriminate|].
    destruct (N.eqb k0 k) eqn:E; intros H.
    - left. apply N.eqb_eq. exact E.
    - right. apply IH. exact H.
  Qed.

  Lemma nget_map_val {W} (f : V -> W) m k : nget (map (fun e => (fst e, f (snd e))) m) k = option_map f (nget m k).
  Proof.
    induction m as [|[k0 v0] r IH]; simpl; [reflexivity|].
    destruct (N.eqb k0 k); [reflexivity|exact IH].
  Qed.
End NMapLemmas.

Section Chain.
Variables C E P : Type.
Variable commit_of : P -> C.
Variable eval_of : P -> nat -> E.
Variable verify : nat -> E -> C -> bool.
Variable deg_ok : N -> C -> bool.
Variable valid_eval : E -> bool.

Notation pure := (@DKGPure.pure C E P).
Notation dev := (@dev C E).
Notation active := (@active C E P).
Notation sm := (@sm C E P).
Notation db := (db C E P).
Notation st := (st C E P).

(* ---- the shared part of two PureDKG values ---- *)
Definition same (d g : pure) : Prop :=
  pub d = pub g /\ p_eon d = p_eon g /\ p_n d = p_n g /\ p_t d = p_t g.

Lemma same_refl d : same d d.
Proof. repeat split. Qed.

Lemma same_sym d g : same d g -> same g d.
Proof. intros [A [B [D F]]]. repeat split; congruence. Qed.

Lemma same_trans a b c : same a b -> same b c -> same a c.
Proof. intros [A [B [D F]]] [A' [B' [D' F']]]. repeat split; congruence. Qed.

Lemma same_fields d g : same d g ->
  p_phase d = p_phase g /\ p_commits d = p_commits g /\ p_accs d = p_accs g /\ p_apos d = p_apos g.
Proof. intros [A _]. unfold pub in A. injection A as -> -> -> ->. repeat split. Qed.

Lemma same_set_phase d g ph : same d g -> same (set_phase d ph) (set_phase g ph).
Proof.
  intros H. destruct (same_fields _ _ H) as [_ [Hc [Ha Hq]]]. destruct H as [_ [B [D F]]].
  unfold same, pub; simpl. rewrite Hc, Ha, Hq. repeat split; assumption.
Qed.

Lemma same_set_evals d l : same (set_evals d l) d.
Proof. repeat split. Qed.

Lemma same_set_poly d x : same (set_poly d x) d.
Proof. repeat split. Qed.

(* a Handle*Msg result, applied the way smstate.go does: errors leave the state alone *)
Definition hres_rel (r1 r2 : @hres C E P) : Prop :=
  match r1, r2 with
  | HOk d', HOk g' => same d' g'
  | HErr, HErr => True
  | HPanic, HPanic => True
  | _, _ => False
  end.

Lemma same_handle_commit d g eon s c :
  same d g -> hres_rel (handle_commit C E P deg_ok d eon s c) (handle_commit C E P deg_ok g eon s c).
Proof.
  intros H. destruct (same_fields _ _ H) as [Hp [Hc [Ha Hq]]]. destruct H as [Hpub [B [D F]]].
  unfold handle_commit, check_eon_phase. rewrite Hp, B, Hc, F.
  destruct (negb _); [exact I|].
  destruct (nth_error (p_commits g) s) as [[c0|]|]; try exact I.
  destruct (negb (deg_ok (p_t g) c)); [exact I|].
  destruct (set_nth (p_commits g) s (Some c)); [|exact I].
  simpl. unfold same, pub; simpl. rewrite Hp, Ha, Hq. repeat split; assumption.
Qed.

Lemma same_handle_accusation d g eon a b :
  same d g -> hres_rel (handle_accusation d eon a b) (handle_accusation g eon a b).
Proof.
  intros H. destruct (same_fields _ _ H) as [Hp [Hc [Ha Hq]]]. destruct H as [Hpub [B [D F]]].
  unfold handle_accusation, check_eon_phase. rewrite Hp, B, Ha.
  destruct (negb _); [exact I|]. destruct (mem_pair _ _); [exact I|].
  simpl. unfold same, pub; simpl. rewrite Hp, Hc, Hq. repeat split; assumption.
Qed.

Lemma same_handle_apology d g eon a b v :
  same d g -> hres_rel (handle_apology C E P valid_eval d eon a b v) (handle_apology C E P valid_eval g eon a b v).
Proof.
  intros H. destruct (same_fields _ _ H) as [Hp [Hc [Ha Hq]]]. destruct H as [Hpub [B [D F]]].
  unfold handle_apology, check_eon_phase. rewrite Hp, B, Hq.
  destruct (negb _); [exact I|]. destruct (apo_mem _ _); [exact I|]. destruct (negb (valid_eval v)); [exact I|].
  simpl. unfold same, pub; simpl. rewrite Hp, Hc, Ha. repeat split; assumption.
Qed.

Lemma handle_eval_same d eon s r v d' :
  handle_eval C E P valid_eval d eon s r v = HOk d' -> same d' d.
Proof.
  unfold handle_eval. destruct (negb _); [discriminate|]. destruct (negb _); [discriminate|].
  destruct (nth_error (p_evals d) s) as [[v0|]|]; try discriminate.
  destruct (negb (valid_eval v)); [discriminate|].
  destruct (set_nth (p_evals d) s (Some v)); [|discriminate].
  intros [= <-]. apply same_set_evals.
Qed.

Lemma same_accuse_all d g keypers eon si accused :
  same d g -> same (accuse_all C E P d keypers eon si accused) (accuse_all C E P g keypers eon si accused).
Proof.
  revert d g. induction accused as [|a r IH]; simpl; intros d g H; [exact H|].
  destruct (find_index keypers a 0) as [ai|]; [|apply IH; exact H].
  pose proof (same_handle_accusation d g eon si ai H) as Hr.
  destruct (handle_accusation d eon si ai), (handle_accusation g eon si ai); simpl in Hr; try contradiction;
    apply IH; assumption.
Qed.

Lemma same_apologise_all d g keypers eon si accusers vals :
  same d g ->
  match apologise_all C E P valid_eval d keypers eon si accusers vals,
        apologise_all C E P valid_eval g keypers eon si accusers vals with
  | Some d', Some g' => same d' g'
  | None, None => True
  | _, _ => False
  end.
Proof.
  revert d g vals. induction accusers as [|a r IH]; simpl; intros d g vals H; [exact H|].
  destruct vals as [|v vr].
  - destruct (find_index keypers a 0); [exact I|]. apply IH. exact H.
  - destruct (find_index keypers a 0) as [ai|]; [|apply IH; exact H].
    pose proof (same_handle_apology d g eon ai si v H) as Hr.
    destruct (handle_apology C E P valid_eval d eon ai si v), (handle_apology C E P valid_eval g eon ai si v);
      simpl in Hr; try contradiction; apply IH; assumption.
Qed.

Lemma advance_same (d : pure) from (d' : pure) : advance d from = Some d' -> d' = set_phase d (phase_succ from) /\ p_phase d = from.
Proof.
  unfold advance. destruct (phase_eqb (p_phase d) from) eqn:Hq; [|discriminate].
  intros [= <-]. split; [reflexivity|].
  unfold phase_eqb in Hq. apply Nat.eqb_eq in Hq. destruct (p_phase d), from; simpl in Hq; try discriminate; reflexivity.
Qed.

(* ---- the phase-free public part ---- *)
Definition samex (d g : pure) : Prop :=
  p_commits d = p_commits g /\ p_accs d = p_accs g /\ p_apos d = p_apos g /\
  p_eon d = p_eon g /\ p_n d = p_n g /\ p_t d = p_t g.

Lemma same_iff d g : same d g <-> samex d g /\ p_phase d = p_phase g.
Proof.
  unfold same, samex, pub. split.
  - intros [A [B [D F]]]. injection A as Hp Hc Ha Hq. repeat split; assumption.
  - intros [[Hc [Ha [Hq [B [D F]]]]] Hp]. rewrite Hp, Hc, Ha, Hq. repeat split; assumption.
Qed.

Lemma samex_refl d : samex d d.
Proof. repeat split. Qed.

Lemma samex_trans a b c : samex a b -> samex b c -> samex a c.
Proof. unfold samex. intuition congruence. Qed.

Lemma samex_sym a b : samex a b -> samex b a.
Proof. unfold samex. intuition congruence. Qed.

Lemma samex_set_phase d ph : samex (set_phase d ph) d.
Proof. repeat split. Qed.

Lemma same_samex d g : same d g -> samex d g.
Proof. intros H. apply same_iff in H. tauto. Qed.

Lemma phase_num_inj a b : phase_num a = phase_num b -> a = b.
Proof. destruct a, b; simpl; intros H; try discriminate; reflexivity. Qed.

(* ---- one phase transition of the keyper, on the public part ---- *)
Lemma start_phase1_spec (d : pure) poly d' c evs :
  start_phase1 C E P commit_of eval_of valid_eval d poly = Some (d', c, evs) ->
  samex d' d /\ p_phase d = Off /\ p_phase d' = Dealing.
Proof.
  unfold start_phase1. destruct (advance d Off) as [d1|] eqn:Ha; [|discriminate].
  apply advance_same in Ha. destruct Ha as [-> Hp]. simpl.
  destruct (Nat.ltb (p_me d) (p_n d)).
  - destruct (handle_eval _ _ _ _ _ _ _ _ _) as [d3| |] eqn:He; try discriminate.
    intros [= <- _ _]. apply handle_eval_same in He.
    apply same_iff in He. destruct He as [Hx Hph]. simpl in Hph. split; [|split; [exact Hp|exact Hph]].
    eapply samex_trans; [exact Hx|]. repeat split.
  - intros [= <- _ _]. split; [repeat split|split; [exact Hp|reflexivity]].
Qed.

Lemma start_phase2_spec (d : pure) d' accs :
  start_phase2 C E P verify d = Some (d', accs) -> samex d' d /\ p_phase d = Dealing /\ p_phase d' = Accusing.
Proof.
  unfold start_phase2. destruct (advance d Dealing) as [d1|] eqn:Ha; [|discriminate].
  apply advance_same in Ha. destruct Ha as [-> Hp]. intros [= <- _]. split; [repeat split|split; [exact Hp|reflexivity]].
Qed.

Lemma start_phase3_spec (d : pure) d' apos :
  start_phase3 C E P eval_of d = Some (d', apos) -> samex d' d /\ p_phase d = Accusing /\ p_phase d' = Apologizing.
Proof.
  unfold start_phase3. destruct (advance d Accusing) as [d1|] eqn:Ha; [|discriminate].
  apply advance_same in Ha. destruct Ha as [-> Hp].
  destruct (filter _ _); [|destruct (p_poly d); [|discriminate]]; intros [= <- _];
    (split; [repeat split|split; [exact Hp|reflexivity]]).
Qed.

Lemma finalize_spec (d d' : pure) :
  finalize d = Some d' -> d' = set_phase d Finalized /\ p_phase d = Apologizing.
Proof. unfold finalize. intros H. apply advance_same in H. exact H. Qed.

(* ---- driver context ---- *)
Variable me : addr.
Variable L : Z.
Hypothesis Lpos : 0 < L.
Variable enum : list (N * active) -> list (N * active).
Variable poly_for : N -> P.

Notation start1 := (start1 C E P commit_of eval_of valid_eval poly_for).
Notation start2 := (start2 C E P verify).
Notation start3 := (start3 C E P eval_of).
Notation finalize_dkg := (finalize_dkg C E P verify).
Notation shift_loop := (shift_loop C E P commit_of eval_of verify valid_eval L poly_for).
Notation shift_phase := (shift_phase C E P commit_of eval_of verify valid_eval L poly_for).
Notation shift_all := (shift_all C E P commit_of eval_of verify valid_eval L poly_for).
Notation handle_event := (handle_event C E P commit_of eval_of verify deg_ok valid_eval me L poly_for).
Notation handle_events := (handle_events C E P commit_of eval_of verify deg_ok valid_eval me L poly_for).
Notation handle_block := (handle_block C E P commit_of eval_of verify deg_ok valid_eval me L enum poly_for).

(* what a transition leaves alone *)
Definition frame (eon : N) (x x' : st) : Prop :=
  db_cfgs _ _ _ (fst x') = db_cfgs _ _ _ (fst x) /\ db_eons _ _ _ (fst x') = db_eons _ _ _ (fst x) /\
  db_lch _ _ _ (fst x') = db_lch _ _ _ (fst x) /\
  sm_sync (snd x') = sm_sync (snd x) /\ sm_iskeyper (snd x') = sm_iskeyper (snd x) /\
  (forall k, k <> eon -> nget (sm_dkg (snd x')) k = nget (sm_dkg (snd x)) k) /\
  (forall k, k <> eon -> nget (db_results _ _ _ (fst x')) k = nget (db_results _ _ _ (fst x)) k).

Lemma frame_refl eon x : frame eon x x.
Proof. repeat split. Qed.

Lemma frame_trans eon x y z : frame eon x y -> frame eon y z -> frame eon x z.
Proof.
  intros [A [B [B' [D [F [G H]]]]]] [A' [B2 [B2' [D' [F' [G' H']]]]]].
  repeat split; try congruence.
  - intros k Hk. rewrite G', G; auto.
  - intros k Hk. rewrite H', H; auto.
Qed.

Lemma insert_evals_frame (d : db) eon keypers l d' :
  insert_evals C E P d eon keypers l = TOk d' ->
  db_cfgs _ _ _ d' = db_cfgs _ _ _ d /\ db_eons _ _ _ d' = db_eons _ _ _ d /\ db_results _ _ _ d' = db_results _ _ _ d /\
  db_lch _ _ _ d' = db_lch _ _ _ d.
Proof.
  revert d. induction l as [|[r v] rest IH]; simpl; intros d H.
  - injection H as <-. repeat split.
  - destruct (nth_error keypers r); [|discriminate]. destruct (existsb _ _); [discriminate|].
    apply IH in H. simpl in H. exact H.
Qed.

(* the non-final transitions: the stored entry moves one phase up, nothing else of interest changes *)
Definition step_ok (x : st) (eon : N) (a : active) (x1 : st) (a1 : active) (from to : phase) : Prop :=
  frame eon x x1 /\ nget (sm_dkg (snd x1)) eon = Some a1 /\
  nget (db_results _ _ _ (fst x1)) eon = nget (db_results _ _ _ (fst x)) eon /\
  a_start a1 = a_start a /\ a_keypers a1 = a_keypers a /\ samex (a_pure a1) (a_pure a) /\
  p_phase (a_pure a) = from /\ p_phase (a_pure a1) = to.

Lemma start1_ok x eon a x1 a1 : start1 x eon a = TOk (x1, a1) -> step_ok x eon a x1 a1 Off Dealing.
Proof.
  destruct x as [d s]. unfold DKGDriver.start1.
  destruct (start_phase1 _ _ _ _ _ _ _ _) as [[[p' c] evals]|] eqn:Hs; [|discriminate].
  destruct (insert_evals _ _ _ _ _ _ _) as [d2| |] eqn:Hi; simpl; try discriminate.
  intros [= <- <-]. apply insert_evals_frame in Hi. simpl in Hi. destruct Hi as [A [B [D F]]].
  apply start_phase1_spec in Hs. destruct Hs as [[X1 [X2 [X3 [X4 [X5 X6]]]]] [Hp Hp']].
  unfold step_ok, frame; simpl. repeat split; try assumption.
  - intros k Hk. apply nget_nins_other. congruence.
  - intros k Hk. rewrite D. reflexivity.
  - apply nget_nins_same.
  - rewrite D. reflexivity.
Qed.

Lemma start2_ok x eon a x1 a1 : start2 x eon a = TOk (x1, a1) -> step_ok x eon a x1 a1 Dealing Accusing.
Proof.
  destruct x as [d s]. unfold DKGDriver.start2.
  destruct (start_phase2 _ _ _ _ _) as [[p' accs]|] eqn:Hs; [|discriminate].
  apply start_phase2_spec in Hs. destruct Hs as [[X1 [X2 [X3 [X4 [X5 X6]]]]] [Hp Hp']].
  destruct accs as [|ac accs].
  - intros [= <- <-]. unfold step_ok, frame; simpl. repeat split; try assumption.
    + intros k Hk. apply nget_nins_other. congruence.
    + apply nget_nins_same.
  - destruct (idx_addrs _ _); [|discriminate]. intros [= <- <-]. unfold step_ok, frame; simpl. repeat split; try assumption.
    + intros k Hk. apply nget_nins_other. congruence.
    + apply nget_nins_same.
Qed.

Lemma start3_ok x eon a x1 a1 : start3 x eon a = TOk (x1, a1) -> step_ok x eon a x1 a1 Accusing Apologizing.
Proof.
  destruct x as [d s]. unfold DKGDriver.start3.
  destruct (start_phase3 _ _ _ _ _) as [[p' apos]|] eqn:Hs; [|discriminate].
  apply start_phase3_spec in Hs. destruct Hs as [[X1 [X2 [X3 [X4 [X5 X6]]]]] [Hp Hp']].
  destruct apos as [|ap apos].
  - intros [= <- <-]. unfold step_ok, frame; simpl. repeat split; try assumption.
    + intros k Hk. apply nget_nins_other. congruence.
    + apply nget_nins_same.
  - destruct (idx_addrs _ _); [|discriminate]. intros [= <- <-]. unfold step_ok, frame; simpl. repeat split; try assumption.
    + intros k Hk. apply nget_nins_other. congruence.
    + apply nget_nins_same.
Qed.

(* the final transition: the entry disappears, a result row appears *)
Definition final_ok (x : st) (eon : N) (a : active) (x1 : st) (a1 : active) : Prop :=
  frame eon x x1 /\ nget (sm_dkg (snd x1)) eon = None /\
  nget (db_results _ _ _ (fst x)) eon = None /\
  (exists ok, nget (db_results _ _ _ (fst x1)) eon = Some (mkRes C E ok (compute_result C E P verify (a_pure a1)))) /\
  a_pure a1 = set_phase (a_pure a) Finalized /\ p_phase (a_pure a) = Apologizing.

Lemma finalize_ok x eon a x1 a1 : finalize_dkg x eon a = TOk (x1, a1) -> final_ok x eon a x1 a1.
Proof.
  destruct x as [d s]. unfold DKGDriver.finalize_dkg.
  destruct (finalize (a_pure a)) as [p'|] eqn:Hf; [|discriminate].
  apply finalize_spec in Hf. destruct Hf as [-> Hp].
  set (res := compute_result C E P verify (set_phase (a_pure a) Finalized)).
  set (d2 := upd_db_evals C E P (upd_db_pure C E P d (ndel (db_pure C E P d) eon)) _).
  destruct (is_result C E res) eqn:Hok.
  - destruct (existsb _ _); simpl; [discriminate|].
    destruct (nget (db_results C E P d) eon) eqn:Hr; simpl; [discriminate|].
    intros [= <- <-]. unfold final_ok, frame; simpl. repeat split; try assumption; try reflexivity.
    + intros k Hk. apply nget_ndel_other. congruence.
    + intros k Hk. rewrite (nget_app_none _ _ _ _ Hr). destruct (N.eqb eon k) eqn:Ek; [apply N.eqb_eq in Ek; congruence|reflexivity].
    + apply nget_ndel_same.
    + exists true. rewrite (nget_app_none _ _ _ _ Hr), N.eqb_refl. reflexivity.
  - destruct (nget (db_eons C E P d2) eon); simpl; [|discriminate].
    destruct (nget (db_results C E P d) eon) eqn:Hr; simpl; [discriminate|].
    intros [= <- <-]. unfold final_ok, frame; simpl. repeat split; try assumption; try reflexivity.
    + intros k Hk. apply nget_ndel_other. congruence.
    + intros k Hk. rewrite (nget_app_none _ _ _ _ Hr). destruct (N.eqb eon k) eqn:Ek; [apply N.eqb_eq in Ek; congruence|reflexivity].
    + apply nget_ndel_same.
    + exists false. rewrite (nget_app_none _ _ _ _ Hr), N.eqb_refl. reflexivity.
Qed.

(* ---- shiftPhase ---- *)
Definition tgt (h : Z) (a : active) : phase := phase_at L h (a_start a).

Lemma shift_loop_done fuel x h eon a :
  phase_ltb (p_phase (a_pure a)) (tgt h a) = false -> shift_loop fuel x h eon a = TOk x.
Proof. unfold tgt. destruct fuel; simpl; [reflexivity|]. intros ->. reflexivity. Qed.

Inductive shift_res (x : st) (h : Z) (eon : N) (a : active) (x' : st) : Prop :=
| sr_same : phase_ltb (p_phase (a_pure a)) (tgt h a) = false -> x' = x -> shift_res x h eon a x'
| sr_moved (a' : active) :
    phase_ltb (p_phase (a_pure a)) (tgt h a) = true -> tgt h a <> Finalized ->
    frame eon x x' -> nget (sm_dkg (snd x')) eon = Some a' ->
    nget (db_results _ _ _ (fst x')) eon = nget (db_results _ _ _ (fst x)) eon ->
    a_start a' = a_start a -> a_keypers a' = a_keypers a -> samex (a_pure a') (a_pure a) ->
    p_phase (a_pure a') = tgt h a -> shift_res x h eon a x'
| sr_final (pf : pure) (ok : bool) :
    phase_ltb (p_phase (a_pure a)) (tgt h a) = true -> tgt h a = Finalized ->
    frame eon x x' -> nget (sm_dkg (snd x')) eon = None ->
    nget (db_results _ _ _ (fst x)) eon = None ->
    nget (db_results _ _ _ (fst x')) eon = Some (mkRes C E ok (compute_result C E P verify pf)) ->
    samex pf (a_pure a) -> p_phase pf = Finalized -> shift_res x h eon a x'.

Lemma phase_ltb_spec a b : phase_ltb a b = true <-> (phase_num a < phase_num b)%nat.
Proof. unfold phase_ltb. apply Nat.ltb_lt. Qed.

Lemma phase_ltb_false a b : phase_ltb a b = false <-> (phase_num b <= phase_num a)%nat.
Proof. unfold phase_ltb. apply Nat.ltb_ge. Qed.

Lemma shift_res_step x h eon a x1 a1 from to x' :
  step_ok x eon a x1 a1 from to -> phase_num to = S (phase_num from) -> to <> Finalized ->
  phase_ltb (p_phase (a_pure a)) (tgt h a) = true ->
  shift_res x1 h eon a1 x' -> shift_res x h eon a x'.
Proof.
  intros [Hfr [Hget [Hres [Hst [Hk [Hx [Hfrom Hto]]]]]]] Hsucc Hnf Hlt Hr.
  assert (Ht : tgt h a1 = tgt h a) by (unfold tgt; rewrite Hst; reflexivity).
  destruct Hr as [Hge ->|a' Hlt' Hnf' Hfr' Hget' Hres' Hst' Hk' Hx' Hp'|pf ok Hlt' Hfin Hfr' Hget' Hres0 Hres' Hx' Hp'].
  - rewrite Ht, Hto in Hge. apply phase_ltb_false in Hge. apply phase_ltb_spec in Hlt. rewrite Hfrom in Hlt.
    assert (Heq : tgt h a = to) by (apply phase_num_inj; lia).
    eapply sr_moved with (a' := a1); try eassumption.
    + apply phase_ltb_spec. rewrite Hfrom. exact Hlt.
    + rewrite Heq. exact Hnf.
    + rewrite Heq. exact Hto.
  - eapply sr_moved with (a' := a'); try eassumption.
    + rewrite <- Ht. exact Hnf'.
    + eapply frame_trans; eassumption.
    + rewrite Hres'. exact Hres.
    + congruence.
    + congruence.
    + eapply samex_trans; eassumption.
    + rewrite <- Ht. exact Hp'.
  - eapply sr_final with (pf := pf) (ok := ok); try eassumption.
    + rewrite <- Ht. exact Hfin.
    + eapply frame_trans; eassumption.
    + rewrite <- Hres. exact Hres0.
    + eapply samex_trans; eassumption.
Qed.

Lemma shift_loop_spec fuel : forall x h eon a x',
  shift_loop fuel x h eon a = TOk x' ->
  nget (sm_dkg (snd x)) eon = Some a ->
  (phase_num (tgt h a) <= phase_num (p_phase (a_pure a)) + fuel)%nat ->
  shift_res x h eon a x'.
Proof.
  induction fuel as [|f IH]; intros x h eon a x' Hrun Hget Hfuel.
  - simpl in Hrun. injection Hrun as <-. apply sr_same; [|reflexivity]. apply phase_ltb_false. lia.
  - simpl in Hrun. fold (tgt h a) in Hrun.
    destruct (phase_ltb (p_phase (a_pure a)) (tgt h a)) eqn:Hlt.
    2:{ injection Hrun as <-. apply sr_same; [exact Hlt|reflexivity]. }
    destruct (p_phase (a_pure a)) eqn:Hcur.
    + destruct (start1 x eon a) as [[x1 a1]| |] eqn:Hs; simpl in Hrun; try discriminate.
      pose proof (start1_ok _ _ _ _ _ Hs) as Hok.
      eapply shift_res_step; [exact Hok|reflexivity|discriminate|rewrite Hcur; exact Hlt|].
      destruct Hok as [_ [Hg1 [_ [Hst [_ [_ [_ Hto]]]]]]].
      apply IH; [exact Hrun|exact Hg1|]. unfold tgt in *. rewrite Hst, Hto. simpl in *. lia.
    + destruct (start2 x eon a) as [[x1 a1]| |] eqn:Hs; simpl in Hrun; try discriminate.
      pose proof (start2_ok _ _ _ _ _ Hs) as Hok.
      eapply shift_res_step; [exact Hok|reflexivity|discriminate|rewrite Hcur; exact Hlt|].
      destruct Hok as [_ [Hg1 [_ [Hst [_ [_ [_ Hto]]]]]]].
      apply IH; [exact Hrun|exact Hg1|]. unfold tgt in *. rewrite Hst, Hto. simpl in *. lia.
    + destruct (start3 x eon a) as [[x1 a1]| |] eqn:Hs; simpl in Hrun; try discriminate.
      pose proof (start3_ok _ _ _ _ _ Hs) as Hok.
      eapply shift_res_step; [exact Hok|reflexivity|discriminate|rewrite Hcur; exact Hlt|].
      destruct Hok as [_ [Hg1 [_ [Hst [_ [_ [_ Hto]]]]]]].
      apply IH; [exact Hrun|exact Hg1|]. unfold tgt in *. rewrite Hst, Hto. simpl in *. lia.
    + destruct (finalize_dkg x eon a) as [[x1 a1]| |] eqn:Hs; simpl in Hrun; try discriminate.
      pose proof (finalize_ok _ _ _ _ _ Hs) as [Hfr [Hg1 [Hr0 [[ok Hr1] [Ha1 Hp]]]]].
      rewrite shift_loop_done in Hrun.
      2:{ rewrite Ha1. simpl. apply phase_ltb_false. destruct (tgt h a1); simpl; lia. }
      injection Hrun as <-.
      apply phase_ltb_spec in Hlt. simpl in Hlt.
      assert (Hfin : tgt h a = Finalized) by (apply phase_num_inj; destruct (tgt h a); simpl in *; lia).
      eapply sr_final with (pf := a_pure a1) (ok := ok); try eassumption.
      * rewrite Hcur. apply phase_ltb_spec. rewrite Hfin. simpl. lia.
      * rewrite Ha1. apply samex_set_phase.
      * rewrite Ha1. reflexivity.
    + apply phase_ltb_spec in Hlt. simpl in Hlt. destruct (tgt h a); simpl in Hlt; lia.
Qed.

Lemma shift_phase_spec x h eon a x' :
  shift_phase x h eon a = TOk x' -> nget (sm_dkg (snd x)) eon = Some a -> shift_res x h eon a x'.
Proof.
  intros H Hg. eapply shift_loop_spec; [exact H|exact Hg|].
  destruct (tgt h a), (p_phase (a_pure a)); simpl; lia.
Qed.

(* ---- the observer ---- *)
Record gent := mkGent { ge_pure : pure; ge_start : Z; ge_keypers : list addr }.
Record gst := mkGst {
  gs_cfgs : list (N * cfgrow);
  gs_eons : N -> bool;
  gs_dkg : N -> option gent;
  gs_done : N -> option pure
}.
Definition g_init : gst := mkGst [] (fun _ => false) (fun _ => None) (fun _ => None).

Definition g_tgt (h : Z) (e : gent) : phase := phase_at L h (ge_start e).
Definition g_shift_ent (h : Z) (e : gent) : gent :=
  if phase_ltb (p_phase (ge_pure e)) (g_tgt h e)
  then mkGent (set_phase (ge_pure e) (g_tgt h e)) (ge_start e) (ge_keypers e) else e.
Definition g_fin (e : gent) : bool := phase_eqb (p_phase (ge_pure e)) Finalized.

Definition g_shift_all (h : Z) (g : gst) : gst :=
  mkGst (gs_cfgs g) (gs_eons g)
    (fun k => match gs_dkg g k with
              | Some e => if g_fin (g_shift_ent h e) then None else Some (g_shift_ent h e)
              | None => None end)
    (fun k => match gs_dkg g k with
              | Some e => if g_fin (g_shift_ent h e) then Some (ge_pure (g_shift_ent h e)) else gs_done g k
              | None => gs_done g k end).

Definition g_wf (g : gst) : Prop :=
  (forall eon e, gs_dkg g eon = Some e ->
     gs_eons g eon = true /\ phase_ltb (p_phase (ge_pure e)) Finalized = true) /\
  (forall eon gp, gs_done g eon = Some gp -> gs_eons g eon = true).

Notation qualified := (qualified C E P verify).

Record chain_inv (x : st) (g : gst) : Prop := {
  ci_load : sm_sync (snd x) = true \/ (db_pure _ _ _ (fst x) = [] /\ sm_dkg (snd x) = []);
  ci_cfgs : db_cfgs _ _ _ (fst x) = gs_cfgs g;
  ci_eons : forall eon, gs_eons g eon = match nget (db_eons _ _ _ (fst x)) eon with Some _ => true | None => false end;
  ci_dkg : forall eon a, nget (sm_dkg (snd x)) eon = Some a ->
     exists e, gs_dkg g eon = Some e /\ same (a_pure a) (ge_pure e) /\ a_start a = ge_start e /\ a_keypers a = ge_keypers e;
  ci_res : forall eon r cs vs, nget (db_results _ _ _ (fst x)) eon = Some r -> rs_result _ _ r = CResult cs vs ->
     exists gp, gs_done g eon = Some gp /\ cs = qualified gp /\ gs_dkg g eon = None
}.

(* between the transitions of shiftPhases: every entry is related to the observer's entry before
   the shift, its phase being either still the old one or already the new one *)
Record mid (x : st) (g : gst) (h : Z) : Prop := {
  m_sync : sm_sync (snd x) = true;
  m_cfgs : db_cfgs _ _ _ (fst x) = gs_cfgs g;
  m_eons : forall eon, gs_eons g eon = match nget (db_eons _ _ _ (fst x)) eon with Some _ => true | None => false end;
  m_dkg : forall eon a, nget (sm_dkg (snd x)) eon = Some a ->
     exists e, gs_dkg g eon = Some e /\ a_start a = ge_start e /\ a_keypers a = ge_keypers e /\
               samex (a_pure a) (ge_pure e) /\ phase_ltb (p_phase (a_pure a)) Finalized = true /\
               (p_phase (a_pure a) = p_phase (ge_pure e) \/ p_phase (a_pure a) = p_phase (ge_pure (g_shift_ent h e)));
  m_res : forall eon r cs vs, nget (db_results _ _ _ (fst x)) eon = Some r -> rs_result _ _ r = CResult cs vs ->
     (exists gp, gs_done g eon = Some gp /\ cs = qualified gp /\ gs_dkg g eon = None) \/
     (exists e, gs_dkg g eon = Some e /\ g_fin (g_shift_ent h e) = true /\ cs = qualified (ge_pure (g_shift_ent h e)))
}.

Lemma inv_mid x g h : chain_inv x g -> g_wf g -> sm_sync (snd x) = true -> mid x g h.
Proof.
  intros [Hl Hc He Hd Hr] [Hw1 Hw2] Hs. constructor; try assumption.
  - intros eon a Ha. destruct (Hd eon a Ha) as [e [Hg [Hsame [Hst Hk]]]].
    exists e. apply same_iff in Hsame. destruct Hsame as [Hx Hp].
    destruct (Hw1 _ _ Hg) as [_ Hlt].
    split; [exact Hg|]. split; [exact Hst|]. split; [exact Hk|]. split; [exact Hx|].
    split; [rewrite Hp; exact Hlt|left; exact Hp].
  - intros eon r cs vs H1 H2. left. eapply Hr; eassumption.
Qed.

Lemma g_shift_ent_phase h e :
  p_phase (ge_pure (g_shift_ent h e)) =
  if phase_ltb (p_phase (ge_pure e)) (g_tgt h e) then g_tgt h e else p_phase (ge_pure e).
Proof. unfold g_shift_ent. destruct (phase_ltb _ _); reflexivity. Qed.

Lemma g_shift_ent_samex h e : samex (ge_pure (g_shift_ent h e)) (ge_pure e).
Proof. unfold g_shift_ent. destruct (phase_ltb _ _); simpl; [apply samex_set_phase|apply samex_refl]. Qed.

Lemma g_shift_ent_start h e : ge_start (g_shift_ent h e) = ge_start e /\ ge_keypers (g_shift_ent h e) = ge_keypers e.
Proof. unfold g_shift_ent. destruct (phase_ltb _ _); split; reflexivity. Qed.

Lemma qualified_samex (p q : pure) : samex p q -> p_phase p = p_phase q -> qualified p = qualified q.
Proof.
  intros Hx Hp. apply qualified_pub.
  - assert (Hs : same p q) by (apply same_iff; split; assumption). destruct Hs as [Hpub _]. exact Hpub.
  - destruct Hx as [_ [_ [_ [_ [Hn _]]]]]. exact Hn.
Qed.

Definition alldone (h : Z) (S : list N) (x : st) : Prop :=
  forall k, In k S -> forall a, nget (sm_dkg (snd x)) k = Some a -> phase_ltb (p_phase (a_pure a)) (tgt h a) = false.

Definition keys_sub (x' x : st) : Prop :=
  forall k a', nget (sm_dkg (snd x')) k = Some a' -> exists a, nget (sm_dkg (snd x)) k = Some a.

Lemma shift_one_mid x g h S eon a x' :
  mid x g h -> alldone h S x -> nget (sm_dkg (snd x)) eon = Some a ->
  shift_phase x h eon a = TOk x' ->
  mid x' g h /\ alldone h (eon :: S) x' /\ keys_sub x' x.
Proof.
  intros Hm Hd Hget Hrun.
  pose proof (shift_phase_spec _ _ _ _ _ Hrun Hget) as Hr.
  destruct Hm as [Msync Mcfgs Meons Mdkg Mres].
  destruct (Mdkg _ _ Hget) as [e [Hge [Hst [Hk [Hx [Hnf Hph]]]]]].
  assert (Htg : tgt h a = g_tgt h e) by (unfold tgt, g_tgt; rewrite Hst; reflexivity).
  destruct Hr as [Hge' ->|a' Hlt Hnfin Hfr Hget' Hres' Hst' Hk' Hx' Hp'|pf ok Hlt Hfin Hfr Hget' Hres0 Hres' Hx' Hp'].
  - split; [constructor; assumption|]. split.
    + intros k [<-|Hk'] a0 Ha0; [rewrite Hget in Ha0; injection Ha0 as <-; exact Hge'|eapply Hd; eassumption].
    + intros k a0 Ha0. exists a0. exact Ha0.
  - (* moved to a non-final phase *)
    assert (Helt : phase_ltb (p_phase (ge_pure e)) (g_tgt h e) = true).
    { pose proof (g_shift_ent_phase h e) as Hsp. rewrite Htg in Hlt.
      destruct (phase_ltb (p_phase (ge_pure e)) (g_tgt h e)) eqn:Q; [reflexivity|].
      rewrite Hsp in Hph. destruct Hph as [Hph|Hph]; rewrite Hph in Hlt; rewrite Q in Hlt; discriminate. }
    destruct Hfr as [F1 [F2 [F2' [F3 [F4 [F5 F6]]]]]].
    split; [constructor|split].
    + congruence.
    + congruence.
    + intros k. rewrite F2. apply Meons.
    + intros k a0 Ha0. destruct (N.eq_dec k eon) as [->|Hne].
      * rewrite Hget' in Ha0. injection Ha0 as <-. exists e.
        split; [exact Hge|]. split; [congruence|]. split; [congruence|].
        split; [eapply samex_trans; eassumption|]. split.
        -- rewrite Hp'. apply phase_ltb_spec. destruct (tgt h a); simpl; try lia. contradiction.
        -- right. rewrite g_shift_ent_phase, Helt, Hp'. exact Htg.
      * rewrite F5 in Ha0 by exact Hne. apply Mdkg. exact Ha0.
    + intros k r cs vs H1 H2. destruct (N.eq_dec k eon) as [->|Hne].
      * rewrite Hres' in H1. eapply Mres; eassumption.
      * rewrite F6 in H1 by exact Hne. eapply Mres; eassumption.
    + intros k [<-|Hin] a0 Ha0.
      * rewrite Hget' in Ha0. injection Ha0 as <-. unfold tgt. rewrite Hst'. fold (tgt h a).
        rewrite Hp'. apply phase_ltb_false. lia.
      * destruct (N.eq_dec k eon) as [->|Hne].
        -- rewrite Hget' in Ha0. injection Ha0 as <-. unfold tgt. rewrite Hst'. fold (tgt h a).
           rewrite Hp'. apply phase_ltb_false. lia.
        -- rewrite F5 in Ha0 by exact Hne. eapply Hd; eassumption.
    + intros k a0 Ha0. destruct (N.eq_dec k eon) as [->|Hne]; [exists a; exact Hget|].
      rewrite F5 in Ha0 by exact Hne. exists a0. exact Ha0.
  - (* finalised *)
    assert (Helt : phase_ltb (p_phase (ge_pure e)) (g_tgt h e) = true).
    { pose proof (g_shift_ent_phase h e) as Hsp. rewrite Htg in Hlt.
      destruct (phase_ltb (p_phase (ge_pure e)) (g_tgt h e)) eqn:Q; [reflexivity|].
      rewrite Hsp in Hph. destruct Hph as [Hph|Hph]; rewrite Hph in Hlt; rewrite Q in Hlt; discriminate. }
    assert (Hsf : p_phase (ge_pure (g_shift_ent h e)) = Finalized).
    { rewrite g_shift_ent_phase, Helt, <- Htg. exact Hfin. }
    destruct Hfr as [F1 [F2 [F2' [F3 [F4 [F5 F6]]]]]].
    split; [constructor|split].
    + congruence.
    + congruence.
    + intros k. rewrite F2. apply Meons.
    + intros k a0 Ha0. destruct (N.eq_dec k eon) as [->|Hne]; [rewrite Hget' in Ha0; discriminate|].
      rewrite F5 in Ha0 by exact Hne. apply Mdkg. exact Ha0.
    + intros k r cs vs H1 H2. destruct (N.eq_dec k eon) as [->|Hne].
      * right. exists e. split; [exact Hge|]. split.
        -- unfold g_fin. rewrite Hsf. reflexivity.
        -- rewrite Hres' in H1. injection H1 as <-. simpl in H2.
           rewrite (result_commits _ _ _ _ _ _ _ H2).
           apply qualified_samex.
           ++ eapply samex_trans; [exact Hx'|]. eapply samex_trans; [exact Hx|]. apply samex_sym. apply g_shift_ent_samex.
           ++ rewrite Hp', Hsf. reflexivity.
      * rewrite F6 in H1 by exact Hne. eapply Mres; eassumption.
    + intros k [<-|Hin] a0 Ha0; [rewrite Hget' in Ha0; discriminate|].
      destruct (N.eq_dec k eon) as [->|Hne]; [rewrite Hget' in Ha0; discriminate|].
      rewrite F5 in Ha0 by exact Hne. eapply Hd; eassumption.
    + intros k a0 Ha0. destruct (N.eq_dec k eon) as [->|Hne]; [exists a; exact Hget|].
      rewrite F5 in Ha0 by exact Hne. exists a0. exact Ha0.
Qed.

Lemma shift_all_mid g h l : forall x x' S,
  shift_all x h l = TOk x' -> mid x g h -> alldone h S x ->
  mid x' g h /\ alldone h (rev (map fst l) ++ S) x' /\ keys_sub x' x.
Proof.
  induction l as [|[eon a0] r IH]; intros x x' S Hrun Hm Hd.
  - simpl in Hrun. injection Hrun as <-. split; [exact Hm|]. split; [exact Hd|].
    intros k a Ha. exists a. exact Ha.
  - simpl in Hrun. destruct (nget (sm_dkg (snd x)) eon) as [a|] eqn:Hget.
    + destruct (shift_phase x h eon a) as [x1| |] eqn:Hs; simpl in Hrun; try discriminate.
      destruct (shift_one_mid _ _ _ _ _ _ _ Hm Hd Hget Hs) as [Hm1 [Hd1 Hk1]].
      destruct (IH _ _ _ Hrun Hm1 Hd1) as [Hm2 [Hd2 Hk2]].
      split; [exact Hm2|]. split.
      * simpl. rewrite <- app_assoc. simpl. exact Hd2.
      * intros k a' Ha'. destruct (Hk2 _ _ Ha') as [a1 Ha1]. eapply Hk1. exact Ha1.
    + assert (Hd1 : alldone h (eon :: S) x).
      { intros k [<-|Hin] a Ha; [rewrite Hget in Ha; discriminate|eapply Hd; eassumption]. }
      destruct (IH _ _ _ Hrun Hm Hd1) as [Hm2 [Hd2 Hk2]].
      split; [exact Hm2|]. split; [|exact Hk2].
      simpl. rewrite <- app_assoc. simpl. exact Hd2.
Qed.

Definition enum_keys_ok : Prop :=
  forall (m : list (N * active)) k a, nget m k = Some a -> In k (map fst (enum m)).

Lemma g_wf_shift h g : g_wf g -> g_wf (g_shift_all h g).
Proof.
  intros [W1 W2]. split; simpl.
  - intros eon e'. destruct (gs_dkg g eon) as [e|] eqn:Hg; [|discriminate].
    destruct (g_fin (g_shift_ent h e)) eqn:Hf; [discriminate|]. intros [= <-].
    destruct (W1 _ _ Hg) as [He _]. split; [exact He|].
    unfold g_fin, phase_eqb in Hf. apply Nat.eqb_neq in Hf. apply phase_ltb_spec.
    destruct (p_phase (ge_pure (g_shift_ent h e))); simpl in *; lia.
  - intros eon gp. destruct (gs_dkg g eon) as [e|] eqn:Hg.
    + destruct (g_fin (g_shift_ent h e)); [intros _; apply (W1 _ _ Hg)|apply W2].
    + apply W2.
Qed.

Lemma shift_phases_inv x g h x' :
  enum_keys_ok -> chain_inv x g -> g_wf g -> sm_sync (snd x) = true ->
  shift_phases C E P commit_of eval_of verify valid_eval L enum poly_for x h = TOk x' ->
  chain_inv x' (g_shift_all h g) /\ sm_sync (snd x') = true.
Proof.
  intros Henum Hinv Hwf Hsync Hrun. unfold shift_phases in Hrun.
  pose proof (inv_mid x g h Hinv Hwf Hsync) as Hm.
  assert (Hd0 : alldone h [] x) by (intros k []).
  destruct (shift_all_mid g h _ _ _ _ Hrun Hm Hd0) as [[Msync Mcfgs Meons Mdkg Mres] [Hd Hk]].
  split; [|exact Msync].
  constructor; simpl.
  - left. exact Msync.
  - exact Mcfgs.
  - exact Meons.
  - intros eon a Ha. destruct (Mdkg _ _ Ha) as [e [Hg [Hst [Hkp [Hx [Hnf Hph]]]]]].
    rewrite Hg.
    assert (Hdone : phase_ltb (p_phase (a_pure a)) (tgt h a) = false).
    { apply (Hd eon); [|exact Ha]. rewrite app_nil_r. apply in_rev. rewrite rev_involutive.
      destruct (Hk _ _ Ha) as [a0 Ha0]. eapply Henum. exact Ha0. }
    assert (Htg : tgt h a = g_tgt h e) by (unfold tgt, g_tgt; rewrite Hst; reflexivity).
    assert (Hps : p_phase (a_pure a) = p_phase (ge_pure (g_shift_ent h e))).
    { destruct Hph as [Hph|Hph]; [|exact Hph]. rewrite g_shift_ent_phase, <- Hph, <- Htg, Hdone. reflexivity. }
    assert (Hfin : g_fin (g_shift_ent h e) = false).
    { unfold g_fin. rewrite <- Hps. apply phase_ltb_spec in Hnf. unfold phase_eqb. apply Nat.eqb_neq. simpl in *. lia. }
    rewrite Hfin. exists (g_shift_ent h e). destruct (g_shift_ent_start h e) as [S1 S2].
    split; [reflexivity|]. split; [|split; congruence].
    apply same_iff. split; [|exact Hps]. eapply samex_trans; [exact Hx|]. apply samex_sym. apply g_shift_ent_samex.
  - intros eon r cs vs H1 H2. destruct (Mres _ _ _ _ H1 H2) as [[gp [Hdn [Hcs Hnone]]]|[e [Hg [Hf Hcs]]]].
    + rewrite Hnone. exists gp. repeat split; assumption.
    + rewrite Hg, Hf. exists (ge_pure (g_shift_ent h e)). repeat split; assumption.
Qed.

(* ---- the observer's events ---- *)
Definition g_set_dkg (g : gst) (eon : N) (v : option gent) : gst :=
  mkGst (gs_cfgs g) (gs_eons g) (fun k => if N.eqb k eon then v else gs_dkg g k) (gs_done g).

Definition g_event (h : Z) (g : gst) (ev : dev) : gst :=
  match ev with
  | DCheckIn _ => g
  | DBatchConfig idx act thr ks started =>
      match nget (gs_cfgs g) idx with
      | Some _ => g
      | None => mkGst (gs_cfgs g ++ [(idx, mkCfg h ks thr started act)]) (gs_eons g) (gs_dkg g) (gs_done g)
      end
  | DBatchConfigStarted idx =>
      match nget (gs_cfgs g) idx with
      | None => g
      | Some c => mkGst (nset (gs_cfgs g) idx (mkCfg (cf_height c) (cf_keypers c) (cf_threshold c) true (cf_act c)))
                        (gs_eons g) (gs_dkg g) (gs_done g)
      end
  | DEonStarted eon act idx =>
      if 9223372036854775807 <? Z.of_N act then g
      else if gs_eons g eon then g
      else
        let g1 := mkGst (gs_cfgs g) (fun k => N.eqb k eon || gs_eons g k) (gs_dkg g) (gs_done g) in
        match nget (gs_cfgs g) idx with
        | None => g1
        | Some c =>
            g_set_dkg g1 eon (Some (mkGent (set_phase (new_pure eon (length (cf_keypers c)) (cf_threshold c) 0) Dealing)
                                           h (cf_keypers c)))
        end
  | DCommit sender eon c =>
      match gs_dkg g eon with
      | None => g
      | Some e =>
          match find_index (ge_keypers e) sender 0 with
          | None => g
          | Some si =>
              match handle_commit C E P deg_ok (ge_pure e) eon si c with
              | HOk p' => g_set_dkg g eon (Some (mkGent p' (ge_start e) (ge_keypers e)))
              | _ => g
              end
          end
      end
  | DEval _ _ _ _ => g
  | DAccusation sender eon accused =>
      match gs_dkg g eon with
      | None => g
      | Some e =>
          if negb (phase_eqb (p_phase (ge_pure e)) Accusing) then g
          else match find_index (ge_keypers e) sender 0 with
               | None => g
               | Some si => g_set_dkg g eon (Some (mkGent (accuse_all C E P (ge_pure e) (ge_keypers e) eon si accused)
                                                          (ge_start e) (ge_keypers e)))
               end
      end
  | DApology sender eon accusers vals =>
      match gs_dkg g eon with
      | None => g
      | Some e =>
          if negb (phase_eqb (p_phase (ge_pure e)) Apologizing) then g
          else match find_index (ge_keypers e) sender 0 with
               | None => g
               | Some si =>
                   match apologise_all C E P valid_eval (ge_pure e) (ge_keypers e) eon si accusers vals with
                   | Some p' => g_set_dkg g eon (Some (mkGent p' (ge_start e) (ge_keypers e)))
                   | None => g
                   end
               end
      end
  end.

Fixpoint g_events (h : Z) (g : gst) (es : list dev) : gst :=
  match es with [] => g | e :: r => g_events h (g_event h g e) r end.

Definition g_block (g : gst) (blk : Z * list dev) : gst :=
  g_events (fst blk) (g_shift_all (fst blk) g) (snd blk).

(* phases are only changed by the phase starters *)
Lemma handle_commit_phase (d : pure) eon s c d' : handle_commit C E P deg_ok d eon s c = HOk d' -> p_phase d' = p_phase d.
Proof.
  unfold handle_commit. destruct (negb _); [discriminate|].
  destruct (nth_error _ _) as [[?|]|]; try discriminate. destruct (negb _); [discriminate|].
  destruct (set_nth _ _ _); [|discriminate]. intros [= <-]. reflexivity.
Qed.

Lemma accuse_all_phase (d : pure) keypers eon si accused : p_phase (accuse_all C E P d keypers eon si accused) = p_phase d.
Proof.
  revert d. induction accused as [|a r IH]; simpl; intros d; [reflexivity|].
  destruct (find_index keypers a 0) as [ai|]; [|apply IH].
  unfold handle_accusation. destruct (negb _); [apply IH|]. destruct (mem_pair _ _); [apply IH|].
  rewrite IH. reflexivity.
Qed.

Lemma apologise_all_phase (d : pure) keypers eon si accusers vals d' :
  apologise_all C E P valid_eval d keypers eon si accusers vals = Some d' -> p_phase d' = p_phase d.
Proof.
  revert d vals. induction accusers as [|a r IH]; simpl; intros d vals H.
  - injection H as <-. reflexivity.
  - destruct vals as [|v vr].
    + destruct (find_index keypers a 0); [discriminate|]. eapply IH. exact H.
    + destruct (find_index keypers a 0) as [ai|]; [|eapply IH; exact H].
      unfold handle_apology in H. destruct (negb _); [eapply IH; exact H|].
      destruct (apo_mem _ _); [eapply IH; exact H|]. destruct (negb _); [eapply IH; exact H|].
      apply IH in H. exact H.
Qed.

Lemma g_wf_set g eon e' :
  g_wf g -> gs_eons g eon = true -> phase_ltb (p_phase (ge_pure e')) Finalized = true ->
  g_wf (g_set_dkg g eon (Some e')).
Proof.
  intros [W1 W2] He Hp. split; simpl.
  - intros k e0. destruct (N.eqb k eon) eqn:Ek.
    + apply N.eqb_eq in Ek. subst k. intros [= <-]. split; assumption.
    + apply W1.
  - exact W2.
Qed.

Lemma inv_set_both x g eon a a' e e' :
  chain_inv x g ->
  nget (sm_dkg (snd x)) eon = Some a -> gs_dkg g eon = Some e ->
  same (a_pure a') (ge_pure e') -> a_start a' = ge_start e' -> a_keypers a' = ge_keypers e' ->
  chain_inv (fst x, set_dkg C E P (snd x) eon a') (g_set_dkg g eon (Some e')).
Proof.
  intros [Hl Hc He Hd Hr] Ha Hg Hs Hst Hk. constructor; simpl; try assumption.
  - destruct Hl as [Hl|[_ Hl]]; [left; exact Hl|]. rewrite Hl in Ha. discriminate.
  - intros k a0. destruct (N.eq_dec eon k) as [<-|Hne].
    + rewrite nget_nins_same, N.eqb_refl. intros [= <-]. exists e'. split; [reflexivity|]. split; [exact Hs|]. split; assumption.
    + rewrite nget_nins_other by exact Hne.
      destruct (N.eqb k eon) eqn:Ek; [apply N.eqb_eq in Ek; congruence|]. apply Hd.
  - intros k r cs vs H1 H2. destruct (Hr _ _ _ _ H1 H2) as [gp [G1 [G2 G3]]].
    exists gp. split; [exact G1|]. split; [exact G2|].
    destruct (N.eqb k eon) eqn:Ek; [apply N.eqb_eq in Ek; subst k; congruence|exact G3].
Qed.

Lemma inv_set_g_only x g eon e e' :
  chain_inv x g -> nget (sm_dkg (snd x)) eon = None -> gs_dkg g eon = Some e ->
  chain_inv x (g_set_dkg g eon (Some e')).
Proof.
  intros [Hl Hc He Hd Hr] Ha Hg. constructor; simpl; try assumption.
  - intros k a0 Hk. destruct (N.eqb k eon) eqn:Ek; [apply N.eqb_eq in Ek; subst k; congruence|]. apply Hd. exact Hk.
  - intros k r cs vs H1 H2. destruct (Hr _ _ _ _ H1 H2) as [gp [G1 [G2 G3]]].
    exists gp. split; [exact G1|]. split; [exact G2|].
    destruct (N.eqb k eon) eqn:Ek; [apply N.eqb_eq in Ek; subst k; congruence|exact G3].
Qed.

Lemma ltb_fin_of_same (p q : pure) : p_phase p = p_phase q -> phase_ltb (p_phase q) Finalized = true -> phase_ltb (p_phase p) Finalized = true.
Proof. intros ->. auto. Qed.

Definition ok3 (x' : st) (g' : gst) : Prop := chain_inv x' g' /\ g_wf g' /\ sm_sync (snd x') = true.

Lemma commit_inv x g sender eon c x' :
  handle_commit_ev C E P deg_ok x sender eon c = TOk x' -> ok3 x g -> ok3 x' (g_event 0 g (DCommit sender eon c)).
Proof.
  destruct x as [d s]. intros Hrun [Hinv [Hwf Hsync]]. simpl in Hrun |- *.
  destruct (nget (sm_dkg s) eon) as [a|] eqn:Ha.
  - destruct (ci_dkg _ _ Hinv _ _ Ha) as [e [Hg [Hsame [Hst Hk]]]]. rewrite Hg, <- Hk.
    destruct (find_index (a_keypers a) sender 0) as [si|]; [|injection Hrun as <-; (split; [assumption|split; assumption])].
    pose proof (same_handle_commit _ _ eon si c Hsame) as Hrel.
    destruct (handle_commit C E P deg_ok (a_pure a) eon si c) as [p'| |] eqn:H1;
      destruct (handle_commit C E P deg_ok (ge_pure e) eon si c) as [gp'| |] eqn:H2; simpl in Hrel; try contradiction;
      try discriminate; injection Hrun as <-; try ((split; [assumption|split; assumption])).
    destruct Hwf as [W1 W2]. destruct (W1 _ _ Hg) as [He Hlt].
    split; [|split; [|exact Hsync]].
    + apply (inv_set_both (d, s) g eon a (mark C E P a p') e); simpl; try assumption. rewrite Hk. reflexivity.
    + apply g_wf_set; [split; assumption|exact He|]. simpl. rewrite (handle_commit_phase _ _ _ _ _ H2). exact Hlt.
  - injection Hrun as <-. destruct (gs_dkg g eon) as [e|] eqn:Hg; [|(split; [assumption|split; assumption])].
    destruct (find_index (ge_keypers e) sender 0) as [si|]; [|(split; [assumption|split; assumption])].
    destruct (handle_commit C E P deg_ok (ge_pure e) eon si c) as [gp'| |] eqn:H2; try ((split; [assumption|split; assumption])).
    destruct Hwf as [W1 W2]. destruct (W1 _ _ Hg) as [He Hlt].
    split; [|split; [|exact Hsync]].
    + eapply inv_set_g_only; eassumption.
    + apply g_wf_set; [split; assumption|exact He|]. simpl. rewrite (handle_commit_phase _ _ _ _ _ H2). exact Hlt.
Qed.

Lemma eval_inv x g sender eon rs vs x' :
  handle_eval_ev C E P valid_eval me x sender eon rs vs = TOk x' -> ok3 x g -> ok3 x' g.
Proof.
  destruct x as [d s]. intros Hrun [Hinv [Hwf Hsync]]. simpl in Hrun.
  destruct (bytes_eqb sender me); [injection Hrun as <-; (split; [assumption|split; assumption])|].
  destruct (nget (sm_dkg s) eon) as [a|] eqn:Ha; [|injection Hrun as <-; (split; [assumption|split; assumption])].
  destruct (find_index (a_keypers a) sender 0) as [si|]; [|injection Hrun as <-; (split; [assumption|split; assumption])].
  destruct (find_index (a_keypers a) me 0) as [ki|]; [|discriminate].
  destruct (find_index rs me 0) as [mi|]; [|injection Hrun as <-; (split; [assumption|split; assumption])].
  destruct (nth_error vs mi) as [[v|]|]; try discriminate; [|injection Hrun as <-; (split; [assumption|split; assumption])].
  destruct (handle_eval C E P valid_eval (a_pure a) eon si ki v) as [p'| |] eqn:H1; try discriminate;
    injection Hrun as <-; [|(split; [assumption|split; assumption])].
  destruct (ci_dkg _ _ Hinv _ _ Ha) as [e [Hg [Hsame [Hst Hk]]]].
  split; [|split; [exact Hwf|exact Hsync]].
  assert (Hgg : g = g_set_dkg g eon (Some e) \/ True) by (right; exact I).
  pose proof (inv_set_both (d, s) g eon a (mark C E P a p') e e Hinv Ha Hg) as Hi. simpl in Hi.
  assert (Hs' : same p' (ge_pure e)) by (eapply same_trans; [eapply handle_eval_same; exact H1|exact Hsame]).
  specialize (Hi Hs' Hst Hk).
  destruct Hi as [Hl Hc He Hd Hr]. constructor; simpl in *; try assumption.
  - intros k a0 Hk0. destruct (Hd k a0 Hk0) as [e0 [Hg0 Hrest]].
    destruct (N.eqb k eon) eqn:Ek; [apply N.eqb_eq in Ek; subst k; injection Hg0 as <-; exists e; split; [exact Hg|exact Hrest]|].
    exists e0. split; assumption.
  - intros k r cs vs0 H1' H2'. destruct (Hr _ _ _ _ H1' H2') as [gp [G1 [G2 G3]]].
    exists gp. split; [exact G1|]. split; [exact G2|].
    destruct (N.eqb k eon) eqn:Ek; [discriminate|exact G3].
Qed.

Lemma accusation_inv x g sender eon accused x' :
  handle_accusation_ev C E P x sender eon accused = TOk x' -> ok3 x g -> ok3 x' (g_event 0 g (DAccusation sender eon accused)).
Proof.
  destruct x as [d s]. intros Hrun [Hinv [Hwf Hsync]]. simpl in Hrun |- *.
  destruct (nget (sm_dkg s) eon) as [a|] eqn:Ha.
  - destruct (ci_dkg _ _ Hinv _ _ Ha) as [e [Hg [Hsame [Hst Hk]]]]. rewrite Hg, <- Hk.
    destruct (same_fields _ _ Hsame) as [Hp _]. rewrite <- Hp.
    destruct (negb (phase_eqb (p_phase (a_pure a)) Accusing)); [injection Hrun as <-; (split; [assumption|split; assumption])|].
    destruct (find_index (a_keypers a) sender 0) as [si|]; injection Hrun as <-; [|(split; [assumption|split; assumption])].
    destruct Hwf as [W1 W2]. destruct (W1 _ _ Hg) as [He Hlt].
    split; [|split; [|exact Hsync]].
    + apply (inv_set_both (d, s) g eon a (mark C E P a _) e); simpl; try assumption.
      * apply same_accuse_all. exact Hsame.
      * rewrite Hk. reflexivity.
    + apply g_wf_set; [split; assumption|exact He|]. simpl. rewrite accuse_all_phase. exact Hlt.
  - injection Hrun as <-. destruct (gs_dkg g eon) as [e|] eqn:Hg; [|(split; [assumption|split; assumption])].
    destruct (negb _); [(split; [assumption|split; assumption])|].
    destruct (find_index (ge_keypers e) sender 0) as [si|]; [|(split; [assumption|split; assumption])].
    destruct Hwf as [W1 W2]. destruct (W1 _ _ Hg) as [He Hlt].
    split; [|split; [|exact Hsync]].
    + eapply inv_set_g_only; eassumption.
    + apply g_wf_set; [split; assumption|exact He|]. simpl. rewrite accuse_all_phase. exact Hlt.
Qed.

Lemma apology_inv x g sender eon accusers vals x' :
  handle_apology_ev C E P valid_eval x sender eon accusers vals = TOk x' -> ok3 x g ->
  ok3 x' (g_event 0 g (DApology sender eon accusers vals)).
Proof.
  destruct x as [d s]. intros Hrun [Hinv [Hwf Hsync]]. simpl in Hrun |- *.
  destruct (nget (sm_dkg s) eon) as [a|] eqn:Ha.
  - destruct (ci_dkg _ _ Hinv _ _ Ha) as [e [Hg [Hsame [Hst Hk]]]]. rewrite Hg, <- Hk.
    destruct (same_fields _ _ Hsame) as [Hp _]. rewrite <- Hp.
    destruct (negb (phase_eqb (p_phase (a_pure a)) Apologizing)); [injection Hrun as <-; (split; [assumption|split; assumption])|].
    destruct (find_index (a_keypers a) sender 0) as [si|]; [|injection Hrun as <-; (split; [assumption|split; assumption])].
    pose proof (same_apologise_all _ _ (a_keypers a) eon si accusers vals Hsame) as Hrel.
    destruct (apologise_all C E P valid_eval (a_pure a) (a_keypers a) eon si accusers vals) as [p'|] eqn:H1; [|discriminate].
    destruct (apologise_all C E P valid_eval (ge_pure e) (a_keypers a) eon si accusers vals) as [gp'|] eqn:H2; [|contradiction].
    injection Hrun as <-.
    destruct Hwf as [W1 W2]. destruct (W1 _ _ Hg) as [He Hlt].
    split; [|split; [|exact Hsync]].
    + apply (inv_set_both (d, s) g eon a (mark C E P a p') e); simpl; try assumption. rewrite Hk. reflexivity.
    + apply g_wf_set; [split; assumption|exact He|]. simpl. rewrite (apologise_all_phase _ _ _ _ _ _ _ H2). exact Hlt.
  - injection Hrun as <-. destruct (gs_dkg g eon) as [e|] eqn:Hg; [|(split; [assumption|split; assumption])].
    destruct (negb _); [(split; [assumption|split; assumption])|].
    destruct (find_index (ge_keypers e) sender 0) as [si|]; [|(split; [assumption|split; assumption])].
    destruct (apologise_all C E P valid_eval (ge_pure e) (ge_keypers e) eon si accusers vals) as [gp'|] eqn:H2; [|(split; [assumption|split; assumption])].
    destruct Hwf as [W1 W2]. destruct (W1 _ _ Hg) as [He Hlt].
    split; [|split; [|exact Hsync]].
    + eapply inv_set_g_only; eassumption.
    + apply g_wf_set; [split; assumption|exact He|]. simpl. rewrite (apologise_all_phase _ _ _ _ _ _ _ H2). exact Hlt.
Qed.

Lemma phase_at_start h : phase_at L h h = Dealing.
Proof.
  unfold phase_at.
  destruct (h <? h + 0 * L) eqn:A; [apply Z.ltb_lt in A; lia|].
  destruct (h <? h + 1 * L) eqn:B; [reflexivity|apply Z.ltb_ge in B; lia].
Qed.

Lemma inv_set_g_fresh x g eon e' :
  chain_inv x g -> nget (sm_dkg (snd x)) eon = None -> gs_done g eon = None ->
  chain_inv x (g_set_dkg g eon (Some e')).
Proof.
  intros [Hl Hc He Hd Hr] Ha Hg. constructor; simpl; try assumption.
  - intros k a0 Hk. destruct (N.eqb k eon) eqn:Ek; [apply N.eqb_eq in Ek; subst k; congruence|]. apply Hd. exact Hk.
  - intros k r cs vs H1 H2. destruct (Hr _ _ _ _ H1 H2) as [gp [G1 [G2 G3]]].
    exists gp. split; [exact G1|]. split; [exact G2|].
    destruct (N.eqb k eon) eqn:Ek; [apply N.eqb_eq in Ek; subst k; congruence|exact G3].
Qed.

Lemma check_in_inv x g sender x' :
  handle_check_in C E P x sender = TOk x' -> ok3 x g -> ok3 x' g.
Proof.
  destruct x as [d s]. intros Hrun [[Hl Hc He Hd Hr] [Hwf Hsync]]. simpl in Hrun. injection Hrun as <-.
  split; [|split; assumption].
  destruct (existsb _ _); constructor; simpl in *; assumption.
Qed.

Lemma batch_config_inv x g h idx act thr ks started x' :
  handle_batch_config C E P me x h idx act thr ks started = TOk x' -> ok3 x g ->
  ok3 x' (g_event h g (DBatchConfig idx act thr ks started)).
Proof.
  destruct x as [d s]. intros Hrun [[Hl Hc He Hd Hr] [Hwf Hsync]].
  unfold handle_batch_config in Hrun. simpl in Hc, He, Hd, Hr, Hsync.
  destruct Hwf as [W1 W2].
  destruct (is_member ks me); simpl in Hrun |- *; rewrite <- Hc;
    (destruct (nget (db_cfgs C E P d) idx) eqn:Hn; [discriminate|]); injection Hrun as <-.
  - split; [|split; [split; simpl; assumption|exact Hsync]].
    constructor; simpl; [left; exact Hsync|reflexivity|exact He|exact Hd|exact Hr].
  - split; [|split; [split; simpl; assumption|exact Hsync]].
    constructor; simpl; [left; exact Hsync|reflexivity|exact He|exact Hd|exact Hr].
Qed.

Lemma batch_config_started_inv x g idx x' :
  handle_batch_config_started C E P x idx = TOk x' -> ok3 x g -> ok3 x' (g_event 0 g (DBatchConfigStarted idx)).
Proof.
  destruct x as [d s]. intros Hrun [[Hl Hc He Hd Hr] [Hwf Hsync]]. simpl in Hrun |- *.
  simpl in Hc. rewrite <- Hc.
  destruct (nget (db_cfgs C E P d) idx) as [c|] eqn:Hn; injection Hrun as <-.
  - split; [|split; [|exact Hsync]].
    + constructor; simpl in *; try assumption. reflexivity.
    + destruct Hwf as [W1 W2]. split; simpl; assumption.
  - split; [|split; assumption]. constructor; simpl in *; assumption.
Qed.

Lemma samex_new_pure eon n t k1 k2 ph (p : pure) :
  samex p (new_pure eon n t k1) -> samex p (set_phase (new_pure eon n t k2) ph).
Proof. intros H. eapply samex_trans; [exact H|]. repeat split. Qed.

Lemma eon_started_inv x g h eon act idx x' :
  handle_eon_started C E P commit_of eval_of verify valid_eval me L poly_for x h eon act idx = TOk x' -> ok3 x g ->
  ok3 x' (g_event h g (DEonStarted eon act idx)).
Proof.
  destruct x as [d s]. intros Hrun [Hinv [Hwf Hsync]]. simpl in Hrun |- *.
  destruct (9223372036854775807 <? Z.of_N act); [discriminate|].
  pose proof (ci_eons _ _ Hinv eon) as Heon. simpl in Heon.
  destruct (nget (db_eons C E P d) eon) eqn:Hn; [discriminate|]. rewrite Heon.
  destruct Hwf as [W1 W2].
  assert (Hdone : gs_done g eon = None).
  { destruct (gs_done g eon) eqn:Q; [|reflexivity]. apply W2 in Q. congruence. }
  assert (Hnodkg : nget (sm_dkg s) eon = None).
  { destruct (nget (sm_dkg s) eon) as [a|] eqn:Q; [|reflexivity].
    destruct (ci_dkg _ _ Hinv _ _ Q) as [e [Hg _]]. apply W1 in Hg. destruct Hg. congruence. }
  set (d1 := upd_db_eons C E P d (db_eons C E P d ++ [(eon, mkEon h act idx)])) in *.
  set (g1 := mkGst (gs_cfgs g) (fun k => N.eqb k eon || gs_eons g k) (gs_dkg g) (gs_done g)).
  assert (Hinv1 : chain_inv (d1, s) g1).
  { destruct Hinv as [Hl Hc He Hd Hr]. constructor; simpl in *; try assumption.
    intros k. rewrite (nget_app_none _ _ _ _ Hn). rewrite N.eqb_sym.
    destruct (N.eqb eon k); [reflexivity|]. simpl. apply He. }
  assert (Hwf1 : g_wf g1).
  { split; simpl.
    - intros k e Hk. destruct (W1 _ _ Hk) as [A B]. rewrite A. split; [apply orb_true_r|exact B].
    - intros k gp Hk. rewrite (W2 _ _ Hk). apply orb_true_r. }
  assert (Hcf : nget (gs_cfgs g) idx = nget (db_cfgs C E P d) idx).
  { rewrite <- (ci_cfgs _ _ Hinv). reflexivity. }
  rewrite Hcf.
  assert (Hfresh : forall c, ok3 (d1, s) (g_set_dkg g1 eon
            (Some (mkGent (set_phase (new_pure eon (length (cf_keypers c)) (cf_threshold c) 0) Dealing) h (cf_keypers c))))).
  { intros c. split; [|split; [|exact Hsync]].
    - apply inv_set_g_fresh; assumption.
    - apply g_wf_set; [exact Hwf1| |reflexivity]. simpl. rewrite N.eqb_refl. reflexivity. }
  destruct (negb (sm_iskeyper s)).
  { injection Hrun as <-. destruct (nget (db_cfgs C E P d) idx) as [c|]; [apply Hfresh|].
    split; [exact Hinv1|split; [exact Hwf1|exact Hsync]]. }
  destruct (nget (db_cfgs C E P d) idx) as [c|]; [|discriminate].
  destruct (find_index (cf_keypers c) me 0) as [ki|]; [|injection Hrun as <-; apply Hfresh].
  destruct (phase_eqb _ Off); [discriminate|].
  set (a := mkActive (new_pure eon (length (cf_keypers c)) (cf_threshold c) ki) h true (cf_keypers c)) in *.
  assert (Hga : nget (sm_dkg (snd (d1, set_dkg C E P s eon a))) eon = Some a) by (simpl; apply nget_nins_same).
  pose proof (shift_phase_spec _ _ _ _ _ Hrun Hga) as Hres.
  assert (Htg : tgt h a = Dealing) by (unfold tgt; simpl; apply phase_at_start).
  destruct Hres as [Hge _|a' Hlt Hnfin Hfr Hget' Hres' Hst' Hk' Hx' Hp'|pf ok Hlt Hfin _ _ _ _ _ _].
  - rewrite Htg in Hge. simpl in Hge. discriminate.
  - destruct Hfr as [F1 [F2 [F2' [F3 [F4 [F5 F6]]]]]]. simpl in *.
    destruct Hinv1 as [Hl Hc He Hd Hr]. simpl in *.
    split; [|split].
    + constructor; simpl.
      * left. rewrite F3. exact Hsync.
      * rewrite F1. exact Hc.
      * intros k. rewrite F2. apply He.
      * intros k a0 Ha0. destruct (N.eq_dec k eon) as [->|Hne].
        -- rewrite Hget' in Ha0. injection Ha0 as <-. rewrite N.eqb_refl. eexists. split; [reflexivity|].
           simpl. split; [|split; assumption].
           apply same_iff. split; [|rewrite Hp', Htg; reflexivity].
           eapply samex_new_pure. exact Hx'.
        -- rewrite F5 in Ha0 by exact Hne. rewrite nget_nins_other in Ha0 by congruence.
           destruct (N.eqb k eon) eqn:Ek; [apply N.eqb_eq in Ek; contradiction|]. apply Hd. exact Ha0.
      * intros k r cs vs H1 H2. destruct (N.eq_dec k eon) as [->|Hne].
        -- rewrite Hres' in H1. destruct (Hr _ _ _ _ H1 H2) as [gp [G1 _]]. congruence.
        -- rewrite F6 in H1 by exact Hne. destruct (Hr _ _ _ _ H1 H2) as [gp [G1 [G2 G3]]].
           exists gp. split; [exact G1|]. split; [exact G2|].
           destruct (N.eqb k eon) eqn:Ek; [apply N.eqb_eq in Ek; contradiction|exact G3].
    + apply g_wf_set; [exact Hwf1| |reflexivity]. simpl. rewrite N.eqb_refl. reflexivity.
    + rewrite F3. exact Hsync.
  - rewrite Htg in Hfin. discriminate.
Qed.

Lemma handle_event_inv x g h ev x' :
  handle_event x h ev = TOk x' -> ok3 x g -> ok3 x' (g_event h g ev).
Proof.
  destruct ev; simpl; intros Hrun Hok.
  - eapply check_in_inv; eassumption.
  - eapply batch_config_inv; eassumption.
  - apply (batch_config_started_inv _ _ _ _ Hrun Hok).
  - eapply eon_started_inv; eassumption.
  - apply (commit_inv _ _ _ _ _ _ Hrun Hok).
  - eapply eval_inv; eassumption.
  - apply (accusation_inv _ _ _ _ _ _ Hrun Hok).
  - apply (apology_inv _ _ _ _ _ _ _ Hrun Hok).
Qed.

Lemma handle_events_inv es : forall x g h x',
  handle_events x h es = TOk x' -> ok3 x g -> ok3 x' (g_events h g es).
Proof.
  induction es as [|ev r IH]; simpl; intros x g h x' Hrun Hok.
  - injection Hrun as <-. exact Hok.
  - destruct (handle_event x h ev) as [x1| |] eqn:H1; simpl in Hrun; try discriminate.
    eapply IH; [exact Hrun|]. eapply handle_event_inv; eassumption.
Qed.

(* ---- the block transaction ---- *)
Lemma load_inv d s g s1 :
  chain_inv (d, s) g -> load C E P d s = TOk s1 -> chain_inv (d, s1) g /\ sm_sync s1 = true.
Proof.
  intros Hinv. unfold load. destruct (sm_sync s) eqn:Hs.
  - intros [= <-]. split; [exact Hinv|exact Hs].
  - destruct Hinv as [Hl Hc He Hd Hr]. simpl in *.
    destruct Hl as [Hl|[Hp Hdk]]; [congruence|]. rewrite Hp. simpl. intros [= <-]. split; [|reflexivity].
    constructor; simpl; try assumption.
    + left. reflexivity.
    + intros eon a Ha. discriminate.
Qed.

Lemma fold_schedule_frame {A} (f : A -> msg C E) l : forall d,
  let d' := fold_left (fun acc x => schedule C E P acc None (f x)) l d in
  db_cfgs _ _ _ d' = db_cfgs _ _ _ d /\ db_eons _ _ _ d' = db_eons _ _ _ d /\ db_results _ _ _ d' = db_results _ _ _ d /\
  db_pure _ _ _ d' = db_pure _ _ _ d /\ db_evals _ _ _ d' = db_evals _ _ _ d.
Proof.
  induction l as [|x r IH]; simpl; intros d; [repeat split|].
  destruct (IH (schedule C E P d None (f x))) as [A1 [A2 [A3 [A4 A5]]]]. simpl in *. repeat split; assumption.
Qed.

Lemma send_poly_evals_frame d :
  db_cfgs _ _ _ (send_poly_evals C E P d) = db_cfgs _ _ _ d /\ db_eons _ _ _ (send_poly_evals C E P d) = db_eons _ _ _ d /\
  db_results _ _ _ (send_poly_evals C E P d) = db_results _ _ _ d /\ db_pure _ _ _ (send_poly_evals C E P d) = db_pure _ _ _ d.
Proof.
  unfold send_poly_evals. simpl.
  match goal with |- context [fold_left ?F ?l d] =>
    pose proof (fold_schedule_frame (fun eon => MEvals eon
      (map (fun row => fst (snd row)) (filter (fun row => N.eqb (fst row) eon) (filter (fun row => has_key C E P d (fst (snd row))) (db_evals C E P d))))
      (map (fun row => snd (snd row)) (filter (fun row => N.eqb (fst row) eon) (filter (fun row => has_key C E P d (fst (snd row))) (db_evals C E P d))))) l d) as H
  end.
  simpl in H. destruct H as [A1 [A2 [A3 [A4 A5]]]]. repeat split; assumption.
Qed.

Lemma save_all_frame l : forall d,
  db_cfgs _ _ _ (save_all C E P d l) = db_cfgs _ _ _ d /\ db_eons _ _ _ (save_all C E P d l) = db_eons _ _ _ d /\
  db_results _ _ _ (save_all C E P d l) = db_results _ _ _ d.
Proof.
  induction l as [|[eon a] r IH]; simpl; intros d; [repeat split|].
  destruct (a_dirty a); [|apply IH].
  destruct (IH (upd_db_pure C E P d (nset (db_pure C E P d) eon (a_pure a)))) as [A1 [A2 A3]]. simpl in *. repeat split; assumption.
Qed.

Lemma nget_clean (m : list (N * active)) k :
  nget (clean C E P m) k = option_map (fun a => mkActive (a_pure a) (a_start a) false (a_keypers a)) (nget m k).
Proof.
  induction m as [|[k0 a0] r IH]; simpl; [reflexivity|].
  destruct (N.eqb k0 k); [reflexivity|exact IH].
Qed.

Lemma finish_inv x g :
  chain_inv x g -> sm_sync (snd x) = true ->
  chain_inv (save C E P enum (send_poly_evals C E P (fst x), snd x)) g.
Proof.
  destruct x as [d s]. intros [Hl Hc He Hd Hr] Hs. simpl in *.
  destruct (send_poly_evals_frame d) as [A1 [A2 [A3 A4]]].
  destruct (save_all_frame (enum (sm_dkg s)) (send_poly_evals C E P d)) as [B1 [B2 B3]].
  constructor; simpl.
  - left. exact Hs.
  - rewrite B1, A1. exact Hc.
  - intros eon. rewrite B2, A2. apply He.
  - intros eon a. rewrite nget_clean. destruct (nget (sm_dkg s) eon) as [a0|] eqn:Ha; simpl; [|discriminate].
    intros [= <-]. simpl. apply Hd. exact Ha.
  - intros eon r cs vs. rewrite B3, A3. apply Hr.
Qed.

Lemma handle_block_inv x g blk lch x' :
  enum_keys_ok -> handle_block x blk lch = TOk x' -> chain_inv x g -> g_wf g ->
  chain_inv x' (g_block g blk) /\ g_wf (g_block g blk).
Proof.
  intros Henum Hrun Hinv Hwf. destruct x as [d s]. unfold DKGDriver.handle_block in Hrun.
  destruct (load C E P d s) as [s1| |] eqn:Hload; simpl in Hrun; try discriminate.
  destruct (load_inv _ _ _ _ Hinv Hload) as [Hinv1 Hsync1].
  destruct (negb (fst blk =? db_sync C E P d + 1)); [discriminate|].
  set (d1 := upd_db_sync C E P d (fst blk) lch blk) in *.
  assert (Hinv2 : chain_inv (d1, s1) g).
  { destruct Hinv1 as [Hl Hc He Hd Hr]. constructor; simpl in *; assumption. }
  destruct (shift_phases C E P commit_of eval_of verify valid_eval L enum poly_for (d1, s1) (fst blk)) as [x2| |] eqn:Hsh;
    simpl in Hrun; try discriminate.
  destruct (shift_phases_inv _ _ _ _ Henum Hinv2 Hwf Hsync1 Hsh) as [Hinv3 Hsync3].
  destruct (handle_events x2 (fst blk) (snd blk)) as [x3| |] eqn:Hev; simpl in Hrun; try discriminate.
  injection Hrun as <-.
  destruct (handle_events_inv _ _ _ _ _ Hev (conj Hinv3 (conj (g_wf_shift _ _ Hwf) Hsync3))) as [Hinv4 [Hwf4 Hsync4]].
  split; [|exact Hwf4]. unfold g_block. apply finish_inv; assumption.
Qed.

(* ---- runs ---- *)
Fixpoint run_blocks (lch : Z -> Z) (x : st) (blocks : list (Z * list dev)) : option st :=
  match blocks with
  | [] => Some x
  | b :: r => match handle_block x b (lch (fst b)) with
              | TOk x' => run_blocks lch x' r
              | _ => None
              end
  end.

Lemma run_blocks_inv lch blocks : forall x g x',
  enum_keys_ok -> run_blocks lch x blocks = Some x' -> chain_inv x g -> g_wf g ->
  chain_inv x' (fold_left g_block blocks g) /\ g_wf (fold_left g_block blocks g).
Proof.
  induction blocks as [|b r IH]; simpl; intros x g x' Henum Hrun Hinv Hwf.
  - injection Hrun as <-. split; assumption.
  - destruct (handle_block x b (lch (fst b))) as [x1| |] eqn:Hb; try discriminate.
    destruct (handle_block_inv _ _ _ _ _ Henum Hb Hinv Hwf) as [Hinv1 Hwf1].
    eapply IH; eassumption.
Qed.

Lemma init_inv : chain_inv (db_init, sm_fresh) g_init /\ g_wf g_init.
Proof.
  split.
  - constructor; simpl; try reflexivity.
    + right. split; reflexivity.
    + intros eon a H. discriminate.
    + intros eon r cs vs H. discriminate.
  - split; simpl; intros; discriminate.
Qed.

End Chain.

(* ---- two keypers on the same chain ---- *)
Section TwoKeypers.
Variables C E P : Type.
Variable commit_of : P -> C.
Variable eval_of : P -> nat -> E.
Variable verify : nat -> E -> C -> bool.
Variable deg_ok : N -> C -> bool.
Variable valid_eval : E -> bool.
Variable L : Z.
Hypothesis Lpos : 0 < L.
Variable blocks : list (Z * list (@dev C E)).
Variables me1 me2 : addr.
Variables enum1 enum2 : list (N * @active C E P) -> list (N * @active C E P).
Variables poly1 poly2 : N -> P.
Variables lch1 lch2 : Z -> Z.
Variables x1 x2 : st C E P.
Hypothesis Henum1 : enum_keys_ok C E P enum1.
Hypothesis Henum2 : enum_keys_ok C E P enum2.
Hypothesis Hrun1 : run_blocks C E P commit_of eval_of verify deg_ok valid_eval me1 L enum1 poly1 lch1 (db_init, sm_fresh) blocks = Some x1.
Hypothesis Hrun2 : run_blocks C E P commit_of eval_of verify deg_ok valid_eval me2 L enum2 poly2 lch2 (db_init, sm_fresh) blocks = Some x2.

Let G := fold_left (g_block C E P deg_ok valid_eval L) blocks (g_init C E P).

Lemma two_inv : chain_inv C E P verify x1 G /\ chain_inv C E P verify x2 G.
Proof.
  destruct (init_inv C E P verify) as [Hi Hw].
  split.
  - exact (proj1 (run_blocks_inv C E P commit_of eval_of verify deg_ok valid_eval me1 L Lpos enum1 poly1 lch1 blocks _ _ _ Henum1 Hrun1 Hi Hw)).
  - exact (proj1 (run_blocks_inv C E P commit_of eval_of verify deg_ok valid_eval me2 L Lpos enum2 poly2 lch2 blocks _ _ _ Henum2 Hrun2 Hi Hw)).
Qed.

Theorem public_state_is_function_of_chain :
  forall eon a1 a2,
    nget (sm_dkg (snd x1)) eon = Some a1 -> nget (sm_dkg (snd x2)) eon = Some a2 ->
    pub (a_pure a1) = pub (a_pure a2) /\ a_start a1 = a_start a2 /\ a_keypers a1 = a_keypers a2 /\
    (forall j, is_corrupt C E P verify (a_pure a1) j = is_corrupt C E P verify (a_pure a2) j).
Proof.
  intros eon a1 a2 H1 H2. destruct two_inv as [I1 I2].
  destruct (ci_dkg _ _ _ _ _ _ I1 _ _ H1) as [e1 [G1 [S1 [T1 K1]]]].
  destruct (ci_dkg _ _ _ _ _ _ I2 _ _ H2) as [e2 [G2 [S2 [T2 K2]]]].
  rewrite G1 in G2. injection G2 as <-.
  assert (Hs : same C E P (a_pure a1) (a_pure a2)) by (eapply same_trans; [exact S1|apply same_sym; exact S2]).
  destruct Hs as [Hp _].
  split; [exact Hp|]. split; [congruence|]. split; [congruence|].
  intros j. apply is_corrupt_pub. exact Hp.
Qed.

(* both keypers finished the eon successfully: the same qualified commitments *)
Theorem agreement_on_results :
  forall eon r1 r2 cs1 vs1 cs2 vs2,
    nget (db_results _ _ _ (fst x1)) eon = Some r1 -> nget (db_results _ _ _ (fst x2)) eon = Some r2 ->
    rs_result _ _ r1 = CResult cs1 vs1 -> rs_result _ _ r2 = CResult cs2 vs2 -> cs1 = cs2.
Proof.
  intros eon r1 r2 cs1 vs1 cs2 vs2 H1 H2 R1 R2. destruct two_inv as [I1 I2].
  destruct (ci_res _ _ _ _ _ _ I1 _ _ _ _ H1 R1) as [gp1 [D1 [Q1 _]]].
  destruct (ci_res _ _ _ _ _ _ I2 _ _ _ _ H2 R2) as [gp2 [D2 [Q2 _]]].
  rewrite D1 in D2. injection D2 as <-. congruence.
Qed.

End TwoKeypers.
