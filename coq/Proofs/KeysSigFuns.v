(* The hand-written model of the signature validators (Model/KeysSig.v) agrees with what the
   translator reads off the source (Generated/KeysSigFuns.v is rewritten from the repository on
   every check of C06): guards, casts, rejection classes, slice indexing, loops, and which
   fields reach the signature data. *)
From Coq Require Import List NArith ZArith Bool Lia.
From Verif Require Import Lib.Bytes Model.KeysSig Generated.KeysSigFuns.
Import ListNotations.
Open Scope Z_scope.

(* ---- the translator's vocabulary versus the model's ------------------------------------- *)

Lemma to_int32_agrees z : gen_to_int32 z = to_i32 z.
Proof. reflexivity. Qed.

Lemma N_eqb_Z a b : (a =? b)%N = (Z.of_N a =? Z.of_N b).
Proof.
  destruct (a =? b)%N eqn:E1; destruct (Z.of_N a =? Z.of_N b) eqn:E2; try reflexivity;
    try (apply N.eqb_eq in E1); try (apply N.eqb_neq in E1);
    try (apply Z.eqb_eq in E2); try (apply Z.eqb_neq in E2); lia.
Qed.
Lemma N_ltb_Z a b : (a <? b)%N = (Z.of_N a <? Z.of_N b).
Proof.
  destruct (a <? b)%N eqn:E1; destruct (Z.of_N a <? Z.of_N b) eqn:E2; try reflexivity;
    try (apply N.ltb_lt in E1); try (apply N.ltb_ge in E1);
    try (apply Z.ltb_lt in E2); try (apply Z.ltb_ge in E2); lia.
Qed.
Lemma N_leb_Z a b : (a <=? b)%N = (Z.of_N a <=? Z.of_N b).
Proof.
  destruct (a <=? b)%N eqn:E1; destruct (Z.of_N a <=? Z.of_N b) eqn:E2; try reflexivity;
    try (apply N.leb_le in E1); try (apply N.leb_gt in E1);
    try (apply Z.leb_le in E2); try (apply Z.leb_gt in E2); lia.
Qed.
Lemma nat_eqb_Z a b : (a =? b)%nat = (Z.of_nat a =? Z.of_nat b).
Proof.
  destruct (a =? b)%nat eqn:E1; destruct (Z.of_nat a =? Z.of_nat b) eqn:E2; try reflexivity;
    try (apply Nat.eqb_eq in E1); try (apply Nat.eqb_neq in E1);
    try (apply Z.eqb_eq in E2); try (apply Z.eqb_neq in E2); lia.
Qed.
Lemma nat_ltb_Z a b : (a <? b)%nat = (Z.of_nat a <? Z.of_nat b).
Proof.
  destruct (Nat.ltb_spec a b), (Z.ltb_spec (Z.of_nat a) (Z.of_nat b)); try reflexivity; lia.
Qed.

(* uint64(n) of a slice length *)
Lemma len_u64 n : Z.of_nat n < 2 ^ 63 -> Z.of_nat n mod 18446744073709551616 = Z.of_N (N.of_nat n).
Proof.
  intros Hn. change (2 ^ 63) with 9223372036854775808 in Hn.
  rewrite Z.mod_small by lia. lia.
Qed.

Lemma gen_index_nat {A} (l : list A) (i : nat) : gen_index l (Z.of_nat i) = nth_error l i.
Proof.
  unfold gen_index. destruct (Z.of_nat i <? 0) eqn:E; [apply Z.ltb_lt in E; lia|].
  rewrite Nat2Z.id. reflexivity.
Qed.

Lemma gen_index_N {A} (l : list A) (i : N) : gen_index l (Z.of_N i) = nth_error l (N.to_nat i).
Proof. rewrite <- N_nat_Z. apply gen_index_nat. Qed.

Lemma nth_error_split {A} (pre : list A) x suf : nth_error (pre ++ x :: suf) (length pre) = Some x.
Proof. induction pre; simpl; auto. Qed.

Definition last_opt {A} (l : list A) : option A :=
  match rev l with [] => None | x :: _ => Some x end.

Lemma last_opt_snoc {A} (l : list A) x : last_opt (l ++ [x]) = Some x.
Proof. unfold last_opt. rewrite rev_app_distr. reflexivity. Qed.

(* ---- validateSignerIndices --------------------------------------------------------------- *)

(* what the model decides at one element of the signer list: Some v = return v, None = go on *)
Definition signer_step (n : N) (prev : option N) (x : N) : option verdict :=
  let range := if (n <=? x)%N then Some (Reject ROutOfRange) else None in
  match prev with
  | None => range
  | Some p => if (x =? p)%N then Some (Reject RDuplicate)
              else if (x <? p)%N then Some (Reject RUnordered) else range
  end.

Lemma signer_loop_step n prev x r :
  signer_loop prev (x :: r) n =
  match signer_step n prev x with Some v => v | None => signer_loop (Some x) r n end.
Proof.
  unfold signer_step. cbn [signer_loop].
  destruct prev as [p|]; [destruct (x =? p)%N; [reflexivity|]; destruct (x <? p)%N; [reflexivity|]|];
    destruct (n <=? x)%N; reflexivity.
Qed.

Lemma signer_step_none n prev x : signer_step n prev x = None -> (x < n)%N.
Proof.
  unfold signer_step. destruct prev as [p|];
    [destruct (x =? p)%N; [discriminate|]; destruct (x <? p)%N; [discriminate|]|];
    destruct (n <=? x)%N eqn:E; try discriminate; intros _; apply N.leb_gt in E; exact E.
Qed.

(* the loop invariant: the previous index (if any) passed the range test *)
Definition prev_in_range (n : N) (pre : list N) : Prop := forall p, last_opt pre = Some p -> (p < n)%N.

Lemma range_until_signer_loop (body : Z -> Z -> option verdict) (full : list N) (n : N) :
  (forall pre x suf, full = pre ++ x :: suf -> prev_in_range n pre ->
                     body (Z.of_nat (length pre)) (Z.of_N x) = signer_step n (last_opt pre) x) ->
  forall suf pre, full = pre ++ suf -> prev_in_range n pre ->
    match gen_range_until body (map Z.of_N suf) (Z.of_nat (length pre)) with
    | Some v => v | None => Accept end
    = signer_loop (last_opt pre) suf n.
Proof.
  intros Hb suf. induction suf as [|x r IH]; intros pre Hf Hinv.
  - reflexivity.
  - cbn [map gen_range_until]. rewrite (Hb pre x r Hf Hinv), signer_loop_step.
    destruct (signer_step n (last_opt pre) x) as [v|] eqn:Es; [reflexivity|].
    specialize (IH (pre ++ [x])). rewrite app_length in IH. cbn [length] in IH.
    replace (Z.of_nat (length pre + 1)) with (Z.of_nat (length pre) + 1) in IH by lia.
    rewrite last_opt_snoc in IH. apply IH; [rewrite <- app_assoc; exact Hf|].
    intros p Hp. rewrite last_opt_snoc in Hp. injection Hp as <-. exact (signer_step_none _ _ _ Es).
Qed.

(* the body the translator produced satisfies the step specification; the comparisons are
   first brought into the translator's vocabulary, then every atom is split *)
Ltac split_atoms :=
  repeat match goal with
         | |- context [if ?c then _ else _] =>
             lazymatch c with
             | context [if _ then _ else _] => fail
             | _ => destruct c eqn:?
             end
         end.

Lemma signer_indices_body_spec (flav_body : Z -> Z -> option verdict) (signers : list N) (n : nat) :
  Z.of_nat n < 2 ^ 63 ->
  (forall i x, flav_body i x =
     if (1 <=? i) then
       match gen_index (map Z.of_N signers) (i - 1) with
       | None => Some Panic
       | Some p =>
           if (x =? p) then Some (Reject RDuplicate)
           else if (x <? p) then Some (Reject RUnordered)
           else if (Z.of_nat n mod 18446744073709551616 <=? x) then Some (Reject ROutOfRange) else None
       end
     else if (Z.of_nat n mod 18446744073709551616 <=? x) then Some (Reject ROutOfRange) else None) ->
  forall pre x suf, signers = pre ++ x :: suf -> prev_in_range (N.of_nat n) pre ->
    flav_body (Z.of_nat (length pre)) (Z.of_N x) = signer_step (N.of_nat n) (last_opt pre) x.
Proof.
  intros Hn Hb pre x suf Hs _. rewrite Hb, (len_u64 n Hn). unfold signer_step.
  rewrite N_leb_Z.
  induction pre as [|p0 pre0 _] using rev_ind.
  - reflexivity.
  - rewrite last_opt_snoc, app_length. cbn [length].
    replace (1 <=? Z.of_nat (length pre0 + 1)) with true by (symmetry; apply Z.leb_le; lia).
    replace (Z.of_nat (length pre0 + 1) - 1) with (Z.of_nat (length pre0)) by lia.
    rewrite gen_index_nat, Hs, <- app_assoc, map_app. cbn [app map].
    replace (length pre0) with (length (map Z.of_N pre0)) by apply map_length.
    rewrite nth_error_split, N_eqb_Z, N_ltb_Z. reflexivity.
Qed.

(* the other spelling of the same loop body: range test first, `continue` for the first element,
   then the duplicate / order tests. It decides the same because the previous index passed the
   range test (the loop invariant): an index that is out of range is greater than it. *)
Lemma signer_indices_body_spec_range_first (flav_body : Z -> Z -> option verdict) (signers : list N) (n : nat) :
  Z.of_nat n < 2 ^ 63 ->
  (forall i x, flav_body i x =
     if (Z.of_nat n mod 18446744073709551616 <=? x) then Some (Reject ROutOfRange)
     else if (i =? 0) then None
     else match gen_index (map Z.of_N signers) (i - 1) with
          | None => Some Panic
          | Some p =>
              if (x =? p) then Some (Reject RDuplicate)
              else if (x <? p) then Some (Reject RUnordered) else None
          end) ->
  forall pre x suf, signers = pre ++ x :: suf -> prev_in_range (N.of_nat n) pre ->
    flav_body (Z.of_nat (length pre)) (Z.of_N x) = signer_step (N.of_nat n) (last_opt pre) x.
Proof.
  intros Hn Hb pre x suf Hs Hinv. rewrite Hb, (len_u64 n Hn). unfold signer_step.
  rewrite N_leb_Z.
  induction pre as [|p0 pre0 _] using rev_ind.
  - reflexivity.
  - pose proof (Hinv p0 (last_opt_snoc _ _)) as Hp.
    rewrite last_opt_snoc, app_length. cbn [length].
    replace (Z.of_nat (length pre0 + 1) =? 0) with false by (symmetry; apply Z.eqb_neq; lia).
    replace (Z.of_nat (length pre0 + 1) - 1) with (Z.of_nat (length pre0)) by lia.
    rewrite gen_index_nat, Hs, <- app_assoc, map_app. cbn [app map].
    replace (length pre0) with (length (map Z.of_N pre0)) by apply map_length.
    rewrite nth_error_split, N_eqb_Z, N_ltb_Z.
    destruct (Z.leb_spec (Z.of_N (N.of_nat n)) (Z.of_N x)), (Z.eqb_spec (Z.of_N x) (Z.of_N p0)),
      (Z.ltb_spec (Z.of_N x) (Z.of_N p0)); try reflexivity; lia.
Qed.

Lemma gnosis_signer_indices_agree signers n :
  Z.of_nat n < 2 ^ 63 ->
  gen_gnosis_validate_signer_indices (map Z.of_N signers) (Z.of_nat n) = validate_signer_indices signers n.
Proof.
  intros Hn. unfold gen_gnosis_validate_signer_indices, validate_signer_indices.
  match goal with |- match gen_range_until ?b _ _ with _ => _ end = _ => set (body := b) end.
  apply (range_until_signer_loop body signers (N.of_nat n)) with (pre := []);
    [|reflexivity|intros p Hp; discriminate Hp].
  first
    [ apply (signer_indices_body_spec body signers n Hn);
      intros i x; unfold body; split_atoms; try reflexivity;
      destruct (gen_index (map Z.of_N signers) (i - 1)); try reflexivity; split_atoms; try reflexivity; congruence
    | apply (signer_indices_body_spec_range_first body signers n Hn);
      intros i x; unfold body; split_atoms; try reflexivity;
      destruct (gen_index (map Z.of_N signers) (i - 1)); try reflexivity; split_atoms; try reflexivity; congruence ].
Qed.

Lemma service_signer_indices_agree signers n :
  Z.of_nat n < 2 ^ 63 ->
  gen_service_validate_signer_indices (map Z.of_N signers) (Z.of_nat n) = validate_signer_indices signers n.
Proof.
  intros Hn. unfold gen_service_validate_signer_indices, validate_signer_indices.
  match goal with |- match gen_range_until ?b _ _ with _ => _ end = _ => set (body := b) end.
  apply (range_until_signer_loop body signers (N.of_nat n)) with (pre := []);
    [|reflexivity|intros p Hp; discriminate Hp].
  first
    [ apply (signer_indices_body_spec body signers n Hn);
      intros i x; unfold body; split_atoms; try reflexivity;
      destruct (gen_index (map Z.of_N signers) (i - 1)); try reflexivity; split_atoms; try reflexivity; congruence
    | apply (signer_indices_body_spec_range_first body signers n Hn);
      intros i x; unfold body; split_atoms; try reflexivity;
      destruct (gen_index (map Z.of_N signers) (i - 1)); try reflexivity; split_atoms; try reflexivity; congruence ].
Qed.

(* ---- KeyperSet.GetSubset ------------------------------------------------------------------ *)

Lemma get_subset_agrees (kp : list (option N)) (idx : list N) :
  Z.of_nat (length kp) < 2 ^ 63 ->
  gen_get_subset (fun k => k) kp (map Z.of_N idx) = get_subset kp idx.
Proof.
  intros Hn. unfold gen_get_subset.
  match goal with |- match gen_range_acc ?b _ _ with _ => _ end = _ => set (body := b) end.
  assert (G : forall l acc,
             match gen_range_acc body (map Z.of_N l) acc with inr r => r | inl s => SubOk s end =
             match get_subset kp l with SubOk r => SubOk (acc ++ r) | e => e end).
  { induction l as [|i r IH]; intros acc.
    - simpl. rewrite app_nil_r. reflexivity.
    - cbn [map gen_range_acc get_subset]. unfold body at 1.
      rewrite (len_u64 _ Hn), <- N_leb_Z, gen_index_N.
      destruct (N.of_nat (length kp) <=? i)%N; [reflexivity|].
      destruct (nth_error kp (N.to_nat i)) as [[a|]|]; try reflexivity.
      fold body. rewrite IH. destruct (get_subset kp r); try reflexivity.
      rewrite <- app_assoc. reflexivity. }
  specialize (G idx []). rewrite G. destruct (get_subset kp idx); reflexivity.
Qed.

(* ---- New*SignatureData -------------------------------------------------------------------- *)

Lemma new_gnosis_data_agrees i e s p ids :
  gen_new_gnosis_data i e s p ids =
  if (1024 <? length ids)%nat then None else Some (TGnosis i e s p ids).
Proof. unfold gen_new_gnosis_data. rewrite nat_ltb_Z. reflexivity. Qed.

Lemma new_service_data_agrees i e ids :
  gen_new_service_data i e ids =
  if (1024 <? length ids)%nat then None else Some (TService i e ids).
Proof. unfold gen_new_service_data. rewrite nat_ltb_Z. reflexivity. Qed.

(* ---- the loop over the signatures --------------------------------------------------------- *)
Section Loop.
  Variable H : Type.
  Variable H_eqb : H -> H -> bool.
  Variable hash : tuple -> H.
  Notation check := (check_signature H H_eqb hash).

  (* what the model decides at one signature *)
  Definition sig_step (t : tuple) (a : option N) (s : sig H) : option verdict :=
    match a with
    | None => Some Panic
    | Some a => match check t s a with
                | None => Some (Reject RCheckError)
                | Some false => Some (Reject RInvalidSig)
                | Some true => None
                end
    end.

  (* The translator emits both spellings of the loop over the signatures (index loop whose body
     starts with `signature := l[i]`, range loop) as one range form. *)
  Lemma range_until_sig_loop (body : Z -> sig H -> option verdict) t addrs :
    (forall i s, body (Z.of_nat i) s = sig_step t (nth_error addrs i) s) ->
    forall suf i,
      match gen_range_until body suf (Z.of_nat i) with Some v => v | None => Accept end
      = sig_loop H H_eqb hash t addrs suf i.
  Proof.
    intros Hb suf. induction suf as [|s r IH]; intros i.
    - reflexivity.
    - cbn [gen_range_until sig_loop]. rewrite (Hb i s). unfold sig_step.
      destruct (nth_error addrs i) as [a|]; [|reflexivity].
      destruct (check t s a) as [[|]|]; try reflexivity.
      replace (Z.of_nat i + 1) with (Z.of_nat (S i)) by lia. apply IH.
  Qed.

  (* the loop body the translator produced decides what the model decides at one signature:
     the signer paired with signature number i is addrs[i]; every atom is split, so the way
     the tests on the result of CheckSignature are written does not matter *)
  Ltac sig_body_spec :=
    let i := fresh "i" in let s := fresh "s" in
    intros i s; rewrite ?gen_index_nat; unfold sig_step, signed_tuple;
    destruct (nth_error _ i) as [?a|]; [|reflexivity];
    match goal with |- context [check ?t s ?a] => destruct (check t s a) as [[|]|] end;
    reflexivity.

  (* ---- ValidateDecryptionKeysSignatures, both flavours ------------------------------------ *)

  Theorem gnosis_validate_sigs_agrees ks m signers sigs :
    Z.of_nat (length (ks_keypers ks)) < 2 ^ 63 ->
    gen_gnosis_validate_sigs (fun k => k) check (ks_threshold ks) (ks_keypers ks)
                             (m_inst m) (m_eon m) (m_slot m) (m_txp m) (m_ids m)
                             (map Z.of_N signers) sigs
    = validate_sigs H H_eqb hash Gnosis ks m signers sigs.
  Proof.
    intros Hn. unfold gen_gnosis_validate_sigs, validate_sigs, validate_sigs_common.
    rewrite map_length, to_int32_agrees, <- nat_eqb_Z,
      gnosis_signer_indices_agree, get_subset_agrees, new_gnosis_data_agrees by assumption.
    destruct (to_i32 (Z.of_nat (length signers)) =? ks_threshold ks); [|reflexivity]. cbn [negb].
    destruct (length sigs =? length signers)%nat; [|reflexivity]. cbn [negb].
    destruct (validate_signer_indices signers (length (ks_keypers ks))); try reflexivity.
    destruct (get_subset (ks_keypers ks) signers) as [addrs| |]; try reflexivity.
    destruct (1024 <? length (m_ids m))%nat; [reflexivity|].
    match goal with |- match gen_range_until ?b _ _ with _ => _ end = _ => set (body := b) end.
    apply (range_until_sig_loop body (signed_tuple Gnosis m) addrs) with (i := 0%nat).
    unfold body. sig_body_spec.
  Qed.

  Theorem service_validate_sigs_agrees ks m signers sigs :
    Z.of_nat (length (ks_keypers ks)) < 2 ^ 63 ->
    gen_service_validate_sigs (fun k => k) check (ks_threshold ks) (ks_keypers ks)
                              (m_inst m) (m_eon m) (m_slot m) (m_txp m) (m_ids m)
                              (map Z.of_N signers) sigs
    = validate_sigs H H_eqb hash Service ks m signers sigs.
  Proof.
    intros Hn. unfold gen_service_validate_sigs, validate_sigs, validate_sigs_common.
    rewrite map_length, to_int32_agrees, <- nat_eqb_Z,
      service_signer_indices_agree, get_subset_agrees, new_service_data_agrees by assumption.
    change 0 with (Z.of_nat 0). rewrite <- !nat_eqb_Z.
    destruct ((length signers =? 0)%nat && (length sigs =? 0)%nat); [reflexivity|].
    destruct (to_i32 (Z.of_nat (length signers)) =? ks_threshold ks); [|reflexivity]. cbn [negb].
    destruct (length sigs =? length signers)%nat; [|reflexivity]. cbn [negb].
    destruct (validate_signer_indices signers (length (ks_keypers ks))); try reflexivity.
    destruct (get_subset (ks_keypers ks) signers) as [addrs| |]; try reflexivity.
    destruct (1024 <? length (m_ids m))%nat; [reflexivity|].
    match goal with |- match gen_range_until ?b _ _ with _ => _ end = _ => set (body := b) end.
    apply (range_until_sig_loop body (signed_tuple Service m) addrs) with (i := 0%nat).
    unfold body. sig_body_spec.
  Qed.

  (* ---- ValidateDecryptionKeysBasic and the chains ------------------------------------------ *)

  Definition extra_is_gnosis (k : extra_kind) : bool :=
    match k with ExGnosis | ExGnosisNil => true | _ => false end.
  Definition extra_gnosis_nil (k : extra_kind) : bool :=
    match k with ExGnosisNil => true | _ => false end.
  Definition set_pair (ks : keyperset) : Z * list (option N) := (ks_threshold ks, ks_keypers ks).

  Lemma basic_agrees m :
    gen_validate_basic (extra_is_gnosis (m_extra m)) (extra_gnosis_nil (m_extra m))
                       (Z.of_N (m_slot m)) (Z.of_N (m_txp m)) (Z.of_nat (length (m_ids m)))
    = validate_basic m.
  Proof.
    unfold gen_validate_basic, validate_basic, m_ids. rewrite map_length.
    change 9223372036854775807 with (Z.of_N max_int64). change 2147483647 with (Z.of_N max_int32).
    rewrite <- !N_ltb_Z.
    replace (Z.of_nat (length (m_keys m)) =? 0) with (match m_keys m with [] => true | _ => false end)
      by (destruct (m_keys m); reflexivity).
    destruct (m_extra m); cbn [extra_is_gnosis extra_gnosis_nil negb]; try reflexivity.
    destruct (max_int64 <? m_slot m)%N, (max_int32 <? m_txp m)%N, (m_keys m); reflexivity.
  Qed.

  Lemma basic_accept_gnosis m : validate_basic m = Accept -> m_extra m = ExGnosis.
  Proof. unfold validate_basic. destruct (m_extra m); try discriminate. reflexivity. Qed.

  Theorem an_gnosis_fields_agrees st m signers sigs :
    (forall ks, lookup_ks (an_keypersets st) (m_eon m) = Some ks ->
                Z.of_nat (length (ks_keypers ks)) < 2 ^ 63) ->
    gen_an_validate_gnosis_fields (fun k => k) check
      (option_map set_pair (lookup_ks (an_keypersets st) (m_eon m)))
      (extra_is_gnosis (m_extra m)) (extra_gnosis_nil (m_extra m))
      (m_inst m) (m_eon m) (m_slot m) (m_txp m) (m_ids m) (map Z.of_N signers) sigs
    = an_validate_gnosis H H_eqb hash st m signers sigs.
  Proof.
    intros Hn. unfold gen_an_validate_gnosis_fields, an_validate_gnosis. rewrite basic_agrees.
    destruct (validate_basic m) eqn:Eb; try reflexivity.
    rewrite (basic_accept_gnosis m Eb). cbn [extra_is_gnosis extra_gnosis_nil negb].
    destruct (lookup_ks (an_keypersets st) (m_eon m)) as [ks|] eqn:El; [|reflexivity].
    cbn [option_map set_pair fst snd]. rewrite gnosis_validate_sigs_agrees by (apply Hn; reflexivity).
    destruct (validate_sigs H H_eqb hash Gnosis ks m signers sigs); reflexivity.
  Qed.

  Theorem an_validate_message_agrees st m signers sigs :
    (forall ks, lookup_ks (an_keypersets st) (m_eon m) = Some ks ->
                Z.of_nat (length (ks_keypers ks)) < 2 ^ 63) ->
    gen_an_validate_message (fun k => k) check (an_validate_common st m)
      (option_map set_pair (lookup_ks (an_keypersets st) (m_eon m)))
      (extra_is_gnosis (m_extra m)) (extra_gnosis_nil (m_extra m))
      (m_inst m) (m_eon m) (m_slot m) (m_txp m) (m_ids m) (map Z.of_N signers) sigs
    = an_validate H H_eqb hash st m signers sigs.
  Proof.
    intros Hn. unfold gen_an_validate_message, an_validate. rewrite an_gnosis_fields_agrees by assumption.
    destruct (an_validate_common st m); try reflexivity.
    destruct (an_validate_gnosis H H_eqb hash st m signers sigs); reflexivity.
  Qed.

  Theorem keyper_validate_message_agrees lookup m signers sigs :
    (forall ks, lookup = Some ks -> Z.of_nat (length (ks_keypers ks)) < 2 ^ 63) ->
    gen_keyper_validate_message (fun k => k) check (option_map set_pair lookup)
      (extra_is_gnosis (m_extra m)) (extra_gnosis_nil (m_extra m))
      (m_inst m) (m_eon m) (m_slot m) (m_txp m) (m_ids m) (map Z.of_N signers) sigs
    = keyper_validate_gnosis H H_eqb hash lookup m signers sigs.
  Proof.
    intros Hn. unfold gen_keyper_validate_message, keyper_validate_gnosis. rewrite basic_agrees.
    destruct (validate_basic m) eqn:Eb; try reflexivity.
    rewrite (basic_accept_gnosis m Eb). cbn [extra_is_gnosis extra_gnosis_nil negb].
    destruct lookup as [ks|]; [|reflexivity].
    cbn [option_map set_pair fst snd]. rewrite gnosis_validate_sigs_agrees by (apply Hn; reflexivity).
    destruct (validate_sigs H H_eqb hash Gnosis ks m signers sigs); reflexivity.
  Qed.
End Loop.
