(* Proofs about the codec of trigger definitions (Model/TriggerDef.v): item-level and
   byte-level round trip, and "what decodes is valid". *)
From Coq Require Import List Arith NArith ZArith Bool Lia.
From Verif Require Import Lib.Bytes Lib.Rlp Model.TriggerDef Proofs.TriggerDefRlp Proofs.TriggerDefMatch.
Import ListNotations.

Lemma int_of_bytes_be_bytes n : int_of_bytes (be_bytes n) = Some n.
Proof.
  unfold int_of_bytes. pose proof (be_bytes_no_lead0 n) as H. pose proof (be_be_bytes n) as B.
  destruct (be_bytes n) as [|[|p] t]; [rewrite B; reflexivity|contradiction|rewrite B; reflexivity].
Qed.

Lemma uint64_roundtrip n : (n < two64)%N -> uint64_of_item (uint_item n) = Some n.
Proof.
  intros H. unfold uint64_of_item, uint_item.
  assert (L : (length (be_bytes n) <= 8)%nat) by (apply be_bytes_length; rewrite <- two64_pow; exact H).
  apply Nat.leb_le in L. rewrite L. apply int_of_bytes_be_bytes.
Qed.

Lemma bigint_roundtrip n : bigint_of_item (Str (be_bytes n)) = Some n.
Proof. apply int_of_bytes_be_bytes. Qed.

Lemma bool_roundtrip b : bool_of_item (bool_item b) = Some b.
Proof. destruct b; reflexivity. Qed.

Lemma pred_roundtrip p :
  lp_validate p = true -> exists it, pred_item p = Some it /\ pred_of_item it = Some p.
Proof.
  intros Hv. destruct (lp_validate_parts p Hv) as (Hr & Hvp & _).
  pose proof (ref_validate_off p Hr) as Hoff.
  assert (Ho : op_valid (p_op p) = true).
  { unfold vp_validate in Hvp. repeat (apply andb_true_iff in Hvp as [Hvp _]). exact Hvp. }
  assert (Ho5 : (p_op p <= 5)%N) by (apply N.leb_le; exact Ho).
  destruct p as [dyn off op ints bs]. cbn [p_dyn p_off p_op p_ints p_bytes] in *.
  assert (Eoff : uint64_of_item (uint_item off) = Some off) by (apply uint64_roundtrip; unfold two64; lia).
  assert (Eop : uint64_of_item (uint_item op) = Some op) by (apply uint64_roundtrip; unfold two64; lia).
  destruct (vp_validate_shape _ Hvp) as [(Hle & a & Hi & Ha & Hb)|(He & Hi & b & Hb)];
    cbn [p_dyn p_off p_op p_ints p_bytes] in *; subst ints bs.
  - unfold pred_item. cbn [p_ints p_bytes p_dyn p_off p_op int_arg_items int_arg_item].
    destruct (a <? 0)%Z eqn:Ea; [apply Z.ltb_lt in Ea; lia|].
    eexists. split; [reflexivity|].
    cbn [pred_of_item app map]. rewrite bool_roundtrip, Eoff.
    unfold vp_of_items. rewrite Eop, Ho. cbn [negb].
    assert (E4 : (op <=? 4)%N = true) by (apply N.leb_le; exact Hle). rewrite E4.
    rewrite bigint_roundtrip. rewrite Z2N.id by exact Ha. reflexivity.
  - subst op. unfold pred_item. cbn [p_ints p_bytes p_dyn p_off p_op int_arg_items].
    eexists. split; [reflexivity|].
    cbn [pred_of_item app map]. rewrite bool_roundtrip, Eoff.
    unfold vp_of_items. rewrite Eop. reflexivity.
Qed.

Lemma preds_roundtrip ps :
  forallb lp_validate ps = true ->
  exists its, pred_items ps = Some its /\ preds_of_items its = Some ps.
Proof.
  induction ps as [|p r IH]; intros Hv.
  - exists []. split; reflexivity.
  - cbn [forallb] in Hv. apply andb_true_iff in Hv as [Hp Hr].
    destruct (pred_roundtrip p Hp) as (it & E1 & E2).
    destruct (IH Hr) as (its & E3 & E4).
    exists (it :: its). cbn [pred_items preds_of_items]. rewrite E1, E3, E2, E4. split; reflexivity.
Qed.

Theorem item_roundtrip d :
  wf_def d -> validate d = true -> exists it, to_item d = Some it /\ of_item it = Some d.
Proof.
  intros Hw Hv. destruct (validate_parts d Hv) as (H1 & _).
  destruct (preds_roundtrip _ H1) as (its & E1 & E2).
  unfold to_item. rewrite E1. eexists. split; [reflexivity|].
  cbn [of_item]. unfold wf_def in Hw. rewrite Hw. cbn [Nat.eqb]. rewrite E2.
  destruct d; reflexivity.
Qed.

Theorem bytes_roundtrip d :
  wf_def d -> validate d = true ->
  exists b, marshal d = Some b /\ ((blen b <= two64)%N -> unmarshal b = UOk d).
Proof.
  intros Hw Hv. destruct (item_roundtrip d Hw Hv) as (it & E1 & E2).
  unfold marshal. rewrite E1. eexists. split; [reflexivity|]. intros Hs.
  unfold unmarshal, unmarshal_with. cbn [negb N.eqb version Pos.eqb].
  rewrite decode_encode.
  - rewrite E2, Hv. reflexivity.
  - unfold blen in *. cbn [length] in Hs. lia.
Qed.

Lemma of_item_wf it d : of_item it = Some d -> wf_def d.
Proof.
  destruct it as [b|l]; [discriminate|].
  destruct l as [|[c|?] [|[?|ps] [|? ?]]]; try discriminate.
  cbn [of_item]. destruct (Nat.eqb (length c) 20) eqn:E; [|discriminate].
  destruct (preds_of_items ps); [|discriminate]. intros H. injection H as <-.
  unfold wf_def. cbn [d_contract]. apply Nat.eqb_eq. exact E.
Qed.

Theorem decoded_is_valid b d : unmarshal b = UOk d -> wf_def d /\ validate d = true.
Proof.
  unfold unmarshal, unmarshal_with. destruct b as [|v r]; [discriminate|].
  destruct (negb (v =? version)%N); [discriminate|].
  destruct (decode r) as [it| |]; try discriminate.
  destruct (of_item it) as [d'|] eqn:E; [|discriminate].
  destruct (validate d') eqn:Ev; [|discriminate].
  intros H. injection H as <-. split; [eapply of_item_wf; eauto|exact Ev].
Qed.

(* the out-of-fuel outcome of the model's decoder is never produced *)
Theorem unmarshal_never_out_of_fuel b : unmarshal b <> UFuel.
Proof.
  unfold unmarshal, unmarshal_with. destruct b as [|v r]; [discriminate|].
  destruct (negb (v =? version)%N); [discriminate|].
  pose proof (decode_never_out_of_fuel r) as H.
  destruct (decode r) as [it| |]; [|discriminate|contradiction].
  destruct (of_item it) as [d'|]; [|discriminate].
  destruct (validate d'); discriminate.
Qed.
