(* C03 - a three-keyper network used by the Examples of Properties/C03.v *)
From Coq Require Import List NArith ZArith Bool Lia.
From Verif Require Import Lib.Bytes Model.EpochKG Model.EpochKGLabels Model.EpochKGHandler Model.KeysSig
     Model.Gossip Model.GossipMisc Model.GossipNet Proofs.Gossip Proofs.GossipNet Proofs.GossipNetNode.
Import ListNotations.

(* a three-keyper network used by the examples *)
Module Ex.
  Definition A : bytes := repeat 161%N 32.
  Definition c : cfg := mkCfg 7 3 1 5 [0; 1; 2]%N 2.
  Definition core_state (self : N) : cstate :=
    mkCState 7 3 self [(1%Z, [0; 1; 2]%N)] [(5%Z, 1%Z)] [(5%Z, DkgOk 0 3 2)] [] [].
  Definition ks : keyperset := {| ks_keypers := [Some 0%N; Some 1%N; Some 2%N]; ks_threshold := 2 |}.
  Definition node (fl : node) (self : N) : knode :=
    mkKNode fl (mkGState (mkFState (core_state self) [(1%Z, ks)]) []
                         {| an_instance := 7; an_maxkeys := 3; an_eonkeys := []; an_keypersets := [] |} []) [] [].
  Definition sb (e i : N) (x : bytes) : bytes := [e; i; 1%N].
  Definition kb (e : N) (x : bytes) : bytes := [e; 2%N].
  Definition classify (b : bytes) : lbl := if bytes_eqb b [0; 2]%N then LKey 0 A else LOther.

  Lemma knows_core self : In self [0; 1; 2]%N -> knows c (core_state self).
  Proof.
    intros Hin. unfold knows, c, core_state. simpl.
    repeat split; try reflexivity; try exact Hin; try lia. unfold max_int64. lia.
  Qed.

  Lemma inv_core self : In self [0; 1; 2]%N -> Inv kb c (core_state self).
  Proof. intros Hin. split; [apply knows_core; exact Hin|]. repeat split; constructor. Qed.
End Ex.

