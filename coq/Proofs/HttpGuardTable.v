(* The obligations of Proofs/HttpGuard.v evaluated on the table regenerated from the source
   (Generated/OapiTable.v).  When the source changes the table, these are what is re-run:
   an operation added without x-read-only, a flipped flag, a shutdown/trigger handler marked
   read-only, oapi.yaml and the embedded spec drifting apart, a route without operation, a
   state-changing route with path parameters next to read-only operations of its method,
   overlapping templates with different answers, a read-only operation the guard's method
   switch cannot reach: each makes one of the [vm_compute] equalities below false. *)
From Coq Require Import List NArith Bool Permutation.
From Verif Require Import Lib.Bytes Model.HttpGuard Generated.OapiTable Proofs.HttpGuard.
Import ListNotations.

Lemma table_wf_sound : wf_sound table = true.
Proof. vm_compute. reflexivity. Qed.

Lemma table_wf_det : wf_det table = true.
Proof. vm_compute. reflexivity. Qed.

Lemma table_reach_read_only : wf_reach_read_only table = true.
Proof. vm_compute. reflexivity. Qed.

Lemma table_reach_all : wf_reach_all table = true.
Proof. vm_compute. reflexivity. Qed.

Definition spec_templates : list bytes := templates_of (t_embedded_ops table).

Lemma table_guard_sound validator e1 e2 m raw r :
  serve table validator false e1 e2 m raw = VDispatch r ->
  route_marked_read_only table r = true /\ ~ In (r_handler r) (critical_handlers table).
Proof. apply guard_sound. exact table_wf_sound. Qed.

Lemma table_deterministic validator ew e1 e1' e2 e2' m raw :
  Permutation e1 spec_templates -> Permutation e1' spec_templates ->
  Permutation e2 spec_templates -> Permutation e2' spec_templates ->
  serve table validator ew e1 e2 m raw = serve table validator ew e1' e2' m raw.
Proof. apply serve_deterministic. exact table_wf_det. Qed.

Lemma table_read_only_reachable o validator e1 e2 :
  In o (t_yaml_ops table) -> is_read_only (op_ro o) = true ->
  Permutation e1 spec_templates -> Permutation e2 spec_templates ->
  exists raw r,
    canonical_path table (op_template o) canonical_value = Some raw /\
    r_method r = op_method o /\ r_pattern r = op_template o /\ r_handler r = ucfirst (op_id o) /\
    (serve table validator false e1 e2 (op_method o) raw = VDispatch r \/
     serve table validator false e1 e2 (op_method o) raw = VValidatorReject).
Proof.
  intros Hin Hro P1 P2. apply reachable; auto using table_wf_det.
  pose proof (forallb_In _ _ _ table_reach_read_only Hin) as H. cbv beta in H.
  rewrite Hro in H. exact H.
Qed.

Lemma table_write_enabled_passes_all o validator e1 e2 :
  In o (t_yaml_ops table) ->
  Permutation e1 spec_templates -> Permutation e2 spec_templates ->
  exists raw r,
    canonical_path table (op_template o) canonical_value = Some raw /\
    r_method r = op_method o /\ r_pattern r = op_template o /\ r_handler r = ucfirst (op_id o) /\
    (serve table validator true e1 e2 (op_method o) raw = VDispatch r \/
     serve table validator true e1 e2 (op_method o) raw = VValidatorReject).
Proof.
  intros Hin P1 P2. apply reachable; auto using table_wf_det.
  exact (forallb_In _ _ _ table_reach_all Hin).
Qed.
