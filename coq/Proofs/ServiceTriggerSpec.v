(* Property-level predicates for C02, written against the tables of Model.ServiceTrigger and
   the operation history, not against the functions that compute triggers.  The theorems of
   Proofs/ServiceTrigger.v and Proofs/ServiceTriggerHist.v conclude with these. *)
From Coq Require Import List NArith ZArith Bool Lia Sorted.
From Verif Require Import Lib.Bytes Lib.Assoc Lib.Sorting Model.ServiceTrigger.
Import ListNotations.
Open Scope Z_scope.

(* The keyper [c] may serve keyper set [idx] in database [d], with [e] the set's latest
   started eon:
     - e is a started eon of the set and no started eon of the set has a greater number,
     - the batch config the code consults for the set (index cast to int32) lists the keyper,
     - the key generation of e has a result row and it succeeded. *)
Definition servable (c : config) (d : database) (idx : Z) (e : eon_row) : Prop :=
  In e (eons d) /\ eo_cfg e = idx /\
  (forall e', In e' (eons d) -> eo_cfg e' = idx -> eo_eon e' <= eo_eon e) /\
  (exists cf, In cf (cfgs d) /\ cf_index cf = to_i32 idx /\ In (me c) (cf_keypers cf)) /\
  (exists k, In k (dkgs d) /\ dk_eon k = eo_eon e /\ dk_success k = true).

(* Identity [id] inside trigger [tr], emitted while the block (number, time) is processed on
   database [d], is justified by a time registration: *)
Definition time_justified (c : config) (d : database) (number time : Z) (tr : trigger) (id : bytes) : Prop :=
  exists r e,
    In r (irs d) /\ ir_identity r = id /\ ir_eon r = tg_cfg tr /\
    ir_decrypted r = false /\                              (* not marked decrypted *)
    ir_timestamp r < to_i64 time /\                        (* release time strictly earlier *)
    (0 <= time < 2^63 -> ir_timestamp r < time) /\
    servable c d (tg_cfg tr) e /\                          (* member, key generation succeeded *)
    eo_activation e <= to_i64 number /\                    (* activation block reached *)
    tg_block tr = u64 (eo_activation e).

(* ... by a fired event trigger: *)
Definition event_justified (c : config) (d : database) (tr : trigger) (id : bytes) : Prop :=
  exists f x e,
    In f (fts d) /\ ft_eon f = tg_cfg tr /\ ft_identity f = id /\      (* a fired row *)
    In x (ets d) /\ et_eon x = tg_cfg tr /\ et_identity x = id /\      (* its registration *)
    et_decrypted x = false /\
    (forall x', In x' (ets d) -> et_eon x' = tg_cfg tr -> et_identity x' = id -> et_decrypted x' = false) /\
    servable c d (tg_cfg tr) e /\
    tg_block tr = u64 (eo_activation e).

(* Every identity registered for keyper set [eon] under identity [id] is marked decrypted. *)
Definition all_marked (d : database) (eon : Z) (id : bytes) : Prop :=
  (forall r, In r (irs d) -> ir_eon r = eon -> ir_identity r = id -> ir_decrypted r = true) /\
  (forall x, In x (ets d) -> et_eon x = eon -> et_identity x = id -> et_decrypted x = true).

(* The operation registers identity [id] (for whatever keyper set). *)
Definition registers_identity (id : bytes) (o : op) : Prop :=
  match o with
  | OpRegisterTime _ _ i _ _ => i = id
  | OpRegisterEvent _ i _ _ => i = id
  | _ => False
  end.

(* Provenance of rows in terms of the operation history. *)
Definition time_registered (ops : list op) (r : ir_row) : Prop :=
  exists e0, In (OpRegisterTime (ir_key r) e0 (ir_identity r) (ir_timestamp r) (ir_block r)) ops.

(* A fired row is there because of a raw OpFire (standing for the event syncer, property C16)
   or because the trigger processor, run on the state reached by the operations before it,
   found a log for the trigger inside the synced range and not later than the expiry block
   the registration had at that moment. *)
Definition fired_by (c : config) (pre : list op) (o : op) (f : ft_row) : Prop :=
  match o with
  | OpFire e i b => f = mkFt e i b
  | OpFetch start end_ logs =>
      In (ft_eon f, ft_identity f, ft_block f) logs /\
      start <= ft_block f <= end_ /\
      exists x, In x (ets (st_db (run c pre))) /\ et_eon x = ft_eon f /\ et_identity x = ft_identity f /\
                ft_block f <= et_expiration x /\ et_decrypted x = false
  | _ => False
  end.

Definition fired_provenance (c : config) (ops : list op) (f : ft_row) : Prop :=
  exists pre o post, ops = pre ++ o :: post /\ fired_by c pre o f.

(* Primary keys *)
Definition ir_pk (r : ir_row) : bytes := ir_key r.
Definition et_pk (x : et_row) : Z * bytes := (et_eon x, et_identity x).
Definition ft_pk (f : ft_row) : Z * bytes := (ft_eon f, ft_identity f).

Definition keys_unique (d : database) : Prop :=
  NoDup (map ir_pk (irs d)) /\ NoDup (map et_pk (ets d)) /\ NoDup (map ft_pk (fts d)).

(* The invariant the registry syncer provides: within a keyper set no two time registrations
   carry the same identity. *)
Definition time_ids_distinct (d : database) : Prop :=
  NoDup (map (fun r => (ir_eon r, ir_identity r)) (irs d)).

Definition bytes_lt (a b : bytes) : Prop := bytes_ltb a b = true.

(* What maybeTriggerDecryption sends while processing a block, in its two parts. *)
Definition time_triggers (c : config) (s : state) (number time : Z) (enum : list Z -> list Z) : list trigger :=
  snd (prepare_time_based c (st_db s) (st_latest s) number (u64 time) enum).
Definition event_triggers (c : config) (s : state) (enum : list Z -> list Z) : list trigger :=
  if events_enabled c then prepare_event_based c (st_db s) enum else [].

(* Every time registration of the history derives the identity from the primary key. *)
Definition identities_hashed (H : bytes -> bytes) (ops : list op) : Prop :=
  forall k e i t b, In (OpRegisterTime k e i t b) ops -> i = H k.

(* Started eons of different keyper sets have different activation blocks (the keyper set
   manager contract only demands non-decreasing activation blocks, so this can fail). *)
Definition activation_blocks_distinct (d : database) : Prop :=
  forall e1 e2, In e1 (eons d) -> In e2 (eons d) -> eo_activation e1 = eo_activation e2 -> eo_cfg e1 = eo_cfg e2.

(* activation_block_number is a bigint column *)
Definition activation_blocks_int64 (d : database) : Prop :=
  forall e, In e (eons d) -> - 2^63 <= eo_activation e < 2^63.
