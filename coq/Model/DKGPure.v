(* Executable model of shlib/puredkg (puredkg.go, v0.1.19): the transport-independent DKG state
   machine of one keyper.  puredkg and shcrypto are dependencies, therefore modelled, not
   verified; the differential run of C07 compares this model with the real library on every
   generated DKG run (snapshots of the stored PureDKG after every block).

   Values are abstract.  A commitment has type C, a polynomial evaluation type E, the
   keyper's own secret polynomial type P; the model only uses
     commit_of p            Polynomial.Gammas()
     eval_of p i            Polynomial.EvalForKeyper(i)
     verify i v c           shcrypto.VerifyPolyEval(i, v, c, threshold)
     deg_ok t c             c.Degree() == DegreeFromThreshold(t)
     valid_eval v           shcrypto.ValidEval(v)
   which are section variables, i.e. parameters of every definition after the section closes.
   Two instances are used: labels (Corr/C07.v, decisions only) and the exponent model over a
   field (Proofs/DKGAlgebra.v).

   Go maps: Accusations (a set of (accuser, accused)) and Apologies ((accuser, accused) -> eval)
   are lists in insertion order without duplicate keys.  isCorrupt is an existential over them
   and polyEval looks up a unique key, so neither depends on the iteration order; the one place
   where the order shows is the list StartPhase3Apologizing returns (compared as a set).
   A Go panic (setPhase "wrong phase", index out of range, nil polynomial, the panic(err) in
   StartPhase1Dealing) is the outcome RPanic / None. *)
From Coq Require Import List NArith ZArith Bool Lia.
Import ListNotations.

Inductive phase := Off | Dealing | Accusing | Apologizing | Finalized.

Definition phase_num (p : phase) : nat :=
  match p with Off => 0 | Dealing => 1 | Accusing => 2 | Apologizing => 3 | Finalized => 4 end.

Definition phase_leb (a b : phase) : bool := Nat.leb (phase_num a) (phase_num b).
Definition phase_ltb (a b : phase) : bool := Nat.ltb (phase_num a) (phase_num b).
Definition phase_eqb (a b : phase) : bool := Nat.eqb (phase_num a) (phase_num b).

Definition phase_succ (p : phase) : phase :=
  match p with Off => Dealing | Dealing => Accusing | Accusing => Apologizing | _ => Finalized end.

(* list update at an index; None when the index is out of range (Go: panic) *)
Fixpoint set_nth {A} (l : list A) (i : nat) (x : A) : option (list A) :=
  match l, i with
  | [], _ => None
  | _ :: r, O => Some (x :: r)
  | y :: r, S i' => match set_nth r i' x with Some r' => Some (y :: r') | None => None end
  end.

Definition pair_eqb (a b : nat * nat) : bool := Nat.eqb (fst a) (fst b) && Nat.eqb (snd a) (snd b).

Fixpoint mem_pair (k : nat * nat) (l : list (nat * nat)) : bool :=
  match l with [] => false | x :: r => pair_eqb x k || mem_pair k r end.

Section Pure.
Variables C E P : Type.
Variable commit_of : P -> C.
Variable eval_of : P -> nat -> E.
Variable verify : nat -> E -> C -> bool.
Variable deg_ok : N -> C -> bool.          (* threshold, c: c.Degree() == DegreeFromThreshold(threshold) *)
Variable valid_eval : E -> bool.

Record pure := mkPure {
  p_phase : phase;
  p_eon : N;
  p_n : nat;                             (* NumKeypers *)
  p_t : N;                               (* Threshold *)
  p_me : nat;                            (* Keyper *)
  p_poly : option P;                     (* Polynomial (nil before dealing) *)
  p_commits : list (option C);           (* Commitments, length NumKeypers *)
  p_evals : list (option E);             (* Evals, length NumKeypers *)
  p_accs : list (nat * nat);             (* Accusations: (accuser, accused) *)
  p_apos : list ((nat * nat) * E)        (* Apologies: (accuser, accused) -> eval *)
}.

Definition new_pure (eon : N) (n : nat) (t : N) (me : nat) : pure :=
  mkPure Off eon n t me None (repeat None n) (repeat None n) [] [].

Definition set_phase (d : pure) (p : phase) : pure :=
  mkPure p (p_eon d) (p_n d) (p_t d) (p_me d) (p_poly d) (p_commits d) (p_evals d) (p_accs d) (p_apos d).
Definition set_poly (d : pure) (x : option P) : pure :=
  mkPure (p_phase d) (p_eon d) (p_n d) (p_t d) (p_me d) x (p_commits d) (p_evals d) (p_accs d) (p_apos d).
Definition set_commits (d : pure) (x : list (option C)) : pure :=
  mkPure (p_phase d) (p_eon d) (p_n d) (p_t d) (p_me d) (p_poly d) x (p_evals d) (p_accs d) (p_apos d).
Definition set_evals (d : pure) (x : list (option E)) : pure :=
  mkPure (p_phase d) (p_eon d) (p_n d) (p_t d) (p_me d) (p_poly d) (p_commits d) x (p_accs d) (p_apos d).
Definition set_accs (d : pure) (x : list (nat * nat)) : pure :=
  mkPure (p_phase d) (p_eon d) (p_n d) (p_t d) (p_me d) (p_poly d) (p_commits d) (p_evals d) x (p_apos d).
Definition set_apos (d : pure) (x : list ((nat * nat) * E)) : pure :=
  mkPure (p_phase d) (p_eon d) (p_n d) (p_t d) (p_me d) (p_poly d) (p_commits d) (p_evals d) (p_accs d) x.

(* outcome of a Handle*Msg call *)
Inductive hres :=
| HOk (d : pure)        (* accepted, state changed *)
| HErr                  (* refused with an error, state unchanged *)
| HPanic.

(* checkEonAndPhase *)
Definition check_eon_phase (d : pure) (eon : N) (maxp : phase) : bool :=
  N.eqb (p_eon d) eon && phase_leb (p_phase d) maxp.

(* HandlePolyCommitmentMsg *)
Definition handle_commit (d : pure) (eon : N) (sender : nat) (c : C) : hres :=
  if negb (check_eon_phase d eon Dealing) then HErr
  else match nth_error (p_commits d) sender with
       | None => HPanic
       | Some (Some _) => HErr
       | Some None =>
           if negb (deg_ok (p_t d) c) then HErr
           else match set_nth (p_commits d) sender (Some c) with
                | Some l => HOk (set_commits d l)
                | None => HPanic
                end
       end.

(* HandlePolyEvalMsg *)
Definition handle_eval (d : pure) (eon : N) (sender receiver : nat) (v : E) : hres :=
  if negb (check_eon_phase d eon Dealing) then HErr
  else if negb (Nat.eqb receiver (p_me d)) then HErr
  else match nth_error (p_evals d) sender with
       | None => HPanic
       | Some (Some _) => HErr
       | Some None =>
           if negb (valid_eval v) then HErr
           else match set_nth (p_evals d) sender (Some v) with
                | Some l => HOk (set_evals d l)
                | None => HPanic
                end
       end.

(* HandleAccusationMsg *)
Definition handle_accusation (d : pure) (eon : N) (accuser accused : nat) : hres :=
  if negb (check_eon_phase d eon Accusing) then HErr
  else if mem_pair (accuser, accused) (p_accs d) then HErr
  else HOk (set_accs d (p_accs d ++ [(accuser, accused)])).

Definition apo_mem (k : nat * nat) (l : list ((nat * nat) * E)) : bool := mem_pair k (map fst l).

(* HandleApologyMsg *)
Definition handle_apology (d : pure) (eon : N) (accuser accused : nat) (v : E) : hres :=
  if negb (check_eon_phase d eon Apologizing) then HErr
  else if apo_mem (accuser, accused) (p_apos d) then HErr
  else if negb (valid_eval v) then HErr
  else HOk (set_apos d (p_apos d ++ [((accuser, accused), v)])).

(* setPhase panics unless the new phase is the successor *)
Definition advance (d : pure) (from : phase) : option pure :=
  if phase_eqb (p_phase d) from then Some (set_phase d (phase_succ from)) else None.

(* StartPhase1Dealing: the commitment and the evaluations for the other keypers; the own
   evaluation goes through HandlePolyEvalMsg, whose error is a panic *)
Definition start_phase1 (d : pure) (poly : P) : option (pure * C * list (nat * E)) :=
  match advance d Off with
  | None => None
  | Some d1 =>
      let d2 := set_poly d1 (Some poly) in
      let others := map (fun r => (r, eval_of poly r)) (filter (fun r => negb (Nat.eqb r (p_me d))) (seq 0 (p_n d))) in
      if Nat.ltb (p_me d) (p_n d) then
        match handle_eval d2 (p_eon d) (p_me d) (p_me d) (eval_of poly (p_me d)) with
        | HOk d3 => Some (d3, commit_of poly, others)
        | _ => None
        end
      else Some (d2, commit_of poly, others)
  end.

(* the test of StartPhase2Accusing and ComputeResult: eval == nil || c == nil || !Verify *)
Definition bad_dealing (me : nat) (ov : option E) (oc : option C) : bool :=
  match ov, oc with
  | Some v, Some c => negb (verify me v c)
  | _, _ => true
  end.

Definition nth_opt {A} (l : list (option A)) (i : nat) : option A :=
  match nth_error l i with Some x => x | None => None end.

(* StartPhase2Accusing: the dealers to accuse, in index order *)
Definition start_phase2 (d : pure) : option (pure * list nat) :=
  match advance d Dealing with
  | None => None
  | Some d1 =>
      Some (d1, filter (fun dealer => negb (Nat.eqb dealer (p_me d)) &&
                                       bad_dealing (p_me d) (nth_opt (p_evals d) dealer) (nth_opt (p_commits d) dealer))
                       (seq 0 (p_n d)))
  end.

(* StartPhase3Apologizing: (accuser, eval) for every accusation against this keyper *)
Definition start_phase3 (d : pure) : option (pure * list (nat * E)) :=
  match advance d Accusing with
  | None => None
  | Some d1 =>
      let mine := filter (fun k => Nat.eqb (snd k) (p_me d)) (p_accs d) in
      match mine, p_poly d with
      | [], _ => Some (d1, [])
      | _ :: _, None => None                      (* nil polynomial dereferenced *)
      | _ :: _, Some poly => Some (d1, map (fun k => (fst k, eval_of poly (fst k))) mine)
      end
  end.

(* Finalize *)
Definition finalize (d : pure) : option pure := advance d Apologizing.

(* isCorrupt *)
Definition is_corrupt (d : pure) (dealer : nat) : bool :=
  match nth_opt (p_commits d) dealer with
  | None => true
  | Some c =>
      existsb (fun kv => Nat.eqb (snd (fst kv)) dealer && negb (verify (fst (fst kv)) (snd kv) c)) (p_apos d)
      || existsb (fun k => Nat.eqb (snd k) dealer && negb (apo_mem k (p_apos d))) (p_accs d)
  end.

(* polyEval: an apology addressed to this keyper overrides the private evaluation *)
Definition poly_eval (d : pure) (dealer : nat) : option E :=
  match find (fun kv => pair_eqb (fst kv) (p_me d, dealer)) (p_apos d) with
  | Some kv => Some (snd kv)
  | None => nth_opt (p_evals d) dealer
  end.

Inductive cres :=
| CNotFinalized
| CCorruptNotConsidered (dealer : nat)
| CTooFew (participants : nat)
| CResult (commits : list (option C)) (evals : list (option E)).
   (* per dealer: Some = qualified dealer's commitment / evaluation, None = the zero value *)

(* the loop of ComputeResult over the dealers *)
Fixpoint collect (d : pure) (dealers : list nat) : nat * list (option C) * list (option E) + nat :=
  match dealers with
  | [] => inl (0, [], [])
  | dealer :: r =>
      if is_corrupt d dealer then
        match collect d r with
        | inl (k, cs, vs) => inl (k, None :: cs, None :: vs)
        | inr bad => inr bad
        end
      else
        if bad_dealing (p_me d) (poly_eval d dealer) (nth_opt (p_commits d) dealer) then inr dealer
        else match collect d r with
             | inl (k, cs, vs) => inl (S k, nth_opt (p_commits d) dealer :: cs, poly_eval d dealer :: vs)
             | inr bad => inr bad
             end
  end.

Definition compute_result (d : pure) : cres :=
  if phase_ltb (p_phase d) Finalized then CNotFinalized
  else match collect d (seq 0 (p_n d)) with
       | inr dealer => CCorruptNotConsidered dealer
       | inl (k, cs, vs) => if N.ltb (N.of_nat k) (p_t d) then CTooFew k else CResult cs vs
       end.

Definition succeeds (d : pure) : bool :=
  match compute_result d with CResult _ _ => true | _ => false end.

(* the part of the state that is determined by the chain alone *)
Definition pub (d : pure) : phase * list (option C) * list (nat * nat) * list ((nat * nat) * E) :=
  (p_phase d, p_commits d, p_accs d, p_apos d).

End Pure.

Arguments mkPure {C E P}.
Arguments p_phase {C E P}.
Arguments p_eon {C E P}.
Arguments p_n {C E P}.
Arguments p_t {C E P}.
Arguments p_me {C E P}.
Arguments p_poly {C E P}.
Arguments p_commits {C E P}.
Arguments p_evals {C E P}.
Arguments p_accs {C E P}.
Arguments p_apos {C E P}.
Arguments new_pure {C E P}.
Arguments HOk {C E P}.
Arguments HErr {C E P}.
Arguments HPanic {C E P}.
Arguments CNotFinalized {C E}.
Arguments CCorruptNotConsidered {C E}.
Arguments CTooFew {C E}.
Arguments CResult {C E}.
Arguments pub {C E P}.
Arguments set_phase {C E P}.
Arguments set_poly {C E P}.
Arguments set_commits {C E P}.
Arguments set_evals {C E P}.
Arguments set_accs {C E P}.
Arguments set_apos {C E P}.
Arguments advance {C E P}.
Arguments finalize {C E P}.
Arguments handle_accusation {C E P}.
Arguments check_eon_phase {C E P}.
Arguments apo_mem {E}.
