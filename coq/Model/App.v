(* Executable model of the shuttermint ABCI application (rolling-shutter/app/*.go and
   keyper/shutterevents/batchconfig.go), on decoded transactions.

   What is modelled, function by function, keeping the code's order of checks:
     InitChain, BeginBlock, CheckTx, DeliverTx (decodeTx's result is an input: the decode
     layer - base64, signature recovery, protobuf - is an oracle of the driver), deliver*,
     handle*Msg with Parse*Msg and DKGInstance.Register*Msg, Voting, NonceTracker,
     CheckTxState, EndBlock, CurrentValidators, makePowermap, numRequiredTransitionValidators,
     IsCheckInUpdateForkActive, Commit.
   A Go panic is the result None.  Machine integers: uint64 values are N (the driver only
   produces values < 2^64; additions that can wrap are wrapped explicitly), `int(x)` of a
   uint64 is the two's complement reinterpretation [int_of_u64].
   Go maps are association lists; the only place where the code's result could depend on map
   iteration order is Voting.outcomeIndex, modelled twice: [outcome_index] (candidates scanned
   in index order: the repaired code) and [legacy_outcome_index] (first qualifying entry of an
   arbitrary enumeration of the tally map: the code before the repair). *)
From Coq Require Import String.
From Coq Require Import List NArith ZArith Bool Lia.
From Verif Require Import Lib.Bytes Lib.Assoc Lib.Sorting Model.Powermap.
Import ListNotations.
Open Scope Z_scope.

Definition addr := bytes.

(* How Go enumerates a map in a `for ... range`: any permutation of its entries.  Every
   function below that ranges over a map applies [enum] to the entries first; theorems
   quantify over all enumerators that return a permutation ([enum_ok] in Proofs). *)
Definition enumerator := forall A : Type, list A -> list A.
Definition enum_id : enumerator := fun _ l => l.

Definition two64 : Z := 18446744073709551616.
Definition two63 : Z := 9223372036854775808.

(* Go: int(x) for x uint64 on a 64-bit platform *)
Definition int_of_u64 (x : N) : Z :=
  let z := Z.of_N x in if z <? two63 then z else z - two64.

Fixpoint mem_addr (a : addr) (l : list addr) : bool :=
  match l with
  | [] => false
  | x :: r => bytes_eqb x a || mem_addr a r
  end.

Fixpoint addrs_unique (l : list addr) : bool :=
  match l with
  | [] => true
  | x :: r => negb (mem_addr x r) && addrs_unique r
  end.

Fixpoint addrs_eqb (a b : list addr) : bool :=
  match a, b with
  | [], [] => true
  | x :: a', y :: b' => bytes_eqb x y && addrs_eqb a' b'
  | _, _ => false
  end.

Definition all_len20 (l : list bytes) : bool := forallb (fun b => Nat.eqb (length b) 20) l.

(* ---------------------------------------------------------------- BatchConfig *)

Record config := mkConfig {
  c_act : N;              (* ActivationBlockNumber *)
  c_keypers : list addr;
  c_threshold : N;
  c_index : N;            (* KeyperConfigIndex *)
  c_started : bool;
  c_valupd : bool         (* ValidatorsUpdated *)
}.

(* reflect.DeepEqual on two BatchConfig values (Height is never set inside the app) *)
Definition config_eqb (a b : config) : bool :=
  N.eqb (c_act a) (c_act b) && addrs_eqb (c_keypers a) (c_keypers b) &&
  N.eqb (c_threshold a) (c_threshold b) && N.eqb (c_index a) (c_index b) &&
  Bool.eqb (c_started a) (c_started b) && Bool.eqb (c_valupd a) (c_valupd b).

Definition is_keyper (c : config) (a : addr) : bool := mem_addr a (c_keypers c).

(* EnsureValid (after the repair: the threshold is compared as an unsigned number). The last
   conjunct is not a test of the code: it records that a Go slice has fewer than 2^63
   elements, so that `int(threshold)` of a valid config is the threshold itself. *)
Definition ensure_valid (c : config) : bool :=
  negb (Nat.eqb (length (c_keypers c)) 0) &&
  negb (N.eqb (c_threshold c) 0) &&
  negb (Z.of_nat (length (c_keypers c)) <? Z.of_N (c_threshold c)) &&
  (Z.of_nat (length (c_keypers c)) <? two63).

(* EnsureValid before the repair: `int(bc.Threshold) > len(bc.Keypers)` *)
Definition legacy_ensure_valid (c : config) : bool :=
  negb (Nat.eqb (length (c_keypers c)) 0) &&
  negb (N.eqb (c_threshold c) 0) &&
  negb (Z.of_nat (length (c_keypers c)) <? int_of_u64 (c_threshold c)).

(* ---------------------------------------------------------------- Voting *)

Section Voting.
  Context {T : Type}.
  Variable teqb : T -> T -> bool.
  Variable enum : enumerator.

  Record voting := mkVoting { v_votes : amap nat; v_cands : list T }.

  Definition new_voting : voting := mkVoting [] [].

  Fixpoint find_cand (c : T) (l : list T) (i : nat) : option nat :=
    match l with
    | [] => None
    | x :: r => if teqb c x then Some i else find_cand c r (S i)
    end.

  Definition set_vote (v : voting) (sender : addr) (c : T) : voting :=
    match find_cand c (v_cands v) 0 with
    | Some i => mkVoting (aset (v_votes v) sender i) (v_cands v)
    | None => mkVoting (aset (v_votes v) sender (length (v_cands v))) (v_cands v ++ [c])
    end.

  (* AddVote: None = errAlreadyVoted *)
  Definition add_vote (v : voting) (sender : addr) (c : T) : option voting :=
    if amem (v_votes v) sender then None else Some (set_vote v sender c).

  Definition tally (votes : amap nat) (i : nat) : nat :=
    length (filter (fun kv => Nat.eqb (snd kv) i) votes).

  Fixpoint first_index_meeting (votes : amap nat) (req : Z) (i n : nat) : option nat :=
    match n with
    | O => None
    | S n' =>
        let t := tally votes i in
        if negb (Nat.eqb t 0) && (req <=? Z.of_nat t) then Some i
        else first_index_meeting votes req (S i) n'
    end.

  (* outcomeIndex after the repair: candidate indices in order; an index is in the tally map
     only if it has at least one vote *)
  Definition outcome_index (v : voting) (req : Z) : option nat :=
    first_index_meeting (enum _ (v_votes v)) req 0 (length (v_cands v)).

  (* outcomeIndex before the repair: [enum] is the order in which Go enumerates the tally
     map (index, count); the first entry with count >= req wins *)
  Definition legacy_outcome_index (enum : list (nat * nat)) (req : Z) : option nat :=
    match filter (fun ic => req <=? Z.of_nat (snd ic)) enum with
    | [] => None
    | (i, _) :: _ => Some i
    end.

  (* Outcome: None = no outcome; Some None would be an index panic (never: see proofs) *)
  Definition outcome (v : voting) (req : Z) : option (option T) :=
    match outcome_index v req with
    | None => None
    | Some i => Some (nth_error (v_cands v) i)
    end.
End Voting.
Arguments voting : clear implicits.
Arguments mkVoting {T}.
Arguments new_voting {T}.

(* ---------------------------------------------------------------- DKG instance *)

Record dkg := mkDkg {
  d_config : config;
  d_eon : N;
  d_success : voting bool;
  d_evals : list (addr * addr);   (* PolyEvalsSeen: (sender, receiver) *)
  d_commits : list addr;
  d_accs : list addr;
  d_apos : list addr
}.

Definition new_dkg (c : config) (eon : N) : dkg := mkDkg c eon new_voting [] [] [] [].

Fixpoint mem_pair (s r : addr) (l : list (addr * addr)) : bool :=
  match l with
  | [] => false
  | (a, b) :: t => (bytes_eqb a s && bytes_eqb b r) || mem_pair s r t
  end.

Fixpoint dkg_get (m : list (N * dkg)) (eon : N) : option dkg :=
  match m with
  | [] => None
  | (e, d) :: r => if N.eqb e eon then Some d else dkg_get r eon
  end.

Fixpoint dkg_set (m : list (N * dkg)) (eon : N) (d : dkg) : list (N * dkg) :=
  match m with
  | [] => [(eon, d)]
  | (e, d') :: r => if N.eqb e eon then (e, d) :: r else (e, d') :: dkg_set r eon d
  end.

(* ---------------------------------------------------------------- transactions *)

Inductive payload :=
| PBatchConfig (act : N) (keypers : list bytes) (threshold : N) (idx : N)
| PBlockSeen (bn : N)
| PCheckIn (valkey : bytes) (enckey : bytes) (enckey_ok : bool)
| PDkgResult (success : bool) (eon : N)
| PPolyEval (eon : N) (receivers : list bytes) (evals : list bytes)
| PPolyCommitment (eon : N) (gammas : list (bytes * bool))   (* bytes, is a valid G2 point *)
| PAccusation (eon : N) (accused : list bytes)
| PApology (eon : N) (accusers : list bytes) (evals : list bytes)
| PNone.                                                      (* no payload in the envelope *)

Inductive tx :=
| TxBad                                                       (* decodeTx fails *)
| Tx (signer : addr) (chain : bytes) (nonce : N) (p : payload).

Inductive event :=
| EvCheckIn (sender : addr) (enckey : bytes)
| EvBatchConfig (act : N) (threshold : N) (keypers : list addr) (idx : N)
| EvBatchConfigStarted (idx : N)
| EvEonStarted (eon act idx : N)
| EvPolyEval (sender : addr) (eon : N) (receivers : list addr) (evals : list bytes)
| EvPolyCommitment (sender : addr) (eon : N) (gammas : list bytes)
| EvAccusation (sender : addr) (eon : N) (accused : list addr)
| EvApology (sender : addr) (eon : N) (accusers : list addr) (evals : list bytes).

Definition code_ok : N := 0%N.
Definition code_error : N := 1%N.
Definition code_seen : N := 2%N.

Definition max_txs_per_block : Z := 10.

(* ---------------------------------------------------------------- state *)

Record state := mkState {
  configs : list config;
  dkgs : list (N * dkg);
  cfg_voting : voting config;
  last_height : Z;
  identities : amap bytes;       (* keyper address -> validator public key *)
  blocks_seen : amap N;
  validators : powermap;
  eon_counter : N;
  dev_mode : bool;
  chk_members : list addr;       (* CheckTxState.Members (as a set) *)
  chk_counts : amap Z;
  chk_nonces : list (addr * N);
  nonces : list (addr * N);      (* NonceTracker *)
  chain_id : bytes;
  fork_enabled : bool;           (* ForkHeights.CheckInUpdateNew, after migrateForkHeights *)
  fork_height : Z
}.

Definition set_configs (s : state) (c : list config) : state :=
  mkState c (dkgs s) (cfg_voting s) (last_height s) (identities s) (blocks_seen s) (validators s)
    (eon_counter s) (dev_mode s) (chk_members s) (chk_counts s) (chk_nonces s) (nonces s)
    (chain_id s) (fork_enabled s) (fork_height s).
Definition set_dkgs (s : state) (d : list (N * dkg)) : state :=
  mkState (configs s) d (cfg_voting s) (last_height s) (identities s) (blocks_seen s) (validators s)
    (eon_counter s) (dev_mode s) (chk_members s) (chk_counts s) (chk_nonces s) (nonces s)
    (chain_id s) (fork_enabled s) (fork_height s).
Definition set_cfg_voting (s : state) (v : voting config) : state :=
  mkState (configs s) (dkgs s) v (last_height s) (identities s) (blocks_seen s) (validators s)
    (eon_counter s) (dev_mode s) (chk_members s) (chk_counts s) (chk_nonces s) (nonces s)
    (chain_id s) (fork_enabled s) (fork_height s).
Definition set_identities (s : state) (i : amap bytes) : state :=
  mkState (configs s) (dkgs s) (cfg_voting s) (last_height s) i (blocks_seen s) (validators s)
    (eon_counter s) (dev_mode s) (chk_members s) (chk_counts s) (chk_nonces s) (nonces s)
    (chain_id s) (fork_enabled s) (fork_height s).
Definition set_blocks_seen (s : state) (b : amap N) : state :=
  mkState (configs s) (dkgs s) (cfg_voting s) (last_height s) (identities s) b (validators s)
    (eon_counter s) (dev_mode s) (chk_members s) (chk_counts s) (chk_nonces s) (nonces s)
    (chain_id s) (fork_enabled s) (fork_height s).
Definition set_eon_counter (s : state) (e : N) : state :=
  mkState (configs s) (dkgs s) (cfg_voting s) (last_height s) (identities s) (blocks_seen s) (validators s)
    e (dev_mode s) (chk_members s) (chk_counts s) (chk_nonces s) (nonces s)
    (chain_id s) (fork_enabled s) (fork_height s).
Definition set_chk (s : state) (m : list addr) (c : amap Z) (n : list (addr * N)) : state :=
  mkState (configs s) (dkgs s) (cfg_voting s) (last_height s) (identities s) (blocks_seen s) (validators s)
    (eon_counter s) (dev_mode s) m c n (nonces s)
    (chain_id s) (fork_enabled s) (fork_height s).
Definition set_nonces (s : state) (n : list (addr * N)) : state :=
  mkState (configs s) (dkgs s) (cfg_voting s) (last_height s) (identities s) (blocks_seen s) (validators s)
    (eon_counter s) (dev_mode s) (chk_members s) (chk_counts s) (chk_nonces s) n
    (chain_id s) (fork_enabled s) (fork_height s).
Definition set_end_block (s : state) (c : list config) (v : powermap) (h : Z) : state :=
  mkState c (dkgs s) (cfg_voting s) h (identities s) (blocks_seen s) v
    (eon_counter s) (dev_mode s) (chk_members s) (chk_counts s) (chk_nonces s) (nonces s)
    (chain_id s) (fork_enabled s) (fork_height s).

(* ---------------------------------------------------------------- small helpers *)

Fixpoint last_opt {A} (l : list A) : option A :=
  match l with
  | [] => None
  | [x] => Some x
  | _ :: r => last_opt r
  end.

Fixpoint nonce_used (l : list (addr * N)) (a : addr) (n : N) : bool :=
  match l with
  | [] => false
  | (a', n') :: r => (bytes_eqb a' a && N.eqb n' n) || nonce_used r a n
  end.

(* updateCheckTxMembers: all keypers of all configs (duplicates are harmless: a set) *)
Definition all_members (cs : list config) : list addr := flat_map c_keypers cs.

Definition is_keyper_any (s : state) (a : addr) : bool := existsb (fun c => is_keyper c a) (configs s).

(* forkHeightOverrides: chain id -> (override height, override eon); hand-transcribed, and
   checked against the regenerated table in Proofs (Generated/Consts.v) *)
Definition fork_override (chain : bytes) : option (option Z * option N) :=
  if bytes_eqb chain (hx "736875747465722d676e6f7369732d31303030"%string) then Some (None, Some 9%N)        (* shutter-gnosis-1000 *)
  else if bytes_eqb chain (hx "736875747465722d63686961646f2d313032303030"%string) then Some (None, Some 13%N) (* shutter-chiado-102000 *)
  else if bytes_eqb chain (hx "736875747465722d6170692d676e6f7369732d31303031"%string) then Some (None, Some 13%N) (* shutter-api-gnosis-1001 *)
  else if bytes_eqb chain (hx "736875747465722d736572766963652d63686961646f2d31303030"%string) then Some (None, Some 9%N) (* shutter-service-chiado-1000 *)
  else if bytes_eqb chain (hx "736875747465722d6170692d676e6f7369732d31303032"%string) then Some (None, Some 0%N) (* shutter-api-gnosis-1002 *)
  else None.

(* ForkHeight.IsForkActive *)
Definition is_fork_active (override : option (option Z * option N)) (enabled : bool) (height : Z)
           (cur_height : Z) (cur_eon : N) : bool :=
  match override with
  | Some (Some h, _) => h <=? cur_height
  | Some (None, Some e) => (e <=? cur_eon)%N
  | Some (None, None) => false
  | None => if enabled then height <=? cur_height else false
  end.

Definition check_in_fork_active (s : state) : bool :=
  is_fork_active (fork_override (chain_id s)) (fork_enabled s) (fork_height s)
                 (last_height s + 1) (eon_counter s).

(* StartDKG: EONCounter++ wraps at 2^64 *)
Definition start_dkg (s : state) (c : config) : state * dkg :=
  let e := ((eon_counter s + 1) mod 18446744073709551616)%N in
  let d := new_dkg c e in
  (set_dkgs (set_eon_counter s e) (dkg_set (dkgs s) e d), d).

(* strip leading zero bytes: big.Int.SetBytes followed by Bytes() *)
Fixpoint strip_zeros (b : bytes) : bytes :=
  match b with
  | 0%N :: r => strip_zeros r
  | _ => b
  end.

(* ---------------------------------------------------------------- deliver* *)

Section WithEnum.
Variable enum : enumerator.

Definition resp := (N * list event)%type.
Definition err : resp := (code_error, []).
Definition seen : resp := (code_seen, []).

(* checkConfig (true = ok); None = panic in LastConfig *)
Definition check_config (s : state) (c : config) : option bool :=
  if negb (ensure_valid c) then Some false
  else match last_opt (configs s) with
       | None => None
       | Some lc =>
           if (c_act c <? c_act lc)%N then Some false
           else if (c_index c <=? c_index lc)%N then Some false
           else Some true
       end.

Definition deliver_batch_config (s : state) (sender : addr) (act : N) (keypers : list bytes)
           (threshold idx : N) : option (state * resp) :=
  if negb (all_len20 keypers) then Some (s, err)
  else if negb (addrs_unique keypers) then Some (s, err)
  else
    let bc := mkConfig act keypers threshold idx false false in
    match last_opt (configs s) with
    | None => None
    | Some lc =>
        if config_eqb lc bc then Some (s, seen)
        else match check_config s bc with
             | None => None
             | Some false => Some (s, err)
             | Some true =>
                 if negb (is_keyper lc sender) then Some (s, err)
                 else match add_vote config_eqb (cfg_voting s) sender bc with
                      | None => Some (s, err)
                      | Some v' =>
                          let s1 := set_cfg_voting s v' in
                          match outcome enum v' (int_of_u64 (c_threshold lc)) with
                          | None => Some (s1, (code_ok, []))
                          | Some None => None
                          | Some (Some _) =>
                              let s2 := set_cfg_voting s1 new_voting in
                              (* addConfig: checkConfig again, append, update members *)
                              match check_config s2 bc with
                              | None => None
                              | Some false => Some (s2, err)
                              | Some true =>
                                  let cs := configs s2 ++ [bc] in
                                  let s3 := set_chk (set_configs s2 cs) (all_members cs) (chk_counts s2) (chk_nonces s2) in
                                  let '(s4, d) := start_dkg s3 bc in
                                  Some (s4, (code_ok, [EvBatchConfig act threshold keypers idx;
                                                       EvEonStarted (d_eon d) act idx]))
                              end
                          end
                      end
             end
    end.

Definition deliver_check_in (s : state) (sender : addr) (valkey enckey : bytes) (enckey_ok : bool)
  : state * resp :=
  if negb (check_in_fork_active s) && amem (identities s) sender then (s, seen)
  else if negb (is_keyper_any s sender) then (s, err)
  else if negb (Nat.eqb (length valkey) 32) then (s, err)
  else if negb enckey_ok then (s, err)
  else (set_identities s (aset (identities s) sender valkey), (code_ok, [EvCheckIn sender enckey])).

Definition deliver_block_seen (s : state) (sender : addr) (bn : N) : state * resp :=
  let cur := match aget (blocks_seen s) sender with Some b => b | None => 0%N end in
  if (cur <? bn)%N then (set_blocks_seen s (aset (blocks_seen s) sender bn), (code_ok, []))
  else (s, (code_ok, [])).

Definition deliver_dkg_result (s : state) (sender : addr) (success : bool) (eon : N)
  : option (state * resp) :=
  match dkg_get (dkgs s) eon with
  | None => Some (s, err)
  | Some d =>
      let c := d_config d in
      if negb (is_keyper c sender) then Some (s, err)
      else match add_vote Bool.eqb (d_success d) sender success with
           | None => Some (s, seen)
           | Some v' =>
               let d' := mkDkg (d_config d) (d_eon d) v' (d_evals d) (d_commits d) (d_accs d) (d_apos d) in
               let s1 := set_dkgs s (dkg_set (dkgs s) eon d') in
               (* maybeStartEon *)
               match outcome enum v' (int_of_u64 (c_threshold c)) with
               | None => Some (s1, (code_ok, []))
               | Some None => None
               | Some (Some succ) =>
                   if succ || (eon <? eon_counter s1)%N then Some (s1, (code_ok, []))
                   else let '(s2, nd) := start_dkg s1 c in
                        Some (s2, (code_ok, [EvEonStarted (d_eon nd) (c_act c) (c_index c)]))
               end
           end
  end.

Definition upd_dkg (s : state) (eon : N) (d : dkg) : state := set_dkgs s (dkg_set (dkgs s) eon d).

(* RegisterPolyEvalMsg's receiver loop: Some code on refusal *)
Fixpoint check_receivers (c : config) (sender : addr) (seen_pairs : list (addr * addr)) (rs : list addr)
  : option N :=
  match rs with
  | [] => None
  | r :: t =>
      if negb (is_keyper c r) then Some code_error
      else if bytes_eqb r sender then Some code_error
      else if mem_pair sender r seen_pairs then Some code_seen
      else check_receivers c sender seen_pairs t
  end.

Definition handle_poly_eval (s : state) (sender : addr) (eon : N) (receivers evals : list bytes)
  : state * resp :=
  if negb (Nat.eqb (length receivers) (length evals)) then (s, err)
  else if negb (all_len20 receivers) then (s, err)
  else if negb (addrs_unique receivers) then (s, err)
  else match dkg_get (dkgs s) eon with
       | None => (s, err)
       | Some d =>
           if negb (N.eqb eon (d_eon d)) then (s, err)
           else if negb (is_keyper (d_config d) sender) then (s, err)
           else match check_receivers (d_config d) sender (d_evals d) receivers with
                | Some code => (s, (code, []))
                | None =>
                    let d' := mkDkg (d_config d) (d_eon d) (d_success d)
                                    (d_evals d ++ map (fun r => (sender, r)) receivers)
                                    (d_commits d) (d_accs d) (d_apos d) in
                    (upd_dkg s eon d', (code_ok, [EvPolyEval sender eon receivers evals]))
                end
       end.

Definition handle_poly_commitment (s : state) (sender : addr) (eon : N) (gammas : list (bytes * bool))
  : state * resp :=
  if negb (forallb snd gammas) then (s, err)
  else match dkg_get (dkgs s) eon with
       | None => (s, err)
       | Some d =>
           if negb (N.eqb eon (d_eon d)) then (s, err)
           else if negb (is_keyper (d_config d) sender) then (s, err)
           else if mem_addr sender (d_commits d) then (s, seen)
           else let d' := mkDkg (d_config d) (d_eon d) (d_success d) (d_evals d)
                                (d_commits d ++ [sender]) (d_accs d) (d_apos d) in
                (upd_dkg s eon d', (code_ok, [EvPolyCommitment sender eon (map fst gammas)]))
       end.

(* the "others are keypers and differ from the sender" loop of accusations and apologies *)
Fixpoint check_others (c : config) (sender : addr) (l : list addr) : bool :=
  match l with
  | [] => true
  | a :: t => is_keyper c a && negb (bytes_eqb sender a) && check_others c sender t
  end.

Definition handle_accusation (s : state) (sender : addr) (eon : N) (accused : list bytes)
  : state * resp :=
  if negb (all_len20 accused) then (s, err)
  else if negb (addrs_unique accused) then (s, err)
  else match dkg_get (dkgs s) eon with
       | None => (s, err)
       | Some d =>
           if negb (N.eqb eon (d_eon d)) then (s, err)
           else if negb (is_keyper (d_config d) sender) then (s, err)
           else if negb (check_others (d_config d) sender accused) then (s, err)
           else if mem_addr sender (d_accs d) then (s, seen)
           else let d' := mkDkg (d_config d) (d_eon d) (d_success d) (d_evals d)
                                (d_commits d) (d_accs d ++ [sender]) (d_apos d) in
                (upd_dkg s eon d', (code_ok, [EvAccusation sender eon accused]))
       end.

Definition handle_apology (s : state) (sender : addr) (eon : N) (accusers evals : list bytes)
  : state * resp :=
  if negb (Nat.eqb (length accusers) (length evals)) then (s, err)
  else if negb (all_len20 accusers) then (s, err)
  else if negb (addrs_unique accusers) then (s, err)
  else match dkg_get (dkgs s) eon with
       | None => (s, err)
       | Some d =>
           if negb (N.eqb eon (d_eon d)) then (s, err)
           else if negb (is_keyper (d_config d) sender) then (s, err)
           else if negb (check_others (d_config d) sender accusers) then (s, err)
           else if mem_addr sender (d_apos d) then (s, seen)
           else let d' := mkDkg (d_config d) (d_eon d) (d_success d) (d_evals d)
                                (d_commits d) (d_accs d) (d_apos d ++ [sender]) in
                (upd_dkg s eon d', (code_ok, [EvApology sender eon accusers (map strip_zeros evals)]))
       end.

Definition deliver_message (s : state) (sender : addr) (p : payload) : option (state * resp) :=
  match p with
  | PBatchConfig act ks t i => deliver_batch_config s sender act ks t i
  | PBlockSeen bn => Some (deliver_block_seen s sender bn)
  | PCheckIn vk ek ok => Some (deliver_check_in s sender vk ek ok)
  | PDkgResult succ eon => deliver_dkg_result s sender succ eon
  | PPolyEval eon rs es => Some (handle_poly_eval s sender eon rs es)
  | PPolyCommitment eon gs => Some (handle_poly_commitment s sender eon gs)
  | PAccusation eon a => Some (handle_accusation s sender eon a)
  | PApology eon a es => Some (handle_apology s sender eon a es)
  | PNone => Some (s, err)
  end.

Definition deliver_tx (s : state) (t : tx) : option (state * resp) :=
  match t with
  | TxBad => Some (s, err)
  | Tx signer chain nonce p =>
      if negb (bytes_eqb chain (chain_id s)) then Some (s, err)
      else if nonce_used (nonces s) signer nonce then Some (s, err)
      else deliver_message (set_nonces s ((signer, nonce) :: nonces s)) signer p
  end.

(* CheckTx: code only *)
Definition check_tx (s : state) (t : tx) : state * N :=
  match t with
  | TxBad => (s, 1%N)
  | Tx signer chain nonce _ =>
      if negb (bytes_eqb chain (chain_id s)) then (s, 1%N)
      else if nonce_used (nonces s) signer nonce then (s, 1%N)
      else if negb (Nat.eqb (length (chk_members s)) 0) && negb (mem_addr signer (chk_members s)) then (s, 1%N)
      else
        let cnt := match aget (chk_counts s) signer with Some c => c | None => 0 end in
        if max_txs_per_block <=? cnt then (s, 1%N)
        else if nonce_used (chk_nonces s) signer nonce then (s, 1%N)
        else (set_chk s (chk_members s) (aset (chk_counts s) signer (cnt + 1)) ((signer, nonce) :: chk_nonces s), 0%N)
  end.

(* ---------------------------------------------------------------- blocks *)

Definition begin_block (s : state) (height : Z) : option (list event) :=
  if height =? 1 then
    match configs s with
    | [] => None
    | c :: _ => Some [EvBatchConfig (c_act c) (c_threshold c) (c_keypers c) (c_index c)]
    end
  else Some [].

Definition count_checked_in (ids : amap bytes) (keypers : list addr) : N :=
  N.of_nat (length (filter (fun k => amem ids k) keypers)).

(* numRequiredTransitionValidators; n fits an int, the subtraction is done in int and then
   converted to uint64 (non-negative for n > 0) *)
Definition num_required_transition (c : config) : N :=
  let n := Z.of_nat (length (c_keypers c)) in
  if n =? 0 then 0%N
  else let defenders := Z.to_N (n - (n + 2) / 3 + 1) in
       if (defenders <=? c_threshold c)%N then c_threshold c else defenders.

Definition count_seen (bs : amap N) (keypers : list addr) (act : N) : N :=
  N.of_nat (length (filter (fun k => match aget bs k with Some b => (act <=? b)%N | None => false end) keypers)).

(* the loop of EndBlock; [prev] is Configs[i-1] (None for i = 0) *)
Fixpoint end_block_configs (s : state) (prev : option config) (cs : list config)
  : list config * list event :=
  match cs with
  | [] => ([], [])
  | c :: r =>
      let allow := match prev with Some p => p | None => c end in
      let start_now := negb (c_started c) &&
                       (c_threshold allow <=? count_seen (blocks_seen s) (c_keypers allow) (c_act c))%N in
      let c1 := if start_now then mkConfig (c_act c) (c_keypers c) (c_threshold c) (c_index c) true (c_valupd c) else c in
      let ev1 := if start_now then [EvBatchConfigStarted (c_index c)] else [] in
      let c2 := if c_started c1 && negb (c_valupd c1) &&
                   (num_required_transition c1 <=? count_checked_in (identities s) (c_keypers c1))%N
                then mkConfig (c_act c1) (c_keypers c1) (c_threshold c1) (c_index c1) (c_started c1) true else c1 in
      let '(r', evs) := end_block_configs s (Some c2) r in
      (c2 :: r', ev1 ++ evs)
  end.

Definition nonexistent_validator : bytes :=
  hx "6e6f76616c696461746f72000000000000000000000000000000000000000000"%string.

Definition make_powermap (ids : amap bytes) (keypers : list addr) : powermap :=
  fold_left (fun pm k =>
               let key := match aget ids k with Some v => v | None => nonexistent_validator end in
               aset pm key (pget0 pm key + 10)) keypers [].

Fixpoint current_validators_rev (ids : amap bytes) (dflt : powermap) (rcs : list config) : powermap :=
  match rcs with
  | [] => dflt
  | c :: r => if c_started c && c_valupd c then make_powermap ids (c_keypers c)
              else current_validators_rev ids dflt r
  end.

Definition current_validators (ids : amap bytes) (dflt : powermap) (cs : list config) : powermap :=
  current_validators_rev ids dflt (rev cs).

Definition end_block (s : state) (height : Z) : state * (list (bytes * Z) * list event) :=
  let '(cs, evs) := end_block_configs s None (configs s) in
  let newv := current_validators (identities s) (validators s) cs in
  let ups := validator_updates_enum
               (enum _ (diff_powermaps_enum (validators s) newv (enum _ (validators s)) (enum _ newv))) in
  let s' := set_end_block s cs newv height in
  (s', (if dev_mode s then [] else ups, evs)).

Definition commit (s : state) : state := set_chk s (chk_members s) [] [].

(* ---------------------------------------------------------------- genesis *)
End WithEnum.


Record genesis := mkGenesis {
  g_keypers : list addr;
  g_threshold : N;
  g_initial_eon : N;
  g_fork_enabled : bool;
  g_fork_height : Z;
  g_validators : list (bytes * Z);
  g_chain_id : bytes;
  g_dev_mode : bool
}.

(* MakePowermap(req.Validators): powers of equal keys add up *)
Definition genesis_powermap (l : list (bytes * Z)) : powermap :=
  fold_left (fun pm kv => aset pm (fst kv) (pget0 pm (fst kv) + snd kv)) l [].

(* None = log.Fatal (invalid genesis) *)
Definition init_chain (g : genesis) : option state :=
  let bc := mkConfig 0 (g_keypers g) (g_threshold g) 0 false false in
  if negb (ensure_valid bc) then None
  else if negb (forallb (fun kv => Nat.eqb (length (fst kv)) 32) (g_validators g)) then None
  else Some (mkState [bc] [] new_voting 0 [] [] (genesis_powermap (g_validators g)) (g_initial_eon g)
                     (g_dev_mode g) (g_keypers g) [] [] [] (g_chain_id g) (g_fork_enabled g) (g_fork_height g)).

(* ---------------------------------------------------------------- calls and runs *)

Inductive call :=
| CBegin (height : Z)
| CCheck (t : tx)
| CDeliver (t : tx)
| CEnd (height : Z)
| CCommit.

Inductive response :=
| RBegin (evs : list event)
| RCheck (code : N)
| RDeliver (code : N) (evs : list event)
| REnd (ups : list (bytes * Z)) (evs : list event)
| RCommit
| RPanic.

Section RunWithEnum.
Variable enum : enumerator.

Definition step (s : state) (c : call) : state * response :=
  match c with
  | CBegin h => match begin_block s h with Some evs => (s, RBegin evs) | None => (s, RPanic) end
  | CCheck t => let '(s', code) := check_tx s t in (s', RCheck code)
  | CDeliver t => match deliver_tx enum s t with
                  | Some (s', (code, evs)) => (s', RDeliver code evs)
                  | None => (s, RPanic)
                  end
  | CEnd h => let '(s', (ups, evs)) := end_block enum s h in (s', REnd ups evs)
  | CCommit => (commit s, RCommit)
  end.

Fixpoint run (s : state) (cs : list call) : state * list response :=
  match cs with
  | [] => (s, [])
  | c :: r => let '(s1, o) := step s c in let '(s2, os) := run s1 r in (s2, o :: os)
  end.
End RunWithEnum.

(* a run in which every call has its own enumerator (Go may enumerate differently each time) *)
Fixpoint run_enums (es : nat -> enumerator) (k : nat) (s : state) (cs : list call) : state * list response :=
  match cs with
  | [] => (s, [])
  | c :: r => let '(s1, o) := step (es k) s c in let '(s2, os) := run_enums es (S k) s1 r in (s2, o :: os)
  end.
