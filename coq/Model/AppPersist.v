(* Model of the persistence of the shuttermint application (app.go PersistToDisk,
   maybePersistToDisk, Commit, Info, LoadShutterAppFromFile).

   The image lists every persisted field explicitly (gob encodes all exported fields of
   ShutterApp; Gobpath and LastSaved are overwritten on load and are not part of the model
   state).  The byte format (gob) is a dependency: an abstract encoding [enc] with a decoder
   that inverts it, Section variables of the theorems.  The file system is two slots, the
   main file and the temporary file; PersistToDisk is the operation sequence
   create-tmp, write chunk 1 .. write chunk k, sync, rename; a crash stops it after any
   prefix. *)
From Coq Require Import List NArith ZArith Bool.
From Verif Require Import Lib.Bytes Lib.Assoc Model.Powermap Model.App.
Import ListNotations.

Record image := mkImage {
  i_configs : list config;
  i_dkgs : list (N * dkg);
  i_cfg_voting : voting config;
  i_last_height : Z;
  i_identities : amap bytes;
  i_blocks_seen : amap N;
  i_validators : powermap;
  i_eon_counter : N;
  i_dev_mode : bool;
  i_chk_members : list addr;
  i_chk_counts : amap Z;
  i_chk_nonces : list (addr * N);
  i_nonces : list (addr * N);
  i_chain_id : bytes;
  i_fork_enabled : bool;
  i_fork_height : Z
}.

Definition snapshot (s : state) : image :=
  mkImage (configs s) (dkgs s) (cfg_voting s) (last_height s) (identities s) (blocks_seen s)
          (validators s) (eon_counter s) (dev_mode s) (chk_members s) (chk_counts s) (chk_nonces s)
          (nonces s) (chain_id s) (fork_enabled s) (fork_height s).

(* LoadShutterAppFromFile after a successful decode; migrateForkHeights is the identity on
   an image written by this version (the legacy pointer is cleared at InitChain and at every
   load, so a saved image never carries it) *)
Definition load (i : image) : state :=
  mkState (i_configs i) (i_dkgs i) (i_cfg_voting i) (i_last_height i) (i_identities i) (i_blocks_seen i)
          (i_validators i) (i_eon_counter i) (i_dev_mode i) (i_chk_members i) (i_chk_counts i) (i_chk_nonces i)
          (i_nonces i) (i_chain_id i) (i_fork_enabled i) (i_fork_height i).

(* Info().LastBlockHeight *)
Definition info_height (s : state) : Z := last_height s.

(* ---------------------------------------------------------------- file system *)
Record fs := mkFs { f_main : option bytes; f_tmp : option bytes }.

Inductive fsop :=
| OCreateTmp                 (* os.Create(tmppath): truncate *)
| OWrite (chunk : bytes)     (* a successful partial write of the encoder *)
| OSync
| ORename.                   (* os.Rename(tmp, main) *)

Definition fs_step (f : fs) (o : fsop) : fs :=
  match o with
  | OCreateTmp => mkFs (f_main f) (Some [])
  | OWrite c => mkFs (f_main f) (match f_tmp f with Some b => Some (b ++ c) | None => None end)
  | OSync => f
  | ORename => match f_tmp f with Some b => mkFs (Some b) None | None => f end
  end.

(* the operations of one PersistToDisk of the byte string [b] split into [chunks] *)
Definition persist_ops (chunks : list bytes) : list fsop :=
  OCreateTmp :: map OWrite chunks ++ [OSync; ORename].

Definition run_fs (f : fs) (ops : list fsop) : fs := fold_left fs_step ops f.

(* ---------------------------------------------------------------- Commit with persistence *)
Section Codec.
  Variable enc : image -> bytes.
  Variable dec : bytes -> option image.

  (* LoadShutterAppFromFile: no file -> a fresh app is the caller's business (None here) *)
  Definition load_from_disk (f : fs) : option (option state) :=
    match f_main f with
    | None => Some None                          (* os.IsNotExist: NewShutterApp *)
    | Some b => match dec b with
                | Some i => Some (Some (load i))
                | None => None                   (* decode error: the node refuses to start *)
                end
    end.

  (* Commit: reset the check-tx state; persist when the throttle [due] says so *)
  Definition commit_persist (due : bool) (s : state) (f : fs) : state * fs :=
    let s' := commit s in
    if due then (s', run_fs f (persist_ops [enc (snapshot s')])) else (s', f).
End Codec.
