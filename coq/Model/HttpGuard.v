(* Executable model of the keyper HTTP API's request path, for property C18:

     net/http request parsing (net/url setPath: Path / RawPath)
     -> chi root router (kprapi.setupRouter: Mount(p, http.StripPrefix(p, api)))
     -> api router middlewares (kprapi.setupAPIRouter): OapiRequestValidator, then
        kproapi.ConfigMiddleware (the read-only guard: findOperation / isReadOnlyEndpoint /
        shouldEnableEndpoint of kproapi/middleware.go)
     -> chi routing of the generated routes (kproapi.HandlerWithOptions).

   Definitions only. The operation table is a parameter ([table]); the one of the source is
   Generated/OapiTable.v.  Byte strings are [list N].

   What is modelled rather than verified (the differential run of harness/cmd/c18 is the tie):
   net/url escaping rules, http.StripPrefix, chi v5.0.10 routing for patterns whose segments are
   whole literals or whole {parameters} (mount wildcard, RoutePath hand-over, static before
   parameter, an inner parameter may be empty while a final one may not, no slash
   normalisation), kin-openapi v0.87.0 Paths.Find (exact key, else equality after erasing
   parameter names, at byte level), and Go regexp semantics of the pattern findOperation builds
   (for templates of the shape above: segment-wise, parameter = one non-empty segment). *)
From Coq Require Import List NArith Bool Ascii String.
From Verif Require Import Lib.Bytes.
Import ListNotations.
Open Scope N_scope.

(* ------------------------------------------------------------------------------------- *)
(* ASCII literals as byte strings *)

Fixpoint bs (s : string) : bytes :=
  match s with
  | EmptyString => []
  | String a r => N_of_ascii a :: bs r
  end.

Definition is_nil {A} (l : list A) : bool := match l with [] => true | _ => false end.

Fixpoint bytes_mem (x : bytes) (l : list bytes) : bool :=
  match l with
  | [] => false
  | y :: r => bytes_eqb x y || bytes_mem x r
  end.

(* strings.HasPrefix *)
Fixpoint has_prefix (p s : bytes) : bool :=
  match p, s with
  | [], _ => true
  | a :: p', b :: s' => N.eqb a b && has_prefix p' s'
  | _ :: _, [] => false
  end.

(* strings.TrimPrefix *)
Definition trim_prefix (p s : bytes) : bytes :=
  if has_prefix p s then skipn (List.length p) s else s.

Definition c_slash : N := 47.
Definition c_percent : N := 37.
Definition c_lbrace : N := 123.
Definition c_rbrace : N := 125.

Definition in_range (lo hi c : N) : bool := (lo <=? c) && (c <=? hi).
Definition is_lower (c : N) := in_range 97 122 c.
Definition is_upper (c : N) := in_range 65 90 c.
Definition is_digit (c : N) := in_range 48 57 c.
Definition is_alnum (c : N) := is_lower c || is_upper c || is_digit c.

(* ------------------------------------------------------------------------------------- *)
(* net/url: unescape / escape in encodePath mode, setPath *)

Definition ishex (c : N) : bool := is_digit c || in_range 97 102 c || in_range 65 70 c.
Definition unhex (c : N) : N :=
  if is_digit c then c - 48 else if in_range 97 102 c then c - 87 else if in_range 65 70 c then c - 55 else 0.

(* url.unescape(s, encodePath): None = EscapeError *)
Fixpoint unescape (s : bytes) : option bytes :=
  match s with
  | [] => Some []
  | c :: r =>
      if N.eqb c c_percent then
        match r with
        | a :: b :: r' =>
            if ishex a && ishex b then
              match unescape r' with
              | Some t => Some ((unhex a * 16 + unhex b) :: t)
              | None => None
              end
            else None
        | _ => None
        end
      else
        match unescape r with
        | Some t => Some (c :: t)
        | None => None
        end
  end.

(* url.shouldEscape(c, encodePath) *)
Definition should_escape (c : N) : bool :=
  if is_alnum c then false
  else if bytes_mem [c] [bs "-"; bs "_"; bs "."; bs "~"] then false
  else if bytes_mem [c] [bs "$"; bs "&"; bs "+"; bs ","; bs "/"; bs ":"; bs ";"; bs "="; bs "@"] then false
  else true.

Definition upperhex (d : N) : N := if d <? 10 then 48 + d else 55 + d.

Definition escape (s : bytes) : bytes :=
  flat_map (fun c => if should_escape c then [c_percent; upperhex (c / 16); upperhex (c mod 16)] else [c]) s.

(* url.stringContainsCTLByte *)
Definition has_ctl (s : bytes) : bool := existsb (fun c => (c <? 32) || N.eqb c 127) s.

(* The path part of the request target (up to the first '?') as url.ParseRequestURI treats it:
   None = the request is refused with 400 before any handler runs;
   Some (Path, RawPath) otherwise (RawPath = "" when the default encoding of Path is the input). *)
Definition parse_path (p : bytes) : option (bytes * bytes) :=
  if has_ctl p then None
  else match unescape p with
       | None => None
       | Some path => Some (path, if bytes_eqb p (escape path) then [] else p)
       end.

(* ------------------------------------------------------------------------------------- *)
(* The operation table *)

Inductive rokind := RoAbsent | RoTrue | RoFalse | RoOther.

Record spec_op := mk_op { op_method : bytes; op_template : bytes; op_ro : rokind; op_id : bytes }.
Record route := mk_route { r_method : bytes; r_pattern : bytes; r_handler : bytes }.

Record table := {
  t_mount : bytes;                          (* "/v1" *)
  t_yaml_ops : list spec_op;                (* kproapi/oapi.yaml *)
  t_embedded_ops : list spec_op;            (* swaggerSpec of oapi.gen.go = what GetSwagger yields *)
  t_routes : list route;                    (* HandlerWithOptions *)
  t_guard_switch : list (bytes * bytes);    (* findOperation's method switch *)
  t_should_enable : bool -> bool -> bool;   (* shouldEnableEndpoint (isReadOnly, enableWrite) *)
  t_senders : list (bytes * bytes)          (* (channel, function sending on it) *)
}.

(* isReadOnlyEndpoint: json.RawMessage equal to "true", or boolean true *)
Definition is_read_only (k : rokind) : bool := match k with RoTrue => true | _ => false end.

(* distinct templates of the spec, in first-occurrence order: the keys of spec.Paths *)
Fixpoint dedup (l : list bytes) : list bytes :=
  match l with
  | [] => []
  | x :: r => if bytes_mem x r then dedup r else x :: dedup r
  end.
Definition templates_of (ops : list spec_op) : list bytes := dedup (map op_template ops).

Fixpoint lookup_op (ops : list spec_op) (m t : bytes) : option spec_op :=
  match ops with
  | [] => None
  | o :: r => if bytes_eqb (op_method o) m && bytes_eqb (op_template o) t then Some o else lookup_op r m t
  end.

Fixpoint assoc_bytes (l : list (bytes * bytes)) (k : bytes) : option bytes :=
  match l with
  | [] => None
  | (a, b) :: r => if bytes_eqb a k then Some b else assoc_bytes r k
  end.

(* ------------------------------------------------------------------------------------- *)
(* Path templates *)

Inductive seg := SLit (l : bytes) | SParam (name : bytes).

(* strings.Split(s, "/") *)
Fixpoint split_slash (s : bytes) : list bytes :=
  match s with
  | [] => [[]]
  | c :: r =>
      if N.eqb c c_slash then [] :: split_slash r
      else match split_slash r with
           | cur :: rest => (c :: cur) :: rest
           | [] => [[c]]
           end
  end.

Definition lit_char_ok (c : N) : bool := is_alnum c || bytes_mem [c] [bs "-"; bs "."; bs "_"; bs "~"].
Definition name_char_ok (c : N) : bool := is_alnum c || N.eqb c 95.

(* one segment of a template: a literal over [A-Za-z0-9._~-]* or one whole {name} *)
Definition parse_seg (s : bytes) : option seg :=
  match s with
  | c :: r =>
      if N.eqb c c_lbrace then
        match rev r with
        | e :: name_rev =>
            if N.eqb e c_rbrace && negb (is_nil name_rev) && forallb name_char_ok name_rev
            then Some (SParam (rev name_rev)) else None
        | [] => None
        end
      else if forallb lit_char_ok s then Some (SLit s) else None
  | [] => Some (SLit [])
  end.

Fixpoint parse_segs (l : list bytes) : option (list seg) :=
  match l with
  | [] => Some []
  | s :: r =>
      match parse_seg s, parse_segs r with
      | Some x, Some xs => Some (x :: xs)
      | _, _ => None
      end
  end.

(* None: a shape this model does not cover (the translator refuses such sources) *)
Definition parse_template (t : bytes) : option (list seg) :=
  match t with
  | c :: r => if N.eqb c c_slash then parse_segs (split_slash r) else None
  | [] => None
  end.

Definition seg_is_lit (s : seg) : bool := match s with SLit _ => true | SParam _ => false end.

(* ------------------------------------------------------------------------------------- *)
(* chi: one router level (tree.findRoute) for whole-segment patterns *)

(* the pattern's segments against the request path's segments: a literal must be equal; a
   parameter takes the text up to the next '/', which may be empty unless it is the last
   segment (findRoute skips parameter nodes when nothing is left to match) *)
Fixpoint chi_match_segs (ps : list seg) (vs : list bytes) : bool :=
  match ps, vs with
  | [], [] => true
  | SLit l :: ps', v :: vs' => bytes_eqb l v && chi_match_segs ps' vs'
  | SParam _ :: ps', v :: vs' => (negb (is_nil vs') || negb (is_nil v)) && chi_match_segs ps' vs'
  | _, _ => false
  end.

Definition chi_match (pattern route_path : bytes) : bool :=
  match parse_template pattern, route_path with
  | Some ps, c :: r => N.eqb c c_slash && chi_match_segs ps (split_slash r)
  | _, _ => false
  end.

(* static nodes are tried before parameter nodes, with backtracking: among the matching
   patterns the one that is literal at the first position where they differ in kind *)
Fixpoint segs_before (a b : list seg) : bool :=
  match a, b with
  | SLit _ :: a', SLit _ :: b' => segs_before a' b'
  | SParam _ :: a', SParam _ :: b' => segs_before a' b'
  | SLit _ :: _, SParam _ :: _ => true
  | _, _ => false
  end.

Definition pattern_before (a b : bytes) : bool :=
  match parse_template a, parse_template b with
  | Some sa, Some sb => segs_before sa sb
  | _, _ => false
  end.

Fixpoint best_route (cur : route) (rest : list route) : route :=
  match rest with
  | [] => cur
  | r :: rest' => best_route (if pattern_before (r_pattern r) (r_pattern cur) then r else cur) rest'
  end.

Inductive chi_result := ChiFound (r : route) | ChiNotFound | ChiMethodNotAllowed.

Definition chi_find (routes : list route) (m route_path : bytes) : chi_result :=
  let cands := filter (fun r => chi_match (r_pattern r) route_path) routes in
  match filter (fun r => bytes_eqb (r_method r) m) cands with
  | r :: rest => ChiFound (best_route r rest)
  | [] => if is_nil cands then ChiNotFound else ChiMethodNotAllowed
  end.

(* the methods of chi's methodMap; any other method is answered 405 by routeHTTP *)
Definition chi_methods : list bytes :=
  [bs "CONNECT"; bs "DELETE"; bs "GET"; bs "HEAD"; bs "OPTIONS"; bs "PATCH"; bs "POST"; bs "PUT"; bs "TRACE"].

(* ------------------------------------------------------------------------------------- *)
(* The root router of setupRouter *)

(* Mux.routeHTTP: RawPath if set, else Path; "/" when empty *)
Definition route_path_of (path rawpath : bytes) : bytes :=
  let rp := if is_nil rawpath then path else rawpath in
  if is_nil rp then [c_slash] else rp.

Inductive outer_result :=
| OuterMethodNotAllowed                 (* method unknown to chi: 405 *)
| OuterOutside                          (* not below the API mount (api.json, metrics, ui, 404) *)
| OuterMount (inner_route_path : bytes) (* the Mount handler ran: RoutePath handed to the api router *).

(* Mount(p, h) registers p, p+"/" and p+"/*"; the mount handler sets RoutePath to "/" + the
   wildcard's value ("/" for the first two) *)
Definition outer_route (pfx m rp : bytes) : outer_result :=
  if negb (bytes_mem m chi_methods) then OuterMethodNotAllowed
  else if bytes_eqb rp pfx || bytes_eqb rp (pfx ++ [c_slash]) then OuterMount [c_slash]
  else if has_prefix (pfx ++ [c_slash]) rp then OuterMount (c_slash :: skipn (S (List.length pfx)) rp)
  else OuterOutside.

(* http.StripPrefix: None = 404 *)
Definition strip_prefix (pfx path rawpath : bytes) : option (bytes * bytes) :=
  let p := trim_prefix pfx path in
  let rp := trim_prefix pfx rawpath in
  if Nat.ltb (List.length p) (List.length path) && (is_nil rawpath || Nat.ltb (List.length rp) (List.length rawpath))
  then Some (p, rp) else None.

(* ------------------------------------------------------------------------------------- *)
(* The guard: kproapi.ConfigMiddleware *)

(* openapi3.normalizeTemplatedPath, at byte level: text between '{' and '}' is erased; the
   count is the number of '{' seen outside a variable. (No '{' at all: the input and 0, which
   is what the general case computes as well.) *)
Fixpoint normalize (s : bytes) (in_var : bool) : bytes * N :=
  match s with
  | [] => ([], 0)
  | c :: r =>
      if in_var then
        if N.eqb c c_rbrace then let '(t, n) := normalize r false in (c :: t, n)
        else normalize r true
      else if N.eqb c c_lbrace then let '(t, n) := normalize r true in (c :: t, n + 1)
      else let '(t, n) := normalize r false in (c :: t, n)
  end.

Definition norm_eq (template key : bytes) : bool :=
  let '(tn, tc) := normalize template false in
  let '(kn, kc) := normalize key false in
  N.eqb tc kc && bytes_eqb tn kn.

(* the anchored regular expression findOperation builds from a template: literal segments
   verbatim, {x} -> [^/]+ *)
Fixpoint regex_match_segs (ps : list seg) (vs : list bytes) : bool :=
  match ps, vs with
  | [], [] => true
  | SLit l :: ps', v :: vs' => bytes_eqb l v && regex_match_segs ps' vs'
  | SParam _ :: ps', v :: vs' => negb (is_nil v) && regex_match_segs ps' vs'
  | _, _ => false
  end.

Definition regex_match (template path : bytes) : bool :=
  match parse_template template, path with
  | Some ps, c :: r => N.eqb c c_slash && regex_match_segs ps (split_slash r)
  | _, _ => false
  end.

(* spec.Paths.Find(path), then the regexp fallback. [enum_find] and [enum_re] are the orders in
   which the two `range spec.Paths` loops enumerate the map. Result: the template found. *)
Definition find_item (templates enum_find enum_re : list bytes) (path : bytes) : option bytes :=
  if bytes_mem path templates then Some path
  else match find (fun t => norm_eq t path) enum_find with
       | Some t => Some t
       | None => find (fun t => regex_match t path) enum_re
       end.

Inductive guard_result := GuardPass | GuardNotFound | GuardForbidden.

Definition guard (tbl : table) (enable_write : bool) (enum_find enum_re : list bytes) (path m : bytes)
  : guard_result :=
  let ops := t_embedded_ops tbl in
  match find_item (templates_of ops) enum_find enum_re path with
  | None => GuardNotFound
  | Some t =>
      match assoc_bytes (t_guard_switch tbl) m with
      | None => GuardNotFound
      | Some sm =>
          match lookup_op ops sm t with
          | None => GuardNotFound
          | Some o => if t_should_enable tbl (is_read_only (op_ro o)) enable_write then GuardPass else GuardForbidden
          end
      end
  end.

(* ------------------------------------------------------------------------------------- *)
(* The whole stack *)

Inductive verdict :=
| VBadRequestURI          (* net/http answers 400, no handler runs *)
| VOuterMethodNotAllowed  (* 405 from the root router *)
| VOutside                (* not an API request *)
| VStripNotFound          (* http.StripPrefix answers 404 *)
| VValidatorReject        (* OapiRequestValidator answered *)
| VGuardNotFound          (* guard: 404 "Endpoint not found" *)
| VGuardForbidden         (* guard: 403 "Endpoint not enabled" *)
| VInnerNotFound          (* api router: 404 *)
| VInnerMethodNotAllowed  (* api router: 405 *)
| VDispatch (r : route)   (* the generated wrapper of route r runs *).

(* [validator method path rawpath] = true when OapiRequestValidator lets the request through
   (path and rawpath are those of the stripped request it sees). *)
Definition serve (tbl : table) (validator : bytes -> bytes -> bytes -> bool) (enable_write : bool)
           (enum_find enum_re : list bytes) (m raw : bytes) : verdict :=
  match parse_path raw with
  | None => VBadRequestURI
  | Some (path, rawpath) =>
      match outer_route (t_mount tbl) m (route_path_of path rawpath) with
      | OuterMethodNotAllowed => VOuterMethodNotAllowed
      | OuterOutside => VOutside
      | OuterMount irp =>
          match strip_prefix (t_mount tbl) path rawpath with
          | None => VStripNotFound
          | Some (p2, rp2) =>
              if negb (validator m p2 rp2) then VValidatorReject
              else match guard tbl enable_write enum_find enum_re p2 m with
                   | GuardNotFound => VGuardNotFound
                   | GuardForbidden => VGuardForbidden
                   | GuardPass =>
                       match chi_find (t_routes tbl) m irp with
                       | ChiFound r => VDispatch r
                       | ChiNotFound => VInnerNotFound
                       | ChiMethodNotAllowed => VInnerMethodNotAllowed
                       end
                   end
          end
      end
  end.

(* ------------------------------------------------------------------------------------- *)
(* What the property speaks about *)

Definition ucfirst (s : bytes) : bytes :=
  match s with
  | c :: r => (if is_lower c then c - 32 else c) :: r
  | [] => []
  end.

(* the operation a route serves, as the OpenAPI document (oapi.yaml) describes it *)
Definition route_op (tbl : table) (r : route) : option spec_op :=
  lookup_op (t_yaml_ops tbl) (r_method r) (r_pattern r).

Definition route_marked_read_only (tbl : table) (r : route) : bool :=
  match route_op tbl r with
  | Some o => is_read_only (op_ro o)
  | None => false
  end.

(* the handlers the property names: shutdown and decryption trigger; plus every function
   that sends on the shutdown / trigger channels according to the source *)
Definition named_critical : list bytes := [bs "Shutdown"; bs "SubmitDecryptionTrigger"].
Definition critical_handlers (tbl : table) : list bytes := named_critical ++ map snd (t_senders tbl).

(* the canonical request of an operation: mount prefix + template with every {parameter}
   replaced by [v] *)
Fixpoint inst_segs (ps : list seg) (v : bytes) : bytes :=
  match ps with
  | [] => []
  | SLit l :: r => c_slash :: l ++ inst_segs r v
  | SParam _ :: r => c_slash :: v ++ inst_segs r v
  end.

Definition canonical_path (tbl : table) (template v : bytes) : option bytes :=
  match parse_template template with
  | Some ps => Some (t_mount tbl ++ inst_segs ps v)
  | None => None
  end.
